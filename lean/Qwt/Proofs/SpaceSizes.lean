import Qwt.Proofs.Space
import Qwt.Proofs.RSQBuild
import Qwt.Proofs.RSQBridge
import Qwt.Proofs.RSBinWide
import Qwt.Proofs.RSBinNarrow
import Qwt.Proofs.PfsBuild
import Qwt.Proofs.QWT
import Qwt.Proofs.BinWMNew

/-! Buffer sizes established by the constructors (C14, C16): the size hypotheses of
`Qwt/Proofs/Space.lean` (`RSQSize`, `RSWSize`, `selectSamples.size = 4 / 2`) derived from the
construction invariants, by forward reasoning over the construction paths
(`x >>= f = .ok b → ∃ a, x = .ok a ∧ f a = .ok b`).

The select sampling periods (`rsqSelectNumSamples`, `narrow*PerHint`, `wide*PerHint`) and the
sample shift of the prefetch support are extracted from the crate; the size facts are stated
with the extracted NAMES (`RSQSizeP`: `n / rsqSelectNumSamples + 8` sample entries, `RSWSize'`:
`n / widePer + 5`), and the numeric bounds use only the side conditions of section
"side conditions" below (`4096 ≤ rsqSelectNumSamples`, `4096 ≤ widePer`, `1024 ≤ narrowPer`),
decided on the extracted values: a larger period only makes the structures smaller. -/
set_option linter.unusedVariables false

namespace Qwt.SpaceSizes
open Qwt Qwt.Space

/-! ### forward reasoning in `M` -/

theorem bind_ok {α β : Type} {x : M α} {f : α → M β} {b : β} (h : x >>= f = .ok b) :
    ∃ a, x = .ok a ∧ f a = .ok b := by
  cases x with
  | error e => cases h
  | ok a => exact ⟨a, rfl, h⟩

theorem pure_ok {α : Type} {a b : α} (h : (pure a : M α) = .ok b) : a = b := by
  cases h; rfl

/-- invariant rule for `foldlM` in `M`, with a step counter -/
theorem foldlM_inv {σ α : Type} (P : Nat → σ → Prop) (f : σ → α → M σ)
    (hstep : ∀ k st a st', P k st → f st a = .ok st' → P (k + 1) st') :
    ∀ (l : List α) (k : Nat) (st st' : σ), P k st → l.foldlM f st = .ok st' → P (k + l.length) st' := by
  intro l
  induction l with
  | nil => intro k st st' hP h; cases h; exact hP
  | cons a l ih =>
    intro k st st' hP h
    rw [List.foldlM_cons] at h
    obtain ⟨st1, h1, h2⟩ := bind_ok h
    have := ih (k + 1) st1 st' (hstep k st a st1 hP h1) h2
    rw [List.length_cons, show k + (l.length + 1) = k + 1 + l.length by omega]
    exact this

/-! ### division by a variable period -/

theorem div_add_div_le (a b P : Nat) (hP : 0 < P) : a / P + b / P ≤ (a + b) / P := by
  rw [Nat.le_div_iff_mul_le hP, Nat.add_mul]
  exact Nat.add_le_add (Nat.div_mul_le_self a P) (Nat.div_mul_le_self b P)

/-- `⌈k/P⌉ ≤ ⌊k/P⌋ + 1` -/
theorem ceil_le_succ (k P : Nat) (hP : 0 < P) : (k + P - 1) / P ≤ k / P + 1 := by
  rw [← Nat.add_div_right k hP]
  exact Nat.div_le_div_right (by omega)

/-! ### side conditions on the extracted sampling periods

Everything below uses the extracted constants only through these facts. -/

section side
open Qwt.Extracted

/-- `RSSupportPlain`: one select sample per `rsqSelectNumSamples` occurrences -/
theorem rsqPer_ge : 4096 ≤ rsqSelectNumSamples := by decide

/-- the smaller of the two hint periods of `RSWide` -/
def widePer : Nat := min wideOnesPerHint wideZerosPerHint
theorem widePer_ge : 4096 ≤ widePer := by decide
theorem widePer_le (bit : Bool) : widePer ≤ RSW.per bit := by
  cases bit
  · exact Nat.min_le_right _ _
  · exact Nat.min_le_left _ _

/-- the smaller of the two hint periods of `RSNarrow` -/
def narrowPer : Nat := min narrowOnesPerHint narrowZerosPerHint
theorem narrowPer_ge : 1024 ≤ narrowPer := by decide
theorem narrowPer_le (bit : Bool) : narrowPer ≤ RSN.per bit := by
  cases bit
  · exact Nat.min_le_right _ _
  · exact Nat.min_le_left _ _

/-- the literal values at the time of writing -/
theorem widePer_8192 (h1 : wideOnesPerHint = 8192) (h0 : wideZerosPerHint = 8192) : widePer = 8192 := by
  unfold widePer; rw [h1, h0]; rfl
theorem narrowPer_1024 (h1 : narrowOnesPerHint = 1024) (h0 : narrowZerosPerHint = 1024) :
    narrowPer = 1024 := by
  unfold narrowPer; rw [h1, h0]; rfl

/-- hints of both kinds over `c0 + c1 = m` counted bits: at most `m / P` in total, `P` the
    smaller period -/
theorem hints_le {c0 c1 m P0 P1 P : Nat} (hP : 0 < P) (h0 : P ≤ P0) (h1 : P ≤ P1) (hm : c1 + c0 = m) :
    c0 / P0 + c1 / P1 ≤ m / P := by
  have a0 := Nat.div_le_div_left (a := c0) h0 hP
  have a1 := Nat.div_le_div_left (a := c1) h1 hP
  have := div_add_div_le c0 c1 P hP
  rw [← hm, Nat.add_comm c1 c0]
  omega

end side

/-! ### `RSSupportPlain::new`: the sample arrays -/

section rsq
open Qwt.RSQ Qwt.RSQP Qwt.QV Qwt.Extracted

/-- the sample arrays of the result are the loop's arrays, padded and closed by a sentinel -/
theorem rsNew_samples {dbg : Bool} {B : Nat} {q : QVector} {rs : RSSupportPlain}
    (h : rsNew dbg B q = .ok rs) :
    ∃ st k, (List.range (QV.len q + 1)).foldlM (buildStep dbg B q) {} = .ok st ∧
      rs.selectSamples = st.samples.map (fun s => (if s.isEmpty then s.push 0 else s).push k) := by
  unfold rsNew at h
  obtain ⟨_, _, h⟩ := bind_ok h
  obtain ⟨_, _, h⟩ := bind_ok h
  obtain ⟨st, hst, h⟩ := bind_ok h
  dsimp only at h
  split at h
  · obtain ⟨sbs, _, h⟩ := bind_ok h
    obtain ⟨nsb1, _, h⟩ := bind_ok h
    have := pure_ok h
    subst this
    exact ⟨st, _, hst, rfl⟩
  · obtain ⟨sbs, _, h⟩ := bind_ok h
    obtain ⟨nsb1, _, h⟩ := bind_ok h
    have := pure_ok h
    subst this
    exact ⟨st, _, hst, rfl⟩

/-- the loop never changes the number of sample arrays (no semantic hypothesis needed) -/
theorem buildStep_samples_size {dbg : Bool} {B : Nat} {q : QVector} {st st' : BuildSt} {i : Nat}
    (h : buildStep dbg B q st i = .ok st') : st'.samples.size = st.samples.size := by
  rw [buildStep_eq] at h
  obtain ⟨st2, h2, h3⟩ := bind_ok h
  have e1 : (phase1 B st i).samples = st.samples := by
    unfold phase1; split <;> rfl
  have e2 : st2.samples = st.samples := by
    unfold phase2 at h2
    split at h2
    · obtain ⟨sbs, _, h2⟩ := bind_ok h2
      have := pure_ok h2; subst this; exact e1
    · have := pure_ok h2; subst this; exact e1
  rw [← e2]
  unfold phase3 at h3
  split at h3
  · obtain ⟨sym, _, h3⟩ := bind_ok h3
    obtain ⟨o, _, h3⟩ := bind_ok h3
    split at h3
    · obtain ⟨_, _, h3⟩ := bind_ok h3
      obtain ⟨_, _, h3⟩ := bind_ok h3
      have := pure_ok h3; subst this
      simp [bump]
    · have := pure_ok h3; subst this
      simp [bump]
  · have := pure_ok h3; subst this; rfl

theorem rsNew_samples4 {dbg : Bool} {B : Nat} {q : QVector} {rs : RSSupportPlain}
    (h : rsNew dbg B q = .ok rs) : rs.selectSamples.size = 4 := by
  obtain ⟨st, k, hst, e⟩ := rsNew_samples h
  have := foldlM_inv (fun _ (st : BuildSt) => st.samples.size = 4) (buildStep dbg B q)
    (fun k st a st' hP hs => by rw [buildStep_samples_size hs]; exact hP) _ 0 {} st rfl hst
  rw [e, Array.size_map]; exact this

theorem fromQV_rs {dbg : Bool} {B : Nat} {q : QVector} {r : RSQVector}
    (h : fromQV dbg B q = .ok r) : rsNew dbg B q = .ok r.rs ∧ r.qv = q := by
  unfold fromQV at h
  obtain ⟨rs, h1, h⟩ := bind_ok h
  obtain ⟨cnt, _, h⟩ := bind_ok h
  have := pure_ok h; subst this
  exact ⟨h1, rfl⟩

/-- every vector produced by `RSQVector::from` has four sample arrays -/
theorem fromQV_samples4 {dbg : Bool} {B : Nat} {q : QVector} {r : RSQVector}
    (h : fromQV dbg B q = .ok r) : r.rs.selectSamples.size = 4 :=
  rsNew_samples4 (fromQV_rs h).1

/-- number of entries of the sample array of a symbol occurring `k` times: one per started
    group of `rsqSelectNumSamples` occurrences (at least one), plus the sentinel -/
def sampLen (k : Nat) : Nat := max 1 ((k + rsqSelectNumSamples - 1) / rsqSelectNumSamples) + 1

/-- the literal form, for the period 8192 -/
theorem sampLen_8192 (h : rsqSelectNumSamples = 8192) (k : Nat) :
    sampLen k = max 1 ((k + 8191) / 8192) + 1 := by
  unfold sampLen; rw [h]; omega

theorem sampLen_le (k : Nat) : sampLen k ≤ k / rsqSelectNumSamples + 2 := by
  unfold sampLen
  have h := ceil_le_succ k rsqSelectNumSamples P_pos
  generalize (k + rsqSelectNumSamples - 1) / rsqSelectNumSamples = a at *
  generalize k / rsqSelectNumSamples = b at *
  omega

/-- the sample arrays have exactly the sizes the construction loop gives them -/
structure RSQSamples (r : RSQVector) (s : List Nat) : Prop where
  size4 : r.rs.selectSamples.size = 4
  len : ∀ c, c < 4 → (r.rs.selectSamples.getD c #[]).size = sampLen (s.count c)

theorem fromQV_samples {dbg : Bool} {B : Nat} {q : QVector} {r : RSQVector} {s : List Nat}
    (hB : B = 256 ∨ B = 512) (hq : Holds q s) (hs : ∀ x ∈ s, x < 4) (hlen : s.length < 2 ^ 43)
    (h : fromQV dbg B q = .ok r) : RSQSamples r s := by
  obtain ⟨st, k, hst, e⟩ := rsNew_samples (fromQV_rs h).1
  obtain ⟨st', hst', hinv⟩ := build_fold dbg hB hq hs hlen (s.length + 1)
  rw [holds_len hq, hst'] at hst
  have hst2 := Except.ok.inj hst
  subst hst2
  unfold BInv at hinv
  refine ⟨fromQV_samples4 h, fun c hc => ?_⟩
  rw [e, getD_map _ _ _ #[] #[] (by rw [hinv.samples_size]; exact hc)]
  have hsi := hinv.samples c hc
  have hr : Spec.rank c (s.length + 1) s = s.count c := rank_of_ge c s (by omega)
  generalize (st'.samples.getD c #[]) = L at hsi ⊢
  have h1 := hsi.size_iff L.size
  have h2 := hsi.size_iff (L.size - 1)
  rw [hr] at h1 h2
  unfold sampLen
  -- `L.size = ⌈count / P⌉` for every period `P > 0`
  have hP := P_pos
  generalize rsqSelectNumSamples = P at *
  have hL : L.size = (s.count c + P - 1) / P := by
    symm
    by_cases h0 : L.size = 0
    · rw [h0, Nat.zero_mul] at h1
      have : s.count c = 0 := by omega
      rw [h0, this, Nat.zero_add]; exact Nat.div_eq_of_lt (by omega)
    · have e1 : (L.size - 1) * P = P * L.size - P := by
        rw [Nat.sub_mul, Nat.one_mul, Nat.mul_comm]
      have e2 : L.size * P = P * L.size := Nat.mul_comm _ _
      rw [e1] at h2; rw [e2] at h1
      have hge : P ≤ P * L.size := Nat.le_mul_of_pos_right P (by omega)
      exact PfsP.div_eq_of (by omega) (by omega)
  generalize (s.count c + P - 1) / P = q at *
  by_cases h0 : L.size = 0
  · have : L.isEmpty = true := by simpa using h0
    rw [this]; simp only [if_true, Array.size_push]; omega
  · have : L.isEmpty = false := by simpa using h0
    rw [this]; simp only [Bool.false_eq_true, if_false, Array.size_push]; omega

theorem toList4 {α : Type} (a : Array α) (d : α) (h : a.size = 4) :
    a.toList = [a.getD 0 d, a.getD 1 d, a.getD 2 d, a.getD 3 d] := by
  obtain ⟨l⟩ := a
  rcases l with _ | ⟨x0, _ | ⟨x1, _ | ⟨x2, _ | ⟨x3, _ | ⟨x4, l⟩⟩⟩⟩⟩ <;> simp at h
  rfl

theorem toList2 {α : Type} (a : Array α) (d : α) (h : a.size = 2) :
    a.toList = [a.getD 0 d, a.getD 1 d] := by
  obtain ⟨l⟩ := a
  rcases l with _ | ⟨x0, _ | ⟨x1, _ | ⟨x2, l⟩⟩⟩ <;> simp at h
  rfl

theorem count4_le (s : List Nat) : s.count 0 + s.count 1 + s.count 2 + s.count 3 ≤ s.length := by
  induction s with
  | nil => simp
  | cons x xs ih =>
    simp only [List.count_cons, List.length_cons]
    by_cases h0 : x = 0
    · subst h0; simp; omega
    · by_cases h1 : x = 1
      · subst h1; simp; omega
      · by_cases h2 : x = 2
        · subst h2; simp; omega
        · by_cases h3 : x = 3
          · subst h3; simp; omega
          · simp [h0, h1, h2, h3]; omega

/-- sizes of the buffers of a rank/select quad vector over `n` symbols with block size `B`:
    `Space.RSQSize` with the sampling period of the crate (`rsqSelectNumSamples`, 8192 at the
    time of writing) in place of the literal -/
structure RSQSizeP (B n : Nat) (r : RSQVector) : Prop where
  lines : r.qv.data.size = 4 * ((n + 255) / 256)
  sbs : r.rs.superblocks.size = 4 * (n / (8 * B) + 1)
  samples : (r.rs.selectSamples.toList.map Array.size).sum ≤ n / rsqSelectNumSamples + 8

/-- for every period of at least 8192 (in particular the current one) these are the size facts
    of `Space.RSQSize` -/
theorem RSQSizeP.toRSQSize {B n : Nat} {r : RSQVector} (h : RSQSizeP B n r)
    (hP : 8192 ≤ rsqSelectNumSamples) : RSQSize B n r :=
  ⟨h.lines, h.sbs, Nat.le_trans h.samples
    (Nat.add_le_add_right (Nat.div_le_div_left hP (by decide)) 8)⟩

theorem RSQSizeP.of_eq {B n : Nat} {r : RSQVector} (h : RSQSizeP B n r)
    (hP : rsqSelectNumSamples = 8192) : RSQSize B n r :=
  h.toRSQSize (Nat.le_of_eq hP.symm)

/-- and conversely, for every period of at most 8192 -/
theorem RSQSizeP.ofRSQSize {B n : Nat} {r : RSQVector} (h : RSQSize B n r)
    (hP : rsqSelectNumSamples ≤ 8192) : RSQSizeP B n r :=
  ⟨h.lines, h.sbs, Nat.le_trans h.samples
    (Nat.add_le_add_right (Nat.div_le_div_left hP P_pos) 8)⟩

/-- the numeric form used by the space bounds: at most `n / 4096 + 8` sample entries -/
theorem RSQSizeP.samples_le {B n : Nat} {r : RSQVector} (h : RSQSizeP B n r) :
    (r.rs.selectSamples.toList.map Array.size).sum ≤ n / 4096 + 8 :=
  Nat.le_trans h.samples (Nat.add_le_add_right (Nat.div_le_div_left rsqPer_ge (by decide)) 8)

theorem rsqP_heap_le (B n : Nat) (r : RSQVector) (h : RSQSizeP B n r) :
    (rsq r).heap ≤ 64 * ((n + 255) / 256) + 64 * (n / (8 * B) + 1) + 4 * (n / 4096 + 8) := by
  simp only [rsq, qv, rsSupport, array_foldl_add_eq, h.lines, h.sbs]
  have := h.samples_le
  simp only [Nat.zero_add]
  omega

/-- bits per level, block size 256: `2n·(1 + 1/8 + 1/100)` plus a constant — the bound of
    `Space.level_bits_256`, for every sampling period `≥ 4096` -/
theorem rsqP_level_bits_256 (n : Nat) (r : RSQVector) (h : RSQSizeP 256 n r) :
    800 * ((rsq r).heap + (rsq r).self_) ≤ 227 * n + 260000 := by
  have := rsqP_heap_le 256 n r h
  simp only [rsq] at *
  omega

/-- bits per level, block size 512: `2n·(1 + 1/16 + 1/100)` plus a constant (with one `n` to
    spare: `428` instead of the `429` of `Space.level_bits_512`) -/
theorem rsqP_level_bits_512_428 (n : Nat) (r : RSQVector) (h : RSQSizeP 512 n r) :
    1600 * ((rsq r).heap + (rsq r).self_) ≤ 428 * n + 520000 := by
  have := rsqP_heap_le 512 n r h
  simp only [rsq] at *
  omega

theorem rsqP_level_bits_512 (n : Nat) (r : RSQVector) (h : RSQSizeP 512 n r) :
    1600 * ((rsq r).heap + (rsq r).self_) ≤ 429 * n + 520000 := by
  have := rsqP_level_bits_512_428 n r h
  omega

/-- the three size facts, from `Holds`, the support invariant and the sample sizes -/
theorem rsqSize_of {B : Nat} {r : RSQVector} {s : List Nat} (hq : Holds r.qv s) (hrs : RSInv B r.rs s)
    (hsm : RSQSamples r s) : RSQSizeP B s.length r := by
  refine ⟨hq.size_eq, hrs.sbs_size, ?_⟩
  rw [toList4 _ #[] hsm.size4]
  simp only [List.map_cons, List.map_nil, List.sum_cons, List.sum_nil]
  rw [hsm.len 0 (by omega), hsm.len 1 (by omega), hsm.len 2 (by omega), hsm.len 3 (by omega)]
  have hc := count4_le s
  have l0 := sampLen_le (s.count 0)
  have l1 := sampLen_le (s.count 1)
  have l2 := sampLen_le (s.count 2)
  have l3 := sampLen_le (s.count 3)
  have hP := P_pos
  generalize rsqSelectNumSamples = P at *
  have d1 := div_add_div_le (s.count 0) (s.count 1) P hP
  have d2 := div_add_div_le (s.count 0 + s.count 1) (s.count 2) P hP
  have d3 := div_add_div_le (s.count 0 + s.count 1 + s.count 2) (s.count 3) P hP
  have d4 := Nat.div_le_div_right (c := P) hc
  generalize s.count 0 / P = q0 at *
  generalize s.count 1 / P = q1 at *
  generalize s.count 2 / P = q2 at *
  generalize s.count 3 / P = q3 at *
  generalize (s.count 0 + s.count 1) / P = q01 at *
  generalize (s.count 0 + s.count 1 + s.count 2) / P = q012 at *
  generalize (s.count 0 + s.count 1 + s.count 2 + s.count 3) / P = q0123 at *
  generalize s.length / P = qn at *
  omega

/-- `RSQVector::from` establishes the size facts -/
theorem fromQV_sizes {dbg : Bool} {B : Nat} {q : QVector} {r : RSQVector} {s : List Nat}
    (hB : B = 256 ∨ B = 512) (hq : Holds q s) (hs : ∀ x ∈ s, x < 4) (hlen : s.length < 2 ^ 43)
    (h : fromQV dbg B q = .ok r) : RSQSizeP B s.length r := by
  obtain ⟨r', e', hinv⟩ := fromQV_ok dbg hB hq hs hlen
  rw [h] at e'; cases e'
  exact rsqSize_of hinv.holds hinv.rs (fromQV_samples hB hq hs hlen h)

end rsq

/-! ### `RSWide`, `RSNarrow` -/

section rsbin
open Qwt.BV Qwt.RSBin

theorem C_pair (s : List Bool) (i : Nat) : C true s i + C false s i = i := by
  have := C_le true s i
  simp only [C, if_true, Bool.false_eq_true, if_false, Z] at this ⊢
  omega

/-- sizes of the buffers of `RSWide` over `n` bits.  The zero counter of the construction loop
    runs over the padded last line, so the two sample arrays hold together up to
    `⌈n/512⌉·512 / P + 4 ≤ n/P + 5` entries, `P = widePer` the (smaller) hint period — 8192 at
    the time of writing (`RSWSize.samples` of `Qwt/Proofs/Space.lean` asks for `2·(n/8192) + 4`,
    which fails e.g. for 8000 zero bits). -/
structure RSWSize' (n : Nat) (r : RSW.RSWide) : Prop where
  lines : r.bv.data.size = 8 * ((n + 511) / 512)
  sm : r.superblockMetadata.size = (n + 4095) / 4096 + 1
  ssize : r.selectSamples.size = 2
  samples : (r.selectSamples.toList.map Array.size).sum ≤ n / widePer + 5

/-- the literal form, for the period 8192 -/
theorem RSWSize'.samples_8192 {n : Nat} {r : RSW.RSWide} (h : RSWSize' n r)
    (h1 : Extracted.wideOnesPerHint = 8192) (h0 : Extracted.wideZerosPerHint = 8192) :
    (r.selectSamples.toList.map Array.size).sum ≤ n / 8192 + 5 := by
  have := h.samples
  rwa [widePer_8192 h1 h0] at this

/-- the numeric form used by the space bound -/
theorem RSWSize'.samples_le {n : Nat} {r : RSW.RSWide} (h : RSWSize' n r) :
    (r.selectSamples.toList.map Array.size).sum ≤ n / 4096 + 5 :=
  Nat.le_trans h.samples (Nat.add_le_add_right (Nat.div_le_div_left widePer_ge (by decide)) 5)

theorem rsw_sizes' {r : RSW.RSWide} {s : List Bool} (h : RSW.Inv r s) : RSWSize' s.length r := by
  have hl := h.holds.nLines_eq
  refine ⟨h.holds.size, ?_, h.ssize, ?_⟩
  · rw [h.smSize]; unfold RSW.nsb; rw [hl]; omega
  · rw [toList2 _ #[] h.ssize]
    obtain ⟨smp0, hint0, e0, i0⟩ := h.samples false
    obtain ⟨smp1, hint1, e1, i1⟩ := h.samples true
    simp only [Bool.false_eq_true, if_false, if_true] at e0 e1
    simp only [List.map_cons, List.map_nil, List.sum_cons, List.sum_nil, e0, e1, Array.size_push,
      i0.size, i1.size]
    have a0 := i0.hint_eq
    have a1 := i1.hint_eq
    have hp := C_pair s (512 * nLines r.bv)
    rw [hl] at a0 a1 hp
    -- `c0 / P0 + c1 / P1 ≤ (padded length) / P ≤ (n + P) / P = n / P + 1`
    have hP : 0 < widePer := Nat.lt_of_lt_of_le (by decide) widePer_ge
    have hh := hints_le hP (widePer_le false) (widePer_le true) hp
    have hpad : 512 * ((s.length + 511) / 512) ≤ s.length + widePer := by
      have := widePer_ge; omega
    have hd := Nat.div_le_div_right (c := widePer) hpad
    rw [Nat.add_div_right _ hP] at hd
    rw [a0, a1]
    generalize C false s (512 * ((s.length + 511) / 512)) / RSW.per false = q0 at *
    generalize C true s (512 * ((s.length + 511) / 512)) / RSW.per true = q1 at *
    generalize 512 * ((s.length + 511) / 512) / widePer = qm at *
    generalize s.length / widePer = qn at *
    omega

/-- bits per level of the binary tree from the corrected size facts: same bound as `rsw_bits`,
    for every hint period `≥ 4096` -/
theorem rsw_bits' (n : Nat) (r : RSW.RSWide) (h : RSWSize' n r) :
    512 * ((rsw r).heap + (rsw r).self_) ≤ 67 * n + 384000 := by
  simp only [rsw, bv, array_foldl_add_eq, h.lines, h.sm]
  have := h.samples_le
  simp only [Nat.zero_add]
  omega

/-- sizes of the buffers of `RSNarrow` over `m` bits (the bound on the samples holds for every
    hint period `≥ 1024`) -/
structure RSNSize (m : Nat) (r : RSN.RSNarrow) : Prop where
  lines : r.bv.data.size = 8 * ((m + 511) / 512)
  brp : r.blockRankPairs.size ≤ 2 * ((m + 511) / 512) + 4
  ssize : r.selectSamples.size = 2
  samples : (r.selectSamples.toList.map Array.size).sum ≤ (m + 511) / 512 / 2 + 4

theorem rsn_sizes {r : RSN.RSNarrow} {s : List Bool} (h : RSN.Inv r s) : RSNSize s.length r := by
  have hl := h.holds.nLines_eq
  refine ⟨h.holds.size, ?_, h.ssize, ?_⟩
  · rw [h.brpSize]; unfold RSN.sentN; rw [hl]; split <;> omega
  · rw [toList2 _ #[] h.ssize]
    obtain ⟨smp0, hint0, e0, i0⟩ := h.samples false
    obtain ⟨smp1, hint1, e1, i1⟩ := h.samples true
    simp only [Bool.false_eq_true, if_false, if_true] at e0 e1
    simp only [List.map_cons, List.map_nil, List.sum_cons, List.sum_nil, e0, e1, Array.size_push,
      i0.size, i1.size]
    have a0 := i0.hint_eq
    have a1 := i1.hint_eq
    have hp := C_pair s (64 * (8 * nLines r.bv))
    rw [hl] at a0 a1 hp
    -- `c0 / P0 + c1 / P1 ≤ (padded length) / P ≤ (padded length) / 1024`, for periods `≥ 1024`
    have hP : 0 < narrowPer := Nat.lt_of_lt_of_le (by decide) narrowPer_ge
    have hh := hints_le hP (narrowPer_le false) (narrowPer_le true) hp
    have hd := Nat.div_le_div_left (a := 64 * (8 * ((s.length + 511) / 512))) narrowPer_ge (by decide)
    rw [a0, a1]
    generalize C false s (64 * (8 * ((s.length + 511) / 512))) / RSN.per false = q0 at *
    generalize C true s (64 * (8 * ((s.length + 511) / 512))) / RSN.per true = q1 at *
    generalize 64 * (8 * ((s.length + 511) / 512)) / narrowPer = qm at *
    omega

/-- heap bytes of one `RSNarrow` over `m` bits: `84·⌈m/512⌉ + 64` -/
theorem rsn_heap_le (m : Nat) (r : RSN.RSNarrow) (h : RSNSize m r) :
    (rsn r).heap ≤ 84 * ((m + 511) / 512) + 64 := by
  simp only [rsn, bv, array_foldl_add_eq, h.lines]
  have := h.samples
  have := h.brp
  simp only [Nat.zero_add]
  omega

theorem rsn_new_samples2 {b : BitVector} {r : RSN.RSNarrow} (h : RSN.new b = .ok r) :
    r.selectSamples.size = 2 := by
  unfold RSN.new at h
  obtain ⟨_, _, h⟩ := bind_ok h
  have := pure_ok h; subst this; rfl

theorem rsw_new_samples2 {b : BitVector} {r : RSW.RSWide} (h : RSW.new b = .ok r) :
    r.selectSamples.size = 2 := by
  unfold RSW.new at h
  obtain ⟨_, _, h⟩ := bind_ok h
  obtain ⟨_, _, h⟩ := bind_ok h
  have := pure_ok h; subst this; rfl

end rsbin

/-! ### digit vectors -/

section digits
open Qwt.QV Qwt.RSQP

/-- the vector built by pushing a digit list satisfies the C13 invariant and `Holds` -/
theorem pushes_holds {digits : List Nat} {q : QVector} (hd : ∀ d ∈ digits, d < 4)
    (hn : digits.length < 2 ^ 43)
    (h : digits.foldlM (fun (b : QVectorBuilder) d => QV.push b d) {} = .ok q) :
    QV.Inv q ∧ QV.abs q = digits ∧ Holds q digits := by
  have h64 : two64 = 2 ^ 64 := by decide
  obtain ⟨q', e, hinv, habs⟩ := pushes_ok digits {} QV.empty_inv.1 (by
    show 0 + 2 * _ < two64
    omega)
  rw [h] at e
  have := Except.ok.inj e
  subst this
  have habs' : QV.abs q = digits := by
    rw [habs, QV.empty_inv.2, List.nil_append]
    conv => rhs; rw [← List.map_id digits]
    apply List.map_congr_left
    intro d hd'
    have := hd d hd'
    simp only [id]; omega
  refine ⟨hinv, habs', ?_⟩
  have := holds_of_inv hinv
  rwa [habs'] at this

theorem holds_empty : Holds {} [] :=
  ⟨rfl, rfl, fun _ hw => absurd hw (Nat.not_lt_zero _),
    fun _ _ hl => absurd hl (Nat.not_lt_zero _), fun _ _ hl => absurd hl (Nat.not_lt_zero _)⟩

end digits

/-! ### the plain quad tree -/

section qwt
open Qwt.QWTree Qwt.RSQ Qwt.PfsP Qwt.WM Qwt.QV

/-- sizes of the sampling structure of a level over `n` symbols: four `RSNarrow` over
    `nbOf n = ⌈(n-1)/rate⌉ + 1` bits each (`rate = 2 ^ pfsSampleShift`) -/
structure PfsSize (n : Nat) (p : PFS.PrefetchSupport) : Prop where
  size : p.samples.size = 4
  rsn : ∀ r ∈ p.samples.toList, RSNSize (nbOf n) r

theorem pfsSize_of_rep {L : List Nat} {p : PFS.PrefetchSupport} (h : PfsRep L p) :
    PfsSize L.length p := by
  have key : ∀ k, k < 4 → RSNSize (nbOf L.length) (p.samples.getD k default) := by
    intro k hk
    obtain ⟨r', bits, e, hinv, hlen, _⟩ := h.sample k hk
    have : p.samples.getD k default = r' := by
      rw [Array.getD_eq_getD_getElem?, e]; rfl
    rw [this, ← hlen]
    exact rsn_sizes hinv
  refine ⟨h.size, fun r hr => ?_⟩
  rw [toList4 p.samples default h.size] at hr
  simp only [List.mem_cons, List.not_mem_nil, or_false] at hr
  rcases hr with rfl | rfl | rfl | rfl
  · exact key 0 (by omega)
  · exact key 1 (by omega)
  · exact key 2 (by omega)
  · exact key 3 (by omega)

theorem fold_twoBits (c : Cfg) (sh : Nat) : ∀ (l : List Nat) (b q : QVectorBuilder),
    l.foldlM (fun (b : QVectorBuilder) symbol => do
      let tb ← twoBits c symbol sh
      QV.push b tb) b = .ok q →
    (l.map (fun x => (x >>> sh) % 4)).foldlM (fun (b : QVectorBuilder) d => QV.push b d) b = .ok q := by
  intro l
  induction l with
  | nil => intro b q h; exact h
  | cons x xs ih =>
    intro b q h
    rw [List.foldlM_cons] at h
    obtain ⟨b1, h1, h2⟩ := bind_ok h
    obtain ⟨tb, ht, hp⟩ := bind_ok h1
    unfold twoBits at ht
    split at ht
    · cases ht
    · have := pure_ok ht
      rw [and3_eq_mod] at this
      subst this
      rw [List.map_cons, List.foldlM_cons, hp]
      exact ih b1 q h2

theorem part4_size {W sh : Nat} {seq seq' : Array Nat}
    (h : Utils.stablePartitionOf4 W seq sh = .ok seq') : seq'.size = seq.size := by
  by_cases hlt : sh < W
  · have := stablePartitionOf4_ok W sh seq.toList hlt
    rw [Array.toArray_toList] at this
    rw [this] at h
    have := Except.ok.inj h
    subst this
    simp [length_part]
  · unfold Utils.stablePartitionOf4 at h
    split at h
    · cases h
    · rename_i hc
      have h0 : seq.size = 0 := by omega
      have : seq = #[] := Array.eq_empty_of_size_eq_zero h0
      subst this
      have := Except.ok.inj h
      subst this
      rfl

theorem mem_push {α : Type} {a : Array α} {x y : α} (h : y ∈ (a.push x).toList) :
    y ∈ a.toList ∨ y = x := by
  rw [Array.toList_push, List.mem_append] at h
  rcases h with h | h
  · exact Or.inl h
  · right; simpa using h

/-- forward invariant of the level loop of `QWaveletTree::new` over a sequence of `n` symbols -/
structure QInv (c : Cfg) (n k : Nat) (st : LevelSt) : Prop where
  seq : st.seq.size = n
  qsz : st.qvs.size = k
  qv : ∀ r ∈ st.qvs.toList, RSQSizeP c.B n r ∧ r.rs.selectSamples.size = 4
  psz : c.pfs = true → st.pfs.size = k
  pf : ∀ p ∈ st.pfs.toList, PfsSize n p

theorem levelStep_sizes (c : Cfg) (hB : c.B = 256 ∨ c.B = 512) {n : Nat} (hn : n < 2 ^ 43)
    (k : Nat) (st : LevelSt) (a : Nat) (st' : LevelSt) (hI : QInv c n k st)
    (h : levelStep c st = .ok st') : QInv c n (k + 1) st' := by
  unfold levelStep at h
  obtain ⟨_, _, h⟩ := bind_ok h
  obtain ⟨qvb, hq, h⟩ := bind_ok h
  dsimp only at h
  -- the digit vector
  rw [← Array.foldlM_toList] at hq
  have hq' := fold_twoBits c st.shift _ _ _ hq
  have hdl : (st.seq.toList.map (fun x => (x >>> st.shift) % 4)).length = n := by
    rw [List.length_map, Array.length_toList, hI.seq]
  have hdd : ∀ d ∈ st.seq.toList.map (fun x => (x >>> st.shift) % 4), d < 4 := by
    intro d hd; obtain ⟨x, _, rfl⟩ := List.mem_map.mp hd; omega
  obtain ⟨hinv, habs, hholds⟩ := pushes_holds hdd (by rw [hdl]; exact hn) hq'
  have finish : ∀ (pfs : Array PFS.PrefetchSupport) (rs : RSQVector) (seq : Array Nat) (sh : Nat),
      fromQV c.dbg c.B (QV.build qvb) = .ok rs → Utils.stablePartitionOf4 c.W st.seq st.shift = .ok seq →
      (c.pfs = true → pfs.size = k + 1) → (∀ p ∈ pfs.toList, PfsSize n p) →
      QInv c n (k + 1) { seq := seq, shift := sh, qvs := st.qvs.push rs, pfs := pfs } := by
    intro pfs rs seq sh hr hseq h1 h2
    have hsz := fromQV_sizes hB hholds hdd (by rw [hdl]; exact hn) hr
    rw [hdl] at hsz
    refine ⟨?_, ?_, ?_, h1, h2⟩
    · show seq.size = n
      rw [part4_size hseq, hI.seq]
    · show (st.qvs.push rs).size = k + 1
      rw [Array.size_push, hI.qsz]
    · intro r hr'
      rcases mem_push hr' with h1 | rfl
      · exact hI.qv r h1
      · exact ⟨hsz, fromQV_samples4 hr⟩
  split at h
  · rename_i hpf
    obtain ⟨p0, hnew, h⟩ := bind_ok h
    obtain ⟨pfs, hp, h⟩ := bind_ok h
    obtain ⟨rs, hr, h⟩ := bind_ok h
    obtain ⟨seq, hseq, h⟩ := bind_ok h
    have := pure_ok h
    subst this
    have := pure_ok hp
    subst this
    refine finish _ _ _ _ hr hseq (fun _ => by rw [Array.size_push, hI.psz hpf]) ?_
    intro p hp'
    rcases mem_push hp' with h1 | rfl
    · exact hI.pf p h1
    · have h64 : two64 = 2 ^ 64 := by decide
      obtain ⟨p1, e1, hrep⟩ := PfsP.new_ok (QV.build qvb) hinv (by
        show (QV.abs qvb).length + 1 < two64
        rw [habs, hdl]; omega)
      have e2 : PFS.new (QV.build qvb) Extracted.pfsSampleShift = .ok p1 := e1
      rw [hnew] at e2
      have := Except.ok.inj e2
      subst this
      have := pfsSize_of_rep hrep
      rw [show (QV.abs (QV.build qvb)).length = n from by
        show (QV.abs qvb).length = n
        rw [habs, hdl]] at this
      exact this
  · rename_i hpf
    obtain ⟨pfs, hp, h⟩ := bind_ok h
    obtain ⟨rs, hr, h⟩ := bind_ok h
    obtain ⟨seq, hseq, h⟩ := bind_ok h
    have := pure_ok h
    subst this
    have := pure_ok hp
    subst this
    exact finish _ _ _ _ hr hseq (fun h => absurd h hpf) hI.pf

/-- what `QWaveletTree::new` establishes about the buffer sizes -/
structure QSizes (c : Cfg) (S : List Nat) (t : QWT) : Prop where
  qsz : t.qvs.size = nLevelsOf (Spec.maxNat S)
  nLevels : S ≠ [] → t.nLevels = nLevelsOf (Spec.maxNat S)
  qv : ∀ r ∈ t.qvs.toList, RSQSizeP c.B S.length r
  samples4 : ∀ r ∈ t.qvs.toList, r.rs.selectSamples.size = 4
  pfs_none : c.pfs = false ∨ S = [] → t.pfs = none
  pfs_some : c.pfs = true → S ≠ [] → ∃ a, t.pfs = some a ∧ a.size = nLevelsOf (Spec.maxNat S) ∧
    ∀ p ∈ a.toList, PfsSize S.length p

theorem new_sizes (c : Cfg) (hB : c.B = 256 ∨ c.B = 512) (hW : 0 < c.W) (S : List Nat)
    (hS : ∀ x ∈ S, x < 2 ^ c.W) (hlen : S.length < 2 ^ 43) {t : QWT}
    (h : QWTree.new c S.toArray = .ok t) : QSizes c S t := by
  unfold QWTree.new at h
  split at h
  · rename_i hemp
    have hS0 : S = [] := by
      cases S with
      | nil => rfl
      | cons a l => simp at hemp
    subst hS0
    obtain ⟨d, hd, h⟩ := bind_ok h
    have := pure_ok h
    subst this
    have hd' : fromQV false c.B {} = .ok d := hd
    have hsz := fromQV_sizes hB holds_empty (by simp) (by simp) hd'
    refine ⟨rfl, fun h => absurd rfl h, ?_, ?_, fun _ => rfl, fun _ h => absurd rfl h⟩
    · intro r hr
      have : r = d := by simpa using hr
      subst this; exact hsz
    · intro r hr
      have : r = d := by simpa using hr
      subst this; exact fromQV_samples4 hd'
  · rename_i hne
    have hne' : S ≠ [] := by
      intro e; subst e; exact hne rfl
    obtain ⟨m, hm, h⟩ := bind_ok h
    dsimp only at h
    obtain ⟨st, hst, h⟩ := bind_ok h
    have := pure_ok h
    subst this
    have hsig : S.toArray.foldl max 0 = Spec.maxNat S := by rw [List.foldl_toArray]; rfl
    rw [hsig, msb_ok _ _ (maxNat_lt hS)] at hm
    have := Except.ok.inj hm
    subst this
    have e : (Nat.log2 (Spec.maxNat S) + 1 + 1) / 2 = nLevelsOf (Spec.maxNat S) := rfl
    rw [e] at hst
    have hI := foldlM_inv (QInv c S.length) (fun st (_ : Nat) => levelStep c st)
      (levelStep_sizes c hB hlen) _ 0 _ st
      ⟨by simp, rfl, fun r hr => by simp at hr, fun _ => rfl, fun p hp => by simp at hp⟩ hst
    rw [List.length_range, Nat.zero_add] at hI
    refine ⟨hI.qsz, fun _ => e, fun r hr => (hI.qv r hr).1, fun r hr => (hI.qv r hr).2, ?_, ?_⟩
    · rintro (hp | hp)
      · simp [hp]
      · exact absurd hp hne'
    · intro hp _
      exact ⟨st.pfs, by simp [hp], hI.psz hp, hI.pf⟩

end qwt

/-! ### the binary trees -/

section binwt
open Qwt.BinWT Qwt.BV

/-- a fold whose steps are single pushes stores a bit list of the same length -/
theorem foldlM_pushes {α : Type} (f : BitVector → α → M BitVector)
    (hf : ∀ b a b', f b a = .ok b' → ∃ bit, BV.push b bit = .ok b') :
    ∀ (l : List α) (b q : BitVector), l.foldlM f b = .ok q →
      ∃ bits : List Bool, bits.length = l.length ∧ bits.foldlM BV.push b = .ok q := by
  intro l
  induction l with
  | nil => intro b q h; exact ⟨[], rfl, h⟩
  | cons a l ih =>
    intro b q h
    rw [List.foldlM_cons] at h
    obtain ⟨b1, h1, h2⟩ := bind_ok h
    obtain ⟨bit, hb⟩ := hf b a b1 h1
    obtain ⟨bits, hl, hq⟩ := ih b1 q h2
    refine ⟨bit :: bits, by simp [hl], ?_⟩
    rw [List.foldlM_cons, hb]; exact hq

theorem part2_size (g : Nat → Bool) : ∀ (l : List Nat) (b : Array Nat × Array Nat),
    (l.foldl (fun (b : Array Nat × Array Nat) a =>
        if g a then (b.1.push a, b.2) else (b.1, b.2.push a)) b).1.size +
    (l.foldl (fun (b : Array Nat × Array Nat) a =>
        if g a then (b.1.push a, b.2) else (b.1, b.2.push a)) b).2.size =
      b.1.size + b.2.size + l.length := by
  intro l
  induction l with
  | nil => intro b; rfl
  | cons a l ih =>
    intro b
    rw [List.foldl_cons, ih]
    split <;> simp <;> omega

theorem stablePartitionOf2_size {W sh : Nat} {seq seq' : Array Nat}
    (h : Utils.stablePartitionOf2 W seq sh = .ok seq') : seq'.size = seq.size := by
  unfold Utils.stablePartitionOf2 at h
  split at h
  · cases h
  · have := Except.ok.inj h
    subst this
    rw [Array.size_append, ← Array.foldl_toList]
    have := part2_size (fun a => Utils.asUsize (a >>> sh) &&& 1 == 0) seq.toList (#[], #[])
    simpa using this

/-- every level of a binary tree (plain or Huffman-shaped) is a freshly built `RSWide`:
    two sample arrays, one entry of `lens` per level -/
structure BShape (k : Nat) (st : BinWT.LevelSt) : Prop where
  bsz : st.bvs.size = k
  lsz : st.lens.size = k
  s2 : ∀ r ∈ st.bvs.toList, r.selectSamples.size = 2

theorem bin_levelStep_shape (c : Cfg) (compressed : Bool) (L : Nat) (codes : Array Huff.PrefixCode)
    (k : Nat) (st : BinWT.LevelSt) (a : Nat) (st' : BinWT.LevelSt) (hI : BShape k st)
    (h : BinWT.levelStep c compressed L codes st = .ok st') : BShape (k + 1) st' := by
  unfold BinWT.levelStep at h
  obtain ⟨bvm, _, h⟩ := bind_ok h
  obtain ⟨rs, hrs, h⟩ := bind_ok h
  have fin : ∀ sq : Array Nat, BShape (k + 1) (BinWT.LevelSt.mk sq (st.shift + 1)
      (st.bvs.push rs) (st.lens.push bvm.nBits)) := by
    intro sq
    refine ⟨by simp [hI.bsz], by simp [hI.lsz], fun r hr => ?_⟩
    rcases mem_push hr with h1 | rfl
    · exact hI.s2 r h1
    · exact rsw_new_samples2 hrs
  dsimp only at h
  split at h
  · obtain ⟨seq, _, h⟩ := bind_ok h
    have := pure_ok h
    subst this
    exact fin _
  · obtain ⟨sh, _, h⟩ := bind_ok h
    obtain ⟨seq, _, h⟩ := bind_ok h
    have := pure_ok h
    subst this
    exact fin _

theorem bin_new_shape (c : Cfg) (compressed : Bool) (seq : Array Nat) (lens : List (Nat × Nat))
    {t : WT} (h : BinWT.new c compressed seq lens = .ok t) :
    t.bvs.size = t.nLevels ∧ t.lens.size = t.nLevels ∧ ∀ r ∈ t.bvs.toList, r.selectSamples.size = 2 := by
  unfold BinWT.new at h
  split at h
  · have := pure_ok h
    subst this
    exact ⟨rfl, rfl, fun r hr => by simp at hr⟩
  · have fin : ∀ (x : Option (Array Huff.PrefixCode) × Option (Array (Array (Nat × Nat))) × Nat × Option Nat),
        (match x with
          | (codes, dec, nLevels, sig) => do
            let st ← List.foldlM (fun st (_ : Nat) => levelStep c compressed nLevels (codes.getD #[]) st)
                ({ seq := seq, shift := 1 } : LevelSt) (List.range nLevels)
            pure ({ n := seq.size, nLevels := nLevels, sigma := sig, codesEncode := codes,
                    codesDecode := dec, bvs := st.bvs, lens := st.lens } : WT)) = .ok t →
        t.bvs.size = t.nLevels ∧ t.lens.size = t.nLevels ∧
          ∀ r ∈ t.bvs.toList, r.selectSamples.size = 2 := by
      intro x h
      obtain ⟨codes, dec, nLevels, sig⟩ := x
      dsimp only at h
      obtain ⟨st, hst, h⟩ := bind_ok h
      have := pure_ok h
      subst this
      have hI := foldlM_inv BShape
        (fun st (_ : Nat) => BinWT.levelStep c compressed nLevels (codes.getD #[]) st)
        (bin_levelStep_shape c compressed nLevels (codes.getD #[])) _ 0 _ st
        ⟨rfl, rfl, fun r hr => by simp at hr⟩ hst
      rw [List.length_range, Nat.zero_add] at hI
      exact ⟨hI.bsz, hI.lsz, hI.s2⟩
    dsimp only at h
    split at h
    · obtain ⟨codes, _, h⟩ := bind_ok h
      obtain ⟨x, _, h⟩ := bind_ok h
      exact fin x h
    · obtain ⟨m, _, h⟩ := bind_ok h
      obtain ⟨x, _, h⟩ := bind_ok h
      exact fin x h

/-- forward invariant of the level loop of the plain binary tree over `n` symbols -/
structure BInvT (n k : Nat) (st : BinWT.LevelSt) : Prop where
  seq : st.seq.size = n
  bv : ∀ r ∈ st.bvs.toList, RSWSize' n r

theorem bin_levelStep_sizes (c : Cfg) (L : Nat) {n : Nat} (hn : n < 2 ^ 43)
    (k : Nat) (st : BinWT.LevelSt) (a : Nat) (st' : BinWT.LevelSt) (hI : BInvT n k st)
    (h : BinWT.levelStep c false L #[] st = .ok st') : BInvT n (k + 1) st' := by
  unfold BinWT.levelStep at h
  obtain ⟨bvm, hb, h⟩ := bind_ok h
  obtain ⟨rs, hrs, h⟩ := bind_ok h
  simp only [Bool.false_eq_true, if_false] at h
  obtain ⟨sh, _, h⟩ := bind_ok h
  obtain ⟨seq, hseq, h⟩ := bind_ok h
  have := pure_ok h
  subst this
  rw [← Array.foldlM_toList] at hb
  obtain ⟨bits, hbl, hbits⟩ := foldlM_pushes _ (by
    intro b s b' hs
    simp only [Bool.false_eq_true, if_false] at hs
    obtain ⟨sh, _, hs⟩ := bind_ok hs
    split at hs
    · obtain ⟨_, ht, _⟩ := bind_ok hs
      cases ht
    · exact ⟨_, hs⟩) _ _ _ hb
  have hbn : bits.length = n := by rw [hbl, Array.length_toList, hI.seq]
  have h64 : bits.length < two64 := by
    have : (2:Nat) ^ 43 < two64 := by decide
    omega
  obtain ⟨b', e, hholds⟩ := Props.C06.holds_fromBools bits h64
  rw [hbits] at e
  have := Except.ok.inj e
  subst this
  obtain ⟨r', e', _, hinv⟩ := RSW.new_inv hholds (by rw [hbn]; exact hn)
  rw [hrs] at e'
  have := Except.ok.inj e'
  subst this
  have hsz := rsw_sizes' hinv
  rw [hbn] at hsz
  refine ⟨?_, fun r hr => ?_⟩
  · show seq.size = n
    rw [stablePartitionOf2_size hseq, hI.seq]
  · rcases mem_push hr with h1 | rfl
    · exact hI.bv r h1
    · exact hsz

/-- every level of the plain binary tree built by `new` has the sizes of `RSWSize'` -/
theorem bin_new_sizes (c : Cfg) (S : List Nat) (hlen : S.length < 2 ^ 43) {t : WT}
    (h : BinWT.new c false S.toArray [] = .ok t) : ∀ r ∈ t.bvs.toList, RSWSize' S.length r := by
  unfold BinWT.new at h
  split at h
  · have := pure_ok h
    subst this
    intro r hr; simp at hr
  · simp only [Bool.false_eq_true, if_false] at h
    obtain ⟨m, _, h⟩ := bind_ok h
    obtain ⟨x, hx, h⟩ := bind_ok h
    have := pure_ok hx
    subst this
    dsimp only at h
    obtain ⟨st, hst, h⟩ := bind_ok h
    have := pure_ok h
    subst this
    have hI := foldlM_inv (BInvT S.length) (fun st (_ : Nat) => BinWT.levelStep c false (m + 1) #[] st)
      (bin_levelStep_sizes c (m + 1) hlen) _ 0 _ st
      ⟨by simp, fun r hr => by simp at hr⟩ hst
    exact hI.bv

end binwt

/-! ### shape of the quad trees (plain and Huffman-shaped), without any hypothesis on the input -/

section shape
open Qwt.RSQ Qwt.QV

theorem map_ok {α β : Type} {g : α → β} {x : M α} {y : β} (h : g <$> x = .ok y) :
    ∃ a, x = .ok a ∧ g a = y := by
  cases x with
  | error e => cases h
  | ok a => exact ⟨a, rfl, Except.ok.inj h⟩

theorem list_mapM_ok_mem {α β : Type} (f : α → M β) : ∀ (l : List α) (l' : List β),
    l.mapM f = .ok l' → ∀ y ∈ l', ∃ x ∈ l, f x = .ok y := by
  intro l
  induction l with
  | nil =>
    intro l' h y hy
    rw [List.mapM_nil] at h
    have := pure_ok h; subst this; simp at hy
  | cons a l ih =>
    intro l' h y hy
    rw [List.mapM_cons] at h
    obtain ⟨b, hb, h⟩ := bind_ok h
    obtain ⟨bs, hbs, h⟩ := bind_ok h
    have := pure_ok h; subst this
    rcases List.mem_cons.mp hy with rfl | hy
    · exact ⟨a, by simp, hb⟩
    · obtain ⟨x, hx, e⟩ := ih bs hbs y hy
      exact ⟨x, by simp [hx], e⟩

theorem array_mapM_ok_mem {α β : Type} (f : α → M β) (a : Array α) (b : Array β)
    (h : a.mapM f = .ok b) : ∀ y ∈ b.toList, ∃ x ∈ a.toList, f x = .ok y := by
  rw [Array.mapM_eq_mapM_toList] at h
  obtain ⟨l', hl, e⟩ := map_ok h
  subst e
  exact list_mapM_ok_mem f _ _ hl

/-- every `RSNarrow` of a sampling structure has two sample arrays -/
theorem pfs_new_samples2 {q : QVector} {sh : Nat} {p : PFS.PrefetchSupport}
    (h : PFS.new q sh = .ok p) : ∀ r ∈ p.samples.toList, r.selectSamples.size = 2 := by
  unfold PFS.new at h
  obtain ⟨st, _, h⟩ := bind_ok h
  obtain ⟨samples, hm, h⟩ := bind_ok h
  have := pure_ok h; subst this
  intro r hr
  obtain ⟨b, _, e⟩ := array_mapM_ok_mem _ _ _ hm r hr
  exact rsn_new_samples2 e

/-- shape of the arrays of a quad tree under construction -/
structure QShape (pfsOn : Bool) (k : Nat) (qvs : Array RSQVector) (pfs : Array PFS.PrefetchSupport) : Prop where
  qsz : qvs.size = k
  psz : pfsOn = true → pfs.size = k
  q4 : ∀ r ∈ qvs.toList, r.rs.selectSamples.size = 4
  p2 : ∀ p ∈ pfs.toList, ∀ r ∈ p.samples.toList, r.selectSamples.size = 2

theorem QShape.init (b : Bool) : QShape b 0 #[] #[] :=
  ⟨rfl, fun _ => rfl, fun r hr => by simp at hr, fun p hp => by simp at hp⟩

theorem QShape.push_both {b : Bool} {k : Nat} {qvs : Array RSQVector} {pfs : Array PFS.PrefetchSupport}
    (hI : QShape b k qvs pfs) {dbg : Bool} {B : Nat} {q q' : QVector} {sh : Nat} {rs : RSQVector}
    {p : PFS.PrefetchSupport} (hr : fromQV dbg B q = .ok rs) (hp : PFS.new q' sh = .ok p) :
    QShape b (k + 1) (qvs.push rs) (pfs.push p) := by
  refine ⟨by simp [hI.qsz], fun h => by simp [hI.psz h], fun r hr' => ?_, fun p' hp' => ?_⟩
  · rcases mem_push hr' with h1 | rfl
    · exact hI.q4 r h1
    · exact fromQV_samples4 hr
  · rcases mem_push hp' with h1 | rfl
    · exact hI.p2 p' h1
    · exact pfs_new_samples2 hp

theorem QShape.push_qv {k : Nat} {qvs : Array RSQVector} {pfs : Array PFS.PrefetchSupport}
    (hI : QShape false k qvs pfs) {dbg : Bool} {B : Nat} {q : QVector} {rs : RSQVector}
    (hr : fromQV dbg B q = .ok rs) : QShape false (k + 1) (qvs.push rs) pfs := by
  refine ⟨by simp [hI.qsz], (fun h => by cases h), fun r hr' => ?_, hI.p2⟩
  rcases mem_push hr' with h1 | rfl
  · exact hI.q4 r h1
  · exact fromQV_samples4 hr

theorem qwt_levelStep_shape (c : Cfg) (k : Nat) (st : QWTree.LevelSt) (a : Nat) (st' : QWTree.LevelSt)
    (hI : QShape c.pfs k st.qvs st.pfs) (h : QWTree.levelStep c st = .ok st') :
    QShape c.pfs (k + 1) st'.qvs st'.pfs := by
  unfold QWTree.levelStep at h
  obtain ⟨_, _, h⟩ := bind_ok h
  obtain ⟨qvb, _, h⟩ := bind_ok h
  dsimp only at h
  split at h
  · rename_i hpf
    obtain ⟨p0, hnew, h⟩ := bind_ok h
    obtain ⟨pfs, hp, h⟩ := bind_ok h
    obtain ⟨rs, hr, h⟩ := bind_ok h
    obtain ⟨seq, _, h⟩ := bind_ok h
    have := pure_ok h; subst this
    have := pure_ok hp; subst this
    exact hI.push_both hr hnew
  · rename_i hpf
    obtain ⟨pfs, hp, h⟩ := bind_ok h
    obtain ⟨rs, hr, h⟩ := bind_ok h
    obtain ⟨seq, _, h⟩ := bind_ok h
    have := pure_ok h; subst this
    have := pure_ok hp; subst this
    have hf : c.pfs = false := by simpa using hpf
    rw [hf] at hI ⊢
    exact hI.push_qv hr

/-- shape of a plain quad tree built by `new`, for every input -/
structure QWTShape (c : Cfg) (t : QWTree.QWT) : Prop where
  q4 : ∀ r ∈ t.qvs.toList, r.rs.selectSamples.size = 4
  pfs_none : c.pfs = false ∨ t.n = 0 → t.pfs = none
  pfs_some : ∀ a, t.pfs = some a → a.size = t.nLevels ∧
    ∀ p ∈ a.toList, ∀ r ∈ p.samples.toList, r.selectSamples.size = 2
  qsz : t.qvs.size = max 1 t.nLevels

theorem qwt_new_shape (c : Cfg) (seq : Array Nat) {t : QWTree.QWT} (h : QWTree.new c seq = .ok t) :
    QWTShape c t := by
  unfold QWTree.new at h
  split at h
  · obtain ⟨d, hd, h⟩ := bind_ok h
    have := pure_ok h; subst this
    have hd' : fromQV false c.B {} = .ok d := hd
    refine ⟨fun r hr => ?_, fun _ => rfl, (fun a ha => by cases ha), rfl⟩
    have : r = d := by simpa using hr
    subst this; exact fromQV_samples4 hd'
  · rename_i hne
    obtain ⟨m, hm, h⟩ := bind_ok h
    dsimp only at h
    obtain ⟨st, hst, h⟩ := bind_ok h
    have := pure_ok h; subst this
    have hI := foldlM_inv (fun k (st : QWTree.LevelSt) => QShape c.pfs k st.qvs st.pfs)
      (fun st (_ : Nat) => QWTree.levelStep c st) (qwt_levelStep_shape c) _ 0 _ st (QShape.init _) hst
    rw [List.length_range, Nat.zero_add] at hI
    have hn : seq.size ≠ 0 := by
      intro e; apply hne; simpa using e
    refine ⟨hI.q4, ?_, ?_, ?_⟩
    · rintro (hp | hp)
      · simp [hp]
      · exact absurd hp hn
    · intro a ha
      cases hc : c.pfs
      · rw [hc] at ha; cases ha
      · rw [hc] at ha
        simp only [if_true, Option.some.injEq] at ha
        subst ha
        exact ⟨hI.psz hc, hI.p2⟩
    · show st.qvs.size = max 1 ((m + 1 + 1) / 2)
      rw [hI.qsz]; omega

theorem huff_levelStep_shape (c : Cfg) (codes : Array Huff.PrefixCode) (k : Nat) (st : Huff.LevelSt)
    (a : Nat) (st' : Huff.LevelSt)
    (hI : QShape c.pfs k st.qvs st.pfs ∧ st.lens.size = k) (h : Huff.levelStep c codes st = .ok st') :
    QShape c.pfs (k + 1) st'.qvs st'.pfs ∧ st'.lens.size = k + 1 := by
  unfold Huff.levelStep at h
  obtain ⟨qvb, _, h⟩ := bind_ok h
  dsimp only at h
  split at h
  · rename_i hpf
    obtain ⟨p0, hnew, h⟩ := bind_ok h
    obtain ⟨pfs, hp, h⟩ := bind_ok h
    obtain ⟨rs, hr, h⟩ := bind_ok h
    obtain ⟨seq, _, h⟩ := bind_ok h
    have := pure_ok h; subst this
    have := pure_ok hp; subst this
    exact ⟨hI.1.push_both hr hnew, by simp [hI.2]⟩
  · rename_i hpf
    obtain ⟨pfs, hp, h⟩ := bind_ok h
    obtain ⟨rs, hr, h⟩ := bind_ok h
    obtain ⟨seq, _, h⟩ := bind_ok h
    have := pure_ok h; subst this
    have := pure_ok hp; subst this
    have hf : c.pfs = false := by simpa using hpf
    refine ⟨?_, by simp [hI.2]⟩
    have h1 := hI.1
    rw [hf] at h1 ⊢
    exact h1.push_qv hr

/-- shape of a Huffman-shaped quad tree built by `new`, for every input -/
structure HQWTShape (c : Cfg) (t : Huff.HQWT) : Prop where
  q4 : ∀ r ∈ t.qvs.toList, r.rs.selectSamples.size = 4
  pfs_none : c.pfs = false ∨ t.n = 0 → t.pfs = none
  pfs_some : ∀ a, t.pfs = some a → a.size = t.nLevels ∧
    ∀ p ∈ a.toList, ∀ r ∈ p.samples.toList, r.selectSamples.size = 2
  qsz : t.qvs.size = max 1 t.nLevels ∨ (t.n ≠ 0 ∧ t.qvs.size = t.nLevels)
  lsz : t.lens.size = t.qvs.size

theorem huff_new_shape (c : Cfg) (seq : Array Nat) (lens : List (Nat × Nat)) {t : Huff.HQWT}
    (h : Huff.new c seq lens = .ok t) : HQWTShape c t := by
  unfold Huff.new at h
  split at h
  · obtain ⟨d, hd, h⟩ := bind_ok h
    have := pure_ok h; subst this
    have hd' : fromQV false c.B {} = .ok d := hd
    refine ⟨fun r hr => ?_, fun _ => rfl, (fun a ha => by cases ha), Or.inl rfl, rfl⟩
    have : r = d := by simpa using hr
    subst this; exact fromQV_samples4 hd'
  · rename_i hne
    obtain ⟨codes, _, h⟩ := bind_ok h
    dsimp only at h
    obtain ⟨st, hst, h⟩ := bind_ok h
    have := pure_ok h; subst this
    have hI := foldlM_inv (fun k (st : Huff.LevelSt) => QShape c.pfs k st.qvs st.pfs ∧ st.lens.size = k)
      (fun st (_ : Nat) => Huff.levelStep c codes st) (huff_levelStep_shape c codes) _ 0 _ st
      ⟨QShape.init _, rfl⟩ hst
    rw [List.length_range, Nat.zero_add] at hI
    have hn : seq.size ≠ 0 := by
      intro e; apply hne; simpa using e
    refine ⟨hI.1.q4, ?_, ?_, Or.inr ⟨hn, hI.1.qsz⟩, ?_⟩
    · rintro (hp | hp)
      · simp [hp]
      · exact absurd hp hn
    · intro a ha
      cases hc : c.pfs
      · rw [hc] at ha; cases ha
      · rw [hc] at ha
        simp only [if_true, Option.some.injEq] at ha
        subst ha
        exact ⟨hI.1.psz hc, hI.1.p2⟩
    · show st.lens.size = st.qvs.size
      rw [hI.2, hI.1.qsz]

end shape

/-! ### the Huffman tables: `σ + 1` encode slots, `maxLen + 1` decode tables, at most one entry
per slot -/

section tables
open Qwt.Huff

theorem ite_throw_ok {α β : Type} {c : Prop} [Decidable c] {e : Fault} {f : β → M α} {y : M α} {b : α}
    (h : (if c then ((throw e : M β) >>= f) else y) = .ok b) : y = .ok b := by
  by_cases hc : c
  · rw [if_pos hc] at h
    obtain ⟨_, ht, _⟩ := bind_ok h
    cases ht
  · rw [if_neg hc] at h; exact h

theorem grow_assign (D j target : Nat) : ∀ (fuel : Nat) (st st' : CraftSt),
    Huff.grow D j target fuel st = .ok st' → st'.assignments = st.assignments := by
  intro fuel
  induction fuel with
  | zero =>
    intro st st' h
    simp only [Huff.grow] at h
    have := pure_ok h; subst this; rfl
  | succ fuel ih =>
    intro st st' h
    simp only [Huff.grow] at h
    split at h
    · split at h <;>
        (obtain ⟨c, _, h⟩ := bind_ok h
         obtain ⟨m, _, h⟩ := bind_ok h
         exact (ih _ _ h).trans rfl)
    · have := pure_ok h; subst this; rfl

/-- `codes_encode` has one slot per symbol value `0..=sigma` -/
theorem craft_size {D : Nat} {lens : List (Nat × Nat)} {sigma : Nat} {codes : Array PrefixCode}
    (h : Huff.craftWmCodes D lens sigma = .ok codes) : codes.size = sigma + 1 := by
  unfold Huff.craftWmCodes at h
  dsimp only at h
  obtain ⟨st, hst, h⟩ := bind_ok h
  have := pure_ok h; subst this
  refine foldlM_inv (fun _ (st : CraftSt) => st.assignments.size = sigma + 1) _ ?_ _ 0 _ st
    (by simp) hst
  intro k st j st' hP hs
  obtain ⟨st1, hg, hs⟩ := bind_ok hs
  obtain ⟨cj, _, hs⟩ := bind_ok hs
  obtain ⟨rev, _, hs⟩ := bind_ok hs
  have e := grow_assign _ _ _ _ _ _ hg
  have hs := ite_throw_ok hs
  have := pure_ok hs; subst this
  simp [e, hP]

theorem foldl_size {α β : Type} (step : Array α → β → Array α)
    (hstep : ∀ acc i, (step acc i).size = acc.size) :
    ∀ (l : List β) (acc : Array α), (l.foldl step acc).size = acc.size := by
  intro l
  induction l with
  | nil => intro acc; rfl
  | cons x xs ih => intro acc; rw [List.foldl_cons, ih, hstep]

/-- one decode table per code length `0..=maxLen` -/
theorem decodeTables_size (codes : Array PrefixCode) (maxLen : Nat) :
    (Huff.decodeTables codes maxLen).size = maxLen + 1 := by
  unfold Huff.decodeTables
  dsimp only
  rw [Array.size_map, foldl_size]
  · simp
  · intro acc i
    split
    · rw [Array.size_modify]
    · rfl

theorem insertByKey_length {α : Type} (key : α → Nat) (x : α) :
    ∀ l : List α, (insertByKey key x l).length = l.length + 1 := by
  intro l
  induction l with
  | nil => rfl
  | cons y ys ih =>
    simp only [insertByKey]
    split
    · rfl
    · simp [ih]

theorem sortByKey_length {α : Type} (key : α → Nat) (l : List α) : (sortByKey key l).length = l.length := by
  unfold sortByKey
  have : ∀ (l acc : List α), (l.foldl (fun acc x => insertByKey key x acc) acc).length = acc.length + l.length := by
    intro l
    induction l with
    | nil => intro acc; rfl
    | cons x xs ih =>
      intro acc
      rw [List.foldl_cons, ih, insertByKey_length, List.length_cons]; omega
  rw [this]; simp

/-- total number of entries of an array of lists -/
def tot {α : Type} (l : List (List α)) : Nat := (l.map List.length).sum

theorem tot_modify {α : Type} (x : α) : ∀ (l : List (List α)) (k : Nat),
    tot (l.modify k (fun v => v ++ [x])) ≤ tot l + 1 := by
  intro l
  induction l with
  | nil => intro k; simp [tot]
  | cons y ys ih =>
    intro k
    cases k with
    | zero => simp [tot]; omega
    | succ k =>
      have := ih k
      simp only [tot, List.modify_succ_cons, List.map_cons, List.sum_cons] at *
      omega

theorem tot_fold (codes : Array PrefixCode) : ∀ (l : List Nat) (acc : Array (List (Nat × Nat))),
    tot (l.foldl (fun (acc : Array (List (Nat × Nat))) i =>
        let cd := codes[i]!
        if cd.len != 0 then acc.modify cd.len (fun l => l ++ [(cd.content, i)]) else acc) acc).toList
      ≤ tot acc.toList + l.length := by
  intro l
  induction l with
  | nil => intro acc; simp
  | cons i is ih =>
    intro acc
    rw [List.foldl_cons]
    refine Nat.le_trans (ih _) ?_
    dsimp only
    split
    · rw [Array.toList_modify, List.length_cons]
      have := tot_modify (codes[i]!.content, i) acc.toList codes[i]!.len
      omega
    · rw [List.length_cons]; omega

/-- the decode tables hold at most one entry per encode slot -/
theorem decodeTables_entries (codes : Array PrefixCode) (maxLen : Nat) :
    ((Huff.decodeTables codes maxLen).toList.map Array.size).sum ≤ codes.size := by
  unfold Huff.decodeTables
  dsimp only
  have h := tot_fold codes (List.range codes.size) (Array.replicate (maxLen + 1) [])
  have h0 : tot (Array.replicate (maxLen + 1) ([] : List (Nat × Nat))).toList = 0 := by
    simp [tot]
  rw [h0, List.length_range, Nat.zero_add] at h
  refine Nat.le_trans (Nat.le_of_eq ?_) h
  rw [Array.toList_map, List.map_map, tot]
  congr 1
  apply List.map_congr_left
  intro l _
  simp [sortByKey_length]

/-- the tables of a Huffman-shaped quad tree built by `new` on a non-empty input -/
theorem huff_new_tables (c : Cfg) (seq : Array Nat) (lens : List (Nat × Nat)) {t : Huff.HQWT}
    (h : Huff.new c seq lens = .ok t) (hne : seq.isEmpty = false) :
    t.codesEncode.size = Utils.asUsize (seq.foldl max 0) + 1 ∧
    t.codesDecode.size = t.codesEncode.foldl (fun m x => max m x.len) 0 + 1 ∧
    (t.codesDecode.toList.map Array.size).sum ≤ t.codesEncode.size ∧
    t.nLevels = t.codesEncode.foldl (fun m x => max m x.len) 0 / 2 := by
  unfold Huff.new at h
  rw [hne] at h
  simp only [Bool.false_eq_true, if_false] at h
  obtain ⟨codes, hc, h⟩ := bind_ok h
  obtain ⟨st, _, h⟩ := bind_ok h
  have := pure_ok h; subst this
  exact ⟨craft_size hc, decodeTables_size _ _, decodeTables_entries _ _, rfl⟩

/-- the tables of a Huffman-shaped binary tree built by `new` on a non-empty input -/
theorem hwt_new_tables (c : Cfg) (seq : Array Nat) (lens : List (Nat × Nat)) {t : BinWT.WT}
    (h : BinWT.new c true seq lens = .ok t) (hne : seq.isEmpty = false) :
    ∃ e d, t.codesEncode = some e ∧ t.codesDecode = some d ∧
      e.size = Utils.asUsize (seq.foldl max 0) + 1 ∧
      d.size = e.foldl (fun m x => max m x.len) 0 + 1 ∧
      (d.toList.map Array.size).sum ≤ e.size ∧
      t.nLevels = e.foldl (fun m x => max m x.len) 0 := by
  unfold BinWT.new at h
  rw [hne] at h
  simp only [Bool.false_eq_true, if_false, if_true] at h
  obtain ⟨codes, hc, h⟩ := bind_ok h
  obtain ⟨x, hx, h⟩ := bind_ok h
  have := pure_ok hx; subst this
  obtain ⟨st, _, h⟩ := bind_ok h
  have := pure_ok h; subst this
  exact ⟨codes, _, rfl, rfl, craft_size hc, decodeTables_size _ _, decodeTables_entries _ _, rfl⟩

end tables

end Qwt.SpaceSizes
