import Qwt.Proofs.RSQRank

/-! `RepInv ⇒ select`. -/
namespace Qwt.RSQP
open Qwt Qwt.QV Qwt.RSQ Qwt.Extracted

theorem getSuperblockCounter_ok {B : Nat} {rs : RSSupportPlain} {s : List Nat}
    (h : RSInv B rs s) (hlen : s.length < 2 ^ 43) {j c : Nat} (hj : j ≤ s.length / (8 * B)) (hc : c < 4) :
    getSuperblockCounter rs j c = .ok (Spec.rank c (j * (8 * B)) s) := by
  unfold getSuperblockCounter
  rw [nSuperblocks_eq h, if_neg (by omega)]
  simp only []
  rw [if_neg (by omega)]
  rw [uidx_ok (by rw [h.sbs_size]; omega)]
  simp only [ok_bind]
  have h1 := h.sb j c hj hc
  unfold sbOf at h1
  rw [h1, two64_eq, Nat.mod_eq_of_lt (rank_lt_two64 _ _ _ hlen)]; rfl

/-- the search loops: the result is the first probe `first + t·step` that is `≥ last` or whose
    counter is `≥ i`, provided the fuel reaches such a probe; nothing outside `[first, last)` is read -/
theorem searchStep_spec {rs : RSSupportPlain} {c i step last : Nat} (cntr : Nat → Nat)
    (hcnt : ∀ j, j < last → getSuperblockCounter rs j c = .ok (cntr j)) :
    ∀ fuel first, (∃ t0, t0 < fuel ∧ (last ≤ first + t0 * step ∨ i ≤ cntr (first + t0 * step))) →
      ∃ t, searchStep rs c i step last fuel first = .ok (first + t * step) ∧
        (last ≤ first + t * step ∨ i ≤ cntr (first + t * step)) ∧
        ∀ t', t' < t → first + t' * step < last ∧ cntr (first + t' * step) < i := by
  intro fuel
  induction fuel with
  | zero => intro first ⟨t0, h0, _⟩; omega
  | succ fuel ih =>
    intro first ⟨t0, h0, hstop⟩
    unfold searchStep
    by_cases hfl : first < last
    · rw [if_pos hfl, hcnt first hfl]
      simp only [ok_bind]
      by_cases hci : cntr first ≥ i
      · rw [if_pos hci]
        exact ⟨0, by simp; rfl, by rw [Nat.zero_mul, Nat.add_zero]; exact Or.inr hci,
          fun t' ht' => by omega⟩
      · rw [if_neg hci]
        have ht0 : t0 ≠ 0 := by
          intro e; subst e; rw [Nat.zero_mul, Nat.add_zero] at hstop; omega
        have hs1 : ∀ t, first + step + t * step = first + (t + 1) * step := by
          intro t; rw [Nat.succ_mul]; omega
        obtain ⟨t, e, hst, hall⟩ := ih (first + step) ⟨t0 - 1, by omega, by
          rw [hs1, show t0 - 1 + 1 = t0 by omega]; exact hstop⟩
        refine ⟨t + 1, by rw [e, hs1], by rw [← hs1]; exact hst, fun t' ht' => ?_⟩
        by_cases ht'0 : t' = 0
        · subst ht'0; rw [Nat.zero_mul, Nat.add_zero]; exact ⟨hfl, by omega⟩
        · have := hall (t' - 1) (by omega)
          rw [hs1, show t' - 1 + 1 = t' by omega] at this
          exact this
    · rw [if_neg hfl]
      exact ⟨0, by simp; rfl, by rw [Nat.zero_mul, Nat.add_zero]; exact Or.inl (by omega),
        fun t' ht' => by omega⟩


/-- block counter `b` of a packed word, `0` for block `0` -/
def fld0 (w b : Nat) : Nat := if b = 0 then 0 else fld w b

theorem bp_go_spec (W target : Nat) : ∀ f blockId, f + blockId = 8 → 1 ≤ blockId →
    ∃ bs, blockPredecessor.go target f blockId (W >>> (12 * (blockId - 1))) (fld0 W (blockId - 1)) =
        (bs, fld0 W bs) ∧ blockId - 1 ≤ bs ∧ bs ≤ 7 ∧
      (∀ b, blockId ≤ b → b ≤ bs → fld0 W b < target) ∧ (bs = 7 ∨ target ≤ fld0 W (bs + 1)) := by
  intro f
  induction f with
  | zero =>
    intro blockId h8 h1
    have : blockId = 8 := by omega
    subst this
    exact ⟨7, rfl, by omega, by omega, fun b h1 h2 => by omega, Or.inl rfl⟩
  | succ f ih =>
    intro blockId h8 h1
    unfold blockPredecessor.go
    have hcurr : ((W >>> (12 * (blockId - 1))) &&& 0xFFF) % two64 = fld0 W blockId := by
      unfold fld0 fld
      rw [if_neg (by omega), show (0xFFF : Nat) = 2 ^ 12 - 1 from rfl, Nat.and_two_pow_sub_one_eq_mod,
        two64_eq]
      apply Nat.mod_eq_of_lt
      have : W >>> (12 * (blockId - 1)) % 2 ^ 12 < 2 ^ 12 := Nat.mod_lt _ (by decide)
      omega
    simp only [hcurr]
    by_cases hge : fld0 W blockId ≥ target
    · rw [if_pos hge]
      exact ⟨blockId - 1, rfl, by omega, by omega, fun b h1 h2 => by omega,
        Or.inr (by rw [show blockId - 1 + 1 = blockId by omega]; exact hge)⟩
    · rw [if_neg hge]
      have hsh : (W >>> (12 * (blockId - 1))) >>> 12 = W >>> (12 * (blockId + 1 - 1)) := by
        rw [← Nat.shiftRight_add]; congr 1; omega
      rw [hsh]
      obtain ⟨bs, e, hb1, hb2, hb3, hb4⟩ := ih (blockId + 1) (by omega) (by omega)
      rw [show blockId + 1 - 1 = blockId by omega] at e hb1
      refine ⟨bs, ?_, by omega, hb2, fun b h1 h2 => ?_, hb4⟩
      · rw [show blockId + 1 - 1 = blockId by omega]; exact e
      · by_cases hbb : b = blockId
        · subst hbb; omega
        · exact hb3 b (by omega) h2

theorem blockPredecessor_spec {B : Nat} {rs : RSSupportPlain} {s : List Nat}
    (h : RSInv B rs s) {j c : Nat} (hj : j ≤ s.length / (8 * B)) (hc : c < 4) (target : Nat) :
    ∃ bs, blockPredecessor rs j c target = .ok (bs, fld0 (rs.superblocks.getD (4 * j + c) 0) bs) ∧
      bs ≤ 7 ∧ (∀ b, 1 ≤ b → b ≤ bs → fld0 (rs.superblocks.getD (4 * j + c) 0) b < target) ∧
      (bs = 7 ∨ target ≤ fld0 (rs.superblocks.getD (4 * j + c) 0) (bs + 1)) := by
  unfold blockPredecessor
  rw [nSuperblocks_eq h, if_neg (by omega)]
  simp only []
  rw [if_neg (by omega), uidx_ok (by rw [h.sbs_size]; omega)]
  simp only [ok_bind]
  obtain ⟨bs, e, _, hb2, hb3, hb4⟩ := bp_go_spec (rs.superblocks.getD (4 * j + c) 0) target 7 1 rfl
    (Nat.le_refl _)
  rw [show 12 * (1 - 1) = 0 from rfl, Nat.shiftRight_zero] at e
  rw [sbq]
  exact ⟨bs, by rw [show (1 : Nat) - 1 = 0 from rfl] at e; rw [show fld0 _ 0 = 0 from rfl] at e; rw [e]; rfl,
    hb2, hb3, hb4⟩



/-- the two search loops of `select_block` end one past the last superblock whose counter is `< i` -/
theorem search_ok {rs : RSSupportPlain} {c i last first0 st : Nat} (cntr : Nat → Nat)
    (hcnt : ∀ j, j < last → getSuperblockCounter rs j c = .ok (cntr j))
    (hmono : ∀ a b, a ≤ b → cntr a ≤ cntr b) (sj : Nat) (hsj1 : cntr sj < i)
    (hsj2 : ∀ j, sj < j → i ≤ cntr j) (hf : first0 ≤ sj) (hl : sj < last) (hst : 1 ≤ st) :
    ∃ f1 f2, searchStep rs c i st last (last - first0 + 1) first0 = .ok f1 ∧ st ≤ f1 ∧
      searchStep rs c i 1 last (st + 1) (f1 - st) = .ok f2 ∧ 1 ≤ f2 ∧ f2 - 1 = sj := by
  have hlow : ∀ j, j ≤ sj → cntr j < i := fun j hj => Nat.lt_of_le_of_lt (hmono j sj hj) hsj1
  -- first loop
  obtain ⟨t1, e1, hs1, ha1⟩ := searchStep_spec (i := i) (step := st) cntr hcnt (last - first0 + 1) first0
    ⟨last - first0, by omega, Or.inl (by
      have := Nat.le_mul_of_pos_right (last - first0) hst
      omega)⟩
  have ht1 : t1 ≠ 0 := by
    intro e; subst e; rw [Nat.zero_mul, Nat.add_zero] at hs1
    have := hlow first0 hf; omega
  have hmul : t1 * st = (t1 - 1) * st + st := by
    rw [← Nat.succ_mul]; congr 1; omega
  have hf1' := ha1 (t1 - 1) (by omega)
  refine ⟨first0 + t1 * st, ?_⟩
  have hsub : first0 + t1 * st - st = first0 + (t1 - 1) * st := by omega
  rw [hsub]
  -- second loop
  obtain ⟨t2, e2, hs2, ha2⟩ := searchStep_spec (i := i) (step := 1) cntr hcnt (st + 1)
    (first0 + (t1 - 1) * st) ⟨st, by omega, by rw [Nat.mul_one]; rw [hmul] at hs1; rw [Nat.add_assoc]; exact hs1⟩
  have ht2 : t2 ≠ 0 := by
    intro e; subst e; rw [Nat.zero_mul, Nat.add_zero] at hs2; omega
  have hf3 := ha2 (t2 - 1) (by omega)
  rw [Nat.mul_one] at hs2 e2 hf3
  refine ⟨first0 + (t1 - 1) * st + t2, e1, by omega, e2, by omega, ?_⟩
  -- `f3 = sj`
  have hle : first0 + (t1 - 1) * st + (t2 - 1) ≤ sj := by
    rcases Nat.lt_or_ge sj (first0 + (t1 - 1) * st + (t2 - 1)) with hgt | hgt
    · have := hsj2 _ hgt; omega
    · exact hgt
  have hge : sj ≤ first0 + (t1 - 1) * st + (t2 - 1) := by
    rcases hs2 with hs2 | hs2
    · omega
    · rcases Nat.lt_or_ge sj (first0 + (t1 - 1) * st + t2) with hgt | hgt
      · omega
      · have := hlow _ hgt; omega
  omega



theorem idx_ok' {α : Type} {a : Array α} {i : Nat} (d : α) (h : i < a.size) : idx a i = .ok (a.getD i d) := by
  unfold idx; rw [dif_pos h]; simp [Array.getD, h]

theorem sub_ok {a b : Nat} (h : b ≤ a) : sub a b = .ok (a - b) := by
  unfold sub; rw [if_pos h]

/-- a position with rank `≤ k` is not after the position of occurrence `k` -/
theorem pos_le_of_rank_le {c : Nat} {s : List Nat} {p p' : Nat} (hp : s[p]? = some c)
    (h : Spec.rank c p' s ≤ Spec.rank c p s) : p' ≤ p := by
  rcases Nat.lt_or_ge p p' with hlt | hge
  · have := rank_succ_of_eq c s hp
    have := rank_mono c s (show p + 1 ≤ p' from hlt)
    omega
  · exact hge

theorem pos_lt_of_rank_lt {c : Nat} {s : List Nat} {p p' : Nat}
    (h : Spec.rank c p s < Spec.rank c p' s) : p < p' := by
  rcases Nat.lt_or_ge p p' with hlt | hge
  · exact hlt
  · have := rank_mono c s hge; omega

theorem lt_length_of_getElem? {s : List Nat} {p c : Nat} (hp : s[p]? = some c) : p < s.length := by
  rcases Nat.lt_or_ge p s.length with h | h
  · exact h
  · rw [List.getElem?_eq_none h] at hp; cases hp

theorem arA1 {B : Nat} (hB : B = 256 ∨ B = 512) (p : Nat) :
    ∀ b, b + 1 ≤ p / B % 8 → (8 * (p / (8 * B)) + (b + 1)) * B ≤ p := by
  intro b hb; rcases hB with rfl | rfl <;> omega
theorem arA2 {B : Nat} (hB : B = 256 ∨ B = 512) (p : Nat) :
    p + 1 ≤ (8 * (p / (8 * B)) + (p / B % 8 + 1)) * B := by rcases hB with rfl | rfl <;> omega
theorem arA3 {B : Nat} (hB : B = 256 ∨ B = 512) (p : Nat) :
    ∀ j, p / (8 * B) < j → p + 1 ≤ j * (8 * B) := by
  intro j hj; rcases hB with rfl | rfl <;> omega
theorem arDec {B : Nat} (hB : B = 256 ∨ B = 512) (p : Nat) :
    8 * (p / (8 * B)) + p / B % 8 = p / B := by rcases hB with rfl | rfl <;> omega
theorem arPos {B : Nat} (hB : B = 256 ∨ B = 512) (p : Nat) :
    p / (8 * B) * B * 8 + p / B % 8 * B = p / B * B := by rcases hB with rfl | rfl <;> omega
theorem arA4 {B : Nat} (hB : B = 256 ∨ B = 512) (p : Nat) :
    p / (8 * B) * (8 * B) ≤ p / B * B := by rcases hB with rfl | rfl <;> omega
theorem arA5 {B : Nat} (hB : B = 256 ∨ B = 512) (p : Nat) :
    p / B % 8 = 0 → p / (8 * B) * (8 * B) = p / B * B := by
  intro h0; rcases hB with rfl | rfl <;> omega

theorem selectBlock_ok {B : Nat} {rs : RSSupportPlain} {s : List Nat} (hB : B = 256 ∨ B = 512)
    (h : RSInv B rs s) (hlen : s.length < 2 ^ 43) {c k p : Nat} (hc : c < 4) (hp : s[p]? = some c)
    (hr : Spec.rank c p s = k) :
    selectBlock B rs c (k + 1) = .ok (p / B * B, Spec.rank c (p / B * B) s) := by
  have hpn := lt_length_of_getElem? hp
  have hA1 := arA1 hB p
  have hA2 := arA2 hB p
  have hA3 := arA3 hB p
  have hdec := arDec hB p
  have hpos := arPos hB p
  have hA4 := arA4 hB p
  have hA5 := arA5 hB p
  have hr1 : Spec.rank c (p + 1) s = k + 1 := by rw [rank_succ_of_eq c s hp, hr]
  have hcnt : k < s.count c := by
    have := rank_le_count c s (p + 1); omega
  have FS := h.samples c hc (by omega)
  -- the samples
  have ht1 : k / rsqSelectNumSamples * rsqSelectNumSamples ≤ k := Nat.div_mul_le_self _ _
  have ht2 : k < (k / rsqSelectNumSamples + 1) * rsqSelectNumSamples := by
    have := Nat.lt_succ_iff.mp (Nat.lt_succ_of_le (Nat.le_refl k))
    rw [Nat.mul_comm]; exact Nat.lt_mul_div_succ k P_pos
  generalize ht : k / rsqSelectNumSamples = t at ht1 ht2
  obtain ⟨hts, pt, hpt1, hpt2, hpt3⟩ := FS.val t (by omega)
  have hptp : pt ≤ p := pos_le_of_rank_le hp (by omega)
  obtain ⟨nxt, hn1, hn2, hn3, hn4⟩ : ∃ nxt, t + 1 < (rs.selectSamples.getD c #[]).size ∧
      (rs.selectSamples.getD c #[]).getD (t + 1) 0 = nxt ∧ p / (8 * B) ≤ nxt ∧ nxt ≤ s.length / (8 * B) := by
    by_cases hnx : (t + 1) * rsqSelectNumSamples < s.count c
    · obtain ⟨hts', p', hp'1, hp'2, hp'3⟩ := FS.val (t + 1) hnx
      have hpp' : p < p' := pos_lt_of_rank_lt (c := c) (s := s) (by omega)
      have hp'n := lt_length_of_getElem? hp'1
      exact ⟨_, hts', hp'3, Nat.div_le_div_right (by omega), Nat.div_le_div_right (by omega)⟩
    · obtain ⟨hts', hv⟩ := FS.sentinel t (by omega) (by omega)
      exact ⟨_, hts', hv, Nat.div_le_div_right (by omega), Nat.le_refl _⟩
  have hf0 : pt / (8 * B) ≤ p / (8 * B) := Nat.div_le_div_right hptp
  unfold selectBlock
  rw [sub_ok (by omega), Nat.add_sub_cancel]
  simp only [ok_bind]
  rw [ht, idx_ok' #[] (by rw [h.samples_size]; exact hc)]
  simp only [ok_bind]
  rw [idx_ok hts, idx_ok hn1, hpt3, hn2]
  simp only [ok_bind]
  rw [sub_ok (by omega)]
  simp only [ok_bind]
  -- the search
  have hsj : p / (8 * B) * (8 * B) ≤ p := Nat.div_mul_le_self _ _
  obtain ⟨f1, f2, e1, hf1, e2, hf2, hf3⟩ := search_ok (rs := rs) (c := c) (i := k + 1)
    (last := 1 + nxt) (first0 := pt / (8 * B)) (st := Nat.sqrt (1 + nxt - pt / (8 * B)) + 1)
    (fun j => Spec.rank c (j * (8 * B)) s)
    (fun j hj => getSuperblockCounter_ok h hlen (by omega) hc)
    (fun a b hab => rank_mono c s (Nat.mul_le_mul_right _ hab))
    (p / (8 * B))
    (by have := rank_mono c s hsj; omega)
    (fun j hj => by
      have := rank_mono c s (hA3 j hj); omega)
    hf0 (by omega) (by omega)
  rw [e1]
  simp only [ok_bind]
  rw [sub_ok hf1]
  simp only [ok_bind]
  rw [e2]
  simp only [ok_bind]
  rw [sub_ok hf2, hf3]
  simp only [ok_bind]
  have hpsb : p / (8 * B) ≤ s.length / (8 * B) := Nat.div_le_div_right (by omega)
  rw [getSuperblockCounter_ok h hlen hpsb hc]
  simp only [ok_bind]
  have hrk : Spec.rank c (p / (8 * B) * (8 * B)) s ≤ k := by have := rank_mono c s hsj; omega
  rw [sub_ok (by omega)]
  simp only [ok_bind]
  -- the block
  obtain ⟨bs, e3, hb1, hb2, hb3⟩ := blockPredecessor_spec h hpsb hc
    (k + 1 - Spec.rank c (p / (8 * B) * (8 * B)) s)
  rw [e3]
  simp only [ok_bind]
  have hfld : ∀ b, 1 ≤ b → b ≤ 7 → 8 * (p / (8 * B)) + b ≤ p / B + 1 →
      fld0 (rs.superblocks.getD (4 * (p / (8 * B)) + c) 0) b =
        Spec.rank c ((8 * (p / (8 * B)) + b) * B) s - Spec.rank c (p / (8 * B) * (8 * B)) s := by
    intro b h1 h7 hle
    unfold fld0
    rw [if_neg (by omega), h.fl _ c b hpsb hc h1 h7, if_pos]
    have : p / B ≤ s.length / B := Nat.div_le_div_right (by omega)
    omega
  have hbs : bs = p / B % 8 := by
    rcases Nat.lt_trichotomy bs (p / B % 8) with hlt | heq | hgt
    · -- stopped too early: block `bs + 1 ≤ b°` has a counter `< target`
      exfalso
      rcases hb3 with hb3 | hb3
      · omega
      · rw [hfld (bs + 1) (by omega) (by omega) (by omega)] at hb3
        have := rank_mono c s (hA1 bs (by omega))
        omega
    · exact heq
    · exfalso
      have := hb2 (p / B % 8 + 1) (by omega) (by omega)
      rw [hfld (p / B % 8 + 1) (by omega) (by omega) (by omega)] at this
      have := rank_mono c s hA2
      omega
  subst hbs
  rw [sbq]
  show Except.ok (_, _) = Except.ok (_, _)
  rw [hpos]
  congr 2
  by_cases hb0 : p / B % 8 = 0
  · rw [hb0, show fld0 _ 0 = 0 from rfl, Nat.add_zero]
    rw [hA5 hb0]
  · rw [hfld _ (by omega) (by omega) (by omega), hdec]
    have := rank_mono c s hA4
    omega



theorem half_found (hsel : SelHyp) {f : Nat → Bool} {w a p i result : Nat} (hw : w < 2 ^ 128)
    (hbits : ∀ j, j < 128 → w.testBit j = f (a + j)) (hap : a ≤ p) (hpa : p < a + 128)
    (hfp : f p = true) (hi : i = cntF (fun j => f (a + j)) (p - a)) :
    selectIntraHalf w i result = .ok (.inl (result + (p - a))) := by
  unfold selectIntraHalf
  have hc : ∀ m, m ≤ 128 → cntF (fun j => w.testBit j) m = cntF (fun j => f (a + j)) m :=
    fun m hm => cntF_congr (fun j hj => hbits j (by omega))
  have hpc : Qwt.popc w = cntF (fun j => f (a + j)) 128 := by rw [popc_of_lt hw, hc _ (Nat.le_refl _)]
  have htb : w.testBit (p - a) = true := by rw [hbits _ (by omega), show a + (p - a) = p by omega]; exact hfp
  have hlt : i < Qwt.popc w := by
    rw [hi, ← hc _ (by omega), popc_of_lt hw]
    exact cntF_lt_of_true (f := fun j => w.testBit j) htb (by omega)
  obtain ⟨q, e, hq, hq1, hq2⟩ := sel_spec hsel hw hlt
  have : q = p - a := by
    apply cntF_inj (f := fun j => w.testBit j) hq1 htb
    rw [hq2, hi, hc _ (by omega)]
  subst this
  simp only []
  rw [if_pos hlt, e]
  rfl

theorem half_skip {f : Nat → Bool} {w a p i result : Nat} (hw : w < 2 ^ 128)
    (hbits : ∀ j, j < 128 → w.testBit j = f (a + j)) (hpa : a + 128 ≤ p)
    (hi : i = cntF (fun j => f (a + j)) (p - a)) :
    selectIntraHalf w i result =
      .ok (.inr (cntF (fun j => f (a + 128 + j)) (p - (a + 128)), result + 128)) := by
  unfold selectIntraHalf
  have hpc : Qwt.popc w = cntF (fun j => f (a + j)) 128 := by
    rw [popc_of_lt hw]; exact cntF_congr (fun j hj => hbits j hj)
  have hsplit := cntF_add (fun j => f (a + j)) 128 (p - (a + 128))
  rw [show 128 + (p - (a + 128)) = p - a by omega] at hsplit
  have e : i - Qwt.popc w = cntF (fun j => f (a + 128 + j)) (p - (a + 128)) := by
    rw [hi, hpc, hsplit, Nat.add_sub_cancel_left]
    apply cntF_congr; intro j _; simp only [Nat.add_assoc]
  simp only []
  rw [if_neg (by omega), e]
  rfl



section
variable {r : RSQVector} {s : List Nat} {c : Nat}

/-- padded indicator of `c` -/
def ind (s : List Nat) (c : Nat) (j : Nat) : Bool := decide (s.getD j 0 = c)

theorem ind_of_getElem? {p : Nat} (hp : s[p]? = some c) : ind s c p = true := by
  unfold ind; rw [List.getD_eq_getElem?_getD, hp]; simp

/-- the occurrence is in line `lineId + j` -/
theorem sib_go_found (hsel : SelHyp) (hq : Holds r.qv s) (hs : ∀ x ∈ s, x < 4) (hc : c < 4)
    {lineId f j i result p : Nat} (hp : s[p]? = some c)
    (h1 : 256 * (lineId + j) ≤ p) (h2 : p < 256 * (lineId + j) + 256)
    (hi : i = cntF (fun t => ind s c (256 * (lineId + j) + t)) (p - 256 * (lineId + j))) :
    selectIntraBlock.go r c lineId (f + 1) j i result = .ok (result + (p - 256 * (lineId + j))) := by
  have hpn := lt_length_of_getElem? hp
  have hl : lineId + j < (s.length + 255) / 256 := by omega
  obtain ⟨w0, w1, hn, hw0, hw1, hb0, hb1⟩ := normalize_ok hq hs hl hc
  unfold selectIntraBlock.go
  rw [holds_nLines hq, if_neg (by omega)]
  simp only []
  rw [hn]
  simp only [ok_bind]
  by_cases hh : p < 256 * (lineId + j) + 128
  · rw [half_found hsel (f := ind s c) hw0 hb0 h1 hh (ind_of_getElem? hp) hi]
    rfl
  · have hh' : 256 * (lineId + j) + 128 ≤ p := by omega
    rw [half_skip (f := ind s c) hw0 hb0 hh' hi]
    simp only [ok_bind]
    rw [half_found hsel (f := ind s c) hw1 hb1 hh' (by omega) (ind_of_getElem? hp) rfl]
    have e : result + 128 + (p - (256 * (lineId + j) + 128)) = result + (p - 256 * (lineId + j)) := by
      omega
    rw [e]
    rfl

/-- the occurrence is after line `lineId + j` -/
theorem sib_go_skip (hq : Holds r.qv s) (hs : ∀ x ∈ s, x < 4) (hc : c < 4)
    {lineId f j i result p : Nat} (hpn : p < s.length)
    (h2 : 256 * (lineId + j) + 256 ≤ p)
    (hi : i = cntF (fun t => ind s c (256 * (lineId + j) + t)) (p - 256 * (lineId + j))) :
    selectIntraBlock.go r c lineId (f + 1) j i result =
      selectIntraBlock.go r c lineId f (j + 1)
        (cntF (fun t => ind s c (256 * (lineId + (j + 1)) + t)) (p - 256 * (lineId + (j + 1)))) (result + 256) := by
  have hl : lineId + j < (s.length + 255) / 256 := by omega
  obtain ⟨w0, w1, hn, hw0, hw1, hb0, hb1⟩ := normalize_ok hq hs hl hc
  conv => lhs; unfold selectIntraBlock.go
  rw [holds_nLines hq, if_neg (by omega)]
  simp only []
  rw [hn]
  simp only [ok_bind]
  rw [half_skip (f := ind s c) hw0 hb0 (by omega) hi]
  simp only [ok_bind]
  rw [half_skip (f := ind s c) hw1 hb1 (by omega) rfl]
  simp only [ok_bind]
  rw [show 256 * (lineId + j) + 128 + 128 = 256 * (lineId + (j + 1)) by omega,
    show result + 128 + 128 = result + 256 by omega]

end


theorem ind_cnt (s : List Nat) (c a p : Nat) (ha : a ≤ p) (hp : p ≤ s.length) :
    Spec.rank c p s - Spec.rank c a s = cntF (fun t => ind s c (a + t)) (p - a) := by
  have := cnt_line_eq_rank s c a (p - a) (by omega)
  rw [show a + (p - a) = p by omega] at this
  exact this.symm

theorem selectIntraBlock_ok (hsel : SelHyp) {B : Nat} {r : RSQVector} {s : List Nat} (h : RepInv B r s)
    {c p : Nat} (hc : c < 4) (hp : s[p]? = some c) :
    selectIntraBlock B r c (Spec.rank c p s - Spec.rank c (p / B * B) s + 1) (p / B * B) =
      .ok (p - p / B * B) := by
  have hpn := lt_length_of_getElem? hp
  have hq := h.holds
  have hs := h.syms
  unfold selectIntraBlock
  rw [sub_ok (by omega), Nat.add_sub_cancel]
  simp only [ok_bind]
  rcases h.hB with rfl | rfl
  · simp only [show ((256 : Nat) == 256) = true from rfl, if_true]
    have hline : (p / 256 * 256) >>> 8 = p / 256 := by rw [Nat.shiftRight_eq_div_pow]; omega
    have e0 : 256 * (p / 256 + 0) = p / 256 * 256 := by omega
    rw [hline, sib_go_found hsel hq hs hc (p := p) hp (by omega) (by omega)
      (by rw [e0]; exact ind_cnt s c _ p (by omega) (by omega))]
    rw [e0, Nat.zero_add]
  · simp only [show ((512 : Nat) == 256) = false from rfl, Bool.false_eq_true, if_false]
    have hline : (p / 512 * 512) >>> 8 = p / 512 * 2 := by rw [Nat.shiftRight_eq_div_pow]; omega
    have e0 : 256 * (p / 512 * 2 + 0) = p / 512 * 512 := by omega
    rw [hline]
    by_cases hh : p < p / 512 * 512 + 256
    · rw [sib_go_found hsel hq hs hc (p := p) hp (by omega) (by omega)
        (by rw [e0]; exact ind_cnt s c _ p (by omega) (by omega))]
      rw [e0, Nat.zero_add]
    · rw [sib_go_skip hq hs hc (p := p) hpn (by omega)
        (by rw [e0]; exact ind_cnt s c _ p (by omega) (by omega))]
      rw [sib_go_found hsel hq hs hc (p := p) hp (by omega) (by omega) rfl]
      have e1 : 0 + 256 + (p - 256 * (p / 512 * 2 + (0 + 1))) = p - p / 512 * 512 := by omega
      rw [e1]

theorem select_ok (hsel : SelHyp) {B : Nat} {r : RSQVector} {s : List Nat} (h : RepInv B r s)
    (dbg : Bool) (c k : Nat) :
    RSQ.select dbg B r c k = .ok (if c ≤ 3 then Spec.select c k s else none) := by
  unfold RSQ.select
  by_cases hc : c ≤ 3
  · rw [if_neg (by omega), if_pos hc, occsUnchecked_ok h dbg hc]
    simp only [ok_bind]
    by_cases hk : s.count c ≤ k
    · rw [if_pos hk, select_none_of_le c s k hk]; rfl
    · rw [if_neg hk]
      obtain ⟨p, e1, hp, hr⟩ := select_some_of_lt c s k (by omega)
      rw [selectBlock_ok h.hB h.rs h.hlen (by omega) hp hr]
      simp only [ok_bind]
      have hm := rank_mono c s (show p / B * B ≤ p from Nat.div_mul_le_self _ _)
      rw [sub_ok (by omega)]
      simp only [ok_bind]
      rw [← hr, selectIntraBlock_ok hsel h (by omega) hp]
      simp only [ok_bind]
      rw [hr, e1]
      have := Nat.div_mul_le_self p B
      show Except.ok (some _) = Except.ok (some _)
      congr 2; omega
  · rw [if_pos (by omega), if_neg hc]; rfl


end Qwt.RSQP
