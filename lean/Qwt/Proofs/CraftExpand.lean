import Qwt.Proofs.CraftRev
/-! C02: the child-expansion loops `expand4` / `expand2` of `craft_wm_codes`: no fault under the
stated bounds, and the resulting array in closed form (`ExpSpec`). -/
namespace Qwt.Proofs.Craft
open Qwt Qwt.Huff Qwt.Props.C02

theorem getD_set! (c : Array Nat) (i v k : Nat) :
    (c.set! i v).getD k 0 = if i = k ∧ i < c.size then v else c.getD k 0 := by
  simp only [Array.getD_eq_getD_getElem?, Array.set!_eq_setIfInBounds, Array.getElem?_setIfInBounds]
  by_cases h : i = k
  · subst h
    by_cases h2 : i < c.size <;> simp [h2]
  · simp [h]

theorem bind_ok {α β} (a : α) (f : α → M β) : (Except.ok a : M α) >>= f = f a := rfl

@[simp] theorem size_set! (c : Array Nat) (i v : Nat) : (c.set! i v).size = c.size := by simp

theorem setIdx_ok {c : Array Nat} {i v : Nat} (h : i < c.size) : setIdx c i v = .ok (c.set! i v) := by
  simp [setIdx, h, pure, Except.pure]

theorem idx_ok {α} [Inhabited α] {c : Array α} {i : Nat} (h : i < c.size) (d : α) : idx c i = .ok (c.getD i d) := by
  simp [idx, h, Array.getD_eq_getD_getElem?]


/-- result of the `for r in j..m` loop, for generic arity -/
structure ExpSpec (D j m P : Nat) (c c' : Array Nat) : Prop where
  size : c'.size = c.size
  low : ∀ i, i < j → c'.getD i 0 = c.getD i 0
  blk : ∀ k t, k < D → j ≤ t → t < m →
    c'.getD (k * (m - j) + t) 0 = c.getD t 0 + (D - 1 - k) * P

/-- loop invariant of `expand4` before iteration `r` -/
structure E4 (j m P r : Nat) (c c' : Array Nat) : Prop where
  size : c'.size = c.size
  low : ∀ i, i < j → c'.getD i 0 = c.getD i 0
  rest : ∀ i, r ≤ i → i < m → c'.getD i 0 = c.getD i 0
  blk : ∀ t, j ≤ t → t < r →
    c'.getD t 0 = c.getD t 0 + 3 * P ∧ c'.getD ((m - j) + t) 0 = c.getD t 0 + 2 * P ∧
    c'.getD (2 * (m - j) + t) 0 = c.getD t 0 + P ∧ c'.getD (3 * (m - j) + t) 0 = c.getD t 0

theorem or_shl {x a l : Nat} (hx : x < 2 ^ l) : x ||| (a * 2 ^ l) = x + a * 2 ^ l := by
  rw [Nat.or_comm, or_eq_add_of_dvd (Nat.dvd_mul_left _ _) hx, Nat.add_comm]

theorem expand4_loop {j m l : Nat} {c : Array Nat} (hjm : j ≤ m) (hsz : 3 * (m - j) + m ≤ c.size)
    (hl : l + 2 ≤ 32) (hb : ∀ t, j ≤ t → t < m → c.getD t 0 < 2 ^ l) :
    ∀ f r c', j ≤ r → r ≤ m → m ≤ f + r → E4 j m (2 ^ l) r c c' →
      ∃ c'', expand4 j m l f r c' = .ok c'' ∧ E4 j m (2 ^ l) m c c'' := by
  intro f
  induction f with
  | zero =>
    intro r c' _ hrm hf h
    have : r = m := by omega
    subst this
    exact ⟨c', rfl, h⟩
  | succ f ih =>
    intro r c' hjr hrm hf h
    by_cases hr : r < m
    · have hP : 0 < 2 ^ l := Nat.pow_pos (by decide)
      have h4 : 4 * 2 ^ l ≤ two32 := by
        rw [show two32 = 2 ^ 32 from rfl, show (4:Nat) = 2 ^ 2 from rfl, ← Nat.pow_add]
        exact Nat.pow_le_pow_right (by decide) (by omega)
      have hcr : c'.getD r 0 = c.getD r 0 := h.rest r (Nat.le_refl _) hr
      have hcrlt := hb r hjr hr
      have hs := h.size
      unfold expand4
      rw [if_pos hr, idx_ok (by omega) 0, bind_ok, sub_ok hjm, bind_ok, setIdx_ok (by omega), bind_ok,
        shl32_ok (by omega) (by omega), bind_ok, setIdx_ok (by simp; omega), bind_ok,
        shl32_ok (by omega) (by omega), bind_ok, setIdx_ok (by simp; omega), bind_ok,
        shl32_ok (by omega) (by omega), bind_ok, setIdx_ok (by simp; omega), bind_ok]
      apply ih (r + 1) _ (by omega) (by omega) (by omega)
      rw [hcr, or_shl hcrlt, or_shl hcrlt, or_shl hcrlt]
      refine ⟨by simp [hs], ?_, ?_, ?_⟩
      · intro i hi
        simp only [getD_set!]
        rw [if_neg (by omega), if_neg (by omega), if_neg (by omega), if_neg (by omega)]
        exact h.low i hi
      · intro i hi1 hi2
        simp only [getD_set!]
        rw [if_neg (by omega), if_neg (by omega), if_neg (by omega), if_neg (by omega)]
        exact h.rest i (by omega) hi2
      · intro t ht1 ht2
        have hd : 0 < m - j := by omega
        have hsz' := hsz
        by_cases htr : t = r
        · subst htr
          simp only [getD_set!, size_set!, true_and]
          refine ⟨?_, ?_, ?_, ?_⟩ <;> (repeat' split) <;> omega
        · have hblk := h.blk t ht1 (by omega)
          simp only [getD_set!, size_set!]
          refine ⟨?_, ?_, ?_, ?_⟩ <;> (repeat' split) <;> omega
    · have : r = m := by omega
      subst this
      refine ⟨c', ?_, h⟩
      unfold expand4
      rw [if_neg hr]; rfl

theorem expand4_spec {j m l : Nat} {c : Array Nat} (hjm : j ≤ m) (hsz : 3 * (m - j) + m ≤ c.size)
    (hl : l + 2 ≤ 32) (hb : ∀ t, j ≤ t → t < m → c.getD t 0 < 2 ^ l) :
    ∃ c', expand4 j m l (m + 1 - j) j c = .ok c' ∧ ExpSpec 4 j m (2 ^ l) c c' := by
  obtain ⟨c', h1, h2⟩ := expand4_loop hjm hsz hl hb (m + 1 - j) j c (Nat.le_refl _) hjm (by omega)
    ⟨rfl, fun _ _ => rfl, fun _ _ _ => rfl, fun t h1 h2 => by omega⟩
  refine ⟨c', h1, h2.size, h2.low, ?_⟩
  intro k t hk ht1 ht2
  obtain ⟨b0, b1, b2, b3⟩ := h2.blk t ht1 ht2
  have : k = 0 ∨ k = 1 ∨ k = 2 ∨ k = 3 := by omega
  rcases this with rfl | rfl | rfl | rfl
  · simpa using b0
  · simpa using b1
  · simpa using b2
  · simpa using b3

/-- loop invariant of `expand2` before iteration `r` -/
structure E2 (j m P r : Nat) (c c' : Array Nat) : Prop where
  size : c'.size = c.size
  low : ∀ i, i < j → c'.getD i 0 = c.getD i 0
  rest : ∀ i, r ≤ i → i < m → c'.getD i 0 = c.getD i 0
  blk : ∀ t, j ≤ t → t < r →
    c'.getD t 0 = c.getD t 0 + P ∧ c'.getD ((m - j) + t) 0 = c.getD t 0

theorem expand2_loop {j m l : Nat} {c : Array Nat} (hjm : j ≤ m) (hsz : (m - j) + m ≤ c.size)
    (hl : l + 1 ≤ 32) (hb : ∀ t, j ≤ t → t < m → c.getD t 0 < 2 ^ l) :
    ∀ f r c', j ≤ r → r ≤ m → m ≤ f + r → E2 j m (2 ^ l) r c c' →
      ∃ c'', expand2 j m l f r c' = .ok c'' ∧ E2 j m (2 ^ l) m c c'' := by
  intro f
  induction f with
  | zero =>
    intro r c' _ hrm hf h
    have : r = m := by omega
    subst this
    exact ⟨c', rfl, h⟩
  | succ f ih =>
    intro r c' hjr hrm hf h
    by_cases hr : r < m
    · have hP : 0 < 2 ^ l := Nat.pow_pos (by decide)
      have h4 : 2 * 2 ^ l ≤ two32 := by
        rw [show two32 = 2 ^ 32 from rfl, show (2:Nat) * 2 ^ l = 2 ^ 1 * 2 ^ l from rfl, ← Nat.pow_add]
        exact Nat.pow_le_pow_right (by decide) (by omega)
      have hcr : c'.getD r 0 = c.getD r 0 := h.rest r (Nat.le_refl _) hr
      have hcrlt := hb r hjr hr
      have hs := h.size
      unfold expand2
      rw [if_pos hr, idx_ok (by omega) 0, bind_ok, sub_ok hjm, bind_ok, setIdx_ok (by omega), bind_ok,
        shl32_ok (by omega) (by omega), bind_ok, setIdx_ok (by simp; omega), bind_ok]
      apply ih (r + 1) _ (by omega) (by omega) (by omega)
      rw [hcr, or_shl hcrlt]
      refine ⟨by simp [hs], ?_, ?_, ?_⟩
      · intro i hi
        simp only [getD_set!]
        rw [if_neg (by omega), if_neg (by omega)]
        exact h.low i hi
      · intro i hi1 hi2
        simp only [getD_set!]
        rw [if_neg (by omega), if_neg (by omega)]
        exact h.rest i (by omega) hi2
      · intro t ht1 ht2
        have hd : 0 < m - j := by omega
        have hsz' := hsz
        by_cases htr : t = r
        · subst htr
          simp only [getD_set!, size_set!, true_and]
          refine ⟨?_, ?_⟩ <;> (repeat' split) <;> omega
        · have hblk := h.blk t ht1 (by omega)
          simp only [getD_set!, size_set!]
          refine ⟨?_, ?_⟩ <;> (repeat' split) <;> omega
    · have : r = m := by omega
      subst this
      refine ⟨c', ?_, h⟩
      unfold expand2
      rw [if_neg hr]; rfl

theorem expand2_spec {j m l : Nat} {c : Array Nat} (hjm : j ≤ m) (hsz : (m - j) + m ≤ c.size)
    (hl : l + 1 ≤ 32) (hb : ∀ t, j ≤ t → t < m → c.getD t 0 < 2 ^ l) :
    ∃ c', expand2 j m l (m + 1 - j) j c = .ok c' ∧ ExpSpec 2 j m (2 ^ l) c c' := by
  obtain ⟨c', h1, h2⟩ := expand2_loop hjm hsz hl hb (m + 1 - j) j c (Nat.le_refl _) hjm (by omega)
    ⟨rfl, fun _ _ => rfl, fun _ _ _ => rfl, fun t h1 h2 => by omega⟩
  refine ⟨c', h1, h2.size, h2.low, ?_⟩
  intro k t hk ht1 ht2
  obtain ⟨b0, b1⟩ := h2.blk t ht1 ht2
  have : k = 0 ∨ k = 1 := by omega
  rcases this with rfl | rfl
  · simpa using b0
  · simpa using b1

end Qwt.Proofs.Craft


