import Qwt.Proofs.WaveletMatrix
import Qwt.Proofs.BinHWMSelect

/-!
Pure list-level Huffman-shaped QUAD wavelet matrix (property C02, `HuffQWaveletTree`):
an element with a code of `len x` base-4 digits takes part in levels `0 … len x − 1` only.
Level `k` stores the digits `δ k` of the *live* elements (`k < len x`); the next level is the
stable 4-way partition of the live elements with the ended ones removed.  The validity
condition `QOK` (what `WMValid 4` gives): every element has a non-empty code, the table is
prefix-free, and in every partitioned level the continuing elements precede the ending ones.
Arity-4 mirror of `Qwt/Proofs/BinHWM.lean`.  Core Lean only.
-/
set_option linter.unusedSimpArgs false
set_option linter.unusedVariables false

namespace Qwt.HQWM
open Qwt

variable {α : Type}

/-- the live elements of level `k` -/
def lvlQ (δ : Nat → α → Nat) (len : α → Nat) : Nat → List α → List α
  | 0, S => S
  | k + 1, S =>
    (Spec.stablePart (δ k) 4 (lvlQ δ len k S)).filter (fun x => decide (k + 1 < len x))

/-- the digit list of level `k` -/
def digsQ (δ : Nat → α → Nat) (len : α → Nat) (k : Nat) (S : List α) : List Nat :=
  (lvlQ δ len k S).map (δ k)

/-- where position `j` of a level with digits `ds` goes in the next level when following
    digit `d` (`rank + occs_smaller`) -/
def nextPos (d : Nat) (ds : List Nat) (j : Nat) : Nat :=
  Spec.rank d j ds + Spec.occsSmaller id d ds

/-- `x` agrees with `c` on the digits of levels `< k` -/
def agQ (δ : Nat → α → Nat) (c : α) (k : Nat) (x : α) : Bool :=
  (List.range k).all (fun j => δ j x == δ j c)

/-- validity of the code assignment for the sequence `S` -/
structure QOK (δ : Nat → α → Nat) (len : α → Nat) (S : List α) : Prop where
  pos : ∀ x ∈ S, 0 < len x
  dlt : ∀ k x, δ k x < 4
  /-- prefix-free -/
  pf : ∀ x ∈ S, ∀ y ∈ S, len x ≤ len y → (∀ j, j < len x → δ j x = δ j y) → x = y
  /-- matrix order: after the partition of level `k` the continuing elements come first -/
  pre : ∀ k, (Spec.stablePart (δ k) 4 (lvlQ δ len k S)).Pairwise
    (fun a b => k + 1 < len b → k + 1 < len a)

/-- `x` is live at level `k` and agrees with `c` on the digits of the levels before -/
def agP (δ : Nat → α → Nat) (len : α → Nat) (c : α) (k : Nat) (x : α) : Bool :=
  agQ δ c k x && decide (k < len x)

/-- `x` has at least `k` digits and agrees with `c` on them -/
def agR (δ : Nat → α → Nat) (len : α → Nat) (c : α) (k : Nat) (x : α) : Bool :=
  agQ δ c k x && decide (k ≤ len x)

/-- start of the block of `c` at level `k` -/
def blkStartQ (δ : Nat → α → Nat) (len : α → Nat) (c : α) (S : List α) : Nat → Nat
  | 0 => 0
  | k + 1 => nextPos (δ k c) (digsQ δ len k S) (blkStartQ δ len c S k)

/-! ## `agQ` -/

theorem agQ_zero (δ : Nat → α → Nat) (c x : α) : agQ δ c 0 x = true := by simp [agQ]

theorem agQ_succ (δ : Nat → α → Nat) (c : α) (k : Nat) (x : α) :
    agQ δ c (k + 1) x = (agQ δ c k x && (δ k x == δ k c)) := by
  simp [agQ, List.range_succ, List.all_append]

theorem agQ_self (δ : Nat → α → Nat) (c : α) (k : Nat) : agQ δ c k c = true := by
  simp [agQ]

theorem agQ_bit (δ : Nat → α → Nat) (c x : α) {j k : Nat} (h : j < k)
    (hk : agQ δ c k x = true) : δ j x = δ j c := by
  simp only [agQ, List.all_eq_true, List.mem_range] at hk
  simpa using hk j h

/-! ## one level -/

theorem mem_stablePart_iff (key : α → Nat) (r : Nat) (s : List α) (x : α) :
    x ∈ Spec.stablePart key r s ↔ x ∈ s ∧ key x < r := by
  simp only [Spec.stablePart, List.mem_flatMap, List.mem_range, List.mem_filter, beq_iff_eq]
  constructor
  · rintro ⟨d, hd, hx, rfl⟩; exact ⟨hx, hd⟩
  · rintro ⟨hx, hd⟩; exact ⟨key x, hd, hx, rfl⟩

/-- block step: a block `B` of `l` is sent to the sub-block of its `d`-elements -/
theorem part_blockQ (key : α → Nat) (d : Nat) (hd : d < 4) (A B C : List α) :
    ∃ A' C', Spec.stablePart key 4 (A ++ B ++ C) = A' ++ B.filter (fun x => key x == d) ++ C' ∧
      A'.length = nextPos d ((A ++ B ++ C).map key) A.length := by
  obtain ⟨C0, hC0⟩ := WM.stablePart_split key (A ++ B ++ C) hd
  refine ⟨Spec.stablePart key d (A ++ B ++ C) ++ A.filter (fun x => key x == d),
    C.filter (fun x => key x == d) ++ C0, ?_, ?_⟩
  · rw [hC0]; simp [List.filter_append, List.append_assoc]
  · rw [List.length_append, WM.length_stablePart, nextPos, WM.rank_map, WM.occsSmaller_map,
      BinWM.take_block_start, List.countP_eq_length_filter]
    omega

/-- position step inside a block -/
theorem nextPos_block (key : α → Nat) (d : Nat) (A B C : List α) (j : Nat) (hj : j ≤ B.length) :
    nextPos d ((A ++ B ++ C).map key) (A.length + j) =
      nextPos d ((A ++ B ++ C).map key) A.length + (B.take j).countP (fun x => key x == d) := by
  unfold nextPos
  rw [WM.rank_map, WM.rank_map, BinWM.take_block_start, BinWM.take_block _ _ _ _ hj,
    List.countP_append]
  omega

/-- the element at position `j` of `l` is at position `nextPos (key x) _ j` of the partition -/
theorem part_getQ (key : α → Nat) (l : List α) (j : Nat) (x : α) (h : l[j]? = some x)
    (hk : key x < 4) : (Spec.stablePart key 4 l)[nextPos (key x) (l.map key) j]? = some x :=
  WM.part_pos key l hk h rfl

theorem lvlQ_subset (δ : Nat → α → Nat) (len : α → Nat) (S : List α) (k : Nat) :
    ∀ x ∈ lvlQ δ len k S, x ∈ S := by
  induction k with
  | zero => intro x hx; exact hx
  | succ k ih =>
    intro x hx
    rw [lvlQ, List.mem_filter, mem_stablePart_iff] at hx
    exact ih x hx.1.1

theorem lvlQ_length_le (δ : Nat → α → Nat) (len : α → Nat) (k : Nat) (S : List α) :
    (lvlQ δ len k S).length ≤ S.length := by
  induction k with
  | zero => exact Nat.le_refl _
  | succ k ih =>
    rw [lvlQ]
    refine Nat.le_trans (List.length_filter_le _ _) ?_
    rw [WM.length_stablePart]
    exact Nat.le_trans List.countP_le_length ih

theorem lvlQ_live (δ : Nat → α → Nat) (len : α → Nat) (S : List α)
    (hpos : ∀ x ∈ S, 0 < len x) (k : Nat) : ∀ x ∈ lvlQ δ len k S, k < len x := by
  cases k with
  | zero => exact hpos
  | succ k =>
    intro x hx
    rw [lvlQ, List.mem_filter] at hx
    simpa using hx.2

/-! ## the predicates -/

theorem agP_and_dig (δ : Nat → α → Nat) (len : α → Nat) (c : α) (k : Nat) (x : α) :
    (agP δ len c k x && (δ k x == δ k c)) = agR δ len c (k + 1) x := by
  unfold agP agR
  rw [agQ_succ]
  have : decide (k < len x) = decide (k + 1 ≤ len x) := rfl
  rw [this]
  cases agQ δ c k x <;> cases (δ k x == δ k c) <;> cases decide (k + 1 ≤ len x) <;> rfl

theorem agR_and_live (δ : Nat → α → Nat) (len : α → Nat) (c : α) (k : Nat) (x : α) :
    (agR δ len c k x && decide (k < len x)) = agP δ len c k x := by
  unfold agP agR
  by_cases h : k < len x
  · have h' : k ≤ len x := by omega
    simp [h, h']
  · simp [h]

/-- under prefix-freeness, below the length of `c`, having `k` agreeing digits means being live -/
theorem agR_eq_agP {δ : Nat → α → Nat} {len : α → Nat} {S : List α} (h : QOK δ len S)
    {c : α} (hc : c ∈ S) {k : Nat} (hk : k < len c) {x : α} (hx : x ∈ S) :
    agR δ len c k x = agP δ len c k x := by
  unfold agR agP
  cases hag : agQ δ c k x
  · rfl
  · by_cases hl : k < len x
    · have : k ≤ len x := by omega
      simp [hl, this]
    · by_cases hl2 : k ≤ len x
      · exfalso
        have hlen : len x = k := by omega
        have := h.pf x hx c hc (by omega) (fun j hj => agQ_bit δ c x (by omega) hag)
        subst this; omega
      · simp [hl, hl2]

/-- at the full length of `c`, agreeing means being (a copy of) `c` -/
theorem agR_full {δ : Nat → α → Nat} {len : α → Nat} {S : List α} (h : QOK δ len S)
    {c : α} (hc : c ∈ S) [BEq α] [LawfulBEq α] {x : α} (hx : x ∈ S) :
    agR δ len c (len c) x = (x == c) := by
  by_cases hxc : x = c
  · subst hxc; simp [agR, agQ_self]
  · have : (x == c) = false := by simpa using hxc
    rw [this]
    unfold agR
    cases hag : agQ δ c (len c) x
    · rfl
    · by_cases hl : len c ≤ len x
      · exfalso
        apply hxc
        exact (h.pf c hc x hx hl (fun j hj => (agQ_bit δ c x hj hag).symm)).symm
      · simp [hl]

/-! ## the block invariant -/

/-- for `k < len c` the live elements agreeing with `c` on `k` digits form a contiguous block
    of level `k`, in original order, starting at `blkStartQ k` -/
theorem blkQ {δ : Nat → α → Nat} {len : α → Nat} {S : List α} (h : QOK δ len S)
    {c : α} (hc : c ∈ S) (k : Nat) (hk : k < len c) :
    ∃ A C, lvlQ δ len k S = A ++ S.filter (agP δ len c k) ++ C ∧
      A.length = blkStartQ δ len c S k := by
  induction k with
  | zero =>
    refine ⟨[], [], ?_, rfl⟩
    simp only [lvlQ, List.nil_append, List.append_nil]
    symm
    apply List.filter_eq_self.mpr
    intro x hx
    simp [agP, agQ_zero, h.pos x hx]
  | succ k ih =>
    obtain ⟨A, C, h1, h2⟩ := ih (by omega)
    obtain ⟨A', C', h3, h4⟩ :=
      part_blockQ (δ k) (δ k c) (h.dlt k c) A (S.filter (agP δ len c k)) C
    have hpre := h.pre k
    rw [h1, h3, List.append_assoc, List.pairwise_append] at hpre
    have hcB : c ∈ (S.filter (agP δ len c k)).filter (fun x => δ k x == δ k c) := by
      simp only [List.mem_filter]
      refine ⟨⟨hc, ?_⟩, by simp⟩
      simp [agP, agQ_self]; omega
    have hA' : A'.filter (fun x => decide (k + 1 < len x)) = A' := by
      apply List.filter_eq_self.mpr
      intro a ha
      have := hpre.2.2 a ha c (by simp only [List.mem_append]; exact Or.inl hcB) hk
      simpa using this
    refine ⟨A', C'.filter (fun x => decide (k + 1 < len x)), ?_, ?_⟩
    · rw [lvlQ, h1, h3, List.filter_append, List.filter_append, hA']
      congr 2
      rw [List.filter_filter, List.filter_filter]
      apply List.filter_congr
      intro x _
      rw [← agR_and_live (k := k + 1), ← agP_and_dig]
      cases decide (k + 1 < len x) <;> cases (δ k x == δ k c) <;> cases agP δ len c k x <;> rfl
    · rw [h4, blkStartQ, digsQ, h1, h2]

/-- numbers of elements of `S[0..i)` in the block -/
def cntP (δ : Nat → α → Nat) (len : α → Nat) (c : α) (S : List α) (k i : Nat) : Nat :=
  (S.take i).countP (agP δ len c k)

def cntR (δ : Nat → α → Nat) (len : α → Nat) (c : α) (S : List α) (k i : Nat) : Nat :=
  (S.take i).countP (agR δ len c k)

theorem cntP_le (δ : Nat → α → Nat) (len : α → Nat) (c : α) (S : List α) (k i : Nat) :
    cntP δ len c S k i ≤ (S.filter (agP δ len c k)).length := by
  unfold cntP
  rw [← List.countP_eq_length_filter]
  exact (List.take_sublist i S).countP_le

theorem cntR_eq_cntP {δ : Nat → α → Nat} {len : α → Nat} {S : List α} (h : QOK δ len S)
    {c : α} (hc : c ∈ S) {k : Nat} (hk : k < len c) (i : Nat) :
    cntR δ len c S k i = cntP δ len c S k i := by
  unfold cntR cntP
  apply List.countP_congr
  intro x hx
  rw [agR_eq_agP h hc hk (List.mem_of_mem_take hx)]

theorem cntR_zero (δ : Nat → α → Nat) (len : α → Nat) (c : α) (S : List α) (i : Nat)
    (hi : i ≤ S.length) : cntR δ len c S 0 i = i := by
  have : agR δ len c 0 = fun _ => true := by funext x; simp [agR, agQ_zero]
  simp [cntR, this, hi]

theorem cntR_full {δ : Nat → α → Nat} {len : α → Nat} {S : List α} (h : QOK δ len S)
    {c : α} (hc : c ∈ S) [BEq α] [LawfulBEq α] (i : Nat) :
    cntR δ len c S (len c) i = Spec.rank c i S := by
  unfold cntR Spec.rank
  exact BinWM.countP_eq_count _ _ _ (fun x hx => agR_full h hc (List.mem_of_mem_take hx))

/-- the tracked positions stay inside the level -/
theorem blkStartQ_cnt_le {δ : Nat → α → Nat} {len : α → Nat} {S : List α} (h : QOK δ len S)
    {c : α} (hc : c ∈ S) (k : Nat) (hk : k < len c) (i : Nat) :
    blkStartQ δ len c S k + cntP δ len c S k i ≤ (digsQ δ len k S).length := by
  obtain ⟨A, C, h1, h2⟩ := blkQ h hc k hk
  have := congrArg List.length h1
  simp only [List.length_append] at this
  have := cntP_le δ len c S k i
  rw [digsQ, List.length_map]
  omega

/-- the rank walk on a level `k < len c` -/
theorem walk_stepQ {δ : Nat → α → Nat} {len : α → Nat} {S : List α} (h : QOK δ len S)
    {c : α} (hc : c ∈ S) (k : Nat) (hk : k < len c) (i : Nat) :
    nextPos (δ k c) (digsQ δ len k S) (blkStartQ δ len c S k + cntP δ len c S k i) =
      blkStartQ δ len c S (k + 1) + cntR δ len c S (k + 1) i := by
  obtain ⟨A, C, h1, h2⟩ := blkQ h hc k hk
  rw [blkStartQ, digsQ, h1, ← h2, nextPos_block _ _ _ _ _ _ (cntP_le δ len c S k i)]
  congr 1
  unfold cntP cntR
  rw [BinWM.filter_take, List.countP_filter]
  congr 1; funext x
  rw [Bool.and_comm, agP_and_dig]

theorem mem_lvlQ {δ : Nat → α → Nat} {len : α → Nat} {S : List α} (h : QOK δ len S)
    {c : α} (hc : c ∈ S) (k : Nat) (hk : k < len c) : c ∈ lvlQ δ len k S := by
  obtain ⟨A, C, h1, _⟩ := blkQ h hc k hk
  rw [h1]
  simp only [List.mem_append, List.mem_filter]
  refine Or.inl (Or.inr ⟨hc, ?_⟩)
  simp [agP, agQ_self, hk]

end Qwt.HQWM
