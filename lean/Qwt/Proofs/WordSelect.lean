import Qwt.Proofs.WordPop8

/-! Helper lemmas for C17: `select_in_word` on a word given by its eight bytes. -/
namespace Qwt.Proofs.Word
open Qwt Qwt.Utils Qwt.Extracted

theorem ok_bind {α β} (x : α) (f : α → M β) : (Except.ok x >>= f) = f x := rfl

theorem bstep1_lt {b : Nat} (h : b < 256) : bstep1 b < 256 := by unfold bstep1; omega

/-- the end of `selectInWord`, once `place / 8 = t` is known -/
def siwEnd (word byteSums k t : Nat) : M Nat :=
  if t * 8 == 64 then pure 64
  else
    sub k ((((byteSums <<< 8) % two64) >>> (t * 8)) &&& 0xFF) >>= fun byteRank =>
    (if byteRank <<< 8 < two64 then pure (byteRank <<< 8) else .error .overflow : M Nat) >>=
      fun br8 =>
    idx kSelectInByte (((word >>> (t * 8)) &&& 0xFF) ||| br8) >>= fun e =>
    pure (t * 8 + e)

/-- the part of `selectInWord` after the byte-wise prefix sums have been computed -/
def siwTail (word byteSums k : Nat) : M Nat :=
  mul64 k kOnesStep8 >>= fun kStep8 =>
  sub (kStep8 ||| kLambdasStep8) byteSums >>= fun geq =>
  siwEnd word byteSums k (popc (geq &&& kLambdasStep8))

theorem selectInWord_eq (word k : Nat) :
    selectInWord word k =
      (sub word ((word &&& wmul64 0xA kOnesStep4) >>> 1) >>= fun s =>
        siwTail word (wmul64
          ((((s &&& wmul64 0x3 kOnesStep4) + ((s >>> 2) &&& wmul64 0x3 kOnesStep4)) +
            (((s &&& wmul64 0x3 kOnesStep4) + ((s >>> 2) &&& wmul64 0x3 kOnesStep4)) >>> 4)) % two64
            &&& wmul64 0xF kOnesStep8) kOnesStep8) k) := rfl

theorem siw_W8 {b0 b1 b2 b3 b4 b5 b6 b7 k : Nat}
    (h0 : b0 < 256) (h1 : b1 < 256) (h2 : b2 < 256) (h3 : b3 < 256) (h4 : b4 < 256)
    (h5 : b5 < 256) (h6 : b6 < 256) (h7 : b7 < 256) :
    selectInWord (W8 b0 b1 b2 b3 b4 b5 b6 b7) k =
      siwTail (W8 b0 b1 b2 b3 b4 b5 b6 b7)
        (wmul64 (W8 (pc8 b0) (pc8 b1) (pc8 b2) (pc8 b3) (pc8 b4) (pc8 b5) (pc8 b6) (pc8 b7))
          kOnesStep8) k := by
  obtain ⟨hm1, hm2, hm3, -, -⟩ := masks
  have f0 := byte_facts b0 h0
  have f1 := byte_facts b1 h1
  have f2 := byte_facts b2 h2
  have f3 := byte_facts b3 h3
  have f4 := byte_facts b4 h4
  have f5 := byte_facts b5 h5
  have f6 := byte_facts b6 h6
  have f7 := byte_facts b7 h7
  obtain ⟨hle, hsub⟩ := swar_step1 h0 h1 h2 h3 h4 h5 h6 h7
  have e1 : sub (W8 b0 b1 b2 b3 b4 b5 b6 b7)
      ((W8 b0 b1 b2 b3 b4 b5 b6 b7 &&& W8 0xAA 0xAA 0xAA 0xAA 0xAA 0xAA 0xAA 0xAA) >>> 1) =
      .ok (W8 (bstep1 b0) (bstep1 b1) (bstep1 b2) (bstep1 b3) (bstep1 b4) (bstep1 b5) (bstep1 b6)
        (bstep1 b7)) := by
    unfold sub; rw [if_pos hle, hsub]
  rw [selectInWord_eq, hm1, hm2, hm3, e1, ok_bind]
  rw [swar_step2 (bstep1_lt h0) (bstep1_lt h1) (bstep1_lt h2) (bstep1_lt h3) (bstep1_lt h4)
    (bstep1_lt h5) (bstep1_lt h6) (bstep1_lt h7)]
  rw [swar_step3 ⟨f0.2.2.1, f0.2.2.2.1⟩ ⟨f1.2.2.1, f1.2.2.2.1⟩ ⟨f2.2.2.1, f2.2.2.2.1⟩
    ⟨f3.2.2.1, f3.2.2.2.1⟩ ⟨f4.2.2.1, f4.2.2.2.1⟩ ⟨f5.2.2.1, f5.2.2.2.1⟩ ⟨f6.2.2.1, f6.2.2.2.1⟩
    ⟨f7.2.2.1, f7.2.2.2.1⟩]
  rw [f0.2.2.2.2.1, f1.2.2.2.2.1, f2.2.2.2.2.1, f3.2.2.2.2.1, f4.2.2.2.2.1, f5.2.2.2.2.1,
    f6.2.2.2.2.1, f7.2.2.2.2.1]
end Qwt.Proofs.Word
