import Qwt.Spec.Basic

/-!
Helper lemmas about the list specifications `Spec.rank` / `Spec.select` used by the proof of
the binary wavelet matrix (property C03).  Core Lean only.
-/
set_option linter.unusedSimpArgs false

namespace Qwt.BinWM
open Qwt

/-! ## `Spec.rank` / `Spec.select` -/

theorem rank_le_length [BEq α] (c : α) (i : Nat) (s : List α) : Spec.rank c i s ≤ i := by
  unfold Spec.rank
  exact Nat.le_trans List.count_le_length (by simp; omega)

theorem rank_zero [BEq α] (c : α) (s : List α) : Spec.rank c 0 s = 0 := by
  simp [Spec.rank]

theorem rank_nil [BEq α] (c : α) (i : Nat) : Spec.rank c i ([] : List α) = 0 := by
  simp [Spec.rank]

theorem rank_cons_succ [BEq α] (c x : α) (i : Nat) (s : List α) :
    Spec.rank c (i + 1) (x :: s) = Spec.rank c i s + (if x == c then 1 else 0) := by
  simp [Spec.rank, List.count_cons]

theorem rank_of_length_le [BEq α] (c : α) (i : Nat) (s : List α) (h : s.length ≤ i) :
    Spec.rank c i s = s.count c := by
  simp [Spec.rank, List.take_of_length_le h]

theorem rank_mono [BEq α] (c : α) {i j : Nat} (s : List α) (h : i ≤ j) :
    Spec.rank c i s ≤ Spec.rank c j s := by
  induction s generalizing i j with
  | nil => simp [rank_nil]
  | cons x xs ih =>
    cases i with
    | zero => simp [rank_zero]
    | succ i =>
      cases j with
      | zero => omega
      | succ j =>
        rw [rank_cons_succ, rank_cons_succ]
        have := ih (i := i) (j := j) (by omega)
        omega

theorem rank_le_count [BEq α] (c : α) (i : Nat) (s : List α) : Spec.rank c i s ≤ s.count c := by
  rw [← rank_of_length_le c (max i s.length) s (by omega)]
  exact rank_mono c s (by omega)

/-- `select` returns a position holding `c` whose rank is `k` -/
theorem select_some [BEq α] [LawfulBEq α] {c : α} {k q : Nat} {s : List α}
    (h : Spec.select c k s = some q) :
    q < s.length ∧ s[q]? = some c ∧ Spec.rank c q s = k := by
  induction s generalizing k q with
  | nil => simp [Spec.select] at h
  | cons x xs ih =>
    unfold Spec.select at h
    by_cases hx : x == c
    · rw [if_pos hx] at h
      cases k with
      | zero =>
        simp at h; subst h
        have : x = c := by simpa using hx
        simp [rank_zero, this]
      | succ k =>
        simp only [Option.map_eq_some_iff] at h
        obtain ⟨q', hq', rfl⟩ := h
        obtain ⟨h1, h2, h3⟩ := ih hq'
        refine ⟨by simp; omega, by simpa using h2, ?_⟩
        rw [rank_cons_succ, if_pos hx, h3]
    · rw [if_neg hx] at h
      simp only [Option.map_eq_some_iff] at h
      obtain ⟨q', hq', rfl⟩ := h
      obtain ⟨h1, h2, h3⟩ := ih hq'
      refine ⟨by simp; omega, by simpa using h2, ?_⟩
      rw [rank_cons_succ, if_neg hx, h3]; rfl

/-- a position holding `c` is what `select` returns for its rank -/
theorem select_rank [BEq α] [LawfulBEq α] {c : α} {q : Nat} {s : List α}
    (h : s[q]? = some c) : Spec.select c (Spec.rank c q s) s = some q := by
  induction s generalizing q with
  | nil => simp at h
  | cons x xs ih =>
    cases q with
    | zero =>
      simp at h; subst h
      simp [Spec.select, rank_zero]
    | succ q =>
      have h' : xs[q]? = some c := by simpa using h
      rw [rank_cons_succ]
      unfold Spec.select
      by_cases hx : x == c
      · rw [if_pos hx, if_pos hx]
        simp [ih h']
      · rw [if_neg hx, if_neg hx]
        simp [ih h']

theorem select_none [BEq α] [LawfulBEq α] {c : α} {k : Nat} {s : List α}
    (h : s.count c ≤ k) : Spec.select c k s = none := by
  induction s generalizing k with
  | nil => simp [Spec.select]
  | cons x xs ih =>
    unfold Spec.select
    rw [List.count_cons] at h
    by_cases hx : x == c
    · rw [if_pos hx] at h ⊢
      cases k with
      | zero => omega
      | succ k => simp [ih (k := k) (by omega)]
    · rw [if_neg hx] at h ⊢
      simp [ih (k := k) (by omega)]

theorem select_isSome [BEq α] [LawfulBEq α] {c : α} {k : Nat} {s : List α}
    (h : k < s.count c) : ∃ q, Spec.select c k s = some q := by
  induction s generalizing k with
  | nil => simp at h
  | cons x xs ih =>
    unfold Spec.select
    rw [List.count_cons] at h
    by_cases hx : x == c
    · rw [if_pos hx] at h ⊢
      cases k with
      | zero => exact ⟨0, rfl⟩
      | succ k =>
        obtain ⟨q, hq⟩ := ih (k := k) (by omega)
        exact ⟨q + 1, by simp [hq]⟩
    · rw [if_neg hx] at h ⊢
      obtain ⟨q, hq⟩ := ih (k := k) (by omega)
      exact ⟨q + 1, by simp [hq]⟩

/-- full characterisation of `select` -/
theorem select_eq_some_iff [BEq α] [LawfulBEq α] {c : α} {k q : Nat} {s : List α} :
    Spec.select c k s = some q ↔ s[q]? = some c ∧ Spec.rank c q s = k := by
  constructor
  · intro h; exact (select_some h).2
  · rintro ⟨h1, rfl⟩; exact select_rank h1

theorem select_eq_none_iff [BEq α] [LawfulBEq α] {c : α} {k : Nat} {s : List α} :
    Spec.select c k s = none ↔ s.count c ≤ k := by
  constructor
  · intro h
    by_cases h' : s.count c ≤ k
    · exact h'
    · obtain ⟨q, hq⟩ := select_isSome (c := c) (k := k) (s := s) (by omega)
      rw [hq] at h; cases h
  · exact select_none

/-- rank just after a position holding `c` -/
theorem rank_succ_of_get [BEq α] [LawfulBEq α] {c : α} {q : Nat} {s : List α}
    (h : s[q]? = some c) : Spec.rank c (q + 1) s = Spec.rank c q s + 1 := by
  induction s generalizing q with
  | nil => simp at h
  | cons x xs ih =>
    cases q with
    | zero =>
      simp at h; subst h
      simp [rank_cons_succ, rank_zero]
    | succ q =>
      have h' : xs[q]? = some c := by simpa using h
      rw [rank_cons_succ, rank_cons_succ, ih h']; omega

/-! ## ranks of a mapped list are `countP`s -/

theorem rank_map (p : α → Bool) (v : Bool) (j : Nat) (l : List α) :
    Spec.rank v j (l.map p) = (l.take j).countP (fun x => p x == v) := by
  unfold Spec.rank
  rw [← List.map_take, List.count_eq_countP, List.countP_map]
  rfl

theorem count_map (p : α → Bool) (v : Bool) (l : List α) :
    (l.map p).count v = l.countP (fun x => p x == v) := by
  rw [List.count_eq_countP, List.countP_map]; rfl

/-- the prefix of a filtered list -/
theorem filter_take (q : α → Bool) (i : Nat) (l : List α) :
    (l.filter q).take ((l.take i).countP q) = (l.take i).filter q := by
  induction l generalizing i with
  | nil => simp
  | cons x xs ih =>
    cases i with
    | zero => simp
    | succ i =>
      by_cases hx : q x
      · simp [List.take_succ_cons, List.filter_cons, hx, List.countP_cons, ih]
      · simp [List.take_succ_cons, List.filter_cons, hx, List.countP_cons, ih]

/-- the element at position `j` reappears in the filtered list at the number of kept
    predecessors -/
theorem filter_getElem (q : α → Bool) (j : Nat) (l : List α) (x : α)
    (h : l[j]? = some x) (hq : q x = true) :
    (l.filter q)[(l.take j).countP q]? = some x := by
  induction l generalizing j with
  | nil => simp at h
  | cons y ys ih =>
    cases j with
    | zero =>
      simp at h; subst h
      simp [List.filter_cons, hq]
    | succ j =>
      have h' : ys[j]? = some x := by simpa using h
      by_cases hy : q y
      · simp [List.filter_cons, hy, List.countP_cons, ih j h']
      · simp [List.filter_cons, hy, List.countP_cons, ih j h']

end Qwt.BinWM
