import Qwt.Proofs.RSBinHolds
import Qwt.Proofs.RSBinHints

/-! `RSNarrow` (rs_narrow.rs): the representation invariant established by `RSNarrow::new`, and
the rank / select queries proved against it.  A block is a 512-bit line, a sub-block a word. -/
namespace Qwt.RSN
open Qwt Qwt.BV Qwt.RSBin Qwt.Extracted

theorem ok_bind {α β : Type} (a : α) (f : α → M β) : (Except.ok a : M α) >>= f = f a := rfl

/-- counter `j` of block `q`: ones in its first `j` words -/
def cn (s : List Bool) (q j : Nat) : Nat := R s (64 * (8 * q + j)) - R s (512 * q)

/-- the word of seven nine-bit counters of block `q` -/
def subOf (s : List Bool) (q : Nat) : Nat := packN 9 0 (cn s q) 7

theorem cn_lt (s : List Bool) (q j : Nat) (hj : j ≤ 7) : cn s q j < 512 := by
  unfold cn
  have := rank_add_le true s (512 * q) (64 * j)
  have e : 64 * (8 * q + j) = 512 * q + 64 * j := by omega
  unfold R; rw [e]; omega

def cn' (s : List Bool) (q j : Nat) : Nat := if j ≤ 7 then cn s q j else 0

theorem cn'_lt (s : List Bool) (q j : Nat) : cn' s q j < 2 ^ 9 := by
  unfold cn'; split
  · exact cn_lt s q j ‹_›
  · decide

theorem packN_congr (B A : Nat) (c c' : Nat → Nat) (r : Nat) (h : ∀ j, 1 ≤ j → j ≤ r → c j = c' j) :
    packN B A c r = packN B A c' r := by
  induction r with
  | zero => rfl
  | succ r ih =>
    simp only [packN]
    rw [ih (fun j h1 h2 => h j h1 (by omega)), h (r + 1) (by omega) (Nat.le_refl _)]

theorem packN_cn_lt (s : List Bool) (q r : Nat) (hr : r ≤ 7) :
    packN 9 0 (cn s q) r < 2 ^ (9 * r) := by
  rw [packN_congr 9 _ (cn s q) (cn' s q) r (by intro j h1 h2; simp [cn', show j ≤ 7 by omega])]
  have := packN_lt 9 0 (cn' s q) 0 (by decide) (cn'_lt s q) r
  simpa using this

theorem subOf_fields (s : List Bool) (q : Nat) :
    subOf s q < 2 ^ 63 ∧
    ∀ j, 1 ≤ j → j ≤ 7 → subOf s q / 2 ^ ((7 - j) * 9) % 512 = cn s q j := by
  unfold subOf
  rw [packN_congr 9 _ (cn s q) (cn' s q) 7 (by intro j h1 h2; simp [cn', h2])]
  have := packN9_fields (cn' s q) (cn'_lt s q)
  refine ⟨this.1, ?_⟩
  intro j h1 h2
  rw [this.2 j h1 h2]; simp [cn', h2]

theorem buildWord_eq (st : BuildSt) (b b1 word : Nat) :
    buildWord st b b1 word =
      let shift := (b * 8 + b1) % 8
      let subranks := if shift ≥ 1 then ((st.subranks <<< 9) % two64) ||| st.curSubrank else st.subranks
      let nextRank := st.nextRank + popc word
      let c1 := nextRank / narrowOnesPerHint > st.hint1
      let zeros := st.zeros + (64 - popc word)
      let c0 := zeros / narrowZerosPerHint > st.hint0
      { brp := if shift = 7 then (st.brp.push subranks).push nextRank else st.brp,
        nextRank,
        curSubrank := if shift = 7 then 0 else st.curSubrank + popc word,
        subranks := if shift = 7 then 0 else subranks,
        s0 := if c0 then st.s0.push b else st.s0,
        s1 := if c1 then st.s1.push b else st.s1,
        hint0 := if c0 then st.hint0 + 1 else st.hint0,
        hint1 := if c1 then st.hint1 + 1 else st.hint1,
        zeros } := by
  unfold buildWord
  have e8 : narrowBlockSize = 8 := by decide
  simp only [e8]
  by_cases h7 : (b * 8 + b1) % 8 = 7 <;>
    simp only [h7, show (8 - 1 : Nat) = 7 by rfl, beq_self_eq_true, if_true, if_false] <;>
    split <;> split <;> simp_all [apply_ite Prod.fst, apply_ite Prod.snd]

/-- state of the construction loop after `n` words -/
structure BInv (s : List Bool) (n : Nat) (st : BuildSt) : Prop where
  nextRank : st.nextRank = R s (64 * n)
  curSubrank : st.curSubrank = R s (64 * n) - R s (512 * (n / 8))
  subranks : st.subranks = packN 9 0 (cn s (n / 8)) (n % 8 - 1)
  brpSize : st.brp.size = 2 * (n / 8) + 1
  brpAbs : ∀ q, q ≤ n / 8 → st.brp.getD (2 * q) 0 = R s (512 * q)
  brpSub : ∀ q, q < n / 8 → st.brp.getD (2 * q + 1) 0 = subOf s q
  zeros : st.zeros = Z s (64 * n)
  h1 : HintInv (fun m => C true s (64 * m)) narrowOnesPerHint n st.s1 st.hint1
  h0 : HintInv (fun m => C false s (64 * m)) narrowZerosPerHint n st.s0 st.hint0

theorem BInv.init (s : List Bool) : BInv s 0 {} where
  nextRank := by simp [R, rank_zero]
  curSubrank := by simp
  subranks := by simp [packN]
  brpSize := rfl
  brpAbs := by intro q hq; have : q = 0 := by omega
               subst this; simp [R, rank_zero, Array.getD]
  brpSub := by intro q hq; omega
  zeros := by simp [Z]
  h1 := HintInv.init _ _ (C_zero _ _)
  h0 := HintInv.init _ _ (C_zero _ _)

theorem BInv.step {b : BitVector} {s : List Bool} (h : Holds b s)
    {n : Nat} {st : BuildSt} (hv : BInv s n st) (hn : n < 8 * nLines b) :
    BInv s (n + 1) (buildWord st (n / 8) (n % 8) (b.data.getD n 0)) := by
  have hsz := h.size_eq
  have hword := h.R_word_full n (by omega)
  have hpl : popc (b.data.getD n 0) ≤ 64 := popc_le_of_lt _ 64 (h.lt n (by omega))
  have hmono : R s (512 * (n / 8)) ≤ R s (64 * n) := rank_mono true s (by omega)
  rw [buildWord_eq]
  have esh : (n / 8 * 8 + n % 8) % 8 = n % 8 := by omega
  simp only [esh]
  have hsr : (if n % 8 ≥ 1 then ((st.subranks <<< 9) % two64) ||| st.curSubrank else st.subranks)
      = packN 9 0 (cn s (n / 8)) (n % 8) := by
    by_cases h1 : n % 8 ≥ 1
    · simp only [h1, if_true]
      rw [hv.subranks, hv.curSubrank]
      have er : n % 8 = (n % 8 - 1) + 1 := by omega
      rw [er, packN, ← er]
      have hcn : R s (64 * n) - R s (512 * (n / 8)) = cn s (n / 8) (n % 8) := by
        unfold cn; congr 2; omega
      rw [hcn]
      have : two64 = 2 ^ 64 := by decide
      rw [this]
      apply pack_step 9 64
      · have hlt := packN_cn_lt s (n / 8) (n % 8 - 1) (by omega)
        have : packN 9 0 (cn s (n / 8)) (n % 8 - 1) < 2 ^ 55 := by
          apply Nat.lt_of_lt_of_le hlt
          apply Nat.pow_le_pow_right (by decide); omega
        have e : (2:Nat) ^ 64 = 2 ^ 55 * 2 ^ 9 := by decide
        rw [e]; exact Nat.mul_lt_mul_of_pos_right this (by decide)
      · exact cn_lt s _ _ (by omega)
    · have h0 : n % 8 = 0 := by omega
      rw [if_neg h1, hv.subranks, h0]
  have hnr : st.nextRank + popc (b.data.getD n 0) = R s (64 * (n + 1)) := by
    rw [hv.nextRank]; omega
  have hC1 : st.nextRank + popc (b.data.getD n 0) = C true s (64 * (n + 1)) := by
    rw [hnr]; simp [C]
  have hZ : st.zeros + (64 - popc (b.data.getD n 0)) = C false s (64 * (n + 1)) := by
    rw [hv.zeros]; simp only [C, Bool.false_eq_true, if_false, Z]
    have := rank_le true s (64 * n)
    unfold R at *; omega
  refine ⟨?_, ?_, ?_, ?_, ?_, ?_, ?_, ?_, ?_⟩
  · exact hnr
  · by_cases h7 : n % 8 = 7
    · simp only [h7, if_true]
      have : 512 * ((n + 1) / 8) = 64 * (n + 1) := by omega
      rw [this]; omega
    · simp only [h7, if_false, hv.curSubrank]
      have : (n + 1) / 8 = n / 8 := by omega
      rw [this]; omega
  · by_cases h7 : n % 8 = 7
    · simp only [h7, if_true]
      have : (n + 1) % 8 - 1 = 0 := by omega
      rw [this]; rfl
    · simp only [h7, if_false, hsr]
      have e1 : (n + 1) / 8 = n / 8 := by omega
      have e2 : (n + 1) % 8 - 1 = n % 8 := by omega
      rw [e1, e2]
  · by_cases h7 : n % 8 = 7
    · simp only [h7, if_true, Array.size_push, hv.brpSize]; omega
    · simp only [h7, if_false, hv.brpSize]; omega
  · intro q hq
    by_cases h7 : n % 8 = 7
    · simp only [h7, if_true]
      by_cases hql : q ≤ n / 8
      · rw [getD_push_lt _ _ _ (by simp [hv.brpSize]; omega),
          getD_push_lt _ _ _ (by rw [hv.brpSize]; omega)]
        exact hv.brpAbs q hql
      · have hq' : q = n / 8 + 1 := by omega
        have : 2 * q = (st.brp.push (if 7 ≥ 1 then ((st.subranks <<< 9) % two64) ||| st.curSubrank
            else st.subranks)).size := by simp [hv.brpSize]; omega
        rw [this, getD_push_eq, hnr]
        congr 1; omega
    · simp only [h7, if_false]
      exact hv.brpAbs q (by omega)
  · intro q hq
    by_cases h7 : n % 8 = 7
    · simp only [h7, if_true]
      rw [getD_push_lt _ _ _ (by simp [hv.brpSize]; omega)]
      by_cases hql : q < n / 8
      · rw [getD_push_lt _ _ _ (by rw [hv.brpSize]; omega)]
        exact hv.brpSub q hql
      · have hq' : q = n / 8 := by omega
        have : 2 * q + 1 = st.brp.size := by rw [hv.brpSize]; omega
        rw [this, getD_push_eq]
        rw [h7] at hsr
        rw [hsr, hq']; rfl
    · simp only [h7, if_false]
      exact hv.brpSub q (by omega)
  · simp only []; rw [hZ]; simp [C]
  · simp only []
    rw [hC1]
    exact hv.h1.step (by decide) (C_mono true s (by omega))
      (by have := C_add_le true s (64 * n) 64
          have e : 64 * (n + 1) = 64 * n + 64 := by omega
          have : 64 ≤ narrowOnesPerHint := by decide
          rw [e]; omega)
  · simp only []
    rw [hZ]
    exact hv.h0.step (by decide) (C_mono false s (by omega))
      (by have := C_add_le false s (64 * n) 64
          have e : 64 * (n + 1) = 64 * n + 64 := by omega
          have : 64 ≤ narrowZerosPerHint := by decide
          rw [e]; omega)

theorem BInv.fold {b : BitVector} {s : List Bool} (h : Holds b s) :
    ∀ n, n ≤ 8 * nLines b →
      BInv s n ((List.range n).foldl (fun st k => buildWord st (k / 8) (k % 8) (b.data.getD k 0)) {}) := by
  intro n
  induction n with
  | zero => intro _; exact BInv.init s
  | succ n ih =>
    intro hn
    rw [List.range_succ, List.foldl_append]
    exact (ih (by omega)).step h (by omega)


/-- `RSNarrow::new` without the monad -/
def finalBrp (bv : BitVector) (st : BuildSt) : Array Nat :=
  let subranks := (List.range (narrowBlockSize - (nLines bv % narrowBlockSize))).foldl
    (fun s _ => ((s <<< 9) % two64) ||| st.curSubrank) st.subranks
  let brp := st.brp.push subranks
  if nLines bv % narrowBlockSize > 0 then (brp.push st.nextRank).push 0 else brp

def buildAll (bv : BitVector) : BuildSt :=
  (List.range (8 * nLines bv)).foldl (fun st k => buildWord st (k / 8) (k % 8) (bv.data.getD k 0)) {}

theorem new_eq (bv : BitVector) (h : 1 ≤ (finalBrp bv (buildAll bv)).size / 2) :
    new bv = .ok
      { bv, blockRankPairs := finalBrp bv (buildAll bv),
        selectSamples := #[(buildAll bv).s0.push ((finalBrp bv (buildAll bv)).size / 2 - 1),
                           (buildAll bv).s1.push ((finalBrp bv (buildAll bv)).size / 2 - 1)] } := by
  unfold new
  simp only [sub, bind, Except.bind, pure, Except.pure]
  unfold finalBrp buildAll at h ⊢
  simp only [] at h ⊢
  rw [if_pos h]

theorem fold_zero (l : List Nat) : l.foldl (fun s _ => ((s <<< 9) % two64) ||| 0) 0 = 0 := by
  induction l with
  | nil => rfl
  | cons x xs ih => simpa [List.foldl_cons] using ih

/-- selection step: ones / zeros per hint -/
def per (bit : Bool) : Nat := if bit then narrowOnesPerHint else narrowZerosPerHint

/-- index of the sentinel block (the crate counts lines where it means words; harmless) -/
def sentN (b : BitVector) : Nat := if nLines b % 8 > 0 then nLines b + 1 else nLines b

/-- the representation invariant of `RSNarrow` -/
structure Inv (r : RSNarrow) (s : List Bool) : Prop where
  holds : Holds r.bv s
  brpSize : r.blockRankPairs.size = 2 * sentN r.bv + 2
  abs : ∀ q, q ≤ sentN r.bv → r.blockRankPairs.getD (2 * q) 0 = R s (512 * q)
  sub : ∀ q, q < nLines r.bv → r.blockRankPairs.getD (2 * q + 1) 0 = subOf s q
  ssize : r.selectSamples.size = 2
  samples : ∀ bit, ∃ smp hint,
    r.selectSamples.getD (if bit then 1 else 0) #[] = smp.push (sentN r.bv) ∧
    HintInv (fun m => C bit s (64 * m)) (per bit) (8 * nLines r.bv) smp hint

theorem new_inv {b : BitVector} {s : List Bool} (h : Holds b s) :
    ∃ r, new b = .ok r ∧ r.bv = b ∧ Inv r s := by
  have hv := BInv.fold h (8 * nLines b) (Nat.le_refl _)
  have hst : (List.range (8 * nLines b)).foldl
      (fun st k => buildWord st (k / 8) (k % 8) (b.data.getD k 0)) {} = buildAll b := rfl
  rw [hst] at hv
  generalize hst2 : buildAll b = st at hv
  have hll := h.len_le
  have e8 : 8 * nLines b / 8 = nLines b := by omega
  have e0 : 8 * nLines b % 8 = 0 := by omega
  have hcs : st.curSubrank = 0 := by
    rw [hv.curSubrank, e8, show 64 * (8 * nLines b) = 512 * nLines b by omega]; omega
  have hsr : st.subranks = 0 := by rw [hv.subranks, e0]; rfl
  have hbs := hv.brpSize
  rw [e8] at hbs
  have hnr : st.nextRank = R s (512 * nLines b) := by
    rw [hv.nextRank, show 64 * (8 * nLines b) = 512 * nLines b by omega]
  -- the final array
  have hfb : (finalBrp b st).size = 2 * sentN b + 2 ∧
      (∀ q, q ≤ sentN b → (finalBrp b st).getD (2 * q) 0 = R s (512 * q)) ∧
      (∀ q, q < nLines b → (finalBrp b st).getD (2 * q + 1) 0 = subOf s q) := by
    unfold finalBrp
    simp only [hcs, hsr, fold_zero, show narrowBlockSize = 8 by decide]
    by_cases h8 : nLines b % 8 > 0
    · simp only [h8, if_true]
      have es : sentN b = nLines b + 1 := by simp [sentN, h8]
      refine ⟨by simp [hbs, es]; omega, ?_, ?_⟩
      · intro q hq
        by_cases hql : q ≤ nLines b
        · rw [getD_push_lt _ _ _ (by simp [hbs]; omega), getD_push_lt _ _ _ (by simp [hbs]; omega),
            getD_push_lt _ _ _ (by rw [hbs]; omega)]
          exact hv.brpAbs q (by omega)
        · have hq' : q = nLines b + 1 := by omega
          rw [getD_push_lt _ _ _ (by simp [hbs]; omega)]
          have : 2 * q = (st.brp.push 0).size := by simp [hbs]; omega
          rw [this, getD_push_eq, hnr, hq', R_of_ge s _ hll, R_of_ge s _ (by omega)]
      · intro q hq
        rw [getD_push_lt _ _ _ (by simp [hbs]; omega), getD_push_lt _ _ _ (by simp [hbs]; omega),
          getD_push_lt _ _ _ (by rw [hbs]; omega)]
        exact hv.brpSub q (by omega)
    · simp only [h8, if_false]
      have es : sentN b = nLines b := by simp [sentN, h8]
      refine ⟨by simp [hbs, es], ?_, ?_⟩
      · intro q hq
        rw [getD_push_lt _ _ _ (by rw [hbs]; omega)]
        exact hv.brpAbs q (by omega)
      · intro q hq
        rw [getD_push_lt _ _ _ (by rw [hbs]; omega)]
        exact hv.brpSub q (by omega)
  obtain ⟨hsz, habs, hsub⟩ := hfb
  have hne := new_eq b (by rw [hst2] ; omega)
  rw [hst2] at hne
  refine ⟨_, hne, rfl, h, hsz, habs, hsub, rfl, ?_⟩
  have hsent : (finalBrp b st).size / 2 - 1 = sentN b := by omega
  intro bit
  cases bit
  · refine ⟨st.s0, st.hint0, ?_, hv.h0⟩
    simp [hsent, Array.getD]
  · refine ⟨st.s1, st.hint1, ?_, hv.h1⟩
    simp [hsent, Array.getD]


/-! ### rank -/

/-- `popcount(w << (64 - t))` on a `u64` counts the `t` low bits -/
theorem popc_shl (w t : Nat) (ht1 : 1 ≤ t) (ht : t ≤ 64) :
    popc ((w <<< ((64 - t) % 64)) % two64) = popc (w % 2 ^ t) := by
  have e64 : two64 = 2 ^ 64 := by decide
  by_cases h64 : t = 64
  · subst h64; simp [e64]
  · have e : (64 - t) % 64 = 64 - t := Nat.mod_eq_of_lt (by omega)
    rw [e, Nat.shiftLeft_eq, e64]
    have e2 : (2:Nat) ^ 64 = 2 ^ t * 2 ^ (64 - t) := by rw [← Nat.pow_add]; congr 1; omega
    rw [e2, Nat.mul_mod_mul_right, popc_mul_two_pow]

namespace Inv
variable {r : RSNarrow} {s : List Bool}

theorem sentN_ge (b : BitVector) : nLines b ≤ sentN b := by unfold sentN; split <;> omega

theorem blockRank_eq (hv : Inv r s) (q : Nat) (hq : q ≤ sentN r.bv) : blockRank r q = .ok (R s (512 * q)) := by
  unfold blockRank
  rw [idx_getD _ _ (by rw [hv.brpSize]; omega), Nat.mul_comm q 2, hv.abs q hq]

theorem subBlockRank_eq (hv : Inv r s) (j : Nat) (hj : j < 8 * nLines r.bv) :
    subBlockRank r j = .ok (R s (64 * j)) := by
  unfold subBlockRank
  have hsn := sentN_ge r.bv
  simp only [show narrowBlockSize = 8 by decide]
  rw [hv.blockRank_eq (j / 8) (by omega), ok_bind]
  unfold subBlockRanks
  rw [idx_getD _ _ (by rw [hv.brpSize]; omega), ok_bind, Nat.mul_comm (j / 8) 2, hv.sub (j / 8) (by omega)]
  rw [Nat.shiftRight_eq_div_pow, show (0x1FF : Nat) = 2 ^ 9 - 1 by decide,
    Nat.and_two_pow_sub_one_eq_mod, show (2:Nat) ^ 9 = 512 by decide]
  have hf := subOf_fields s (j / 8)
  by_cases h0 : j % 8 = 0
  · rw [h0]
    have : subOf s (j / 8) / 2 ^ ((7 - 0) * 9) = 0 := Nat.div_eq_of_lt hf.1
    rw [this]
    have e : 64 * j = 512 * (j / 8) := by omega
    rw [e]
    show Except.ok _ = Except.ok _
    simp
  · rw [hf.2 (j % 8) (by omega) (by omega)]
    unfold cn
    have e : 8 * (j / 8) + j % 8 = j := by omega
    rw [e]
    have := rank_mono true s (i := 512 * (j / 8)) (j := 64 * j) (by omega)
    show Except.ok _ = Except.ok _
    unfold R at *
    congr 1; omega

theorem rank1Unchecked_eq (hv : Inv r s) (i : Nat) (hi : i ≤ s.length) :
    rank1Unchecked r i = .ok (Spec.rank true i s) := by
  unfold rank1Unchecked
  by_cases h0 : i = 0
  · subst h0; simp [rank_zero]; rfl
  · have hb : (i == 0) = false := by simp [h0]
    simp only [hb, Bool.false_eq_true, if_false]
    have hll := hv.holds.len_le
    have hsz := hv.holds.size_eq
    have e6 : (i - 1) >>> 6 = (i - 1) / 64 := by rw [Nat.shiftRight_eq_div_pow]
    have e63 : (i - 1) &&& 63 = (i - 1) % 64 := Nat.and_two_pow_sub_one_eq_mod (i - 1) 6
    have hword : (i - 1) / 64 < 8 * nLines r.bv := by omega
    rw [e6, e63, hv.subBlockRank_eq _ hword, ok_bind]
    have e3 : ((i - 1) / 64) >>> 3 = (i - 1) / 64 / 8 := by rw [Nat.shiftRight_eq_div_pow]
    have : ¬ (((i - 1) / 64) >>> 3 ≥ nLines r.bv) := by rw [e3]; omega
    simp only [this, if_false]
    rw [uidx_getD _ _ (by omega), ok_bind, popc_shl _ _ (by omega) (by omega)]
    have hw := hv.holds.R_word ((i - 1) / 64) (by omega) ((i - 1) % 64 + 1) (by omega)
    have e : 64 * ((i - 1) / 64) + ((i - 1) % 64 + 1) = i := by omega
    rw [e] at hw
    show Except.ok _ = Except.ok _
    unfold R at hw
    rw [hw]

theorem rank1_eq (hv : Inv r s) (i : Nat) :
    rank1 r i = .ok (if s ≠ [] ∧ i ≤ s.length then some (Spec.rank true i s) else none) := by
  unfold rank1 isEmpty
  rw [hv.holds.nBits]
  by_cases hs : s = []
  · subst hs; simp; rfl
  · have hpos : s.length ≠ 0 := by simpa using hs
    by_cases hi : i ≤ s.length
    · have : (s.length == 0 || decide (i > s.length)) = false := by simp [hpos]; omega
      simp only [this, Bool.false_eq_true, if_false, hv.rank1Unchecked_eq i hi]
      simp [hs, hi]; rfl
    · have : (s.length == 0 || decide (i > s.length)) = true := by simp; omega
      simp only [this, if_true]
      simp [hi]; rfl

theorem rank0_eq (hv : Inv r s) (i : Nat) :
    rank0 r i = .ok (if s ≠ [] ∧ i ≤ s.length then some (Spec.rank false i s) else none) := by
  unfold rank0
  rw [hv.rank1_eq i]
  by_cases hc : s ≠ [] ∧ i ≤ s.length
  · simp only [if_pos hc]
    have := rank_false_add s i hc.2
    have hle := rank_le true s i
    simp only [bind, Except.bind, Qwt.sub]
    rw [if_pos hle]
    show Except.ok (some _) = Except.ok (some _)
    congr 2; omega
  · simp only [hc, if_false, bind, Except.bind]; rfl

theorem get_eq (hv : Inv r s) (i : Nat) : get r i = .ok s[i]? := hv.holds.get_eq i

theorem nOnes_eq (hv : Inv r s) : nOnes r = .ok (s.count true) := by
  unfold nOnes isEmpty
  rw [hv.holds.nBits]
  by_cases hs : s = []
  · subst hs; simp; rfl
  · have hpos : s.length ≠ 0 := by simpa using hs
    have hb : (s.length == 0) = false := by simp [hpos]
    simp only [hb, Bool.false_eq_true, if_false]
    have hsub : Qwt.sub s.length 1 = .ok (s.length - 1) := by simp only [Qwt.sub]; rw [if_pos (by omega)]
    rw [hsub, ok_bind, hv.rank1_eq, if_pos ⟨hs, by omega⟩, ok_bind]
    simp only [unwrap]
    rw [ok_bind, hv.holds.get_eq, List.getElem?_eq_getElem (by omega), ok_bind]
    rw [ok_bind]
    have h1 := R_succ s (s.length - 1)
    have e : s.length - 1 + 1 = s.length := by omega
    rw [e, R_of_ge s _ (Nat.le_refl _)] at h1
    have : s.getD (s.length - 1) false = s[s.length - 1]'(by omega) := by
      simp [List.getD_eq_getElem?_getD, List.getElem?_eq_getElem (show s.length - 1 < s.length by omega)]
    rw [this] at h1
    show Except.ok _ = Except.ok _
    unfold R at h1
    rw [h1]

theorem nZeros_eq (hv : Inv r s) : nZeros r = .ok (s.count false) := by
  unfold nZeros
  rw [hv.nOnes_eq, ok_bind, hv.holds.nBits]
  have := count_false_add s
  simp only [Qwt.sub]
  rw [if_pos (by omega)]; congr 1; omega

end Inv


/-! ### select -/

namespace Inv
variable {r : RSNarrow} {s : List Bool}

theorem groupVal_bind {β : Type} (bit : Bool) (q : Nat) (F : Nat → M β) :
    (if bit = true then (pure (R s (512 * q)) : M Nat) >>= F
      else Qwt.sub (narrowBlockSize * 64 * q) (R s (512 * q)) >>= F) = F (C bit s (512 * q)) := by
  cases bit
  · simp only [Bool.false_eq_true, if_false, Qwt.sub, C, Z]
    have := rank_le true s (512 * q)
    have e : narrowBlockSize * 64 * q = 512 * q := by
      rw [show narrowBlockSize * 64 = 512 by decide]
    rw [e, if_pos this]; rfl
  · simp only [if_true, C]; rfl

theorem subVal_bind {β : Type} (bit : Bool) (l : Nat) (F : Nat → M β) :
    (if bit = true then (pure (R s (64 * l)) : M Nat) >>= F
      else Qwt.sub (64 * l) (R s (64 * l)) >>= F) = F (C bit s (64 * l)) := by
  cases bit
  · simp only [Bool.false_eq_true, if_false, Qwt.sub, C, Z]
    have := rank_le true s (64 * l)
    rw [if_pos this]; rfl
  · simp only [if_true, C]; rfl

theorem hintLoop_eq (hv : Inv r s) (bit : Bool) (k tgt hintEnd : Nat) (ht : tgt ≤ hintEnd)
    (hend : tgt ≤ sentN r.bv)
    (hbelow : ∀ q, q < tgt → C bit s (512 * q) ≤ k) (habove : tgt < hintEnd → k < C bit s (512 * tgt)) :
    ∀ f hs, hs ≤ tgt → tgt - hs ≤ f → hintLoop r bit k hintEnd f hs = .ok tgt := by
  intro f
  induction f with
  | zero =>
    intro hs h1 h2
    have : hs = tgt := by omega
    subst this; rfl
  | succ f ih =>
    intro hs h1 h2
    unfold hintLoop
    by_cases hlt : hs < hintEnd
    · simp only [hlt, if_true]
      rw [hv.blockRank_eq hs (by omega), ok_bind, groupVal_bind]
      by_cases hgt : C bit s (512 * hs) > k
      · simp only [hgt, if_true]
        have : hs = tgt := by
          apply Nat.le_antisymm h1
          apply Nat.le_of_not_lt
          intro hlt'
          have := hbelow hs hlt'
          omega
        subst this; rfl
      · simp only [hgt, if_false]
        have hne : hs ≠ tgt := by
          intro e; subst e
          have := habove hlt; omega
        exact ih (hs + 1) (by omega) (by omega)
    · simp only [hlt, if_false]
      have : hs = tgt := by omega
      subst this; rfl

theorem subLoop_eq (hv : Inv r s) (bit : Bool) (k q : Nat) (hq : q < nLines r.bv)
    (h1 : C bit s (512 * q) ≤ k) (h2 : k < C bit s (512 * (q + 1))) :
    ∀ f j, j + f = 8 → j ≤ 7 → (1 ≤ j → C bit s (64 * (8 * q + j - 1)) ≤ k) →
      ∃ l, subLoop r bit k (8 * q) f j = .ok l ∧ 8 * q ≤ l ∧ l < 8 * q + 8 ∧
        C bit s (64 * l) ≤ k ∧ k < C bit s (64 * (l + 1)) := by
  intro f
  induction f with
  | zero => intro j h _ _; omega
  | succ f ih =>
    intro j hjf hj7 hprev
    unfold subLoop
    rw [hv.subBlockRank_eq (8 * q + j) (by omega), ok_bind]
    simp only []
    rw [subVal_bind]
    by_cases hgt : C bit s (64 * (8 * q + j)) > k
    · simp only [hgt, if_true]
      have hj0 : j ≠ 0 := by
        intro e; subst e
        have : 64 * (8 * q + 0) = 512 * q := by omega
        rw [this] at hgt; omega
      have hsub : Qwt.sub j 1 = .ok (j - 1) := by simp only [Qwt.sub]; rw [if_pos (by omega)]
      rw [hsub, ok_bind]
      refine ⟨8 * q + (j - 1), rfl, by omega, by omega, ?_, ?_⟩
      · have := hprev (by omega)
        have e : 8 * q + j - 1 = 8 * q + (j - 1) := by omega
        rwa [e] at this
      · have e : 8 * q + (j - 1) + 1 = 8 * q + j := by omega
        rw [e]; exact hgt
    · simp only [hgt, if_false]
      by_cases h7 : j = 7
      · subst h7
        simp only [beq_self_eq_true, if_true]
        refine ⟨8 * q + 7, rfl, by omega, by omega, by omega, ?_⟩
        have e : 64 * (8 * q + 7 + 1) = 512 * (q + 1) := by omega
        rw [e]; exact h2
      · have : (j == 7) = false := by simp [h7]
        simp only [this, Bool.false_eq_true, if_false]
        exact ih (j + 1) (by omega) (by omega) (by
          intro _
          have e : 8 * q + (j + 1) - 1 = 8 * q + j := by omega
          rw [e]; omega)

theorem per_pos (bit : Bool) : 0 < per bit := by cases bit <;> decide

theorem selectSubblock_eq (hv : Inv r s) (bit : Bool) (k : Nat) (hk : k < s.count bit) :
    ∃ l, selectSubblock r bit k = .ok (l, C bit s (64 * l)) ∧ l < 8 * nLines r.bv ∧
      C bit s (64 * l) ≤ k ∧ k < C bit s (64 * (l + 1)) := by
  have hll := hv.holds.len_le
  have hsn := sentN_ge r.bv
  have hkN : k < C bit s (512 * nLines r.bv) := by
    have := C_mono bit s hll
    rw [C_length] at this; omega
  obtain ⟨g, hg, hg1, hg2⟩ := exists_step (fun q => C bit s (512 * q)) k (nLines r.bv)
    (by simp [C_zero]) hkN
  have hg1 : C bit s (512 * g) ≤ k := hg1
  have hg2 : k < C bit s (512 * (g + 1)) := hg2
  obtain ⟨smp, hint, hsmp, hh⟩ := hv.samples bit
  have hbr := hh.bracket (per_pos bit) (fun {i j} hij => C_mono bit s (by omega)) k
    (by show k < C bit s (64 * (8 * nLines r.bv))
        rw [show 64 * (8 * nLines r.bv) = 512 * nLines r.bv by omega]; exact hkN)
    (sentN r.bv) g
    (by show C bit s (64 * (8 * g)) ≤ k; rw [show 64 * (8 * g) = 512 * g by omega]; exact hg1)
    (by show k < C bit s (64 * (8 * (g + 1))); rw [show 64 * (8 * (g + 1)) = 512 * (g + 1) by omega]; exact hg2)
    (by omega)
  obtain ⟨hb1, hb2, hb3⟩ := hbr
  generalize hA : smp.push (sentN r.bv) = A at *
  unfold selectSubblock
  have hidx : idx r.selectSamples (if bit then 1 else 0) = .ok A := by
    rw [idx_getD' _ _ #[] (by rw [hv.ssize]; cases bit <;> decide), hsmp]
  have hper : (if bit then narrowOnesPerHint else narrowZerosPerHint) = per bit := rfl
  simp only [hper]
  rw [hidx, ok_bind, idx_getD _ _ (by omega), ok_bind, idx_getD _ _ hb1, ok_bind]
  rw [hv.hintLoop_eq bit k (g + 1) (1 + A.getD (k / per bit + 1) 0) (by omega) (by omega)
    (fun q hq => Nat.le_trans (C_mono bit s (by omega)) hg1) (fun _ => hg2) _ _ (by omega) (by omega), ok_bind]
  have hsub : Qwt.sub (g + 1) 1 = .ok g := by simp [Qwt.sub]
  rw [hsub, ok_bind]
  obtain ⟨l, hl, hl1, hl2, hl3, hl4⟩ := hv.subLoop_eq bit k g hg hg1 hg2 8 0 (by omega) (by omega) (by omega)
  simp only [show narrowBlockSize = 8 by decide]
  rw [Nat.mul_comm g 8, hl, ok_bind]
  refine ⟨l, ?_, by omega, hl3, hl4⟩
  rw [hv.subBlockRank_eq l (by omega), ok_bind, subVal_bind]; rfl

theorem selectUnchecked_eq (hsel : SelSpec) (hv : Inv r s) (bit : Bool) (k : Nat) (hk : k < s.count bit) :
    ∃ pos, selectUnchecked r bit k = .ok pos ∧ Spec.select bit k s = some pos := by
  obtain ⟨l, hl, hlN, hl1, hl2⟩ := hv.selectSubblock_eq bit k hk
  have hsz := hv.holds.size_eq
  have hj : l < r.bv.data.size := by omega
  have hfull := hv.holds.C_word_full bit l hj
  have hWlt := wordOf_lt bit _ (hv.holds.lt l hj)
  obtain ⟨p, hp, hp64, hpbit, hppop⟩ := select_bitsOf (wordOf bit (r.bv.data.getD l 0))
    (k - C bit s (64 * l)) hWlt (by omega)
  have hple := popc_le_of_lt _ 64 hWlt
  refine ⟨l * 64 + p, ?_, ?_⟩
  · unfold selectUnchecked
    rw [hl, ok_bind]
    have e3 : l >>> 3 = l / 8 := by rw [Nat.shiftRight_eq_div_pow]
    have : ¬ (l >>> 3 ≥ nLines r.bv) := by rw [e3]; omega
    simp only [this, if_false]
    rw [idx_getD _ _ hj, ok_bind]
    have hsub : Qwt.sub k (C bit s (64 * l)) = .ok (k - C bit s (64 * l)) := by
      simp only [Qwt.sub]; rw [if_pos hl1]
    rw [hsub, ok_bind]
    have hword : (if bit = true then r.bv.data.getD l 0 else not64 (r.bv.data.getD l 0))
        = wordOf bit (r.bv.data.getD l 0) := rfl
    rw [hword, hsel _ _ hWlt (by omega), hp, ok_bind]; rfl
  · apply select_of_C bit s k _ hk
    · have := hv.holds.wordOf_bitw bit l p hj hp64
      rw [hpbit] at this
      rw [Nat.mul_comm l 64]
      by_cases hb : s.getD (64 * l + p) false = bit
      · exact hb
      · rw [if_neg hb] at this; omega
    · have := hv.holds.C_word bit l hj p (by omega)
      rw [Nat.mul_comm l 64, this, hppop]; omega

theorem select1_eq (hsel : SelSpec) (hv : Inv r s) (k : Nat) : select1 r k = .ok (Spec.select true k s) := by
  unfold select1
  rw [hv.nOnes_eq, ok_bind]
  by_cases hk : k ≥ s.count true
  · simp only [hk, if_true, select_eq_none_of_ge true s k hk]; rfl
  · simp only [hk, if_false]
    obtain ⟨pos, h1, h2⟩ := hv.selectUnchecked_eq hsel true k (by omega)
    rw [h1, h2]; rfl

theorem select0_eq (hsel : SelSpec) (hv : Inv r s) (k : Nat) : select0 r k = .ok (Spec.select false k s) := by
  unfold select0
  rw [hv.nZeros_eq, ok_bind]
  by_cases hk : k ≥ s.count false
  · simp only [hk, if_true, select_eq_none_of_ge false s k hk]; rfl
  · simp only [hk, if_false]
    obtain ⟨pos, h1, h2⟩ := hv.selectUnchecked_eq hsel false k (by omega)
    rw [h1, h2]; rfl

end Inv

end Qwt.RSN
