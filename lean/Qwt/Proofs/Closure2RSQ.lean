import Qwt.Props.C05
import Qwt.Proofs.CodecLeaf
import Qwt.Proofs.Corollaries

/-! The `RSQVector` returned by the constructors (`from`, `new`, `default`, the level constructor
of the quad wavelet trees) is serialisation-well-formed (`Codec.rsqWF`).

`RepInv` alone does not bound the select-sample arrays, so the sample part is a syntactic
invariant (`SOK`) traced through the successful run of `buildStep` / `rsNew`; everything else
comes from `RepInv` (obtained from `fromQV_ok` and determinism). -/
namespace Qwt.Closure2
open Qwt Qwt.QV Qwt.RSQ Qwt.RSQP Qwt.Extracted

/-! ### helpers -/

theorem mem_getD {α : Type} (a : Array α) (d : α) (x : α) (hx : x ∈ a.toList) :
    ∃ j, j < a.size ∧ x = a.getD j d := by
  obtain ⟨j, hj, rfl⟩ := List.mem_iff_getElem.mp hx
  simp only [Array.length_toList] at hj
  refine ⟨j, hj, ?_⟩
  rw [Array.getD_eq_getD_getElem?, Array.getElem?_eq_getElem hj]
  simp

theorem bind_ok_inv {α β : Type} {x : M α} {f : α → M β} {b : β} (e : x >>= f = .ok b) :
    ∃ a, x = .ok a ∧ f a = .ok b := by
  cases x with
  | error err => cases e
  | ok a => exact ⟨a, rfl, e⟩

theorem guardM_inv {c : Bool} {f : Fault} (e : guardM c f = .ok ()) : c = true := by
  unfold guardM at e
  cases c
  · cases e
  · rfl

/-! ### the syntactic invariant of the sample arrays -/

/-- after `k` loop iterations: four arrays, each with at most `k` entries, every entry a `u32` -/
def SOK (k : Nat) (smp : Array (Array Nat)) : Prop :=
  smp.size = 4 ∧ ∀ j, (smp.getD j #[]).size ≤ k ∧ ∀ x ∈ (smp.getD j #[]).toList, x < 4294967296

theorem sok_zero : SOK 0 (#[#[], #[], #[], #[]] : Array (Array Nat)) := by
  refine ⟨rfl, fun j => ?_⟩
  have : (#[#[], #[], #[], #[]] : Array (Array Nat)).getD j #[] = #[] := by
    rcases (by omega : j = 0 ∨ j = 1 ∨ j = 2 ∨ j = 3 ∨ 4 ≤ j) with rfl | rfl | rfl | rfl | h
    · rfl
    · rfl
    · rfl
    · rfl
    · rw [Array.getD_eq_getD_getElem?, Array.getElem?_eq_none (by simpa using h)]; rfl
  rw [this]
  exact ⟨Nat.le_refl _, fun x hx => by simp at hx⟩

theorem sok_mono {k : Nat} {smp : Array (Array Nat)} (h : SOK k smp) : SOK (k + 1) smp :=
  ⟨h.1, fun j => ⟨Nat.le_succ_of_le (h.2 j).1, (h.2 j).2⟩⟩

theorem sok_push {k : Nat} {smp : Array (Array Nat)} (h : SOK k smp) (sym v : Nat) :
    SOK (k + 1) (smp.modify sym (·.push (v % 4294967296))) := by
  refine ⟨by rw [Array.size_modify]; exact h.1, fun j => ?_⟩
  rw [getD_modify]
  split
  · refine ⟨by rw [Array.size_push]; exact Nat.succ_le_succ (h.2 j).1, fun x hx => ?_⟩
    rw [Array.toList_push, List.mem_append] at hx
    rcases hx with hx | hx
    · exact (h.2 j).2 x hx
    · rw [List.mem_singleton] at hx
      rw [hx]; exact Nat.mod_lt _ (by decide)
  · exact ⟨Nat.le_succ_of_le (h.2 j).1, (h.2 j).2⟩

theorem phase1_samples (B : Nat) (st : BuildSt) (i : Nat) : (phase1 B st i).samples = st.samples := by
  unfold phase1
  split <;> rfl

theorem phase2_samples {B : Nat} {st st' : BuildSt} {i : Nat} (e : phase2 B st i = .ok st') :
    st'.samples = st.samples := by
  unfold phase2 at e
  split at e
  · obtain ⟨sbs, _, e2⟩ := bind_ok_inv e
    cases e2; rfl
  · cases e; rfl

theorem phase3_sok {dbg : Bool} {B : Nat} {qv : QVector} {st st' : BuildSt} {i k : Nat}
    (h : SOK k st.samples) (e : phase3 dbg B qv st i = .ok st') : SOK (k + 1) st'.samples := by
  unfold phase3 at e
  split at e
  · obtain ⟨symbol, _, e⟩ := bind_ok_inv e
    obtain ⟨o, _, e⟩ := bind_ok_inv e
    split at e
    · obtain ⟨_, _, e⟩ := bind_ok_inv e
      obtain ⟨_, _, e⟩ := bind_ok_inv e
      cases e
      exact sok_push h _ _
    · cases e
      exact sok_mono h
  · cases e
    exact sok_mono h

theorem buildStep_sok {dbg : Bool} {B : Nat} {qv : QVector} {st st' : BuildSt} {i k : Nat}
    (h : SOK k st.samples) (e : buildStep dbg B qv st i = .ok st') : SOK (k + 1) st'.samples := by
  rw [buildStep_eq] at e
  obtain ⟨st2, e2, e3⟩ := bind_ok_inv e
  refine phase3_sok ?_ e3
  rw [phase2_samples e2, phase1_samples]
  exact h

theorem fold_sok {dbg : Bool} {B : Nat} {qv : QVector} (n : Nat) :
    ∀ {st : BuildSt}, (List.range n).foldlM (buildStep dbg B qv) {} = .ok st → SOK n st.samples := by
  induction n with
  | zero =>
    intro st e
    cases e
    exact sok_zero
  | succ n ih =>
    intro st e
    rw [List.range_succ, List.foldlM_append] at e
    obtain ⟨st1, e1, e2⟩ := bind_ok_inv e
    simp only [List.foldlM_cons, List.foldlM_nil] at e2
    obtain ⟨st2, e3, e4⟩ := bind_ok_inv e2
    cases e4
    exact buildStep_sok (ih e1) e3

/-! ### inversion of `rsNew` / `fromQV` -/

theorem rsNew_inv {dbg : Bool} {B : Nat} {qv : QVector} {rs : RSSupportPlain}
    (e : rsNew dbg B qv = .ok rs) :
    (B = 256 ∨ B = 512) ∧ ∃ st v,
      (List.range (QV.len qv + 1)).foldlM (buildStep dbg B qv) {} = .ok st ∧
      rs.selectSamples =
        st.samples.map (fun s => (if s.isEmpty then s.push 0 else s).push (v % 4294967296)) := by
  unfold rsNew at e
  obtain ⟨_, _, e⟩ := bind_ok_inv e
  obtain ⟨_, g2, e⟩ := bind_ok_inv e
  obtain ⟨st, ef, e⟩ := bind_ok_inv e
  have hB : B = 256 ∨ B = 512 := by
    have := guardM_inv g2
    simpa using this
  simp only [] at e
  split at e
  · obtain ⟨sbs, _, e⟩ := bind_ok_inv e
    obtain ⟨nsb1, _, e⟩ := bind_ok_inv e
    cases e
    exact ⟨hB, st, nsb1, ef, rfl⟩
  · obtain ⟨sbs, _, e⟩ := bind_ok_inv e
    obtain ⟨nsb1, _, e⟩ := bind_ok_inv e
    cases e
    exact ⟨hB, st, nsb1, ef, rfl⟩

theorem fromQV_inv {dbg : Bool} {B : Nat} {qv : QVector} {r : RSQVector}
    (e : fromQV dbg B qv = .ok r) : rsNew dbg B qv = .ok r.rs := by
  unfold fromQV at e
  obtain ⟨rs, e1, e⟩ := bind_ok_inv e
  obtain ⟨cnt, _, e⟩ := bind_ok_inv e
  cases e
  exact e1

theorem fromQV_hB {dbg : Bool} {B : Nat} {qv : QVector} {r : RSQVector}
    (e : fromQV dbg B qv = .ok r) : B = 256 ∨ B = 512 := (rsNew_inv (fromQV_inv e)).1

/-! ### the parts of `rsqWF` -/

theorem qvWF_of_holds {q : QVector} {s : List Nat} (h : Holds q s) (hl : s.length < 2 ^ 43) :
    Codec.qvWF q := by
  have hsz := h.size_eq
  have hp := h.pos_eq
  refine ⟨by omega, by omega, ?_, by omega⟩
  intro x hx
  obtain ⟨j, hj, rfl⟩ := mem_getD q.data 0 x hx
  exact h.word_lt j hj

theorem word_lt_of_sbOf {w : Nat} (h : sbOf w < 2 ^ 43) : w < 2 ^ 128 := by
  unfold sbOf at h
  rw [Nat.shiftRight_eq_div_pow] at h
  have h1 : w < 2 ^ 43 * 2 ^ 84 := (Nat.div_lt_iff_lt_mul (by decide : 0 < 2 ^ 84)).1 h
  exact Nat.lt_trans h1 (by decide)

theorem samplesWF_final {n v : Nat} {smp : Array (Array Nat)} (h : SOK (n + 1) smp)
    (hn : n < 2 ^ 43) :
    Codec.samplesWF 4 (2 ^ 32)
      (smp.map (fun s => (if s.isEmpty then s.push 0 else s).push (v % 4294967296))) := by
  refine ⟨by rw [Array.size_map]; exact h.1, fun a ha => ?_⟩
  rw [Array.toList_map, List.mem_map] at ha
  obtain ⟨a0, ha0, rfl⟩ := ha
  obtain ⟨j, _, rfl⟩ := mem_getD smp #[] a0 ha0
  obtain ⟨h1, h2⟩ := h.2 j
  generalize smp.getD j #[] = L at h1 h2
  have h32 : (2 : Nat) ^ 32 = 4294967296 := by decide
  rw [h32]
  constructor
  · rw [Array.size_push]
    split
    · rw [Array.size_push]; omega
    · omega
  · intro x hx
    rw [Array.toList_push, List.mem_append, List.mem_singleton] at hx
    rcases hx with hx | hx
    · split at hx
      · rw [Array.toList_push, List.mem_append, List.mem_singleton] at hx
        rcases hx with hx | hx
        · exact h2 x hx
        · rw [hx]; decide
      · exact h2 x hx
    · rw [hx]; exact Nat.mod_lt _ (by decide)

theorem rssWF_of {B : Nat} {rs : RSSupportPlain} {s : List Nat}
    (h : RSInv B rs s) (hl : s.length < 2 ^ 43)
    (hs : Codec.samplesWF 4 (2 ^ 32) rs.selectSamples) : Codec.rssWF rs := by
  have hsz := h.sbs_size
  have hdiv : s.length / (8 * B) ≤ s.length := Nat.div_le_self _ _
  refine ⟨by omega, by omega, ?_, hs⟩
  intro x hx
  obtain ⟨t, ht, rfl⟩ := mem_getD rs.superblocks 0 x hx
  apply word_lt_of_sbOf
  have ht' : t = 4 * (t / 4) + t % 4 := by omega
  rw [ht', h.sb (t / 4) (t % 4) (by omega) (by omega)]
  have := rank_le_count (t % 4) s (t / 4 * (8 * B))
  have := List.count_le_length (a := t % 4) (l := s)
  omega

theorem occsWF {r : RSQVector} {s : List Nat}
    (h : r.nOccsSmaller = #[0, s.count 0, s.count 0 + s.count 1, s.count 0 + s.count 1 + s.count 2,
      s.count 0 + s.count 1 + s.count 2 + s.count 3]) (hl : s.length < 2 ^ 43) :
    r.nOccsSmaller.size = 5 ∧ ∀ x ∈ r.nOccsSmaller.toList, x < 2 ^ 64 := by
  rw [h]
  refine ⟨rfl, fun x hx => ?_⟩
  have c0 := List.count_le_length (a := 0) (l := s)
  have c1 := List.count_le_length (a := 1) (l := s)
  have c2 := List.count_le_length (a := 2) (l := s)
  have c3 := List.count_le_length (a := 3) (l := s)
  simp only [List.mem_cons, List.not_mem_nil, or_false] at hx
  rcases hx with rfl | rfl | rfl | rfl | rfl <;> omega

/-! ### main theorems -/

/-- the value returned by `RSQVector::from` is serialisation-well-formed -/
theorem rsqWF_of_fromQV {B : Nat} {qv : QV.QVector} {s : List Nat} {r : RSQ.RSQVector} (dbg : Bool)
    (hq : QV.Holds qv s) (hs : ∀ x ∈ s, x < 4) (hl : s.length < 2 ^ 43)
    (e : RSQ.fromQV dbg B qv = .ok r) : Codec.rsqWF r := by
  have hB := fromQV_hB e
  obtain ⟨r', e', hinv⟩ := fromQV_ok dbg hB hq hs hl
  rw [e] at e'; cases e'
  obtain ⟨_, st, v, ef, hsel⟩ := rsNew_inv (fromQV_inv e)
  have hsok := fold_sok _ ef
  rw [holds_len hq] at hsok
  have hsw : Codec.samplesWF 4 (2 ^ 32) r.rs.selectSamples := by
    rw [hsel]; exact samplesWF_final hsok hl
  obtain ⟨o1, o2⟩ := occsWF hinv.occs hl
  exact ⟨qvWF_of_holds hinv.holds hl, rssWF_of hinv.rs hl hsw, o1, o2⟩

/-- the level constructor of the quad wavelet trees -/
theorem mkLevel_wf {B : Nat} (dbg : Bool) (digits : List Nat) (hd : ∀ d ∈ digits, d < 4)
    (hlen : digits.length < 2 ^ 43) {r : RSQ.RSQVector} (e : RSQ.mkLevel dbg B digits = .ok r) :
    Codec.rsqWF r := by
  obtain ⟨q, eq, hq⟩ := holds_of_pushes digits hd (by
    have : two64 = 2 ^ 64 := by decide
    omega)
  unfold RSQ.mkLevel at e
  rw [eq] at e
  exact rsqWF_of_fromQV dbg hq hd hlen e

/-- from the C13 invariant of the quad vector -/
theorem rsqWF_of_inv {B : Nat} {qv : QV.QVector} {r : RSQ.RSQVector} (dbg : Bool)
    (hq : QV.Inv qv) (hl : (QV.abs qv).length < 2 ^ 43)
    (e : RSQ.fromQV dbg B qv = .ok r) : Codec.rsqWF r :=
  rsqWF_of_fromQV dbg (holds_of_inv hq) (QV.abs_lt_four qv) hl e

/-- `Default` -/
theorem default_wf {B : Nat} {r : RSQ.RSQVector} (e : RSQ.default B = .ok r) : Codec.rsqWF r :=
  rsqWF_of_fromQV false Props.C05.holds_empty (fun x hx => by cases hx) (by decide) e

/-- `RSQVector::new(&[T])` / `collect()` -/
theorem rsqWF_new {B : Nat} (dbg : Bool) (vals : List Int) {r : RSQ.RSQVector}
    (e : RSQ.new dbg B vals = .ok r) (hl : vals.length < 2 ^ 43) : Codec.rsqWF r := by
  obtain ⟨q, eq, hq, a⟩ := QV.fromIter_ok vals (by
    have : two64 = 2 ^ 64 := by decide
    omega)
  unfold RSQ.new at e
  rw [eq] at e
  exact rsqWF_of_inv dbg hq (by rw [a, List.length_map]; exact hl) e

end Qwt.Closure2

