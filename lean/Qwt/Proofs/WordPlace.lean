import Qwt.Proofs.WordSelect

/-! Helper lemmas for C17: the comparison step of `select_in_word`. -/
namespace Qwt.Proofs.Word
open Qwt Qwt.Utils Qwt.Extracted

theorem or_split (a m A M : Nat) (ha : a < 256) (hm : m < 256) :
    (a + 256 * A) ||| (m + 256 * M) = (a ||| m) + 256 * (A ||| M) := by
  have h1 := @Nat.or_mod_two_pow (a + 256 * A) (m + 256 * M) 8
  have h2 := @Nat.or_div_two_pow (a + 256 * A) (m + 256 * M) 8
  have e1 : (a + 256 * A) % 2 ^ 8 = a := by omega
  have e2 : (m + 256 * M) % 2 ^ 8 = m := by omega
  have e3 : (a + 256 * A) / 2 ^ 8 = A := by omega
  have e4 : (m + 256 * M) / 2 ^ 8 = M := by omega
  rw [e1, e2] at h1
  rw [e3, e4] at h2
  omega

theorem or8_k (k : Nat) (hk : k < 128) :
    W8 k k k k k k k k ||| W8 0x80 0x80 0x80 0x80 0x80 0x80 0x80 0x80 =
      W8 (k + 128) (k + 128) (k + 128) (k + 128) (k + 128) (k + 128) (k + 128) (k + 128) := by
  have hk' : k < 256 := by omega
  unfold W8
  rw [or_split _ _ _ _ hk' (by decide), or_split _ _ _ _ hk' (by decide),
    or_split _ _ _ _ hk' (by decide), or_split _ _ _ _ hk' (by decide),
    or_split _ _ _ _ hk' (by decide), or_split _ _ _ _ hk' (by decide),
    or_split _ _ _ _ hk' (by decide), or80 k hk]

theorem pc8_128 (e : Nat) (he : e ≤ 1) : pc8 (128 * e) = e := by
  have : e = 0 ∨ e = 1 := by omega
  rcases this with h | h <;> subst h <;> decide

theorem popc_W8 {b0 b1 b2 b3 b4 b5 b6 b7 : Nat}
    (h0 : b0 < 256) (h1 : b1 < 256) (h2 : b2 < 256) (h3 : b3 < 256) (h4 : b4 < 256)
    (h5 : b5 < 256) (h6 : b6 < 256) (h7 : b7 < 256) :
    Qwt.popc (W8 b0 b1 b2 b3 b4 b5 b6 b7) =
      pc8 b0 + pc8 b1 + pc8 b2 + pc8 b3 + pc8 b4 + pc8 b5 + pc8 b6 + pc8 b7 := by
  rw [popc_eq_spec, popc_eq_count 64 _ (W8_lt h0 h1 h2 h3 h4 h5 h6 h7),
    bitsOf_W8 h0 h1 h2 h3 h4 h5 h6 h7]
  simp only [List.count_append, pc8]
  omega

def nth8 (x0 x1 x2 x3 x4 x5 x6 x7 : Nat) : Nat → Nat
  | 0 => x0 | 1 => x1 | 2 => x2 | 3 => x3 | 4 => x4 | 5 => x5 | 6 => x6 | _ => x7

theorem and80' (x : Nat) (hx : x < 256) : ∃ e, x &&& 0x80 = 128 * e ∧
    ((e = 1 ∧ 128 ≤ x) ∨ (e = 0 ∧ x < 128)) := by
  rw [and80 x hx]
  by_cases h : 128 ≤ x
  · exact ⟨1, by simp [h], Or.inl ⟨rfl, h⟩⟩
  · exact ⟨0, by simp [h], Or.inr ⟨rfl, by omega⟩⟩

/-- the comparison step: `place / 8` is the number of prefix sums that are `≤ k` -/
theorem siw_place {P0 P1 P2 P3 P4 P5 P6 P7 k : Nat} (hk : k < 128)
    (m0 : P0 ≤ P1) (m1 : P1 ≤ P2) (m2 : P2 ≤ P3) (m3 : P3 ≤ P4) (m4 : P4 ≤ P5) (m5 : P5 ≤ P6)
    (m6 : P6 ≤ P7) (m7 : P7 ≤ 64) (word : Nat) :
    ∃ t, siwTail word (W8 P0 P1 P2 P3 P4 P5 P6 P7) k =
        siwEnd word (W8 P0 P1 P2 P3 P4 P5 P6 P7) k t ∧
      ((t = 8 ∧ P7 ≤ k) ∨
       (t < 8 ∧ nth8 0 P0 P1 P2 P3 P4 P5 P6 t ≤ k ∧ k < nth8 P0 P1 P2 P3 P4 P5 P6 P7 t)) := by
  obtain ⟨-, -, -, hones, hlam⟩ := masks
  have hmul : mul64 k kOnesStep8 = .ok (W8 k k k k k k k k) := by
    unfold mul64
    have e : k * kOnesStep8 = W8 k k k k k k k k := by rw [hones]; unfold W8; omega
    have hlt : W8 k k k k k k k k < two64 := by
      unfold two64; apply W8_lt <;> omega
    rw [e, if_pos hlt]
  obtain ⟨hle, hsub⟩ := @W8_sub (k + 128) (k + 128) (k + 128) (k + 128) (k + 128) (k + 128)
    (k + 128) (k + 128) P0 P1 P2 P3 P4 P5 P6 P7 (by omega) (by omega) (by omega) (by omega)
    (by omega) (by omega) (by omega) (by omega)
  have hsub' : sub (W8 k k k k k k k k ||| kLambdasStep8) (W8 P0 P1 P2 P3 P4 P5 P6 P7) =
      .ok (W8 (k + 128 - P0) (k + 128 - P1) (k + 128 - P2) (k + 128 - P3) (k + 128 - P4)
        (k + 128 - P5) (k + 128 - P6) (k + 128 - P7)) := by
    rw [hlam, or8_k k hk]; unfold sub; rw [if_pos hle, hsub]
  unfold siwTail
  rw [hmul, ok_bind, hsub', ok_bind, hlam]
  rw [and8 (by omega) (by omega) (by omega) (by omega) (by omega) (by omega) (by omega) (by omega)
    (by decide) (by decide) (by decide) (by decide) (by decide) (by decide) (by decide) (by decide)]
  obtain ⟨e0, q0, c0⟩ := and80' (k + 128 - P0) (by omega)
  obtain ⟨e1, q1, c1⟩ := and80' (k + 128 - P1) (by omega)
  obtain ⟨e2, q2, c2⟩ := and80' (k + 128 - P2) (by omega)
  obtain ⟨e3, q3, c3⟩ := and80' (k + 128 - P3) (by omega)
  obtain ⟨e4, q4, c4⟩ := and80' (k + 128 - P4) (by omega)
  obtain ⟨e5, q5, c5⟩ := and80' (k + 128 - P5) (by omega)
  obtain ⟨e6, q6, c6⟩ := and80' (k + 128 - P6) (by omega)
  obtain ⟨e7, q7, c7⟩ := and80' (k + 128 - P7) (by omega)
  rw [q0, q1, q2, q3, q4, q5, q6, q7]
  rw [popc_W8 (by omega) (by omega) (by omega) (by omega) (by omega) (by omega) (by omega)
    (by omega)]
  rw [pc8_128 e0 (by omega), pc8_128 e1 (by omega), pc8_128 e2 (by omega), pc8_128 e3 (by omega),
    pc8_128 e4 (by omega), pc8_128 e5 (by omega), pc8_128 e6 (by omega), pc8_128 e7 (by omega)]
  refine ⟨_, rfl, ?_⟩
  clear hmul hsub' hsub hle q0 q1 q2 q3 q4 q5 q6 q7 hones hlam
  generalize ht : e0 + e1 + e2 + e3 + e4 + e5 + e6 + e7 = t
  have : t = 0 ∨ t = 1 ∨ t = 2 ∨ t = 3 ∨ t = 4 ∨ t = 5 ∨ t = 6 ∨ t = 7 ∨ t = 8 := by omega
  rcases this with h | h | h | h | h | h | h | h | h <;> subst h <;> simp only [nth8] <;>
    first | omega | (refine Or.inl ⟨trivial, ?_⟩; omega)

end Qwt.Proofs.Word
