import Qwt.Spec.Basic
import Qwt.Model.Utils

/-! Helper lemmas for C17: stable partitions. -/
namespace Qwt.Proofs.Word
open Qwt Qwt.Utils

theorem and3_eq (a : Nat) : asUsize a &&& 3 = a % 4 := by
  have h : (3 : Nat) = 2 ^ 2 - 1 := by decide
  rw [h, Nat.and_two_pow_sub_one_eq_mod]
  unfold asUsize two64
  omega

theorem and1_eq (a : Nat) : asUsize a &&& 1 = a % 2 := by
  have h : (1 : Nat) = 2 ^ 1 - 1 := by decide
  rw [h, Nat.and_two_pow_sub_one_eq_mod]
  unfold asUsize two64
  omega

theorem fold4 (shift : Nat) (l : List Nat) : ∀ (b : Buckets4),
    l.foldl (fun (b : Buckets4) a => b.push (asUsize (a >>> shift) &&& 3) a) b =
      { v0 := b.v0 ++ (l.filter (fun x => (x >>> shift) % 4 == 0)).toArray
        v1 := b.v1 ++ (l.filter (fun x => (x >>> shift) % 4 == 1)).toArray
        v2 := b.v2 ++ (l.filter (fun x => (x >>> shift) % 4 == 2)).toArray
        v3 := b.v3 ++ (l.filter (fun x => (x >>> shift) % 4 == 3)).toArray } := by
  induction l with
  | nil => intro b; simp
  | cons a l ih =>
    intro b
    rw [List.foldl_cons, ih, and3_eq]
    simp only [List.filter_cons]
    have h4 : (a >>> shift) % 4 < 4 := Nat.mod_lt _ (by decide)
    generalize (a >>> shift) % 4 = r at h4
    have : r = 0 ∨ r = 1 ∨ r = 2 ∨ r = 3 := by omega
    rcases this with h | h | h | h <;> subst h <;> simp [Buckets4.push]

theorem fold2 (shift : Nat) (l : List Nat) : ∀ (b : Array Nat × Array Nat),
    l.foldl (fun (b : Array Nat × Array Nat) a =>
      if asUsize (a >>> shift) &&& 1 == 0 then (b.1.push a, b.2) else (b.1, b.2.push a)) b =
      (b.1 ++ (l.filter (fun x => (x >>> shift) % 2 == 0)).toArray,
       b.2 ++ (l.filter (fun x => (x >>> shift) % 2 == 1)).toArray) := by
  induction l with
  | nil => intro b; simp
  | cons a l ih =>
    intro b
    rw [List.foldl_cons, ih, and1_eq]
    simp only [List.filter_cons]
    have h4 : (a >>> shift) % 2 < 2 := Nat.mod_lt _ (by decide)
    generalize (a >>> shift) % 2 = r at h4
    have : r = 0 ∨ r = 1 := by omega
    rcases this with h | h <;> subst h <;> simp

theorem stablePart4 (key : α → Nat) (s : List α) :
    Spec.stablePart key 4 s =
      s.filter (fun x => key x == 0) ++ s.filter (fun x => key x == 1) ++
      s.filter (fun x => key x == 2) ++ s.filter (fun x => key x == 3) := by
  simp [Spec.stablePart, List.range_succ]

theorem stablePart2 (key : α → Nat) (s : List α) :
    Spec.stablePart key 2 s =
      s.filter (fun x => key x == 0) ++ s.filter (fun x => key x == 1) := by
  simp [Spec.stablePart, List.range_succ]

/-- each group of a stable partition keeps its relative order -/
theorem stablePart_filter (key : α → Nat) (r : Nat) (s : List α) (d : Nat) (hd : d < r) :
    (Spec.stablePart key r s).filter (fun x => key x == d) = s.filter (fun x => key x == d) := by
  induction r with
  | zero => omega
  | succ r ih =>
    unfold Spec.stablePart at *
    rw [List.range_succ, List.flatMap_append, List.filter_append]
    by_cases h : d < r
    · rw [ih h]
      simp only [List.flatMap_cons, List.flatMap_nil, List.append_nil, List.filter_filter]
      have : s.filter (fun x => (key x == d && key x == r)) = [] := by
        rw [List.filter_eq_nil_iff]; intro a _; simp; omega
      rw [this, List.append_nil]
    · have hdr : d = r := by omega
      subst hdr
      have : ((List.range d).flatMap (fun d' => s.filter (fun x => key x == d'))).filter
          (fun x => key x == d) = [] := by
        rw [List.filter_eq_nil_iff]
        intro a ha
        rw [List.mem_flatMap] at ha
        obtain ⟨d', hd', ha⟩ := ha
        simp at hd' ha ⊢
        omega
      rw [this]
      simp [List.filter_filter]

theorem stablePart_perm_lt (key : α → Nat) (r : Nat) (s : List α) :
    (Spec.stablePart key r s).Perm (s.filter (fun x => key x < r)) := by
  induction r with
  | zero => simp [Spec.stablePart]
  | succ r ih =>
    unfold Spec.stablePart at *
    rw [List.range_succ, List.flatMap_append]
    simp only [List.flatMap_cons, List.flatMap_nil, List.append_nil]
    refine (List.Perm.append_right _ ih).trans ?_
    have h := List.filter_append_perm (fun x => decide (key x < r)) (s.filter (fun x => key x < r + 1))
    simp only [List.filter_filter] at h
    have e1 : s.filter (fun x => decide (key x < r) && decide (key x < r + 1)) =
        s.filter (fun x => decide (key x < r)) := by
      apply List.filter_congr; intro x _; simp; omega
    have e2 : s.filter (fun x => (!decide (key x < r)) && decide (key x < r + 1)) =
        s.filter (fun x => key x == r) := by
      apply List.filter_congr; intro x _
      rw [Bool.eq_iff_iff]; simp; omega
    rw [e1, e2] at h
    exact h

/-- the stable partition is a permutation when all keys are in range -/
theorem stablePart_perm (key : α → Nat) (r : Nat) (s : List α) (hk : ∀ x ∈ s, key x < r) :
    (Spec.stablePart key r s).Perm s := by
  have h := stablePart_perm_lt key r s
  have e : s.filter (fun x => decide (key x < r)) = s := by
    rw [List.filter_eq_self]; intro a ha; simp [hk a ha]
  rwa [e] at h

end Qwt.Proofs.Word
