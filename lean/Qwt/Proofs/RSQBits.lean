import Qwt.Spec.Basic
import Qwt.Model.RSQVector

/-! Counting / bit-level lemmas used by the C05 proofs (core Lean only). -/
namespace Qwt.RSQP
open Qwt

/-- number of `j < n` with `f j` -/
def cntF (f : Nat → Bool) : Nat → Nat
  | 0 => 0
  | n + 1 => cntF f n + (if f n then 1 else 0)

@[simp] theorem cntF_zero (f : Nat → Bool) : cntF f 0 = 0 := rfl
theorem cntF_succ (f : Nat → Bool) (n : Nat) : cntF f (n + 1) = cntF f n + (if f n then 1 else 0) := rfl

theorem cntF_le (f : Nat → Bool) (n : Nat) : cntF f n ≤ n := by
  induction n with
  | zero => exact Nat.le_refl _
  | succ n ih => rw [cntF_succ]; split <;> omega

theorem cntF_mono (f : Nat → Bool) {m n : Nat} (h : m ≤ n) : cntF f m ≤ cntF f n := by
  induction n with
  | zero => have : m = 0 := by omega
            subst this; exact Nat.le_refl _
  | succ n ih =>
    by_cases hm : m = n + 1
    · subst hm; exact Nat.le_refl _
    · have := ih (by omega); rw [cntF_succ]; omega

theorem cntF_congr {f g : Nat → Bool} {n : Nat} (h : ∀ j, j < n → f j = g j) : cntF f n = cntF g n := by
  induction n with
  | zero => rfl
  | succ n ih =>
    rw [cntF_succ, cntF_succ, ih (fun j hj => h j (by omega)), h n (by omega)]

theorem cntF_add (f : Nat → Bool) (m n : Nat) :
    cntF f (m + n) = cntF f m + cntF (fun j => f (m + j)) n := by
  induction n with
  | zero => rfl
  | succ n ih => rw [← Nat.add_assoc, cntF_succ, cntF_succ, ih]; omega

/-- counting on a sub-interval is bounded by its length -/
theorem cntF_sub_le (f : Nat → Bool) {m n : Nat} (h : m ≤ n) : cntF f n ≤ cntF f m + (n - m) := by
  have := cntF_add f m (n - m)
  have h2 := cntF_le (fun j => f (m + j)) (n - m)
  rw [show m + (n - m) = n by omega] at this
  omega

theorem cntF_lt_of_true {f : Nat → Bool} {p n : Nat} (hp : f p = true) (h : p < n) :
    cntF f p < cntF f n := by
  have h1 : cntF f (p + 1) = cntF f p + 1 := by rw [cntF_succ, hp]; rfl
  have h2 := cntF_mono f (show p + 1 ≤ n from h)
  omega

theorem cntF_inj {f : Nat → Bool} {p q : Nat} (hp : f p = true) (hq : f q = true)
    (h : cntF f p = cntF f q) : p = q := by
  rcases Nat.lt_trichotomy p q with h1 | h1 | h1
  · have := cntF_lt_of_true hp h1; omega
  · exact h1
  · have := cntF_lt_of_true hq h1; omega

theorem cntF_false {f : Nat → Bool} {n : Nat} (h : ∀ j, j < n → f j = false) : cntF f n = 0 := by
  induction n with
  | zero => rfl
  | succ n ih => rw [cntF_succ, ih (fun j hj => h j (by omega)), h n (by omega)]; rfl

/-! ### `popc` -/

theorem popc_zero : Qwt.popc 0 = 0 := by unfold Qwt.popc; simp

theorem popc_unfold (w : Nat) : Qwt.popc w = w % 2 + Qwt.popc (w / 2) := by
  by_cases h : w = 0
  · subst h; simp [popc_zero]
  · rw [Qwt.popc]; simp [h]

theorem popc_mod_two_pow (k : Nat) : ∀ w : Nat, Qwt.popc (w % 2 ^ k) = cntF (fun j => w.testBit j) k := by
  induction k with
  | zero => intro w; simp [Nat.mod_one, popc_zero]
  | succ k ih =>
    intro w
    rw [popc_unfold]
    have h1 : w % 2 ^ (k + 1) % 2 = w % 2 := by
      rw [Nat.pow_succ, Nat.mod_mul_left_mod]
    have h2 : w % 2 ^ (k + 1) / 2 = (w / 2) % 2 ^ k := by
      rw [Nat.pow_succ, Nat.mul_comm, Nat.mod_mul_right_div_self]
    rw [h1, h2, ih, Nat.add_comm k 1, cntF_add]
    congr 1
    · rw [cntF_succ, cntF_zero, Nat.testBit_zero]
      rcases Nat.mod_two_eq_zero_or_one w with h | h <;> simp [h]
    · apply cntF_congr; intro j _
      rw [Nat.add_comm 1 j, Nat.testBit_succ]

theorem popc_of_lt {w k : Nat} (h : w < 2 ^ k) : Qwt.popc w = cntF (fun j => w.testBit j) k := by
  rw [← popc_mod_two_pow, Nat.mod_eq_of_lt h]


set_option linter.unusedSectionVars false

section lists
variable {α : Type} [BEq α] [LawfulBEq α]

theorem rank_eq_cntF (c : α) (s : List α) (i : Nat) :
    Spec.rank c i s = cntF (fun j => s[j]? == some c) i := by
  induction i with
  | zero => simp [Spec.rank]
  | succ i ih =>
    rw [cntF_succ, ← ih]
    unfold Spec.rank
    rw [List.take_add_one, List.count_append]
    congr 1
    cases h : s[i]? with
    | none => simp
    | some x =>
      by_cases hx : x = c
      · subst hx; simp
      · simp [hx]

theorem rank_zero (c : α) (s : List α) : Spec.rank c 0 s = 0 := by simp [Spec.rank]

theorem rank_mono (c : α) (s : List α) {i j : Nat} (h : i ≤ j) : Spec.rank c i s ≤ Spec.rank c j s := by
  rw [rank_eq_cntF, rank_eq_cntF]; exact cntF_mono _ h

theorem rank_of_ge (c : α) (s : List α) {i : Nat} (h : s.length ≤ i) : Spec.rank c i s = s.count c := by
  unfold Spec.rank; rw [List.take_of_length_le h]

theorem rank_le_count (c : α) (s : List α) (i : Nat) : Spec.rank c i s ≤ s.count c := by
  rw [← rank_of_ge c s (Nat.le_max_left s.length i)]
  exact rank_mono c s (Nat.le_max_right _ _)

theorem rank_le (c : α) (s : List α) (i : Nat) : Spec.rank c i s ≤ i := by
  rw [rank_eq_cntF]; exact cntF_le _ _

theorem rank_sub_le (c : α) (s : List α) {i j : Nat} (h : i ≤ j) :
    Spec.rank c j s ≤ Spec.rank c i s + (j - i) := by
  rw [rank_eq_cntF, rank_eq_cntF]; exact cntF_sub_le _ h

theorem rank_succ_of_eq (c : α) (s : List α) {i : Nat} (h : s[i]? = some c) :
    Spec.rank c (i + 1) s = Spec.rank c i s + 1 := by
  rw [rank_eq_cntF, rank_eq_cntF, cntF_succ, h]; simp

theorem rank_succ_of_ne (c : α) (s : List α) {i : Nat} (h : s[i]? ≠ some c) :
    Spec.rank c (i + 1) s = Spec.rank c i s := by
  rw [rank_eq_cntF, rank_eq_cntF, cntF_succ]
  have : (s[i]? == some c) = false := by simpa using h
  rw [this]; rfl

/-- a position is determined by its rank -/
theorem pos_unique (c : α) (s : List α) {p q : Nat} (hp : s[p]? = some c) (hq : s[q]? = some c)
    (h : Spec.rank c p s = Spec.rank c q s) : p = q := by
  rw [rank_eq_cntF, rank_eq_cntF] at h
  exact cntF_inj (f := fun j => s[j]? == some c) (by simp [hp]) (by simp [hq]) h

theorem select_none_of_le (c : α) : ∀ (s : List α) (k : Nat), s.count c ≤ k → Spec.select c k s = none := by
  intro s
  induction s with
  | nil => intro k _; rfl
  | cons x xs ih =>
    intro k hk
    unfold Spec.select
    by_cases hx : (x == c) = true
    · rw [List.count_cons, if_pos hx] at hk
      rw [if_pos hx]
      cases k with
      | zero => omega
      | succ k => simp only; rw [ih k (by omega)]; rfl
    · rw [List.count_cons, if_neg hx] at hk
      rw [if_neg hx, ih k (by omega)]; rfl

theorem select_some_of_lt (c : α) : ∀ (s : List α) (k : Nat), k < s.count c →
    ∃ p, Spec.select c k s = some p ∧ s[p]? = some c ∧ Spec.rank c p s = k := by
  intro s
  induction s with
  | nil => intro k hk; simp at hk
  | cons x xs ih =>
    intro k hk
    unfold Spec.select
    by_cases hx : (x == c) = true
    · rw [List.count_cons, if_pos hx] at hk
      rw [if_pos hx]
      have hxc : x = c := by simpa using hx
      cases k with
      | zero => exact ⟨0, rfl, by simp [hxc], rank_zero _ _⟩
      | succ k =>
        obtain ⟨p, h1, h2, h3⟩ := ih k (by omega)
        refine ⟨p + 1, by simp [h1], by simpa using h2, ?_⟩
        unfold Spec.rank at h3 ⊢
        rw [List.take_succ_cons, List.count_cons, if_pos hx, h3]
    · rw [List.count_cons, if_neg hx] at hk
      rw [if_neg hx]
      obtain ⟨p, h1, h2, h3⟩ := ih k (by omega)
      refine ⟨p + 1, by simp [h1], by simpa using h2, ?_⟩
      unfold Spec.rank at h3 ⊢
      rw [List.take_succ_cons, List.count_cons, if_neg hx, h3]; rfl

theorem count_eq_rank_length (c : α) (s : List α) : s.count c = Spec.rank c s.length s :=
  (rank_of_ge c s (Nat.le_refl _)).symm

/-- characterisation used to conclude `select` -/
theorem select_eq_some (c : α) (s : List α) {p k : Nat} (hp : s[p]? = some c)
    (hr : Spec.rank c p s = k) : Spec.select c k s = some p := by
  have hlt : p < s.length := by
    rcases Nat.lt_or_ge p s.length with h | h
    · exact h
    · rw [List.getElem?_eq_none h] at hp; cases hp
  have hk : k < s.count c := by
    rw [count_eq_rank_length, ← hr]
    have := rank_succ_of_eq c s hp
    have := rank_mono c s (show p + 1 ≤ s.length from hlt)
    omega
  obtain ⟨q, h1, h2, h3⟩ := select_some_of_lt c s k hk
  rw [h1, pos_unique c s h2 hp (h3.trans hr.symm)]

end lists


theorem bitsOf_length (n : Nat) : ∀ w, (Spec.bitsOf w n).length = n := by
  induction n with
  | zero => intro w; rfl
  | succ n ih => intro w; simp [Spec.bitsOf, ih]

theorem bitsOf_getElem? (n : Nat) : ∀ w j, (Spec.bitsOf w n)[j]? = if j < n then some (w.testBit j) else none := by
  induction n with
  | zero => intro w j; simp [Spec.bitsOf]
  | succ n ih =>
    intro w j
    cases j with
    | zero =>
      simp only [Spec.bitsOf, List.getElem?_cons_zero, Nat.zero_lt_succ, if_true, Nat.testBit_zero]
      rcases Nat.mod_two_eq_zero_or_one w with h | h <;> simp [h]
    | succ j =>
      simp only [Spec.bitsOf, List.getElem?_cons_succ, ih, Nat.testBit_succ, Nat.add_lt_add_iff_right]

theorem rank_bitsOf (w n i : Nat) (h : i ≤ n) :
    Spec.rank true i (Spec.bitsOf w n) = cntF (fun j => w.testBit j) i := by
  rw [rank_eq_cntF]; apply cntF_congr; intro j hj
  rw [bitsOf_getElem?, if_pos (by omega)]; simp

theorem count_bitsOf (w n : Nat) : (Spec.bitsOf w n).count true = cntF (fun j => w.testBit j) n := by
  rw [count_eq_rank_length, bitsOf_length, rank_bitsOf _ _ _ (Nat.le_refl _)]

/-- the hypothesis about `select_in_word_u128` (C17) in the form the select proofs assume it -/
def SelHyp : Prop :=
  ∀ w k, w < 2 ^ 128 → k < 128 → Utils.selectInWordU128 w k =
    .ok (match Spec.select true k (Spec.bitsOf w 128) with | some p => p | none => 128)

theorem sel_spec (hsel : SelHyp) {w k : Nat} (hw : w < 2 ^ 128) (hk : k < Qwt.popc w) :
    ∃ p, Utils.selectInWordU128 w k = .ok p ∧ p < 128 ∧ w.testBit p = true ∧
      cntF (fun j => w.testBit j) p = k := by
  have hpc := popc_of_lt hw
  have hk' : k < (Spec.bitsOf w 128).count true := by rw [count_bitsOf, ← hpc]; exact hk
  have hk128 : k < 128 := by have := cntF_le (fun j => w.testBit j) 128; omega
  obtain ⟨p, h1, h2, h3⟩ := select_some_of_lt true _ k hk'
  have hp : p < 128 := by
    rcases Nat.lt_or_ge p 128 with h | h
    · exact h
    · rw [bitsOf_getElem?, if_neg (by omega)] at h2; cases h2
  refine ⟨p, ?_, hp, ?_, ?_⟩
  · rw [hsel w k hw hk128, h1]
  · rw [bitsOf_getElem?, if_pos hp] at h2; simpa using h2
  · rw [rank_bitsOf _ _ _ (Nat.le_of_lt hp)] at h3; exact h3



/-- the 44-bit absolute counter of a packed superblock word -/
def sbOf (w : Nat) : Nat := w >>> 84
/-- the 12-bit counter of block `b` (`1 ≤ b ≤ 7`) of a packed superblock word -/
def fld (w b : Nat) : Nat := (w >>> (12 * (b - 1))) % 4096

theorem b17 {b : Nat} (h1 : 1 ≤ b) (h7 : b ≤ 7) : b = 1 ∨ b = 2 ∨ b = 3 ∨ b = 4 ∨ b = 5 ∨ b = 6 ∨ b = 7 := by omega

theorem sbOf_init {c : Nat} (h : c < 2 ^ 44) : sbOf ((c <<< 84) % two128) = c := by
  unfold sbOf two128
  rw [Nat.shiftLeft_eq, Nat.shiftRight_eq_div_pow]
  omega

theorem fld_init {c b : Nat} (h1 : 1 ≤ b) (h7 : b ≤ 7) :
    fld ((c <<< 84) % two128) b = 0 := by
  unfold fld two128
  rw [Nat.shiftLeft_eq, Nat.shiftRight_eq_div_pow]
  rcases b17 h1 h7 with rfl | rfl | rfl | rfl | rfl | rfl | rfl <;> omega

theorem sbOf_or {w c b : Nat} (hc : c < 4096) (h1 : 1 ≤ b) (h7 : b ≤ 7) :
    sbOf (w ||| (c <<< ((b - 1) * 12))) = sbOf w := by
  unfold sbOf
  rw [Nat.shiftRight_or_distrib]
  have : (c <<< ((b - 1) * 12)) >>> 84 = 0 := by
    rw [Nat.shiftLeft_eq, Nat.shiftRight_eq_div_pow]
    rcases b17 h1 h7 with rfl | rfl | rfl | rfl | rfl | rfl | rfl <;> omega
  rw [this, Nat.or_zero]

theorem fld_shift {c b b' : Nat} (hc : c < 4096) (h1 : 1 ≤ b) (h7 : b ≤ 7) (h1' : 1 ≤ b') (h7' : b' ≤ 7) :
    fld (c <<< ((b - 1) * 12)) b' = if b' = b then c else 0 := by
  unfold fld
  rw [Nat.shiftLeft_eq, Nat.shiftRight_eq_div_pow]
  rcases b17 h1 h7 with rfl | rfl | rfl | rfl | rfl | rfl | rfl <;>
  rcases b17 h1' h7' with rfl | rfl | rfl | rfl | rfl | rfl | rfl <;>
  simp <;> omega

theorem fld_or {w c b b' : Nat} (hc : c < 4096) (h1 : 1 ≤ b) (h7 : b ≤ 7) (h1' : 1 ≤ b') (h7' : b' ≤ 7) :
    fld (w ||| (c <<< ((b - 1) * 12))) b' = if b' = b then fld w b ||| c else fld w b' := by
  have := fld_shift hc h1 h7 h1' h7'
  unfold fld at this ⊢
  rw [Nat.shiftRight_or_distrib, show (4096 : Nat) = 2 ^ 12 from rfl, Nat.or_mod_two_pow,
    ← show (4096 : Nat) = 2 ^ 12 from rfl, this]
  split
  · subst b'; rfl
  · rw [Nat.or_zero]


end Qwt.RSQP
