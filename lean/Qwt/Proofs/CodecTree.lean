import Qwt.Proofs.CodecLeaf

/-!
Property C11, structure level (composites): `Inventories`/`DArray`, `PrefetchSupport`, and the
three wavelet trees.  Same shape as for the leaves: `xTy`, `xOfVal`, `xWF`, `xVal_hasTy`,
`x_ofVal_toVal`.
-/
namespace Qwt.Codec
open Qwt

/-- a predicate lifted to `Option` (`none` is fine) -/
def optAll (p : α → Prop) : Option α → Prop
  | none => True
  | some a => p a

instance (p : α → Prop) [DecidablePred p] (o : Option α) : Decidable (optAll p o) := by
  cases o <;> unfold optAll <;> infer_instance

/-- an array (`Vec`/`Box<[T]>`) of well-formed elements, length a `u64` -/
def arrAll (p : α → Prop) (a : Array α) : Prop := a.size < 2 ^ 64 ∧ ∀ x ∈ a.toList, p x

instance (p : α → Prop) [DecidablePred p] (a : Array α) : Decidable (arrAll p a) := by
  unfold arrAll; infer_instance

theorem seq_hasTy (g : α → Val) (t : Ty) (p : α → Prop) (hp : ∀ x, p x → HasTy (g x) t)
    (a : Array α) (h : arrAll p a) : HasTy (.seq (a.toList.map g)) (.seq t) := by
  rw [hasTy_seq_map]
  exact ⟨fun x hx => hp x (h.2 x hx), by simpa using h.1⟩

theorem seq_ofVal (f : Val → Option α) (g : α → Val) (p : α → Prop)
    (hp : ∀ x, p x → f (g x) = some x) (a : Array α) (h : arrAll p a) :
    seqOf f (.seq (a.toList.map g)) = some a :=
  seqOf_map f g a (fun x hx => hp x (h.2 x hx))

theorem opt_hasTy (g : α → Val) (t : Ty) (p : α → Prop) (hp : ∀ x, p x → HasTy (g x) t)
    (o : Option α) (h : optAll p o) : HasTy (.opt (o.map g)) (.opt t) := by
  rw [hasTy_opt_map]
  rintro x rfl
  exact hp x h

theorem opt_ofVal (f : Val → Option α) (g : α → Val) (p : α → Prop)
    (hp : ∀ x, p x → f (g x) = some x) (o : Option α) (h : optAll p o) :
    optOf f (.opt (o.map g)) = some o :=
  optOf_map f g o (by rintro x rfl; exact hp x h)

/-! ### Inventories, DArray -/

def invTy : Ty :=
  .struct [("n_sets", u64Ty), ("block_inventory", .seq .i64),
           ("subblock_inventory", .seq (.num 2)), ("overflow_positions", .seq u64Ty)]

def invOfVal (v : Val) : Option DA.Inventories :=
  match fieldsOf ["n_sets", "block_inventory", "subblock_inventory", "overflow_positions"] v with
  | some [a, b, c, d] =>
    match numOf a, seqOf intOf b, seqOf numOf c, seqOf numOf d with
    | some nSets, some blockInventory, some subblockInventory, some overflowPositions =>
      some { nSets, blockInventory, subblockInventory, overflowPositions }
    | _, _, _, _ => none
  | _ => none

def invWF (i : DA.Inventories) : Prop :=
  i.nSets < 2 ^ 64 ∧
  arrAll (fun x : Int => -2 ^ 63 ≤ x ∧ x < 2 ^ 63) i.blockInventory ∧
  arrAll (· < 2 ^ 16) i.subblockInventory ∧
  arrAll (· < 2 ^ 64) i.overflowPositions

instance (i : DA.Inventories) : Decidable (invWF i) := by unfold invWF; infer_instance

theorem invVal_hasTy (i : DA.Inventories) (h : invWF i) : HasTy (invVal i) invTy := by
  obtain ⟨h1, h2, h3, h4⟩ := h
  simp only [invVal, invTy, HasTy, HasTyFields, true_and, and_true, u64, u64Ty]
  refine ⟨by simpa using h1, ?_, ?_, ?_⟩
  · exact seq_hasTy Val.i64 .i64 _ (fun x hx => by simpa [HasTy] using hx) _ h2
  · exact numSeq_hasTy u16v 2 (fun _ => rfl) _ h3.1 (by simpa using h3.2)
  · exact numSeq_hasTy (fun n => .num 8 n) 8 (fun _ => rfl) _ h4.1 (by simpa using h4.2)

theorem inv_ofVal_toVal (i : DA.Inventories) : invOfVal (invVal i) = some i := by
  simp [invOfVal, invVal, fieldsOf, numOf, u64,
    seqOf_map intOf Val.i64 i.blockInventory (fun _ _ => rfl),
    numSeq_ofVal u16v 2 (fun _ => rfl) i.subblockInventory,
    numSeq_ofVal u64 8 (fun _ => rfl) i.overflowPositions]

def daTy : Ty :=
  .struct [("bv", bvTy), ("ones_inventories", invTy), ("zeroes_inventories", .opt invTy)]

def daOfVal (v : Val) : Option DA.DArray :=
  match fieldsOf ["bv", "ones_inventories", "zeroes_inventories"] v with
  | some [a, b, c] =>
    match bvOfVal a, invOfVal b, optOf invOfVal c with
    | some bv, some ones, some zeroes => some { bv, ones, zeroes }
    | _, _, _ => none
  | _ => none

def daWF (d : DA.DArray) : Prop := bvWF d.bv ∧ invWF d.ones ∧ optAll invWF d.zeroes

instance (d : DA.DArray) : Decidable (daWF d) := by unfold daWF; infer_instance

theorem daVal_hasTy (d : DA.DArray) (h : daWF d) : HasTy (daVal d) daTy := by
  obtain ⟨h1, h2, h3⟩ := h
  simp only [daVal, daTy, HasTy, HasTyFields, true_and, and_true]
  exact ⟨bvVal_hasTy _ h1, invVal_hasTy _ h2, opt_hasTy invVal invTy _ invVal_hasTy _ h3⟩

theorem da_ofVal_toVal (d : DA.DArray) (h : daWF d) : daOfVal (daVal d) = some d := by
  simp [daOfVal, daVal, fieldsOf, bv_ofVal_toVal _ h.1, inv_ofVal_toVal,
    optOf_map invOfVal invVal d.zeroes (fun x _ => inv_ofVal_toVal x)]

/-! ### PrefetchSupport -/

def pfsTy : Ty := .struct [("samples", .seq rsnTy), ("sample_rate_shift", u64Ty)]

def pfsOfVal (v : Val) : Option PFS.PrefetchSupport :=
  match fieldsOf ["samples", "sample_rate_shift"] v with
  | some [a, b] =>
    match seqOf rsnOfVal a, numOf b with
    | some samples, some sampleRateShift => some { samples, sampleRateShift }
    | _, _ => none
  | _ => none

def pfsWF (p : PFS.PrefetchSupport) : Prop := arrAll rsnWF p.samples ∧ p.sampleRateShift < 2 ^ 64

instance (p : PFS.PrefetchSupport) : Decidable (pfsWF p) := by unfold pfsWF; infer_instance

theorem pfsVal_hasTy (p : PFS.PrefetchSupport) (h : pfsWF p) : HasTy (pfsVal p) pfsTy := by
  obtain ⟨h1, h2⟩ := h
  simp only [pfsVal, pfsTy, HasTy, HasTyFields, true_and, and_true, u64, u64Ty]
  exact ⟨seq_hasTy rsnVal rsnTy _ rsnVal_hasTy _ h1, by simpa using h2⟩

theorem pfs_ofVal_toVal (p : PFS.PrefetchSupport) (h : pfsWF p) :
    pfsOfVal (pfsVal p) = some p := by
  simp [pfsOfVal, pfsVal, fieldsOf, numOf, u64,
    seq_ofVal rsnOfVal rsnVal _ rsn_ofVal_toVal _ h.1]

def pfsOptTy : Ty := .opt (.seq pfsTy)

def pfsOptOfVal : Val → Option (Option (Array PFS.PrefetchSupport)) := optOf (seqOf pfsOfVal)

def pfsOptWF (p : Option (Array PFS.PrefetchSupport)) : Prop := optAll (arrAll pfsWF) p

instance (p : Option (Array PFS.PrefetchSupport)) : Decidable (pfsOptWF p) := by
  unfold pfsOptWF; infer_instance

theorem pfsOptVal_hasTy (p : Option (Array PFS.PrefetchSupport)) (h : pfsOptWF p) :
    HasTy (pfsOptVal p) pfsOptTy := by
  unfold pfsOptVal pfsOptTy
  exact opt_hasTy (fun a => Val.seq (a.toList.map pfsVal)) (.seq pfsTy) _
    (fun a ha => seq_hasTy pfsVal pfsTy _ pfsVal_hasTy a ha) p h

theorem pfsOpt_ofVal_toVal (p : Option (Array PFS.PrefetchSupport)) (h : pfsOptWF p) :
    pfsOptOfVal (pfsOptVal p) = some p := by
  unfold pfsOptVal pfsOptOfVal
  exact opt_ofVal (seqOf pfsOfVal) (fun a => Val.seq (a.toList.map pfsVal)) _
    (fun a ha => seq_ofVal pfsOfVal pfsVal _ pfs_ofVal_toVal a ha) p h

/-! ### QWT -/

def qwtTy (wbytes : Nat) : Ty :=
  .struct [("n", u64Ty), ("n_levels", u64Ty), ("sigma", .num wbytes), ("qvs", .seq rsqTy),
           ("prefetch_support", pfsOptTy)]

def qwtOfVal (v : Val) : Option QWTree.QWT :=
  match fieldsOf ["n", "n_levels", "sigma", "qvs", "prefetch_support"] v with
  | some [a, b, c, d, e] =>
    match numOf a, numOf b, numOf c, seqOf rsqOfVal d, pfsOptOfVal e with
    | some n, some nLevels, some sigma, some qvs, some pfs => some { n, nLevels, sigma, qvs, pfs }
    | _, _, _, _, _ => none
  | _ => none

/-- `wbytes` = `size_of::<T>()` of the symbol type -/
def qwtWF (wbytes : Nat) (t : QWTree.QWT) : Prop :=
  t.n < 2 ^ 64 ∧ t.nLevels < 2 ^ 64 ∧ t.sigma < 256 ^ wbytes ∧ arrAll rsqWF t.qvs ∧
    pfsOptWF t.pfs

instance (w : Nat) (t : QWTree.QWT) : Decidable (qwtWF w t) := by unfold qwtWF; infer_instance

theorem qwtVal_hasTy (w : Nat) (t : QWTree.QWT) (h : qwtWF w t) :
    HasTy (qwtVal w t) (qwtTy w) := by
  obtain ⟨h1, h2, h3, h4, h5⟩ := h
  simp only [qwtVal, qwtTy, HasTy, HasTyFields, true_and, and_true, u64, u64Ty]
  exact ⟨by simpa using h1, by simpa using h2, h3, seq_hasTy rsqVal rsqTy _ rsqVal_hasTy _ h4,
    pfsOptVal_hasTy _ h5⟩

theorem qwt_ofVal_toVal (w : Nat) (t : QWTree.QWT) (h : qwtWF w t) :
    qwtOfVal (qwtVal w t) = some t := by
  simp [qwtOfVal, qwtVal, fieldsOf, numOf, u64,
    seq_ofVal rsqOfVal rsqVal _ rsq_ofVal_toVal _ h.2.2.2.1, pfsOpt_ofVal_toVal _ h.2.2.2.2]

/-! ### Huffman code tables -/

def codeTy : Ty := .struct [("content", .num 4), ("len", .num 4)]

def codeOfVal (v : Val) : Option Huff.PrefixCode :=
  match fieldsOf ["content", "len"] v with
  | some [a, b] =>
    match numOf a, numOf b with
    | some content, some len => some { content, len }
    | _, _ => none
  | _ => none

def codeWF (c : Huff.PrefixCode) : Prop := c.content < 2 ^ 32 ∧ c.len < 2 ^ 32

instance (c : Huff.PrefixCode) : Decidable (codeWF c) := by unfold codeWF; infer_instance

theorem codeVal_hasTy (c : Huff.PrefixCode) (h : codeWF c) : HasTy (codeVal c) codeTy := by
  simp only [codeVal, codeTy, HasTy, HasTyFields, true_and, and_true, u32]
  exact ⟨by simpa using h.1, by simpa using h.2⟩

theorem code_ofVal_toVal (c : Huff.PrefixCode) : codeOfVal (codeVal c) = some c := by
  simp [codeOfVal, codeVal, fieldsOf, numOf, u32]

def pairTy (wbytes : Nat) : Ty := .tup [.num 4, .num wbytes]
def decTy (wbytes : Nat) : Ty := .seq (.seq (pairTy wbytes))

def pairVal (wbytes : Nat) (x : Nat × Nat) : Val := .tup [u32 x.1, .num wbytes x.2]

def pairOfVal : Val → Option (Nat × Nat)
  | .tup [a, b] =>
    (match numOf a, numOf b with
     | some x, some y => some (x, y)
     | _, _ => none)
  | _ => none

def pairWF (wbytes : Nat) (x : Nat × Nat) : Prop := x.1 < 2 ^ 32 ∧ x.2 < 256 ^ wbytes

instance (w : Nat) (x : Nat × Nat) : Decidable (pairWF w x) := by unfold pairWF; infer_instance

theorem pairVal_hasTy (w : Nat) (x : Nat × Nat) (h : pairWF w x) :
    HasTy (pairVal w x) (pairTy w) := by
  simp only [pairVal, pairTy, HasTy, HasTyList, true_and, and_true, u32]
  exact ⟨by simpa using h.1, h.2⟩

theorem pair_ofVal_toVal (w : Nat) (x : Nat × Nat) : pairOfVal (pairVal w x) = some x := by
  simp [pairOfVal, pairVal, numOf, u32]

def decOfVal : Val → Option (Array (Array (Nat × Nat))) := seqOf (seqOf pairOfVal)

def decWF (wbytes : Nat) (d : Array (Array (Nat × Nat))) : Prop :=
  arrAll (arrAll (pairWF wbytes)) d

instance (w : Nat) (d : Array (Array (Nat × Nat))) : Decidable (decWF w d) := by
  unfold decWF; infer_instance

theorem decVal_eq (w : Nat) (d : Array (Array (Nat × Nat))) :
    decVal w d = .seq (d.toList.map (fun tb => Val.seq (tb.toList.map (pairVal w)))) := rfl

theorem decVal_hasTy (w : Nat) (d : Array (Array (Nat × Nat))) (h : decWF w d) :
    HasTy (decVal w d) (decTy w) := by
  rw [decVal_eq]
  exact seq_hasTy _ (.seq (pairTy w)) _
    (fun tb htb => seq_hasTy (pairVal w) (pairTy w) _ (pairVal_hasTy w) tb htb) d h

theorem dec_ofVal_toVal (w : Nat) (d : Array (Array (Nat × Nat))) :
    decOfVal (decVal w d) = some d := by
  rw [decVal_eq]
  exact seqOf_map _ _ d (fun tb _ => seqOf_map pairOfVal (pairVal w) tb
    (fun x _ => pair_ofVal_toVal w x))

/-! ### HQWT -/

def hqwtTy (wbytes : Nat) : Ty :=
  .struct [("n", u64Ty), ("n_levels", u64Ty), ("codes_encode", .seq codeTy),
           ("codes_decode", decTy wbytes), ("qvs", .seq rsqTy), ("lens", .seq u64Ty),
           ("phantom_data", .unit), ("prefetch_support", pfsOptTy)]

def hqwtOfVal (v : Val) : Option Huff.HQWT :=
  match fieldsOf ["n", "n_levels", "codes_encode", "codes_decode", "qvs", "lens",
      "phantom_data", "prefetch_support"] v with
  | some [a, b, c, d, e, f, g, h] =>
    match numOf a, numOf b, seqOf codeOfVal c, decOfVal d, seqOf rsqOfVal e, seqOf numOf f,
      unitOf g, pfsOptOfVal h with
    | some n, some nLevels, some codesEncode, some codesDecode, some qvs, some lens, some _,
      some pfs => some { n, nLevels, codesEncode, codesDecode, qvs, lens, pfs }
    | _, _, _, _, _, _, _, _ => none
  | _ => none

def hqwtWF (wbytes : Nat) (t : Huff.HQWT) : Prop :=
  t.n < 2 ^ 64 ∧ t.nLevels < 2 ^ 64 ∧ arrAll codeWF t.codesEncode ∧ decWF wbytes t.codesDecode ∧
    arrAll rsqWF t.qvs ∧ arrAll (· < 2 ^ 64) t.lens ∧ pfsOptWF t.pfs

instance (w : Nat) (t : Huff.HQWT) : Decidable (hqwtWF w t) := by unfold hqwtWF; infer_instance

theorem hqwtVal_hasTy (w : Nat) (t : Huff.HQWT) (h : hqwtWF w t) :
    HasTy (hqwtVal w t) (hqwtTy w) := by
  obtain ⟨h1, h2, h3, h4, h5, h6, h7⟩ := h
  simp only [hqwtVal, hqwtTy, HasTy, HasTyFields, true_and, and_true, u64, u64Ty]
  exact ⟨by simpa using h1, by simpa using h2, seq_hasTy codeVal codeTy _ codeVal_hasTy _ h3,
    decVal_hasTy w _ h4, seq_hasTy rsqVal rsqTy _ rsqVal_hasTy _ h5,
    numSeq_hasTy (fun n => .num 8 n) 8 (fun _ => rfl) _ h6.1 (by simpa using h6.2),
    pfsOptVal_hasTy _ h7⟩

theorem hqwt_ofVal_toVal (w : Nat) (t : Huff.HQWT) (h : hqwtWF w t) :
    hqwtOfVal (hqwtVal w t) = some t := by
  simp [hqwtOfVal, hqwtVal, fieldsOf, numOf, unitOf, u64,
    seqOf_map codeOfVal codeVal t.codesEncode (fun c _ => code_ofVal_toVal c),
    dec_ofVal_toVal, seq_ofVal rsqOfVal rsqVal _ rsq_ofVal_toVal _ h.2.2.2.2.1,
    numSeq_ofVal u64 8 (fun _ => rfl) t.lens,
    pfsOpt_ofVal_toVal _ h.2.2.2.2.2.2]

/-! ### WT (binary wavelet tree, plain and Huffman shaped) -/

def wtTy (wbytes : Nat) : Ty :=
  .struct [("n", u64Ty), ("n_levels", u64Ty), ("sigma", .opt (.num wbytes)),
           ("codes_encode", .opt (.seq codeTy)), ("codes_decode", .opt (decTy wbytes)),
           ("bvs", .seq rswTy), ("lens", .seq u64Ty), ("phantom_data", .unit)]

def wtOfVal (v : Val) : Option BinWT.WT :=
  match fieldsOf ["n", "n_levels", "sigma", "codes_encode", "codes_decode", "bvs", "lens",
      "phantom_data"] v with
  | some [a, b, c, d, e, f, g, h] =>
    match numOf a, numOf b, optOf numOf c, optOf (seqOf codeOfVal) d, optOf decOfVal e,
      seqOf rswOfVal f, seqOf numOf g, unitOf h with
    | some n, some nLevels, some sigma, some codesEncode, some codesDecode, some bvs, some lens,
      some _ => some { n, nLevels, sigma, codesEncode, codesDecode, bvs, lens }
    | _, _, _, _, _, _, _, _ => none
  | _ => none

def wtWF (wbytes : Nat) (t : BinWT.WT) : Prop :=
  t.n < 2 ^ 64 ∧ t.nLevels < 2 ^ 64 ∧ optAll (· < 256 ^ wbytes) t.sigma ∧
    optAll (arrAll codeWF) t.codesEncode ∧ optAll (decWF wbytes) t.codesDecode ∧
    arrAll rswWF t.bvs ∧ arrAll (· < 2 ^ 64) t.lens

instance (w : Nat) (t : BinWT.WT) : Decidable (wtWF w t) := by unfold wtWF; infer_instance

theorem wtVal_hasTy (w : Nat) (t : BinWT.WT) (h : wtWF w t) : HasTy (wtVal w t) (wtTy w) := by
  obtain ⟨h1, h2, h3, h4, h5, h6, h7⟩ := h
  simp only [wtVal, wtTy, HasTy, HasTyFields, true_and, and_true, u64, u64Ty]
  refine ⟨by simpa using h1, by simpa using h2, ?_, ?_, ?_, ?_, ?_⟩
  · exact opt_hasTy (Val.num w) (.num w) _ (fun x hx => (hasTy_num w x).2 hx) _ h3
  · exact opt_hasTy (fun c => Val.seq (c.toList.map codeVal)) (.seq codeTy) _
      (fun c hc => seq_hasTy codeVal codeTy _ codeVal_hasTy c hc) _ h4
  · exact opt_hasTy (decVal w) (decTy w) _ (decVal_hasTy w) _ h5
  · exact seq_hasTy rswVal rswTy _ rswVal_hasTy _ h6
  · exact numSeq_hasTy (fun n => .num 8 n) 8 (fun _ => rfl) _ h7.1 (by simpa using h7.2)

theorem wt_ofVal_toVal (w : Nat) (t : BinWT.WT) (h : wtWF w t) :
    wtOfVal (wtVal w t) = some t := by
  simp [wtOfVal, wtVal, fieldsOf, numOf, unitOf, u64,
    optOf_map numOf (Val.num w) t.sigma (fun _ _ => rfl),
    optOf_map (seqOf codeOfVal) (fun c => Val.seq (c.toList.map codeVal)) t.codesEncode
      (fun c _ => seqOf_map codeOfVal codeVal c (fun c _ => code_ofVal_toVal c)),
    optOf_map decOfVal (decVal w) t.codesDecode (fun d _ => dec_ofVal_toVal w d),
    seq_ofVal rswOfVal rswVal _ rsw_ofVal_toVal _ h.2.2.2.2.2.1,
    numSeq_ofVal u64 8 (fun _ => rfl) t.lens]

end Qwt.Codec
