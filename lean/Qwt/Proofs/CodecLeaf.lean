import Qwt.Proofs.Codec

/-!
Property C11, structure level (leaves): for every serialisable leaf structure of the model a
schema `xTy`, an inverse `xOfVal` of `xVal`, a well-formedness predicate `xWF`, and
`xVal_hasTy`, `x_ofVal_toVal`.
-/
namespace Qwt.Codec
open Qwt

/-! ### Typing lemmas for the shapes produced by the `…Val` functions -/

/-- fixed array `[T; n]` -/
def Ty.arr (n : Nat) (t : Ty) : Ty := .tup (List.replicate n t)

abbrev u64Ty : Ty := .num 8

theorem hasTy_num (b n : Nat) : HasTy (.num b n) (.num b) ↔ n < 256 ^ b := by
  simp [HasTy]

theorem hasTyAll_map (f : α → Val) (t : Ty) (l : List α) :
    HasTyAll (l.map f) t ↔ ∀ x ∈ l, HasTy (f x) t := by
  induction l with
  | nil => simp [HasTyAll]
  | cons x xs ih => simp [HasTyAll, ih]

theorem hasTyList_replicate (t : Ty) : ∀ (n : Nat) (vs : List Val),
    HasTyList vs (List.replicate n t) ↔ vs.length = n ∧ HasTyAll vs t
  | 0, [] => by simp [HasTyList, HasTyAll]
  | 0, _ :: _ => by simp [HasTyList]
  | n + 1, [] => by simp [HasTyList, List.replicate_succ]
  | n + 1, v :: vs => by
    simp [HasTyList, HasTyAll, List.replicate_succ, hasTyList_replicate t n vs]
    constructor
    · rintro ⟨a, b, c⟩; exact ⟨b, a, c⟩
    · rintro ⟨a, b, c⟩; exact ⟨b, a, c⟩

theorem hasTy_seq_map (f : α → Val) (t : Ty) (l : List α) :
    HasTy (.seq (l.map f)) (.seq t) ↔ (∀ x ∈ l, HasTy (f x) t) ∧ l.length < 2 ^ 64 := by
  simp [HasTy, hasTyAll_map, lengthVals_eq]

theorem hasTy_arr_map (f : α → Val) (t : Ty) (n : Nat) (l : List α) :
    HasTy (.tup (l.map f)) (Ty.arr n t) ↔ l.length = n ∧ ∀ x ∈ l, HasTy (f x) t := by
  simp [HasTy, Ty.arr, hasTyList_replicate, hasTyAll_map]

theorem hasTy_opt_map (f : α → Val) (t : Ty) (o : Option α) :
    HasTy (.opt (o.map f)) (.opt t) ↔ ∀ x, o = some x → HasTy (f x) t := by
  cases o <;> simp [HasTy]

theorem array_getD_mem_or (a : Array Nat) (i : Nat) : a.getD i 0 ∈ a.toList ∨ a.getD i 0 = 0 := by
  by_cases h : i < a.size
  · left
    have : a.getD i 0 = a[i] := by simp [Array.getD, h]
    rw [this]; simp
  · right
    simp [Array.getD, h]

/-- `linesVal` with the name of the single field of the line struct as a parameter
    (`words` for the two `DataLine`s, `counters` for `SuperblockPlain`) -/
def linesValN (name : String) (wbytes k : Nat) (data : Array Nat) : Val :=
  .seq ((List.range (data.size / k)).map (fun l =>
    .struct [(name, .tup ((List.range k).map (fun w => .num wbytes (data.getD (k * l + w) 0))))]))

theorem linesVal_eq (wbytes k : Nat) (data : Array Nat) :
    linesVal wbytes k data = linesValN "words" wbytes k data := rfl

def lineTy (name : String) (wbytes k : Nat) : Ty := .struct [(name, Ty.arr k (.num wbytes))]
def linesTy (name : String) (wbytes k : Nat) : Ty := .seq (lineTy name wbytes k)

theorem linesValN_hasTy (name : String) (wbytes k : Nat) (data : Array Nat)
    (hb : ∀ x ∈ data.toList, x < 256 ^ wbytes)
    (hn : data.size / k < 2 ^ 64) :
    HasTy (linesValN name wbytes k data) (linesTy name wbytes k) := by
  unfold linesValN linesTy lineTy
  rw [hasTy_seq_map]
  refine ⟨?_, by simpa using hn⟩
  intro l _
  simp only [HasTy, HasTyFields, true_and, and_true]
  rw [hasTy_arr_map]
  refine ⟨by simp, ?_⟩
  intro w _
  rw [hasTy_num]
  rcases array_getD_mem_or data (k * l + w) with h | h
  · exact hb _ h
  · rw [h]; exact Nat.pow_pos (by decide)

/-! ### Inverse combinators -/

def mapOpt (f : Val → Option α) : List Val → Option (List α)
  | [] => some []
  | v :: vs =>
    match f v with
    | none => none
    | some x =>
      match mapOpt f vs with
      | none => none
      | some xs => some (x :: xs)

theorem mapOpt_map' (f : Val → Option β) (g : α → Val) (h : α → β) (l : List α)
    (hh : ∀ x ∈ l, f (g x) = some (h x)) : mapOpt f (l.map g) = some (l.map h) := by
  induction l with
  | nil => rfl
  | cons x xs ih =>
    simp only [List.map_cons, mapOpt, hh x (by simp), ih (fun y hy => hh y (by simp [hy]))]

theorem mapOpt_map (f : Val → Option α) (g : α → Val) (l : List α)
    (hh : ∀ x ∈ l, f (g x) = some x) : mapOpt f (l.map g) = some l := by
  simpa using mapOpt_map' f g id l hh

def numOf : Val → Option Nat
  | .num _ n => some n
  | _ => none

def intOf : Val → Option Int
  | .i64 i => some i
  | _ => none

def unitOf : Val → Option Unit
  | .unit => some ()
  | _ => none

/-- `Vec<T>` / `Box<[T]>` -/
def seqOf (f : Val → Option α) : Val → Option (Array α)
  | .seq vs => (mapOpt f vs).map List.toArray
  | _ => none

/-- `[T; n]` -/
def arrOf (n : Nat) (f : Val → Option α) : Val → Option (Array α)
  | .tup vs => if vs.length = n then (mapOpt f vs).map List.toArray else none
  | _ => none

def optOf (f : Val → Option α) : Val → Option (Option α)
  | .opt none => some none
  | .opt (some v) => (f v).map some
  | _ => none

/-- the field values of a struct whose field names are exactly `names` -/
def fieldsOf (names : List String) : Val → Option (List Val)
  | .struct fs => if fs.map (·.1) = names then some (fs.map (·.2)) else none
  | _ => none

theorem seqOf_map (f : Val → Option α) (g : α → Val) (a : Array α)
    (h : ∀ x ∈ a.toList, f (g x) = some x) : seqOf f (.seq (a.toList.map g)) = some a := by
  simp [seqOf, mapOpt_map f g _ h]

theorem arrOf_map (n : Nat) (f : Val → Option α) (g : α → Val) (a : Array α) (hn : a.size = n)
    (h : ∀ x ∈ a.toList, f (g x) = some x) : arrOf n f (.tup (a.toList.map g)) = some a := by
  simp [arrOf, mapOpt_map f g _ h, hn]

theorem optOf_map (f : Val → Option α) (g : α → Val) (o : Option α)
    (h : ∀ x, o = some x → f (g x) = some x) : optOf f (.opt (o.map g)) = some o := by
  cases o with
  | none => rfl
  | some x => simp [optOf, h x rfl]

/-! ### Lines: regrouping a flat word array -/

theorem range_map_getD_take (d : List Nat) (k : Nat) (hk : k ≤ d.length) :
    (List.range k).map (fun w => d.getD w 0) = d.take k := by
  apply List.ext_getElem
  · simp [Nat.min_eq_left hk]
  · intro i h1 h2
    simp at h1
    simp [List.getD, List.getElem?_eq_getElem (show i < d.length by omega)]

theorem chunks_flatten (k : Nat) : ∀ (n : Nat) (d : List Nat), d.length = k * n →
    ((List.range n).map (fun l => (List.range k).map (fun w => d.getD (k * l + w) 0))).flatten = d
  | 0, d, h => by
    have : d = [] := List.eq_nil_of_length_eq_zero (by simpa using h)
    simp [this]
  | n + 1, d, h => by
    have hk : k ≤ d.length := by rw [h, Nat.mul_succ]; omega
    have ih := chunks_flatten k n (d.drop k) (by simp [h, Nat.mul_succ])
    rw [List.range_succ_eq_map, List.map_cons, List.map_map, List.flatten_cons]
    have e1 : (List.range k).map (fun w => d.getD (k * 0 + w) 0) = d.take k := by
      simpa using range_map_getD_take d k hk
    have e2 : ((fun l => (List.range k).map (fun w => d.getD (k * l + w) 0)) ∘ Nat.succ) =
        (fun l => (List.range k).map (fun w => (d.drop k).getD (k * l + w) 0)) := by
      funext l
      simp only [Function.comp, List.getD, List.getElem?_drop, Nat.mul_succ]
      congr 1; funext w; congr 2; omega
    rw [e1, e2, ih, List.take_append_drop]

theorem array_getD_toList (a : Array Nat) (i : Nat) : a.getD i 0 = a.toList.getD i 0 := by
  by_cases h : i < a.size <;> simp [Array.getD, List.getD, h]

/-- one `DataLine { words: [_; k] }` -/
def lineOf (name : String) (k : Nat) (v : Val) : Option (List Nat) :=
  match fieldsOf [name] v with
  | some [w] => (arrOf k numOf w).map Array.toList
  | _ => none

/-- `Box<[DataLine]>` → flat word array -/
def linesOf (name : String) (k : Nat) : Val → Option (Array Nat)
  | .seq ls => (mapOpt (lineOf name k) ls).map (fun xs => xs.flatten.toArray)
  | _ => none

/-- regrouping is invertible exactly because the flat array consists of whole lines -/
theorem linesOf_linesValN (name : String) (wbytes k : Nat) (data : Array Nat)
    (h : data.size % k = 0) : linesOf name k (linesValN name wbytes k data) = some data := by
  unfold linesValN linesOf
  have hm := mapOpt_map' (lineOf name k)
    (fun l => Val.struct [(name, Val.tup ((List.range k).map
      (fun w => Val.num wbytes (data.getD (k * l + w) 0))))])
    (fun l => (List.range k).map (fun w => data.getD (k * l + w) 0))
    (List.range (data.size / k)) (by
      intro l _
      have := mapOpt_map' numOf (fun w => Val.num wbytes (data.getD (k * l + w) 0))
        (fun w => data.getD (k * l + w) 0) (List.range k)
        (by intro w _; rfl)
      simpa [lineOf, fieldsOf, arrOf] using this)
  simp only [hm, Option.map_some]
  have hs : data.toList.length = k * (data.size / k) := by
    have := Nat.div_add_mod data.size k
    simp only [Array.length_toList]; omega
  simp only [array_getD_toList]
  rw [chunks_flatten k _ _ hs]

/-! ### Arrays of numbers -/

theorem numSeq_hasTy (g : Nat → Val) (b : Nat) (hg : ∀ x, g x = .num b x) (a : Array Nat)
    (hn : a.size < 2 ^ 64) (hb : ∀ x ∈ a.toList, x < 256 ^ b) :
    HasTy (.seq (a.toList.map g)) (.seq (.num b)) := by
  rw [hasTy_seq_map]
  exact ⟨fun x hx => by rw [hg, hasTy_num]; exact hb x hx, by simpa using hn⟩

theorem numSeq_ofVal (g : Nat → Val) (b : Nat) (hg : ∀ x, g x = .num b x) (a : Array Nat) :
    seqOf numOf (.seq (a.toList.map g)) = some a :=
  seqOf_map numOf g a (fun x _ => by rw [hg]; rfl)

theorem numArr_hasTy (g : Nat → Val) (b n : Nat) (hg : ∀ x, g x = .num b x) (a : Array Nat)
    (hn : a.size = n) (hb : ∀ x ∈ a.toList, x < 256 ^ b) :
    HasTy (.tup (a.toList.map g)) (Ty.arr n (.num b)) := by
  rw [hasTy_arr_map]
  exact ⟨by simpa using hn, fun x hx => by rw [hg, hasTy_num]; exact hb x hx⟩

theorem numArr_ofVal (g : Nat → Val) (b n : Nat) (hg : ∀ x, g x = .num b x) (a : Array Nat)
    (hn : a.size = n) : arrOf n numOf (.tup (a.toList.map g)) = some a :=
  arrOf_map n numOf g a hn (fun x _ => by rw [hg]; rfl)

/-- `[Box<[uN]>; n]` (the select samples): `n` boxed slices of numbers below `bound` -/
def samplesWF (n bound : Nat) (a : Array (Array Nat)) : Prop :=
  a.size = n ∧ ∀ s ∈ a.toList, s.size < 2 ^ 64 ∧ ∀ x ∈ s.toList, x < bound

instance (n bound : Nat) (a : Array (Array Nat)) : Decidable (samplesWF n bound a) := by
  unfold samplesWF; infer_instance

theorem samples_hasTy (g : Nat → Val) (b n : Nat) (hg : ∀ x, g x = .num b x)
    (a : Array (Array Nat)) (h : samplesWF n (256 ^ b) a) :
    HasTy (.tup (a.toList.map (fun s => Val.seq (s.toList.map g)))) (Ty.arr n (.seq (.num b))) := by
  rw [hasTy_arr_map]
  exact ⟨by simpa using h.1, fun s hs => numSeq_hasTy g b hg s (h.2 s hs).1 (h.2 s hs).2⟩

theorem samples_ofVal (g : Nat → Val) (b n : Nat) (hg : ∀ x, g x = .num b x)
    (a : Array (Array Nat)) (hn : a.size = n) :
    arrOf n (seqOf numOf) (.tup (a.toList.map (fun s => Val.seq (s.toList.map g)))) = some a :=
  arrOf_map n (seqOf numOf) _ a hn (fun s _ => numSeq_ofVal g b hg s)

/-! ### QVector -/

def qvTy : Ty := .struct [("data", linesTy "words" 16 4), ("position", u64Ty)]

def qvOfVal (v : Val) : Option QV.QVector :=
  match fieldsOf ["data", "position"] v with
  | some [d, p] =>
    match linesOf "words" 4 d, numOf p with
    | some data, some position => some { data, position }
    | _, _ => none
  | _ => none

/-- the part of the representation invariant of `QVector` the codec needs: whole lines of
    four `u128` words, `usize` position -/
def qvWF (q : QV.QVector) : Prop :=
  q.data.size % 4 = 0 ∧ q.data.size / 4 < 2 ^ 64 ∧ (∀ x ∈ q.data.toList, x < 2 ^ 128) ∧
    q.position < 2 ^ 64

instance (q : QV.QVector) : Decidable (qvWF q) := by unfold qvWF; infer_instance

theorem qvVal_hasTy (q : QV.QVector) (h : qvWF q) : HasTy (qvVal q) qvTy := by
  obtain ⟨_, h2, h3, h4⟩ := h
  simp only [qvVal, qvTy, HasTy, HasTyFields, true_and, and_true, u64, u64Ty, linesVal_eq]
  exact ⟨linesValN_hasTy _ 16 4 _ (by simpa using h3) h2, by simpa using h4⟩

theorem qv_ofVal_toVal (q : QV.QVector) (h : qvWF q) : qvOfVal (qvVal q) = some q := by
  simp [qvOfVal, qvVal, fieldsOf, linesVal_eq, linesOf_linesValN _ 16 4 q.data h.1, numOf, u64]

/-! ### BitVector -/

def bvTy : Ty := .struct [("data", linesTy "words" 8 8), ("n_bits", u64Ty), ("n_ones", u64Ty)]

def bvOfVal (v : Val) : Option BV.BitVector :=
  match fieldsOf ["data", "n_bits", "n_ones"] v with
  | some [d, a, b] =>
    match linesOf "words" 8 d, numOf a, numOf b with
    | some data, some nBits, some nOnes => some { data, nBits, nOnes }
    | _, _, _ => none
  | _ => none

/-- whole lines of eight `u64` words, `usize` counters -/
def bvWF (b : BV.BitVector) : Prop :=
  b.data.size % 8 = 0 ∧ b.data.size / 8 < 2 ^ 64 ∧ (∀ x ∈ b.data.toList, x < 2 ^ 64) ∧
    b.nBits < 2 ^ 64 ∧ b.nOnes < 2 ^ 64

instance (b : BV.BitVector) : Decidable (bvWF b) := by unfold bvWF; infer_instance

theorem bvVal_hasTy (b : BV.BitVector) (h : bvWF b) : HasTy (bvVal b) bvTy := by
  obtain ⟨_, h2, h3, h4, h5⟩ := h
  simp only [bvVal, bvTy, HasTy, HasTyFields, true_and, and_true, u64, u64Ty, linesVal_eq]
  exact ⟨linesValN_hasTy _ 8 8 _ (by simpa using h3) h2, by simpa using h4, by simpa using h5⟩

theorem bv_ofVal_toVal (b : BV.BitVector) (h : bvWF b) : bvOfVal (bvVal b) = some b := by
  simp [bvOfVal, bvVal, fieldsOf, linesVal_eq, linesOf_linesValN _ 8 8 b.data h.1, numOf, u64]

/-! ### RSSupportPlain and RSQVector -/

def rssTy : Ty :=
  .struct [("superblocks", linesTy "counters" 16 4),
           ("select_samples", Ty.arr 4 (.seq (.num 4)))]

def rssOfVal (v : Val) : Option RSQ.RSSupportPlain :=
  match fieldsOf ["superblocks", "select_samples"] v with
  | some [s, t] =>
    match linesOf "counters" 4 s, arrOf 4 (seqOf numOf) t with
    | some superblocks, some selectSamples => some { superblocks, selectSamples }
    | _, _ => none
  | _ => none

/-- whole superblocks of four `u128` counters; four boxed slices of `u32` samples -/
def rssWF (rs : RSQ.RSSupportPlain) : Prop :=
  rs.superblocks.size % 4 = 0 ∧ rs.superblocks.size / 4 < 2 ^ 64 ∧
    (∀ x ∈ rs.superblocks.toList, x < 2 ^ 128) ∧ samplesWF 4 (2 ^ 32) rs.selectSamples

instance (rs : RSQ.RSSupportPlain) : Decidable (rssWF rs) := by unfold rssWF; infer_instance

theorem rsSupportVal_eq (rs : RSQ.RSSupportPlain) : rsSupportVal rs =
    .struct [("superblocks", linesValN "counters" 16 4 rs.superblocks),
             ("select_samples", .tup (rs.selectSamples.toList.map
                (fun s => Val.seq (s.toList.map u32))))] := rfl

theorem rssVal_hasTy (rs : RSQ.RSSupportPlain) (h : rssWF rs) :
    HasTy (rsSupportVal rs) rssTy := by
  obtain ⟨_, h2, h3, h4⟩ := h
  simp only [rsSupportVal_eq, rssTy, HasTy, HasTyFields, true_and, and_true]
  exact ⟨linesValN_hasTy _ 16 4 _ (by simpa using h3) h2,
    samples_hasTy u32 4 4 (fun _ => rfl) _ (by simpa using h4)⟩

theorem rss_ofVal_toVal (rs : RSQ.RSSupportPlain) (h : rssWF rs) :
    rssOfVal (rsSupportVal rs) = some rs := by
  simp [rssOfVal, rsSupportVal_eq, fieldsOf, linesOf_linesValN _ 16 4 rs.superblocks h.1,
    samples_ofVal u32 4 4 (fun _ => rfl) rs.selectSamples h.2.2.2.1]

def rsqTy : Ty :=
  .struct [("qv", qvTy), ("rs_support", rssTy), ("n_occs_smaller", Ty.arr 5 u64Ty)]

def rsqOfVal (v : Val) : Option RSQ.RSQVector :=
  match fieldsOf ["qv", "rs_support", "n_occs_smaller"] v with
  | some [a, b, c] =>
    match qvOfVal a, rssOfVal b, arrOf 5 numOf c with
    | some qv, some rs, some nOccsSmaller => some { qv, rs, nOccsSmaller }
    | _, _, _ => none
  | _ => none

def rsqWF (r : RSQ.RSQVector) : Prop :=
  qvWF r.qv ∧ rssWF r.rs ∧ r.nOccsSmaller.size = 5 ∧ ∀ x ∈ r.nOccsSmaller.toList, x < 2 ^ 64

instance (r : RSQ.RSQVector) : Decidable (rsqWF r) := by unfold rsqWF; infer_instance

theorem rsqVal_hasTy (r : RSQ.RSQVector) (h : rsqWF r) : HasTy (rsqVal r) rsqTy := by
  obtain ⟨h1, h2, h3, h4⟩ := h
  simp only [rsqVal, rsqTy, HasTy, HasTyFields, true_and, and_true]
  exact ⟨qvVal_hasTy _ h1, rssVal_hasTy _ h2,
    numArr_hasTy u64 8 5 (fun _ => rfl) _ h3 (by simpa using h4)⟩

theorem rsq_ofVal_toVal (r : RSQ.RSQVector) (h : rsqWF r) : rsqOfVal (rsqVal r) = some r := by
  simp [rsqOfVal, rsqVal, fieldsOf, qv_ofVal_toVal _ h.1, rss_ofVal_toVal _ h.2.1,
    numArr_ofVal u64 8 5 (fun _ => rfl) r.nOccsSmaller h.2.2.1]

/-! ### RSNarrow -/

def rsnTy : Ty :=
  .struct [("bv", bvTy), ("block_rank_pairs", .seq u64Ty),
           ("select_samples", Ty.arr 2 (.seq u64Ty))]

def rsnOfVal (v : Val) : Option RSN.RSNarrow :=
  match fieldsOf ["bv", "block_rank_pairs", "select_samples"] v with
  | some [a, b, c] =>
    match bvOfVal a, seqOf numOf b, arrOf 2 (seqOf numOf) c with
    | some bv, some blockRankPairs, some selectSamples =>
      some { bv, blockRankPairs, selectSamples }
    | _, _, _ => none
  | _ => none

def rsnWF (r : RSN.RSNarrow) : Prop :=
  bvWF r.bv ∧ r.blockRankPairs.size < 2 ^ 64 ∧ (∀ x ∈ r.blockRankPairs.toList, x < 2 ^ 64) ∧
    samplesWF 2 (2 ^ 64) r.selectSamples

instance (r : RSN.RSNarrow) : Decidable (rsnWF r) := by unfold rsnWF; infer_instance

theorem rsnVal_hasTy (r : RSN.RSNarrow) (h : rsnWF r) : HasTy (rsnVal r) rsnTy := by
  obtain ⟨h1, h2, h3, h4⟩ := h
  simp only [rsnVal, rsnTy, HasTy, HasTyFields, true_and, and_true]
  exact ⟨bvVal_hasTy _ h1, numSeq_hasTy u64 8 (fun _ => rfl) _ h2 (by simpa using h3),
    samples_hasTy u64 8 2 (fun _ => rfl) _ (by simpa using h4)⟩

theorem rsn_ofVal_toVal (r : RSN.RSNarrow) (h : rsnWF r) : rsnOfVal (rsnVal r) = some r := by
  simp [rsnOfVal, rsnVal, fieldsOf, bv_ofVal_toVal _ h.1,
    numSeq_ofVal u64 8 (fun _ => rfl) r.blockRankPairs,
    samples_ofVal u64 8 2 (fun _ => rfl) r.selectSamples h.2.2.2.1]

/-! ### RSWide -/

def rswTy : Ty :=
  .struct [("bv", bvTy), ("superblock_metadata", .seq (.num 16)),
           ("select_samples", Ty.arr 2 (.seq u64Ty)), ("n_zeros", u64Ty)]

def rswOfVal (v : Val) : Option RSW.RSWide :=
  match fieldsOf ["bv", "superblock_metadata", "select_samples", "n_zeros"] v with
  | some [a, b, c, d] =>
    match bvOfVal a, seqOf numOf b, arrOf 2 (seqOf numOf) c, numOf d with
    | some bv, some superblockMetadata, some selectSamples, some nZeros =>
      some { bv, superblockMetadata, selectSamples, nZeros }
    | _, _, _, _ => none
  | _ => none

def rswWF (r : RSW.RSWide) : Prop :=
  bvWF r.bv ∧ r.superblockMetadata.size < 2 ^ 64 ∧
    (∀ x ∈ r.superblockMetadata.toList, x < 2 ^ 128) ∧
    samplesWF 2 (2 ^ 64) r.selectSamples ∧ r.nZeros < 2 ^ 64

instance (r : RSW.RSWide) : Decidable (rswWF r) := by unfold rswWF; infer_instance

theorem rswVal_hasTy (r : RSW.RSWide) (h : rswWF r) : HasTy (rswVal r) rswTy := by
  obtain ⟨h1, h2, h3, h4, h5⟩ := h
  simp only [rswVal, rswTy, HasTy, HasTyFields, true_and, and_true, u64]
  exact ⟨bvVal_hasTy _ h1, numSeq_hasTy u128v 16 (fun _ => rfl) _ h2 (by simpa using h3),
    samples_hasTy (fun n => .num 8 n) 8 2 (fun _ => rfl) _ (by simpa using h4), by simpa using h5⟩

theorem rsw_ofVal_toVal (r : RSW.RSWide) (h : rswWF r) : rswOfVal (rswVal r) = some r := by
  simp [rswOfVal, rswVal, fieldsOf, bv_ofVal_toVal _ h.1,
    numSeq_ofVal u128v 16 (fun _ => rfl) r.superblockMetadata,
    samples_ofVal u64 8 2 (fun _ => rfl) r.selectSamples h.2.2.2.1.1, numOf, u64]

end Qwt.Codec
