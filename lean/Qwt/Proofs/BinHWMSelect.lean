import Qwt.Proofs.BinHWM

/-!
Pure list-level Huffman-shaped binary wavelet matrix, continued: `select` (upward pass) and
`get` (following an element down to the level where its code ends).  Core Lean only.
-/
set_option linter.unusedSimpArgs false

namespace Qwt.BinWM
open Qwt

variable {α : Type}

/-! ## one level: selection relative to a block -/

theorem take_block_start (A B C : List α) : (A ++ B ++ C).take A.length = A := by
  simp [List.append_assoc]

theorem take_block (A B C : List α) (j : Nat) (hj : j ≤ B.length) :
    (A ++ B ++ C).take (A.length + j) = A ++ B.take j := by
  rw [List.append_assoc, List.take_length_add_append, List.take_append_of_le_length hj]

theorem sel_in_block (p : α → Bool) (v : Bool) (A B C : List α) (res : Nat)
    (hres : res < (B.filter (fun x => p x == v)).length) :
    ∃ j, Spec.select v (Spec.rank v A.length ((A ++ B ++ C).map p) + res) ((A ++ B ++ C).map p)
            = some (A.length + j) ∧
      Spec.select v res (B.map p) = some j := by
  have hc : res < (B.map p).count v := by
    rw [count_map, List.countP_eq_length_filter]; exact hres
  obtain ⟨j, hj⟩ := select_isSome hc
  refine ⟨j, ?_, hj⟩
  obtain ⟨hjl, hjget, hjrank⟩ := select_some hj
  rw [List.length_map] at hjl
  rw [select_eq_some_iff]
  refine ⟨?_, ?_⟩
  · rw [List.map_append, List.map_append, List.append_assoc,
      List.getElem?_append_right (by simp), List.length_map, Nat.add_sub_cancel_left,
      List.getElem?_append_left (by simpa using hjl)]
    exact hjget
  · rw [rank_map, rank_map, take_block_start, take_block _ _ _ _ (Nat.le_of_lt hjl),
      List.countP_append, ← rank_map, hjrank]

theorem sel_out_block (p : α → Bool) (v : Bool) (A B C : List α) (res q : Nat)
    (hres : (B.filter (fun x => p x == v)).length ≤ res)
    (h : Spec.select v (Spec.rank v A.length ((A ++ B ++ C).map p) + res) ((A ++ B ++ C).map p)
            = some q) :
    A.length + B.length ≤ q ∧ q < (A ++ B ++ C).length := by
  obtain ⟨hql, hqget, hqrank⟩ := select_some h
  rw [List.length_map] at hql
  refine ⟨?_, hql⟩
  apply Classical.byContradiction
  intro hlt
  have hlt : q + 1 ≤ A.length + B.length := by omega
  have hmono := rank_mono v ((A ++ B ++ C).map p) hlt
  rw [rank_succ_of_get hqget, hqrank] at hmono
  have hend : Spec.rank v (A.length + B.length) ((A ++ B ++ C).map p)
      = Spec.rank v A.length ((A ++ B ++ C).map p) + (B.filter (fun x => p x == v)).length := by
    rw [rank_map, rank_map, take_block_start, take_block _ _ _ _ (Nat.le_refl _), List.take_length,
      List.countP_append, List.countP_eq_length_filter (l := B)]
  omega

/-! ## select -/

def selUpH (β : Nat → α → Bool) (len : α → Nat) (c : α) (S : List α) : Nat → Nat → Option Nat
  | 0, res => some res
  | k + 1, res =>
    match Spec.select (β k c)
        (Spec.rank (β k c) (blkStartH β len c S k) (bitsH β len k S) + res) (bitsH β len k S) with
    | none => none
    | some q => selUpH β len c S k (q - blkStartH β len c S k)

theorem count_map_true (q : α → Bool) (S : List α) :
    (S.map q).count true = (S.filter q).length := by
  rw [count_map]
  have e : (fun x => q x == true) = q := by funext y; cases q y <;> rfl
  rw [e, List.countP_eq_length_filter]

theorem filter_agP_bit (β : Nat → α → Bool) (len : α → Nat) (c : α) (k : Nat) (S : List α) :
    (S.filter (agP β len c k)).filter (fun x => β k x == β k c) = S.filter (agR β len c (k + 1)) := by
  rw [List.filter_filter]
  congr 1; funext x; rw [Bool.and_comm, agP_and_bit]

theorem filter_agR_eq {β : Nat → α → Bool} {len : α → Nat} {S : List α} (h : HOK β len S)
    {c : α} (hc : c ∈ S) {k : Nat} (hk : k < len c) :
    S.filter (agR β len c k) = S.filter (agP β len c k) :=
  List.filter_congr (fun _ hx => agR_eq_agP h hc hk hx)

theorem selUpH_spec {β : Nat → α → Bool} {len : α → Nat} {S : List α} (h : HOK β len S)
    {c : α} (hc : c ∈ S) (k res : Nat) (hk : k ≤ len c) (h0 : k = 0 → res < S.length) :
    selUpH β len c S k res = Spec.select true res (S.map (agR β len c k)) := by
  induction k generalizing res with
  | zero =>
    have hres := h0 rfl
    rw [selUpH]
    symm
    rw [select_eq_some_iff]
    have : agR β len c 0 = fun _ => true := by funext x; simp [agR, agree_zero]
    refine ⟨?_, ?_⟩
    · rw [List.getElem?_map, List.getElem?_eq_getElem hres]; simp [this]
    · rw [rank_map, this]
      simp; omega
  | succ k ih =>
    have hk' : k < len c := by omega
    obtain ⟨A, C, h1, h2⟩ := blkH h hc k hk'
    rw [selUpH, bitsH, h1, ← h2]
    by_cases hres : res < (S.filter (agR β len c (k + 1))).length
    · obtain ⟨j, hj1, hj2⟩ := sel_in_block (β k) (β k c) A (S.filter (agP β len c k)) C res
        (by rw [filter_agP_bit]; exact hres)
      rw [hj1]
      simp only [Nat.add_sub_cancel_left]
      have hjl : j < (S.filter (agP β len c k)).length := by
        have := (select_some hj2).1; simpa using this
      have hjS : j < S.length := Nat.lt_of_lt_of_le hjl (List.length_filter_le _ _)
      rw [ih j (by omega) (fun _ => hjS)]
      have := select_comp (agP β len c k) (β k) (β k c) S res j hj2
      have e1 : S.map (agR β len c k) = S.map (agP β len c k) :=
        List.map_congr_left (fun _ hx => agR_eq_agP h hc hk' hx)
      rw [e1, ← this]
      congr 2; funext x; rw [agP_and_bit]
    · have hres : (S.filter (agR β len c (k + 1))).length ≤ res := by omega
      have hnone : Spec.select true res (S.map (agR β len c (k + 1))) = none :=
        select_none (by rw [count_map_true]; exact hres)
      rw [hnone]
      cases hq : Spec.select (β k c)
          (Spec.rank (β k c) A.length ((A ++ S.filter (agP β len c k) ++ C).map (β k)) + res)
          ((A ++ S.filter (agP β len c k) ++ C).map (β k)) with
      | none => rfl
      | some q =>
        simp only
        obtain ⟨hq1, hq2⟩ := sel_out_block (β k) (β k c) A _ C res q
          (by rw [filter_agP_bit]; exact hres) hq
        cases k with
        | zero =>
          exfalso
          rw [← h1] at hq2
          simp only [lvlH] at hq2
          have : S.filter (agP β len c 0) = S := by
            apply List.filter_eq_self.mpr
            intro x hx; simp [agP, agree_zero, h.pos x hx]
          rw [this] at hq1
          omega
        | succ k =>
          rw [ih _ (by omega) (by intro h; cases h)]
          exact select_none (by rw [count_map_true, filter_agR_eq h hc hk']; omega)

/-! ## get -/

theorem pairwise_split (q : α → Bool) (V : List α)
    (hp : V.Pairwise (fun a b => q b = true → q a = true)) :
    V = V.filter q ++ V.filter (fun x => !q x) := by
  induction V with
  | nil => rfl
  | cons a V ih =>
    rw [List.pairwise_cons] at hp
    have ih' := ih hp.2
    cases ha : q a
    · have hnone : V.filter q = [] := by
        apply List.filter_eq_nil_iff.mpr
        intro b hb hqb
        have := hp.1 b hb hqb
        rw [ha] at this; cases this
      have hall : V.filter (fun x => !q x) = V := by
        apply List.filter_eq_self.mpr
        intro b hb
        have : V.filter q = [] := hnone
        have hqb : ¬ q b = true := List.filter_eq_nil_iff.mp hnone b hb
        simp [hqb]
      simp [List.filter_cons, ha, hnone, hall]
    · simp only [List.filter_cons, ha, if_true, Bool.not_true, Bool.false_eq_true, if_false,
        List.cons_append]
      rw [← ih']

/-- in a list whose `q`-elements come first, a `q`-element keeps its position in the
    filtered list and a non-`q`-element sits beyond it -/
theorem pre_get (q : α → Bool) (V : List α)
    (hp : V.Pairwise (fun a b => q b = true → q a = true)) (p : Nat) (x : α)
    (hx : V[p]? = some x) :
    (q x = true → (V.filter q)[p]? = some x) ∧ (q x = false → (V.filter q).length ≤ p) := by
  have hs := pairwise_split q V hp
  generalize hF : V.filter q = F at hs ⊢
  generalize hG : V.filter (fun x => !q x) = G at hs
  have hFq : ∀ a ∈ F, q a = true := by
    intro a ha; rw [← hF] at ha; exact (List.mem_filter.mp ha).2
  have hGq : ∀ a ∈ G, q a = false := by
    intro a ha; rw [← hG] at ha; simpa using (List.mem_filter.mp ha).2
  rw [hs] at hx
  by_cases hpF : p < F.length
  · rw [List.getElem?_append_left hpF] at hx
    refine ⟨fun _ => hx, fun hq => ?_⟩
    have := hFq x (List.mem_of_getElem? hx)
    rw [hq] at this; cases this
  · rw [List.getElem?_append_right (by omega)] at hx
    refine ⟨fun hq => ?_, fun _ => by omega⟩
    have := hGq x (List.mem_of_getElem? hx)
    rw [hq] at this; cases this

/-- position at level `k` of the element `x` that sits at position `j` of `S` -/
def trackH (β : Nat → α → Bool) (len : α → Nat) (S : List α) (x : α) (j : Nat) : Nat → Nat
  | 0 => j
  | k + 1 => mapPos (β k x) (bitsH β len k S) (trackH β len S x j k)

theorem hok_pre' {β : Nat → α → Bool} {len : α → Nat} {S : List α} (h : HOK β len S) (k : Nat) :
    (part (β k) (lvlH β len k S)).Pairwise
      (fun a b => decide (k + 1 < len b) = true → decide (k + 1 < len a) = true) := by
  apply (h.pre k).imp
  intro a b hab; simpa using hab

theorem track_getH {β : Nat → α → Bool} {len : α → Nat} {S : List α} (h : HOK β len S)
    (x : α) (j : Nat) (hj : S[j]? = some x) (k : Nat) (hk : k < len x) :
    (lvlH β len k S)[trackH β len S x j k]? = some x := by
  induction k with
  | zero => exact hj
  | succ k ih =>
    have := part_getElem (β k) _ _ x (ih (by omega))
    rw [lvlH, trackH, bitsH]
    exact (pre_get _ _ (hok_pre' h k) _ x this).1 (by simpa using hk)

/-- one level after its last bit the element is beyond the live part -/
theorem track_endH {β : Nat → α → Bool} {len : α → Nat} {S : List α} (h : HOK β len S)
    (x : α) (j : Nat) (hj : S[j]? = some x) (k : Nat) (hk : k + 1 = len x) :
    (lvlH β len (k + 1) S).length ≤ trackH β len S x j (k + 1) := by
  have := part_getElem (β k) _ _ x (track_getH h x j hj k (by omega))
  rw [lvlH, trackH, bitsH]
  exact (pre_get _ _ (hok_pre' h k) _ x this).2 (by simp; omega)

theorem track_ltH {β : Nat → α → Bool} {len : α → Nat} {S : List α} (h : HOK β len S)
    (x : α) (j : Nat) (hj : S[j]? = some x) (k : Nat) (hk : k < len x) :
    trackH β len S x j k < (lvlH β len k S).length :=
  (List.getElem?_eq_some_iff.mp (track_getH h x j hj k hk)).1

theorem bitsH_track {β : Nat → α → Bool} {len : α → Nat} {S : List α} (h : HOK β len S)
    (x : α) (j : Nat) (hj : S[j]? = some x) (k : Nat) (hk : k < len x) :
    (bitsH β len k S)[trackH β len S x j k]? = some (β k x) := by
  rw [bitsH, List.getElem?_map, track_getH h x j hj k hk]; rfl

end Qwt.BinWM
