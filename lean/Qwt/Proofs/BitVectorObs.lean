import Qwt.Proofs.BitVectorOps

/-!
C08 — helper lemmas, part 3: the observers and equality.
-/
set_option linter.unusedSimpArgs false
namespace Qwt.BV
open Qwt

theorem ofBits_testBit (l : List Bool) : ∀ k, (Spec.ofBits l).testBit k = l.getD k false := by
  induction l with
  | nil => intro k; simp [Spec.ofBits]
  | cons a l ih =>
    intro k
    cases k with
    | zero =>
      rw [Nat.testBit_zero, Spec.ofBits]
      cases a <;> simp <;> omega
    | succ k =>
      rw [Nat.testBit_succ, Spec.ofBits]
      have : ((if a = true then 1 else 0) + 2 * Spec.ofBits l) / 2 = Spec.ofBits l := by
        cases a <;> simp <;> omega
      rw [this, ih]; simp

/-- the value of a bit list is characterised by its bits -/
theorem eq_ofBits_of_testBit (v : Nat) (l : List Bool) (h : ∀ k, v.testBit k = l.getD k false) :
    v = Spec.ofBits l := by
  apply Nat.eq_of_testBit_eq
  intro k; rw [h, ofBits_testBit]

theorem abs_slice_getD (b : BitVector) (i len k : Nat) (h : i + len ≤ b.nBits) :
    (((abs b).drop i).take len).getD k false = (decide (k < len) && bitAt b (i + k)) := by
  rw [List.getD_eq_getElem?_getD, List.getElem?_take]
  by_cases hk : k < len
  · rw [if_pos hk, List.getElem?_drop, abs_getElem?, if_pos (by omega)]
    simp [hk]
  · simp [hk]

/-! ### get, len, counts -/

theorem get_ok (b : BitVector) (hb : Inv b) (i : Nat) : get b i = .ok (abs b)[i]? := by
  unfold get
  rw [abs_getElem?]
  by_cases h : i < b.nBits
  · have : ¬ i ≥ b.nBits := by omega
    rw [if_neg this, if_pos h, getUnchecked_ok hb h]; rfl
  · have : i ≥ b.nBits := by omega
    rw [if_pos this, if_neg h]; rfl

theorem len_ok (b : BitVector) : len b = (abs b).length := by simp [len]

theorem countOnes_ok (b : BitVector) (hb : Inv b) : countOnes b = (abs b).count true := hb.ones

theorem countZeros_ok (b : BitVector) (hb : Inv b) : countZeros b = .ok ((abs b).count false) := by
  unfold countZeros
  have h := count_true_add_false (abs b)
  rw [abs_length, ← hb.ones] at h
  have : b.nOnes ≤ b.nBits := by omega
  simp only [sub, this, if_true]
  congr 1; omega

/-! ### multi-bit reads -/

theorem mask_ok {α} (len : Nat) (h1 : len ≤ 64) (k : Nat → M α) :
    (if (len == 64) = true then (pure mask64 : M Nat) >>= k else do
      let s ← shl64 1 len
      let m ← sub s 1
      k m) = k (2 ^ len - 1) := by
  by_cases h : len = 64
  · subst h; rfl
  · have : ¬ (len == 64) = true := by simp [h]
    rw [if_neg this]
    have hlt : len < 64 := by omega
    have hp : 2 ^ len < 2 ^ 64 := Nat.pow_lt_pow_right (by decide) hlt
    unfold shl64
    rw [if_pos hlt, bind_ok, Nat.one_shiftLeft, two64_eq, Nat.mod_eq_of_lt hp]
    have : 1 ≤ 2 ^ len := Nat.two_pow_pos len
    simp only [sub, this, if_true, bind_ok]

theorem getBitsSlice_spec (d : Array Nat) (i len : Nat) (h1 : 1 ≤ len) (h2 : len ≤ 64)
    (hr : (i + len - 1) / 64 < d.size) (hw : ∀ j, wordAt d j < 2 ^ 64) :
    ∃ v, getBitsSlice d i len = .ok v ∧ ∀ k, v.testBit k = (decide (k < len) && bitD d (i + k)) := by
  unfold getBitsSlice
  dsimp only
  rw [mask_ok len h2, shr6, and63]
  have hb0 : i / 64 < d.size := by omega
  by_cases hs : i % 64 + len ≤ 64
  · rw [if_pos hs, idx_ok' hb0, bind_ok]
    refine ⟨_, rfl, ?_⟩
    intro k
    rw [Nat.testBit_and, Nat.testBit_two_pow_sub_one, Nat.testBit_shiftRight, Bool.and_comm]
    by_cases hk : k < len
    · have e1 : (i + k) / 64 = i / 64 := by omega
      have e2 : (i + k) % 64 = i % 64 + k := by omega
      simp only [hk, decide_true, Bool.true_and, bitD, e1, e2]
    · simp [hk]
  · rw [if_neg hs, idx_ok' hb0, bind_ok]
    have hb1 : i / 64 + 1 < d.size := by omega
    rw [idx_ok' hb1, bind_ok]
    have hsh : 64 - i % 64 < 64 := by omega
    unfold shl64
    rw [if_pos hsh, bind_ok]
    refine ⟨_, rfl, ?_⟩
    intro k
    rw [Nat.testBit_or, Nat.testBit_and, Nat.testBit_two_pow_sub_one, Nat.testBit_shiftRight,
      two64_eq, Nat.testBit_mod_two_pow, Nat.testBit_shiftLeft]
    by_cases hk : k < len
    · by_cases hlo : i % 64 + k < 64
      · have e1 : (i + k) / 64 = i / 64 := by omega
        have e2 : (i + k) % 64 = i % 64 + k := by omega
        have : ¬ k ≥ 64 - i % 64 := by omega
        simp only [hk, decide_true, Bool.true_and, bitD, e1, e2, this, decide_false,
          Bool.false_and, Bool.and_false, Bool.or_false]
      · have e1 : (i + k) / 64 = i / 64 + 1 := by omega
        have e2 : (i + k) % 64 = k - (64 - i % 64) := by omega
        have h3 : k ≥ 64 - i % 64 := by omega
        have h4 : k < 64 := by omega
        have h5 : (wordAt d (i / 64)).testBit (i % 64 + k) = false :=
          Nat.testBit_lt_two_pow (Nat.lt_of_lt_of_le (hw _)
            (Nat.pow_le_pow_right (by decide) (by omega)))
        simp only [hk, decide_true, Bool.true_and, bitD, e1, e2, h3, h4, h5, Bool.false_or,
          Bool.and_true]
    · have h5 : (wordAt d (i / 64)).testBit (i % 64 + k) = false :=
        Nat.testBit_lt_two_pow (Nat.lt_of_lt_of_le (hw _)
          (Nat.pow_le_pow_right (by decide) (by omega)))
      simp [hk, h5]

theorem getBitsUnchecked_ok (b : BitVector) (hb : Inv b) (i len : Nat) (h1 : 1 ≤ len)
    (h2 : len ≤ 64) (h3 : i + len ≤ b.nBits) :
    getBitsUnchecked b i len = .ok (Spec.ofBits (((abs b).drop i).take len)) := by
  have hs := hb.size
  obtain ⟨v, hv, hbits⟩ := getBitsSlice_spec b.data i len h1 h2 (by omega) hb.wordAt_lt
  unfold getBitsUnchecked
  rw [hv]
  congr 1
  apply eq_ofBits_of_testBit
  intro k
  rw [hbits, abs_slice_getD b i len k h3]; rfl

theorem getBits_ok (b : BitVector) (hb : Inv b) (i len : Nat) :
    getBits b i len = .ok (if 1 ≤ len ∧ len ≤ 64 ∧ i + len ≤ b.nBits
      then some (Spec.ofBits (((abs b).drop i).take len)) else none) := by
  unfold getBits
  by_cases h : 1 ≤ len ∧ len ≤ 64 ∧ i + len ≤ b.nBits
  · obtain ⟨h1, h2, h3⟩ := h
    have hc : (len == 0 || decide (len > 64) || decide (i > b.nBits) || decide (i + len > b.nBits))
        = false := by
      have a1 : ¬ len = 0 := by omega
      have a2 : ¬ len > 64 := by omega
      have a3 : ¬ i > b.nBits := by omega
      have a4 : ¬ i + len > b.nBits := by omega
      simp [a1, a2, a3, a4]
    rw [hc, if_neg (by decide), if_pos ⟨h1, h2, h3⟩, getBitsUnchecked_ok b hb i len h1 h2 h3]
    rfl
  · have hc : (len == 0 || decide (len > 64) || decide (i > b.nBits) || decide (i + len > b.nBits))
        = true := by
      simp only [Bool.or_eq_true, beq_iff_eq, decide_eq_true_eq]
      omega
    rw [hc, if_pos rfl, if_neg h]; rfl

/-- `BitVectorMut::get_bits` as pinned by the crate's test-suite: strict inequality -/
theorem getBitsMut_pinned (b : BitVector) (hb : Inv b) (i len : Nat) :
    getBitsMut b i len = .ok (if 1 ≤ len ∧ len ≤ 64 ∧ i + len < b.nBits
      then some (Spec.ofBits (((abs b).drop i).take len)) else none) := by
  unfold getBitsMut
  by_cases h : 1 ≤ len ∧ len ≤ 64 ∧ i + len < b.nBits
  · obtain ⟨h1, h2, h3⟩ := h
    have hc : (len == 0 || decide (len > 64) || decide (i > b.nBits) || decide (i + len ≥ b.nBits))
        = false := by
      have a1 : ¬ len = 0 := by omega
      have a2 : ¬ len > 64 := by omega
      have a3 : ¬ i > b.nBits := by omega
      have a4 : ¬ i + len ≥ b.nBits := by omega
      simp [a1, a2, a3, a4]
    rw [hc, if_neg (by decide), if_pos ⟨h1, h2, h3⟩,
      getBitsUnchecked_ok b hb i len h1 h2 (by omega)]
    rfl
  · have hc : (len == 0 || decide (len > 64) || decide (i > b.nBits) || decide (i + len ≥ b.nBits))
        = true := by
      simp only [Bool.or_eq_true, beq_iff_eq, decide_eq_true_eq]
      omega
    rw [hc, if_pos rfl, if_neg h]; rfl

/-! ### whole words -/

theorem getWord_ok (b : BitVector) (hb : Inv b) (w : Nat) (hw : w < 8 * ((b.nBits + 511) / 512)) :
    getWord b w = .ok (Spec.ofBits (((abs b).drop (64 * w)).take 64)) := by
  have hs := hb.size
  have hw' : w < b.data.size := by omega
  unfold getWord
  have : w >>> 3 < nLines b := by rw [shr3]; unfold nLines; omega
  rw [if_pos this, Array.getElem?_eq_getElem hw']
  show Except.ok b.data[w] = _
  congr 1
  apply eq_ofBits_of_testBit
  intro k
  rw [List.getD_eq_getElem?_getD, List.getElem?_take]
  have hword : b.data[w] = wordAt b.data w := (wordAt_of_lt hw').symm
  by_cases hk : k < 64
  · rw [if_pos hk, List.getElem?_drop, abs_getElem?]
    have hbit : bitAt b (64 * w + k) = b.data[w].testBit k := by
      unfold bitAt bitD
      have e1 : (64 * w + k) / 64 = w := by omega
      have e2 : (64 * w + k) % 64 = k := by omega
      rw [e1, e2, hword]
    by_cases hin : 64 * w + k < b.nBits
    · rw [if_pos hin, ← hbit]; rfl
    · rw [if_neg hin, ← hbit, hb.pad _ (by omega)]; rfl
  · rw [if_neg hk]
    exact Nat.testBit_lt_two_pow (Nat.lt_of_lt_of_le (hb.words w hw')
      (Nat.pow_le_pow_right (by decide) (by omega)))

theorem getWord_oob (b : BitVector) (hb : Inv b) (w : Nat) (hw : ¬ w < 8 * ((b.nBits + 511) / 512)) :
    getWord b w = .error .assertDoc := by
  have hs := hb.size
  unfold getWord
  have : ¬ w >>> 3 < nLines b := by rw [shr3]; unfold nLines; omega
  rw [if_neg this]

/-! ### equality -/

theorem eq_iff_abs (s t : BitVector) (hs : Inv s) (ht : Inv t) : s = t ↔ abs s = abs t := by
  constructor
  · intro h; rw [h]
  · intro h
    have hn : s.nBits = t.nBits := by rw [← abs_length s, ← abs_length t, h]
    have ho : s.nOnes = t.nOnes := by rw [hs.ones, ht.ones, h]
    have hbit : ∀ i, bitAt s i = bitAt t i := by
      intro i
      by_cases hi : i < s.nBits
      · have h1 := abs_getElem? s i
        have h2 := abs_getElem? t i
        rw [if_pos hi] at h1
        rw [if_pos (by omega)] at h2
        rw [h, h2] at h1
        exact (Option.some.inj h1).symm
      · rw [hs.pad i (by omega), ht.pad i (by omega)]
    have hsz : s.data.size = t.data.size := by rw [hs.size, ht.size, hn]
    have hd : s.data = t.data := by
      apply Array.ext hsz
      intro j h1 h2
      apply Nat.eq_of_testBit_eq
      intro k
      by_cases hk : k < 64
      · have := hbit (64 * j + k)
        unfold bitAt bitD at this
        have e1 : (64 * j + k) / 64 = j := by omega
        have e2 : (64 * j + k) % 64 = k := by omega
        rw [e1, e2, wordAt_of_lt h1, wordAt_of_lt h2] at this
        exact this
      · have le : 2 ^ 64 ≤ 2 ^ k := Nat.pow_le_pow_right (by decide) (by omega)
        rw [Nat.testBit_lt_two_pow (Nat.lt_of_lt_of_le (hs.words j h1) le),
          Nat.testBit_lt_two_pow (Nat.lt_of_lt_of_le (ht.words j h2) le)]
    cases s; cases t
    simp only at hn ho hd
    subst hn; subst ho; subst hd; rfl

end Qwt.BV
