import Qwt.Model.Huff
import Qwt.Proofs.Interfaces
import Qwt.Proofs.PfsBuild
import Qwt.Proofs.RSQBridge

/-!
Estimation phase 1 of `rank_prefetch` on the Huffman-shaped quad wavelet tree
(`src/quadwt/huffqwt.rs`, model `Qwt.Huff.pfsPhase1`).

The levels of the Huffman tree have different lengths, so the simple bound of the plain tree
(`estimate ≤ n`) is not available.  The invariant is the one of DESIGN.md §7 C09:

  `estimate at level k ≤ true position at level k + k`

(`approx_rank(tb, p) ≤ rank(tb, p + 1)`: one element is lost per level), together with
`true position ≤ level length` and the arithmetic fact `p ≤ ℓ + rate - 2 → ⌊p/rate⌋ + 1 ≤ nb ℓ`
(`rate = 2 ^ pfsSampleShift`).

The tree invariant is taken as an explicit hypothesis (`D k`: digit list of level `k`,
`T k`: the true position of the walk at level `k`), in a form that the HQWT level invariant
(`LevelsQ`/`QOK`: `T k = blkStart k + cnt k i`) instantiates.
-/
set_option linter.unusedVariables false

namespace Qwt.PfsP
open Qwt

/-- side condition on the extracted constant: the rate is at least the largest number of levels
    of the Huffman-shaped tree (code lengths are at most 32 bits, i.e. 16 two-bit levels), so the
    drift of one element per level never leaves the last sampled block -/
theorem shift_ge_four : 4 ≤ Extracted.pfsSampleShift := by decide

theorem rate_ge_16 : 16 ≤ rate := by
  have := Nat.pow_le_pow_right (n := 2) (by decide) shift_ge_four
  exact this

/-- a position at most `rate - 2` beyond a position inside a non-empty level is still inside the
    sample vectors -/
theorem est_in_range {n T p k : Nat} (hn : 0 < n) (hT : T ≤ n) (hp : p ≤ T + k) (hk : k + 2 ≤ rate) :
    p / rate + 1 ≤ nbOf n := by
  unfold nbOf; rw [if_neg (by omega)]
  have := Nat.div_le_div_right (c := rate) (show p ≤ n + rate - 2 by omega)
  omega

/-- one element is lost per level -/
theorem approxSpec_le_track (L : List Nat) (tb : Nat) {e T k : Nat} (he : e ≤ T + k) :
    approxSpec L tb e ≤ Spec.rank tb T L + (k + 1) := by
  have h1 := approxSpec_le_rank L tb e
  have h2 := RSQP.rank_mono tb L (covered_block_le L.length e)
  by_cases h : e + 1 ≤ T
  · have := RSQP.rank_mono tb L h
    omega
  · have := RSQP.rank_sub_le tb L (i := T) (j := e + 1) (by omega)
    omega

/-- `PrefetchSupport::new` is total on every vector produced by the push loop of a level
    constructor (no length hypothesis: the pushes themselves succeeded) -/
theorem push_guard (b : QV.QVector) (d : Nat) (b' : QV.QVector) (h : QV.push b d = .ok b') :
    b.position + 2 < two64 := by
  by_cases hn : b.position + 2 < two64
  · exact hn
  · exfalso
    unfold QV.push at h
    simp only [add64, hn, if_false] at h
    generalize (if ((b.position / 2 &&& 255) == 0) = true then b.data ++ #[0, 0, 0, 0] else b.data) = data at h
    by_cases hs : data.size < 4
    · rw [if_pos hs] at h; cases h
    · rw [if_neg hs] at h; cases h

theorem pushes_guard (digits : List Nat) : ∀ (b q : QV.QVector), QV.Inv b →
    digits.foldlM (fun (b : QV.QVectorBuilder) d => QV.push b d) b = .ok q → digits ≠ [] →
    b.position + 2 * digits.length < two64 := by
  induction digits with
  | nil => intro _ _ _ _ h; exact absurd rfl h
  | cons d ds ih =>
    intro b q hb h _
    rw [List.foldlM_cons] at h
    cases hp : QV.push b d with
    | error e => rw [hp] at h; cases h
    | ok b' =>
      rw [hp] at h
      have hg := push_guard b d b' hp
      obtain ⟨b'', e1, i1, _⟩ := QV.push_ok b d hb hg
      rw [hp] at e1
      cases e1
      have p1 : b'.position = b.position + 2 := by
        rw [QV.push_eq b _ hb hg] at hp
        cases hp; rfl
      by_cases hds : ds = []
      · subst hds; simp only [List.length_cons, List.length_nil]; omega
      · have := ih b' q i1 h hds
        simp only [List.length_cons]; omega

/-- `PrefetchSupport::new` is total on every vector produced by the push loop of a level
    constructor (no length hypothesis: the pushes themselves succeeded), and describes the
    pushed digits -/
theorem new_of_pushes (digits : List Nat) (hd : ∀ d ∈ digits, d < 4) (qvb : QV.QVectorBuilder)
    (h : digits.foldlM (fun (b : QV.QVectorBuilder) d => QV.push b d) {} = .ok qvb) :
    ∃ p, PFS.new (QV.build qvb) Extracted.pfsSampleShift = .ok p ∧ PfsRep digits p := by
  have hbound : 0 + 2 * digits.length < two64 := by
    by_cases hds : digits = []
    · subst hds; decide
    · exact pushes_guard digits {} qvb QV.empty_inv.1 h hds
  obtain ⟨q, e, hinv, habs⟩ := RSQP.pushes_ok digits {} QV.empty_inv.1 hbound
  rw [h] at e
  cases e
  have habs' : QV.abs qvb = digits := by
    rw [habs, QV.empty_inv.2, List.nil_append]
    conv => rhs; rw [← List.map_id digits]
    apply List.map_congr_left
    intro d hd'
    have := hd d hd'
    simp only [id]; omega
  obtain ⟨p, hp, hrep⟩ := PfsP.new_ok (QV.build qvb) hinv (by
    show (QV.abs qvb).length + 1 < two64
    rw [habs']
    have : two64 = 18446744073709551616 := rfl
    omega)
  exact ⟨p, hp, by rw [← habs']; exact hrep⟩

theorem idx_ok' {α} {a : Array α} {i : Nat} {x : α} (h : a[i]? = some x) : idx a i = .ok x := by
  obtain ⟨hi, hx⟩ := Array.getElem?_eq_some_iff.mp h
  simp [idx, hi, hx]

theorem sub_ok' {a b : Nat} (h : b ≤ a) : sub a b = .ok (a - b) := by simp [sub, h]

end Qwt.PfsP

namespace Qwt.Huff
open Qwt Qwt.PfsP

/-- the two-bit fragment phase 1/2 of `rank_prefetch` extract at level `k` -/
def tbAt (code : PrefixCode) (k : Nat) : Nat :=
  ((code.content >>> (code.len - 2 * (k + 1))) % 256) &&& 3

theorem tbAt_lt (code : PrefixCode) (k : Nat) : tbAt code k < 4 := by
  unfold tbAt
  rw [Nat.and_two_pow_sub_one_eq_mod _ 2]
  exact Nat.mod_lt _ (by decide)

/-- the hypotheses on the tree, for the walk of one code: `D k` is the digit list of level `k`,
    `T k` the true position of the walk at level `k` -/
structure WalkHyp (c : Cfg) (t : HQWT) (code : PrefixCode) (pfs : Array PFS.PrefetchSupport)
    (D : Nat → List Nat) (T : Nat → Nat) : Prop where
  levels_le : code.len / 2 ≤ rate
  qvs : ∀ k, k < code.len / 2 → ∃ r, t.qvs[k]? = some r ∧ RSQ.Represents c.B r (D k)
  pfs : ∀ k, k + 1 < code.len / 2 → ∃ p, pfs[k]? = some p ∧ PfsRep (D k) p
  nonempty : ∀ k, k + 1 < code.len / 2 → 0 < (D k).length
  inside : ∀ k, k + 1 < code.len / 2 → T k ≤ (D k).length
  step : ∀ k, k + 1 < code.len / 2 →
    Spec.rank (tbAt code k) (T k) (D k) + Spec.occsSmaller id (tbAt code k) (D k) ≤ T (k + 1)

theorem phase1_go_ok {c : Cfg} {t : HQWT} {code : PrefixCode} {pfs : Array PFS.PrefetchSupport}
    {D : Nat → List Nat} {T : Nat → Nat} (h : WalkHyp c t code pfs D T) :
    ∀ (f k : Nat) (sh : Int) (s e : Nat), sh = (code.len : Int) - 2 * ((k : Int) + 1) →
      2 * (k + 1) ≤ code.len → s ≤ e → e ≤ T k + k →
      ∃ s' e', pfsPhase1.go c t code pfs f k sh s e = .ok (s', e') ∧ s' ≤ e' := by
  intro f
  induction f with
  | zero => intro k sh s e _ _ hse _; exact ⟨s, e, rfl, hse⟩
  | succ f ih =>
    intro k sh s e hsh hkl hse he
    rw [pfsPhase1.go]
    by_cases hk : k + 1 < code.len / 2
    · have hs2 : sh ≥ 2 := by omega
      have hshn : sh.toNat = code.len - 2 * (k + 1) := by omega
      obtain ⟨r, hr, hR⟩ := h.qvs k (by omega)
      obtain ⟨r', hr', _⟩ := h.qvs (k + 1) hk
      obtain ⟨p, hp, hP⟩ := h.pfs k hk
      have hne := h.nonempty k hk
      have hin := h.inside k hk
      have hd := tbAt_lt code k
      have hkk : k + 2 ≤ rate := by have := h.levels_le; omega
      have he_in := est_in_range hne hin he hkk
      have hs_in := est_in_range hne hin (Nat.le_trans hse he) hkk
      have etb : ((code.content >>> sh.toNat) % 256) &&& 3 = tbAt code k := by
        rw [hshn]; rfl
      simp only [if_pos hs2, etb, idx_ok' hr, hR.occsSmallerU _ _ (Nat.le_of_lt_succ hd), idx_ok' hp,
        approx_ok hP hd hs_in, approx_ok hP hd he_in, idx_ok' hr', ok_bind]
      have b1 := approxSpec_le_track (D k) (tbAt code k) he
      have b2 := approxSpec_mono (D k) (tbAt code k) hse
      have b3 := h.step k hk
      exact ih (k + 1) (sh - 2) _ _ (by omega) (by omega) (by omega) (by omega)
    · have hs2 : ¬ sh ≥ 2 := by omega
      simp only [if_neg hs2]
      exact ⟨s, e, rfl, hse⟩

/-- PARTIAL (the HQWT level invariant is the hypothesis `WalkHyp`): estimation phase 1 of
    `rank_prefetch` on the Huffman-shaped tree does not fault -/
theorem pfsPhase1_ok_partial {c : Cfg} {t : HQWT} {code : PrefixCode}
    {pfs : Array PFS.PrefetchSupport} {D : Nat → List Nat} {T : Nat → Nat}
    (hpfs : t.pfs = some pfs) (h : WalkHyp c t code pfs D T) (hlen : 2 ≤ code.len) (i : Nat)
    (hi : i ≤ T 0) : pfsPhase1 c t code i = .ok () := by
  obtain ⟨r, hr, _⟩ := h.qvs 0 (by omega)
  obtain ⟨s', e', hgo, hle⟩ := phase1_go_ok h (code.len / 2 + 1) 0 ((code.len : Int) - 2) 0 i
    (by omega) (by omega) (Nat.zero_le _) (by omega)
  unfold pfsPhase1
  cases hc : c.pfs
  · rfl
  · simp only [Bool.not_true, Bool.false_eq_true, if_false, hpfs, idx_ok' hr, ok_bind]
    have e : (Int.ofNat code.len - 2 : Int) = (code.len : Int) - 2 := rfl
    rw [e, hgo]
    simp only [ok_bind, sub_ok' hle]
    rfl

/-- without prefetch support, or on a tree without sampling structures, phase 1 does nothing -/
theorem pfsPhase1_trivial (c : Cfg) (t : HQWT) (code : PrefixCode) (i : Nat)
    (h : c.pfs = false ∨ t.pfs = none) : pfsPhase1 c t code i = .ok () := by
  unfold pfsPhase1
  rcases h with h | h
  · rw [h]; rfl
  · rw [h]; cases c.pfs <;> rfl

/-- `rank_prefetch` answers like `rank` as soon as neither estimation phase faults -/
theorem rankPrefetch_eq_rank_of_phases (c : Cfg) (t : HQWT) (symbol i : Nat)
    (hph : ∀ code, codeOf t symbol = some code → i ≤ t.n →
      (c.pfs = true → pfsPhase1 c t code i = .ok ()) ∧ pfsPhase2 c t code i = .ok ()) :
    rankPrefetch c t symbol i = rank c t symbol i := by
  unfold rankPrefetch rank
  by_cases hi : i > t.n
  · rw [if_pos hi, if_pos hi]
  · rw [if_neg hi, if_neg hi]
    cases hco : codeOf t symbol with
    | none => rfl
    | some code =>
      obtain ⟨h1, h2⟩ := hph code hco (by omega)
      -- `codeOf` returned the entry of the encode table at `symbol < 2^64`
      have hidx : idx t.codesEncode (Utils.asUsize symbol) = .ok code := by
        unfold codeOf at hco
        by_cases h64 : symbol ≥ two64
        · rw [if_pos h64] at hco; cases hco
        · rw [if_neg h64] at hco
          have hu : Utils.asUsize symbol = symbol := by
            unfold Utils.asUsize; exact Nat.mod_eq_of_lt (by omega)
          rw [hu]
          cases hget : t.codesEncode[symbol]? with
          | none => rw [hget] at hco; cases hco
          | some cd =>
            rw [hget] at hco
            simp only at hco
            split at hco
            · cases hco
            · cases hco; exact idx_ok' hget
      show (do let v ← rankPrefetchUnchecked c t symbol i; pure (some v)) = _
      unfold rankPrefetchUnchecked
      rw [hidx, ok_bind, h2]
      cases hc : c.pfs
      · rfl
      · rw [h1 hc]; rfl

end Qwt.Huff
