import Qwt.Proofs.CraftExpand
import Qwt.Proofs.CraftSort

/-! C02: the loop invariant of `craft_wm_codes` (free nodes strictly decreasing, every later
node reduced to the depth of an earlier assigned one is smaller, free-node accounting). -/
namespace Qwt.Proofs.Craft
open Qwt Qwt.Huff Qwt.Props.C02

/-- `Σ 2^(T − tlen)` -/
def ksum (T : Nat) (f : List (Nat × Nat)) : Nat := (f.map (fun p => 2 ^ (T - p.2))).sum

structure Ctx where
  D : Nat
  b : Nat
  f : List (Nat × Nat)     -- sorted `(symbol, length in bits)`
  T : Nat                  -- maximal length in bits
  sigma : Nat
  slots : Nat
  slack : Nat              -- Kraft deficit allowed for

def Ctx.tl (X : Ctx) (i : Nat) : Nat := (X.f.getD i (0, 0)).2
def Ctx.sy (X : Ctx) (i : Nat) : Nat := (X.f.getD i (0, 0)).1

structure Ctx.OK (X : Ctx) : Prop where
  par : (X.D = 4 ∧ X.b = 2) ∨ (X.D = 2 ∧ X.b = 1)
  sorted : ∀ i i', i ≤ i' → i' < X.f.length → X.tl i ≤ X.tl i'
  inj : ∀ i i', i < X.f.length → i' < X.f.length → X.sy i = X.sy i' → i = i'
  dvd : ∀ i, i < X.f.length → X.b ∣ X.tl i
  leT : ∀ i, i < X.f.length → X.tl i ≤ X.T
  T32 : X.T ≤ 32
  kraft_le : ksum X.T X.f ≤ 2 ^ X.T
  near : 2 ^ X.T ≤ ksum X.T X.f + X.slack
  sym_le : ∀ i, i < X.f.length → X.sy i ≤ X.sigma
  slots_ok : 0 < X.f.length → X.f.length + X.slack ≤ X.slots

theorem Ctx.OK.D_eq {X : Ctx} (h : X.OK) : X.D = 2 ^ X.b := by
  rcases h.par with ⟨h1, h2⟩ | ⟨h1, h2⟩ <;> rw [h1, h2] <;> rfl

theorem Ctx.OK.b_pos {X : Ctx} (h : X.OK) : 0 < X.b := by
  rcases h.par with ⟨_, h2⟩ | ⟨_, h2⟩ <;> omega

theorem Ctx.OK.D_pos {X : Ctx} (h : X.OK) : 0 < X.D := by
  rcases h.par with ⟨h1, _⟩ | ⟨h1, _⟩ <;> omega

/-! ### Kraft sums -/

theorem ksum_append (T : Nat) (f g : List (Nat × Nat)) : ksum T (f ++ g) = ksum T f + ksum T g := by
  simp [ksum, List.sum_append]

theorem ksum_split (T : Nat) (f : List (Nat × Nat)) (j : Nat) :
    ksum T f = ksum T (f.take j) + ksum T (f.drop j) := by
  rw [← ksum_append, List.take_append_drop]

theorem ksum_take_succ (X : Ctx) {j : Nat} (hj : j < X.f.length) :
    ksum X.T (X.f.take (j + 1)) = ksum X.T (X.f.take j) + 2 ^ (X.T - X.tl j) := by
  rw [List.take_succ_eq_append_getElem hj, ksum_append]
  simp [ksum, Ctx.tl, List.getD_eq_getElem?_getD, List.getElem?_eq_getElem hj]

theorem ksum_drop_ge (X : Ctx) {j : Nat} (hj : j < X.f.length) :
    2 ^ (X.T - X.tl j) ≤ ksum X.T (X.f.drop j) := by
  rw [List.drop_eq_getElem_cons hj]
  simp only [ksum, List.map_cons, List.sum_cons, Ctx.tl, List.getD_eq_getElem?_getD,
    List.getElem?_eq_getElem hj, Option.getD_some]
  exact Nat.le_add_right _ _

theorem ksum_le_of_ge (T l : Nat) (L : List (Nat × Nat)) (h : ∀ p ∈ L, l ≤ p.2) :
    ksum T L ≤ L.length * 2 ^ (T - l) := by
  induction L with
  | nil => simp [ksum]
  | cons p ps ih =>
    have h1 : 2 ^ (T - p.2) ≤ 2 ^ (T - l) :=
      Nat.pow_le_pow_right (by decide) (by have := h p (List.mem_cons_self); omega)
    have h2 := ih (fun q hq => h q (List.mem_cons_of_mem _ hq))
    simp only [ksum, List.map_cons, List.sum_cons, List.length_cons] at h2 ⊢
    rw [Nat.succ_mul]; omega

theorem ksum_drop_le (X : Ctx) {j l : Nat} (h : ∀ i, j ≤ i → i < X.f.length → l ≤ X.tl i) :
    ksum X.T (X.f.drop j) ≤ (X.f.length - j) * 2 ^ (X.T - l) := by
  have := ksum_le_of_ge X.T l (X.f.drop j) (by
    intro p hp
    obtain ⟨i, hi, rfl⟩ := List.mem_iff_getElem.mp hp
    rw [List.length_drop] at hi
    have := h (j + i) (by omega) (by omega)
    simpa [Ctx.tl, List.getD_eq_getElem?_getD, List.getElem?_eq_getElem (show j + i < X.f.length by omega)] using this)
  simpa [List.length_drop] using this

/-- depth (in bits) of the node stored at index `i`: its code length once assigned, the
    current depth `l` while free -/
def lev (X : Ctx) (j l i : Nat) : Nat := if i < j then X.tl i else l

structure Inv (X : Ctx) (j : Nat) (st : CraftSt) : Prop where
  csize : st.c.size = X.slots
  asize : st.assignments.size = X.sigma + 1
  jm : j ≤ st.m
  /-- at most `alph + slack` nodes are ever in use -/
  mle : st.m ≤ X.f.length + X.slack
  ldvd : X.b ∣ st.l
  l_ge : ∀ i, i < j → X.tl i ≤ st.l
  l_le : ∀ i, j ≤ i → i < X.f.length → st.l ≤ X.tl i
  /-- sharp accounting: `m − j` free nodes of depth `l` -/
  count : (st.m - j) * 2 ^ (X.T - st.l) + ksum X.T (X.f.take j) = 2 ^ X.T
  bnd : ∀ i, i < st.m → st.c.getD i 0 < 2 ^ lev X j st.l i
  /-- every later node, cut at the depth of an earlier one, is smaller; on the free part
      `c[j..m)` this says: strictly decreasing -/
  ord : ∀ i i', i < i' → i' < st.m → st.c.getD i' 0 % 2 ^ lev X j st.l i < st.c.getD i 0
  asg : ∀ i, i < j → ∃ rc, st.assignments.getD (X.sy i) {} = ⟨rc, X.tl i⟩ ∧
    RevInv X.D (X.tl i / X.b) (X.tl i / X.b) (st.c.getD i 0) rc
  nasg : ∀ s, (∀ i, i < j → X.sy i ≠ s) → st.assignments.getD s {} = {}

theorem blk_decomp {D d j i : Nat} (hd : 0 < d) (h1 : j ≤ i) (h2 : i < j + D * d) :
    ∃ k t, k < D ∧ j ≤ t ∧ t < j + d ∧ i = k * d + t := by
  refine ⟨(i - j) / d, j + (i - j) % d, ?_, by omega, ?_, ?_⟩
  · exact (Nat.div_lt_iff_lt_mul hd).mpr (by omega)
  · have := Nat.mod_lt (i - j) hd; omega
  · have := Nat.div_add_mod (i - j) d
    rw [Nat.mul_comm] at this; omega

theorem blk_lt {d j k t k' t' : Nat} (ht : j ≤ t) (ht' : t' < j + d)
    (h : k * d + t < k' * d + t') : k < k' ∨ (k = k' ∧ t < t') := by
  rcases Nat.lt_trichotomy k k' with hk | hk | hk
  · exact Or.inl hk
  · subst hk; exact Or.inr ⟨rfl, by omega⟩
  · exfalso
    have := Nat.mul_le_mul_right d (show k' + 1 ≤ k from hk)
    rw [Nat.succ_mul] at this
    omega

theorem step_len {X : Ctx} (hX : X.OK) {j : Nat} {st : CraftSt} (h : Inv X j st)
    (hj : j < X.f.length) (hl : st.l < X.tl j) : st.l + X.b ≤ X.tl j := by
  obtain ⟨x, hx⟩ := h.ldvd
  obtain ⟨y, hy⟩ := hX.dvd j hj
  rw [hx, hy] at hl ⊢
  have : x < y := Nat.lt_of_mul_lt_mul_left hl
  calc X.b * x + X.b = X.b * (x + 1) := by rw [Nat.mul_succ]
    _ ≤ X.b * y := Nat.mul_le_mul_left _ this

theorem count_step {X : Ctx} (hX : X.OK) {l d : Nat} (hl : l + X.b ≤ X.T) :
    (X.D * d) * 2 ^ (X.T - (l + X.b)) = d * 2 ^ (X.T - l) := by
  rw [hX.D_eq, Nat.mul_comm (2 ^ X.b) d, Nat.mul_assoc, ← Nat.pow_add]
  congr 2; omega

/-- the array bound: while the depth does not exceed the remaining lengths there are at most
    `alph − j + slack` free nodes -/
theorem free_bound {X : Ctx} (hX : X.OK) {j m l : Nat}
    (hl : ∀ i, j ≤ i → i < X.f.length → l ≤ X.tl i)
    (hc : (m - j) * 2 ^ (X.T - l) + ksum X.T (X.f.take j) = 2 ^ X.T) :
    (m - j) + j ≤ X.f.length + X.slack ∨ X.f.length < j := by
  by_cases hj : X.f.length < j
  · exact Or.inr hj
  refine Or.inl ?_
  have h1 := hX.near
  rw [ksum_split X.T X.f j] at h1
  have h2 := ksum_drop_le X hl
  have hQ : 0 < 2 ^ (X.T - l) := Nat.pow_pos (by decide)
  have h3 : X.slack ≤ X.slack * 2 ^ (X.T - l) := Nat.le_mul_of_pos_right _ hQ
  have h4 : (m - j) * 2 ^ (X.T - l) ≤ (X.f.length - j + X.slack) * 2 ^ (X.T - l) := by
    rw [Nat.add_mul]; omega
  have h5 := Nat.le_of_mul_le_mul_right h4 hQ
  omega

theorem slots_bound {X : Ctx} (hX : X.OK) {j m l : Nat} (hj : j < X.f.length)
    (hl : ∀ i, j ≤ i → i < X.f.length → l ≤ X.tl i)
    (hc : (m - j) * 2 ^ (X.T - l) + ksum X.T (X.f.take j) = 2 ^ X.T) :
    (m - j) + j ≤ X.slots := by
  have := free_bound hX hl hc
  have := hX.slots_ok (by omega)
  omega

theorem free_pos {X : Ctx} (hX : X.OK) {j m l : Nat} (hj : j < X.f.length)
    (hc : (m - j) * 2 ^ (X.T - l) + ksum X.T (X.f.take j) = 2 ^ X.T) : j < m := by
  have h1 := hX.kraft_le
  rw [ksum_split X.T X.f j] at h1
  have h2 := ksum_drop_ge X hj
  have hQ : 0 < 2 ^ (X.T - X.tl j) := Nat.pow_pos (by decide)
  have : 0 < (m - j) * 2 ^ (X.T - l) := by omega
  have := Nat.pos_of_mul_pos_right this   -- 0 < m - j
  omega

theorem mod_add_mul_pow {x a l lam : Nat} (h : lam ≤ l) : (x + a * 2 ^ l) % 2 ^ lam = x % 2 ^ lam := by
  have : 2 ^ l = 2 ^ lam * 2 ^ (l - lam) := by rw [← Nat.pow_add]; congr 1; omega
  rw [this, ← Nat.mul_assoc, Nat.mul_comm a, Nat.mul_assoc, Nat.add_mul_mod_self_left]

theorem expand_inv {X : Ctx} (hX : X.OK) {j : Nat} {st : CraftSt} (h : Inv X j st)
    (hj : j < X.f.length) (hl : st.l < X.tl j) {c' : Array Nat}
    (he : ExpSpec X.D j st.m (2 ^ st.l) st.c c') :
    Inv X j ⟨c', j + X.D * (st.m - j), st.l + X.b, st.assignments⟩ := by
  have hlb := step_len hX h hj hl
  have hT := hX.leT j hj
  have hjm := h.jm
  have hDpos := hX.D_pos
  have hpow : 2 ^ (st.l + X.b) = X.D * 2 ^ st.l := by rw [hX.D_eq, Nat.pow_add, Nat.mul_comm]
  -- value of a new free node
  have hnew : ∀ i, j ≤ i → i < j + X.D * (st.m - j) → ∃ k t, k < X.D ∧ j ≤ t ∧ t < st.m ∧
      i = k * (st.m - j) + t ∧ c'.getD i 0 = st.c.getD t 0 + (X.D - 1 - k) * 2 ^ st.l := by
    intro i h1 h2
    have hd : 0 < st.m - j := by
      rcases Nat.eq_zero_or_pos (st.m - j) with h0 | h0
      · rw [h0] at h2; omega
      · exact h0
    obtain ⟨k, t, hk, ht1, ht2, hi⟩ := blk_decomp hd h1 h2
    exact ⟨k, t, hk, ht1, by omega, hi, hi ▸ he.blk k t hk ht1 (by omega)⟩
  have hbt : ∀ t, j ≤ t → t < st.m → st.c.getD t 0 < 2 ^ st.l := by
    intro t h1 h2
    have := h.bnd t h2
    rwa [lev, if_neg (by omega)] at this
  have hcount' : (j + X.D * (st.m - j) - j) * 2 ^ (X.T - (st.l + X.b)) + ksum X.T (X.f.take j)
      = 2 ^ X.T := by
    rw [Nat.add_sub_cancel_left, count_step hX (by omega)]
    exact h.count
  refine ⟨he.size.trans h.csize, h.asize, by show j ≤ j + _; omega, ?_, ?_, ?_, ?_, ?_, ?_, ?_, ?_, h.nasg⟩
  · show j + X.D * (st.m - j) ≤ _
    have := free_bound hX (m := j + X.D * (st.m - j)) (l := st.l + X.b)
      (fun i h1 h2 => by have := hX.sorted j i h1 h2; omega) hcount'
    omega
  · exact (Nat.dvd_add_right h.ldvd).mpr (Nat.dvd_refl _)
  · intro i hi; have := h.l_ge i hi; show _ ≤ st.l + X.b; omega
  · intro i hi1 hi2
    have := hX.sorted j i hi1 hi2
    show st.l + X.b ≤ _; omega
  · exact hcount'
  · intro i hi
    have hi : i < j + X.D * (st.m - j) := hi
    show c'.getD i 0 < 2 ^ lev X j (st.l + X.b) i
    by_cases hij : i < j
    · rw [he.low i hij]
      have := h.bnd i (by omega)
      rwa [lev, if_pos hij] at this ⊢
    · obtain ⟨k, t, hk, ht1, ht2, _, hv⟩ := hnew i (by omega) hi
      rw [lev, if_neg hij, hv, hpow]
      have := hbt t ht1 ht2
      have h2 : (X.D - 1 - k + 1) * 2 ^ st.l ≤ X.D * 2 ^ st.l := Nat.mul_le_mul_right _ (by omega)
      rw [Nat.succ_mul] at h2
      omega
  · intro i i' hii' hi'
    have hi' : i' < j + X.D * (st.m - j) := hi'
    show c'.getD i' 0 % 2 ^ lev X j (st.l + X.b) i < c'.getD i 0
    by_cases hi'j : i' < j
    · rw [he.low i' hi'j, he.low i (by omega)]
      have := h.ord i i' hii' (by omega)
      rwa [lev, if_pos (by omega)] at this ⊢
    · obtain ⟨k', t', hk', ht1', ht2', hi'eq, hv'⟩ := hnew i' (by omega) hi'
      by_cases hij : i < j
      · rw [he.low i hij, lev, if_pos hij, hv', mod_add_mul_pow (h.l_ge i hij)]
        have := h.ord i t' (by omega) ht2'
        rwa [lev, if_pos hij] at this
      · obtain ⟨k, t, hk, ht1, ht2, hieq, hv⟩ := hnew i (by omega) (by omega)
        apply Nat.lt_of_le_of_lt (Nat.mod_le _ _)
        rw [hv, hv']
        rw [hieq, hi'eq] at hii'
        rcases blk_lt ht1 (by omega) hii' with hkk | ⟨rfl, htt⟩
        · have hb' := hbt t' ht1' ht2'
          have h2 : (X.D - 1 - k' + 1) * 2 ^ st.l ≤ (X.D - 1 - k) * 2 ^ st.l :=
            Nat.mul_le_mul_right _ (by omega)
          rw [Nat.succ_mul] at h2
          omega
        · have := h.ord t t' htt ht2'
          rw [lev, if_neg (by omega), Nat.mod_eq_of_lt (hbt t' ht1' ht2')] at this
          omega
  · intro i hi
    obtain ⟨rc, h1, h2⟩ := h.asg i hi
    exact ⟨rc, h1, by show RevInv _ _ _ (c'.getD i 0) _; rw [he.low i hi]; exact h2⟩

theorem grow_step_pre {X : Ctx} (hX : X.OK) {j : Nat} {st : CraftSt} (h : Inv X j st)
    (hj : j < X.f.length) (hl : st.l < X.tl j) :
    j + X.D * (st.m - j) ≤ st.c.size ∧ st.l + X.b ≤ 32 ∧
    (∀ t, j ≤ t → t < st.m → st.c.getD t 0 < 2 ^ st.l) := by
  have hlb := step_len hX h hj hl
  have hT := hX.leT j hj
  have hT32 := hX.T32
  refine ⟨?_, by omega, ?_⟩
  · have := slots_bound hX (m := j + X.D * (st.m - j)) (l := st.l + X.b) hj
      (fun i h1 h2 => by have := hX.sorted j i h1 h2; omega)
      (by rw [Nat.add_sub_cancel_left, count_step hX (by omega)]; exact h.count)
    rw [h.csize]; omega
  · intro t h1 h2
    have := h.bnd t h2
    rwa [lev, if_neg (by omega)] at this

theorem grow_spec4 {X : Ctx} (hX : X.OK) (h1 : X.D = 4) (h2 : X.b = 2) {j : Nat} (hj : j < X.f.length) :
    ∀ fuel (st : CraftSt), Inv X j st → X.tl j - st.l < fuel →
      ∃ st', grow 4 j (X.tl j) fuel st = .ok st' ∧ Inv X j st' ∧ st'.l = X.tl j := by
  intro fuel
  induction fuel with
  | zero => intro st _ hf; omega
  | succ fuel ih =>
    intro st h hf
    by_cases hl : st.l < X.tl j
    · obtain ⟨p1, p2, p3⟩ := grow_step_pre hX h hj hl
      have hjm := h.jm
      rw [h1] at p1; rw [h2] at p2
      obtain ⟨c', e1, e2⟩ := expand4_spec (c := st.c) hjm (by omega) p2 p3
      have e3 := expand_inv hX h hj hl (show ExpSpec X.D j st.m (2 ^ st.l) st.c c' by rw [h1]; exact e2)
      have e : ({ st with c := c', m := 4 * st.m - 3 * j, l := st.l + 2 } : CraftSt)
          = ⟨c', j + X.D * (st.m - j), st.l + X.b, st.assignments⟩ := by
        rw [h1, h2]; simp only [CraftSt.mk.injEq, and_true, true_and]; omega
      unfold grow
      rw [if_pos hl]
      simp only [show ((4:Nat) == 4) = true from rfl, if_true]
      rw [e1, bind_ok, sub_ok (by omega), bind_ok, e]
      exact ih _ e3 (by show X.tl j - (st.l + X.b) < fuel; omega)
    · have hle := h.l_le j (Nat.le_refl _) hj
      refine ⟨st, ?_, h, by omega⟩
      unfold grow
      rw [if_neg hl]; rfl

theorem grow_spec2 {X : Ctx} (hX : X.OK) (h1 : X.D = 2) (h2 : X.b = 1) {j : Nat} (hj : j < X.f.length) :
    ∀ fuel (st : CraftSt), Inv X j st → X.tl j - st.l < fuel →
      ∃ st', grow 2 j (X.tl j) fuel st = .ok st' ∧ Inv X j st' ∧ st'.l = X.tl j := by
  intro fuel
  induction fuel with
  | zero => intro st _ hf; omega
  | succ fuel ih =>
    intro st h hf
    by_cases hl : st.l < X.tl j
    · obtain ⟨p1, p2, p3⟩ := grow_step_pre hX h hj hl
      have hjm := h.jm
      rw [h1] at p1; rw [h2] at p2
      obtain ⟨c', e1, e2⟩ := expand2_spec (c := st.c) hjm (by omega) p2 p3
      have e3 := expand_inv hX h hj hl (show ExpSpec X.D j st.m (2 ^ st.l) st.c c' by rw [h1]; exact e2)
      have e : ({ st with c := c', m := 2 * st.m - j, l := st.l + 1 } : CraftSt)
          = ⟨c', j + X.D * (st.m - j), st.l + X.b, st.assignments⟩ := by
        rw [h1, h2]; simp only [CraftSt.mk.injEq, and_true, true_and]; omega
      unfold grow
      rw [if_pos hl]
      simp only [show ((2:Nat) == 4) = false from rfl, Bool.false_eq_true, if_false]
      rw [e1, bind_ok, sub_ok (by omega), bind_ok, e]
      exact ih _ e3 (by show X.tl j - (st.l + X.b) < fuel; omega)
    · have hle := h.l_le j (Nat.le_refl _) hj
      refine ⟨st, ?_, h, by omega⟩
      unfold grow
      rw [if_neg hl]; rfl

theorem grow_spec {X : Ctx} (hX : X.OK) {j : Nat} (hj : j < X.f.length)
    (fuel : Nat) (st : CraftSt) (h : Inv X j st) (hf : X.tl j - st.l < fuel) :
    ∃ st', grow X.D j (X.tl j) fuel st = .ok st' ∧ Inv X j st' ∧ st'.l = X.tl j := by
  rcases hX.par with ⟨h1, h2⟩ | ⟨h1, h2⟩
  · rw [h1]; exact grow_spec4 hX h1 h2 hj fuel st h hf
  · rw [h1]; exact grow_spec2 hX h1 h2 hj fuel st h hf

theorem getD_set!' {α} (c : Array α) (i : Nat) (v : α) (k : Nat) (d : α) :
    (c.set! i v).getD k d = if i = k ∧ i < c.size then v else c.getD k d := by
  simp only [Array.getD_eq_getD_getElem?, Array.set!_eq_setIfInBounds, Array.getElem?_setIfInBounds]
  by_cases h : i = k
  · subst h
    by_cases h2 : i < c.size <;> simp [h2]
  · simp [h]

theorem reverseCode_spec {X : Ctx} (hX : X.OK) {l : Nat} (hd : X.b ∣ l) (hl : l ≤ 32) (v : Nat) :
    ∃ rc, reverseCode X.D v l = .ok rc ∧ RevInv X.D (l / X.b) (l / X.b) v rc := by
  rcases hX.par with ⟨h1, h2⟩ | ⟨h1, h2⟩
  · rw [h2] at hd
    obtain ⟨k, rfl⟩ := hd
    rw [h1, h2, Nat.mul_div_cancel_left _ (by decide : 0 < 2)]
    exact reverseCode4_spec v rfl hl
  · rw [h1, h2, Nat.div_one]
    exact reverseCode2_spec rfl v hl

/-- one iteration of the `for j in 0..alph_size` loop -/
def craftStep (D : Nat) (f : List (Nat × Nat)) (st : CraftSt) (j : Nat) : M CraftSt := do
  let (sym, tlen) := f.getD j (0, 0)
  let st ← grow D j tlen (tlen + 1) st
  let cj ← idx st.c j
  let rev ← reverseCode D cj st.l
  if sym ≥ st.assignments.size then throw Fault.indexPanic
  pure { st with assignments := st.assignments.set! sym { content := rev, len := st.l } }

theorem craftStep_spec {X : Ctx} (hX : X.OK) {j : Nat} (hj : j < X.f.length) {st : CraftSt}
    (h : Inv X j st) : ∃ st', craftStep X.D X.f st j = .ok st' ∧ Inv X (j + 1) st' := by
  obtain ⟨st1, g1, g2, g3⟩ := grow_spec hX hj (X.tl j + 1) st h (by omega)
  have hjm : j < st1.m := free_pos hX hj g2.count
  have hsz : st1.m ≤ st1.c.size := by
    have := slots_bound hX hj g2.l_le g2.count
    have := g2.jm
    rw [g2.csize]; omega
  have hl32 : st1.l ≤ 32 := by have := hX.leT j hj; have := hX.T32; omega
  obtain ⟨rc, r1, r2⟩ := reverseCode_spec hX g2.ldvd hl32 (st1.c.getD j 0)
  have hsym : X.sy j < st1.assignments.size := by
    have := hX.sym_le j hj; rw [g2.asize]; omega
  refine ⟨{ st1 with assignments := st1.assignments.set! (X.sy j) ⟨rc, st1.l⟩ }, ?_, ?_⟩
  · unfold craftStep
    show (do
      let st ← grow X.D j (X.tl j) (X.tl j + 1) st
      let cj ← idx st.c j
      let rev ← reverseCode X.D cj st.l
      if X.sy j ≥ st.assignments.size then throw Fault.indexPanic
      pure { st with assignments := st.assignments.set! (X.sy j) { content := rev, len := st.l } }) = _
    rw [g1, bind_ok, idx_ok (by omega) 0, bind_ok, r1, bind_ok, if_neg (by omega)]
    rfl
  · have hlev : ∀ i, lev X (j + 1) st1.l i = lev X j st1.l i := by
      intro i
      unfold lev
      by_cases h1 : i < j
      · rw [if_pos h1, if_pos (by omega)]
      · by_cases h2 : i = j
        · subst h2; rw [if_neg h1, if_pos (by omega), g3]
        · rw [if_neg h1, if_neg (by omega)]
    refine ⟨g2.csize, ?_, hjm, g2.mle, g2.ldvd, ?_, ?_, ?_, ?_, ?_, ?_, ?_⟩
    · show (st1.assignments.set! _ _).size = _
      simp [g2.asize]
    · intro i hi
      by_cases h2 : i = j
      · subst h2; exact Nat.le_of_eq g3.symm
      · exact g2.l_ge i (by omega)
    · intro i h1 h2
      have := hX.sorted j i (by omega) h2
      show st1.l ≤ _; omega
    · show (st1.m - (j + 1)) * 2 ^ (X.T - st1.l) + _ = _
      rw [ksum_take_succ X hj, ← g3]
      have := g2.count
      have e : st1.m - j = (st1.m - (j + 1)) + 1 := by omega
      rw [e, Nat.succ_mul] at this
      omega
    · intro i hi; rw [hlev]; exact g2.bnd i hi
    · intro i i' h1 h2; rw [hlev]; exact g2.ord i i' h1 h2
    · intro i hi
      show ∃ rc', (st1.assignments.set! (X.sy j) ⟨rc, st1.l⟩).getD (X.sy i) {} = _ ∧ _
      rw [getD_set!']
      by_cases h2 : i = j
      · subst h2
        rw [if_pos ⟨rfl, hsym⟩]
        exact ⟨rc, by rw [g3], g3 ▸ r2⟩
      · have hne : X.sy j ≠ X.sy i := fun e => h2 (hX.inj i j (by omega) hj e.symm)
        rw [if_neg (fun e => hne e.1)]
        exact g2.asg i (by omega)
    · intro s hs
      show (st1.assignments.set! (X.sy j) ⟨rc, st1.l⟩).getD s {} = _
      rw [getD_set!', if_neg (fun e => hs j (by omega) e.1)]
      exact g2.nasg s (fun i hi => hs i (by omega))

def initSt (X : Ctx) : CraftSt :=
  { c := Array.replicate X.slots 0, assignments := Array.replicate (X.sigma + 1) {} }

theorem inv_init {X : Ctx} (hX : X.OK) : Inv X 0 (initSt X) := by
  have hcount : (1 - 0) * 2 ^ (X.T - 0) + ksum X.T (X.f.take 0) = 2 ^ X.T := by simp [ksum]
  refine ⟨by simp [initSt], by simp [initSt], Nat.zero_le _, ?_, Nat.dvd_zero _, ?_, ?_, ?_, ?_, ?_, ?_, ?_⟩
  · show 1 ≤ _
    have := free_bound hX (j := 0) (m := 1) (l := 0) (fun _ _ _ => Nat.zero_le _) hcount
    omega
  · intro i hi; omega
  · intro i _ _; exact Nat.zero_le _
  · exact hcount
  · intro i hi
    have hi : i < 1 := hi
    have : i = 0 := by omega
    subst this
    show (Array.replicate X.slots 0).getD 0 0 < 2 ^ lev X 0 0 0
    simp [lev, Array.getD_eq_getD_getElem?, Array.getElem?_replicate]
    split <;> simp
  · intro i i' h1 h2
    have h2 : i' < 1 := h2
    omega
  · intro i hi; omega
  · intro s _
    show (Array.replicate (X.sigma + 1) ({} : PrefixCode)).getD s {} = {}
    simp [Array.getD_eq_getD_getElem?, Array.getElem?_replicate]
    split <;> simp

/-- the invariant holds after every prefix of the main loop, which therefore never faults -/
theorem craft_loop_inv {X : Ctx} (hX : X.OK) : ∀ n, n ≤ X.f.length →
    ∃ st, (List.range n).foldlM (craftStep X.D X.f) (initSt X) = .ok st ∧ Inv X n st := by
  intro n
  induction n with
  | zero => intro _; exact ⟨initSt X, rfl, inv_init hX⟩
  | succ n ih =>
    intro hn
    obtain ⟨st, h1, h2⟩ := ih (by omega)
    obtain ⟨st', h3, h4⟩ := craftStep_spec hX (show n < X.f.length by omega) h2
    refine ⟨st', ?_, h4⟩
    rw [List.range_succ, List.foldlM_append, h1, bind_ok]
    simp only [List.foldlM_cons, List.foldlM_nil]
    rw [h3]; rfl

end Qwt.Proofs.Craft
