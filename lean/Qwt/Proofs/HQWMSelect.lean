import Qwt.Proofs.HQWM

/-!
Pure list-level Huffman-shaped quad wavelet matrix, continued: `select` (upward pass) and
`get` (following an element down to the level where its code ends).  The one-level selection
lemmas of the binary matrix (`BinWM.sel_in_block`, `sel_out_block`, `select_comp`) are reused
through the indicator `fun x => key x == d`.  Core Lean only.
-/
set_option linter.unusedSimpArgs false
set_option linter.unusedVariables false

namespace Qwt.HQWM
open Qwt

variable {α : Type}

/-! ## from digits to indicators -/

theorem select_ind (key : α → Nat) (d k : Nat) (l : List α) :
    Spec.select d k (l.map key) = Spec.select true k (l.map (fun x => key x == d)) := by
  induction l generalizing k with
  | nil => rfl
  | cons x xs ih =>
    simp only [List.map_cons, Spec.select]
    cases hb : key x == d
    · simp [ih]
    · cases k with
      | zero => simp
      | succ k => simp [ih]

theorem rank_ind (key : α → Nat) (d j : Nat) (l : List α) :
    Spec.rank d j (l.map key) = Spec.rank true j (l.map (fun x => key x == d)) := by
  rw [WM.rank_map, BinWM.rank_map]
  apply List.countP_congr
  intro x _
  cases key x == d <;> simp

theorem filter_ind (p : α → Bool) (l : List α) : l.filter (fun x => p x == true) = l.filter p := by
  congr 1; funext x; cases p x <;> rfl

/-! ## select -/

def selUpQ (δ : Nat → α → Nat) (len : α → Nat) (c : α) (S : List α) : Nat → Nat → Option Nat
  | 0, res => some res
  | k + 1, res =>
    match Spec.select (δ k c)
        (Spec.rank (δ k c) (blkStartQ δ len c S k) (digsQ δ len k S) + res) (digsQ δ len k S) with
    | none => none
    | some q => selUpQ δ len c S k (q - blkStartQ δ len c S k)

theorem filter_agP_dig (δ : Nat → α → Nat) (len : α → Nat) (c : α) (k : Nat) (S : List α) :
    (S.filter (agP δ len c k)).filter (fun x => δ k x == δ k c) = S.filter (agR δ len c (k + 1)) := by
  rw [List.filter_filter]
  congr 1; funext x; rw [Bool.and_comm, agP_and_dig]

theorem filter_agR_eq {δ : Nat → α → Nat} {len : α → Nat} {S : List α} (h : QOK δ len S)
    {c : α} (hc : c ∈ S) {k : Nat} (hk : k < len c) :
    S.filter (agR δ len c k) = S.filter (agP δ len c k) :=
  List.filter_congr (fun _ hx => agR_eq_agP h hc hk hx)

theorem selUpQ_spec {δ : Nat → α → Nat} {len : α → Nat} {S : List α} (h : QOK δ len S)
    {c : α} (hc : c ∈ S) (k res : Nat) (hk : k ≤ len c) (h0 : k = 0 → res < S.length) :
    selUpQ δ len c S k res = Spec.select true res (S.map (agR δ len c k)) := by
  induction k generalizing res with
  | zero =>
    have hres := h0 rfl
    rw [selUpQ]
    symm
    rw [BinWM.select_eq_some_iff]
    have : agR δ len c 0 = fun _ => true := by funext x; simp [agR, agQ_zero]
    refine ⟨?_, ?_⟩
    · rw [List.getElem?_map, List.getElem?_eq_getElem hres]; simp [this]
    · rw [BinWM.rank_map, this]
      simp; omega
  | succ k ih =>
    have hk' : k < len c := by omega
    obtain ⟨A, C, h1, h2⟩ := blkQ h hc k hk'
    rw [selUpQ, digsQ, h1, ← h2, rank_ind, select_ind]
    by_cases hres : res < (S.filter (agR δ len c (k + 1))).length
    · obtain ⟨j, hj1, hj2⟩ := BinWM.sel_in_block (fun x => δ k x == δ k c) true A
        (S.filter (agP δ len c k)) C res
        (by rw [filter_ind, filter_agP_dig]; exact hres)
      rw [hj1]
      simp only [Nat.add_sub_cancel_left]
      have hjl : j < (S.filter (agP δ len c k)).length := by
        have := (BinWM.select_some hj2).1; simpa using this
      have hjS : j < S.length := Nat.lt_of_lt_of_le hjl (List.length_filter_le _ _)
      rw [ih j (by omega) (fun _ => hjS)]
      have := BinWM.select_comp (agP δ len c k) (fun x => δ k x == δ k c) true S res j hj2
      have e1 : S.map (agR δ len c k) = S.map (agP δ len c k) :=
        List.map_congr_left (fun _ hx => agR_eq_agP h hc hk' hx)
      rw [e1, ← this]
      congr 2; funext x; rw [← agP_and_dig]
      cases (δ k x == δ k c) <;> rfl
    · have hres : (S.filter (agR δ len c (k + 1))).length ≤ res := by omega
      have hnone : Spec.select true res (S.map (agR δ len c (k + 1))) = none :=
        BinWM.select_none (by rw [BinWM.count_map_true]; exact hres)
      rw [hnone]
      cases hq : Spec.select true
          (Spec.rank true A.length
            ((A ++ S.filter (agP δ len c k) ++ C).map (fun x => δ k x == δ k c)) + res)
          ((A ++ S.filter (agP δ len c k) ++ C).map (fun x => δ k x == δ k c)) with
      | none => rfl
      | some q =>
        simp only
        obtain ⟨hq1, hq2⟩ := BinWM.sel_out_block (fun x => δ k x == δ k c) true A _ C res q
          (by rw [filter_ind, filter_agP_dig]; exact hres) hq
        cases k with
        | zero =>
          exfalso
          rw [← h1] at hq2
          simp only [lvlQ] at hq2
          have : S.filter (agP δ len c 0) = S := by
            apply List.filter_eq_self.mpr
            intro x hx; simp [agP, agQ_zero, h.pos x hx]
          rw [this] at hq1
          omega
        | succ k =>
          rw [ih _ (by omega) (by intro h; cases h)]
          exact BinWM.select_none (by rw [BinWM.count_map_true, filter_agR_eq h hc hk']; omega)

/-! ## get -/

/-- position at level `k` of the element `x` that sits at position `j` of `S` -/
def trackQ (δ : Nat → α → Nat) (len : α → Nat) (S : List α) (x : α) (j : Nat) : Nat → Nat
  | 0 => j
  | k + 1 => nextPos (δ k x) (digsQ δ len k S) (trackQ δ len S x j k)

theorem qok_pre' {δ : Nat → α → Nat} {len : α → Nat} {S : List α} (h : QOK δ len S) (k : Nat) :
    (Spec.stablePart (δ k) 4 (lvlQ δ len k S)).Pairwise
      (fun a b => decide (k + 1 < len b) = true → decide (k + 1 < len a) = true) := by
  apply (h.pre k).imp
  intro a b hab; simpa using hab

theorem track_getQ {δ : Nat → α → Nat} {len : α → Nat} {S : List α} (h : QOK δ len S)
    (x : α) (j : Nat) (hj : S[j]? = some x) (k : Nat) (hk : k < len x) :
    (lvlQ δ len k S)[trackQ δ len S x j k]? = some x := by
  induction k with
  | zero => exact hj
  | succ k ih =>
    have := part_getQ (δ k) _ _ x (ih (by omega)) (h.dlt k x)
    rw [lvlQ, trackQ, digsQ]
    exact (BinWM.pre_get _ _ (qok_pre' h k) _ x this).1 (by simpa using hk)

/-- one level after its last digit the element is beyond the live part -/
theorem track_endQ {δ : Nat → α → Nat} {len : α → Nat} {S : List α} (h : QOK δ len S)
    (x : α) (j : Nat) (hj : S[j]? = some x) (k : Nat) (hk : k + 1 = len x) :
    (lvlQ δ len (k + 1) S).length ≤ trackQ δ len S x j (k + 1) := by
  have := part_getQ (δ k) _ _ x (track_getQ h x j hj k (by omega)) (h.dlt k x)
  rw [lvlQ, trackQ, digsQ]
  exact (BinWM.pre_get _ _ (qok_pre' h k) _ x this).2 (by simp; omega)

theorem track_ltQ {δ : Nat → α → Nat} {len : α → Nat} {S : List α} (h : QOK δ len S)
    (x : α) (j : Nat) (hj : S[j]? = some x) (k : Nat) (hk : k < len x) :
    trackQ δ len S x j k < (lvlQ δ len k S).length :=
  (List.getElem?_eq_some_iff.mp (track_getQ h x j hj k hk)).1

theorem digsQ_track {δ : Nat → α → Nat} {len : α → Nat} {S : List α} (h : QOK δ len S)
    (x : α) (j : Nat) (hj : S[j]? = some x) (k : Nat) (hk : k < len x) :
    (digsQ δ len k S)[trackQ δ len S x j k]? = some (δ k x) := by
  rw [digsQ, List.getElem?_map, track_getQ h x j hj k hk]; rfl

end Qwt.HQWM
