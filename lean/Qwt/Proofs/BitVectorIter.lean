import Qwt.Proofs.BitVectorObs

/-!
C08 — helper lemmas, part 4: the bit iterator and the position iterators.
-/
set_option linter.unusedSimpArgs false
namespace Qwt.BV
open Qwt

/-! ### `BitVectorIter` -/

theorem bitIter_next (b : BitVector) (hb : Inv b) (k : Nat) :
    BitIter.next b ⟨k⟩ = .ok ((abs b)[k]?, ⟨if k < b.nBits then k + 1 else k⟩) := by
  unfold BitIter.next
  rw [abs_getElem?]
  by_cases h : k < b.nBits
  · simp only [h, if_true]
    rw [getBitSlice_ok (hb.word_in_range h)]; rfl
  · simp only [h, if_false]; rfl

/-- `n` consecutive calls of `next`: the answers and the final iterator -/
def BitIter.nexts (b : BitVector) : Nat → BitIter → M (List (Option Bool) × BitIter)
  | 0, it => pure ([], it)
  | n + 1, it => do
    let r ← BitIter.next b it
    let rs ← BitIter.nexts b n r.2
    pure (r.1 :: rs.1, rs.2)

theorem map_none_of_ge (b : BitVector) (n : Nat) : ∀ s, b.nBits ≤ s →
    (List.range' s n).map (fun k => (abs b)[k]?) = List.replicate n none := by
  induction n with
  | zero => intro s _; rfl
  | succ n ih =>
    intro s hs
    rw [List.range'_succ, List.map_cons, ih (s + 1) (by omega), abs_getElem?,
      if_neg (by omega)]
    rfl

theorem bitIter_nexts (b : BitVector) (hb : Inv b) (n : Nat) : ∀ s, s ≤ b.nBits →
    BitIter.nexts b n ⟨s⟩ =
      .ok ((List.range' s n).map (fun k => (abs b)[k]?), ⟨min (s + n) b.nBits⟩) := by
  induction n with
  | zero => intro s hs; simp [BitIter.nexts, Nat.min_eq_left hs]; rfl
  | succ n ih =>
    intro s hs
    rw [BitIter.nexts, bitIter_next b hb, bind_ok]
    by_cases h : s < b.nBits
    · simp only [h, if_true]
      rw [ih (s + 1) (by omega), bind_ok, List.range'_succ, List.map_cons]
      have : s + 1 + n = s + (n + 1) := by omega
      rw [this]; rfl
    · simp only [h, if_false]
      have hs' : s = b.nBits := by omega
      rw [ih s hs, bind_ok, List.range'_succ, List.map_cons,
        map_none_of_ge b n s (by omega), map_none_of_ge b n (s + 1) (by omega)]
      have e1 : min (s + n) b.nBits = min (s + (n + 1)) b.nBits := by omega
      rw [e1]; rfl

theorem bitIter_len (b : BitVector) (k : Nat) (h : k ≤ b.nBits) :
    BitIter.len b ⟨k⟩ = .ok (b.nBits - k) := by
  simp [BitIter.len, sub, h]

/-! ### `ctz` -/

theorem ctz_go_spec : ∀ (f w acc : Nat), (∃ j, j < f ∧ w.testBit j = true) →
    ∃ l, ctz.go f w acc = acc + l ∧ l < f ∧ w.testBit l = true ∧ ∀ k, k < l → w.testBit k = false := by
  intro f
  induction f with
  | zero => intro w acc ⟨j, hj, _⟩; exact absurd hj (Nat.not_lt_zero _)
  | succ f ih =>
    intro w acc ⟨j, hj, hjt⟩
    unfold ctz.go
    by_cases h0 : w % 2 = 1
    · have : (w % 2 == 1) = true := by simp [h0]
      rw [if_pos this]
      refine ⟨0, rfl, Nat.succ_pos _, ?_, fun k hk => absurd hk (Nat.not_lt_zero _)⟩
      rw [Nat.testBit_zero]; simp [h0]
    · have : ¬ (w % 2 == 1) = true := by simp [h0]
      rw [if_neg this]
      have hz : w.testBit 0 = false := by rw [Nat.testBit_zero]; simp [h0]
      cases j with
      | zero => rw [hz] at hjt; exact absurd hjt (by decide)
      | succ j =>
        rw [Nat.testBit_succ] at hjt
        obtain ⟨l, h1, h2, h3, h4⟩ := ih (w / 2) (acc + 1) ⟨j, by omega, hjt⟩
        refine ⟨l + 1, by rw [h1]; omega, by omega, by rw [Nat.testBit_succ]; exact h3, ?_⟩
        intro k hk
        cases k with
        | zero => exact hz
        | succ k => rw [Nat.testBit_succ]; exact h4 k (by omega)

theorem ctz_spec (w : Nat) (hw : w ≠ 0) (hlt : ∀ j, w.testBit j = true → j < 64) :
    ctz 64 w < 64 ∧ w.testBit (ctz 64 w) = true ∧ ∀ k, k < ctz 64 w → w.testBit k = false := by
  obtain ⟨j, hj⟩ := Nat.exists_testBit_of_ne_zero hw
  obtain ⟨l, h1, h2, h3, h4⟩ := ctz_go_spec 64 w 0 ⟨j, hlt j hj, hj⟩
  unfold ctz
  rw [h1, Nat.zero_add]
  exact ⟨h2, h3, h4⟩

/-! ### position iterators -/

/-- the word the iterator loads for word index `j` -/
def pword (bit : Bool) (d : Array Nat) (j : Nat) : Nat :=
  if h : j < d.size then (if bit then d[j] else not64 d[j]) else 0

/-- position `i` lies in the allocation and holds `bit` -/
def pmatch (bit : Bool) (d : Array Nat) (i : Nat) : Bool :=
  decide (i / 64 < d.size) && (bitD d i == bit)

theorem not64_testBit (a : Nat) (ha : a < 2 ^ 64) (k : Nat) :
    (not64 a).testBit k = (decide (k < 64) && !a.testBit k) := by
  unfold not64 mask64
  rw [two64_eq, Nat.mod_eq_of_lt ha]
  have : 2 ^ 64 - 1 - a = 2 ^ 64 - (a + 1) := by omega
  rw [this, Nat.testBit_two_pow_sub_succ ha]

theorem pword_testBit (bit : Bool) (d : Array Nat) (hw : ∀ j, wordAt d j < 2 ^ 64) (j k : Nat) :
    (pword bit d j).testBit k = (decide (k < 64) && pmatch bit d (64 * j + k)) := by
  unfold pword pmatch bitD
  by_cases hk : k < 64
  · have e1 : (64 * j + k) / 64 = j := by omega
    have e2 : (64 * j + k) % 64 = k := by omega
    rw [e1, e2]
    by_cases hj : j < d.size
    · have hlt := hw j
      rw [wordAt_of_lt hj] at hlt ⊢
      simp only [hj, dite_true, hk, decide_true, Bool.true_and]
      cases bit
      · simp only [Bool.false_eq_true, if_false]
        rw [not64_testBit _ hlt]
        simp [hk]
      · simp
    · simp [hj]
  · have hlt : ∀ a, a < 2 ^ 64 → a.testBit k = false := fun a ha =>
      Nat.testBit_lt_two_pow (Nat.lt_of_lt_of_le ha (Nat.pow_le_pow_right (by decide) (by omega)))
    simp only [hk, decide_false, Bool.false_and]
    by_cases hj : j < d.size
    · have hl := hw j
      rw [wordAt_of_lt hj] at hl
      simp only [hj, dite_true]
      cases bit
      · simp only [Bool.false_eq_true, if_false]
        rw [not64_testBit _ hl]; simp [hk]
      · simp only [if_true]; exact hlt _ hl
    · simp [hj]

/-- the iterator state describes exactly the matching positions from `curPosition` on -/
structure PInv (bit : Bool) (d : Array Nat) (it : PosIter) : Prop where
  lo : it.curPosition ≤ 64 * it.curWordPos
  hi : 64 * it.curWordPos ≤ it.curPosition + 64
  bits : ∀ k, it.curWord.testBit k =
    (decide (it.curPosition + k < 64 * it.curWordPos) && pmatch bit d (it.curPosition + k))

theorem PInv.bit_lt {bit d it} (h : PInv bit d it) {k : Nat} (hk : it.curWord.testBit k = true) :
    k < 64 := by
  have := h.bits k
  rw [hk] at this
  have h1 : it.curPosition + k < 64 * it.curWordPos := by
    have := this.symm; simp only [Bool.and_eq_true, decide_eq_true_eq] at this; exact this.1
  have := h.hi
  omega

theorem new_PInv (bit : Bool) (d : Array Nat) : PInv bit d PosIter.new := by
  refine ⟨Nat.le_refl _, by decide, ?_⟩
  intro k
  show (0 : Nat).testBit k = (decide (0 + k < 64 * 0) && _)
  simp

theorem pword_eq (bit : Bool) (b : BitVector) (j : Nat) :
    (if h : j < b.data.size then (if bit then b.data[j] else not64 b.data[j]) else 0)
      = pword bit b.data j := rfl

theorem withPos_PInv (bit : Bool) (b : BitVector) (hw : ∀ j, wordAt b.data j < 2 ^ 64) (pos : Nat) :
    PInv bit b.data (PosIter.withPos bit b pos) ∧ (PosIter.withPos bit b pos).curPosition = pos := by
  refine ⟨?_, rfl⟩
  unfold PosIter.withPos
  simp only [shr6, pword_eq]
  refine ⟨?_, ?_, ?_⟩
  · show pos ≤ 64 * (pos / 64 + 1); omega
  · show 64 * (pos / 64 + 1) ≤ pos + 64; omega
  · intro k
    show (pword bit b.data (pos / 64) >>> (pos % 64)).testBit k =
      (decide (pos + k < 64 * (pos / 64 + 1)) && pmatch bit b.data (pos + k))
    rw [Nat.testBit_shiftRight, pword_testBit bit b.data hw]
    have e : 64 * (pos / 64) + (pos % 64 + k) = pos + k := by omega
    rw [e]
    congr 1
    apply decide_eq_decide.mpr
    omega

theorem skip_spec (bit : Bool) (b : BitVector) (hw : ∀ j, wordAt b.data j < 2 ^ 64) :
    ∀ (F : Nat) (it : PosIter), PInv bit b.data it → b.data.size + 1 ≤ F + it.curWordPos →
      PInv bit b.data (PosIter.skip bit b F it).1 ∧
      it.curPosition ≤ (PosIter.skip bit b F it).1.curPosition ∧
      (∀ x, it.curPosition ≤ x → x < (PosIter.skip bit b F it).1.curPosition →
        pmatch bit b.data x = false) ∧
      ((PosIter.skip bit b F it).2 = true → (PosIter.skip bit b F it).1.curWord ≠ 0) ∧
      ((PosIter.skip bit b F it).2 = false → (PosIter.skip bit b F it).1.curWord = 0 ∧
        b.data.size ≤ (PosIter.skip bit b F it).1.curWordPos) := by
  intro F
  induction F with
  | zero =>
    intro it hI hF
    unfold PosIter.skip
    dsimp only
    refine ⟨hI, Nat.le_refl _, fun x h1 h2 => absurd h2 (by omega), ?_, ?_⟩
    · intro h; simpa using h
    · intro h; refine ⟨by simpa using h, by omega⟩
  | succ F ih =>
    intro it hI hF
    unfold PosIter.skip
    by_cases h0 : it.curWord = 0
    · have hc : (it.curWord == 0) = true := by simp [h0]
      rw [if_pos hc]
      by_cases hs : it.curWordPos < b.data.size
      · simp only [hs, dite_true]
        -- the freshly loaded word
        have hI2 : PInv bit b.data
            { curWord := if bit = true then b.data[it.curWordPos] else not64 b.data[it.curWordPos],
              curPosition := it.curWordPos <<< 6, curWordPos := it.curWordPos + 1 } := by
          have hsh : it.curWordPos <<< 6 = 64 * it.curWordPos := by
            rw [Nat.shiftLeft_eq]; omega
          refine ⟨?_, ?_, ?_⟩
          · show it.curWordPos <<< 6 ≤ 64 * (it.curWordPos + 1); omega
          · show 64 * (it.curWordPos + 1) ≤ it.curWordPos <<< 6 + 64; omega
          · intro k
            show (if bit = true then b.data[it.curWordPos] else not64 b.data[it.curWordPos]).testBit k
              = (decide (it.curWordPos <<< 6 + k < 64 * (it.curWordPos + 1)) &&
                  pmatch bit b.data (it.curWordPos <<< 6 + k))
            have := pword_testBit bit b.data hw it.curWordPos k
            unfold pword at this
            simp only [hs, dite_true] at this
            rw [this, hsh]
            congr 1
            apply decide_eq_decide.mpr
            omega
        obtain ⟨r1, r2, r3, r4, r5⟩ := ih _ hI2 (by show b.data.size + 1 ≤ F + (it.curWordPos + 1); omega)
        have hsh : it.curWordPos <<< 6 = 64 * it.curWordPos := by
          rw [Nat.shiftLeft_eq]; omega
        refine ⟨r1, ?_, ?_, r4, r5⟩
        · have : it.curWordPos <<< 6 ≤ _ := r2
          have := hI.lo
          omega
        · intro x hx1 hx2
          by_cases hx : x < 64 * it.curWordPos
          · have := hI.bits (x - it.curPosition)
            rw [h0, Nat.zero_testBit] at this
            have e : it.curPosition + (x - it.curPosition) = x := by omega
            rw [e] at this
            simpa [hx] using this.symm
          · exact r3 x (by show it.curWordPos <<< 6 ≤ x; omega) hx2
      · simp only [hs, dite_false]
        refine ⟨hI, Nat.le_refl _, fun x h1 h2 => absurd h2 (by omega), ?_, ?_⟩
        · intro h; exact absurd h (by decide)
        · intro _; exact ⟨h0, by omega⟩
    · have hc : ¬ (it.curWord == 0) = true := by simp [h0]
      rw [if_neg hc]
      dsimp only
      refine ⟨hI, Nat.le_refl _, fun x h1 h2 => absurd h2 (by omega), fun _ => h0, ?_⟩
      intro h; exact absurd h (by decide)

theorem next_spec (bit : Bool) (b : BitVector) (hw : ∀ j, wordAt b.data j < 2 ^ 64)
    (it : PosIter) (hI : PInv bit b.data it) :
    match PosIter.next bit b it with
    | (some p, it') => it.curPosition ≤ p ∧ p < b.nBits ∧ pmatch bit b.data p = true ∧
        (∀ x, it.curPosition ≤ x → x < p → pmatch bit b.data x = false) ∧
        PInv bit b.data it' ∧ it'.curPosition = p + 1
    | (none, _) => ∀ x, it.curPosition ≤ x → x < b.nBits → pmatch bit b.data x = false := by
  unfold PosIter.next
  by_cases hge : it.curPosition ≥ b.nBits
  · rw [if_pos hge]
    intro x h1 h2; omega
  · rw [if_neg hge]
    obtain ⟨r1, r2, r3, r4, r5⟩ := skip_spec bit b hw (b.data.size + 1 - it.curWordPos) it hI (by omega)
    generalize hr : PosIter.skip bit b (b.data.size + 1 - it.curWordPos) it = r at r1 r2 r3 r4 r5
    obtain ⟨it1, found⟩ := r
    dsimp only at r1 r2 r3 r4 r5
    -- positions between the old position and the end of the current word of `it1`
    have inword : ∀ k, it1.curPosition + k < 64 * it1.curWordPos → it1.curWord.testBit k = false →
        pmatch bit b.data (it1.curPosition + k) = false := by
      intro k hk hz
      have := r1.bits k
      rw [hz] at this
      simpa [hk] using this.symm
    cases found
    · dsimp only
      obtain ⟨hz, hsz⟩ := r5 rfl
      intro x h1 h2
      by_cases hx : x < it1.curPosition
      · exact r3 x h1 hx
      · by_cases hx2 : x < 64 * it1.curWordPos
        · have := inword (x - it1.curPosition) (by omega) (by rw [hz, Nat.zero_testBit])
          have e : it1.curPosition + (x - it1.curPosition) = x := by omega
          rwa [e] at this
        · unfold pmatch
          have : ¬ x / 64 < b.data.size := by omega
          simp [this]
    · dsimp only
      have hnz := r4 rfl
      obtain ⟨c1, c2, c3⟩ := ctz_spec it1.curWord hnz (fun j hj => r1.bit_lt hj)
      generalize ctz 64 it1.curWord = l at c1 c2 c3
      have hb := r1.bits l
      rw [c2] at hb
      have hb' := hb.symm
      simp only [Bool.and_eq_true, decide_eq_true_eq] at hb'
      obtain ⟨hl1, hl2⟩ := hb'
      have before : ∀ x, it.curPosition ≤ x → x < it1.curPosition + l → pmatch bit b.data x = false := by
        intro x h1 h2
        by_cases hx : x < it1.curPosition
        · exact r3 x h1 hx
        · have := inword (x - it1.curPosition) (by omega) (c3 _ (by omega))
          have e : it1.curPosition + (x - it1.curPosition) = x := by omega
          rwa [e] at this
      by_cases hp : it1.curPosition + l ≥ b.nBits
      · rw [if_pos hp]
        intro x h1 h2
        exact before x h1 (by omega)
      · rw [if_neg hp]
        refine ⟨by omega, by omega, hl2, before, ⟨?_, ?_, ?_⟩, rfl⟩
        · show it1.curPosition + l + 1 ≤ 64 * it1.curWordPos; omega
        · show 64 * it1.curWordPos ≤ it1.curPosition + l + 1 + 64
          have := r1.hi; omega
        · intro k
          show (if l ≥ 63 then 0 else it1.curWord >>> (l + 1)).testBit k =
            (decide (it1.curPosition + l + 1 + k < 64 * it1.curWordPos) &&
              pmatch bit b.data (it1.curPosition + l + 1 + k))
          by_cases h63 : l ≥ 63
          · rw [if_pos h63, Nat.zero_testBit]
            have := r1.hi
            have : ¬ (it1.curPosition + l + 1 + k < 64 * it1.curWordPos) := by omega
            simp [this]
          · rw [if_neg h63, Nat.testBit_shiftRight, r1.bits]
            have e : it1.curPosition + (l + 1 + k) = it1.curPosition + l + 1 + k := by omega
            rw [e]

/-- `next` is `none` forever once it was `none` (no invariant needed) -/
theorem skip_false (bit : Bool) (b : BitVector) : ∀ (F : Nat) (it : PosIter),
    b.data.size + 1 ≤ F + it.curWordPos → (PosIter.skip bit b F it).2 = false →
    (PosIter.skip bit b F it).1.curWord = 0 ∧ b.data.size ≤ (PosIter.skip bit b F it).1.curWordPos := by
  intro F
  induction F with
  | zero =>
    intro it hF
    unfold PosIter.skip
    dsimp only
    intro h; exact ⟨by simpa using h, by omega⟩
  | succ F ih =>
    intro it hF
    unfold PosIter.skip
    by_cases h0 : it.curWord = 0
    · have hc : (it.curWord == 0) = true := by simp [h0]
      rw [if_pos hc]
      by_cases hs : it.curWordPos < b.data.size
      · simp only [hs, dite_true]
        exact ih _ (by show b.data.size + 1 ≤ F + (it.curWordPos + 1); omega)
      · simp only [hs, dite_false]
        intro _; exact ⟨h0, by omega⟩
    · have hc : ¬ (it.curWord == 0) = true := by simp [h0]
      rw [if_neg hc]
      dsimp only
      intro h; exact absurd h (by decide)

theorem skip_done (bit : Bool) (b : BitVector) (F : Nat) (it : PosIter) (h0 : it.curWord = 0)
    (hs : b.data.size ≤ it.curWordPos) : PosIter.skip bit b F it = (it, false) := by
  cases F with
  | zero => unfold PosIter.skip; simp [h0]
  | succ F =>
    unfold PosIter.skip
    have hc : (it.curWord == 0) = true := by simp [h0]
    have : ¬ it.curWordPos < b.data.size := by omega
    rw [if_pos hc]; simp only [this, dite_false]

theorem posIter_none_stable (bit : Bool) (b : BitVector) (it : PosIter)
    (h : (PosIter.next bit b it).1 = none) :
    PosIter.next bit b (PosIter.next bit b it).2 = (none, (PosIter.next bit b it).2) := by
  unfold PosIter.next at h ⊢
  by_cases hge : it.curPosition ≥ b.nBits
  · simp only [hge, if_true]
  · simp only [hge, if_false] at h ⊢
    have hsf := skip_false bit b (b.data.size + 1 - it.curWordPos) it (by omega)
    generalize hr : PosIter.skip bit b (b.data.size + 1 - it.curWordPos) it = r at h hsf ⊢
    obtain ⟨it1, found⟩ := r
    cases found
    · dsimp only at hsf ⊢
      obtain ⟨hz, hsz⟩ := hsf rfl
      by_cases hge1 : it1.curPosition ≥ b.nBits
      · simp only [hge1, if_true]
      · simp only [hge1, if_false]
        rw [skip_done bit b _ it1 hz hsz]
    · dsimp only at h ⊢
      by_cases hp : it1.curPosition + ctz 64 it1.curWord ≥ b.nBits
      · simp only [hp, if_true]
        have : it1.curPosition + ctz 64 it1.curWord + 1 ≥ b.nBits := by omega
        simp only [this, if_true]
      · simp only [hp, if_false] at h
        exact absurd h (by simp)

/-! ### `collect` -/

theorem filter_range'_nil (Q : Nat → Bool) (s n : Nat) (h : ∀ x, s ≤ x → x < s + n → Q x = false) :
    (List.range' s n).filter Q = [] := by
  rw [List.filter_eq_nil_iff]
  intro a ha
  rw [List.mem_range'_1] at ha
  rw [h a ha.1 ha.2]; decide

theorem filter_range'_cons (Q : Nat → Bool) : ∀ (n s p : Nat), s ≤ p → p < s + n → Q p = true →
    (∀ x, s ≤ x → x < p → Q x = false) →
    (List.range' s n).filter Q = p :: (List.range' (p + 1) (s + n - (p + 1))).filter Q := by
  intro n
  induction n with
  | zero => intro s p h1 h2; omega
  | succ n ih =>
    intro s p h1 h2 hp hlt
    rw [List.range'_succ, List.filter_cons]
    by_cases hs : s = p
    · subst hs
      rw [if_pos hp]
      have : s + (n + 1) - (s + 1) = n := by omega
      rw [this]
    · have : Q s = false := hlt s (Nat.le_refl _) (by omega)
      rw [if_neg (by rw [this]; decide)]
      rw [ih (s + 1) p (by omega) (by omega) hp (fun x hx1 hx2 => hlt x (by omega) hx2)]
      have : s + 1 + n - (p + 1) = s + (n + 1) - (p + 1) := by omega
      rw [this]

theorem collect_spec (bit : Bool) (b : BitVector) (hw : ∀ j, wordAt b.data j < 2 ^ 64) :
    ∀ (f : Nat) (it : PosIter), PInv bit b.data it → b.nBits < f + it.curPosition →
      PosIter.collect bit b f it =
        (List.range' it.curPosition (b.nBits - it.curPosition)).filter (pmatch bit b.data) := by
  intro f
  induction f with
  | zero =>
    intro it _ hf
    have : b.nBits - it.curPosition = 0 := by omega
    rw [this]; rfl
  | succ f ih =>
    intro it hI hf
    unfold PosIter.collect
    have hn := next_spec bit b hw it hI
    generalize hr : PosIter.next bit b it = r at hn
    obtain ⟨o, it'⟩ := r
    cases o with
    | none =>
      dsimp only at hn ⊢
      rw [filter_range'_nil]
      intro x h1 h2; exact hn x h1 (by omega)
    | some p =>
      dsimp only at hn ⊢
      obtain ⟨h1, h2, h3, h4, h5, h6⟩ := hn
      rw [ih it' h5 (by omega), h6,
        filter_range'_cons _ (b.nBits - it.curPosition) it.curPosition p h1 (by omega) h3 h4]
      have : it.curPosition + (b.nBits - it.curPosition) - (p + 1) = b.nBits - (p + 1) := by omega
      rw [this]

theorem filter_range_eq (g Q : Nat → Bool) (c : Nat) : ∀ N, (∀ i, i < N → g i = (decide (c ≤ i) && Q i)) →
    (List.range N).filter g = (List.range' c (N - c)).filter Q := by
  intro N
  induction N with
  | zero => intro _; rw [Nat.zero_sub]; rfl
  | succ N ih =>
    intro h
    rw [List.range_succ, List.filter_append, ih (fun i hi => h i (by omega))]
    by_cases hc : c ≤ N
    · have e : N + 1 - c = (N - c) + 1 := by omega
      rw [e, List.range'_concat, List.filter_append]
      have e2 : c + 1 * (N - c) = N := by omega
      rw [e2]
      congr 1
      have := h N (by omega)
      simp only [List.filter_cons, List.filter_nil, this, hc, decide_true, Bool.true_and]
    · have e : N + 1 - c = 0 := by omega
      have e' : N - c = 0 := by omega
      rw [e, e']
      have := h N (by omega)
      simp [List.filter_cons, this, hc]

theorem pmatch_eq (bit : Bool) (b : BitVector) (hb : Inv b) (i : Nat) (hi : i < b.nBits) :
    pmatch bit b.data i = decide ((abs b)[i]! = bit) := by
  unfold pmatch
  have := hb.word_in_range hi
  have e : (abs b)[i]! = bitAt b i := by
    rw [getElem!_pos (abs b) i (by simpa using hi), abs_getElem]
  rw [e]
  simp only [this, decide_true, Bool.true_and]
  unfold bitAt
  cases bitD b.data i <;> cases bit <;> rfl

theorem posIter_ok (bit : Bool) (b : BitVector) (hb : Inv b) (pos : Nat) :
    PosIter.collect bit b (b.nBits + 1) (PosIter.withPos bit b pos) =
      (List.range b.nBits).filter (fun i => decide (pos ≤ i ∧ (abs b)[i]! = bit)) := by
  obtain ⟨hI, hp⟩ := withPos_PInv bit b hb.wordAt_lt pos
  rw [collect_spec bit b hb.wordAt_lt _ _ hI (by omega), hp]
  symm
  apply filter_range_eq
  intro i hi
  rw [pmatch_eq bit b hb i hi, Bool.decide_and]

theorem posIter_new_ok (bit : Bool) (b : BitVector) (hb : Inv b) :
    PosIter.collect bit b (b.nBits + 1) PosIter.new =
      (List.range b.nBits).filter (fun i => decide ((abs b)[i]! = bit)) := by
  rw [collect_spec bit b hb.wordAt_lt _ _ (new_PInv bit b.data) (by omega)]
  symm
  show _ = (List.range' 0 (b.nBits - 0)).filter _
  apply filter_range_eq
  intro i hi
  rw [pmatch_eq bit b hb i hi]; simp

end Qwt.BV
