import Qwt.Spec.Basic

/-!
List-level wavelet matrix of arity 4 (core Lean only).

* `stablePart` facts: the slice lemma `slice_stablePart` (the block of the elements of a
  slice that carry digit `d` is a slice of the partitioned list) and `part_pos`.
* `selectP`: position of the `(k+1)`-th element satisfying a predicate; `Spec.select` is the
  instance `(· == c)`.
* `dig`, `rankWM`, `getWM`, `selWM`: the three top-down / bottom-up recursions of the quad
  wavelet matrix over plain lists, and their correctness against `Spec.rank`, `s[i]?`,
  `Spec.select`.
-/
set_option linter.unusedSimpArgs false
set_option linter.unusedVariables false

namespace Qwt.WM
open Qwt.Spec

/-! ### counting / filtering -/

theorem countP_lt_succ {α} (key : α → Nat) (d : Nat) (s : List α) :
    s.countP (fun x => key x < d + 1) =
      s.countP (fun x => key x < d) + s.countP (fun x => key x == d) := by
  induction s with
  | nil => rfl
  | cons x xs ih =>
    simp only [List.countP_cons, ih]
    by_cases h1 : key x < d
    · have h2 : key x < d + 1 := by omega
      have h3 : ¬ key x = d := by omega
      simp [h1, h2, h3]; omega
    · by_cases h3 : key x = d
      · have h2 : key x < d + 1 := by omega
        simp [h1, h2, h3]; omega
      · have h2 : ¬ key x < d + 1 := by omega
        simp [h1, h2, h3]

theorem filter_take_countP {α} (P : α → Bool) (s : List α) (i : Nat) :
    (s.filter P).take ((s.take i).countP P) = (s.take i).filter P := by
  induction s generalizing i with
  | nil => simp
  | cons x xs ih =>
    cases i with
    | zero => simp
    | succ i =>
      by_cases h : P x = true
      · simp [List.take_succ_cons, List.filter_cons, List.countP_cons, h, ih]
      · simp [List.take_succ_cons, List.filter_cons, List.countP_cons, h, ih]

theorem filter_drop_countP {α} (P : α → Bool) (s : List α) (i : Nat) :
    (s.filter P).drop ((s.take i).countP P) = (s.drop i).filter P := by
  induction s generalizing i with
  | nil => simp
  | cons x xs ih =>
    cases i with
    | zero => simp
    | succ i =>
      by_cases h : P x = true
      · simp [List.take_succ_cons, List.filter_cons, List.countP_cons, h, ih]
      · simp [List.take_succ_cons, List.filter_cons, List.countP_cons, h, ih]

theorem countP_take_le {α} (P : α → Bool) (s : List α) (i : Nat) :
    (s.take i).countP P ≤ s.countP P := by
  have := List.Sublist.countP_le (p := P) (List.take_sublist i s)
  exact this

theorem countP_take_mono {α} (P : α → Bool) (s : List α) {p i : Nat} (h : p ≤ i) :
    (s.take p).countP P ≤ (s.take i).countP P := by
  have : s.take p = (s.take i).take p := by rw [List.take_take, Nat.min_eq_left h]
  rw [this]; exact countP_take_le P _ p

/-- the `[p, i)` slice of a filtered list, in terms of counts -/
theorem filter_slice {α} (P : α → Bool) (s : List α) {p i : Nat} (h : p ≤ i) :
    ((s.filter P).take ((s.take i).countP P)).drop ((s.take p).countP P) =
      ((s.take i).drop p).filter P := by
  rw [filter_take_countP]
  have : s.take p = (s.take i).take p := by rw [List.take_take, Nat.min_eq_left h]
  rw [this, ← filter_drop_countP]

/-! ### stable partition -/

theorem stablePart_succ {α} (key : α → Nat) (r : Nat) (s : List α) :
    stablePart key (r + 1) s = stablePart key r s ++ s.filter (fun x => key x == r) := by
  simp [stablePart, List.range_succ, List.flatMap_append]

theorem length_stablePart {α} (key : α → Nat) (r : Nat) (s : List α) :
    (stablePart key r s).length = occsSmaller key r s := by
  induction r with
  | zero => simp [stablePart, occsSmaller]
  | succ r ih =>
    rw [stablePart_succ, List.length_append, ih]
    simp only [occsSmaller]
    rw [countP_lt_succ, List.countP_eq_length_filter (p := fun x => key x == r)]

theorem stablePart_split {α} (key : α → Nat) (s : List α) {d r : Nat} (h : d < r) :
    ∃ C, stablePart key r s = stablePart key d s ++ (s.filter (fun x => key x == d) ++ C) := by
  induction r with
  | zero => omega
  | succ r ih =>
    by_cases hd : d = r
    · subst hd; exact ⟨[], by simp [stablePart_succ]⟩
    · obtain ⟨C, hC⟩ := ih (by omega)
      exact ⟨C ++ s.filter (fun x => key x == r), by rw [stablePart_succ, hC]; simp⟩

theorem length_stablePart_all {α} (key : α → Nat) (r : Nat) (s : List α)
    (h : ∀ x ∈ s, key x < r) : (stablePart key r s).length = s.length := by
  rw [length_stablePart, occsSmaller, List.countP_eq_length]
  intro x hx; simp [h x hx]

theorem mem_stablePart {α} (key : α → Nat) (r : Nat) (s : List α) (x : α)
    (h : x ∈ stablePart key r s) : x ∈ s := by
  simp only [stablePart, List.mem_flatMap, List.mem_filter] at h
  obtain ⟨_, _, h, _⟩ := h; exact h

theorem rank_map {α} (key : α → Nat) (d i : Nat) (s : List α) :
    rank d i (s.map key) = (s.take i).countP (fun x => key x == d) := by
  simp only [rank, ← List.map_take, List.count_eq_countP, List.countP_map]
  rfl

theorem occsSmaller_map {α} (key : α → Nat) (d : Nat) (s : List α) :
    occsSmaller id d (s.map key) = occsSmaller key d s := by
  simp only [occsSmaller, List.countP_map]; rfl

theorem rank_le_length {α} [BEq α] (c : α) (i : Nat) (s : List α) : rank c i s ≤ i := by
  simp only [rank]
  have := List.count_le_length (a := c) (l := s.take i)
  have := List.length_take_le i s
  omega

/-- `occsSmaller d + (number of d's) ≤ length` -/
theorem off_add_countP_le {α} (key : α → Nat) (d : Nat) (s : List α) :
    occsSmaller key d s + s.countP (fun x => key x == d) ≤ s.length := by
  simp only [occsSmaller]; rw [← countP_lt_succ]; exact List.countP_le_length

theorem off_add_rank_le {α} (key : α → Nat) (d i : Nat) (s : List α) :
    rank d i (s.map key) + occsSmaller id d (s.map key) ≤ s.length := by
  rw [rank_map, occsSmaller_map]
  have := off_add_countP_le key d s
  have := countP_take_le (fun x => key x == d) s i
  omega

/-- **slice lemma**: the elements with digit `d` of the slice `[p, i)` of `s` form the slice
    `[rank d p + off, rank d i + off)` of the partitioned list, in the same order. -/
theorem slice_stablePart {α} (key : α → Nat) (s : List α) {d r p i : Nat} (hd : d < r) (h : p ≤ i) :
    ((stablePart key r s).take (rank d i (s.map key) + occsSmaller id d (s.map key))).drop
        (rank d p (s.map key) + occsSmaller id d (s.map key)) =
      ((s.take i).drop p).filter (fun x => key x == d) := by
  obtain ⟨C, hC⟩ := stablePart_split key s hd
  rw [hC, rank_map, rank_map, occsSmaller_map, ← length_stablePart]
  have hi := countP_take_le (fun x => key x == d) s i
  have hp := countP_take_mono (fun x => key x == d) s h
  rw [List.countP_eq_length_filter (l := s)] at hi
  rw [List.take_append, List.drop_append]
  have e1 : List.countP (fun x => key x == d) (List.take i s) + (stablePart key d s).length -
      (stablePart key d s).length = List.countP (fun x => key x == d) (List.take i s) := by omega
  have e2 : List.countP (fun x => key x == d) (List.take p s) + (stablePart key d s).length -
      (List.take (List.countP (fun x => key x == d) (List.take i s) + (stablePart key d s).length)
        (stablePart key d s)).length = List.countP (fun x => key x == d) (List.take p s) := by
    rw [List.length_take]; omega
  rw [e1, e2, List.take_append_of_le_length hi, ← filter_slice _ _ h]
  rw [List.drop_eq_nil_of_le (by rw [List.length_take]; omega)]
  rfl

/-- an element of `s` with digit `d` at index `i` lands at index `rank d i + off` -/
theorem part_pos {α} (key : α → Nat) (s : List α) {d r i : Nat} {x : α} (hd : d < r)
    (hx : s[i]? = some x) (hk : key x = d) :
    (stablePart key r s)[rank d i (s.map key) + occsSmaller id d (s.map key)]? = some x := by
  have h := slice_stablePart key s hd (Nat.le_succ i)
  obtain ⟨hi, hxi⟩ := List.getElem?_eq_some_iff.mp hx
  have e1 : (s.take (i + 1)).drop i = [x] := by
    rw [List.drop_take, List.drop_eq_getElem_cons hi, hxi]; simp
  have e2 : rank d (i + 1) (s.map key) = rank d i (s.map key) + 1 := by
    rw [rank_map, rank_map, List.take_add_one, hx]; simp [List.countP_append, hk]
  rw [e1, e2] at h
  have h0 := congrArg (fun l => l[0]?) h
  simp only [List.getElem?_drop, List.getElem?_take, hk, beq_self_eq_true, List.filter_cons_of_pos,
    List.filter_nil, List.getElem?_cons_zero, Nat.add_zero] at h0
  rw [if_pos (by omega)] at h0
  exact h0

/-! ### `selectP` -/

/-- position of the `(k+1)`-th element satisfying `P` -/
def selectP {α} (P : α → Bool) : Nat → List α → Option Nat
  | _, [] => none
  | k, x :: xs =>
    if P x then
      match k with
      | 0 => some 0
      | k + 1 => (selectP P k xs).map (· + 1)
    else (selectP P k xs).map (· + 1)

theorem selectP_cons_pos_zero {α} {P : α → Bool} {x : α} (xs : List α) (h : P x = true) :
    selectP P 0 (x :: xs) = some 0 := by simp [selectP, h]

theorem selectP_cons_pos_succ {α} {P : α → Bool} {x : α} (xs : List α) (k : Nat) (h : P x = true) :
    selectP P (k + 1) (x :: xs) = (selectP P k xs).map (· + 1) := by
  simp only [selectP, h, if_true]

theorem selectP_cons_neg {α} {P : α → Bool} {x : α} (xs : List α) (k : Nat) (h : ¬ P x = true) :
    selectP P k (x :: xs) = (selectP P k xs).map (· + 1) := by
  cases k <;> (simp only [selectP, h]; rfl)

theorem select_eq_selectP (c k : Nat) (s : List Nat) :
    select c k s = selectP (fun x => x == c) k s := by
  induction s generalizing k with
  | nil => rfl
  | cons x xs ih =>
    cases k with
    | zero => simp only [select, selectP, ih]
    | succ k => simp only [select, selectP, ih]

theorem select_map_eq_selectP {α} (key : α → Nat) (d k : Nat) (s : List α) :
    select d k (s.map key) = selectP (fun x => key x == d) k s := by
  induction s generalizing k with
  | nil => rfl
  | cons x xs ih =>
    cases k with
    | zero => simp only [List.map_cons, select, selectP, ih]
    | succ k => simp only [List.map_cons, select, selectP, ih]

theorem selectP_none_iff {α} (P : α → Bool) (k : Nat) (s : List α) :
    selectP P k s = none ↔ s.countP P ≤ k := by
  induction s generalizing k with
  | nil => simp [selectP]
  | cons x xs ih =>
    by_cases h : P x = true
    · cases k with
      | zero => simp [selectP, h, List.countP_cons]
      | succ k => simp [selectP, h, List.countP_cons, ih]
    · simp [selectP, h, List.countP_cons, ih]

theorem selectP_some {α} (P : α → Bool) {k p : Nat} {s : List α} (h : selectP P k s = some p) :
    (∃ x, s[p]? = some x ∧ P x = true) ∧ (s.take p).countP P = k := by
  induction s generalizing k p with
  | nil => simp [selectP] at h
  | cons x xs ih =>
    by_cases hx : P x = true
    · cases k with
      | zero =>
        rw [selectP_cons_pos_zero xs hx] at h
        simp only [Option.some.injEq] at h
        subst h; simp [hx]
      | succ k =>
        rw [selectP_cons_pos_succ xs k hx, Option.map_eq_some_iff] at h
        obtain ⟨q, hq, rfl⟩ := h
        have := ih hq
        simp [List.take_succ_cons, List.countP_cons, hx, this]
    · rw [selectP_cons_neg xs k hx, Option.map_eq_some_iff] at h
      obtain ⟨q, hq, rfl⟩ := h
      have := ih hq
      simp [List.take_succ_cons, List.countP_cons, hx, this]

theorem selectP_lt_length {α} (P : α → Bool) {k p : Nat} {s : List α} (h : selectP P k s = some p) :
    p < s.length := by
  obtain ⟨⟨x, hx, _⟩, _⟩ := selectP_some P h
  exact (List.getElem?_eq_some_iff.mp hx).1

/-- selecting past a prefix -/
theorem selectP_add_countP_take {α} (P : α → Bool) (s : List α) (b q : Nat) :
    selectP P ((s.take b).countP P + q) s = (selectP P q (s.drop b)).map (· + b) := by
  induction s generalizing b with
  | nil => simp [selectP]
  | cons x xs ih =>
    cases b with
    | zero => simp
    | succ b =>
      by_cases hx : P x = true
      · have e : (List.take (b + 1) (x :: xs)).countP P + q = ((xs.take b).countP P + q) + 1 := by
          simp [List.take_succ_cons, List.countP_cons, hx]; omega
        rw [e]; simp only [selectP, hx, if_true, ih, List.drop_succ_cons, Option.map_map]
        congr 1
      · have e : (List.take (b + 1) (x :: xs)).countP P + q = ((xs.take b).countP P + q) := by
          simp [List.take_succ_cons, List.countP_cons, hx]
        rw [e]; simp only [selectP, hx, ih, List.drop_succ_cons, Option.map_map]
        congr 1

/-- selecting inside a prefix -/
theorem selectP_take {α} (P : α → Bool) (s : List α) (m k : Nat) :
    selectP P k (s.take m) = (selectP P k s).filter (· < m) := by
  induction s generalizing m k with
  | nil => simp [selectP]
  | cons x xs ih =>
    cases m with
    | zero => cases h : selectP P k (x :: xs) <;> simp [selectP, Option.filter]
    | succ m =>
      by_cases hx : P x = true
      · cases k with
        | zero => simp [selectP, hx, Option.filter]
        | succ k =>
          simp only [List.take_succ_cons, selectP, hx, if_true, ih]
          cases selectP P k xs <;> simp [Option.filter]
      · simp only [List.take_succ_cons, selectP, hx, ih]
        cases selectP P k xs <;> simp [Option.filter]

/-- the `(k+1)`-th element satisfying `P ∧ Q` is found by locating the `(k+1)`-th `Q` among
    the `P`-elements and mapping its index back -/
theorem selectP_and {α} (P Q : α → Bool) (s : List α) (k : Nat) :
    selectP (fun x => P x && Q x) k s =
      (selectP Q k (s.filter P)).bind (fun q => selectP P q s) := by
  induction s generalizing k with
  | nil => simp [selectP]
  | cons x xs ih =>
    by_cases hp : P x = true
    · by_cases hq : Q x = true
      · cases k with
        | zero => simp [selectP, hp, hq]
        | succ k =>
          simp only [selectP, hp, hq, Bool.and_self, if_true, ih, List.filter_cons_of_pos]
          cases selectP Q k (xs.filter P) <;> simp [selectP, hp]
      · simp only [selectP, hp, hq, Bool.and_false, ih, List.filter_cons_of_pos]
        cases selectP Q k (xs.filter P) <;> simp [selectP, hp]
    · simp only [selectP, hp, Bool.false_and, ih]
      rw [List.filter_cons_of_neg (by simpa using hp)]
      cases selectP Q k (xs.filter P) <;> simp [selectP, hp]

theorem selectP_congr {α} (P Q : α → Bool) (s : List α) (k : Nat)
    (h : ∀ x ∈ s, P x = Q x) : selectP P k s = selectP Q k s := by
  induction s generalizing k with
  | nil => rfl
  | cons x xs ih =>
    have hx := h x (by simp)
    have ih' := fun k => ih k (fun y hy => h y (by simp [hy]))
    cases k <;> simp only [selectP, hx, ih']

/-! ### digits -/

/-- the base-4 digit of `x` at bit offset `sh` -/
def dig (sh x : Nat) : Nat := (x >>> sh) % 4

theorem dig_lt (sh x : Nat) : dig sh x < 4 := Nat.mod_lt _ (by decide)

theorem dig_eq (f x : Nat) : dig (2 * f) x = x / 4 ^ f % 4 := by
  simp [dig, Nat.shiftRight_eq_div_pow, Nat.pow_mul]

theorem mod_pow_succ_eq_iff (f x y : Nat) :
    x % 4 ^ (f + 1) = y % 4 ^ (f + 1) ↔ dig (2 * f) x = dig (2 * f) y ∧ x % 4 ^ f = y % 4 ^ f := by
  rw [dig_eq, dig_eq, Nat.pow_succ]
  constructor
  · intro h
    have h1 := congrArg (· / 4 ^ f) h
    have h2 := congrArg (· % 4 ^ f) h
    simp only [Nat.mod_mul_right_div_self, Nat.mod_mul_right_mod] at h1 h2
    exact ⟨h1, h2⟩
  · rintro ⟨h1, h2⟩
    rw [Nat.mod_mul, Nat.mod_mul, h1, h2]

theorem div_pow_step (f x : Nat) : x / 4 ^ f = 4 * (x / 4 ^ (f + 1)) + dig (2 * f) x := by
  rw [dig_eq, Nat.pow_succ, ← Nat.div_div_eq_div_mul]; omega

/-! ### the list-level quad wavelet matrix

`r` is the number of levels that remain; the level with `f + 1` remaining levels uses the
digit at bit offset `2 * f`. -/

/-- the digit lists of the `r` levels below (and including) the one holding `s` -/
def wmLevels : Nat → List Nat → List (List Nat)
  | 0, _ => []
  | f + 1, s => s.map (dig (2 * f)) :: wmLevels f (stablePart (dig (2 * f)) 4 s)

/-- `rank_unchecked`: `(cur_i, cur_p)` walk down, answer `cur_i - cur_p` -/
def rankWM (sym : Nat) : Nat → List Nat → Nat → Nat → Nat
  | 0, _, i, p => i - p
  | f + 1, s, i, p =>
    rankWM sym f (stablePart (dig (2 * f)) 4 s)
      (rank (dig (2 * f) sym) i (s.map (dig (2 * f))) +
        occsSmaller id (dig (2 * f) sym) (s.map (dig (2 * f))))
      (rank (dig (2 * f) sym) p (s.map (dig (2 * f))) +
        occsSmaller id (dig (2 * f) sym) (s.map (dig (2 * f))))

theorem rankWM_correct (sym : Nat) (r : Nat) (s : List Nat) (i p : Nat) (hpi : p ≤ i)
    (hi : i ≤ s.length) :
    rankWM sym r s i p = ((s.take i).drop p).countP (fun x => x % 4 ^ r == sym % 4 ^ r) := by
  induction r generalizing s i p with
  | zero =>
    simp only [rankWM, Nat.pow_zero, Nat.mod_one, beq_self_eq_true]
    rw [List.countP_eq_length.mpr (by simp)]
    simp [List.length_drop, List.length_take, Nat.min_eq_left hi]
  | succ f ih =>
    simp only [rankWM]
    have hlen : (stablePart (dig (2 * f)) 4 s).length = s.length :=
      length_stablePart_all _ _ _ (fun x _ => dig_lt _ x)
    rw [ih _ _ _ (by
        rw [rank_map, rank_map]
        have := countP_take_mono (fun x => dig (2 * f) x == dig (2 * f) sym) s hpi
        omega)
      (by rw [hlen]; exact off_add_rank_le _ _ _ _)]
    rw [slice_stablePart _ _ (dig_lt _ _) hpi, List.countP_filter]
    apply List.countP_congr
    intro x _
    simp only [Bool.and_eq_true, beq_iff_eq]
    rw [mod_pow_succ_eq_iff]; exact And.comm

theorem mod_pow_of_lt {x n : Nat} (h : x < 4 ^ n) : x % 4 ^ n = x := Nat.mod_eq_of_lt h

/-- **rank**: the walk over `L` levels counts the occurrences of `sym` in `s[0..i)` -/
theorem rankWM_eq_rank (sym L : Nat) (s : List Nat) (i : Nat) (hi : i ≤ s.length)
    (hs : ∀ x ∈ s, x < 4 ^ L) (hsym : sym < 4 ^ L) :
    rankWM sym L s i 0 = rank sym i s := by
  rw [rankWM_correct sym L s i 0 (Nat.zero_le _) hi]
  simp only [List.drop_zero, rank, List.count_eq_countP]
  apply List.countP_congr
  intro x hx
  rw [mod_pow_of_lt (hs x (List.mem_of_mem_take hx)), mod_pow_of_lt hsym]

/-- `get_unchecked`: follow index `i` down, collecting the digits in `res`
    (`W` = bit width of the element type; the shift is the model's truncating one) -/
def getWM (W : Nat) : Nat → List Nat → Nat → Nat → Nat
  | 0, _, res, _ => res
  | f + 1, s, res, i =>
    getWM W f (stablePart (dig (2 * f)) 4 s)
      (((res <<< 2) % 2 ^ W) ||| (s.map (dig (2 * f))).getD i 0)
      (rank ((s.map (dig (2 * f))).getD i 0) i (s.map (dig (2 * f))) +
        occsSmaller id ((s.map (dig (2 * f))).getD i 0) (s.map (dig (2 * f))))

theorem getWM_correct (W r : Nat) (s : List Nat) (res i x : Nat) (hx : s[i]? = some x)
    (hW : x < 2 ^ W) (hres : res = x / 4 ^ r) : getWM W r s res i = x := by
  induction r generalizing s res i with
  | zero => simp [getWM, hres]
  | succ f ih =>
    simp only [getWM]
    have hd : (s.map (dig (2 * f))).getD i 0 = dig (2 * f) x := by
      simp [List.getD, List.getElem?_map, hx]
    rw [hd]
    apply ih
    · exact part_pos _ _ (dig_lt _ _) hx rfl
    · have hstep := div_pow_step f x
      have hle : x / 4 ^ f ≤ x := Nat.div_le_self _ _
      have hdl := dig_lt (2 * f) x
      rw [hres, Nat.shiftLeft_eq, Nat.mod_eq_of_lt (by omega), ← Nat.shiftLeft_eq,
        ← Nat.shiftLeft_add_eq_or_of_lt (by omega), Nat.shiftLeft_eq]
      omega

/-- **get**: reassembling the digits along the walk of index `i` yields `s[i]` -/
theorem getWM_eq_get (W L : Nat) (s : List Nat) (i x : Nat) (hx : s[i]? = some x)
    (hW : x < 2 ^ W) (hL : x < 4 ^ L) : getWM W L s 0 i = x :=
  getWM_correct W L s 0 i x hx hW (by rw [Nat.div_eq_of_lt hL])

/-- `select`: downward pass computing the block start, upward pass mapping the offset inside
    the block one level up through the level's `select` -/
def selWM (sym : Nat) : Nat → List Nat → Nat → Nat → Option Nat
  | 0, _, _, k => some k
  | f + 1, s, b, k =>
    match selWM sym f (stablePart (dig (2 * f)) 4 s)
        (rank (dig (2 * f) sym) b (s.map (dig (2 * f))) +
          occsSmaller id (dig (2 * f) sym) (s.map (dig (2 * f)))) k with
    | none => none
    | some o =>
      if rank (dig (2 * f) sym) b (s.map (dig (2 * f))) + o ≥ 2 ^ 64 then none
      else
        match select (dig (2 * f) sym) (rank (dig (2 * f) sym) b (s.map (dig (2 * f))) + o)
            (s.map (dig (2 * f))) with
        | none => none
        | some p => some (p - b)

/-- a level `select` past `rank d b` answers at or after `b` (so `p - b` never underflows) -/
theorem select_rank_add_ge {α} (key : α → Nat) (s : List α) (d b o p : Nat)
    (h : select d (rank d b (s.map key) + o) (s.map key) = some p) : b ≤ p := by
  rw [select_map_eq_selectP, rank_map, selectP_add_countP_take, Option.map_eq_some_iff] at h
  obtain ⟨q, _, rfl⟩ := h; omega

/-- **block lemma**: the elements with digit `d` of the block `[b, b+m)` form the block
    `[rank d b + off, … + their number)` one level down -/
theorem block_stablePart {α} (key : α → Nat) (s : List α) {d r : Nat} (b m : Nat) (hd : d < r) :
    ((stablePart key r s).drop (rank d b (s.map key) + occsSmaller id d (s.map key))).take
        (((s.drop b).take m).countP (fun x => key x == d)) =
      ((s.drop b).take m).filter (fun x => key x == d) := by
  have h := slice_stablePart key s hd (Nat.le_add_right b m)
  have e : rank d (b + m) (s.map key) =
      rank d b (s.map key) + ((s.drop b).take m).countP (fun x => key x == d) := by
    rw [rank_map, rank_map, List.take_add, List.countP_append]
  rw [e, List.drop_take, List.drop_take, Nat.add_sub_cancel_left] at h
  rw [← h]
  congr 1; omega

theorem rank_add_block_le {α} (key : α → Nat) (s : List α) (d b m : Nat) :
    rank d b (s.map key) + ((s.drop b).take m).countP (fun x => key x == d) ≤ s.length := by
  have e : rank d (b + m) (s.map key) =
      rank d b (s.map key) + ((s.drop b).take m).countP (fun x => key x == d) := by
    rw [rank_map, rank_map, List.take_add, List.countP_append]
  have := off_add_rank_le key d (b + m) s
  omega

/-- one level of the upward pass -/
theorem sel_step {α} (key : α → Nat) (Q : α → Bool) (s : List α) (d b m k : Nat) (hd : d < 4)
    (hlen : s.length < 2 ^ 64) (o' : Option Nat)
    (o : Option Nat)
    (ho : o = match o' with
      | none => none
      | some o =>
        if rank d b (s.map key) + o ≥ 2 ^ 64 then none
        else
          match select d (rank d b (s.map key) + o) (s.map key) with
          | none => none
          | some p => some (p - b))
    (h1 : ∀ q, selectP Q k (((stablePart key 4 s).drop
        (rank d b (s.map key) + occsSmaller id d (s.map key))).take
          (((s.drop b).take m).countP (fun x => key x == d))) = some q → o' = some q)
    (h2 : selectP Q k (((stablePart key 4 s).drop
        (rank d b (s.map key) + occsSmaller id d (s.map key))).take
          (((s.drop b).take m).countP (fun x => key x == d))) = none →
        o' = none ∨ ∃ q, o' = some q ∧ ((s.drop b).take m).countP (fun x => key x == d) ≤ q) :
    (∀ q, selectP (fun x => (key x == d) && Q x) k ((s.drop b).take m) = some q → o = some q) ∧
    (selectP (fun x => (key x == d) && Q x) k ((s.drop b).take m) = none →
        o = none ∨ ∃ q, o = some q ∧ m ≤ q) ∧
    (∀ q, o = some q → b + q < s.length) := by
  rw [block_stablePart key s b m hd] at h1 h2
  have G1 : ∀ q', select d (rank d b (s.map key) + q') (s.map key) =
      (selectP (fun x => key x == d) q' (s.drop b)).map (· + b) := by
    intro q'; rw [select_map_eq_selectP, rank_map, selectP_add_countP_take]
  have G2 : ∀ q', selectP (fun x => key x == d) q' ((s.drop b).take m) =
      (selectP (fun x => key x == d) q' (s.drop b)).filter (· < m) := fun q' => selectP_take _ _ _ _
  have G3 := selectP_and (fun x => key x == d) Q ((s.drop b).take m) k
  have G4 := rank_add_block_le key s d b m
  cases ho' : o' with
  | none =>
    rw [ho'] at ho; simp only at ho
    refine ⟨?_, fun _ => Or.inl ho, fun q hq => by rw [ho] at hq; cases hq⟩
    intro q hq
    rw [G3] at hq
    cases hf : selectP Q k (((s.drop b).take m).filter (fun x => key x == d)) with
    | none => rw [hf] at hq; cases hq
    | some q'' => have := h1 _ hf; rw [ho'] at this; cases this
  | some q' =>
    rw [ho'] at ho; simp only at ho
    refine ⟨?_, ?_, ?_⟩
    · intro q hq
      rw [G3] at hq
      cases hf : selectP Q k (((s.drop b).take m).filter (fun x => key x == d)) with
      | none => rw [hf] at hq; cases hq
      | some q'' =>
        have := h1 _ hf; rw [ho'] at this
        obtain rfl : q' = q'' := Option.some.inj this
        rw [hf] at hq; simp only [Option.bind_some] at hq
        have hlt : q' < ((s.drop b).take m).countP (fun x => key x == d) := by
          apply Nat.lt_of_not_le; intro hle
          rw [(selectP_none_iff _ _ _).mpr hle] at hq; cases hq
        rw [G2, Option.filter_eq_some_iff] at hq
        rw [ho, if_neg (by omega), G1, hq.1]
        simp
    · intro hnone
      rw [G3] at hnone
      by_cases hov : rank d b (s.map key) + q' ≥ 2 ^ 64
      · left; rw [ho, if_pos hov]
      · rw [if_neg hov, G1] at ho
        cases ht : selectP (fun x => key x == d) q' (s.drop b) with
        | none => left; rw [ho, ht]; rfl
        | some t =>
          right
          rw [ht] at ho
          refine ⟨t + b - b, ho, ?_⟩
          rw [Nat.add_sub_cancel]
          apply Nat.le_of_not_lt; intro htm
          have hsl : selectP (fun x => key x == d) q' ((s.drop b).take m) = some t := by
            rw [G2, ht]; simp [Option.filter, htm]
          cases hf : selectP Q k (((s.drop b).take m).filter (fun x => key x == d)) with
          | none =>
            rcases h2 hf with h | ⟨q, hq, hle⟩
            · rw [ho'] at h; cases h
            · rw [ho'] at hq
              obtain rfl : q' = q := Option.some.inj hq
              rw [(selectP_none_iff _ _ _).mpr hle] at hsl; cases hsl
          | some q'' =>
            have := h1 _ hf; rw [ho'] at this
            obtain rfl : q' = q'' := Option.some.inj this
            rw [hf] at hnone; simp only [Option.bind_some] at hnone
            rw [hnone] at hsl; cases hsl
    · intro q hq
      by_cases hov : rank d b (s.map key) + q' ≥ 2 ^ 64
      · rw [ho, if_pos hov] at hq; cases hq
      · rw [if_neg hov, G1] at ho
        cases ht : selectP (fun x => key x == d) q' (s.drop b) with
        | none => rw [ho, ht] at hq; cases hq
        | some t =>
          rw [ho, ht] at hq
          simp only [Option.map_some, Option.some.injEq] at hq
          have := selectP_lt_length _ ht
          rw [List.length_drop] at this
          omega

theorem selWM_spec (sym : Nat) (r : Nat) (s : List Nat) (b m k : Nat)
    (hbm : b + m ≤ s.length) (hlen : s.length < 2 ^ 64) :
    (∀ q, selectP (fun x => x % 4 ^ r == sym % 4 ^ r) k ((s.drop b).take m) = some q →
        selWM sym r s b k = some q) ∧
    (selectP (fun x => x % 4 ^ r == sym % 4 ^ r) k ((s.drop b).take m) = none →
        selWM sym r s b k = none ∨ ∃ q, selWM sym r s b k = some q ∧ m ≤ q) ∧
    (r ≠ 0 → ∀ q, selWM sym r s b k = some q → b + q < s.length) := by
  induction r generalizing s b m k with
  | zero =>
    have hl : ((s.drop b).take m).length = m := by
      rw [List.length_take, List.length_drop]; omega
    have hP : ∀ l : List Nat, l.countP (fun x => x % 4 ^ 0 == sym % 4 ^ 0) = l.length := by
      intro l; rw [List.countP_eq_length]; intro x _; simp [Nat.mod_one]
    refine ⟨?_, ?_, fun h => absurd rfl h⟩
    · intro q hq
      have h1 := selectP_lt_length _ hq
      have h2 := (selectP_some _ hq).2
      rw [hP, List.length_take] at h2
      simp only [selWM]; congr 1; omega
    · intro hn
      rw [selectP_none_iff, hP, hl] at hn
      exact Or.inr ⟨k, rfl, hn⟩
  | succ f ih =>
    have hlen' : (stablePart (dig (2 * f)) 4 s).length = s.length :=
      length_stablePart_all _ _ _ (fun x _ => dig_lt _ x)
    have IH := ih (stablePart (dig (2 * f)) 4 s)
      (rank (dig (2 * f) sym) b (s.map (dig (2 * f))) +
        occsSmaller id (dig (2 * f) sym) (s.map (dig (2 * f))))
      (((s.drop b).take m).countP (fun x => dig (2 * f) x == dig (2 * f) sym)) k
      (by
        rw [hlen']
        have h1 := rank_add_block_le (dig (2 * f)) s (dig (2 * f) sym) b m
        have e : rank (dig (2 * f) sym) (b + m) (s.map (dig (2 * f))) =
            rank (dig (2 * f) sym) b (s.map (dig (2 * f))) +
              ((s.drop b).take m).countP (fun x => dig (2 * f) x == dig (2 * f) sym) := by
          rw [rank_map, rank_map, List.take_add, List.countP_append]
        have := off_add_rank_le (dig (2 * f)) (dig (2 * f) sym) (b + m) s
        omega)
      (by rw [hlen']; exact hlen)
    have hstep := sel_step (dig (2 * f)) (fun x => x % 4 ^ f == sym % 4 ^ f) s (dig (2 * f) sym)
      b m k (dig_lt _ _) hlen _ (selWM sym (f + 1) s b k) (by rw [selWM]) IH.1 IH.2.1
    have hcongr : selectP (fun x => x % 4 ^ (f + 1) == sym % 4 ^ (f + 1)) k ((s.drop b).take m) =
        selectP (fun x => (dig (2 * f) x == dig (2 * f) sym) && (x % 4 ^ f == sym % 4 ^ f)) k
          ((s.drop b).take m) := by
      apply selectP_congr
      intro x _
      rw [Bool.eq_iff_iff]
      simp only [Bool.and_eq_true, beq_iff_eq]
      exact mod_pow_succ_eq_iff f x sym
    rw [hcongr]
    exact ⟨hstep.1, hstep.2.1, fun _ => hstep.2.2⟩

/-- **select**: on the whole sequence the two passes answer `Spec.select` -/
theorem selWM_eq_select (sym L : Nat) (s : List Nat) (k : Nat) (hL : L ≠ 0)
    (hlen : s.length < 2 ^ 64) (hs : ∀ x ∈ s, x < 4 ^ L) (hsym : sym < 4 ^ L) :
    selWM sym L s 0 k = select sym k s := by
  have h := selWM_spec sym L s 0 s.length k (by omega) hlen
  simp only [List.drop_zero, List.take_length] at h
  have e : select sym k s = selectP (fun x => x % 4 ^ L == sym % 4 ^ L) k s := by
    rw [select_eq_selectP]
    apply selectP_congr
    intro x hx
    rw [mod_pow_of_lt (hs x hx), mod_pow_of_lt hsym]
  rw [e]
  cases hsel : selectP (fun x => x % 4 ^ L == sym % 4 ^ L) k s with
  | some q => exact h.1 q hsel
  | none =>
    rcases h.2.1 hsel with h' | ⟨q, hq, hle⟩
    · exact h'
    · have := h.2.2 hL q hq; omega

end Qwt.WM
