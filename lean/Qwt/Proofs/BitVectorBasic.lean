import Qwt.Model.BitVector
import Qwt.Spec.Basic

/-!
C08 — helper lemmas, part 1: the abstraction function, the invariant and word-level facts.
-/
namespace Qwt.BV
open Qwt

/-- decidable equality of model results (for `decide` on concrete witnesses) -/
instance decEqExcept {ε α} [DecidableEq ε] [DecidableEq α] : DecidableEq (Except ε α)
  | .ok a, .ok b => if h : a = b then isTrue (by rw [h]) else isFalse (fun e => h (Except.ok.inj e))
  | .error a, .error b =>
    if h : a = b then isTrue (by rw [h]) else isFalse (fun e => h (Except.error.inj e))
  | .ok _, .error _ => isFalse (fun e => by cases e)
  | .error _, .ok _ => isFalse (fun e => by cases e)

/-- word `j` of the allocation, `0` outside of it -/
def wordAt (d : Array Nat) (j : Nat) : Nat := d[j]?.getD 0

/-- bit `i` of the flat word array -/
def bitD (d : Array Nat) (i : Nat) : Bool := (wordAt d (i / 64)).testBit (i % 64)

/-- bit `i` of the vector: `data[i/64].testBit (i%64)` -/
def bitAt (b : BitVector) (i : Nat) : Bool := bitD b.data i

/-- the abstraction: the first `nBits` bits of the words -/
def abs (b : BitVector) : List Bool := (List.range b.nBits).map (bitAt b)

/-- the representation invariant of `BitVector` / `BitVectorMut` -/
structure Inv (b : BitVector) : Prop where
  size : b.data.size = 8 * ((b.nBits + 511) / 512)
  words : ∀ (j : Nat) (h : j < b.data.size), b.data[j] < 2 ^ 64
  pad : ∀ i, b.nBits ≤ i → bitAt b i = false
  ones : b.nOnes = (abs b).count true

theorem wordAt_of_lt {d : Array Nat} {j : Nat} (h : j < d.size) : wordAt d j = d[j] := by
  simp [wordAt, h]

theorem wordAt_of_ge {d : Array Nat} {j : Nat} (h : d.size ≤ j) : wordAt d j = 0 := by
  simp [wordAt, Array.getElem?_eq_none h]

theorem Inv.wordAt_lt {b : BitVector} (hb : Inv b) (j : Nat) : wordAt b.data j < 2 ^ 64 := by
  by_cases h : j < b.data.size
  · rw [wordAt_of_lt h]; exact hb.words j h
  · rw [wordAt_of_ge (Nat.le_of_not_lt h)]; exact Nat.two_pow_pos 64

theorem words_of_wordAt {d : Array Nat} (h : ∀ j, wordAt d j < 2 ^ 64) :
    ∀ (j : Nat) (hj : j < d.size), d[j] < 2 ^ 64 := by
  intro j hj
  have := h j
  rwa [wordAt_of_lt hj] at this

@[simp] theorem abs_length (b : BitVector) : (abs b).length = b.nBits := by simp [abs]

theorem abs_getElem (b : BitVector) (i : Nat) (h : i < (abs b).length) : (abs b)[i] = bitAt b i := by
  simp [abs]

theorem abs_getElem? (b : BitVector) (i : Nat) :
    (abs b)[i]? = if i < b.nBits then some (bitAt b i) else none := by
  by_cases h : i < b.nBits
  · simp [abs, h]
  · simp [abs, h]

theorem abs_eq_of {b : BitVector} {l : List Bool} (hl : l.length = b.nBits)
    (h : ∀ i (hi : i < l.length), bitAt b i = l[i]) : abs b = l := by
  apply List.ext_getElem
  · simp [hl]
  · intro i h1 h2
    rw [abs_getElem]; exact h i h2

/-! ### words -/

theorem wordAt_append_zeros (d : Array Nat) (k j : Nat) :
    wordAt (d ++ Array.replicate k 0) j = wordAt d j := by
  unfold wordAt
  rw [Array.getElem?_append]
  by_cases h : j < d.size
  · simp [h]
  · rw [if_neg h, Array.getElem?_replicate, Array.getElem?_eq_none (Nat.le_of_not_lt h)]
    split <;> rfl

theorem bitD_append_zeros (d : Array Nat) (k i : Nat) :
    bitD (d ++ Array.replicate k 0) i = bitD d i := by
  unfold bitD; rw [wordAt_append_zeros]

theorem eight_zeros : (#[0, 0, 0, 0, 0, 0, 0, 0] : Array Nat) = Array.replicate 8 0 := by decide

/-- `(w >> k) & 1 == 1` is `testBit` -/
theorem shr_and_one_eq_testBit (w k : Nat) : ((w >>> k) &&& 1 == 1) = w.testBit k := by
  rw [Nat.and_one_is_mod, Nat.shiftRight_eq_div_pow, Nat.testBit_eq_decide_div_mod_eq]
  by_cases h : w / 2 ^ k % 2 = 1 <;> simp [h]

/-- clear bit `p`, then xor in `s` at `p` (the body of `DataLine::set_symbol`) -/
def setBitW (w p : Nat) (bit : Bool) : Nat :=
  (w ^^^ (w &&& (1 <<< p))) ^^^ (((if bit then 1 else 0) &&& 1) <<< p)

theorem testBit_setBitW (w p : Nat) (bit : Bool) (q : Nat) :
    (setBitW w p bit).testBit q = if q = p then bit else w.testBit q := by
  unfold setBitW
  rw [Nat.testBit_xor, Nat.testBit_xor, Nat.testBit_and, Nat.one_shiftLeft, Nat.testBit_two_pow]
  cases bit
  · have : ((if false = true then 1 else 0) &&& 1) <<< p = 0 := by simp
    rw [this, Nat.zero_testBit]
    by_cases h : q = p
    · subst h; simp
    · have h' : ¬ p = q := fun e => h e.symm
      simp [h, h']
  · have : ((if true = true then 1 else 0) &&& 1) <<< p = 2 ^ p := by simp [Nat.one_shiftLeft]
    rw [this, Nat.testBit_two_pow]
    by_cases h : q = p
    · subst h; simp
    · have h' : ¬ p = q := fun e => h e.symm
      simp [h, h']

theorem setBitW_lt (w p : Nat) (bit : Bool) (hw : w < 2 ^ 64) (hp : p < 64) :
    setBitW w p bit < 2 ^ 64 := by
  apply Nat.lt_pow_two_of_testBit
  intro i hi
  rw [testBit_setBitW]
  have : ¬ i = p := by omega
  rw [if_neg this]
  exact Nat.testBit_lt_two_pow (Nat.lt_of_lt_of_le hw (Nat.pow_le_pow_right (by decide) hi))

/-! ### fault primitives -/

theorem add64_ok {a b : Nat} (h : a + b < two64) : add64 a b = .ok (a + b) := by
  simp [add64, h]

theorem idx_ok {a : Array Nat} {i : Nat} (h : i < a.size) : idx a i = .ok a[i] := by
  simp [idx, h]

theorem idx_ok' {a : Array Nat} {i : Nat} (h : i < a.size) : idx a i = .ok (wordAt a i) := by
  rw [wordAt_of_lt h]; exact idx_ok h

theorem two64_eq : two64 = 2 ^ 64 := by decide

theorem shr6 (i : Nat) : i >>> 6 = i / 64 := Nat.shiftRight_eq_div_pow i 6
theorem shr9 (i : Nat) : i >>> 9 = i / 512 := Nat.shiftRight_eq_div_pow i 9
theorem shr3 (i : Nat) : i >>> 3 = i / 8 := Nat.shiftRight_eq_div_pow i 3
theorem and63 (i : Nat) : i &&& 63 = i % 64 := Nat.and_two_pow_sub_one_eq_mod i 6
theorem and511 (i : Nat) : i &&& 511 = i % 512 := Nat.and_two_pow_sub_one_eq_mod i 9

/-! ### `lineSetSymbol` -/

theorem lineSetSymbol_spec (data : Array Nat) (line i : Nat) (bit : Bool) (sym : Nat)
    (hs : sym = if bit then 1 else 0)
    (hi : i < 512) (hk : 8 * line + i / 64 < data.size) :
    ∃ d', lineSetSymbol data line sym i = .ok d' ∧ d'.size = data.size ∧
      (∀ j, wordAt d' j = if j = 8 * line + i / 64 then setBitW (wordAt data j) (i % 64) bit
                          else wordAt data j) := by
  subst hs
  refine ⟨(data.modify (8 * line + i / 64) (fun w => w ^^^ (w &&& (1 <<< (i % 64))))).modify
      (8 * line + i / 64) (fun w => w ^^^ (((if bit then 1 else 0) &&& 1) <<< (i % 64))), ?_, ?_, ?_⟩
  · unfold lineSetSymbol
    have h1 : ¬ (8 * line + i / 64 ≥ data.size) := by omega
    simp only [shr6, guardM, hi, decide_true, if_true, h1, if_false]
    rfl
  · simp [Array.size_modify]
  · intro j
    unfold wordAt
    rw [Array.getElem?_modify, Array.getElem?_modify]
    by_cases hj : j = 8 * line + i / 64
    · subst hj
      simp [hk, setBitW]
    · have : ¬ (8 * line + i / 64 = j) := fun e => hj e.symm
      simp [hj, this]

end Qwt.BV
