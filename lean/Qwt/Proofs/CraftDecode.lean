import Qwt.Proofs.CraftSort
/-! C02: the decode tables (`decodeTables`, `tableFind`) invert an injective code table. -/
namespace Qwt.Proofs.Craft
open Qwt Qwt.Huff Qwt.Props.C02

theorem find?_eq_some_of_unique {α} {p : α → Bool} {l : List α} {a : α}
    (hu : ∀ x ∈ l, ∀ y ∈ l, p x → p y → x = y) :
    l.find? p = some a ↔ a ∈ l ∧ p a := by
  constructor
  · intro h; exact ⟨List.mem_of_find?_eq_some h, List.find?_some h⟩
  · rintro ⟨h1, h2⟩
    have : (l.find? p).isSome := List.find?_isSome.mpr ⟨a, h1, h2⟩
    obtain ⟨b, hb⟩ := Option.isSome_iff_exists.mp this
    rw [hb, hu b (List.mem_of_find?_eq_some hb) a h1 (List.find?_some hb) h2]

/-- the bucket-filling step of `decodeTables` -/
def fillStep (codes : Array PrefixCode) (acc : Array (List (Nat × Nat))) (i : Nat) :
    Array (List (Nat × Nat)) :=
  let cd := codes[i]!
  if cd.len != 0 then acc.modify cd.len (fun l => l ++ [(cd.content, i)]) else acc

theorem fill_spec (codes : Array PrefixCode) (maxLen : Nat) : ∀ n,
    ((List.range n).foldl (fillStep codes) (Array.replicate (maxLen + 1) [])).size = maxLen + 1 ∧
    ∀ L c i, L ≤ maxLen →
      ((c, i) ∈ ((List.range n).foldl (fillStep codes) (Array.replicate (maxLen + 1) [])).getD L [] ↔
        i < n ∧ codes[i]!.len = L ∧ L ≠ 0 ∧ codes[i]!.content = c) := by
  intro n
  induction n with
  | zero =>
    refine ⟨by simp, ?_⟩
    intro L c i hL
    simp [Array.getElem?_replicate]
    split <;> simp
  | succ n ih =>
    obtain ⟨ih1, ih2⟩ := ih
    rw [List.range_succ, List.foldl_append]
    generalize (List.range n).foldl (fillStep codes) (Array.replicate (maxLen + 1) []) = acc at ih1 ih2
    simp only [List.foldl_cons, List.foldl_nil]
    unfold fillStep
    simp only []
    by_cases hz : codes[n]!.len = 0
    · rw [if_neg (by simp [hz])]
      refine ⟨ih1, ?_⟩
      intro L c i hL
      rw [ih2 L c i hL]
      constructor
      · rintro ⟨a, b, c, d⟩; exact ⟨by omega, b, c, d⟩
      · rintro ⟨a, b, c, d⟩
        refine ⟨?_, b, c, d⟩
        rcases Nat.lt_or_eq_of_le (Nat.le_of_lt_succ a) with h | h
        · exact h
        · subst h; omega
    · rw [if_pos (by simp [hz])]
      refine ⟨by simp [ih1], ?_⟩
      intro L c i hL
      have hLs : L < acc.size := by omega
      simp only [Array.getD_eq_getD_getElem?, Array.getElem?_modify]
      by_cases hLe : codes[n]!.len = L
      · rw [if_pos hLe]
        have h0 := ih2 L c i hL
        simp only [Array.getD_eq_getD_getElem?] at h0
        rw [Array.getElem?_eq_getElem hLs] at h0 ⊢
        simp only [Option.map_some, Option.getD_some, List.mem_append, List.mem_singleton, Prod.mk.injEq] at h0 ⊢
        rw [h0]
        constructor
        · rintro (⟨a, b, c, d⟩ | ⟨rfl, rfl⟩)
          · exact ⟨by omega, b, c, d⟩
          · exact ⟨by omega, hLe, by omega, rfl⟩
        · rintro ⟨a, b, c', d⟩
          rcases Nat.lt_or_eq_of_le (Nat.le_of_lt_succ a) with h | h
          · exact Or.inl ⟨h, b, c', d⟩
          · subst h; exact Or.inr ⟨d.symm, rfl⟩
      · rw [if_neg hLe]
        have h0 := ih2 L c i hL
        simp only [Array.getD_eq_getD_getElem?] at h0
        rw [h0]
        constructor
        · rintro ⟨a, b, c, d⟩; exact ⟨by omega, b, c, d⟩
        · rintro ⟨a, b, c', d⟩
          refine ⟨?_, b, c', d⟩
          rcases Nat.lt_or_eq_of_le (Nat.le_of_lt_succ a) with h | h
          · exact h
          · subst h; omega

theorem decodeTables_eq (codes : Array PrefixCode) (maxLen : Nat) :
    decodeTables codes maxLen =
      ((List.range codes.size).foldl (fillStep codes) (Array.replicate (maxLen + 1) [])).map
        (fun l => (sortByKey (fun x => x.1) l).toArray) := rfl

theorem lt_size_of_len_ne_zero {codes : Array PrefixCode} {i : Nat} (h : codes[i]!.len ≠ 0) :
    i < codes.size := by
  apply Nat.lt_of_not_le
  intro hle
  apply h
  rw [Array.getElem!_eq_getD, Array.getD_eq_getD_getElem?, Array.getElem?_eq_none hle]
  rfl

/-- lookup in the decode tables is exact as soon as non-empty codes are pairwise distinct -/
theorem decode_tables_find {codes : Array PrefixCode} {maxLen : Nat}
    (hinj : ∀ i i' : Nat, codes[i]!.len ≠ 0 → codes[i]! = codes[i']! → i = i')
    (hmax : ∀ s : Nat, codes[s]!.len ≤ maxLen) (len content sym : Nat) :
    tableFind ((decodeTables codes maxLen)[len]!) content = some sym ↔
      codes[sym]! = ⟨content, len⟩ ∧ len ≠ 0 := by
  obtain ⟨hsz, hmem⟩ := fill_spec codes maxLen codes.size
  rw [decodeTables_eq]
  generalize (List.range codes.size).foldl (fillStep codes) (Array.replicate (maxLen + 1) []) = filled
    at hsz hmem
  by_cases hL : len ≤ maxLen
  · have hLs : len < filled.size := by omega
    have htab : (filled.map (fun l => (sortByKey (fun x => x.1) l).toArray))[len]!
        = (sortByKey (fun x => x.1) (filled.getD len [])).toArray := by
      rw [Array.getElem!_eq_getD, Array.getD_eq_getD_getElem?, Array.getElem?_map,
        Array.getD_eq_getD_getElem?, Array.getElem?_eq_getElem hLs]
      rfl
    rw [htab]
    unfold tableFind
    simp only []
    have hperm := sortByKey_perm (fun x : Nat × Nat => x.1) (filled.getD len [])
    have hu : ∀ x ∈ sortByKey (fun x : Nat × Nat => x.1) (filled.getD len []),
        ∀ y ∈ sortByKey (fun x : Nat × Nat => x.1) (filled.getD len []),
        (x.1 == content) = true → (y.1 == content) = true → x = y := by
      intro x hx y hy px py
      obtain ⟨c, i⟩ := x
      obtain ⟨c', i'⟩ := y
      have hx' := (hmem len c i hL).mp (hperm.mem_iff.mp hx)
      have hy' := (hmem len c' i' hL).mp (hperm.mem_iff.mp hy)
      simp only [beq_iff_eq] at px py
      have : i = i' := by
        apply hinj i i' (by rw [hx'.2.1]; exact hx'.2.2.1)
        have e1 : codes[i]! = ⟨codes[i]!.content, codes[i]!.len⟩ := rfl
        have e2 : codes[i']! = ⟨codes[i']!.content, codes[i']!.len⟩ := rfl
        rw [e1, e2, hx'.2.1, hy'.2.1, hx'.2.2.2, hy'.2.2.2, px, py]
      rw [px, py, this]
    constructor
    · intro h
      obtain ⟨⟨c, i⟩, hf, hi⟩ := Option.map_eq_some_iff.mp h
      simp only at hi
      subst hi
      obtain ⟨h1, h2⟩ := (find?_eq_some_of_unique hu).mp hf
      simp only [beq_iff_eq] at h2
      obtain ⟨_, a, b, c'⟩ := (hmem len c i hL).mp (hperm.mem_iff.mp h1)
      refine ⟨?_, b⟩
      have e1 : codes[i]! = ⟨codes[i]!.content, codes[i]!.len⟩ := rfl
      rw [e1, a, c', h2]
    · rintro ⟨h1, h2⟩
      have hs : sym < codes.size := lt_size_of_len_ne_zero (by rw [h1]; exact h2)
      have hin : (content, sym) ∈ sortByKey (fun x : Nat × Nat => x.1) (filled.getD len []) :=
        hperm.mem_iff.mpr ((hmem len content sym hL).mpr ⟨hs, by rw [h1], h2, by rw [h1]⟩)
      rw [(find?_eq_some_of_unique hu).mpr ⟨hin, by simp⟩]
      rfl
  · have htab : (filled.map (fun l => (sortByKey (fun x => x.1) l).toArray))[len]! = #[] := by
      rw [Array.getElem!_eq_getD, Array.getD_eq_getD_getElem?, Array.getElem?_eq_none (by simp; omega)]
      rfl
    rw [htab]
    constructor
    · intro h; simp [tableFind] at h
    · rintro ⟨h1, _⟩
      have := hmax sym
      rw [h1] at this
      exact absurd this hL

theorem foldl_max_ge (l : List PrefixCode) (init : Nat) :
    init ≤ l.foldl (fun m x => max m x.len) init ∧
    ∀ x ∈ l, x.len ≤ l.foldl (fun m x => max m x.len) init := by
  induction l generalizing init with
  | nil => exact ⟨Nat.le_refl _, fun _ h => by cases h⟩
  | cons y ys ih =>
    obtain ⟨h1, h2⟩ := ih (max init y.len)
    simp only [List.foldl_cons]
    refine ⟨Nat.le_trans (Nat.le_max_left _ _) h1, ?_⟩
    intro x hx
    rcases List.mem_cons.mp hx with rfl | hx
    · exact Nat.le_trans (Nat.le_max_right _ _) h1
    · exact h2 x hx

/-- `max_len` as computed by `HuffQWaveletTree::new` bounds every length -/
theorem len_le_maxLen (codes : Array PrefixCode) (s : Nat) :
    codes[s]!.len ≤ codes.foldl (fun m x => max m x.len) 0 := by
  by_cases h : s < codes.size
  · rw [getElem!_pos codes s h, ← Array.foldl_toList]
    exact (foldl_max_ge codes.toList 0).2 _ (by simp)
  · rw [Array.getElem!_eq_getD, Array.getD_eq_getD_getElem?, Array.getElem?_eq_none (by omega)]
    exact Nat.zero_le _

theorem wmvalid_inj {D : Nat} {codes : Array PrefixCode} {occ : List Nat} (hv : WMValid D codes occ) :
    ∀ i i' : Nat, codes[i]!.len ≠ 0 → codes[i]! = codes[i']! → i = i' := by
  intro i i' h0 he
  apply Classical.byContradiction
  intro hne
  have hi : i ∈ occ := Classical.byContradiction (fun h => h0 (hv.nonocc_len i h))
  have hi' : i' ∈ occ := Classical.byContradiction (fun h => h0 (by rw [he]; exact hv.nonocc_len i' h))
  exact hv.prefix_free i hi i' hi' hne (by rw [he]; exact List.prefix_refl _)

end Qwt.Proofs.Craft


