import Qwt.Proofs.BitVectorBasic

/-!
C08 — helper lemmas, part 2: the mutators.
-/
set_option linter.unusedSimpArgs false
namespace Qwt.BV
open Qwt

theorem bind_ok {α β} (a : α) (f : α → M β) : (Except.ok a >>= f) = f a := rfl
theorem bind_err {α β} (e : Fault) (f : α → M β) : ((Except.error e : M α) >>= f) = .error e := rfl

theorem count_true_add_false (l : List Bool) : l.count true + l.count false = l.length := by
  induction l with
  | nil => rfl
  | cons a l ih => cases a <;> simp <;> omega

/-- `abs` of an extension -/
theorem abs_append_of {b b' : BitVector} (l : List Bool) (hn : b'.nBits = b.nBits + l.length)
    (hold : ∀ x, x < b.nBits → bitAt b' x = bitAt b x)
    (hnew : ∀ x (hx : x < l.length), bitAt b' (b.nBits + x) = l[x]) : abs b' = abs b ++ l := by
  apply abs_eq_of
  · simp [hn]
  · intro i hi
    rw [List.getElem_append]
    split
    · rename_i h; rw [abs_getElem]; apply hold; simpa using h
    · rename_i h
      simp only [abs_length, Nat.not_lt] at h
      have hx : i - b.nBits < l.length := by
        simp only [List.length_append, abs_length] at hi; omega
      have := hnew (i - b.nBits) hx
      have e : b.nBits + (i - b.nBits) = i := by omega
      rw [e] at this
      rw [this]; simp

/-! ### push -/

theorem push_spec (b : BitVector) (bit : Bool) (hb : Inv b) (hn : b.nBits + 1 < two64) :
    ∃ b', push b bit = .ok b' ∧ Inv b' ∧ abs b' = abs b ++ [bit] := by
  -- the (possibly grown) allocation
  have key : ∀ data1 : Array Nat,
      data1 = (if (b.nBits % 512 == 0) = true then b.data ++ #[0, 0, 0, 0, 0, 0, 0, 0] else b.data) →
      data1.size = 8 * ((b.nBits + 1 + 511) / 512) ∧ ∀ j, wordAt data1 j = wordAt b.data j := by
    intro data1 hd
    have hs := hb.size
    by_cases h0 : b.nBits % 512 = 0
    · have : (b.nBits % 512 == 0) = true := by simp [h0]
      rw [if_pos this, eight_zeros] at hd
      subst hd
      refine ⟨?_, fun j => wordAt_append_zeros _ _ _⟩
      simp only [Array.size_append, Array.size_replicate]; omega
    · have : ¬ (b.nBits % 512 == 0) = true := by simp [h0]
      rw [if_neg this] at hd
      subst hd
      refine ⟨?_, fun j => rfl⟩
      omega
  unfold push
  simp only [add64_ok hn, bind_ok]
  generalize hd : (if (b.nBits % 512 == 0) = true then b.data ++ #[0, 0, 0, 0, 0, 0, 0, 0] else b.data) = data1
  obtain ⟨hsz, hw⟩ := key data1 hd.symm
  -- common finishing argument
  have finish : ∀ (d' : Array Nat) (no : Nat), d'.size = data1.size →
      (∀ j, wordAt d' j = if j = b.nBits / 64 then setBitW (wordAt data1 j) (b.nBits % 64) bit
                          else wordAt data1 j) →
      no = b.nOnes + (if bit then 1 else 0) →
      Inv { data := d', nBits := b.nBits + 1, nOnes := no } ∧
        abs { data := d', nBits := b.nBits + 1, nOnes := no } = abs b ++ [bit] := by
    intro d' no hsz' hw' hno
    have hbit : ∀ x, bitAt { data := d', nBits := b.nBits + 1, nOnes := no } x =
        if x = b.nBits then bit else bitAt b x := by
      intro x
      show bitD d' x = _
      unfold bitAt bitD
      rw [hw']
      by_cases hx : x / 64 = b.nBits / 64
      · rw [if_pos hx, testBit_setBitW, hw, hx]
        by_cases hx2 : x = b.nBits
        · subst hx2; simp
        · have : ¬ x % 64 = b.nBits % 64 := by omega
          rw [if_neg this, if_neg hx2]
      · rw [if_neg hx, hw]
        have : ¬ x = b.nBits := fun e => hx (by rw [e])
        rw [if_neg this]
    have habs : abs { data := d', nBits := b.nBits + 1, nOnes := no } = abs b ++ [bit] := by
      apply abs_append_of
      · rfl
      · intro x hx; rw [hbit]; have : ¬ x = b.nBits := by omega
        rw [if_neg this]
      · intro x hx
        simp only [List.length_singleton] at hx
        have : x = 0 := by omega
        subst this; rw [hbit]; simp
    refine ⟨⟨?_, ?_, ?_, ?_⟩, habs⟩
    · show d'.size = _; rw [hsz', hsz]
    · apply words_of_wordAt
      intro j
      rw [hw']
      split
      · apply setBitW_lt
        · rw [hw]; exact hb.wordAt_lt j
        · omega
      · rw [hw]; exact hb.wordAt_lt j
    · intro i hi
      rw [hbit]
      have hi' : b.nBits + 1 ≤ i := hi
      have : ¬ i = b.nBits := by omega
      rw [if_neg this]; exact hb.pad i (by omega)
    · show no = _
      rw [habs, List.count_append, ← hb.ones, hno]
      cases bit <;> simp
  cases bit
  · simp only [Bool.false_eq_true, if_false]
    refine ⟨_, rfl, ?_⟩
    apply finish data1 b.nOnes rfl
    · intro j
      split
      · rename_i hj
        apply Nat.eq_of_testBit_eq
        intro q
        rw [testBit_setBitW]
        split
        · rename_i hq
          subst hq; subst hj
          rw [hw]
          have := hb.pad b.nBits (Nat.le_refl _)
          unfold bitAt bitD at this
          exact this
        · rfl
      · rfl
    · simp
  · simp only [if_true]
    have h8 : data1.size ≥ 8 := by omega
    rw [if_pos h8]
    have hk : 8 * (data1.size / 8 - 1) + b.nBits % 512 / 64 < data1.size := by omega
    obtain ⟨d', hd', hsz', hw'⟩ :=
      lineSetSymbol_spec data1 (data1.size / 8 - 1) (b.nBits % 512) true 1 rfl
        (Nat.mod_lt _ (by decide)) hk
    rw [hd']
    refine ⟨_, rfl, ?_⟩
    apply finish d' (b.nOnes + 1) hsz'
    · intro j
      rw [hw']
      have e1 : 8 * (data1.size / 8 - 1) + b.nBits % 512 / 64 = b.nBits / 64 := by omega
      have e2 : b.nBits % 512 % 64 = b.nBits % 64 := by omega
      rw [e1, e2]
    · simp

/-! ### extendWithZeros -/

theorem extendWithZeros_spec (b : BitVector) (n : Nat) (hb : Inv b) (hn : b.nBits + n + 511 < two64) :
    ∃ b', extendWithZeros b n = .ok b' ∧ Inv b' ∧ abs b' = abs b ++ List.replicate n false := by
  unfold extendWithZeros
  have h1 : b.nBits + n < two64 := by omega
  simp only [add64_ok h1, add64_ok hn, bind_ok]
  have hs := hb.size
  have hge : (b.nBits + n + 511) / 512 ≥ b.data.size / 8 := by omega
  rw [if_pos hge]
  refine ⟨_, rfl, ?_⟩
  generalize hk : 8 * ((b.nBits + n + 511) / 512 - b.data.size / 8) = k
  have hbit : ∀ x, bitAt { b with data := b.data ++ Array.replicate k 0, nBits := b.nBits + n } x
      = bitAt b x := fun x => bitD_append_zeros _ _ _
  have habs : abs { b with data := b.data ++ Array.replicate k 0, nBits := b.nBits + n }
      = abs b ++ List.replicate n false := by
    apply abs_append_of
    · simp
    · intro x _; exact hbit x
    · intro x hx; rw [hbit]; simp only [List.getElem_replicate]; exact hb.pad _ (by omega)
  refine ⟨⟨?_, ?_, ?_, ?_⟩, habs⟩
  · show (b.data ++ Array.replicate k 0).size = 8 * ((b.nBits + n + 511) / 512)
    simp only [Array.size_append, Array.size_replicate]; omega
  · apply words_of_wordAt
    intro j
    show wordAt (b.data ++ Array.replicate k 0) j < _
    rw [wordAt_append_zeros]; exact hb.wordAt_lt j
  · intro i hi
    rw [hbit]; apply hb.pad
    have : b.nBits + n ≤ i := hi
    omega
  · show b.nOnes = _
    rw [habs, List.count_append, ← hb.ones]; simp [List.count_replicate]

/-! ### get / set -/

theorem getBitSlice_ok {d : Array Nat} {i : Nat} (h : i / 64 < d.size) :
    getBitSlice d i = .ok (bitD d i) := by
  unfold getBitSlice
  rw [shr6, idx_ok' h, bind_ok, and63, shr_and_one_eq_testBit]
  rfl

theorem Inv.word_in_range {b : BitVector} (hb : Inv b) {i : Nat} (h : i < b.nBits) :
    i / 64 < b.data.size := by
  have := hb.size; omega

theorem getUnchecked_ok {b : BitVector} (hb : Inv b) {i : Nat} (h : i < b.nBits) :
    getUnchecked b i = .ok (bitAt b i) := getBitSlice_ok (hb.word_in_range h)

theorem count_set_true (l : List Bool) (i : Nat) (v : Bool) (h : i < l.length) :
    (l.set i v).count true + (if l[i] then 1 else 0) = l.count true + (if v then 1 else 0) := by
  induction l generalizing i with
  | nil => simp at h
  | cons a l ih =>
    cases i with
    | zero => cases a <;> cases v <;> simp
    | succ i =>
      have := ih i (by simpa using h)
      simp only [List.set_cons_succ, List.count_cons, List.getElem_cons_succ]
      omega

theorem set_spec (b : BitVector) (i : Nat) (bit : Bool) (hb : Inv b) (hi : i < b.nBits) :
    ∃ b', set b i bit = .ok b' ∧ Inv b' ∧ abs b' = (abs b).set i bit := by
  have hs := hb.size
  have hl : ¬ (i >>> 9 ≥ nLines b) := by rw [shr9]; unfold nLines; omega
  -- everything after the counter update
  have fin : ∀ no, no = ((abs b).set i bit).count true →
      ∃ b', (lineSetSymbol b.data (i >>> 9) (if bit then 1 else 0) (i &&& 511) >>= fun data =>
          (pure { data := data, nBits := b.nBits, nOnes := no } : M BitVector)) = .ok b' ∧
        Inv b' ∧ abs b' = (abs b).set i bit := by
    intro no hno2
    have hk : 8 * (i >>> 9) + (i &&& 511) / 64 < b.data.size := by rw [shr9, and511]; omega
    obtain ⟨d', hd', hsz', hw'⟩ :=
      lineSetSymbol_spec b.data (i >>> 9) (i &&& 511) bit (if bit then 1 else 0) rfl
        (by rw [and511]; exact Nat.mod_lt _ (by decide)) hk
    rw [hd', bind_ok]
    refine ⟨_, rfl, ?_⟩
    have e1 : 8 * (i >>> 9) + (i &&& 511) / 64 = i / 64 := by rw [shr9, and511]; omega
    have e2 : (i &&& 511) % 64 = i % 64 := by rw [and511]; omega
    rw [e1, e2] at hw'
    have hbit : ∀ x, bitAt { data := d', nBits := b.nBits, nOnes := no } x
        = if x = i then bit else bitAt b x := by
      intro x
      show bitD d' x = _
      unfold bitAt bitD
      rw [hw']
      by_cases hx : x / 64 = i / 64
      · rw [if_pos hx, testBit_setBitW, hx]
        by_cases hx2 : x = i
        · subst hx2; simp
        · have : ¬ x % 64 = i % 64 := by omega
          rw [if_neg this, if_neg hx2]
      · rw [if_neg hx]
        have : ¬ x = i := fun e => hx (by rw [e])
        rw [if_neg this]
    have habs : abs { data := d', nBits := b.nBits, nOnes := no } = (abs b).set i bit := by
      apply abs_eq_of
      · simp
      · intro x hx
        rw [hbit, List.getElem_set, abs_getElem]
        by_cases h : x = i
        · subst h; simp
        · have : ¬ i = x := fun e => h e.symm
          rw [if_neg h, if_neg this]
    refine ⟨⟨?_, ?_, ?_, ?_⟩, habs⟩
    · show d'.size = _; rw [hsz']; exact hs
    · apply words_of_wordAt
      intro j
      rw [hw']
      split
      · exact setBitW_lt _ _ _ (hb.wordAt_lt j) (Nat.mod_lt _ (by decide))
      · exact hb.wordAt_lt j
    · intro x hx
      have hx' : b.nBits ≤ x := hx
      rw [hbit]
      have : ¬ x = i := by omega
      rw [if_neg this]; exact hb.pad x hx'
    · show no = _
      rw [habs]; exact hno2
  -- the new count
  have hcnt := count_set_true (abs b) i bit (by simpa using hi)
  rw [abs_getElem, ← hb.ones] at hcnt
  unfold set
  simp only [guardM, hi, decide_true, if_true, bind_ok, getUnchecked_ok hb hi, if_neg hl]
  cases bit <;> cases hc : bitAt b i <;> rw [hc] at hcnt <;>
    simp only [Bool.false_and, Bool.true_and, Bool.not_false, Bool.not_true, Bool.false_eq_true,
      if_false, if_true, Bool.and_false, Bool.and_true] at hcnt ⊢
  · exact fin _ (by omega)
  · have h1 : 1 ≤ b.nOnes := by omega
    have : sub b.nOnes 1 = .ok (b.nOnes - 1) := by simp [sub, h1]
    rw [this]
    exact fin _ (by omega)
  · exact fin _ (by omega)
  · exact fin _ (by omega)

theorem set_pre_fail (b : BitVector) (i : Nat) (bit : Bool) (hi : ¬ i < b.nBits) :
    set b i bit = .error .assertDoc := by
  unfold set
  simp only [guardM, hi, decide_false]
  rfl

/-! ### the empty vector -/

theorem init_inv : Inv {} ∧ abs {} = [] := by
  refine ⟨⟨by decide, ?_, ?_, rfl⟩, rfl⟩
  · intro j h; exact absurd h (Nat.not_lt_zero _)
  · intro i _
    show (wordAt #[] (i / 64)).testBit (i % 64) = false
    rw [wordAt_of_ge (Nat.zero_le _), Nat.zero_testBit]

theorem Inv.nBits_eq_of_abs {b' : BitVector} {l : List Bool} (h : abs b' = l) :
    b'.nBits = l.length := by rw [← h, abs_length]

/-! ### extendBools / appendBits -/

theorem extendBools_spec (bits : List Bool) : ∀ (b : BitVector), Inv b →
    b.nBits + bits.length < two64 →
    ∃ b', extendBools b bits = .ok b' ∧ Inv b' ∧ abs b' = abs b ++ bits := by
  induction bits with
  | nil => intro b hb _; exact ⟨b, rfl, hb, by simp⟩
  | cons v vs ih =>
    intro b hb hn
    simp only [List.length_cons] at hn
    obtain ⟨b1, h1, hb1, ha1⟩ := push_spec b v hb (by omega)
    have hn1 : b1.nBits = b.nBits + 1 := by rw [Inv.nBits_eq_of_abs ha1]; simp
    obtain ⟨b2, h2, hb2, ha2⟩ := ih b1 hb1 (by omega)
    refine ⟨b2, ?_, hb2, ?_⟩
    · unfold extendBools at h2 ⊢
      rw [List.foldlM_cons, h1, bind_ok, h2]
    · rw [ha2, ha1]; simp

theorem bitsOf_eq_map (len : Nat) : ∀ w, Spec.bitsOf w len =
    (List.range len).map (fun i => (w >>> i) &&& 1 == 1) := by
  induction len with
  | zero => intro w; rfl
  | succ n ih =>
    intro w
    rw [Spec.bitsOf, List.range_succ_eq_map, List.map_cons, List.map_map, ih]
    congr 1
    · simp [Nat.and_one_is_mod]
    · apply List.map_congr_left
      intro i _
      simp only [Function.comp, Nat.succ_eq_add_one, Nat.shiftRight_succ_inside]

theorem shr_eq_zero_of_lt {bits len : Nat} (h : bits < 2 ^ len) : bits >>> len = 0 := by
  rw [Nat.shiftRight_eq_div_pow]; exact Nat.div_eq_of_lt h

theorem shr_ne_zero_of_ge {bits len : Nat} (h : ¬ bits < 2 ^ len) : ¬ bits >>> len = 0 := by
  rw [Nat.shiftRight_eq_div_pow]
  intro h0
  have := Nat.div_add_mod bits (2 ^ len)
  have := Nat.mod_lt bits (Nat.two_pow_pos len)
  rw [h0] at *; omega

theorem appendBits_eq (b : BitVector) (bits len : Nat) (hl : len ≤ 64) (hbits : bits < 2 ^ len) :
    appendBits b bits len = extendBools b (Spec.bitsOf bits len) := by
  have hsh := shr_eq_zero_of_lt hbits
  have tail : (if (len == 0) = true then pure b
      else List.foldlM (fun b i => push b (bits >>> i &&& 1 == 1)) b (List.range len) : M BitVector)
      = extendBools b (Spec.bitsOf bits len) := by
    rw [bitsOf_eq_map, extendBools, List.foldlM_map]
    by_cases h0 : len = 0
    · subst h0; rfl
    · have : ¬ (len == 0) = true := by simp [h0]
      rw [if_neg this]
  unfold appendBits
  by_cases h64 : len = 64
  · subst h64
    simp only [bne_self_eq_false, Bool.false_eq_true, if_false, guardM, Nat.le_refl, decide_true,
      if_true, bind_ok]
    exact tail
  · have : (len != 64) = true := by simp [h64]
    have h2 : ¬ len ≥ 64 := by omega
    simp only [this, if_true, h2, if_false, hsh, guardM, hl, decide_true, bind_ok, beq_self_eq_true]
    exact tail

theorem appendBits_spec (b : BitVector) (bits len : Nat) (hb : Inv b) (hl : len ≤ 64)
    (hbits : bits < 2 ^ len) (hn : b.nBits + len < two64) :
    ∃ b', appendBits b bits len = .ok b' ∧ Inv b' ∧ abs b' = abs b ++ Spec.bitsOf bits len := by
  rw [appendBits_eq b bits len hl hbits]
  apply extendBools_spec _ b hb
  rw [bitsOf_eq_map]; simpa using hn

/-- the documented panic of `append_bits` (`bits` is a `u64`) -/
theorem appendBits_pre_fail (b : BitVector) (bits len : Nat) (hu : bits < two64)
    (hpre : ¬ (len ≤ 64 ∧ bits < 2 ^ len)) : appendBits b bits len = .error .assertDoc := by
  unfold appendBits
  by_cases h64 : len = 64
  · subst h64; exact absurd ⟨Nat.le_refl _, hu⟩ hpre
  · have : (len != 64) = true := by simp [h64]
    simp only [this, if_true]
    by_cases h2 : len ≥ 64
    · simp only [h2, if_true]; rfl
    · have hlt : ¬ bits < 2 ^ len := fun h => hpre ⟨by omega, h⟩
      have hne := shr_ne_zero_of_ge hlt
      have : (bits >>> len == 0) = false := by simp [hne]
      simp only [h2, if_false, this, guardM, Bool.false_eq_true]
      rfl

/-! ### setBits -/

theorem splice_set {α} (l : List α) (A : List α) (k : Nat) (v : α) (hA : A.length = k)
    (hk : k < l.length) : (A ++ l.drop k).set k v = A ++ [v] ++ l.drop (k + 1) := by
  rw [List.set_append_right _ _ (by omega), hA, Nat.sub_self, List.drop_eq_getElem_cons hk,
    List.set_cons_zero, List.append_assoc]
  rfl

theorem setRange_spec (b : BitVector) (i : Nat) (f : Nat → Bool) (hb : Inv b) :
    ∀ n, i + n ≤ b.nBits →
    ∃ b', List.foldlM (fun b k => set b (i + k) (f k)) b (List.range n) = .ok b' ∧ Inv b' ∧
      abs b' = (abs b).take i ++ (List.range n).map f ++ (abs b).drop (i + n) := by
  intro n
  induction n with
  | zero => intro _; exact ⟨b, rfl, hb, by simp⟩
  | succ n ih =>
    intro hn
    obtain ⟨b1, h1, hb1, ha1⟩ := ih (by omega)
    have hlen : ((abs b).take i ++ (List.range n).map f).length = i + n := by
      simp only [List.length_append, List.length_take, abs_length, List.length_map,
        List.length_range]; omega
    have hn1 : b1.nBits = b.nBits := by
      rw [Inv.nBits_eq_of_abs ha1]
      simp only [List.length_append, hlen, List.length_drop, abs_length]; omega
    obtain ⟨b2, h2, hb2, ha2⟩ := set_spec b1 (i + n) (f n) hb1 (by omega)
    refine ⟨b2, ?_, hb2, ?_⟩
    · rw [List.range_succ, List.foldlM_append, h1, bind_ok, List.foldlM_cons, h2, bind_ok]; rfl
    · rw [ha2, ha1, splice_set _ _ _ _ hlen (by simp; omega), List.range_succ, List.map_append]
      simp [Nat.add_assoc]

theorem setBits_spec (b : BitVector) (i len bits : Nat) (hb : Inv b) (hi : i + len ≤ b.nBits)
    (hl : len ≤ 64) (hbits : bits < 2 ^ len) :
    ∃ b', setBits b i len bits = .ok b' ∧ Inv b' ∧
      abs b' = (abs b).take i ++ Spec.bitsOf bits len ++ (abs b).drop (i + len) := by
  have hsh := shr_eq_zero_of_lt hbits
  have tail : ∃ b', (if (len == 0) = true then pure b
      else List.foldlM (fun b k => set b (i + k) (bits >>> k &&& 1 == 1)) b (List.range len) : M BitVector)
      = .ok b' ∧ Inv b' ∧
      abs b' = (abs b).take i ++ Spec.bitsOf bits len ++ (abs b).drop (i + len) := by
    rw [bitsOf_eq_map]
    by_cases h0 : len = 0
    · subst h0; exact ⟨b, rfl, hb, by simp⟩
    · have : ¬ (len == 0) = true := by simp [h0]
      rw [if_neg this]
      exact setRange_spec b i _ hb len hi
  unfold setBits
  by_cases h64 : len = 64
  · subst h64
    simp only [bne_self_eq_false, Bool.false_eq_true, if_false, guardM, Nat.le_refl, decide_true,
      if_true, bind_ok, hi]
    exact tail
  · have : (len != 64) = true := by simp [h64]
    have h2 : ¬ len ≥ 64 := by omega
    simp only [this, if_true, h2, if_false, hsh, guardM, hl, hi, decide_true, bind_ok,
      beq_self_eq_true]
    exact tail

/-- the documented panics of `set_bits` (`bits` is a `u64`) -/
theorem setBits_pre_fail (b : BitVector) (i len bits : Nat) (hu : bits < two64)
    (hpre : ¬ (i + len ≤ b.nBits ∧ len ≤ 64 ∧ bits < 2 ^ len)) :
    setBits b i len bits = .error .assertDoc := by
  unfold setBits
  by_cases hi : i + len ≤ b.nBits
  · simp only [guardM, hi, decide_true, if_true, bind_ok]
    by_cases h64 : len = 64
    · subst h64; exact absurd ⟨hi, Nat.le_refl _, hu⟩ hpre
    · have : (len != 64) = true := by simp [h64]
      simp only [this, if_true]
      by_cases h2 : len ≥ 64
      · simp only [h2, if_true]; rfl
      · have hlt : ¬ bits < 2 ^ len := fun h => hpre ⟨hi, by omega, h⟩
        have hne := shr_ne_zero_of_ge hlt
        have : (bits >>> len == 0) = false := by simp [hne]
        simp only [h2, if_false, this, Bool.false_eq_true]
        rfl
  · simp only [guardM, hi, decide_false, Bool.false_eq_true, if_false]
    rfl

/-! ### extendPositions / withZeros -/

/-- one step of `Extend<usize>` on the plain sequence -/
def specSetPos (l : List Bool) (p : Nat) : List Bool :=
  (if p ≥ l.length then l ++ List.replicate (p + 1 - l.length) false else l).set p true

/-- one step of `Extend<usize>` in the model -/
def extendPos1 (b : BitVector) (pos : Nat) : M BitVector := do
  let b ← if pos ≥ b.nBits then do
              let p1 ← add64 pos 1
              extendWithZeros b (p1 - b.nBits)
          else pure b
  set b pos true

theorem extendPositions_eq (b : BitVector) (ps : List Nat) :
    extendPositions b ps = ps.foldlM extendPos1 b := rfl

theorem extendPos1_spec (b : BitVector) (p : Nat) (hb : Inv b) (hp : p + 512 < two64) :
    ∃ b', extendPos1 b p = .ok b' ∧ Inv b' ∧ abs b' = specSetPos (abs b) p := by
  unfold extendPos1 specSetPos
  by_cases h : p ≥ b.nBits
  · have h' : p ≥ (abs b).length := by simpa using h
    rw [if_pos h, if_pos h', add64_ok (by omega), bind_ok]
    obtain ⟨b1, h1, hb1, ha1⟩ := extendWithZeros_spec b (p + 1 - b.nBits) hb (by omega)
    rw [h1, bind_ok]
    have hn1 : b1.nBits = p + 1 := by
      rw [Inv.nBits_eq_of_abs ha1]; simp; omega
    obtain ⟨b2, h2, hb2, ha2⟩ := set_spec b1 p true hb1 (by omega)
    refine ⟨b2, h2, hb2, ?_⟩
    rw [ha2, ha1, abs_length]
  · have h' : ¬ p ≥ (abs b).length := by simpa using h
    rw [if_neg h, if_neg h']
    exact set_spec b p true hb (by omega)

theorem extendPositions_spec (ps : List Nat) : ∀ (b : BitVector), Inv b →
    (∀ p ∈ ps, p + 512 < two64) →
    ∃ b', extendPositions b ps = .ok b' ∧ Inv b' ∧ abs b' = ps.foldl specSetPos (abs b) := by
  induction ps with
  | nil => intro b hb _; exact ⟨b, rfl, hb, rfl⟩
  | cons p ps ih =>
    intro b hb hp
    obtain ⟨b1, h1, hb1, ha1⟩ := extendPos1_spec b p hb (hp p (by simp))
    obtain ⟨b2, h2, hb2, ha2⟩ := ih b1 hb1 (fun q hq => hp q (by simp [hq]))
    refine ⟨b2, ?_, hb2, ?_⟩
    · rw [extendPositions_eq] at h2 ⊢
      rw [List.foldlM_cons, h1, bind_ok, h2]
    · rw [ha2, ha1]; rfl

theorem withZeros_spec (n : Nat) (hn : n + 511 < two64) :
    ∃ b', withZeros n = .ok b' ∧ Inv b' ∧ abs b' = List.replicate n false := by
  unfold withZeros withCapacity
  rw [add64_ok (by omega)]
  simp only [bind_ok]
  obtain ⟨b', h1, h2, h3⟩ := extendWithZeros_spec {} n init_inv.1 (by simpa using hn)
  refine ⟨b', h1, h2, ?_⟩
  rw [h3, init_inv.2]; rfl

end Qwt.BV
