import Qwt.Spec.Basic
import Qwt.Model.Basic

/-! Word-level facts used by the rank/select bit-vector proofs (C06):
`popc` of prefixes of a word, complement words, `Spec.bitsOf`, the list specifications
`Spec.rank` / `Spec.select`, and packed counter fields. -/
namespace Qwt.RSBin
open Qwt

/-! ### `popc` -/

theorem popc_zero : popc 0 = 0 := by rw [popc]; simp

theorem popc_step (w : Nat) : popc w = w % 2 + popc (w / 2) := by
  by_cases h : w = 0
  · subst h; simp [popc_zero]
  · rw [popc]; simp [h]

theorem specPopc_eq (w : Nat) : Spec.popc w = popc w := by
  induction w using Nat.strongRecOn with
  | _ w ih =>
    by_cases h : w = 0
    · subst h; rw [Spec.popc, popc]; simp
    · rw [Spec.popc, popc]; simp only [h, dite_false]
      rw [ih (w / 2) (by omega)]

theorem popc_lt_two (w : Nat) (h : w < 2) : popc w = w := by
  rw [popc_step]
  have : w / 2 = 0 := by omega
  rw [this, popc_zero]; omega

/-- adding bit `t` to a prefix of the word -/
theorem popc_mod_succ (w t : Nat) :
    popc (w % 2 ^ (t + 1)) = popc (w % 2 ^ t) + w / 2 ^ t % 2 := by
  induction t generalizing w with
  | zero =>
    have h1 : w % 2 ^ 0 = 0 := by simp [Nat.mod_one]
    rw [h1, popc_zero]
    simp only [Nat.zero_add, Nat.pow_one, Nat.pow_zero, Nat.div_one]
    exact popc_lt_two _ (Nat.mod_lt _ (by decide))
  | succ t ih =>
    rw [popc_step (w % 2 ^ (t + 1 + 1)), popc_step (w % 2 ^ (t + 1))]
    have e1 : ∀ n, w % 2 ^ (n + 1) % 2 = w % 2 := by
      intro n
      rw [Nat.pow_succ, Nat.mul_comm]
      exact Nat.mod_mul_right_mod _ _ _
    have e2 : ∀ n, w % 2 ^ (n + 1) / 2 = w / 2 % 2 ^ n := by
      intro n
      rw [Nat.pow_succ, Nat.mul_comm]
      exact Nat.mod_mul_right_div_self _ _ _
    rw [e1, e1, e2, e2, ih (w / 2)]
    have e3 : w / 2 / 2 ^ t = w / 2 ^ (t + 1) := by
      rw [Nat.div_div_eq_div_mul, Nat.pow_succ, Nat.mul_comm]
    rw [e3]; omega

theorem popc_mod_le (w t : Nat) : popc (w % 2 ^ t) ≤ t := by
  induction t with
  | zero => simp [Nat.mod_one, popc_zero]
  | succ t ih =>
    rw [popc_mod_succ]
    have : w / 2 ^ t % 2 < 2 := Nat.mod_lt _ (by decide)
    omega

theorem popc_mod_mono (w t u : Nat) (h : t ≤ u) : popc (w % 2 ^ t) ≤ popc (w % 2 ^ u) := by
  induction u with
  | zero => have : t = 0 := by omega
            subst this; exact Nat.le_refl _
  | succ u ih =>
    by_cases h' : t = u + 1
    · subst h'; exact Nat.le_refl _
    · have := ih (by omega)
      rw [popc_mod_succ]; omega

theorem popc_le_of_lt (w n : Nat) (h : w < 2 ^ n) : popc w ≤ n := by
  have := popc_mod_le w n
  rwa [Nat.mod_eq_of_lt h] at this

theorem popc_two_mul (x : Nat) : popc (2 * x) = popc x := by
  rw [popc_step (2 * x)]
  have h1 : 2 * x % 2 = 0 := by omega
  have h2 : 2 * x / 2 = x := by omega
  rw [h1, h2]; omega

theorem popc_mul_two_pow (x k : Nat) : popc (x * 2 ^ k) = popc x := by
  induction k with
  | zero => simp
  | succ k ih =>
    have : x * 2 ^ (k + 1) = 2 * (x * 2 ^ k) := by
      rw [Nat.pow_succ]; simp [Nat.mul_comm, Nat.mul_left_comm]
    rw [this, popc_two_mul, ih]

/-- `popc (w & (2^t - 1))` -/
theorem popc_and_mask (w t : Nat) : popc (w &&& ((1 <<< t) - 1)) = popc (w % 2 ^ t) := by
  rw [Nat.shiftLeft_eq, Nat.one_mul, Nat.and_two_pow_sub_one_eq_mod]

theorem and_mask64 (w : Nat) (h : w < 2 ^ 64) : w &&& mask64 = w := by
  have : mask64 = 2 ^ 64 - 1 := by decide
  rw [this, Nat.and_two_pow_sub_one_eq_mod, Nat.mod_eq_of_lt h]

/-! ### the complemented word -/

theorem not64_lt (w : Nat) : not64 w < 2 ^ 64 := by
  unfold not64 mask64 two64; omega

theorem not64_eq (w : Nat) (h : w < 2 ^ 64) : not64 w = 2 ^ 64 - 1 - w := by
  unfold not64 mask64 two64
  rw [Nat.mod_eq_of_lt (by simpa using h)]

/-- bit `t` of the complement -/
theorem compl_div_mod (n w t : Nat) (h : w < 2 ^ n) (ht : t < n) :
    (2 ^ n - 1 - w) / 2 ^ t % 2 = 1 - w / 2 ^ t % 2 := by
  obtain ⟨d, rfl⟩ : ∃ d, n = t + 1 + d := ⟨n - (t + 1), by omega⟩
  have hp : 2 ^ (t + 1 + d) = 2 ^ t * (2 * 2 ^ d) := by
    rw [Nat.pow_add, Nat.pow_succ]; simp [Nat.mul_assoc]
  have hpos : 0 < 2 ^ t := Nat.pow_pos (by decide)
  have hposd : 0 < 2 ^ d := Nat.pow_pos (by decide)
  rw [hp] at h ⊢
  generalize 2 ^ t = T at *
  generalize 2 ^ d = D at *
  -- w = q * T + r
  have hw := Nat.div_add_mod w T
  have hr := Nat.mod_lt w hpos
  generalize w / T = q at *
  generalize w % T = r at *
  have hq : q < 2 * D := by
    apply Nat.lt_of_mul_lt_mul_left (a := T)
    calc T * q ≤ T * q + r := Nat.le_add_right _ _
      _ = w := hw
      _ < _ := h
  have e : T * (2 * D) - 1 - w = (2 * D - 1 - q) * T + (T - 1 - r) := by
    have : T * (2 * D) = (2 * D - 1 - q) * T + q * T + T := by
      have : 2 * D = (2 * D - 1 - q) + q + 1 := by omega
      calc T * (2 * D) = (2 * D) * T := Nat.mul_comm _ _
        _ = ((2 * D - 1 - q) + q + 1) * T := by rw [← this]
        _ = _ := by simp [Nat.add_mul]
    rw [Nat.mul_comm T q] at hw
    omega
  rw [e]
  have : ((2 * D - 1 - q) * T + (T - 1 - r)) / T = 2 * D - 1 - q := by
    rw [Nat.mul_comm, Nat.mul_add_div hpos]
    have : (T - 1 - r) / T = 0 := Nat.div_eq_of_lt (by omega)
    omega
  rw [this]; omega

theorem popc_compl_mod (n w t : Nat) (h : w < 2 ^ n) (ht : t ≤ n) :
    popc ((2 ^ n - 1 - w) % 2 ^ t) = t - popc (w % 2 ^ t) := by
  induction t with
  | zero => simp [Nat.mod_one, popc_zero]
  | succ t ih =>
    rw [popc_mod_succ, popc_mod_succ, ih (by omega), compl_div_mod n w t h (by omega)]
    have := popc_mod_le w t
    have : w / 2 ^ t % 2 < 2 := Nat.mod_lt _ (by decide)
    omega

/-! ### `Spec.bitsOf` -/

theorem bitsOf_length (w n : Nat) : (Spec.bitsOf w n).length = n := by
  induction n generalizing w with
  | zero => rfl
  | succ n ih => simp [Spec.bitsOf, ih]

theorem bitsOf_getElem? (w n p : Nat) (hp : p < n) :
    (Spec.bitsOf w n)[p]? = some (decide (w / 2 ^ p % 2 = 1)) := by
  induction n generalizing w p with
  | zero => omega
  | succ n ih =>
    cases p with
    | zero => simp [Spec.bitsOf]; rfl
    | succ p =>
      simp only [Spec.bitsOf, List.getElem?_cons_succ]
      rw [ih (w / 2) p (by omega), Nat.div_div_eq_div_mul, Nat.pow_succ, Nat.mul_comm]


/-! ### `Spec.rank` on bit lists -/

/-- cumulative number of ones -/
abbrev R (s : List Bool) (i : Nat) : Nat := Spec.rank true i s

theorem rank_zero (c : Bool) (s : List Bool) : Spec.rank c 0 s = 0 := by simp [Spec.rank]

theorem rank_succ (c : Bool) (s : List Bool) (i : Nat) :
    Spec.rank c (i + 1) s = Spec.rank c i s + (if s[i]? = some c then 1 else 0) := by
  unfold Spec.rank
  rw [List.take_add_one, List.count_append]
  cases h : s[i]? with
  | none => simp
  | some b => cases b <;> cases c <;> simp

theorem R_succ (s : List Bool) (i : Nat) :
    R s (i + 1) = R s i + (if s.getD i false then 1 else 0) := by
  unfold R
  rw [rank_succ, List.getD_eq_getElem?_getD]
  cases h : s[i]? with
  | none => simp
  | some b => cases b <;> simp

theorem rank_le (c : Bool) (s : List Bool) (i : Nat) : Spec.rank c i s ≤ i := by
  induction i with
  | zero => simp [rank_zero]
  | succ i ih => rw [rank_succ]; split <;> omega

theorem rank_mono (c : Bool) (s : List Bool) {i j : Nat} (h : i ≤ j) :
    Spec.rank c i s ≤ Spec.rank c j s := by
  induction j with
  | zero => have : i = 0 := by omega
            subst this; exact Nat.le_refl _
  | succ j ih =>
    by_cases h' : i = j + 1
    · subst h'; exact Nat.le_refl _
    · have := ih (by omega)
      rw [rank_succ]; omega

theorem rank_add_le (c : Bool) (s : List Bool) (i k : Nat) :
    Spec.rank c (i + k) s ≤ Spec.rank c i s + k := by
  induction k with
  | zero => exact Nat.le_refl _
  | succ k ih => rw [← Nat.add_assoc, rank_succ]; split <;> omega

theorem rank_of_ge (c : Bool) (s : List Bool) (i : Nat) (h : s.length ≤ i) :
    Spec.rank c i s = s.count c := by
  unfold Spec.rank; rw [List.take_of_length_le h]

theorem rank_false_add (s : List Bool) (i : Nat) (h : i ≤ s.length) :
    Spec.rank false i s + Spec.rank true i s = i := by
  induction i with
  | zero => simp [rank_zero]
  | succ i ih =>
    have := ih (by omega)
    rw [rank_succ, rank_succ]
    have hi : i < s.length := by omega
    rw [List.getElem?_eq_getElem hi]
    cases s[i] <;> simp <;> omega

theorem count_false_add (s : List Bool) : s.count false + s.count true = s.length := by
  have := rank_false_add s s.length (Nat.le_refl _)
  rwa [rank_of_ge _ _ _ (Nat.le_refl _), rank_of_ge _ _ _ (Nat.le_refl _)] at this

/-- number of zeros of the zero-padded sequence in `[0, i)` -/
def Z (s : List Bool) (i : Nat) : Nat := i - R s i

theorem Z_eq_rank (s : List Bool) (i : Nat) (h : i ≤ s.length) : Z s i = Spec.rank false i s := by
  have := rank_false_add s i h
  unfold Z R; omega

theorem Z_succ (s : List Bool) (i : Nat) :
    Z s (i + 1) = Z s i + (if s.getD i false then 0 else 1) := by
  unfold Z
  rw [R_succ]
  have := rank_le true s i
  split <;> (unfold R; omega)

/-- cumulative count of `bit` in the zero-padded sequence -/
def C (bit : Bool) (s : List Bool) (i : Nat) : Nat := if bit then R s i else Z s i

theorem C_zero (bit : Bool) (s : List Bool) : C bit s 0 = 0 := by
  cases bit <;> simp [C, Z, R, rank_zero]

theorem C_succ (bit : Bool) (s : List Bool) (i : Nat) :
    C bit s (i + 1) = C bit s i + (if s.getD i false = bit then 1 else 0) := by
  cases bit
  · simp only [C, Bool.false_eq_true, if_false, Z_succ]
    cases s.getD i false <;> simp
  · simp only [C, if_true, R_succ]

theorem C_mono (bit : Bool) (s : List Bool) {i j : Nat} (h : i ≤ j) : C bit s i ≤ C bit s j := by
  induction j with
  | zero => have : i = 0 := by omega
            subst this; exact Nat.le_refl _
  | succ j ih =>
    by_cases h' : i = j + 1
    · subst h'; exact Nat.le_refl _
    · have := ih (by omega)
      rw [C_succ]; omega

theorem C_add_le (bit : Bool) (s : List Bool) (i k : Nat) : C bit s (i + k) ≤ C bit s i + k := by
  induction k with
  | zero => exact Nat.le_refl _
  | succ k ih => rw [← Nat.add_assoc, C_succ]; split <;> omega

theorem C_le (bit : Bool) (s : List Bool) (i : Nat) : C bit s i ≤ i := by
  have := C_add_le bit s 0 i
  rw [C_zero] at this; simpa using this

theorem C_eq_rank (bit : Bool) (s : List Bool) (i : Nat) (h : i ≤ s.length) :
    C bit s i = Spec.rank bit i s := by
  cases bit
  · simp [C, Z_eq_rank s i h]
  · simp [C, R]

theorem C_length (bit : Bool) (s : List Bool) : C bit s s.length = s.count bit := by
  rw [C_eq_rank _ _ _ (Nat.le_refl _), rank_of_ge _ _ _ (Nat.le_refl _)]

/-- for ones the count saturates beyond the end -/
theorem R_of_ge (s : List Bool) (i : Nat) (h : s.length ≤ i) : R s i = s.count true :=
  rank_of_ge _ _ _ h

/-! ### `Spec.select` -/

theorem select_eq_some_iff (c : Bool) (s : List Bool) (k p : Nat) :
    Spec.select c k s = some p ↔ s[p]? = some c ∧ Spec.rank c p s = k := by
  induction s generalizing k p with
  | nil => simp [Spec.select]
  | cons x xs ih =>
    have hr : ∀ p, Spec.rank c (p + 1) (x :: xs) = (if x = c then 1 else 0) + Spec.rank c p xs := by
      intro p; unfold Spec.rank
      rw [List.take_succ_cons, List.count_cons]
      cases x <;> cases c <;> simp <;> omega
    by_cases hx : x = c
    · subst hx
      cases k with
      | zero =>
        cases p with
        | zero => simp [Spec.select, rank_zero]
        | succ p => simp [Spec.select, hr]
      | succ k =>
        cases p with
        | zero => simp [Spec.select, rank_zero]
        | succ p =>
          simp only [Spec.select, beq_self_eq_true, if_true, Option.map_eq_some_iff, hr,
            List.getElem?_cons_succ]
          constructor
          · rintro ⟨a, ha, hap⟩
            have : a = p := by omega
            subst this
            have := (ih k a).1 ha
            exact ⟨this.1, by omega⟩
          · rintro ⟨h1, h2⟩
            exact ⟨p, (ih k p).2 ⟨h1, by omega⟩, rfl⟩
    · have hxc : (x == c) = false := by cases x <;> cases c <;> simp_all
      cases p with
      | zero =>
        simp only [Spec.select, hxc, Bool.false_eq_true, if_false, Option.map_eq_some_iff,
          List.getElem?_cons_zero, Option.some.injEq, hx, false_and, iff_false]
        rintro ⟨a, _, h⟩; omega
      | succ p =>
        simp only [Spec.select, hxc, Bool.false_eq_true, if_false, Option.map_eq_some_iff, hr, hx,
          List.getElem?_cons_succ]
        constructor
        · rintro ⟨a, ha, hap⟩
          have : a = p := by omega
          subst this
          have := (ih k a).1 ha
          exact ⟨this.1, by omega⟩
        · rintro ⟨h1, h2⟩
          exact ⟨p, (ih k p).2 ⟨h1, by omega⟩, rfl⟩

theorem select_isSome_of_lt (c : Bool) (s : List Bool) (k : Nat) (h : k < s.count c) :
    ∃ p, Spec.select c k s = some p := by
  induction s generalizing k with
  | nil => simp at h
  | cons x xs ih =>
    by_cases hx : x = c
    · subst hx
      cases k with
      | zero => exact ⟨0, by simp [Spec.select]⟩
      | succ k =>
        have : k < xs.count x := by simp at h; omega
        obtain ⟨p, hp⟩ := ih k this
        exact ⟨p + 1, by simp [Spec.select, hp]⟩
    · have hxc : (x == c) = false := by cases x <;> cases c <;> simp_all
      have : k < xs.count c := by simpa [List.count_cons, hxc] using h
      obtain ⟨p, hp⟩ := ih k this
      exact ⟨p + 1, by simp [Spec.select, hxc, hp]⟩

theorem select_eq_none_of_ge (c : Bool) (s : List Bool) (k : Nat) (h : s.count c ≤ k) :
    Spec.select c k s = none := by
  cases hs : Spec.select c k s with
  | none => rfl
  | some p =>
    have := (select_eq_some_iff c s k p).1 hs
    have hp : p < s.length := by
      have := this.1
      exact (List.getElem?_eq_some_iff.1 this).1
    -- rank c (p+1) = k + 1 ≤ count
    have h1 := rank_succ c s p
    rw [this.1] at h1
    simp only [if_true] at h1
    have h2 := rank_mono c s (i := p + 1) (j := s.length) (by omega)
    rw [rank_of_ge c s _ (Nat.le_refl _)] at h2
    omega

/-! ### `bitsOf` against prefixes of the word -/

theorem rank_bitsOf (w n p : Nat) (hp : p ≤ n) :
    Spec.rank true p (Spec.bitsOf w n) = popc (w % 2 ^ p) := by
  induction p with
  | zero => simp [rank_zero, Nat.mod_one, popc_zero]
  | succ p ih =>
    rw [rank_succ, ih (by omega), popc_mod_succ, bitsOf_getElem? w n p (by omega)]
    have : w / 2 ^ p % 2 < 2 := Nat.mod_lt _ (by decide)
    by_cases h : w / 2 ^ p % 2 = 1
    · simp [h]
    · have : w / 2 ^ p % 2 = 0 := by omega
      simp [this]

theorem count_bitsOf (w n : Nat) (h : w < 2 ^ n) : (Spec.bitsOf w n).count true = popc w := by
  have := rank_bitsOf w n n (Nat.le_refl _)
  rw [rank_of_ge _ _ _ (by rw [bitsOf_length]; exact Nat.le_refl _), Nat.mod_eq_of_lt h] at this
  exact this

/-- what `select_in_word` returns on a word holding more than `t` ones -/
theorem select_bitsOf (w t : Nat) (hw : w < 2 ^ 64) (ht : t < popc w) :
    ∃ p, Spec.select true t (Spec.bitsOf w 64) = some p ∧ p < 64 ∧ w / 2 ^ p % 2 = 1 ∧
      popc (w % 2 ^ p) = t := by
  obtain ⟨p, hp⟩ := select_isSome_of_lt true (Spec.bitsOf w 64) t (by rw [count_bitsOf w 64 hw]; exact ht)
  have h := (select_eq_some_iff _ _ _ _).1 hp
  have hlt : p < 64 := by
    have := (List.getElem?_eq_some_iff.1 h.1).1
    rwa [bitsOf_length] at this
  refine ⟨p, hp, hlt, ?_, ?_⟩
  · have := h.1
    rw [bitsOf_getElem? w 64 p hlt] at this
    simpa using this
  · rw [← rank_bitsOf w 64 p (by omega)]; exact h.2


/-- a monotone staircase crosses every level: there is a step containing `k` -/
theorem exists_step (f : Nat → Nat) (k : Nat) :
    ∀ n, f 0 ≤ k → k < f n → ∃ g, g < n ∧ f g ≤ k ∧ k < f (g + 1) := by
  intro n
  induction n with
  | zero => intro h0 h1; omega
  | succ n ih =>
    intro h0 h1
    by_cases h : k < f n
    · obtain ⟨g, hg, a, b⟩ := ih h0 h
      exact ⟨g, by omega, a, b⟩
    · exact ⟨n, by omega, by omega, h1⟩

/-- the position found by a select is the specified one -/
theorem select_of_C (bit : Bool) (s : List Bool) (k pos : Nat) (hk : k < s.count bit)
    (hb : s.getD pos false = bit) (hc : C bit s pos = k) : Spec.select bit k s = some pos := by
  have hlt : pos < s.length := by
    apply Nat.lt_of_not_le
    intro hge
    have := C_mono bit s hge
    rw [C_length] at this; omega
  rw [select_eq_some_iff]
  refine ⟨?_, ?_⟩
  · rw [List.getD_eq_getElem?_getD, List.getElem?_eq_getElem hlt] at hb
    rw [List.getElem?_eq_getElem hlt]; simpa using hb
  · rw [← C_eq_rank bit s pos (by omega)]; exact hc

/-! ### packed counters

`packN B A c r` is the word holding the absolute count `A` followed by the `r` fields
`c 1, …, c r`, each `B` bits wide. -/

def packN (B A : Nat) (c : Nat → Nat) : Nat → Nat
  | 0 => A
  | r + 1 => packN B A c r * 2 ^ B + c (r + 1)

theorem packN_lt (B A : Nat) (c : Nat → Nat) (a : Nat) (hA : A < 2 ^ a) (hc : ∀ j, c j < 2 ^ B) (r : Nat) :
    packN B A c r < 2 ^ (a + B * r) := by
  induction r with
  | zero => simpa [packN] using hA
  | succ r ih =>
    have e : 2 ^ (a + B * (r + 1)) = 2 ^ (a + B * r) * 2 ^ B := by
      rw [← Nat.pow_add]; congr 1; rw [Nat.mul_succ]; omega
    rw [packN, e]
    have := hc (r + 1)
    have h1 : (packN B A c r + 1) * 2 ^ B ≤ 2 ^ (a + B * r) * 2 ^ B := Nat.mul_le_mul_right _ ih
    rw [Nat.add_mul] at h1
    omega

/-- one step of the metadata accumulation `md = (md << B) | c` in a `W`-bit register -/
theorem pack_step (B W x c : Nat) (hx : x * 2 ^ B < 2 ^ W) (hc : c < 2 ^ B) :
    ((x <<< B) % 2 ^ W) ||| c = x * 2 ^ B + c := by
  rw [Nat.shiftLeft_eq, Nat.mod_eq_of_lt hx, ← Nat.shiftLeft_eq, Nat.shiftLeft_add_eq_or_of_lt hc]

/-- the twelve-bit fields of a superblock word -/
theorem packN12_fields (A : Nat) (c : Nat → Nat) (hc : ∀ j, c j < 4096) :
    packN 12 A c 7 / 2 ^ 84 = A ∧
    ∀ j, 1 ≤ j → j ≤ 7 → packN 12 A c 7 / 2 ^ ((7 - j) * 12) % 4096 = c j := by
  have h1 := hc 1; have h2 := hc 2; have h3 := hc 3; have h4 := hc 4
  have h5 := hc 5; have h6 := hc 6; have h7 := hc 7
  refine ⟨by simp only [packN, Nat.reduceAdd, Nat.zero_add]; omega, ?_⟩
  intro j hj1 hj7
  have : j = 1 ∨ j = 2 ∨ j = 3 ∨ j = 4 ∨ j = 5 ∨ j = 6 ∨ j = 7 := by omega
  rcases this with rfl | rfl | rfl | rfl | rfl | rfl | rfl <;>
    simp only [packN, Nat.reduceAdd, Nat.zero_add, Nat.reduceSub, Nat.reduceMul] <;> omega

/-- the nine-bit fields of a block word -/
theorem packN9_fields (c : Nat → Nat) (hc : ∀ j, c j < 512) :
    packN 9 0 c 7 < 2 ^ 63 ∧
    ∀ j, 1 ≤ j → j ≤ 7 → packN 9 0 c 7 / 2 ^ ((7 - j) * 9) % 512 = c j := by
  have h1 := hc 1; have h2 := hc 2; have h3 := hc 3; have h4 := hc 4
  have h5 := hc 5; have h6 := hc 6; have h7 := hc 7
  refine ⟨by simp only [packN, Nat.reduceAdd, Nat.zero_add]; omega, ?_⟩
  intro j hj1 hj7
  have : j = 1 ∨ j = 2 ∨ j = 3 ∨ j = 4 ∨ j = 5 ∨ j = 6 ∨ j = 7 := by omega
  rcases this with rfl | rfl | rfl | rfl | rfl | rfl | rfl <;>
    simp only [packN, Nat.reduceAdd, Nat.zero_add, Nat.reduceSub, Nat.reduceMul] <;> omega

end Qwt.RSBin
