import Qwt.Model.QWT
import Qwt.Proofs.Interfaces
import Qwt.Proofs.WaveletMatrix

/-!
Simulation of the model `Qwt.QWTree` (the quad wavelet matrix of `src/quadwt/mod.rs`) by the
list-level wavelet matrix of `Qwt.Proofs.WaveletMatrix`, given that every level
`RSQ.Represents` its digit list.
-/
set_option linter.unusedSimpArgs false
set_option linter.unusedVariables false

namespace Qwt.QWTree
open Qwt Qwt.WM Qwt.Spec Qwt.RSQ

/-! ### monad bookkeeping -/

theorem ok_bind {α β} (a : α) (f : α → M β) : (Except.ok a >>= f) = f a := rfl
theorem pure_eq_ok {α} (a : α) : (pure a : M α) = Except.ok a := rfl

theorem idx_ok {α} {a : Array α} {i : Nat} {x : α} (h : a[i]? = some x) : idx a i = .ok x := by
  obtain ⟨hi, hx⟩ := Array.getElem?_eq_some_iff.mp h
  simp [idx, hi, hx]

theorem sub_ok {a b : Nat} (h : b ≤ a) : sub a b = .ok (a - b) := by simp [sub, h]

theorem and3_eq_mod (a : Nat) : Utils.asUsize a &&& 3 = a % 4 := by
  have h := Nat.and_two_pow_sub_one_eq_mod (Utils.asUsize a) 2
  have e : (2 ^ 2 - 1 : Nat) = 3 := by decide
  rw [e] at h
  rw [h, Utils.asUsize, two64]
  exact Nat.mod_mod_of_dvd a (by decide)

theorem twoBits_ok (c : Cfg) (sym sh : Nat) (h : sh < c.W) : twoBits c sym sh = .ok (dig sh sym) := by
  simp only [twoBits, if_neg (Nat.not_le.mpr h), and3_eq_mod, dig]; rfl

/-! ### the invariant: level `level + j` represents the digit list of the `j`-th partition -/

/-- `f` levels starting at `level` represent the wavelet-matrix levels of `s` -/
def RepLevels (B : Nat) (qvs : Array RSQVector) : Nat → Nat → List Nat → Prop
  | _, 0, _ => True
  | level, f + 1, s =>
    (∃ r, qvs[level]? = some r ∧ Represents B r (s.map (dig (2 * f)))) ∧
      RepLevels B qvs (level + 1) f (stablePart (dig (2 * f)) 4 s)

theorem length_part (sh : Nat) (s : List Nat) : (stablePart (dig sh) 4 s).length = s.length :=
  length_stablePart_all _ _ _ (fun x _ => dig_lt _ x)

/-! ### rank -/

theorem rank_go_out (c : Cfg) (t : QWT) (sym : Nat) :
    ∀ (f level : Nat) (s : List Nat) (i p : Nat),
      RepLevels c.B t.qvs level (f + 1) s → 2 * f < c.W → p ≤ i → i ≤ s.length →
      ∃ s' i' p', rankUnchecked.go c t sym f level (2 * f) i p = .ok (0, i', p') ∧
        RepLevels c.B t.qvs (level + f) 1 s' ∧ p' ≤ i' ∧ i' ≤ s'.length ∧
        rankWM sym (f + 1) s i p = rankWM sym 1 s' i' p' := by
  intro f
  induction f with
  | zero => intro level s i p h _ hpi hi; exact ⟨s, i, p, rfl, h, hpi, hi, rfl⟩
  | succ f ih =>
    intro level s i p h hW hpi hi
    obtain ⟨⟨r, hr, hR⟩, hrest⟩ := h
    have hd := dig_lt (2 * (f + 1)) sym
    have hlen : (s.map (dig (2 * (f + 1)))).length = s.length := List.length_map _
    rw [rankUnchecked.go]
    simp only [twoBits_ok c sym _ hW, idx_ok hr, hR.occsSmallerU _ _ (Nat.le_of_lt_succ hd),
      hR.rankU _ _ _ (Nat.le_of_lt_succ hd) (show p ≤ _ by omega),
      hR.rankU _ _ _ (Nat.le_of_lt_succ hd) (show i ≤ _ by omega), ok_bind]
    rw [show 2 * (f + 1) - 2 = 2 * f by omega]
    obtain ⟨s', i', p', h1, h2, h3, h4, h5⟩ := ih (level + 1)
      (stablePart (dig (2 * (f + 1))) 4 s)
      (Spec.rank (dig (2 * (f + 1)) sym) i (s.map (dig (2 * (f + 1)))) +
        Spec.occsSmaller id (dig (2 * (f + 1)) sym) (s.map (dig (2 * (f + 1)))))
      (Spec.rank (dig (2 * (f + 1)) sym) p (s.map (dig (2 * (f + 1)))) +
        Spec.occsSmaller id (dig (2 * (f + 1)) sym) (s.map (dig (2 * (f + 1)))))
      hrest (by omega)
      (by
        rw [rank_map, rank_map]
        have := countP_take_mono (fun x => dig (2 * (f + 1)) x == dig (2 * (f + 1)) sym) s hpi
        omega)
      (by rw [length_part]; exact off_add_rank_le _ _ _ _)
    refine ⟨s', i', p', h1, ?_, h3, h4, ?_⟩
    · rwa [show level + (f + 1) = level + 1 + f by omega]
    · rw [← h5]; rfl

theorem rankUnchecked_sim (c : Cfg) (t : QWT) (sym i : Nat) (s : List Nat)
    (hL : t.nLevels ≠ 0) (hrep : RepLevels c.B t.qvs 0 t.nLevels s)
    (hW : 2 * (t.nLevels - 1) < c.W) (hi : i ≤ s.length) :
    rankUnchecked c t sym i = .ok (rankWM sym t.nLevels s i 0) := by
  obtain ⟨f, hf⟩ : ∃ f, t.nLevels = f + 1 := ⟨t.nLevels - 1, by omega⟩
  rw [hf] at hrep hW ⊢
  simp only [Nat.add_sub_cancel] at hW
  obtain ⟨s', i', p', h1, h2, h3, h4, h5⟩ := rank_go_out c t sym f 0 s i 0 hrep hW (Nat.zero_le _) hi
  obtain ⟨⟨r, hr, hR⟩, _⟩ := h2
  simp only [Nat.zero_add, Nat.mul_zero] at hr hR
  have hd := dig_lt 0 sym
  have hlen : (s'.map (dig 0)).length = s'.length := List.length_map _
  simp only [rankUnchecked, hf, sub_ok (Nat.le_add_left 1 f), Nat.add_sub_cancel, ok_bind, h1,
    twoBits_ok c sym 0 (by omega), idx_ok hr,
    hR.rankU _ _ _ (Nat.le_of_lt_succ hd) (show p' ≤ _ by omega),
    hR.rankU _ _ _ (Nat.le_of_lt_succ hd) (show i' ≤ _ by omega)]
  rw [h5]
  simp only [rankWM, Nat.mul_zero]
  have := countP_take_mono (fun x => dig 0 x == dig 0 sym) s' h3
  rw [← rank_map, ← rank_map] at this
  rw [sub_ok this]; congr 1; omega

/-! ### get -/

theorem getD_map_dig_lt (sh : Nat) (s : List Nat) (i : Nat) : (s.map (dig sh)).getD i 0 < 4 := by
  simp only [List.getD, List.getElem?_map]
  cases s[i]? with
  | none => simp
  | some x => simpa using dig_lt sh x

/-- the successor index of a valid index is valid -/
theorem next_index_lt (key : Nat → Nat) (s : List Nat) (i : Nat) (hi : i < s.length) :
    Spec.rank ((s.map key).getD i 0) i (s.map key) +
      Spec.occsSmaller id ((s.map key).getD i 0) (s.map key) < s.length := by
  have hx : s[i]? = some s[i] := List.getElem?_eq_getElem hi
  have hd : (s.map key).getD i 0 = key s[i] := by simp [List.getD, List.getElem?_map, hx]
  rw [hd]
  have h := part_pos key s (Nat.lt_add_one (key s[i])) hx rfl
  have h2 := (List.getElem?_eq_some_iff.mp h).1
  rw [length_stablePart] at h2
  have : Spec.occsSmaller key (key s[i] + 1) s ≤ s.length := List.countP_le_length
  omega

theorem get_go_out (c : Cfg) (t : QWT) :
    ∀ (f level : Nat) (s : List Nat) (res i : Nat),
      RepLevels c.B t.qvs level (f + 1) s → i < s.length →
      ∃ s' res' i', getUnchecked.go c t f level res i = .ok (res', i') ∧
        RepLevels c.B t.qvs (level + f) 1 s' ∧ i' < s'.length ∧
        getWM c.W (f + 1) s res i = getWM c.W 1 s' res' i' := by
  intro f
  induction f with
  | zero => intro level s res i h hi; exact ⟨s, res, i, rfl, h, hi, rfl⟩
  | succ f ih =>
    intro level s res i h hi
    obtain ⟨⟨r, hr, hR⟩, hrest⟩ := h
    have hlen : (s.map (dig (2 * (f + 1)))).length = s.length := List.length_map _
    have hd := getD_map_dig_lt (2 * (f + 1)) s i
    rw [getUnchecked.go]
    simp only [idx_ok hr, hR.getU _ _ (show i < _ by omega),
      hR.occsSmallerU _ _ (Nat.le_of_lt_succ hd),
      hR.rankU _ _ _ (Nat.le_of_lt_succ hd) (show i ≤ _ by omega), ok_bind]
    obtain ⟨s', res', i', h1, h2, h3, h5⟩ := ih (level + 1)
      (stablePart (dig (2 * (f + 1))) 4 s)
      (((res <<< 2) % 2 ^ c.W) ||| (s.map (dig (2 * (f + 1)))).getD i 0)
      (Spec.rank ((s.map (dig (2 * (f + 1)))).getD i 0) i (s.map (dig (2 * (f + 1)))) +
        Spec.occsSmaller id ((s.map (dig (2 * (f + 1)))).getD i 0) (s.map (dig (2 * (f + 1)))))
      hrest
      (by rw [length_part]; exact next_index_lt _ s i hi)
    refine ⟨s', res', i', h1, ?_, h3, ?_⟩
    · rwa [show level + (f + 1) = level + 1 + f by omega]
    · rw [← h5]; rfl

theorem getUnchecked_sim (c : Cfg) (t : QWT) (i : Nat) (s : List Nat)
    (hL : t.nLevels ≠ 0) (hrep : RepLevels c.B t.qvs 0 t.nLevels s) (hi : i < s.length) :
    getUnchecked c t i = .ok (getWM c.W t.nLevels s 0 i) := by
  obtain ⟨f, hf⟩ : ∃ f, t.nLevels = f + 1 := ⟨t.nLevels - 1, by omega⟩
  rw [hf] at hrep ⊢
  obtain ⟨s', res', i', h1, h2, h3, h5⟩ := get_go_out c t f 0 s 0 i hrep hi
  obtain ⟨⟨r, hr, hR⟩, _⟩ := h2
  simp only [Nat.zero_add, Nat.mul_zero] at hr hR
  have hlen : (s'.map (dig 0)).length = s'.length := List.length_map _
  simp only [getUnchecked, hf, sub_ok (Nat.le_add_left 1 f), Nat.add_sub_cancel, ok_bind, h1,
    idx_ok hr, hR.getU _ _ (show i' < _ by omega)]
  rw [h5]
  simp only [getWM, Nat.mul_zero]
  rfl

/-! ### select -/

/-- the `(b, rank_b)` pairs recorded by the downward pass, deepest level first -/
def pathWM (sym : Nat) : Nat → List Nat → Nat → List (Nat × Nat)
  | 0, _, _ => []
  | f + 1, s, b =>
    pathWM sym f (stablePart (dig (2 * f)) 4 s)
      (Spec.rank (dig (2 * f) sym) b (s.map (dig (2 * f))) +
        Spec.occsSmaller id (dig (2 * f) sym) (s.map (dig (2 * f)))) ++
      [(b, Spec.rank (dig (2 * f) sym) b (s.map (dig (2 * f))))]

theorem selectDown_sim (c : Cfg) (t : QWT) (sym : Nat) :
    ∀ (f level : Nat) (s : List Nat) (b : Nat) (shift : Int) (acc : List (Nat × Nat)),
      RepLevels c.B t.qvs level f s → b ≤ s.length → 2 * f < c.W + 2 → shift = 2 * (f : Int) - 2 →
      selectDown c t sym f level b shift acc = .ok (some (pathWM sym f s b ++ acc)) := by
  intro f
  induction f with
  | zero => intro level s b shift acc _ _ _ _; rfl
  | succ f ih =>
    intro level s b shift acc h hb hW hsh
    obtain ⟨⟨r, hr, hR⟩, hrest⟩ := h
    have hd := dig_lt (2 * f) sym
    have hlen : (s.map (dig (2 * f))).length = s.length := List.length_map _
    have hs0 : ¬ shift < 0 := by omega
    have hsn : shift.toNat = 2 * f := by omega
    rw [selectDown]
    simp only [hs0, if_false, hsn, twoBits_ok c sym (2 * f) (by omega), idx_ok hr, hR.rank,
      if_pos (show dig (2 * f) sym ≤ 3 ∧ b ≤ (s.map (dig (2 * f))).length from ⟨by omega, by omega⟩),
      hR.occsSmallerU _ _ (Nat.le_of_lt_succ hd), ok_bind, pure_eq_ok]
    rw [ih (level + 1) _ _ _ _ hrest
      (by rw [length_part]; exact off_add_rank_le _ _ _ _) (by omega) (by omega)]
    simp [pathWM]

theorem selectUp_sim (c : Cfg) (t : QWT) (sym : Nat) :
    ∀ (f level : Nat) (s : List Nat) (b : Nat) (rest : List (Nat × Nat)) (k : Nat),
      RepLevels c.B t.qvs level f s → b ≤ s.length → 2 * f < c.W + 2 →
      selectUp c t sym (pathWM sym f s b ++ rest) (level + f - 1) 0 k =
        match selWM sym f s b k with
        | none => .ok none
        | some o => selectUp c t sym rest (level - 1) (2 * f) o := by
  intro f
  induction f with
  | zero => intro level s b rest k _ _ _; simp [pathWM, selWM]
  | succ f ih =>
    intro level s b rest k h hb hW
    obtain ⟨⟨r, hr, hR⟩, hrest⟩ := h
    have hd := dig_lt (2 * f) sym
    have hlen : (s.map (dig (2 * f))).length = s.length := List.length_map _
    have IH := ih (level + 1) (stablePart (dig (2 * f)) 4 s)
      (Spec.rank (dig (2 * f) sym) b (s.map (dig (2 * f))) +
        Spec.occsSmaller id (dig (2 * f) sym) (s.map (dig (2 * f))))
      ((b, Spec.rank (dig (2 * f) sym) b (s.map (dig (2 * f)))) :: rest) k hrest
      (by rw [length_part]; exact off_add_rank_le _ _ _ _) (by omega)
    rw [show level + (f + 1) - 1 = level + 1 + f - 1 by omega]
    simp only [pathWM, List.append_assoc, List.singleton_append]
    rw [IH]
    simp only [selWM]
    cases selWM sym f (stablePart (dig (2 * f)) 4 s)
      (Spec.rank (dig (2 * f) sym) b (s.map (dig (2 * f))) +
        Spec.occsSmaller id (dig (2 * f) sym) (s.map (dig (2 * f)))) k with
    | none => rfl
    | some o' =>
      simp only [Nat.add_sub_cancel]
      rw [selectUp]
      simp only [twoBits_ok c sym (2 * f) (by omega), idx_ok hr, ok_bind, hR.select,
        if_pos (Nat.le_of_lt_succ hd), pure_eq_ok]
      have e64 : two64 = 2 ^ 64 := by decide
      rw [e64]
      by_cases hov : Spec.rank (dig (2 * f) sym) b (s.map (dig (2 * f))) + o' ≥ 2 ^ 64
      · simp only [hov, if_true]
      · simp only [hov, if_false]
        cases hsel : Spec.select (dig (2 * f) sym)
            (Spec.rank (dig (2 * f) sym) b (s.map (dig (2 * f))) + o') (s.map (dig (2 * f))) with
        | none => simp only [ok_bind]
        | some p =>
          have hbp := select_rank_add_ge (dig (2 * f)) s _ b o' p hsel
          simp only [ok_bind, sub_ok hbp]
          rw [show 2 * f + 2 = 2 * (f + 1) by omega]

theorem select_sim (c : Cfg) (t : QWT) (sym k : Nat) (s : List Nat)
    (hn : t.n ≠ 0) (hsym : sym ≤ t.sigma)
    (hL : t.nLevels ≠ 0) (hrep : RepLevels c.B t.qvs 0 t.nLevels s)
    (hW : 2 * (t.nLevels - 1) < c.W) :
    select c t sym k = .ok (selWM sym t.nLevels s 0 k) := by
  have h1 : (t.n == 0 || decide (sym > t.sigma)) = false := by
    simp [hn, Nat.not_lt.mpr hsym]
  have hdown := selectDown_sim c t sym t.nLevels 0 s 0 (Int.ofNat (2 * (t.nLevels - 1))) []
    hrep (Nat.zero_le _) (by omega)
    (by show ((2 * (t.nLevels - 1) : Nat) : Int) = _; omega)
  have hup := selectUp_sim c t sym t.nLevels 0 s 0 [] k hrep (Nat.zero_le _) (by omega)
  simp only [List.append_nil, Nat.zero_add] at hdown hup
  simp only [select, h1, sub_ok (show 1 ≤ t.nLevels by omega), ok_bind, hdown, hup]
  cases selWM sym t.nLevels s 0 k <;> simp [selectUp, pure_eq_ok]

/-! ### construction -/

theorem levelLaw_B {dbg : Bool} {B : Nat} (h : LevelLaw dbg B) : B = 256 ∨ B = 512 := by
  obtain ⟨r, hr, _⟩ := h [] (by simp) (by simp [Extracted.rsqLenLimitLog])
  by_cases h1 : B = 256
  · exact Or.inl h1
  · by_cases h2 : B = 512
    · exact Or.inr h2
    · exfalso
      simp [mkLevel, RSQ.fromQV, RSQ.rsNew, QV.build, QV.len, guardM, Extracted.rsqLenLimitLog, h1, h2,
        bind, Except.bind, pure, Except.pure] at hr

/-- the value of `RSQVector::default()` -/
def dfltRSQ : RSQVector :=
  ⟨⟨#[], 0⟩, ⟨#[0, 0, 0, 0], #[#[0, 0], #[0, 0], #[0, 0], #[0, 0]]⟩, #[0, 0, 0, 0, 0]⟩

theorem default_ok {B : Nat} (h : B = 256 ∨ B = 512) : RSQ.default B = .ok dfltRSQ := by
  rcases h with rfl | rfl
  · simp [RSQ.default, RSQ.fromQV, RSQ.rsNew, QV.len, guardM, Extracted.rsqLenLimitLog,
      List.range_succ, RSQ.buildStep, Extracted.rsqBlocksInSuperblock, RSQ.setBlockCounters, bind,
      Except.bind, pure, Except.pure, sub, dfltRSQ]
  · simp [RSQ.default, RSQ.fromQV, RSQ.rsNew, QV.len, guardM, Extracted.rsqLenLimitLog,
      List.range_succ, RSQ.buildStep, Extracted.rsqBlocksInSuperblock, RSQ.setBlockCounters, bind,
      Except.bind, pure, Except.pure, sub, dfltRSQ]

/-- `stable_partition_of_4` is the list-level stable partition by the digit at `sh` -/
theorem buckets_fold (sh : Nat) (l : List Nat) (b : Utils.Buckets4) :
    l.foldl (fun (b : Utils.Buckets4) a => b.push (Utils.asUsize (a >>> sh) &&& 3) a) b =
      { v0 := b.v0 ++ (l.filter (fun x => dig sh x == 0)).toArray,
        v1 := b.v1 ++ (l.filter (fun x => dig sh x == 1)).toArray,
        v2 := b.v2 ++ (l.filter (fun x => dig sh x == 2)).toArray,
        v3 := b.v3 ++ (l.filter (fun x => dig sh x == 3)).toArray } := by
  induction l generalizing b with
  | nil => simp
  | cons a l ih =>
    rw [List.foldl_cons, ih, and3_eq_mod]
    have hd : (a >>> sh) % 4 = dig sh a := rfl
    have hlt := dig_lt sh a
    rw [hd]
    have h4 : dig sh a = 0 ∨ dig sh a = 1 ∨ dig sh a = 2 ∨ dig sh a = 3 := by omega
    rcases h4 with h | h | h | h <;> simp [Utils.Buckets4.push, List.filter_cons, h]

theorem stablePart4 (key : Nat → Nat) (s : List Nat) :
    stablePart key 4 s = s.filter (fun x => key x == 0) ++ s.filter (fun x => key x == 1) ++
      s.filter (fun x => key x == 2) ++ s.filter (fun x => key x == 3) := by
  simp [stablePart, List.range_succ, List.flatMap_append]

theorem stablePartitionOf4_ok (W sh : Nat) (l : List Nat) (h : sh < W) :
    Utils.stablePartitionOf4 W l.toArray sh = .ok (stablePart (dig sh) 4 l).toArray := by
  have hn : ¬ (sh ≥ W ∧ l.toArray.size > 0) := by omega
  simp only [Utils.stablePartitionOf4, if_neg hn, List.foldl_toArray, buckets_fold, stablePart4,
    Utils.Buckets4.concat]
  simp

theorem withCapacity_ok (n : Nat) (h : n < 2 ^ 43) : QV.withCapacity n = .ok {} := by
  have h1 : 2 * n < two64 := by simp only [two64]; omega
  have h2 : 2 * n + (Extracted.qvNBitsWord - 1) < two64 := by
    simp only [two64, Extracted.qvNBitsWord]; omega
  simp [QV.withCapacity, mul64, add64, h1, h2, bind, Except.bind, pure, Except.pure]

theorem mkLevel_inv {dbg : Bool} {B : Nat} {digits : List Nat} {r : RSQVector}
    (h : RSQ.mkLevel dbg B digits = .ok r) :
    ∃ qvb, digits.foldlM (fun (b : QV.QVectorBuilder) d => QV.push b d) {} = .ok qvb ∧
      RSQ.fromQV dbg B (QV.build qvb) = .ok r := by
  unfold RSQ.mkLevel at h
  cases hq : digits.foldlM (fun (b : QV.QVectorBuilder) d => QV.push b d) {} with
  | error e => rw [hq] at h; cases h
  | ok qvb => rw [hq] at h; exact ⟨qvb, rfl, h⟩

/-- what the construction needs from the sampling structure when `pfs = true` -/
def PfsTotal (c : Cfg) : Prop :=
  c.pfs = true → ∀ qv, ∃ p, PFS.new qv Extracted.pfsSampleShift = .ok p

theorem levelStep_ok (c : Cfg) (hLaw : LevelLaw c.dbg c.B) (hP : PfsTotal c) (st : LevelSt)
    (hsh : st.shift < c.W) (hlen : st.seq.size < 2 ^ 43) :
    ∃ r pf, levelStep c st = .ok
        { seq := (stablePart (dig st.shift) 4 st.seq.toList).toArray,
          shift := if st.shift ≥ 2 then st.shift - 2 else st.shift,
          qvs := st.qvs.push r, pfs := pf } ∧
      Represents c.B r (st.seq.toList.map (dig st.shift)) ∧ (c.pfs = false → pf = st.pfs) := by
  obtain ⟨r, hr, hR⟩ := hLaw (st.seq.toList.map (dig st.shift))
    (by intro d hd; obtain ⟨x, _, rfl⟩ := List.mem_map.mp hd; exact dig_lt _ _)
    (by simpa [Extracted.rsqLenLimitLog] using hlen)
  obtain ⟨qvb, hq, hfrom⟩ := mkLevel_inv hr
  have hfold : st.seq.foldlM (fun (b : QV.QVectorBuilder) symbol => do
      let tb ← twoBits c symbol st.shift
      QV.push b tb) {} = .ok qvb := by
    rw [← Array.foldlM_toList, ← hq, List.foldlM_map]
    congr 1
    funext b symbol
    rw [twoBits_ok c symbol _ hsh, ok_bind]
  have hpart := stablePartitionOf4_ok c.W st.shift st.seq.toList hsh
  rw [Array.toArray_toList] at hpart
  by_cases hp : c.pfs = true
  · obtain ⟨pp, hpp⟩ := hP hp (QV.build qvb)
    refine ⟨r, st.pfs.push pp, ?_, hR, fun h => by rw [h] at hp; cases hp⟩
    simp only [levelStep, withCapacity_ok _ hlen, hfold, hp, hpp, hfrom, hpart, ok_bind, if_true,
      pure_eq_ok]
  · refine ⟨r, st.pfs, ?_, hR, fun _ => rfl⟩
    simp only [levelStep, withCapacity_ok _ hlen, hfold, hp, hfrom, hpart, ok_bind, if_false,
      pure_eq_ok]
    rfl

theorem levels_fold (c : Cfg) (hLaw : LevelLaw c.dbg c.B) (hP : PfsTotal c) :
    ∀ (l : List Nat) (f : Nat) (st : LevelSt) (s : List Nat),
      l.length = f → st.seq = s.toArray → (f = 0 ∨ st.shift = 2 * (f - 1)) → 2 * f < c.W + 2 →
      s.length < 2 ^ 43 →
      ∃ st', l.foldlM (fun st _ => levelStep c st) st = .ok st' ∧
        st'.qvs.size = st.qvs.size + f ∧ (∀ j, j < st.qvs.size → st'.qvs[j]? = st.qvs[j]?) ∧
        RepLevels c.B st'.qvs st.qvs.size f s := by
  intro l
  induction l with
  | nil =>
    intro f st s hf _ _ _ _
    subst hf
    exact ⟨st, rfl, rfl, fun _ _ => rfl, trivial⟩
  | cons a l ih =>
    intro f st s hf hseq hsh hW hlen
    obtain ⟨f', rfl⟩ : ∃ f', f = f' + 1 := ⟨l.length, by simp at hf; omega⟩
    have hsh' : st.shift = 2 * f' := by omega
    have hsz : st.seq.size = s.length := by rw [hseq]; simp
    obtain ⟨r, pf, hstep, hR, _⟩ := levelStep_ok c hLaw hP st (by omega) (by omega)
    rw [hseq, List.toList_toArray, hsh'] at hstep hR
    obtain ⟨st', h1, h2, h3, h4⟩ := ih f'
      { seq := (stablePart (dig (2 * f')) 4 s).toArray,
        shift := if 2 * f' ≥ 2 then 2 * f' - 2 else 2 * f',
        qvs := st.qvs.push r, pfs := pf }
      (stablePart (dig (2 * f')) 4 s)
      (by simp at hf; omega) rfl
      (by
        by_cases h0 : f' = 0
        · exact Or.inl h0
        · right; show (if 2 * f' ≥ 2 then 2 * f' - 2 else 2 * f') = 2 * (f' - 1)
          rw [if_pos (by omega)]; omega)
      (by omega) (by rw [length_part]; exact hlen)
    simp only [Array.size_push] at h2 h3 h4
    refine ⟨st', ?_, by omega, ?_, ⟨r, ?_, hR⟩, h4⟩
    · rw [List.foldlM_cons, hstep, ok_bind]; exact h1
    · intro j hj
      rw [h3 j (by omega), Array.getElem?_push, if_neg (by omega)]
    · rw [h3 _ (by omega), Array.getElem?_push_size]

/-! ### `max` and the number of levels -/

theorem le_foldl_max (s : List Nat) (a : Nat) :
    a ≤ s.foldl max a ∧ ∀ x ∈ s, x ≤ s.foldl max a := by
  induction s generalizing a with
  | nil => simp
  | cons y ys ih =>
    simp only [List.foldl_cons, List.mem_cons]
    have h := ih (max a y)
    refine ⟨by omega, ?_⟩
    rintro x (rfl | hx)
    · omega
    · exact h.2 x hx

theorem le_maxNat {s : List Nat} {x : Nat} (h : x ∈ s) : x ≤ maxNat s := (le_foldl_max s 0).2 x h

theorem foldl_max_lt (s : List Nat) (a n : Nat) (ha : a < n) (hs : ∀ x ∈ s, x < n) :
    s.foldl max a < n := by
  induction s generalizing a with
  | nil => simpa
  | cons y ys ih =>
    simp only [List.foldl_cons]
    apply ih
    · have := hs y (by simp); omega
    · intro x hx; exact hs x (by simp [hx])

theorem maxNat_lt {s : List Nat} {W : Nat} (hs : ∀ x ∈ s, x < 2 ^ W) : maxNat s < 2 ^ W :=
  foldl_max_lt s 0 _ (Nat.two_pow_pos W) hs

theorem msb_ok (W v : Nat) (h : v < 2 ^ W) : Utils.msb W v = .ok (Nat.log2 v) := by
  by_cases h0 : v = 0
  · subst h0; simp [Utils.msb, pure_eq_ok]
  · have hl : Nat.log2 v < W := (Nat.log2_lt h0).mpr h
    have hb : (v == 0) = false := by simpa using h0
    simp only [Utils.msb, hb, clz, if_neg h0]
    rw [sub_ok (by omega), if_neg (by decide)]
    congr 1; omega

/-- number of levels for maximum `v` -/
def nLevelsOf (v : Nat) : Nat := (bitlen v + 1) / 2

theorem nLevelsOf_pos (v : Nat) : nLevelsOf v ≠ 0 := by
  simp only [nLevelsOf, bitlen]; omega

theorem nLevelsOf_shift (v W : Nat) (h : v < 2 ^ W) (hW : 0 < W) : 2 * (nLevelsOf v - 1) < W := by
  have hl : Nat.log2 v < W := by
    by_cases h0 : v = 0
    · subst h0; simpa using hW
    · exact (Nat.log2_lt h0).mpr h
  simp only [nLevelsOf, bitlen, msb]; omega

theorem lt_pow_nLevelsOf (v : Nat) : v < 4 ^ nLevelsOf v := by
  have h1 : v < 2 ^ (Nat.log2 v + 1) := Nat.lt_log2_self
  have h2 : 2 ^ (Nat.log2 v + 1) ≤ 2 ^ (2 * nLevelsOf v) :=
    Nat.pow_le_pow_right (by decide) (by simp only [nLevelsOf, bitlen, msb]; omega)
  have h3 : (4 : Nat) ^ nLevelsOf v = 2 ^ (2 * nLevelsOf v) := by
    rw [Nat.pow_mul]
  omega

/-! ### the invariant established by `new` -/

/-- `t` is the quad wavelet matrix of `S`: sizes, alphabet bound, number of levels, and level
    `k` represents the digit list of the `k`-th partition of `S` -/
structure WM (c : Cfg) (S : List Nat) (t : QWT) : Prop where
  n_eq : t.n = S.length
  sigma_eq : t.sigma = maxNat S
  nLevels_eq : S ≠ [] → t.nLevels = nLevelsOf (maxNat S)
  levels : S ≠ [] → RepLevels c.B t.qvs 0 t.nLevels S
  pfs_none : c.pfs = false → t.pfs = none

theorem new_wm (c : Cfg) (hW : 0 < c.W) (S : List Nat) (hS : ∀ x ∈ S, x < 2 ^ c.W)
    (hlen : S.length < 2 ^ 43) (hLaw : LevelLaw c.dbg c.B) (hP : PfsTotal c) :
    ∃ t, new c S.toArray = .ok t ∧ WM c S t := by
  by_cases hemp : S = []
  · subst hemp
    refine ⟨{ n := 0, nLevels := 0, sigma := 0, qvs := (#[dfltRSQ]), pfs := none }, ?_,
      ⟨rfl, rfl, fun h => absurd rfl h, fun h => absurd rfl h, fun _ => rfl⟩⟩
    simp [new, default_ok (levelLaw_B hLaw), bind, Except.bind, pure, Except.pure]
  · have hne : S.toArray.isEmpty = false := by
      cases S with
      | nil => exact absurd rfl hemp
      | cons a l => rfl
    have hsig : S.toArray.foldl max 0 = maxNat S := by rw [List.foldl_toArray]; rfl
    have hsl := maxNat_lt hS
    have hL := nLevelsOf_shift _ _ hsl hW
    have hL0 := nLevelsOf_pos (maxNat S)
    obtain ⟨st', h1, h2, _, h4⟩ := levels_fold c hLaw hP (List.range (nLevelsOf (maxNat S)))
      (nLevelsOf (maxNat S)) { seq := S.toArray, shift := 2 * (nLevelsOf (maxNat S) - 1) } S
      List.length_range rfl (Or.inr rfl) (by omega) hlen
    refine ⟨
      { n := S.length, nLevels := nLevelsOf (maxNat S), sigma := maxNat S, qvs := st'.qvs,
        pfs := if c.pfs then some st'.pfs else none }, ?_,
      ⟨rfl, rfl, fun _ => rfl, fun _ => h4, fun h => by simp [h]⟩⟩
    have e : (Nat.log2 (maxNat S) + 1 + 1) / 2 = nLevelsOf (maxNat S) := rfl
    simp only [new, hne, Bool.false_eq_true, if_false, hsig, msb_ok _ _ hsl, ok_bind, e, h1,
      pure_eq_ok]
    rfl

/-! ### the prefetch estimate (phase 2) never faults -/

theorem phase2_go_ok (c : Cfg) (t : QWT) (sym : Nat) :
    ∀ (f level : Nat) (S' : List Nat) (s e : Nat),
      RepLevels c.B t.qvs level (f + 1) S' → 2 * f < c.W → s ≤ S'.length → e ≤ S'.length →
      pfsPhase2.go c t sym f level (2 * f) s e = .ok () := by
  intro f
  induction f with
  | zero => intro level S' s e _ _ _ _; rfl
  | succ f ih =>
    intro level S' s e h hW hs he
    obtain ⟨⟨r, hr, hR⟩, hrest⟩ := h
    have hrest' := hrest
    obtain ⟨⟨r', hr', _⟩, _⟩ := hrest'
    have hd := dig_lt (2 * (f + 1)) sym
    have hlen : (S'.map (dig (2 * (f + 1)))).length = S'.length := List.length_map _
    obtain ⟨vs, hvs, hles⟩ := hR.rankBlock c.dbg _ s (Nat.le_of_lt_succ hd) (show s ≤ _ by omega)
    obtain ⟨ve, hve, hlee⟩ := hR.rankBlock c.dbg _ e (Nat.le_of_lt_succ hd) (show e ≤ _ by omega)
    rw [pfsPhase2.go]
    simp only [twoBits_ok c sym _ hW, idx_ok hr, hR.occsSmallerU _ _ (Nat.le_of_lt_succ hd),
      hvs, hve, idx_ok hr', ok_bind]
    rw [show 2 * (f + 1) - 2 = 2 * f by omega]
    have b1 := off_add_rank_le (dig (2 * (f + 1))) (dig (2 * (f + 1)) sym) s S'
    have b2 := off_add_rank_le (dig (2 * (f + 1))) (dig (2 * (f + 1)) sym) e S'
    exact ih (level + 1) _ _ _ hrest (by omega) (by rw [length_part]; omega)
      (by rw [length_part]; omega)

theorem pfsPhase2_ok (c : Cfg) (t : QWT) (sym i : Nat) (s : List Nat)
    (hL : t.nLevels ≠ 0) (hrep : RepLevels c.B t.qvs 0 t.nLevels s)
    (hW : 2 * (t.nLevels - 1) < c.W) (hi : i ≤ s.length) :
    pfsPhase2 c t sym i = .ok () := by
  obtain ⟨f, hf⟩ : ∃ f, t.nLevels = f + 1 := ⟨t.nLevels - 1, by omega⟩
  rw [hf] at hrep hW
  simp only [Nat.add_sub_cancel] at hW
  have hrep' := hrep
  obtain ⟨⟨r, hr, _⟩, _⟩ := hrep'
  simp only [pfsPhase2, hf, sub_ok (Nat.le_add_left 1 f), Nat.add_sub_cancel, ok_bind, idx_ok hr]
  exact phase2_go_ok c t sym f 0 s 0 i hrep hW (Nat.zero_le _) hi

namespace WM

variable {c : Cfg} {S : List Nat} {t : QWT}

theorem nLevels_ne (h : WM c S t) (hne : S ≠ []) : t.nLevels ≠ 0 := by
  rw [h.nLevels_eq hne]; exact nLevelsOf_pos _

theorem shift_lt (h : WM c S t) (hW : 0 < c.W) (hS : ∀ x ∈ S, x < 2 ^ c.W) (hne : S ≠ []) :
    2 * (t.nLevels - 1) < c.W := by
  rw [h.nLevels_eq hne]; exact nLevelsOf_shift _ _ (maxNat_lt hS) hW

theorem elem_lt (h : WM c S t) (hne : S ≠ []) {x : Nat} (hx : x ≤ maxNat S) : x < 4 ^ t.nLevels := by
  rw [h.nLevels_eq hne]
  exact Nat.lt_of_le_of_lt hx (lt_pow_nLevelsOf _)

theorem n_ne (h : WM c S t) (hne : S ≠ []) : t.n ≠ 0 := by
  rw [h.n_eq]; cases S with
  | nil => exact absurd rfl hne
  | cons a l => simp

theorem getUnchecked_eq (h : WM c S t) (hS : ∀ x ∈ S, x < 2 ^ c.W) (i : Nat) (hi : i < S.length) :
    getUnchecked c t i = .ok S[i] := by
  have hne : S ≠ [] := by intro e; subst e; simp at hi
  rw [getUnchecked_sim c t i S (h.nLevels_ne hne) (h.levels hne) hi]
  congr 1
  have hmem : S[i] ∈ S := List.getElem_mem hi
  exact getWM_eq_get _ _ S i S[i] (List.getElem?_eq_getElem hi) (hS _ hmem)
    (h.elem_lt hne (le_maxNat hmem))

theorem get_eq (h : WM c S t) (hS : ∀ x ∈ S, x < 2 ^ c.W) (i : Nat) :
    get c t i = .ok S[i]? := by
  by_cases hi : i < S.length
  · have h1 : ¬ i ≥ t.n := by rw [h.n_eq]; omega
    simp only [get, if_neg h1, h.getUnchecked_eq hS i hi, ok_bind, pure_eq_ok,
      List.getElem?_eq_getElem hi]
  · have h1 : i ≥ t.n := by rw [h.n_eq]; omega
    simp only [get, if_pos h1, pure_eq_ok]
    rw [List.getElem?_eq_none (by omega)]

theorem rankUnchecked_eq (h : WM c S t) (hW : 0 < c.W) (hS : ∀ x ∈ S, x < 2 ^ c.W) (sym i : Nat)
    (hne : S ≠ []) (hsym : sym ≤ maxNat S) (hi : i ≤ S.length) :
    rankUnchecked c t sym i = .ok (Spec.rank sym i S) := by
  rw [rankUnchecked_sim c t sym i S (h.nLevels_ne hne) (h.levels hne) (h.shift_lt hW hS hne) hi]
  congr 1
  exact rankWM_eq_rank sym _ S i hi (fun x hx => h.elem_lt hne (le_maxNat hx)) (h.elem_lt hne hsym)

theorem rank_eq (h : WM c S t) (hW : 0 < c.W) (hS : ∀ x ∈ S, x < 2 ^ c.W) (sym i : Nat) :
    rank c t sym i =
      .ok (if S ≠ [] ∧ sym ≤ maxNat S ∧ i ≤ S.length then some (Spec.rank sym i S) else none) := by
  by_cases hc : S ≠ [] ∧ sym ≤ maxNat S ∧ i ≤ S.length
  · obtain ⟨hne, hsym, hi⟩ := hc
    have h1 : (t.n == 0 || decide (i > t.n) || decide (sym > t.sigma)) = false := by
      have := h.n_ne hne
      simp [hne, h.n_eq, h.sigma_eq, Nat.not_lt.mpr hsym, Nat.not_lt.mpr hi]
    simp only [rank, h1, h.rankUnchecked_eq hW hS sym i hne hsym hi, ok_bind, pure_eq_ok,
      if_pos (And.intro hne (And.intro hsym hi))]
    rfl
  · have h1 : (t.n == 0 || decide (i > t.n) || decide (sym > t.sigma)) = true := by
      simp only [h.n_eq, h.sigma_eq, Bool.or_eq_true, beq_iff_eq, decide_eq_true_eq]
      by_cases hne : S = []
      · left; left; simp [hne]
      · by_cases hi : i ≤ S.length
        · right; apply Nat.lt_of_not_le; intro hs; exact hc ⟨hne, hs, hi⟩
        · left; right; omega
    simp only [rank, h1, if_true, if_neg hc, pure_eq_ok]

theorem select_eq (h : WM c S t) (hW : 0 < c.W) (hS : ∀ x ∈ S, x < 2 ^ c.W)
    (hlen : S.length < 2 ^ 43) (sym k : Nat) :
    select c t sym k =
      .ok (if S ≠ [] ∧ sym ≤ maxNat S then Spec.select sym k S else none) := by
  by_cases hc : S ≠ [] ∧ sym ≤ maxNat S
  · obtain ⟨hne, hsym⟩ := hc
    rw [select_sim c t sym k S (h.n_ne hne) (by rw [h.sigma_eq]; exact hsym) (h.nLevels_ne hne)
      (h.levels hne) (h.shift_lt hW hS hne), if_pos ⟨hne, hsym⟩]
    congr 1
    exact selWM_eq_select sym _ S k (h.nLevels_ne hne)
      (Nat.lt_trans hlen (Nat.pow_lt_pow_right (by decide) (by decide)))
      (fun x hx => h.elem_lt hne (le_maxNat hx)) (h.elem_lt hne hsym)
  · have h1 : (t.n == 0 || decide (sym > t.sigma)) = true := by
      simp only [h.n_eq, h.sigma_eq, Bool.or_eq_true, beq_iff_eq, decide_eq_true_eq]
      by_cases hne : S = []
      · left; simp [hne]
      · right; apply Nat.lt_of_not_le; intro hs; exact hc ⟨hne, hs⟩
    simp only [select, h1, if_true, if_neg hc, pure_eq_ok]

/-- `rank_prefetch` answers like `rank` as soon as estimation phase 1 (the sampled counters of
    `PrefetchSupport`, only run when `pfs = true`) does not fault; phase 2 never faults -/
theorem rankPrefetch_eq_partial (h : WM c S t) (hW : 0 < c.W) (hS : ∀ x ∈ S, x < 2 ^ c.W)
    (sym i : Nat)
    (hph1 : c.pfs = true → S ≠ [] → sym ≤ maxNat S → i ≤ S.length →
      pfsPhase1 c t sym i = .ok ()) :
    rankPrefetch c t sym i = rank c t sym i := by
  by_cases hc : S ≠ [] ∧ sym ≤ maxNat S ∧ i ≤ S.length
  · obtain ⟨hne, hsym, hi⟩ := hc
    have h1 : (t.n == 0 || decide (i > t.n) || decide (sym > t.sigma)) = false := by
      simp [hne, h.n_eq, h.sigma_eq, Nat.not_lt.mpr hsym, Nat.not_lt.mpr hi]
    have h2 := pfsPhase2_ok c t sym i S (h.nLevels_ne hne) (h.levels hne) (h.shift_lt hW hS hne) hi
    simp only [rankPrefetch, rank, h1, rankPrefetchUnchecked, h2, ok_bind]
    by_cases hp : c.pfs = true
    · simp only [hp, if_true, hph1 hp hne hsym hi, ok_bind]
    · simp only [hp, Bool.false_eq_true, if_false, pure_eq_ok, ok_bind]
  · have h1 : (t.n == 0 || decide (i > t.n) || decide (sym > t.sigma)) = true := by
      simp only [h.n_eq, h.sigma_eq, Bool.or_eq_true, beq_iff_eq, decide_eq_true_eq]
      by_cases hne : S = []
      · left; left; simp [hne]
      · by_cases hi : i ≤ S.length
        · right; apply Nat.lt_of_not_le; intro hs; exact hc ⟨hne, hs, hi⟩
        · left; right; omega
    simp only [rankPrefetch, rank, h1, if_true]

end WM

end Qwt.QWTree
