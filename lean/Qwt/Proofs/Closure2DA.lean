import Qwt.Proofs.DArrayBridge
import Qwt.Props.C19

/-!
The `DArray` built by `DA.new` is well-formed for the codec (`Codec.daWF`).

`InvSpec` (C07) pins the entries that `select` reads but not the size or the entries of
`overflowPositions`, so the bounds are proved here by a *syntactic* invariant `Bnd N M` of the
`flushBlock` fold: after flushing groups with `M` positions in total, all of them `< N`,

* the three arrays have at most `M` entries,
* every block entry `x` satisfies `-(M) - 1 ≤ x < N` (a first position, or `-(off) - 1` with
  `off` a former size of `overflowPositions`),
* every sub-block entry is `< 65536` (an offset `% 65536`, or the filler `65535`),
* every overflow position is `< N`.

With `N = nBits` and `M = |ps| ≤ nBits` this gives `invWF` whenever `nBits < 2 ^ 63`.
-/
namespace Qwt.Closure2
open Qwt Qwt.DA Qwt.BV Qwt.DAProofs

/-- the syntactic bound invariant of the `flushBlock` fold -/
structure Bnd (N M : Nat) (inv : Inventories) : Prop where
  bsize : inv.blockInventory.size ≤ M
  ssize : inv.subblockInventory.size ≤ M
  osize : inv.overflowPositions.size ≤ M
  blk : ∀ x ∈ inv.blockInventory.toList, -(Int.ofNat M) - 1 ≤ x ∧ x < Int.ofNat N
  sub : ∀ x ∈ inv.subblockInventory.toList, x < 65536
  ovf : ∀ x ∈ inv.overflowPositions.toList, x < N

theorem bnd_nil (N : Nat) : Bnd N 0 {} where
  bsize := Nat.le_refl _
  ssize := Nat.le_refl _
  osize := Nat.le_refl _
  blk := by intro x hx; simp at hx
  sub := by intro x hx; simp at hx
  ovf := by intro x hx; simp at hx

theorem slots_le (len : Nat) (h : 0 < len) : (len + 31) / 32 ≤ len := by omega

theorem bnd_flush {N M : Nat} {inv : Inventories} (h : Bnd N M inv) (c : List Nat)
    (hc : ∀ x ∈ c, x < N) : Bnd N (M + c.length) (flushBlock inv c) := by
  cases c with
  | nil =>
    simp only [flushBlock, List.length_nil, Nat.add_zero]
    exact h
  | cons first rest =>
    have hfirst : first < N := hc first (List.mem_cons_self ..)
    have hlen : (first :: rest).length = rest.length + 1 := rfl
    have hsl : (rest.length + 1 + 31) / 32 ≤ rest.length + 1 := slots_le _ (by omega)
    have hM : -(Int.ofNat (M + (rest.length + 1))) - 1 ≤ -(Int.ofNat M) - 1 := by
      simp only [Int.ofNat_eq_natCast]; omega
    rw [flushBlock_cons]
    split
    · -- dense
      refine ⟨?_, ?_, ?_, ?_, ?_, ?_⟩
      · simp only [Array.size_push, hlen]; have := h.bsize; omega
      · simp only [Array.size_append, List.size_toArray, List.length_map, everyNth_length, hlen]
        have := h.ssize; omega
      · simp only [hlen]; have := h.osize; omega
      · intro x hx
        simp only [Array.toList_push, List.mem_append, List.mem_singleton] at hx
        rcases hx with hx | hx
        · have := h.blk x hx
          rw [hlen]
          exact ⟨Int.le_trans hM this.1, this.2⟩
        · subst hx
          simp only [Int.ofNat_eq_natCast]
          omega
      · intro x hx
        simp only [Array.toList_append, List.mem_append, List.mem_map] at hx
        rcases hx with hx | ⟨p, _, rfl⟩
        · exact h.sub x hx
        · exact Nat.mod_lt _ (by omega)
      · exact h.ovf
    · -- sparse
      refine ⟨?_, ?_, ?_, ?_, ?_, ?_⟩
      · simp only [Array.size_push, hlen]; have := h.bsize; omega
      · simp only [Array.size_append, Array.size_replicate, slots, hlen]
        have := h.ssize; omega
      · simp only [Array.size_append, List.size_toArray, hlen]; have := h.osize; omega
      · intro x hx
        simp only [Array.toList_push, List.mem_append, List.mem_singleton] at hx
        rcases hx with hx | hx
        · have := h.blk x hx
          rw [hlen]
          exact ⟨Int.le_trans hM this.1, this.2⟩
        · subst hx
          have := h.osize
          simp only [Int.ofNat_eq_natCast, hlen]
          omega
      · intro x hx
        simp only [Array.toList_append, List.mem_append, Array.toList_replicate,
          List.mem_replicate] at hx
        rcases hx with hx | ⟨_, rfl⟩
        · exact h.sub x hx
        · omega
      · intro x hx
        simp only [Array.toList_append, List.mem_append] at hx
        rcases hx with hx | hx
        · exact h.ovf x hx
        · exact hc x hx

theorem bnd_foldl {N : Nat} (cs : List (List Nat)) (hcs : ∀ c ∈ cs, ∀ x ∈ c, x < N) :
    ∀ {M : Nat} {inv : Inventories}, Bnd N M inv →
      Bnd N (M + (cs.map List.length).sum) (cs.foldl flushBlock inv) := by
  induction cs with
  | nil => intro M inv h; simpa using h
  | cons c cs ih =>
    intro M inv h
    have h1 := bnd_flush h c (hcs c (List.mem_cons_self ..))
    have h2 := ih (fun c' hc' => hcs c' (List.mem_cons_of_mem _ hc')) h1
    simp only [List.map_cons, List.sum_cons, List.foldl_cons]
    rw [← Nat.add_assoc]
    exact h2

/-- every element of a chunk is an element of the list -/
theorem mem_of_mem_chunks {n : Nat} (hn : 0 < n) {l c : List Nat} (hc : c ∈ chunks n l)
    {x : Nat} (hx : x ∈ c) : x ∈ l := by
  obtain ⟨g, hg⟩ := List.getElem?_of_mem hc
  rw [chunks_getElem? n hn] at hg
  split at hg
  · cases hg
    exact List.mem_of_mem_drop (List.mem_of_mem_take hx)
  · cases hg

/-- the chunks partition the list: their lengths add up -/
theorem chunks_length_sum (n : Nat) (hn : 0 < n) (l : List Nat) :
    ((chunks n l).map List.length).sum = l.length := by
  induction hk : l.length using Nat.strongRecOn generalizing l with
  | _ k ih =>
    rw [chunks]
    by_cases hl : l = []
    · subst hl; simp at hk; simp [hk]
    · have hpos : 0 < l.length := List.length_pos_iff.mpr hl
      simp only [Nat.ne_of_gt hn, hl, or_self, dite_false, List.map_cons, List.sum_cons]
      rw [ih (l.drop n).length (by rw [List.length_drop]; omega) (l.drop n) rfl]
      simp only [List.length_take, List.length_drop]
      omega

/-- the bounds of the fold over the chunks of a list of positions `< N` -/
theorem bnd_chunks {N : Nat} (ps : List Nat) (hps : ∀ x ∈ ps, x < N) :
    Bnd N ps.length ((chunks 1024 ps).foldl flushBlock {}) := by
  have h := bnd_foldl (N := N) (chunks 1024 ps)
    (fun c hc x hx => hps x (mem_of_mem_chunks (by omega) hc hx)) (bnd_nil N)
  rwa [chunks_length_sum 1024 (by omega), Nat.zero_add] at h

/-- `invWF` from the bound invariant -/
theorem invWF_of_bnd {N M : Nat} {inv : Inventories} (h : Bnd N M inv)
    (hs : inv.nSets < 2 ^ 64) (hM : M < 2 ^ 63) (hN : N ≤ 2 ^ 63) : Codec.invWF inv := by
  have e63 : (2 : Nat) ^ 63 = 9223372036854775808 := by decide
  have e64 : (2 : Nat) ^ 64 = 18446744073709551616 := by decide
  have i63 : (2 : Int) ^ 63 = 9223372036854775808 := by decide
  rw [e63] at hM hN
  refine ⟨hs, ⟨?_, ?_⟩, ⟨?_, ?_⟩, ⟨?_, ?_⟩⟩
  · rw [e64]; have := h.bsize; omega
  · intro x hx
    have := h.blk x hx
    simp only [Int.ofNat_eq_natCast] at this
    rw [i63]
    omega
  · rw [e64]; have := h.ssize; omega
  · intro x hx
    have := h.sub x hx
    show x < 2 ^ 16
    have e16 : (2 : Nat) ^ 16 = 65536 := by decide
    rw [e16]; exact this
  · rw [e64]; have := h.osize; omega
  · intro x hx
    have := h.ovf x hx
    show x < 2 ^ 64
    rw [e64]; omega

/-- the positions collected by the iterator are `< nBits`, and there are at most `nBits` -/
theorem collect_bounds (bit : Bool) {b : BitVector} (hb : Inv b) :
    (∀ x ∈ PosIter.collect bit b (b.nBits + 1) PosIter.new, x < b.nBits) ∧
    (PosIter.collect bit b (b.nBits + 1) PosIter.new).length ≤ b.nBits := by
  rw [posIter_new_ok bit b hb]
  refine ⟨?_, ?_⟩
  · intro x hx
    have := (List.mem_filter.mp hx).1
    simpa using this
  · have := List.length_filter_le (fun i => decide ((abs b)[i]! = bit)) (List.range b.nBits)
    simpa using this

/-- **the inventories built for ones / zeros are well-formed** (`Inventories::<BIT>::new`) -/
theorem invWF_of_build (bit : Bool) {b : BitVector} (hb : Inv b) (hn : b.nBits < 2 ^ 63) :
    Codec.invWF (invNew bit b) := by
  obtain ⟨hlt, hlen⟩ := collect_bounds bit hb
  have hB := bnd_chunks (N := b.nBits) _ hlt
  have e63 : (2 : Nat) ^ 63 = 9223372036854775808 := by decide
  have e64 : (2 : Nat) ^ 64 = 18446744073709551616 := by decide
  rw [Qwt.Props.C07.invNew_eq]
  refine invWF_of_bnd (N := b.nBits)
    (M := (PosIter.collect bit b (b.nBits + 1) PosIter.new).length)
    ⟨hB.bsize, hB.ssize, hB.osize, hB.blk, hB.sub, hB.ovf⟩ ?_ ?_ ?_
  · show (PosIter.collect bit b (b.nBits + 1) PosIter.new).length < 2 ^ 64
    rw [e64]; rw [e63] at hn; omega
  · rw [e63]; rw [e63] at hn; omega
  · rw [e63]; rw [e63] at hn; omega

/-- `DA.new` stores the bit vector unchanged -/
theorem new_bv (s0 : Bool) (b : BitVector) : (DA.new s0 b).bv = b := rfl

/-- **the constructed `DArray` is serialisation-well-formed** -/
theorem daWF_of_new (s0 : Bool) {b : BV.BitVector} (hb : BV.Inv b) (hn : b.nBits < 2 ^ 63) :
    Codec.daWF (DA.new s0 b) := by
  have hn64 : b.nBits < 2 ^ 64 := by
    have e63 : (2 : Nat) ^ 63 = 9223372036854775808 := by decide
    have e64 : (2 : Nat) ^ 64 = 18446744073709551616 := by decide
    rw [e64]; rw [e63] at hn; omega
  refine ⟨Qwt.Props.C19.bvWF_of_inv hb hn64, invWF_of_build true hb hn, ?_⟩
  show Codec.optAll Codec.invWF (if s0 then some (invNew false b) else none)
  cases s0
  · exact True.intro
  · exact invWF_of_build false hb hn

end Qwt.Closure2

