import Qwt.Model.BitVector

/-! Models of `src/bitvector/rs_narrow.rs`, `src/bitvector/rs_wide.rs` and the per-line
rank/select of `bitvector::DataLine`. -/
namespace Qwt.BV
open Qwt Qwt.Extracted

/-- `DataLine::n_ones` of line `l` -/
def lineOnes (data : Array Nat) (l : Nat) : Nat :=
  (List.range 8).foldl (fun a w => a + popc (data.getD (8 * l + w) 0)) 0

/-- `DataLine::rank1_unchecked(i)` of line `l` (the `i32` countdown loop) -/
def lineRank1 (data : Array Nat) (l i : Nat) : M Nat :=
  let rec go : Nat → Nat → Int → Nat → M Nat
    | 0, _, _, rank => pure rank
    | f + 1, w, left, rank =>
      if left < 0 then pure rank else do
        let cur ← uidx data (8 * l + w)
        let mask := if left > 63 then mask64 else (1 <<< left.toNat) - 1
        go f (w + 1) (left - 64) (rank + popc (cur &&& mask))
  go 8 0 (Int.ofNat i) 0

/-- `DataLine::rank1(i)` -/
def lineRank1Checked (data : Array Nat) (l i : Nat) : M (Option Nat) :=
  if i > 512 then pure none else do let v ← lineRank1 data l i; pure (some v)

/-- `DataLine::select1_unchecked(i)` / `select0_unchecked(i)` of line `l` -/
def lineSelect (bit : Bool) (data : Array Nat) (l i : Nat) : M Nat :=
  let rec go : Nat → Nat → Nat → Nat → M Nat
    | 0, _, off, _ => pure off
    | f + 1, w, off, rank => do
      let raw ← uidx data (8 * l + w)
      let word := if bit then raw else not64 raw
      let kp := popc word
      let t ← sub i rank
      if kp > t then do
        let p ← Utils.selectInWord word t
        pure (off + p)
      else go f (w + 1) (off + 64) (rank + kp)
  go 8 0 0 0

end Qwt.BV

/- ===================================================================================== -/
namespace Qwt.RSN
open Qwt Qwt.BV Qwt.Extracted

structure RSNarrow where
  bv : BitVector := {}
  blockRankPairs : Array Nat := #[]
  selectSamples : Array (Array Nat) := #[#[], #[]]
  deriving Repr, DecidableEq, Inhabited

structure BuildSt where
  brp : Array Nat := #[0]
  nextRank : Nat := 0
  curSubrank : Nat := 0
  subranks : Nat := 0
  s0 : Array Nat := #[0]
  s1 : Array Nat := #[0]
  hint0 : Nat := 0
  hint1 : Nat := 0
  zeros : Nat := 0

/-- body of the double loop over lines `b` and words `b1` -/
def buildWord (st : BuildSt) (b b1 word : Nat) : BuildSt :=
  let wordPop := popc word
  let shift := (b * 8 + b1) % narrowBlockSize
  let subranks := if shift ≥ 1 then ((st.subranks <<< 9) % two64) ||| st.curSubrank else st.subranks
  let nextRank := st.nextRank + wordPop
  let curSubrank := st.curSubrank + wordPop
  let (s1, hint1) := if nextRank / narrowOnesPerHint > st.hint1 then (st.s1.push b, st.hint1 + 1)
                     else (st.s1, st.hint1)
  let zeros := st.zeros + (64 - wordPop)
  let (s0, hint0) := if zeros / narrowZerosPerHint > st.hint0 then (st.s0.push b, st.hint0 + 1)
                     else (st.s0, st.hint0)
  if shift == narrowBlockSize - 1 then
    { brp := (st.brp.push subranks).push nextRank, nextRank, curSubrank := 0, subranks := 0,
      s0, s1, hint0, hint1, zeros }
  else
    { brp := st.brp, nextRank, curSubrank, subranks, s0, s1, hint0, hint1, zeros }

/-- `RSNarrow::new(bv)` -/
def new (bv : BitVector) : M RSNarrow := do
  let nl := nLines bv
  let st := (List.range (8 * nl)).foldl (fun st k => buildWord st (k / 8) (k % 8) (bv.data.getD k 0)) {}
  let left := narrowBlockSize - (nl % narrowBlockSize)
  let subranks := (List.range left).foldl (fun s _ => ((s <<< 9) % two64) ||| st.curSubrank) st.subranks
  let brp := st.brp.push subranks
  let brp := if nl % narrowBlockSize > 0 then (brp.push st.nextRank).push 0 else brp
  let sent ← sub (brp.size / 2) 1
  return { bv, blockRankPairs := brp, selectSamples := #[st.s0.push sent, st.s1.push sent] }

def blockRank (r : RSNarrow) (block : Nat) : M Nat := idx r.blockRankPairs (block * 2)
def subBlockRanks (r : RSNarrow) (block : Nat) : M Nat := idx r.blockRankPairs (block * 2 + 1)

def subBlockRank (r : RSNarrow) (subBlock : Nat) : M Nat := do
  let block := subBlock / narrowBlockSize
  let a ← blockRank r block
  let left := subBlock % narrowBlockSize
  let s ← subBlockRanks r block
  return a + ((s >>> ((7 - left) * 9)) &&& 0x1FF)

def rank1Unchecked (r : RSNarrow) (i : Nat) : M Nat := do
  if i == 0 then return 0
  let i := i - 1
  let subBlock := i >>> 6
  let result ← subBlockRank r subBlock
  let subLeft := (i &&& 63) + 1
  if (subBlock >>> 3) ≥ nLines r.bv then throw Fault.oob
  let w ← uidx r.bv.data subBlock
  return result + popc ((w <<< ((64 - subLeft) % 64)) % two64)

def rank1 (r : RSNarrow) (i : Nat) : M (Option Nat) :=
  if isEmpty r.bv || i > r.bv.nBits then pure none
  else do let v ← rank1Unchecked r i; pure (some v)

/-- `RankBin::rank0` (default method) -/
def rank0 (r : RSNarrow) (i : Nat) : M (Option Nat) := do
  match ← rank1 r i with
  | some k => let v ← sub i k; pure (some v)
  | none => pure none

/-- `n_ones()` (repaired: 0 on the empty vector) -/
def nOnes (r : RSNarrow) : M Nat := do
  if isEmpty r.bv then return 0
  let l1 ← sub r.bv.nBits 1
  let a ← rank1 r l1
  let a ← unwrap a
  let g ← BV.get r.bv l1
  let g ← unwrap g
  return a + (if g then 1 else 0)

def nZeros (r : RSNarrow) : M Nat := do
  let o ← nOnes r
  sub r.bv.nBits o

/-- hint loop shared by `select1_subblock` / `select0_subblock` -/
def hintLoop (r : RSNarrow) (bit : Bool) (i hintEnd : Nat) : Nat → Nat → M Nat
  | 0, hs => pure hs
  | f + 1, hs =>
    if hs < hintEnd then do
      let br ← blockRank r hs
      let v ← if bit then pure br else sub (narrowBlockSize * 64 * hs) br
      if v > i then pure hs else hintLoop r bit i hintEnd f (hs + 1)
    else pure hs

/-- the `for j in 0..BLOCK_SIZE` loop -/
def subLoop (r : RSNarrow) (bit : Bool) (i position : Nat) : Nat → Nat → M Nat
  | 0, _ => pure position
  | f + 1, j => do
    let sr ← subBlockRank r (position + j)
    let v ← if bit then pure sr else sub (64 * (position + j)) sr
    if v > i then do
      let j1 ← sub j 1
      pure (position + j1)
    else if j == 7 then pure (position + j)
    else subLoop r bit i position f (j + 1)

def selectSubblock (r : RSNarrow) (bit : Bool) (i : Nat) : M (Nat × Nat) := do
  let per := if bit then narrowOnesPerHint else narrowZerosPerHint
  let hint := i / per
  let samples ← idx r.selectSamples (if bit then 1 else 0)
  let hs ← idx samples hint
  let he ← idx samples (hint + 1)
  let hintEnd := 1 + he
  let hs ← hintLoop r bit i hintEnd (hintEnd + 1 - hs) hs
  let position ← sub hs 1
  let position := position * narrowBlockSize
  let position ← subLoop r bit i position narrowBlockSize 0
  let sr ← subBlockRank r position
  let rank ← if bit then pure sr else sub (64 * position) sr
  return (position, rank)

def selectUnchecked (r : RSNarrow) (bit : Bool) (i : Nat) : M Nat := do
  let (block, rank) ← selectSubblock r bit i
  if (block >>> 3) ≥ nLines r.bv then throw Fault.indexPanic
  let raw ← idx r.bv.data block
  let w := if bit then raw else not64 raw
  let t ← sub i rank
  let p ← Utils.selectInWord w t
  return block * 64 + p

def select1 (r : RSNarrow) (i : Nat) : M (Option Nat) := do
  let o ← nOnes r
  if i ≥ o then return none
  let v ← selectUnchecked r true i
  return some v

def select0 (r : RSNarrow) (i : Nat) : M (Option Nat) := do
  let z ← nZeros r
  if i ≥ z then return none
  let v ← selectUnchecked r false i
  return some v

def get (r : RSNarrow) (i : Nat) : M (Option Bool) := BV.get r.bv i

end Qwt.RSN

/- ===================================================================================== -/
namespace Qwt.RSW
open Qwt Qwt.BV Qwt.Extracted

structure RSWide where
  bv : BitVector := {}
  superblockMetadata : Array Nat := #[]
  selectSamples : Array (Array Nat) := #[#[], #[]]
  nZeros : Nat := 0
  deriving Repr, DecidableEq, Inhabited

structure BuildSt where
  sm : Array Nat := #[]
  totalRank : Nat := 0
  curMd : Nat := 0
  wordPop : Nat := 0
  zeros : Nat := 0
  s0 : Array Nat := #[0]
  s1 : Array Nat := #[0]
  hint0 : Nat := 0
  hint1 : Nat := 0

def linesPerSuper : Nat := wideSuperblockSize / wideBlockSize

/-- body of the loop over lines `b` -/
def buildLine (data : Array Nat) (st : BuildSt) (b : Nat) : BuildSt :=
  let (totalRank, wordPop, curMd) :=
    if b % 8 == 0 then (st.totalRank + st.wordPop, 0, st.totalRank + st.wordPop)
    else (st.totalRank, st.wordPop, ((st.curMd <<< 12) % two128) ||| st.wordPop)
  let ones := lineOnes data b
  let wordPop := wordPop + ones
  let (s1, hint1) := if (totalRank + wordPop) / wideOnesPerHint > st.hint1 then (st.s1.push (b / 8), st.hint1 + 1)
                     else (st.s1, st.hint1)
  let zeros := st.zeros + (512 - ones)
  let (s0, hint0) := if zeros / wideZerosPerHint > st.hint0 then (st.s0.push (b / 8), st.hint0 + 1)
                     else (st.s0, st.hint0)
  let sm := if (b + 1) % 8 == 0 then st.sm.push curMd else st.sm
  { sm, totalRank, curMd, wordPop, zeros, s0, s1, hint0, hint1 }

/-- `RSWide::new(bv)` -/
def new (bv : BitVector) : M RSWide := do
  let nl := nLines bv
  let st := (List.range nl).foldl (buildLine bv.data) {}
  let totalRank := st.totalRank + st.wordPop
  let left := nl % 8
  let sm := if left != 0 then
      st.sm.push ((List.range (8 - left)).foldl (fun md _ => ((md <<< 12) % two128) ||| st.wordPop) st.curMd)
    else st.sm
  let sm := sm.push ((totalRank <<< (128 - 44)) % two128)
  let sent ← sub sm.size 1
  let nZeros ← sub bv.nBits (totalRank % two64)
  return { bv, superblockMetadata := sm, selectSamples := #[st.s0.push sent, st.s1.push sent], nZeros }

def nOnes (r : RSWide) : M Nat := sub r.bv.nBits r.nZeros

def superblockRank (r : RSWide) (block : Nat) : M Nat := do
  let m ← idx r.superblockMetadata block
  return (m >>> (128 - 44)) % two64

def subBlockRank (r : RSWide) (subBlock : Nat) : M Nat := do
  let superblock := subBlock / linesPerSuper
  let a ← superblockRank r superblock
  let left := subBlock % linesPerSuper
  if left != 0 then
    let m ← idx r.superblockMetadata superblock
    return a + (((m >>> ((7 - left) * 12)) &&& 0xFFF) % two64)
  else return a

def rank1Unchecked (r : RSWide) (i : Nat) : M Nat := do
  if i == 0 then return 0
  let i := i - 1
  let subBlock := i >>> 9
  let result ← subBlockRank r subBlock
  let subLeft := (i &&& 511) + 1
  if subBlock ≥ nLines r.bv then throw Fault.indexPanic
  let lr ← lineRank1Checked r.bv.data subBlock subLeft
  let lr ← unwrap lr
  return result + lr

def rank1 (r : RSWide) (i : Nat) : M (Option Nat) :=
  if isEmpty r.bv || i > r.bv.nBits then pure none
  else do let v ← rank1Unchecked r i; pure (some v)

def rank0 (r : RSWide) (i : Nat) : M (Option Nat) := do
  match ← rank1 r i with
  | some k => let v ← sub i k; pure (some v)
  | none => pure none

def rank0Unchecked (r : RSWide) (i : Nat) : M Nat := do
  let k ← rank1Unchecked r i
  sub i k

def hintLoop (r : RSWide) (bit : Bool) (i hintEnd : Nat) : Nat → Nat → M Nat
  | 0, hs => pure hs
  | f + 1, hs =>
    if hs < hintEnd then do
      let br ← superblockRank r hs
      let v ← if bit then pure br else sub (wideSuperblockSize * 64 * hs) br
      if v > i then pure hs else hintLoop r bit i hintEnd f (hs + 1)
    else pure hs

def subLoop (r : RSWide) (bit : Bool) (i position : Nat) : Nat → Nat → M Nat
  | 0, _ => pure position
  | f + 1, j => do
    let sr ← subBlockRank r (position + j)
    let v ← if bit then pure sr else sub (wideBlockSize * 64 * (position + j)) sr
    if v > i then do
      let j1 ← sub j 1
      pure (position + j1)
    else if j == 7 then pure (position + j)
    else subLoop r bit i position f (j + 1)

def selectSubblock (r : RSWide) (bit : Bool) (i : Nat) : M (Nat × Nat) := do
  let per := if bit then wideOnesPerHint else wideZerosPerHint
  let hint := i / per
  let samples ← idx r.selectSamples (if bit then 1 else 0)
  let hs ← idx samples hint
  let he ← idx samples (hint + 1)
  let hintEnd := 1 + he
  let hs ← hintLoop r bit i hintEnd (hintEnd + 1 - hs) hs
  let position ← sub hs 1
  let position := position * linesPerSuper
  let position ← subLoop r bit i position linesPerSuper 0
  let sr ← subBlockRank r position
  let rank ← if bit then pure sr else sub (wideBlockSize * 64 * position) sr
  return (position, rank)

def selectUnchecked (r : RSWide) (bit : Bool) (i : Nat) : M Nat := do
  let (block, rank) ← selectSubblock r bit i
  if block ≥ nLines r.bv then throw Fault.indexPanic
  let t ← sub i rank
  let off ← lineSelect bit r.bv.data block t
  return block * 512 + off

def select1 (r : RSWide) (i : Nat) : M (Option Nat) := do
  let o ← nOnes r
  if i ≥ o then return none
  let v ← selectUnchecked r true i
  return some v

def select0 (r : RSWide) (i : Nat) : M (Option Nat) := do
  if i ≥ r.nZeros then return none
  let v ← selectUnchecked r false i
  return some v

def get (r : RSWide) (i : Nat) : M (Option Bool) := BV.get r.bv i
def getUnchecked (r : RSWide) (i : Nat) : M Bool := BV.getUnchecked r.bv i

end Qwt.RSW
