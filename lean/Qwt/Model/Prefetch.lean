import Qwt.Model.RSQVector
import Qwt.Model.RSBin

/-! Model of `src/quadwt/prefetch_support.rs`. -/
namespace Qwt.PFS
open Qwt Qwt.QV Qwt.BV

structure PrefetchSupport where
  samples : Array RSN.RSNarrow := #[]
  sampleRateShift : Nat := 0
  deriving Repr, DecidableEq, Inhabited

structure BuildSt where
  bvs : Array BitVectorMut := #[{}, {}, {}, {}]
  counters : Array Nat := #[0, 0, 0, 0]
  bits : Array Bool := #[false, false, false, false]

def buildStep (qv : QVector) (rate : Nat) (st : BuildSt) (i : Nat) : M BuildSt := do
  let symbol ← QV.getUnchecked false qv i
  let counters := st.counters.modify symbol (· + 1)
  let bits := if counters[symbol]! % rate == 0 then st.bits.set! symbol true else st.bits
  if i % rate == 0 || i + 1 == QV.len qv then
    let bvs ← (List.range 4).foldlM (fun (bvs : Array BitVectorMut) k => do
        let b ← BV.push bvs[k]! bits[k]!
        pure (bvs.set! k b)) st.bvs
    return { bvs, counters, bits := #[false, false, false, false] }
  else
    return { bvs := st.bvs, counters, bits }

/-- `PrefetchSupport::new(qv, sample_rate_shift)` -/
def new (qv : QVector) (shift : Nat) : M PrefetchSupport := do
  let rate := 1 <<< shift
  let st ← (List.range (QV.len qv)).foldlM (buildStep qv rate) {}
  let samples ← st.bvs.mapM RSN.new
  return { samples, sampleRateShift := shift }

/-- `approx_rank_unchecked(symbol, i)` -/
def approxRankUnchecked (p : PrefetchSupport) (symbol i : Nat) : M Nat := do
  let blockId := i >>> p.sampleRateShift
  let rate := 1 <<< p.sampleRateShift
  let s ← uidx p.samples symbol
  let r ← RSN.rank1 s (blockId + 1)
  let r ← unwrap r
  return r * rate

end Qwt.PFS
