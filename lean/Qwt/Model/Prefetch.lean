import Qwt.Model.RSQVector
import Qwt.Model.RSBin

/-! Model of `src/quadwt/prefetch_support.rs`. -/
namespace Qwt.PFS
open Qwt Qwt.QV Qwt.BV

structure PrefetchSupport where
  samples : Array RSN.RSNarrow := #[]
  sampleRateShift : Nat := 0
  deriving Repr, DecidableEq, Inhabited

structure BuildSt where
  bvs : Array BitVectorMut := #[{}, {}, {}, {}]
  counters : Array Nat := #[0, 0, 0, 0]
  bits : Array Bool := #[false, false, false, false]

def buildStep (qv : QVector) (rate : Nat) (st : BuildSt) (i : Nat) : M BuildSt := do
  let symbol ← QV.getUnchecked false qv i
  let counters := st.counters.modify symbol (· + 1)
  let bits := if counters[symbol]! % rate == 0 then st.bits.set! symbol true else st.bits
  if i % rate == 0 || i + 1 == QV.len qv then
    let bvs ← (List.range 4).foldlM (fun (bvs : Array BitVectorMut) k => do
        let b ← BV.push bvs[k]! bits[k]!
        pure (bvs.set! k b)) st.bvs
    return { bvs, counters, bits := #[false, false, false, false] }
  else
    return { bvs := st.bvs, counters, bits }

/-- `PrefetchSupport::new(qv, sample_rate_shift)` -/
def new (qv : QVector) (shift : Nat) : M PrefetchSupport := do
  let rate := 1 <<< shift
  let st ← (List.range (QV.len qv)).foldlM (buildStep qv rate) {}
  let samples ← st.bvs.mapM RSN.new
  return { samples, sampleRateShift := shift }

/-- `approx_rank_unchecked(symbol, i)` -/
def approxRankUnchecked (p : PrefetchSupport) (symbol i : Nat) : M Nat := do
  let blockId := i >>> p.sampleRateShift
  let rate := 1 <<< p.sampleRateShift
  let s ← uidx p.samples symbol
  let r ← RSN.rank1 s (blockId + 1)
  let r ← unwrap r
  return r * rate

/-! The *public* prefetch entry points.  `prefetch_read_NTA(data, offset)` forms
`data.as_ptr().wrapping_add(offset)` and hands it to the prefetch intrinsic only: no bound
is checked and nothing is read, for every `offset`; what can fault is only the index
arithmetic of the callers, transcribed here. -/

/-- `utils::prefetch_read_NTA(data, offset)`: total for every slice and every offset -/
def prefetchReadNTA (_len _offset : Nat) : M Unit := pure ()

/-- `RSSupportPlain::prefetch(pos)` = `WTSupport::prefetch_info` of `RSQVector` -/
def rsqPrefetchInfo (B : Nat) (r : RSQ.RSQVector) (pos : Nat) : M Unit :=
  prefetchReadNTA (RSQ.nSuperblocks r.rs) (pos / (B * Extracted.rsqBlocksInSuperblock))

/-- `WTSupport::prefetch_data` of `RSQVector`: line `pos >> 8`, and for 512-symbol blocks the
    line before it (`if line_id > 0 { line_id - 1 } else { 0 }`: the subtraction is guarded) -/
def rsqPrefetchData (B : Nat) (r : RSQ.RSQVector) (pos : Nat) : M Unit := do
  let lineId := pos >>> 8
  prefetchReadNTA r.qv.data.size lineId
  if B == 512 then
    let prev ← if lineId > 0 then sub lineId 1 else pure 0
    prefetchReadNTA r.qv.data.size prev

/-- `BitVector::prefetch_line(n)` -/
def bvPrefetchLine (b : BitVector) (n : Nat) : M Unit := prefetchReadNTA b.data.size n

/-- `RSWide::prefetch_info(pos)` / `prefetch_data(pos)` -/
def rswPrefetchInfo (r : RSW.RSWide) (pos : Nat) : M Unit := prefetchReadNTA r.superblockMetadata.size (pos / 512)
def rswPrefetchData (r : RSW.RSWide) (pos : Nat) : M Unit := bvPrefetchLine r.bv (pos / 512)

end Qwt.PFS
