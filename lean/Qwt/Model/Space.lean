import Qwt.Model.Codec

/-! Space model (C14–C16).

* `heap`  — bytes the value keeps alive on the heap: the sum, over the buffers it owns, of the
  sizes its construction path *requests* from the allocator (`Box<[T]>` / `shrink_to_fit`:
  `len·size_of::<T>()`; `Vec::with_capacity(c)`: `c·size_of::<T>()`; a vector grown by
  `push`: the amortised capacity).  Allocator rounding is outside the model.
* `self_` — `size_of_val` of the value itself.
* `usage` — transcription of the hand-written `space_usage_byte` sums. -/
namespace Qwt.Space
open Qwt

structure Sp where
  heap : Nat
  self_ : Nat
  usage : Nat
  deriving Repr, DecidableEq

def report (s : Sp) : String := s!"{s.heap} {s.self_} {s.usage}"

/-- `space_usage_byte` of `Box<[T]>` whose elements report `e` bytes each -/
def boxUsage (len e : Nat) : Nat := 16 + len * e
/-- `space_usage_byte` of `Vec<T>` -/
def vecUsage (cap e : Nat) : Nat := 24 + cap * e

/-- capacity of a `Vec` (element size 2..=1024 bytes) after `len` pushes from empty -/
def pushCap (len : Nat) : Nat :=
  if len = 0 then 0 else
    let rec go : Nat → Nat → Nat
      | 0, c => c
      | f + 1, c => if c ≥ len then c else go f (2 * c)
    go 64 4

def qv (q : QV.QVector) : Sp :=
  let lines := q.data.size / 4
  { heap := 64 * lines, self_ := 24, usage := boxUsage lines 64 + 8 }

def rsSupport (rs : RSQ.RSSupportPlain) : Sp :=
  let nsb := rs.superblocks.size / 4
  let samp := rs.selectSamples.foldl (fun a s => a + s.size) 0
  { heap := 64 * nsb + 4 * samp, self_ := 80,
    usage := boxUsage nsb 64 + rs.selectSamples.foldl (fun a s => a + boxUsage s.size 4) 0 }

def rsq (r : RSQ.RSQVector) : Sp :=
  let a := qv r.qv; let b := rsSupport r.rs
  { heap := a.heap + b.heap, self_ := 144, usage := a.usage + b.usage + 5 * 8 }

def bv (b : BV.BitVector) : Sp :=
  let lines := b.data.size / 8
  { heap := 64 * lines, self_ := 32, usage := boxUsage lines 64 + 8 + 8 }

def rsn (r : RSN.RSNarrow) : Sp :=
  let a := bv r.bv
  let samp := r.selectSamples.foldl (fun s x => s + x.size) 0
  { heap := a.heap + 8 * r.blockRankPairs.size + 8 * samp, self_ := 80,
    usage := a.usage + boxUsage r.blockRankPairs.size 8
             + r.selectSamples.foldl (fun s x => s + boxUsage x.size 8) 0 }

def rsw (r : RSW.RSWide) : Sp :=
  let a := bv r.bv
  let samp := r.selectSamples.foldl (fun s x => s + x.size) 0
  { heap := a.heap + 16 * r.superblockMetadata.size + 8 * samp, self_ := 88,
    usage := a.usage + boxUsage r.superblockMetadata.size 16
             + r.selectSamples.foldl (fun s x => s + boxUsage x.size 8) 0 }

def inv (i : DA.Inventories) : Sp :=
  { heap := 8 * i.blockInventory.size + 2 * i.subblockInventory.size + 8 * i.overflowPositions.size,
    self_ := 56,
    usage := 8 + boxUsage i.blockInventory.size 8 + boxUsage i.subblockInventory.size 2
             + boxUsage i.overflowPositions.size 8 }

def da (d : DA.DArray) : Sp :=
  let a := bv d.bv; let o := inv d.ones
  let z := match d.zeroes with | some z => inv z | none => { heap := 0, self_ := 0, usage := 0 }
  { heap := a.heap + o.heap + z.heap, self_ := 32 + 56 + 56, usage := a.usage + o.usage + z.usage }

def pfs (p : PFS.PrefetchSupport) : Sp :=
  let parts := p.samples.toList.map rsn
  { heap := 80 * p.samples.size + (parts.map (·.heap)).foldl (· + ·) 0, self_ := 32,
    usage := (parts.map (·.usage)).foldl (· + ·) 0 }

def pfsOpt (nLevels : Nat) (p : Option (Array PFS.PrefetchSupport)) : Sp :=
  match p with
  | none => { heap := 0, self_ := 0, usage := 0 }
  | some a =>
    let parts := a.toList.map pfs
    -- `Vec::with_capacity(n_levels)`, never shrunk
    { heap := 32 * nLevels + (parts.map (·.heap)).foldl (· + ·) 0, self_ := 0,
      usage := (parts.map (·.usage)).foldl (· + ·) 0 }

def qwt (t : QWTree.QWT) : Sp :=
  let parts := t.qvs.toList.map rsq
  let p := pfsOpt t.nLevels t.pfs
  -- `qvs.shrink_to_fit()`: capacity = length
  { heap := 144 * t.qvs.size + (parts.map (·.heap)).foldl (· + ·) 0 + p.heap,
    self_ := 0,   -- depends on `T`; the harness adds `size_of_val`
    usage := 8 + 8 + (parts.map (·.usage)).foldl (· + ·) 0 + p.usage }

/-- heap bytes of the Huffman tables: `codes_encode` keeps the `sigma + 1` slots it was
    created with (8 bytes each), `codes_decode` is a vector of `max_len + 1` vectors grown by
    `push` (amortised capacity), each entry a `(u32, T)` pair -/
def tablesHeap (wbytes : Nat) (enc : Array Huff.PrefixCode) (dec : Array (Array (Nat × Nat))) : Nat :=
  let entry := max 8 (2 * wbytes)
  8 * enc.size + 24 * dec.size + dec.foldl (fun a v => a + pushCap v.size * entry) 0

def hqwtW (wbytes : Nat) (t : Huff.HQWT) : Sp :=
  let parts := t.qvs.toList.map rsq
  let p := pfsOpt t.nLevels t.pfs
  { heap := 144 * t.qvs.size + (parts.map (·.heap)).foldl (· + ·) 0 + p.heap
            + tablesHeap wbytes t.codesEncode t.codesDecode + 8 * t.lens.size,
    self_ := 0,
    usage := 8 + 8 + 256 * 8 + t.codesDecode.foldl (fun a v => a + v.size * (4 + 1)) 0
             + t.lens.size * 8 + (parts.map (·.usage)).foldl (· + ·) 0 + p.usage }

def wtW (wbytes : Nat) (compressed : Bool) (t : BinWT.WT) : Sp :=
  let parts := t.bvs.toList.map rsw
  let coding := if compressed then
      256 * 8 + (match t.codesDecode with | some d => d.size * (4 + 1) | none => 0)
    else 0
  let tables := match t.codesEncode, t.codesDecode with
    | some e, some d => tablesHeap wbytes e d
    | _, _ => 0
  { heap := 88 * t.bvs.size + 8 * t.lens.size + (parts.map (·.heap)).foldl (· + ·) 0 + tables,
    self_ := 0,
    usage := 8 + 8 + coding + t.lens.size * 8 + (parts.map (·.usage)).foldl (· + ·) 0 }

def hqwt (t : Huff.HQWT) : Sp :=
  let parts := t.qvs.toList.map rsq
  let p := pfsOpt t.nLevels t.pfs
  { heap := 144 * t.qvs.size + (parts.map (·.heap)).foldl (· + ·) 0 + p.heap,   -- tables: see harness
    self_ := 0,
    usage := 8 + 8 + 256 * 8 + t.codesDecode.foldl (fun a v => a + v.size * (4 + 1)) 0
             + t.lens.size * 8 + (parts.map (·.usage)).foldl (· + ·) 0 + p.usage }

def wt (compressed : Bool) (t : BinWT.WT) : Sp :=
  let parts := t.bvs.toList.map rsw
  let coding := if compressed then
      256 * 8 + (match t.codesDecode with | some d => d.size * (4 + 1) | none => 0)
    else 0
  { heap := 88 * t.bvs.size + 8 * t.lens.size + (parts.map (·.heap)).foldl (· + ·) 0,
    self_ := 0,
    usage := 8 + 8 + coding + t.lens.size * 8 + (parts.map (·.usage)).foldl (· + ·) 0 }

end Qwt.Space
