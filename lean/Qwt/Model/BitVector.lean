import Qwt.Model.Basic
import Qwt.Model.Utils

/-! Model of `src/bitvector/mod.rs`.  `Vec<DataLine>` / `Box<[DataLine]>` is the flat array
of its `u64` words, eight per line — exactly the view `cast_to_u64_slice` produces. -/
namespace Qwt.BV
open Qwt

structure BitVector where
  data : Array Nat := #[]     -- u64 words, 8 per DataLine
  nBits : Nat := 0
  nOnes : Nat := 0
  deriving Repr, DecidableEq, Inhabited

/-- `BitVectorMut` has the same three fields (`data` is a `Vec`). -/
abbrev BitVectorMut := BitVector

def nLines (b : BitVector) : Nat := b.data.size / 8

/-- `DataLine::set_symbol(symbol, i)` on line `line` (`assert!(i < 512)`) -/
def lineSetSymbol (data : Array Nat) (line symbol i : Nat) : M (Array Nat) := do
  guardM (i < 512) .assertFail
  if 8 * line + (i >>> 6) ≥ data.size then throw Fault.indexPanic
  let mask := 1 <<< (i % 64)
  let data := data.modify (8 * line + (i >>> 6)) (fun w => w ^^^ (w &&& mask))
  return data.modify (8 * line + (i >>> 6)) (fun w => w ^^^ ((symbol &&& 1) <<< (i % 64)))

/-- `BitVectorMut::push(bit)` -/
def push (b : BitVectorMut) (bit : Bool) : M BitVectorMut := do
  let posInLine := b.nBits % 512
  let data := if posInLine == 0 then b.data ++ #[0, 0, 0, 0, 0, 0, 0, 0] else b.data
  let nBits ← add64 b.nBits 1
  if bit then
    -- `if let Some(last) = self.data.last_mut()`
    let data ← if data.size ≥ 8 then lineSetSymbol data (data.size / 8 - 1) 1 posInLine else pure data
    return { data, nBits, nOnes := b.nOnes + 1 }
  else
    return { data, nBits, nOnes := b.nOnes }

/-- `append_bits(bits, len)` -/
def appendBits (b : BitVectorMut) (bits len : Nat) : M BitVectorMut := do
  -- `assert!(len == 64 || (bits >> len) == 0)`: the shift itself overflows for len > 64
  if len != 64 then
    if len ≥ 64 then throw Fault.assertDoc   -- debug: shift overflow panic; release: assertion on the next line
    guardM (bits >>> len == 0) .assertDoc
  guardM (len ≤ 64) .assertDoc
  if len == 0 then return b
  (List.range len).foldlM (fun b i => push b ((bits >>> i) &&& 1 == 1)) b

/-- `extend_with_zeros(n)` -/
def extendWithZeros (b : BitVectorMut) (n : Nat) : M BitVectorMut := do
  let nBits ← add64 b.nBits n
  let t ← add64 nBits 511
  let newSize := t / 512
  let cur := b.data.size / 8
  let data := if newSize ≥ cur then b.data ++ Array.replicate (8 * (newSize - cur)) 0
              else b.data.extract 0 (8 * newSize)
  return { b with data, nBits }

/-- `get_bit_slice(data, index)` — checked slice indexing -/
def getBitSlice (data : Array Nat) (index : Nat) : M Bool := do
  let w ← idx data (index >>> 6)
  return (w >>> (index &&& 63)) &&& 1 == 1

def getUnchecked (b : BitVector) (index : Nat) : M Bool := getBitSlice b.data index

def get (b : BitVector) (index : Nat) : M (Option Bool) :=
  if index ≥ b.nBits then pure none else do let v ← getUnchecked b index; pure (some v)

/-- `set(index, bit)` -/
def set (b : BitVectorMut) (index : Nat) (bit : Bool) : M BitVectorMut := do
  guardM (index < b.nBits) .assertDoc
  let cur ← getUnchecked b index
  let nOnes ← if bit && !cur then pure (b.nOnes + 1)
              else if !bit && cur then sub b.nOnes 1 else pure b.nOnes
  let dl := index >>> 9
  if dl ≥ nLines b then throw Fault.indexPanic
  let data ← lineSetSymbol b.data dl (if bit then 1 else 0) (index &&& 511)
  return { b with data, nOnes }

/-- `get_bits_slice(data, index, len)` -/
def getBitsSlice (data : Array Nat) (index len : Nat) : M Nat := do
  let block := index >>> 6
  let shift := index &&& 63
  let mask ← if len == 64 then pure mask64 else do
      let s ← shl64 1 len
      sub s 1
  if shift + len ≤ 64 then
    let w ← idx data block
    return (w >>> shift) &&& mask
  let w0 ← idx data block
  let w1 ← idx data (block + 1)
  let hi ← shl64 w1 (64 - shift)
  return (w0 >>> shift) ||| (hi &&& mask)

def getBitsUnchecked (b : BitVector) (index len : Nat) : M Nat := getBitsSlice b.data index len

/-- `BitVector::get_bits` (repaired: no overflow in `index + len`) -/
def getBits (b : BitVector) (index len : Nat) : M (Option Nat) :=
  if len == 0 || len > 64 || index > b.nBits || index + len > b.nBits then pure none
  else do let v ← getBitsUnchecked b index len; pure (some v)

/-- `BitVectorMut::get_bits`: the test suite pins `index + len == n_bits` to `None` here
    (`>=` instead of `>`); recorded as a known finding of C08. -/
def getBitsMut (b : BitVectorMut) (index len : Nat) : M (Option Nat) :=
  if len == 0 || len > 64 || index > b.nBits || index + len ≥ b.nBits then pure none
  else do let v ← getBitsUnchecked b index len; pure (some v)

/-- `set_bits(index, len, bits)` (repaired `n_ones` accounting) -/
def setBits (b : BitVectorMut) (index len bits : Nat) : M BitVectorMut := do
  guardM (index + len ≤ b.nBits) .assertDoc
  if len != 64 then
    if len ≥ 64 then throw Fault.assertDoc
    guardM (bits >>> len == 0) .assertDoc
  guardM (len ≤ 64) .assertDoc
  if len == 0 then return b
  (List.range len).foldlM (fun b i => set b (index + i) ((bits >>> i) &&& 1 == 1)) b

/-- `get_word(i)`: `self.data[i >> 3].words[i % 8]` -/
def getWord (b : BitVector) (i : Nat) : M Nat :=
  if i >>> 3 < nLines b then
    match b.data[i]? with
    | some w => pure w
    | none => .error .indexPanic
  else .error .assertDoc   -- documented: out-of-range word index

def len (b : BitVector) : Nat := b.nBits
def isEmpty (b : BitVector) : Bool := b.nBits == 0
def countOnes (b : BitVector) : Nat := b.nOnes
def countZeros (b : BitVector) : M Nat := sub b.nBits b.nOnes

/-- `Extend<bool>` -/
def extendBools (b : BitVectorMut) (bits : List Bool) : M BitVectorMut := bits.foldlM push b

/-- `Extend<usize>` (positions) -/
def extendPositions (b : BitVectorMut) (ps : List Nat) : M BitVectorMut :=
  ps.foldlM (fun b pos => do
    let b ← if pos ≥ b.nBits then do
                let p1 ← add64 pos 1
                extendWithZeros b (p1 - b.nBits)
            else pure b
    set b pos true) b

def fromBools (bits : List Bool) : M BitVector := extendBools {} bits
def fromPositions (ps : List Nat) : M BitVector := extendPositions {} ps

def withCapacity (nBits : Nat) : M BitVectorMut := do
  let _ ← add64 nBits 63
  return {}

def withZeros (nBits : Nat) : M BitVectorMut := do
  let b ← withCapacity nBits
  extendWithZeros b nBits

/-! ### Iterators -/

/-- `BitVectorBitPositionsIter<BIT>` -/
structure PosIter where
  curPosition : Nat := 0
  curWordPos : Nat := 0
  curWord : Nat := 0
  deriving Repr

def PosIter.new : PosIter := {}

def PosIter.withPos (bit : Bool) (b : BitVector) (pos : Nat) : PosIter :=
  let cwp := pos >>> 6
  let w := if h : cwp < b.data.size then (if bit then b.data[cwp] else not64 b.data[cwp]) else 0
  let l := pos % 64
  { curPosition := pos, curWordPos := cwp + 1, curWord := w >>> l }

/-- the `while self.cur_word == 0` loop; the flag tells whether a non-zero word was found -/
def PosIter.skip (bit : Bool) (b : BitVector) : Nat → PosIter → PosIter × Bool
  | 0, it => (it, it.curWord != 0)
  | f + 1, it =>
    if it.curWord == 0 then
      if h : it.curWordPos < b.data.size then
        let w := if bit then b.data[it.curWordPos] else not64 b.data[it.curWordPos]
        PosIter.skip bit b f { curWord := w, curPosition := it.curWordPos <<< 6, curWordPos := it.curWordPos + 1 }
      else (it, false)
    else (it, true)

def PosIter.next (bit : Bool) (b : BitVector) (it : PosIter) : Option Nat × PosIter :=
  if it.curPosition ≥ b.nBits then (none, it)
  else
    match PosIter.skip bit b (b.data.size + 1 - it.curWordPos) it with
    | (it, false) => (none, it)
    | (it, true) =>
      let l := ctz 64 it.curWord
      let pos := it.curPosition + l
      let w := if l ≥ 63 then 0 else it.curWord >>> (l + 1)
      let it := { it with curWord := w, curPosition := pos + 1 }
      if pos ≥ b.nBits then (none, it) else (some pos, it)

/-- all positions an iterator yields until its first `None` (at most `fuel` of them) -/
def PosIter.collect (bit : Bool) (b : BitVector) : Nat → PosIter → List Nat
  | 0, _ => []
  | f + 1, it =>
    match PosIter.next bit b it with
    | (some p, it) => p :: PosIter.collect bit b f it
    | (none, _) => []

/-- `BitVectorIter` / `BitVectorIntoIter` -/
structure BitIter where
  i : Nat := 0
  deriving Repr

/-- `BitVectorIter::next` -/
def BitIter.next (b : BitVector) (it : BitIter) : M (Option Bool × BitIter) :=
  if it.i < b.nBits then do
    let v ← getBitSlice b.data it.i
    pure (some v, { i := it.i + 1 })
  else pure (none, it)

def BitIter.len (b : BitVector) (it : BitIter) : M Nat := sub b.nBits it.i

/-- `BitVectorIntoIter::next` (repaired: the counter stops at the end) -/
def BitIter.nextOwned (b : BitVector) (it : BitIter) : M (Option Bool × BitIter) := BitIter.next b it

end Qwt.BV
