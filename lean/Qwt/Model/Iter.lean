import Qwt.Model.Basic

/-! Model of `WTIterator` (`src/lib.rs`): a front index `i`, an end index `end`, and
`get_unchecked` of the underlying tree.  `IterOp` are the calls a client can make. -/
namespace Qwt.Iter

inductive IterOp where
  | next | nextBack | len
  deriving DecidableEq, Repr

structure WTIter where
  i : Nat
  e : Nat
  deriving DecidableEq, Repr

/-- one call on the iterator: new state and the outcome -/
def step (getU : Nat → M Nat) (it : WTIter) : IterOp → WTIter × Out
  | .next =>
    if it.i < it.e then ({ it with i := it.i + 1 }, Out.ofOpt ((getU it.i).map some))
    else (it, Out.none)
  | .nextBack =>
    if it.i < it.e then ({ it with e := it.e - 1 }, Out.ofOpt ((getU (it.e - 1)).map some))
    else (it, Out.none)
  | .len => (it, Out.ofVal (sub it.e it.i))

/-- outcomes of a whole history of calls -/
def run (getU : Nat → M Nat) : WTIter → List IterOp → List Out
  | _, [] => []
  | it, op :: ops => let r := step getU it op; r.2 :: run getU r.1 ops

/-- specification: the iterator is a deque over the remaining elements -/
def specStep (rem : List Nat) : IterOp → List Nat × Out
  | .next => match rem with
    | [] => ([], Out.none)
    | x :: xs => (xs, Out.some x)
  | .nextBack => match rem.getLast? with
    | none => ([], Out.none)
    | some x => (rem.dropLast, Out.some x)
  | .len => (rem, Out.val rem.length)

def specRun : List Nat → List IterOp → List Out
  | _, [] => []
  | rem, op :: ops => let r := specStep rem op; r.2 :: specRun r.1 ops

end Qwt.Iter
