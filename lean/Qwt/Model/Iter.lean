import Qwt.Model.Basic

/-! Model of `WTIterator` (`src/lib.rs`): a front index `i`, an end index `end`, and
`get_unchecked` of the underlying tree.  `IterOp` are the calls a client can make. -/
namespace Qwt.Iter

inductive IterOp where
  | next | nextBack | len
  /-- `Iterator::nth(k)` / `DoubleEndedIterator::nth_back(k)`: not overridden by the crate, hence the
      provided methods of the standard library: `k` discarded calls of `next` (`next_back`), then one more -/
  | nth (k : Nat) | nthBack (k : Nat)
  /-- `by_ref().count()` and `by_ref().last()`: provided methods that drain the iterator through `next` -/
  | count | last
  deriving DecidableEq, Repr

structure WTIter where
  i : Nat
  e : Nat
  deriving DecidableEq, Repr

/-- `WTIterator::next` -/
def stepNext (getU : Nat → M Nat) (it : WTIter) : WTIter × Out :=
  if it.i < it.e then ({ it with i := it.i + 1 }, Out.ofOpt ((getU it.i).map some))
  else (it, Out.none)

/-- `WTIterator::next_back` -/
def stepBack (getU : Nat → M Nat) (it : WTIter) : WTIter × Out :=
  if it.i < it.e then ({ it with e := it.e - 1 }, Out.ofOpt ((getU (it.e - 1)).map some))
  else (it, Out.none)

/-- the provided `nth` (`self.advance_by(k).ok()?; self.next()`): `k` calls whose results are dropped — a
    panic inside one of them propagates, and the first `None` ends the method with `None` — then the
    call whose result is returned.  (The early exit is what makes `nth(usize::MAX)` terminate.) -/
def stepNth {σ : Type} (one : σ → σ × Out) : Nat → σ → σ × Out
  | 0, it => one it
  | k + 1, it =>
    let r := one it
    match r.2 with
    | .fault f => (r.1, .fault f)
    | .none => (r.1, .none)
    | _ => stepNth one k r.1

/-- the provided `count` / `last`: call `next` until it answers `None`; `fuel` bounds the number of calls
    by the number of remaining elements plus one -/
def drain {σ : Type} (one : σ → σ × Out) : Nat → σ → Nat → Out → σ × Nat × Out
  | 0, it, c, l => (it, c, l)
  | fuel + 1, it, c, l =>
    let r := one it
    match r.2 with
    | .none => (r.1, c, l)
    | .fault f => (r.1, c, .fault f)
    | o => drain one fuel r.1 (c + 1) o

/-- one call on the iterator: new state and the outcome -/
def step (getU : Nat → M Nat) (it : WTIter) : IterOp → WTIter × Out
  | .next => stepNext getU it
  | .nextBack => stepBack getU it
  | .len => (it, Out.ofVal (sub it.e it.i))
  | .nth k => stepNth (stepNext getU) k it
  | .nthBack k => stepNth (stepBack getU) k it
  | .count =>
    let r := drain (stepNext getU) (it.e - it.i + 1) it 0 .none
    (r.1, match r.2.2 with | .fault f => .fault f | _ => .val r.2.1)
  | .last =>
    let r := drain (stepNext getU) (it.e - it.i + 1) it 0 .none
    (r.1, r.2.2)

/-- outcomes of a whole history of calls -/
def run (getU : Nat → M Nat) : WTIter → List IterOp → List Out
  | _, [] => []
  | it, op :: ops => let r := step getU it op; r.2 :: run getU r.1 ops

/-- specification: the iterator is a deque over the remaining elements -/
def specStep (rem : List Nat) : IterOp → List Nat × Out
  | .next => match rem with
    | [] => ([], Out.none)
    | x :: xs => (xs, Out.some x)
  | .nextBack => match rem.getLast? with
    | none => ([], Out.none)
    | some x => (rem.dropLast, Out.some x)
  | .len => (rem, Out.val rem.length)
  | .nth k => (rem.drop (k + 1), match rem[k]? with | some x => Out.some x | none => Out.none)
  | .nthBack k => (rem.take (rem.length - (k + 1)),
      match rem.reverse[k]? with | some x => Out.some x | none => Out.none)
  | .count => ([], Out.val rem.length)
  | .last => ([], match rem.getLast? with | some x => Out.some x | none => Out.none)

def specRun : List Nat → List IterOp → List Out
  | _, [] => []
  | rem, op :: ops => let r := specStep rem op; r.2 :: specRun r.1 ops

/-! ### One-ended iterators (`QVectorIterator`, `BitVectorIter`, `BitVectorIntoIter`, the position
iterators): a running index and an indexed read that answers `None` past the end.  The calls a
client can make are `next` and the provided methods built on it. -/

inductive FwdOp where
  | next | nth (k : Nat) | count | last
  deriving DecidableEq, Repr

def FwdOp.toIterOp : FwdOp → IterOp
  | .next => .next | .nth k => .nth k | .count => .count | .last => .last

/-- `next` of an index-driven iterator: `self.i += 1; get(self.i - 1)` -/
def fwdNext (getO : Nat → M (Option Nat)) (i : Nat) : Nat × Out := (i + 1, Out.ofOpt (getO i))

/-- one call; `n` (the number of elements) only bounds the fuel of the draining methods -/
def fwdStep (getO : Nat → M (Option Nat)) (n : Nat) (i : Nat) : FwdOp → Nat × Out
  | .next => fwdNext getO i
  | .nth k => stepNth (fwdNext getO) k i
  | .count =>
    let r := drain (fwdNext getO) (n - i + 1) i 0 .none
    (r.1, match r.2.2 with | .fault f => .fault f | _ => .val r.2.1)
  | .last =>
    let r := drain (fwdNext getO) (n - i + 1) i 0 .none
    (r.1, r.2.2)

def fwdRun (getO : Nat → M (Option Nat)) (n : Nat) : Nat → List FwdOp → List Out
  | _, [] => []
  | i, op :: ops => let r := fwdStep getO n i op; r.2 :: fwdRun getO n r.1 ops

end Qwt.Iter
