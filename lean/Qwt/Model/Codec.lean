import Qwt.Model.BinWT
import Qwt.Model.DArray

/-! Serialised view of the model state.

`Val` is the serde data model restricted to what the crate uses.  Two consumers:
* `render` — canonical text, field-order insensitive, compared with the harness' dump of the
  real value's private fields (correspondence T2);
* `encode` — bincode 1.3 default configuration (little-endian fixed-width integers, `u64`
  length prefix for sequences, no prefix for tuples/arrays, one tag byte for `Option`),
  compared byte-for-byte with `bincode::serialize` of the real value (C11). -/
namespace Qwt.Codec
open Qwt

inductive Val where
  | num (bytes : Nat) (n : Nat)            -- unsigned integer of `bytes` bytes
  | i64 (i : Int)
  | seq (vs : List Val)                    -- Vec / Box<[T]>: length-prefixed
  | tup (vs : List Val)                    -- tuple / fixed array: no prefix
  | opt (v : Option Val)
  | unit                                   -- PhantomData
  | struct (fields : List (String × Val))     -- struct, fields in declaration order
  deriving Repr, Inhabited

mutual
  /-- accumulator-passing renderer (linear time) -/
  def renderAcc : Val → String → String
    | .num _ n, acc => acc ++ toString n
    | .i64 i, acc => acc ++ toString i
    | .seq vs, acc => (renderListAcc vs (acc ++ "[")) ++ "]"
    | .tup vs, acc => (renderListAcc vs (acc ++ "[")) ++ "]"
    | .opt none, acc => acc ++ "none"
    | .opt (some v), acc => (renderAcc v (acc ++ "some(")) ++ ")"
    | .unit, acc => acc ++ "()"
    | .struct fs, acc => (renderFieldsAcc fs (acc ++ "{")) ++ "}"
  def renderListAcc : List Val → String → String
    | [], acc => acc
    | [v], acc => renderAcc v acc
    | v :: vs, acc => renderListAcc vs ((renderAcc v acc) ++ ",")
  def renderFieldsAcc : List (String × Val) → String → String
    | [], acc => acc
    | [(k, v)], acc => renderAcc v (acc ++ k ++ ":")
    | (k, v) :: fs, acc => renderFieldsAcc fs ((renderAcc v (acc ++ k ++ ":")) ++ ",")
end

def render (v : Val) : String := renderAcc v ""

/-- little-endian bytes of `n`, `k` of them -/
def leBytes : Nat → Nat → List Nat
  | 0, _ => []
  | k + 1, n => (n % 256) :: leBytes k (n / 256)

mutual
  def encode : Val → List Nat
    | .num b n => leBytes b n
    | .i64 i => leBytes 8 (i % 18446744073709551616).toNat
    | .seq vs => leBytes 8 (lengthVals vs) ++ encodeList vs
    | .tup vs => encodeList vs
    | .opt none => [0]
    | .opt (some v) => 1 :: encode v
    | .unit => []
    | .struct fs => encodeFields fs
  def encodeList : List Val → List Nat
    | [] => []
    | v :: vs => encode v ++ encodeList vs
  def encodeFields : List (String × Val) → List Nat
    | [] => []
    | (_, v) :: fs => encode v ++ encodeFields fs
  def lengthVals : List Val → Nat
    | [] => 0
    | _ :: vs => 1 + lengthVals vs
end

/-- struct with fields sorted by name (canonical for `render`; `encode` needs declaration
    order, so the `toVal` functions below list fields in declaration order and `render`
    is applied to `canon v`). -/
def insertField (f : String × Val) : List (String × Val) → List (String × Val)
  | [] => [f]
  | g :: gs => if f.1 < g.1 then f :: g :: gs else g :: insertField f gs

mutual
  def canon : Val → Val
    | .seq vs => .seq (canonList vs)
    | .tup vs => .tup (canonList vs)
    | .opt (some v) => .opt (some (canon v))
    | .struct fs => .struct ((canonFields fs).foldl (fun acc f => insertField f acc) [])
    | v => v
  def canonList : List Val → List Val
    | [] => []
    | v :: vs => canon v :: canonList vs
  def canonFields : List (String × Val) → List (String × Val)
    | [] => []
    | (k, v) :: fs => (k, canon v) :: canonFields fs
end

def u64 (n : Nat) : Val := .num 8 n
def u32 (n : Nat) : Val := .num 4 n
def u16v (n : Nat) : Val := .num 2 n
def u128v (n : Nat) : Val := .num 16 n

/-- group a flat word array into lines of `k` words: `seq [rec {words: tup [...]}]` -/
def linesVal (wbytes k : Nat) (data : Array Nat) : Val :=
  .seq ((List.range (data.size / k)).map (fun l =>
    .struct [("words", .tup ((List.range k).map (fun w => .num wbytes (data.getD (k * l + w) 0))))]))

def qvVal (q : QV.QVector) : Val :=
  .struct [("data", linesVal 16 4 q.data), ("position", u64 q.position)]

def rsSupportVal (rs : RSQ.RSSupportPlain) : Val :=
  .struct [("superblocks", .seq ((List.range (rs.superblocks.size / 4)).map (fun s =>
            .struct [("counters", .tup ((List.range 4).map (fun w => u128v (rs.superblocks.getD (4 * s + w) 0))))]))),
        ("select_samples", .tup (rs.selectSamples.toList.map (fun s => .seq (s.toList.map u32))))]

def rsqVal (r : RSQ.RSQVector) : Val :=
  .struct [("qv", qvVal r.qv), ("rs_support", rsSupportVal r.rs),
        ("n_occs_smaller", .tup (r.nOccsSmaller.toList.map u64))]

def bvVal (b : BV.BitVector) : Val :=
  .struct [("data", linesVal 8 8 b.data), ("n_bits", u64 b.nBits), ("n_ones", u64 b.nOnes)]

def rsnVal (r : RSN.RSNarrow) : Val :=
  .struct [("bv", bvVal r.bv), ("block_rank_pairs", .seq (r.blockRankPairs.toList.map u64)),
        ("select_samples", .tup (r.selectSamples.toList.map (fun s => .seq (s.toList.map u64))))]

def rswVal (r : RSW.RSWide) : Val :=
  .struct [("bv", bvVal r.bv), ("superblock_metadata", .seq (r.superblockMetadata.toList.map u128v)),
        ("select_samples", .tup (r.selectSamples.toList.map (fun s => .seq (s.toList.map u64)))),
        ("n_zeros", u64 r.nZeros)]

def invVal (i : DA.Inventories) : Val :=
  .struct [("n_sets", u64 i.nSets), ("block_inventory", .seq (i.blockInventory.toList.map .i64)),
        ("subblock_inventory", .seq (i.subblockInventory.toList.map u16v)),
        ("overflow_positions", .seq (i.overflowPositions.toList.map u64))]

def daVal (d : DA.DArray) : Val :=
  .struct [("bv", bvVal d.bv), ("ones_inventories", invVal d.ones),
        ("zeroes_inventories", .opt (d.zeroes.map invVal))]

def pfsVal (p : PFS.PrefetchSupport) : Val :=
  .struct [("samples", .seq (p.samples.toList.map rsnVal)), ("sample_rate_shift", u64 p.sampleRateShift)]

def pfsOptVal (p : Option (Array PFS.PrefetchSupport)) : Val :=
  .opt (p.map (fun a => .seq (a.toList.map pfsVal)))

def qwtVal (wbytes : Nat) (t : QWTree.QWT) : Val :=
  .struct [("n", u64 t.n), ("n_levels", u64 t.nLevels), ("sigma", .num wbytes t.sigma),
        ("qvs", .seq (t.qvs.toList.map rsqVal)), ("prefetch_support", pfsOptVal t.pfs)]

def codeVal (c : Huff.PrefixCode) : Val := .struct [("content", u32 c.content), ("len", u32 c.len)]

def decVal (wbytes : Nat) (d : Array (Array (Nat × Nat))) : Val :=
  .seq (d.toList.map (fun tb => .seq (tb.toList.map (fun x => .tup [u32 x.1, .num wbytes x.2]))))

def hqwtVal (wbytes : Nat) (t : Huff.HQWT) : Val :=
  .struct [("n", u64 t.n), ("n_levels", u64 t.nLevels),
        ("codes_encode", .seq (t.codesEncode.toList.map codeVal)),
        ("codes_decode", decVal wbytes t.codesDecode),
        ("qvs", .seq (t.qvs.toList.map rsqVal)),
        ("lens", .seq (t.lens.toList.map u64)),
        ("phantom_data", .unit),
        ("prefetch_support", pfsOptVal t.pfs)]

def wtVal (wbytes : Nat) (t : BinWT.WT) : Val :=
  .struct [("n", u64 t.n), ("n_levels", u64 t.nLevels),
        ("sigma", .opt (t.sigma.map (.num wbytes))),
        ("codes_encode", .opt (t.codesEncode.map (fun c => .seq (c.toList.map codeVal)))),
        ("codes_decode", .opt (t.codesDecode.map (decVal wbytes))),
        ("bvs", .seq (t.bvs.toList.map rswVal)),
        ("lens", .seq (t.lens.toList.map u64)),
        ("phantom_data", .unit)]

/-- FNV-1a (64 bit) of a byte list, for cheap comparison of long encodings -/
def fnv (bs : List Nat) : Nat :=
  (bs.foldl (fun (h : UInt64) b => (h ^^^ b.toUInt64) * 1099511628211) 14695981039346656037).toNat

end Qwt.Codec
