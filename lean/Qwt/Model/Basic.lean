/-
Modelling conventions shared by every model file (DESIGN.md §3.1).

* Machine integers are `Nat`s; where the Rust operation loses bits the reduction is
  explicit (`shl64`, `not64`, `wmul64`, …).
* Every Rust operation that can fault is a primitive returning `M α = Except Fault α`:
  checked slice indexing (`idx`, an index panic), `get_unchecked` (`uidx`, undefined
  behaviour), subtraction (`sub`, overflow), `unwrap`/`expect`, assertions.
* Model files import nothing outside core/Std so that the driver links as an executable.
-/
namespace Qwt

inductive Fault where
  | oob          -- `get_unchecked` / unchecked access outside the allocation: UB
  | indexPanic   -- checked indexing out of bounds
  | overflow     -- arithmetic overflow (add/sub/mul/shift amount)
  | unwrapNone   -- `unwrap()` / `expect()` on `None`
  | assertDoc    -- a *documented* assertion (permitted panic)
  | assertFail   -- an undocumented `assert!`
  | debugAssert  -- `debug_assert!` (only raised when `dbg = true`)
  deriving DecidableEq, Repr, Inhabited

def Fault.tag : Fault → String
  | .oob => "oob" | .indexPanic => "index" | .overflow => "overflow"
  | .unwrapNone => "unwrap" | .assertDoc => "assertdoc" | .assertFail => "assert"
  | .debugAssert => "debugassert"

abbrev M := Except Fault

@[inline] def idx (a : Array α) (i : Nat) : M α :=
  if h : i < a.size then .ok a[i] else .error .indexPanic

@[inline] def uidx (a : Array α) (i : Nat) : M α :=
  if h : i < a.size then .ok a[i] else .error .oob

@[inline] def sub (a b : Nat) : M Nat :=
  if b ≤ a then .ok (a - b) else .error .overflow

@[inline] def unwrap (o : Option α) : M α :=
  match o with | some v => .ok v | none => .error .unwrapNone

@[inline] def guardM (c : Bool) (f : Fault) : M Unit :=
  if c then .ok () else .error f

/-- `debug_assert!(c)`: checked only in builds with debug assertions -/
@[inline] def dbgAssert (dbg : Bool) (c : Bool) : M Unit :=
  if dbg && !c then .error .debugAssert else .ok ()

def two64 : Nat := 18446744073709551616
def two128 : Nat := 340282366920938463463374607431768211456
def mask64 : Nat := two64 - 1
def mask128 : Nat := two128 - 1

/-- usize addition: overflow is a fault (debug panic / release wrap — forbidden by C04) -/
@[inline] def add64 (a b : Nat) : M Nat :=
  if a + b < two64 then .ok (a + b) else .error .overflow

@[inline] def mul64 (a b : Nat) : M Nat :=
  if a * b < two64 then .ok (a * b) else .error .overflow

@[inline] def wmul64 (a b : Nat) : Nat := (a * b) % two64
@[inline] def not64 (a : Nat) : Nat := mask64 - a % two64
@[inline] def not128 (a : Nat) : Nat := mask128 - a % two128
/-- `a << k` on `u64` (`k < 64`, else a shift-overflow fault) -/
@[inline] def shl64 (a k : Nat) : M Nat :=
  if k < 64 then .ok ((a <<< k) % two64) else .error .overflow
@[inline] def shr64 (a k : Nat) : M Nat :=
  if k < 64 then .ok (a >>> k) else .error .overflow
@[inline] def shl128 (a k : Nat) : M Nat :=
  if k < 128 then .ok ((a <<< k) % two128) else .error .overflow
@[inline] def shr128 (a k : Nat) : M Nat :=
  if k < 128 then .ok (a >>> k) else .error .overflow

/-- population count (same recursion as `Spec.popc`; kept separate so the model does
    not depend on the specification) -/
def popc (w : Nat) : Nat :=
  if h : w = 0 then 0 else w % 2 + popc (w / 2)
decreasing_by omega

/-- number of trailing zero bits of a non-zero word; `width` for 0 -/
def ctz (width : Nat) (w : Nat) : Nat :=
  go width w 0
where
  go : Nat → Nat → Nat → Nat
    | 0, _, acc => acc
    | f + 1, w, acc => if w % 2 == 1 then acc else go f (w / 2) (acc + 1)

/-- `leading_zeros` of a `width`-bit value -/
def clz (width : Nat) (w : Nat) : Nat :=
  if w = 0 then width else width - 1 - Nat.log2 w

/-- Outcome of a safe call as the harness sees it. -/
inductive Out where
  | none
  | some (v : Nat)
  | val (v : Nat)        -- non-Option result
  | unit
  | list (vs : List Nat)
  | fault (f : Fault)
  deriving DecidableEq, Repr, Inhabited

def Out.render : Out → String
  | .none => "N"
  | .some v => s!"S:{v}"
  | .val v => s!"V:{v}"
  | .unit => "U"
  | .list vs => "L:" ++ ",".intercalate (vs.map toString)
  | .fault f => "F:" ++ f.tag

def Out.ofOpt : M (Option Nat) → Out
  | .ok (Option.some v) => .some v
  | .ok Option.none => .none
  | .error f => .fault f

def Out.ofVal : M Nat → Out
  | .ok v => .val v
  | .error f => .fault f

def Out.ofOptBool : M (Option Bool) → Out
  | .ok (Option.some v) => .some (if v then 1 else 0)
  | .ok Option.none => .none
  | .error f => .fault f

def Out.ofUnit : M Unit → Out
  | .ok _ => .unit
  | .error f => .fault f

end Qwt
