import Qwt.Model.QVector

/-! Model of `src/qvector/rs_qvector.rs` and `rs_qvector/rs_support_plain.rs`.
`Box<[SuperblockPlain]>` is the flat array of its `u128` counters, four per superblock. -/
namespace Qwt.RSQ
open Qwt Qwt.QV Qwt.Extracted

structure RSSupportPlain where
  superblocks : Array Nat := #[]                 -- 4 u128 per SuperblockPlain
  selectSamples : Array (Array Nat) := #[#[], #[], #[], #[]]   -- [Box<[u32]>; 4]
  deriving Repr, DecidableEq, Inhabited

structure RSQVector where
  qv : QVector := {}
  rs : RSSupportPlain := {}
  nOccsSmaller : Array Nat := #[0, 0, 0, 0, 0]
  deriving Repr, DecidableEq, Inhabited

def nSuperblocks (rs : RSSupportPlain) : Nat := rs.superblocks.size / 4

/-- state of the construction loop of `RSSupportPlain::new` -/
structure BuildSt where
  sbc : Array Nat := #[0, 0, 0, 0]      -- superblock_counters
  bc : Array Nat := #[0, 0, 0, 0]       -- block_counters
  occs : Array Nat := #[0, 0, 0, 0]
  samples : Array (Array Nat) := #[#[], #[], #[], #[]]
  sbs : Array Nat := #[]

/-- `SuperblockPlain::set_block_counters(block_id, counters)` on the last superblock -/
def setBlockCounters (sbs : Array Nat) (blockId : Nat) (counters : Array Nat) : M (Array Nat) := do
  if sbs.size < 4 then throw Fault.unwrapNone            -- `last_mut().unwrap()`
  guardM (blockId < 8) .assertFail
  guardM (counters.all (· < 4096)) .assertFail
  if blockId == 0 then return sbs
  let base := sbs.size - 4
  return (List.range 4).foldl (fun (s : Array Nat) sym =>
    s.modify (base + sym) (fun w => w ||| (counters[sym]! <<< ((blockId - 1) * 12)))) sbs

/-- one iteration `i` of the loop `for i in 0..qv.len() + 1` -/
def buildStep (dbg : Bool) (B : Nat) (qv : QVector) (st : BuildSt) (i : Nat) : M BuildSt := do
  let sbSize := rsqBlocksInSuperblock * B
  let mut st := st
  if i % sbSize == 0 then
    st := { st with sbs := st.sbs ++ st.sbc.map (fun c => (c <<< 84) % two128), bc := #[0, 0, 0, 0] }
  if i % B == 0 then
    let blockId := (i / B) % rsqBlocksInSuperblock
    let sbs ← setBlockCounters st.sbs blockId st.bc
    st := { st with sbs }
  if i < len qv then
    let symbol ← QV.getUnchecked dbg qv i
    let o ← idx st.occs symbol
    if o % rsqSelectNumSamples == 0 then
      let sbi := i / (B * rsqBlocksInSuperblock)
      dbgAssert dbg (sbi ≤ 4294967295)
      dbgAssert dbg (sbi < st.sbs.size / 4)
      st := { st with samples := st.samples.modify symbol (·.push (sbi % 4294967296)) }
    st := { st with sbc := st.sbc.modify symbol (· + 1), bc := st.bc.modify symbol (· + 1),
                    occs := st.occs.modify symbol (· + 1) }
  return st

/-- `RSSupportPlain::<B>::new(qv)` -/
def rsNew (dbg : Bool) (B : Nat) (qv : QVector) : M RSSupportPlain := do
  guardM (len qv < 2 ^ rsqLenLimitLog) .assertDoc
  guardM (B == 256 || B == 512) .assertFail
  let st ← (List.range (len qv + 1)).foldlM (buildStep dbg B qv) {}
  let nextBlockId := (len qv / B) % rsqBlocksInSuperblock + 1
  let sbs ← if nextBlockId < rsqBlocksInSuperblock then setBlockCounters st.sbs nextBlockId st.bc
            else pure st.sbs
  let nsb := sbs.size / 4
  let nsb1 ← sub nsb 1
  let sentinel := nsb1 % 4294967296
  let samples := st.samples.map (fun s => (if s.isEmpty then s.push 0 else s).push sentinel)
  return { superblocks := sbs, selectSamples := samples }

/-- `RSQVector::from(qv)` -/
def fromQV (dbg : Bool) (B : Nat) (qv : QVector) : M RSQVector := do
  let rs ← rsNew dbg B qv
  -- counts per symbol (`for c in qv.iter()`), then the prefix sums
  let cnt ← (List.range (len qv)).foldlM (fun (c : Array Nat) i => do
      let s ← QV.getUnchecked false qv i
      pure (c.modify s (· + 1))) #[0, 0, 0, 0, 0]
  let c0 := cnt[0]!; let c1 := cnt[1]!; let c2 := cnt[2]!; let c3 := cnt[3]!
  return { qv, rs, nOccsSmaller := #[0, c0, c0 + c1, c0 + c1 + c2, c0 + c1 + c2 + c3] }

/-- `RSQVector::new(&[T])` / `FromIterator` -/
def new (dbg : Bool) (B : Nat) (vals : List Int) : M RSQVector := do
  let qv ← QV.fromIter vals
  fromQV dbg B qv

/-- `Default` (after the repair: the value `from(QVector::default())` yields) -/
def default (B : Nat) : M RSQVector := fromQV false B {}

def len (r : RSQVector) : Nat := QV.len r.qv
def isEmpty (r : RSQVector) : Bool := QV.len r.qv == 0

/-- `SuperblockPlain::get_rank(symbol, block_id)` of superblock `sb` -/
def getRank (rs : RSSupportPlain) (sb symbol blockId : Nat) : M Nat := do
  if symbol ≥ 4 then throw Fault.oob                    -- `counters.get_unchecked(symbol)`
  let data ← uidx rs.superblocks (4 * sb + symbol)
  let sbCnt := (data >>> 84) % two64
  let notFirst := if blockId > 0 then 1 else 0
  let b := (((data >>> ((blockId - notFirst) * 12)) % two64) &&& 0xFFF) * notFirst
  return sbCnt + b

/-- `SuperblockPlain::get_superblock_counter(symbol)`; the superblock itself is reached
    through checked indexing `self.superblocks[id]` -/
def getSuperblockCounter (rs : RSSupportPlain) (sb symbol : Nat) : M Nat := do
  if sb ≥ nSuperblocks rs then throw Fault.indexPanic
  if symbol ≥ 4 then throw Fault.oob
  let data ← uidx rs.superblocks (4 * sb + symbol)
  return (data >>> 84) % two64

/-- `RSSupportPlain::rank_block(symbol, i)` -/
def rankBlock (dbg : Bool) (B : Nat) (rs : RSSupportPlain) (symbol i : Nat) : M Nat := do
  dbgAssert dbg (symbol ≤ 3)
  let sbi := i / (B * rsqBlocksInSuperblock)
  let bi := i / B
  if sbi ≥ nSuperblocks rs then throw Fault.oob          -- `superblocks.get_unchecked`
  getRank rs sbi symbol (bi &&& 7)

/-- `SuperblockPlain::block_predecessor(symbol, target)` -/
def blockPredecessor (rs : RSSupportPlain) (sb symbol target : Nat) : M (Nat × Nat) := do
  if sb ≥ nSuperblocks rs then throw Fault.indexPanic
  if symbol ≥ 4 then throw Fault.indexPanic              -- `self.counters[symbol]`
  let cnt0 ← uidx rs.superblocks (4 * sb + symbol)
  let rec go : Nat → Nat → Nat → Nat → (Nat × Nat)
    | 0, _, _, prev => (rsqBlocksInSuperblock - 1, prev)
    | f + 1, blockId, cnt, prev =>
      let curr := (cnt &&& 0xFFF) % two64
      if curr ≥ target then (blockId - 1, prev) else go f (blockId + 1) (cnt >>> 12) curr
  return go (rsqBlocksInSuperblock - 1) 1 cnt0 0

/-- first `while` loop of `select_block` (steps of `step`) -/
def searchStep (rs : RSSupportPlain) (symbol i step last : Nat) : Nat → Nat → M Nat
  | 0, first => pure first
  | fuel + 1, first =>
    if first < last then do
      let c ← getSuperblockCounter rs first symbol
      if c ≥ i then pure first else searchStep rs symbol i step last fuel (first + step)
    else pure first

/-- `RSSupportPlain::select_block(symbol, i)` (`i ≥ 1`) -/
def selectBlock (B : Nat) (rs : RSSupportPlain) (symbol i : Nat) : M (Nat × Nat) := do
  let i1 ← sub i 1
  let sampledI := i1 / rsqSelectNumSamples
  let samples ← idx rs.selectSamples symbol
  let first ← idx samples sampledI
  let nxt ← idx samples (sampledI + 1)
  let last := 1 + nxt
  let d ← sub last first
  let step := Nat.sqrt d + 1
  let first ← searchStep rs symbol i step last (d + 1) first
  let first ← sub first step
  let first ← searchStep rs symbol i 1 last (step + 1) first
  let first ← sub first 1
  let position := first * B * rsqBlocksInSuperblock
  let rank ← getSuperblockCounter rs first symbol
  let t ← sub i rank
  let (blockId, blockRank) ← blockPredecessor rs first symbol t
  return (position + blockId * B, rank + blockRank)

/-- `RSQVector::rank_intra_block(symbol, i)` -/
def rankIntraBlock (dbg : Bool) (B : Nat) (r : RSQVector) (symbol i : Nat) : M Nat := do
  dbgAssert dbg (symbol ≤ 3)
  dbgAssert dbg (B == 256 || B == 512)
  if B == 256 then
    let lineId := i >>> 8
    let offset := i &&& 255
    if lineId < nLines r.qv then lineRank dbg r.qv.data lineId symbol offset else pure 0
  else if B == 512 then
    let blockId := i >>> 9
    let off := i &&& 511
    let offFirst := if off ≤ 256 then off else 256
    let rank ← if blockId * 2 < nLines r.qv then lineRank dbg r.qv.data (blockId * 2) symbol offFirst
               else pure 0
    if off > 256 then
      let r2 ← if blockId * 2 + 1 < nLines r.qv then
                  lineRank dbg r.qv.data (blockId * 2 + 1) symbol (off - 256)
               else pure 0
      return rank + r2
    else return rank
  else return 0

/-- `RSQVector::rank_unchecked(symbol, i)` -/
def rankUnchecked (dbg : Bool) (B : Nat) (r : RSQVector) (symbol i : Nat) : M Nat := do
  dbgAssert dbg (symbol ≤ 3)
  let a ← rankBlock dbg B r.rs symbol i
  let b ← rankIntraBlock dbg B r symbol i
  return a + b

/-- `RSQVector::rank(symbol, i)` (repaired: a symbol above 3 is rejected) -/
def rank (dbg : Bool) (B : Nat) (r : RSQVector) (symbol i : Nat) : M (Option Nat) :=
  if symbol > 3 || i > len r then pure none
  else do let v ← rankUnchecked dbg B r symbol i; pure (some v)

/-- `occs_unchecked(symbol)` -/
def occsUnchecked (dbg : Bool) (r : RSQVector) (symbol : Nat) : M Nat := do
  dbgAssert dbg (symbol ≤ 3)
  if symbol + 1 ≥ 256 then throw Fault.overflow          -- `(symbol + 1)` on `u8`
  let a ← idx r.nOccsSmaller (symbol + 1)
  let b ← idx r.nOccsSmaller symbol
  sub a b

def occs (dbg : Bool) (r : RSQVector) (symbol : Nat) : M (Option Nat) :=
  if symbol > 3 then pure none else do let v ← occsUnchecked dbg r symbol; pure (some v)

def occsSmallerUnchecked (dbg : Bool) (r : RSQVector) (symbol : Nat) : M Nat := do
  dbgAssert dbg (symbol ≤ 3)
  idx r.nOccsSmaller symbol

def occsSmaller (dbg : Bool) (r : RSQVector) (symbol : Nat) : M (Option Nat) :=
  if symbol > 3 then pure none else do let v ← occsSmallerUnchecked dbg r symbol; pure (some v)

/-- one half-line of `select_intra_block` -/
def selectIntraHalf (w i result : Nat) : M (Sum Nat (Nat × Nat)) := do
  let cnt := popc w
  if cnt > i then
    let p ← Utils.selectInWordU128 w i
    return .inl (result + p)
  else return .inr (i - cnt, result + 128)

/-- `RSQVector::select_intra_block(symbol, i, pos)` -/
def selectIntraBlock (B : Nat) (r : RSQVector) (symbol i pos : Nat) : M Nat := do
  let lineId := pos >>> 8
  let i ← sub i 1
  let nIter := if B == 256 then 1 else 2
  let rec go : Nat → Nat → Nat → Nat → M Nat
    | 0, _, _, _ => pure 0
    | f + 1, j, i, result => do
      if lineId + j ≥ nLines r.qv then throw Fault.oob
      let (w0, w1) ← normalize r.qv.data (lineId + j) symbol
      match ← selectIntraHalf w0 i result with
      | .inl p => pure p
      | .inr (i, result) =>
        match ← selectIntraHalf w1 i result with
        | .inl p => pure p
        | .inr (i, result) => go f (j + 1) i result
  go nIter 0 i 0

/-- `RSQVector::select(symbol, i)` -/
def select (dbg : Bool) (B : Nat) (r : RSQVector) (symbol i : Nat) : M (Option Nat) := do
  if symbol > 3 then return none
  let o ← occsUnchecked dbg r symbol
  if o ≤ i then return none
  let (pos, rank) ← selectBlock B r.rs symbol (i + 1)
  let t ← sub i rank
  let d ← selectIntraBlock B r symbol (t + 1) pos
  return some (pos + d)

/-- `RSQVector::select_unchecked(symbol, i)` (repaired debug assertions) -/
def selectUnchecked (dbg : Bool) (B : Nat) (r : RSQVector) (symbol i : Nat) : M Nat := do
  dbgAssert dbg (symbol ≤ 3)
  let o ← occs dbg r symbol
  dbgAssert dbg (match o with | some c => c > i | none => false)
  let v ← select dbg B r symbol i
  unwrap v

def get (dbg : Bool) (r : RSQVector) (i : Nat) : M (Option Nat) := QV.get dbg r.qv i
def getUnchecked (dbg : Bool) (r : RSQVector) (i : Nat) : M Nat := QV.getUnchecked dbg r.qv i

end Qwt.RSQ
