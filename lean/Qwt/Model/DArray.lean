import Qwt.Model.BitVector

/-! Model of `src/darray/mod.rs`. -/
namespace Qwt.DA
open Qwt Qwt.BV Qwt.Extracted

structure Inventories where
  nSets : Nat := 0
  blockInventory : Array Int := #[]        -- Box<[i64]>
  subblockInventory : Array Nat := #[]     -- Box<[u16]>
  overflowPositions : Array Nat := #[]     -- Box<[usize]>
  deriving Repr, DecidableEq, Inhabited

structure DArray where
  bv : BitVector := {}
  ones : Inventories := {}
  zeroes : Option Inventories := none
  deriving Repr, DecidableEq, Inhabited

/-- every `step`-th element of `l`, starting with the first (`(0..len).step_by(step)`) -/
def everyNth (step : Nat) (l : List Nat) : List Nat :=
  (List.range ((l.length + step - 1) / step)).map (fun k => l.getD (k * step) 0)

/-- `Inventories::flush_block` (repaired: a sparse group occupies `⌈len/32⌉` slots of the
    shared sub-block array, like a dense one) -/
def flushBlock (inv : Inventories) (cur : List Nat) : Inventories :=
  match cur with
  | [] => inv
  | first :: _ =>
    let last := cur.getLast?.getD first
    if last - first < daMaxInBlockDistance then
      { inv with
        blockInventory := inv.blockInventory.push (Int.ofNat first),
        subblockInventory := inv.subblockInventory ++
          ((everyNth daSubblockSize cur).map (fun p => (p - first) % 65536)).toArray }
    else
      { inv with
        blockInventory := inv.blockInventory.push (-(Int.ofNat inv.overflowPositions.size) - 1),
        overflowPositions := inv.overflowPositions ++ cur.toArray,
        subblockInventory := inv.subblockInventory ++
          Array.replicate ((cur.length + daSubblockSize - 1) / daSubblockSize) 65535 }

/-- split into chunks of `n` (the last one may be shorter, none is empty) -/
def chunks (n : Nat) (l : List Nat) : List (List Nat) :=
  if _h : n = 0 ∨ l = [] then [] else l.take n :: chunks n (l.drop n)
termination_by l.length
decreasing_by
  simp only [not_or] at _h
  have : l.length ≠ 0 := by
    intro hl; exact _h.2 (List.eq_nil_of_length_eq_zero hl)
  simp [List.length_drop]; omega

/-- `Inventories::<BIT>::new(bv)` -/
def invNew (bit : Bool) (bv : BitVector) : Inventories :=
  let ps := PosIter.collect bit bv (bv.nBits + 1) PosIter.new
  let inv := (chunks daBlockSize ps).foldl flushBlock {}
  { inv with nSets := ps.length }

def new (select0Support : Bool) (bv : BitVector) : DArray :=
  { bv, ones := invNew true bv, zeroes := if select0Support then some (invNew false bv) else none }

/-- the word scan of `select` -/
def scan (bit : Bool) (bv : BitVector) : Nat → Nat → Nat → Nat → M (Nat × Nat × Nat)
  | 0, wordIdx, word, rem => pure (wordIdx, word, rem)
  | f + 1, wordIdx, word, rem =>
    let pc := popc word
    if rem < pc then pure (wordIdx, word, rem)
    else do
      let w ← BV.getWord bv (wordIdx + 1)
      scan bit bv f (wordIdx + 1) (if bit then w else not64 w) (rem - pc)

/-- `DArray::select::<BIT>(i, inventories)` -/
def select (bit : Bool) (d : DArray) (inv : Inventories) (i : Nat) : M (Option Nat) := do
  if i ≥ inv.nSets then return none
  let block := i / daBlockSize
  let blockPos ← idx inv.blockInventory block
  if blockPos < 0 then
    let overflowPos := (-blockPos - 1).toNat
    let k := overflowPos + (i &&& (daBlockSize - 1))
    let p ← idx inv.overflowPositions k
    return some p
  let subblock := i / daSubblockSize
  let off ← idx inv.subblockInventory subblock
  let startPos := blockPos.toNat + off
  let rem := i &&& (daSubblockSize - 1)
  if rem == 0 then return some startPos
  let wordIdx := startPos >>> 6
  let wordShift := startPos &&& 63
  let w ← BV.getWord d.bv wordIdx
  let hi := ((mask64 <<< wordShift) % two64)
  let word := (if bit then w else not64 w) &&& hi
  let (wordIdx, word, rem) ← scan bit d.bv (nLines d.bv * 8 + 1) wordIdx word rem
  let s ← Utils.selectInWord word rem
  return some ((wordIdx <<< 6) + s)

def select1 (d : DArray) (i : Nat) : M (Option Nat) := select true d d.ones i

/-- `select0`: `assert!(SELECT0_SUPPORT)` is the documented panic -/
def select0 (select0Support : Bool) (d : DArray) (i : Nat) : M (Option Nat) := do
  guardM select0Support .assertDoc
  match d.zeroes with
  | some inv => select false d inv i
  | none => throw Fault.unwrapNone

def countOnes (d : DArray) : Nat := d.ones.nSets
def countZeros (d : DArray) : M Nat := sub d.bv.nBits d.ones.nSets
def len (d : DArray) : Nat := d.bv.nBits
def get (d : DArray) (i : Nat) : M (Option Bool) := BV.get d.bv i

end Qwt.DA
