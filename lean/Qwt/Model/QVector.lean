import Qwt.Model.Basic
import Qwt.Model.Utils

/-! Model of `src/qvector/mod.rs`: `DataLine` (four `u128`), `QVector`, `QVectorBuilder`,
`QVectorIterator`.  The `Box<[DataLine]>` is the flat array of its `u128` words, four per
line (word `4·l + w` is `data[l].words[w]`). -/
namespace Qwt.QV
open Qwt

structure QVector where
  data : Array Nat := #[]      -- u128 words, 4 per DataLine
  position : Nat := 0
  deriving Repr, DecidableEq, Inhabited

/-- builder: same two fields, `data` is a `Vec` -/
abbrev QVectorBuilder := QVector

def nLines (q : QVector) : Nat := q.data.size / 4

/-- `DataLine::set_symbol(symbol: u8, i: u8)` on line `line` -/
def setSymbol (data : Array Nat) (line symbol i : Nat) : Array Nat :=
  let wh := i >>> 7
  let wl := wh + 2
  let sh := i &&& 127
  let sym := symbol &&& 3
  let data := data.modify (4 * line + wh) (fun w => w ||| ((sym >>> 1) <<< sh))
  data.modify (4 * line + wl) (fun w => w ||| ((sym &&& 1) <<< sh))

/-- `QVectorBuilder::push(symbol: u8)` -/
def push (b : QVectorBuilder) (symbol : Nat) : M QVectorBuilder := do
  let posInLast := (b.position / 2) &&& 255
  let data := if posInLast == 0 then b.data ++ #[0, 0, 0, 0] else b.data
  -- `self.data.last_mut().unwrap()`
  if data.size < 4 then throw Fault.unwrapNone
  let line := data.size / 4 - 1
  let data := setSymbol data line symbol posInLast
  let position ← add64 b.position 2
  return { data, position }

/-- `value.as_()` for `AsPrimitive<u8>`: truncation to the low 8 bits (two's complement
    for signed sources, hence `Int`). -/
def asU8 (v : Int) : Nat := (v % 256).toNat

/-- `Extend::extend` / `FromIterator` -/
def extend (b : QVectorBuilder) (vals : List Int) : M QVectorBuilder :=
  vals.foldlM (fun b v => push b (asU8 v)) b

def build (b : QVectorBuilder) : QVector := b

def fromIter (vals : List Int) : M QVector := extend {} vals

/-- `QVectorBuilder::with_capacity(n)`: only the capacity computation can fault -/
def withCapacity (n : Nat) : M QVectorBuilder := do
  let a ← mul64 2 n
  let _ ← add64 a (Extracted.qvNBitsWord - 1)
  return {}

def len (q : QVector) : Nat := q.position >>> 1
def isEmpty (q : QVector) : Bool := q.position == 0

/-- `DataLine::get_unchecked(i)` on line `line` -/
def lineGet (data : Array Nat) (line i : Nat) : M Nat := do
  let wh := i >>> 7
  let wl := wh + 2
  let sh := i &&& 127
  let wordHigh ← uidx data (4 * line + wh)
  let wordLow ← uidx data (4 * line + wl)
  return (((wordHigh >>> sh) &&& 1) <<< 1) ||| ((wordLow >>> sh) &&& 1)

/-- `QVector::get_unchecked(i)` -/
def getUnchecked (dbg : Bool) (q : QVector) (i : Nat) : M Nat := do
  dbgAssert dbg (i < q.position / 2)
  let line := i >>> 8
  if line ≥ nLines q then throw Fault.oob
  lineGet q.data line (i &&& 255)

/-- `QVector::get(i)` -/
def get (dbg : Bool) (q : QVector) (i : Nat) : M (Option Nat) :=
  if i ≥ q.position >>> 1 then pure none else do
    let v ← getUnchecked dbg q i
    pure (some v)

/-- `DataLine::normalize(symbol)`: `REPEATEDSYMB[..]` is a checked index into a
    two-element constant array. -/
def normalize (data : Array Nat) (line symbol : Nat) : M (Nat × Nat) := do
  if symbol >>> 1 ≥ 2 then throw Fault.indexPanic
  let maskHigh := if symbol >>> 1 == 0 then mask128 else 0
  let maskLow := if symbol &&& 1 == 0 then mask128 else 0
  let w0 ← uidx data (4 * line)
  let w1 ← uidx data (4 * line + 1)
  let w2 ← uidx data (4 * line + 2)
  let w3 ← uidx data (4 * line + 3)
  return ((w0 ^^^ maskHigh) &&& (w2 ^^^ maskLow), (w1 ^^^ maskHigh) &&& (w3 ^^^ maskLow))

/-- `DataLine::rank_unchecked(symbol, i)` -/
def lineRank (dbg : Bool) (data : Array Nat) (line symbol i : Nat) : M Nat := do
  dbgAssert dbg (symbol ≤ 3)
  dbgAssert dbg (i ≤ 256)
  let (word0, word1) ← normalize data line symbol
  let lastWord := i >>> 7
  let offset := i &&& 127
  let maskOffset := (1 <<< offset) - 1
  let m0 := if lastWord == 0 then maskOffset else mask128
  let m1 := if lastWord == 1 then maskOffset else (if lastWord == 2 then mask128 else 0)
  return popc (word0 &&& m0) + popc (word1 &&& m1)

/-- `QVectorIterator`: `next` increments first and then calls `get` -/
structure Iter where
  i : Nat := 0
  deriving Repr

def Iter.next (dbg : Bool) (q : QVector) (it : Iter) : M (Option Nat × Iter) := do
  let i ← add64 it.i 1
  let v ← get dbg q (i - 1)
  return (v, { i })

end Qwt.QV
