import Qwt.Model.QWT

/-! Model of the code crafting shared (in two copies) by `src/quadwt/huffqwt.rs` and
`src/binwt/mod.rs`, and of `HuffQWaveletTree`.

`minimum_redundancy::Coding::code_lengths()` is an *input* of the model: a list of
`(symbol, length in fragments)` in the order in which the `HashMap` happens to enumerate
it (any order — the theorems quantify over all of them). -/
namespace Qwt.Huff
open Qwt Qwt.QV Qwt.RSQ Qwt.Extracted

structure PrefixCode where
  content : Nat := 0
  len : Nat := 0
  deriving Repr, DecidableEq, Inhabited

/-- stable insertion sort by key (`sort_by_key` is stable) -/
def insertByKey (key : α → Nat) (x : α) : List α → List α
  | [] => [x]
  | y :: ys => if key x < key y then x :: y :: ys else y :: insertByKey key x ys

def sortByKey (key : α → Nat) (l : List α) : List α :=
  l.foldl (fun acc x => insertByKey key x acc) []   -- inserts after equal keys: stable

def two32 : Nat := 4294967296

/-- checked `c[i] = v` -/
def setIdx (c : Array Nat) (i v : Nat) : M (Array Nat) :=
  if i < c.size then pure (c.set! i v) else .error .indexPanic

/-- `x << l` on `u32` (`1 << l`, `2 << l`, `3 << l`): shift amount ≥ 32 is a fault -/
def shl32 (x l : Nat) : M Nat :=
  if l < 32 then pure ((x <<< l) % two32) else .error .overflow

structure CraftSt where
  c : Array Nat
  m : Nat := 1
  l : Nat := 0
  assignments : Array PrefixCode

/-- the `for r in j..m` loop of the quad routine -/
def expand4 (j m l : Nat) : Nat → Nat → Array Nat → M (Array Nat)
  | 0, _, c => pure c
  | f + 1, r, c =>
    if r < m then do
      let cr ← idx c r
      let d ← sub m j
      let c ← setIdx c (d * 3 + r) cr
      let s1 ← shl32 1 l
      let c ← setIdx c (d * 2 + r) (cr ||| s1)
      let s2 ← shl32 2 l
      let c ← setIdx c (d * 1 + r) (cr ||| s2)
      let s3 ← shl32 3 l
      let c ← setIdx c r (cr ||| s3)
      expand4 j m l f (r + 1) c
    else pure c

/-- the `for r in j..m` loop of the binary routine -/
def expand2 (j m l : Nat) : Nat → Nat → Array Nat → M (Array Nat)
  | 0, _, c => pure c
  | f + 1, r, c =>
    if r < m then do
      let cr ← idx c r
      let d ← sub m j
      let c ← setIdx c (d * 1 + r) cr
      let s1 ← shl32 1 l
      let c ← setIdx c r (cr ||| s1)
      expand2 j m l f (r + 1) c
    else pure c

/-- the `while f[j].1 > l` loop; `D = 4` (two bits per step) or `2` -/
def grow (D : Nat) (j target : Nat) : Nat → CraftSt → M CraftSt
  | 0, st => pure st
  | fuel + 1, st =>
    if target > st.l then do
      let c ← if D == 4 then expand4 j st.m st.l (st.m + 1 - j) j st.c
              else expand2 j st.m st.l (st.m + 1 - j) j st.c
      let m ← if D == 4 then sub (4 * st.m) (3 * j) else sub (2 * st.m) j
      grow D j target fuel { st with c, m, l := st.l + (if D == 4 then 2 else 1) }
    else pure st

/-- reverse the fragments of `cj` (`l` bits) -/
def reverseCode (D : Nat) (cj l : Nat) : M Nat :=
  if D == 4 then
    (List.range (l / 2)).foldlM (fun acc k => do
      let t := 2 * k
      let s ← sub l (t + 2)
      let v ← shl32 ((cj >>> t) &&& 3) s
      pure (acc ||| v)) 0
  else
    (List.range l).foldlM (fun acc t => do
      let s ← sub l (t + 1)
      let v ← shl32 ((cj >>> t) &&& 1) s
      pure (acc ||| v)) 0

/-- `craft_wm_codes(freq, sigma)`. `lens` = `(symbol, length in fragments)` in `HashMap`
    iteration order; `slots` = size of the scratch array `c`. -/
def craftWmCodes (D : Nat) (lens : List (Nat × Nat)) (sigma : Nat) : M (Array PrefixCode) := do
  let alph := lens.length
  let bitsPer := if D == 4 then 2 else 1
  let f := sortByKey (fun x => x.2) (lens.map (fun x => (x.1, x.2 * bitsPer)))
  let slots := if D == 4 then alph * 4 else alph + 1     -- binary: repaired (`alph + 1`)
  let init : CraftSt := { c := Array.replicate slots 0, assignments := Array.replicate (sigma + 1) {} }
  let st ← (List.range alph).foldlM (fun (st : CraftSt) j => do
      let (sym, tlen) := f.getD j (0, 0)
      let st ← grow D j tlen (tlen + 1) st
      let cj ← idx st.c j
      let rev ← reverseCode D cj st.l
      if sym ≥ st.assignments.size then throw Fault.indexPanic
      pure { st with assignments := st.assignments.set! sym { content := rev, len := st.l } }) init
  return st.assignments

/-- decode tables: per code length, `(content, symbol)` sorted by content -/
def decodeTables (codes : Array PrefixCode) (maxLen : Nat) : Array (Array (Nat × Nat)) :=
  let init : Array (List (Nat × Nat)) := Array.replicate (maxLen + 1) []
  let filled := (List.range codes.size).foldl (fun (acc : Array (List (Nat × Nat))) i =>
      let cd := codes[i]!
      if cd.len != 0 then acc.modify cd.len (fun l => l ++ [(cd.content, i)]) else acc) init
  filled.map (fun l => (sortByKey (fun x => x.1) l).toArray)

/-- binary search for `key` among the first components of a sorted table -/
def tableFind (tbl : Array (Nat × Nat)) (key : Nat) : Option Nat :=
  (tbl.toList.find? (fun x => x.1 == key)).map (·.2)

structure Buckets5 where
  v : Array (Array Nat) := #[#[], #[], #[], #[], #[]]

/-- `stable_partition_of_{4,2}_with_codes(sequence, shift, codes)`; `D` buckets + the tail -/
def partitionWithCodes (D : Nat) (seq : Array Nat) (shift : Nat) (codes : Array PrefixCode) :
    M (Array Nat) := do
  let b ← seq.foldlM (fun (b : Array (Array Nat)) a => do
      let code ← idx codes (Utils.asUsize a)
      if code.len ≤ shift then pure (b.modify D (·.push a))
      else
        let d := (code.content >>> (code.len - shift)) &&& (D - 1)
        pure (b.modify d (·.push a))) (Array.replicate (D + 1) #[])
  return b.foldl (· ++ ·) #[]

/- ---------------------------------------------------------------------------------- -/

structure HQWT where
  n : Nat := 0
  nLevels : Nat := 0
  codesEncode : Array PrefixCode := #[]
  codesDecode : Array (Array (Nat × Nat)) := #[]
  qvs : Array RSQVector := #[]
  lens : Array Nat := #[]
  pfs : Option (Array PFS.PrefetchSupport) := none
  deriving Repr, DecidableEq, Inhabited

structure LevelSt where
  seq : Array Nat
  shift : Nat
  qvs : Array RSQVector := #[]
  lens : Array Nat := #[]
  pfs : Array PFS.PrefetchSupport := #[]

def levelStep (c : Cfg) (codes : Array PrefixCode) (st : LevelSt) : M LevelSt := do
  let qvb ← st.seq.foldlM (fun (b : QVectorBuilder) s => do
      match codes[Utils.asUsize s]? with
      | none => throw Fault.unwrapNone                -- `.get(..).expect(..)`
      | some code =>
        if code.len ≥ st.shift then
          QV.push b ((code.content >>> (code.len - st.shift)) &&& 3)
        else pure b) {}
  let qv := QV.build qvb
  let pfs ← if c.pfs then do
      let p ← PFS.new qv pfsSampleShift
      pure (st.pfs.push p)
    else pure st.pfs
  let rs ← RSQ.fromQV c.dbg c.B qv
  let seq ← partitionWithCodes 4 st.seq st.shift codes
  return { seq, shift := st.shift + 2, qvs := st.qvs.push rs, lens := st.lens.push (QV.len qv), pfs }

/-- `HuffQWaveletTree::new(sequence)`; `lens` as in `craftWmCodes` -/
def new (c : Cfg) (seq : Array Nat) (lens : List (Nat × Nat)) : M HQWT := do
  if seq.isEmpty then
    let d ← RSQ.default c.B
    return { n := 0, nLevels := 0, qvs := #[d], lens := #[0] }
  let sigma := seq.foldl max 0
  let codes ← craftWmCodes 4 lens (Utils.asUsize sigma)
  let maxLen := codes.foldl (fun m x => max m x.len) 0
  let nLevels := maxLen / 2
  let codesDecode := decodeTables codes maxLen
  let st ← (List.range nLevels).foldlM (fun st _ => levelStep c codes st)
    ({ seq, shift := 2 } : LevelSt)
  return { n := seq.size, nLevels, codesEncode := codes, codesDecode, qvs := st.qvs, lens := st.lens,
           pfs := if c.pfs then some st.pfs else none }

/-- the validity test of `rank` / `select` / `rank_prefetch` (repaired: the comparison is
    made before the symbol is narrowed to `usize`) -/
def codeOf (t : HQWT) (symbol : Nat) : Option PrefixCode :=
  if symbol ≥ two64 then none else
  match t.codesEncode[symbol]? with
  | some cd => if cd.len == 0 then none else some cd
  | none => none

/-- `rank_unchecked` -/
def rankUnchecked (c : Cfg) (t : HQWT) (symbol i : Nat) : M Nat := do
  let code ← idx t.codesEncode (Utils.asUsize symbol)
  let rec go : Nat → Nat → Int → Nat → Nat → M (Nat × Nat)
    | 0, _, _, curI, curP => pure (curI, curP)
    | f + 1, level, shift, curI, curP =>
      if shift ≥ 0 then do
        let tb := (code.content >>> shift.toNat) &&& 3
        let qv ← idx t.qvs level
        let offset ← RSQ.occsSmallerUnchecked c.dbg qv tb
        let rp ← RSQ.rankUnchecked c.dbg c.B qv tb curP
        let ri ← RSQ.rankUnchecked c.dbg c.B qv tb curI
        go f (level + 1) (shift - 2) (ri + offset) (rp + offset)
      else pure (curI, curP)
  let (ci, cp) ← go (code.len / 2 + 1) 0 (Int.ofNat code.len - 2) i 0
  sub ci cp

def rank (c : Cfg) (t : HQWT) (symbol i : Nat) : M (Option Nat) :=
  if i > t.n then pure none else
  match codeOf t symbol with
  | none => pure none
  | some _ => do let v ← rankUnchecked c t symbol i; pure (some v)

/-- `get_unchecked(i)` -/
def getUnchecked (c : Cfg) (t : HQWT) (i : Nat) : M Nat := do
  let rec go : Nat → Nat → Nat → Nat → Nat → M (Nat × Nat)
    | 0, _, result, _, shift => pure (result, shift)
    | f + 1, level, result, curI, shift => do
      let ll ← idx t.lens level
      if curI ≥ ll then pure (result, shift) else do
        let qv ← idx t.qvs level
        let symbol ← RSQ.getUnchecked c.dbg qv curI
        let result := ((result <<< 2) % two32) ||| symbol
        let offset ← RSQ.occsSmallerUnchecked c.dbg qv symbol
        let r ← RSQ.rankUnchecked c.dbg c.B qv symbol curI
        go f (level + 1) result (r + offset) (shift + 2)
  let (result, shift) ← go t.nLevels 0 0 i 0
  let tbl ← idx t.codesDecode shift
  match tableFind tbl result with
  | some s => if s < 2 ^ c.W then pure s else throw Fault.unwrapNone
  | none => throw Fault.unwrapNone          -- `.expect("could not translate symbol")`

def get (c : Cfg) (t : HQWT) (i : Nat) : M (Option Nat) :=
  if i ≥ t.n then pure none else do let v ← getUnchecked c t i; pure (some v)

def selectDown (c : Cfg) (t : HQWT) (code : PrefixCode) :
    Nat → Nat → Nat → Int → List (Nat × Nat) → M (Option (List (Nat × Nat)))
  | 0, _, _, _, acc => pure (some acc)
  | f + 1, level, b, shift, acc =>
    if shift ≥ 0 then do
      let tb := (code.content >>> shift.toNat) &&& 3
      let qv ← idx t.qvs level
      match ← RSQ.rank c.dbg c.B qv tb b with
      | none => pure none
      | some rankB => do
        let off ← RSQ.occsSmallerUnchecked c.dbg qv tb
        selectDown c t code f (level + 1) (rankB + off) (shift - 2) ((b, rankB) :: acc)
    else pure (some acc)

def selectUp (c : Cfg) (t : HQWT) (code : PrefixCode) :
    List (Nat × Nat) → Nat → Nat → Nat → M (Option Nat)
  | [], _, _, result => pure (some result)
  | (b, rankB) :: rest, level, shift, result => do
    let tb := (code.content >>> shift) &&& 3
    let qv ← idx t.qvs level
    if rankB + result ≥ two64 then return none
    match ← RSQ.select c.dbg c.B qv tb (rankB + result) with
    | none => pure none
    | some p => do
      let r ← sub p b
      selectUp c t code rest (level - 1) (shift + 2) r

def select (c : Cfg) (t : HQWT) (symbol i : Nat) : M (Option Nat) := do
  match codeOf t symbol with
  | none => return none
  | some code =>
    match ← selectDown c t code (code.len / 2 + 1) 0 0 (Int.ofNat code.len - 2) [] with
    | none => return none
    | some path => selectUp c t code path (path.length - 1) 0 i

def selectUnchecked (c : Cfg) (t : HQWT) (symbol i : Nat) : M Nat := do
  let v ← select c t symbol i
  unwrap v

def pfsPhase1 (c : Cfg) (t : HQWT) (code : PrefixCode) (i : Nat) : M Unit := do
  if !c.pfs then return ()
  match t.pfs with
  | none => return ()
  | some pfs => do
    let rec go : Nat → Nat → Int → Nat → Nat → M (Nat × Nat)
      | 0, _, _, s, e => pure (s, e)
      | f + 1, level, shift, s, e =>
        if shift ≥ 2 then do
          let tb := ((code.content >>> shift.toNat) % 256) &&& 3
          let qv ← idx t.qvs level
          let offset ← RSQ.occsSmallerUnchecked c.dbg qv tb
          let p ← idx pfs level
          let rs ← PFS.approxRankUnchecked p tb s
          let re ← PFS.approxRankUnchecked p tb e
          let _ ← idx t.qvs (level + 1)
          go f (level + 1) (shift - 2) (rs + offset) (re + offset)
        else pure (s, e)
    let _ ← idx t.qvs 0
    let (s, e) ← go (code.len / 2 + 1) 0 (Int.ofNat code.len - 2) 0 i
    let _ ← sub e s
    return ()

def pfsPhase2 (c : Cfg) (t : HQWT) (code : PrefixCode) (i : Nat) : M Unit := do
  let rec go : Nat → Nat → Int → Nat → Nat → M Unit
    | 0, _, _, _, _ => pure ()
    | f + 1, level, shift, s, e =>
      if shift ≥ 2 then do
        let tb := ((code.content >>> shift.toNat) % 256) &&& 3
        let qv ← idx t.qvs level
        let offset ← RSQ.occsSmallerUnchecked c.dbg qv tb
        let rs ← RSQ.rankBlock c.dbg c.B qv.rs tb s
        let re ← RSQ.rankBlock c.dbg c.B qv.rs tb e
        let _ ← idx t.qvs (level + 1)
        go f (level + 1) (shift - 2) (rs + offset) (re + offset)
      else pure ()
  let _ ← idx t.qvs 0
  go (code.len / 2 + 1) 0 (Int.ofNat code.len - 2) 0 i

def rankPrefetchUnchecked (c : Cfg) (t : HQWT) (symbol i : Nat) : M Nat := do
  let code ← idx t.codesEncode (Utils.asUsize symbol)
  if c.pfs then pfsPhase1 c t code i
  pfsPhase2 c t code i
  rankUnchecked c t symbol i

def rankPrefetch (c : Cfg) (t : HQWT) (symbol i : Nat) : M (Option Nat) :=
  if i > t.n then pure none else
  match codeOf t symbol with
  | none => pure none
  | some _ => do let v ← rankPrefetchUnchecked c t symbol i; pure (some v)

end Qwt.Huff
