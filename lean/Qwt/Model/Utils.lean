import Qwt.Model.Basic
import Qwt.Extracted

/-! Model of `src/utils/mod.rs`, statement by statement. -/
namespace Qwt.Utils
open Qwt Qwt.Extracted

/-- `select_in_word(word, k)` on `u64` operands (`word, k < 2^64`). -/
def selectInWord (word k : Nat) : M Nat := do
  let s := word
  let s ← sub s ((s &&& wmul64 0xA kOnesStep4) >>> 1)
  let s := (s &&& wmul64 0x3 kOnesStep4) + ((s >>> 2) &&& wmul64 0x3 kOnesStep4)
  let s := ((s + (s >>> 4)) % two64) &&& wmul64 0xF kOnesStep8
  let byteSums := wmul64 s kOnesStep8
  let kStep8 ← mul64 k kOnesStep8
  let geq ← sub (kStep8 ||| kLambdasStep8) byteSums
  let geqKStep8 := geq &&& kLambdasStep8
  let place := popc geqKStep8 * 8
  if place == 64 then return 64
  let t := (((byteSums <<< 8) % two64) >>> place) &&& 0xFF
  let byteRank ← sub k t
  let br8 ← (if byteRank <<< 8 < two64 then pure (byteRank <<< 8) else .error .overflow : M Nat)
  let e ← idx kSelectInByte (((word >>> place) &&& 0xFF) ||| br8)
  return place + e

/-- `select_in_word_u128(word, k)` -/
def selectInWordU128 (word k : Nat) : M Nat := do
  let first := word % two64
  let kp := popc first
  if kp > k then selectInWord first k
  else do
    let k' ← sub k kp
    let r ← selectInWord ((word >>> 64) % two64) k'
    return 64 + r

/-- `popcnt_wide::<N>(data)` -/
def popcntWide (n : Nat) (data : Array Nat) : Nat :=
  (data.toList.take n).foldl (fun acc w => acc + popc w) 0

/-- `msb(v)` for a `width`-bit value -/
def msb (width : Nat) (v : Nat) : M Nat :=
  if v == 0 then pure 0 else sub (width - 1) (clz width v)

/-- how the element type is cast to `usize` by `.as_()` -/
@[inline] def asUsize (a : Nat) : Nat := a % two64

/-- the four buckets of `stable_partition_of_4` -/
structure Buckets4 where
  v0 : Array Nat := #[]
  v1 : Array Nat := #[]
  v2 : Array Nat := #[]
  v3 : Array Nat := #[]

def Buckets4.push (b : Buckets4) (two a : Nat) : Buckets4 :=
  if two == 0 then { b with v0 := b.v0.push a }
  else if two == 1 then { b with v1 := b.v1.push a }
  else if two == 2 then { b with v2 := b.v2.push a }
  else { b with v3 := b.v3.push a }

def Buckets4.concat (b : Buckets4) : Array Nat := b.v0 ++ b.v1 ++ b.v2 ++ b.v3

/-- `stable_partition_of_4(sequence, shift)`; `width` is the bit width of `T`.
    Two bits of an element: `(a >> shift).as_() & 3` — the shift happens in `T`
    (a fault when `shift ≥ width` and the slice is non-empty), then the cast. -/
def stablePartitionOf4 (width : Nat) (seq : Array Nat) (shift : Nat) : M (Array Nat) :=
  if shift ≥ width ∧ seq.size > 0 then .error .overflow
  else
    let b := seq.foldl (fun (b : Buckets4) a => b.push (asUsize (a >>> shift) &&& 3) a) {}
    .ok b.concat

/-- `stable_partition_of_2(sequence, shift)` -/
def stablePartitionOf2 (width : Nat) (seq : Array Nat) (shift : Nat) : M (Array Nat) :=
  if shift ≥ width ∧ seq.size > 0 then .error .overflow
  else
    let b := seq.foldl (fun (b : Array Nat × Array Nat) a =>
      if asUsize (a >>> shift) &&& 1 == 0 then (b.1.push a, b.2) else (b.1, b.2.push a)) (#[], #[])
    .ok (b.1 ++ b.2)

/-- insertion into a sorted duplicate-free list -/
def insertSorted (x : Nat) : List Nat → List Nat
  | [] => [x]
  | y :: ys => if x < y then x :: y :: ys else if x == y then y :: ys else y :: insertSorted x ys

/-- `text_remap(input)`: returns the remapped text and the alphabet size.  The `HashSet`
    / `HashMap` of the original only ever hold the set of distinct bytes and the map
    byte ↦ rank, both of which are order-free. -/
def textRemap (input : Array Nat) : Array Nat × Nat :=
  let uniq := input.foldl (fun acc c => insertSorted c acc) []
  let rankOf (c : Nat) : Nat := (uniq.takeWhile (· < c)).length
  (input.map rankOf, uniq.length)

end Qwt.Utils
