import Qwt.Model.Prefetch

/-! Model of `src/quadwt/mod.rs` (plain quad wavelet tree). -/
namespace Qwt
structure Cfg where
  B : Nat := 256        -- block size of the rank/select quad vector
  pfs : Bool := false   -- WITH_PREFETCH_SUPPORT
  W : Nat := 8          -- bit width of the element type `T`
  dbg : Bool := false   -- debug assertions + overflow checks
  deriving Repr, DecidableEq, Inhabited
end Qwt

namespace Qwt.QWTree
open Qwt Qwt.QV Qwt.RSQ Qwt.Extracted

structure QWT where
  n : Nat := 0
  nLevels : Nat := 0
  sigma : Nat := 0
  qvs : Array RSQVector := #[]
  pfs : Option (Array PFS.PrefetchSupport) := none
  deriving Repr, DecidableEq, Inhabited

/-- `((symbol >> shift).as_() & 3) as u8` — the shift happens in `T` -/
def twoBits (c : Cfg) (symbol shift : Nat) : M Nat :=
  if shift ≥ c.W then .error .overflow else pure ((Utils.asUsize (symbol >>> shift)) &&& 3)

structure LevelSt where
  seq : Array Nat
  shift : Nat
  qvs : Array RSQVector := #[]
  pfs : Array PFS.PrefetchSupport := #[]

def levelStep (c : Cfg) (st : LevelSt) : M LevelSt := do
  let _ ← QV.withCapacity st.seq.size
  let qvb ← st.seq.foldlM (fun (b : QVectorBuilder) symbol => do
      let tb ← twoBits c symbol st.shift
      QV.push b tb) {}
  let qv := QV.build qvb
  let pfs ← if c.pfs then do
      let p ← PFS.new qv pfsSampleShift
      pure (st.pfs.push p)
    else pure st.pfs
  let rs ← RSQ.fromQV c.dbg c.B qv
  let seq ← Utils.stablePartitionOf4 c.W st.seq st.shift
  return { seq, shift := if st.shift ≥ 2 then st.shift - 2 else st.shift, qvs := st.qvs.push rs, pfs }

/-- `QWaveletTree::new(sequence)` -/
def new (c : Cfg) (seq : Array Nat) : M QWT := do
  if seq.isEmpty then
    let d ← RSQ.default c.B
    return { n := 0, nLevels := 0, sigma := 0, qvs := #[d], pfs := none }
  let sigma := seq.foldl max 0
  let m ← Utils.msb c.W sigma
  let logSigma := m + 1
  let nLevels := (logSigma + 1) / 2
  let st ← (List.range nLevels).foldlM (fun st _ => levelStep c st)
    ({ seq, shift := 2 * (nLevels - 1) } : LevelSt)
  return { n := seq.size, nLevels, sigma, qvs := st.qvs, pfs := if c.pfs then some st.pfs else none }

def len (t : QWT) : Nat := t.n
def isEmpty (t : QWT) : Bool := t.n == 0
def sigma? (t : QWT) : Option Nat := if t.n == 0 then none else some t.sigma

/-- `rank_unchecked(symbol, i)` -/
def rankUnchecked (c : Cfg) (t : QWT) (symbol i : Nat) : M Nat := do
  let nl1 ← sub t.nLevels 1
  let rec go : Nat → Nat → Nat → Nat → Nat → M (Nat × Nat × Nat)
    | 0, _, shift, curI, curP => pure (shift, curI, curP)
    | f + 1, level, shift, curI, curP => do
      let tb ← twoBits c symbol shift
      let qv ← idx t.qvs level
      let offset ← RSQ.occsSmallerUnchecked c.dbg qv tb
      let rp ← RSQ.rankUnchecked c.dbg c.B qv tb curP
      let ri ← RSQ.rankUnchecked c.dbg c.B qv tb curI
      go f (level + 1) (shift - 2) (ri + offset) (rp + offset)
  let (shift, curI, curP) ← go nl1 0 (2 * nl1) i 0
  let tb ← twoBits c symbol shift
  let qv ← idx t.qvs nl1
  let ci ← RSQ.rankUnchecked c.dbg c.B qv tb curI
  let cp ← RSQ.rankUnchecked c.dbg c.B qv tb curP
  sub ci cp

/-- `rank(symbol, i)` (repaired: `None` on the empty tree) -/
def rank (c : Cfg) (t : QWT) (symbol i : Nat) : M (Option Nat) :=
  if t.n == 0 || i > t.n || symbol > t.sigma then pure none
  else do let v ← rankUnchecked c t symbol i; pure (some v)

/-- `get_unchecked(i)` -/
def getUnchecked (c : Cfg) (t : QWT) (i : Nat) : M Nat := do
  let nl1 ← sub t.nLevels 1
  let rec go : Nat → Nat → Nat → Nat → M (Nat × Nat)
    | 0, _, result, curI => pure (result, curI)
    | f + 1, level, result, curI => do
      let qv ← idx t.qvs level
      let symbol ← RSQ.getUnchecked c.dbg qv curI
      let result := ((result <<< 2) % 2 ^ c.W) ||| symbol
      let offset ← RSQ.occsSmallerUnchecked c.dbg qv symbol
      let r ← RSQ.rankUnchecked c.dbg c.B qv symbol curI
      go f (level + 1) result (r + offset)
  let (result, curI) ← go nl1 0 0 i
  let qv ← idx t.qvs nl1
  let symbol ← RSQ.getUnchecked c.dbg qv curI
  return ((result <<< 2) % 2 ^ c.W) ||| symbol

def get (c : Cfg) (t : QWT) (i : Nat) : M (Option Nat) :=
  if i ≥ t.n then pure none else do let v ← getUnchecked c t i; pure (some v)

/-- downward pass of `select` -/
def selectDown (c : Cfg) (t : QWT) (symbol : Nat) :
    Nat → Nat → Nat → Int → List (Nat × Nat) → M (Option (List (Nat × Nat)))
  | 0, _, _, _, acc => pure (some acc)
  | f + 1, level, b, shift, acc => do
    if shift < 0 then throw Fault.overflow
    let tb ← twoBits c symbol shift.toNat
    let qv ← idx t.qvs level
    match ← RSQ.rank c.dbg c.B qv tb b with
    | none => pure none
    | some rankB => do
      let off ← RSQ.occsSmallerUnchecked c.dbg qv tb
      selectDown c t symbol f (level + 1) (rankB + off) (shift - 2) ((b, rankB) :: acc)

/-- upward pass of `select`: `path` is the recorded `(b, rank_b)` list, deepest level first -/
def selectUp (c : Cfg) (t : QWT) (symbol : Nat) :
    List (Nat × Nat) → Nat → Nat → Nat → M (Option Nat)
  | [], _, _, result => pure (some result)
  | (b, rankB) :: rest, level, shift, result => do
    let tb ← twoBits c symbol shift
    let qv ← idx t.qvs level
    -- repaired: `rank_b.checked_add(result)?`
    if rankB + result ≥ two64 then return none
    match ← RSQ.select c.dbg c.B qv tb (rankB + result) with
    | none => pure none
    | some p => do
      let r ← sub p b
      selectUp c t symbol rest (level - 1) (shift + 2) r

/-- `select(symbol, i)` (repaired: `None` on the empty tree, no overflow in `rank_b + i`) -/
def select (c : Cfg) (t : QWT) (symbol i : Nat) : M (Option Nat) := do
  if t.n == 0 || symbol > t.sigma then return none
  let nl1 ← sub t.nLevels 1
  match ← selectDown c t symbol t.nLevels 0 0 (Int.ofNat (2 * nl1)) [] with
  | none => return none
  | some path => selectUp c t symbol path nl1 0 i

def selectUnchecked (c : Cfg) (t : QWT) (symbol i : Nat) : M Nat := do
  let v ← select c t symbol i
  unwrap v

/-- estimation phase 1 (`rank_prefetch_superblocks_unchecked`): only the computations
    that can fault are kept; the prefetch calls themselves are `()` -/
def pfsPhase1 (c : Cfg) (t : QWT) (symbol i : Nat) : M Unit := do
  if !c.pfs then return ()
  match t.pfs with
  | none => return ()
  | some pfs => do
    let nl1 ← sub t.nLevels 1
    let rec go : Nat → Nat → Nat → Nat → Nat → M (Nat × Nat)
      | 0, _, _, s, e => pure (s, e)
      | f + 1, level, shift, s, e => do
        let tb ← twoBits c symbol shift
        let qv ← idx t.qvs level
        let offset ← RSQ.occsSmallerUnchecked c.dbg qv tb
        let p ← idx pfs level
        let rs ← PFS.approxRankUnchecked p tb s
        let re ← PFS.approxRankUnchecked p tb e
        let _ ← idx t.qvs (level + 1)
        go f (level + 1) (shift - 2) (rs + offset) (re + offset)
    let _ ← idx t.qvs 0
    let (s, e) ← go nl1 0 (2 * nl1) 0 i
    let _ ← sub e s
    return ()

/-- estimation phase 2 of `rank_prefetch_unchecked` (block counters) -/
def pfsPhase2 (c : Cfg) (t : QWT) (symbol i : Nat) : M Unit := do
  let nl1 ← sub t.nLevels 1
  let rec go : Nat → Nat → Nat → Nat → Nat → M Unit
    | 0, _, _, _, _ => pure ()
    | f + 1, level, shift, s, e => do
      let tb ← twoBits c symbol shift
      let qv ← idx t.qvs level
      let offset ← RSQ.occsSmallerUnchecked c.dbg qv tb
      let rs ← RSQ.rankBlock c.dbg c.B qv.rs tb s
      let re ← RSQ.rankBlock c.dbg c.B qv.rs tb e
      let _ ← idx t.qvs (level + 1)
      go f (level + 1) (shift - 2) (rs + offset) (re + offset)
  let _ ← idx t.qvs 0
  go nl1 0 (2 * nl1) 0 i

def rankPrefetchUnchecked (c : Cfg) (t : QWT) (symbol i : Nat) : M Nat := do
  if c.pfs then pfsPhase1 c t symbol i
  pfsPhase2 c t symbol i
  rankUnchecked c t symbol i

def rankPrefetch (c : Cfg) (t : QWT) (symbol i : Nat) : M (Option Nat) :=
  if t.n == 0 || i > t.n || symbol > t.sigma then pure none
  else do let v ← rankPrefetchUnchecked c t symbol i; pure (some v)

end Qwt.QWTree
