import Qwt.Model.Huff

/-! Model of `src/binwt/mod.rs` (`WT`, `HWT` over `RSWide`). -/
namespace Qwt.BinWT
open Qwt Qwt.BV Qwt.RSW Qwt.Huff Qwt.Extracted

structure WT where
  n : Nat := 0
  nLevels : Nat := 0
  sigma : Option Nat := none
  codesEncode : Option (Array PrefixCode) := none
  codesDecode : Option (Array (Array (Nat × Nat))) := none
  bvs : Array RSWide := #[]
  lens : Array Nat := #[]
  deriving Repr, DecidableEq, Inhabited

structure LevelSt where
  seq : Array Nat
  shift : Nat
  bvs : Array RSWide := #[]
  lens : Array Nat := #[]

def levelStep (c : Cfg) (compressed : Bool) (nLevels : Nat) (codes : Array PrefixCode) (st : LevelSt) :
    M LevelSt := do
  let bvm ← st.seq.foldlM (fun (b : BitVectorMut) s => do
      if compressed then
        match codes[Utils.asUsize s]? with
        | none => throw Fault.unwrapNone
        | some code =>
          if code.len ≥ st.shift then
            BV.push b (((code.content >>> (code.len - st.shift)) &&& 1) == 1)
          else pure b
      else do
        let sh ← sub nLevels st.shift
        if sh ≥ c.W then throw Fault.overflow
        BV.push b ((Utils.asUsize (s >>> sh) &&& 1) == 1)) {}
  let rs ← RSW.new bvm
  let seq ← if compressed then partitionWithCodes 2 st.seq st.shift codes
            else do
              let sh ← sub nLevels st.shift
              Utils.stablePartitionOf2 c.W st.seq sh
  return { seq, shift := st.shift + 1, bvs := st.bvs.push rs, lens := st.lens.push bvm.nBits }

/-- `WaveletTree::new(sequence)`; `lens` only used when `compressed` -/
def new (c : Cfg) (compressed : Bool) (seq : Array Nat) (lens : List (Nat × Nat)) : M WT := do
  if seq.isEmpty then return {}
  let sigma := seq.foldl max 0
  let (codes, dec, nLevels, sig) ← if compressed then do
      let codes ← craftWmCodes 2 lens (Utils.asUsize sigma)
      let maxLen := codes.foldl (fun m x => max m x.len) 0
      pure (some codes, some (decodeTables codes maxLen), maxLen, none)
    else do
      let m ← Utils.msb c.W sigma
      pure (none, none, m + 1, some sigma)
  let st ← (List.range nLevels).foldlM (fun st _ => levelStep c compressed nLevels (codes.getD #[]) st)
    ({ seq, shift := 1 } : LevelSt)
  return { n := seq.size, nLevels, sigma := sig, codesEncode := codes, codesDecode := dec,
           bvs := st.bvs, lens := st.lens }

/-- the validity test shared by `rank` and `select` (repaired); returns `(repr, len)` -/
def reprOf (compressed : Bool) (t : WT) (symbol : Nat) : M (Option (Nat × Nat)) :=
  if compressed then
    match t.codesEncode with
    | none => pure none                       -- empty tree
    | some codes =>
      if symbol ≥ two64 then pure none else
      match codes[symbol]? with
      | some cd => if cd.len == 0 then pure none else pure (some (cd.content, cd.len))
      | none => pure none
  else
    match t.sigma with
    | none => pure none                       -- empty tree
    | some s => if symbol > s then pure none else pure (some (symbol, t.nLevels))

/-- `get_unchecked(i)` (repaired: the result is accumulated in `T`) -/
def getUnchecked (c : Cfg) (compressed : Bool) (t : WT) (i : Nat) : M Nat := do
  let rec go : Nat → Nat → Nat → Nat → Nat → M (Nat × Nat)
    | 0, _, result, _, shift => pure (result, shift)
    | f + 1, level, result, curI, shift => do
      let stop ← if compressed then do
          let ll ← idx t.lens level
          pure (decide (curI ≥ ll))
        else pure false
      if stop then pure (result, shift) else do
        let bv ← idx t.bvs level
        let symbol ← RSW.getUnchecked bv curI
        let result := ((result <<< 1) % (if compressed then two32 else 2 ^ c.W)) ||| (if symbol then 1 else 0)
        let tmp ← RSW.rank1Unchecked bv curI
        let curI ← if symbol then pure (tmp + bv.nZeros) else sub curI tmp
        go f (level + 1) result curI (shift + 1)
  let (result, shift) ← go t.nLevels 0 0 i 0
  if compressed then
    let dec ← unwrap t.codesDecode
    let tbl ← idx dec shift
    match tableFind tbl result with
    | some s => if s < 2 ^ c.W then pure s else throw Fault.unwrapNone
    | none => throw Fault.unwrapNone
  else pure result

def get (c : Cfg) (compressed : Bool) (t : WT) (i : Nat) : M (Option Nat) :=
  if i ≥ t.n then pure none else do let v ← getUnchecked c compressed t i; pure (some v)

def bitOf (repr symbolLen level : Nat) : M Bool := do
  let s ← sub symbolLen (level + 1)
  pure (((repr >>> s) &&& 1) == 1)

def rankWalk (t : WT) (repr symbolLen : Nat) : Nat → Nat → Nat → Nat → M (Nat × Nat)
  | 0, _, curI, curP => pure (curI, curP)
  | f + 1, level, curI, curP => do
    let bit ← bitOf repr symbolLen level
    let bv ← idx t.bvs level
    let offset := bv.nZeros
    let tmpP ← RSW.rank1Unchecked bv curP
    let tmpI ← RSW.rank1Unchecked bv curI
    let curP ← if bit then pure (tmpP + offset) else sub curP tmpP
    let curI ← if bit then pure (tmpI + offset) else sub curI tmpI
    rankWalk t repr symbolLen f (level + 1) curI curP

def rank (_c : Cfg) (compressed : Bool) (t : WT) (symbol i : Nat) : M (Option Nat) := do
  if i > t.n then return none
  match ← reprOf compressed t symbol with
  | none => return none
  | some (repr, symbolLen) =>
    let (ci, cp) ← rankWalk t repr symbolLen symbolLen 0 i 0
    let v ← sub ci cp
    return some v

def rankUnchecked (_c : Cfg) (compressed : Bool) (t : WT) (symbol i : Nat) : M Nat := do
  let (repr, symbolLen) ← if compressed then do
      let codes ← unwrap t.codesEncode
      let cd ← idx codes (Utils.asUsize symbol)
      pure (cd.content, cd.len)
    else pure (symbol, t.nLevels)
  let (ci, cp) ← rankWalk t repr symbolLen symbolLen 0 i 0
  sub ci cp

def selectDown (t : WT) (repr symbolLen : Nat) :
    Nat → Nat → Nat → List (Nat × Nat) → M (Option (List (Nat × Nat)))
  | 0, _, _, acc => pure (some acc)
  | f + 1, level, b, acc => do
    let bit ← bitOf repr symbolLen level
    let bv ← idx t.bvs level
    let r ← if bit then RSW.rank1 bv b else RSW.rank0 bv b
    match r with
    | none => pure none
    | some rankB =>
      selectDown t repr symbolLen f (level + 1) (rankB + (if bit then bv.nZeros else 0)) ((b, rankB) :: acc)

def selectUp (t : WT) (repr symbolLen : Nat) : List (Nat × Nat) → Nat → Nat → M (Option Nat)
  | [], _, result => pure (some result)
  | (b, rankB) :: rest, level, result => do
    let bit ← bitOf repr symbolLen level
    let bv ← idx t.bvs level
    if rankB + result ≥ two64 then return none
    let r ← if bit then RSW.select1 bv (rankB + result) else RSW.select0 bv (rankB + result)
    match r with
    | none => pure none
    | some p => do
      let v ← sub p b
      selectUp t repr symbolLen rest (level - 1) v

def select (_c : Cfg) (compressed : Bool) (t : WT) (symbol i : Nat) : M (Option Nat) := do
  match ← reprOf compressed t symbol with
  | none => return none
  | some (repr, symbolLen) =>
    match ← selectDown t repr symbolLen symbolLen 0 0 [] with
    | none => return none
    | some path => selectUp t repr symbolLen path (symbolLen - 1) i

def selectUnchecked (c : Cfg) (compressed : Bool) (t : WT) (symbol i : Nat) : M Nat := do
  let v ← select c compressed t symbol i
  unwrap v

end Qwt.BinWT
