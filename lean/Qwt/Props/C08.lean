import Qwt.Proofs.BitVectorHist

/-!
# C08 — the mutable bit vector behaves like a plain sequence of booleans

`BV.abs b : List Bool` reads the first `nBits` bits out of the words, `BV.Inv b` is the
representation invariant (allocation size, `u64` words, zero padding, one-counter).  Both are
defined in `Qwt/Proofs/BitVectorBasic.lean`; histories (`Op`, `run`, `runSpec`, `HistPre`) in
`Qwt/Proofs/BitVectorHist.lean`.

`BitVector` and `BitVectorMut` are the same structure in the model (the Rust conversions and
`clone` copy the three fields), so conversions/clone are the identity on `abs`.

The only bounds are the explicit `usize` overflow guards (`… < two64`).
-/
namespace Qwt.Props.C08
open Qwt Qwt.BV

/-! ## 1. the empty vector -/

theorem init_inv : Inv {} ∧ abs {} = [] := BV.init_inv

/-! ## 2. every mutator is the list operation -/

theorem push_step (b : BitVector) (bit : Bool) (hb : Inv b) (hn : b.nBits + 1 < two64) :
    ∃ b', push b bit = .ok b' ∧ Inv b' ∧ abs b' = abs b ++ [bit] :=
  push_spec b bit hb hn

theorem appendBits_step (b : BitVector) (bits len : Nat) (hb : Inv b)
    (hpre : len ≤ 64 ∧ bits < 2 ^ len) (hn : b.nBits + len < two64) :
    ∃ b', appendBits b bits len = .ok b' ∧ Inv b' ∧ abs b' = abs b ++ Spec.bitsOf bits len :=
  appendBits_spec b bits len hb hpre.1 hpre.2 hn

/-- the documented panic (`bits : u64`) -/
theorem appendBits_panic (b : BitVector) (bits len : Nat) (hu : bits < two64)
    (hpre : ¬ (len ≤ 64 ∧ bits < 2 ^ len)) : appendBits b bits len = .error .assertDoc :=
  appendBits_pre_fail b bits len hu hpre

theorem extendWithZeros_step (b : BitVector) (n : Nat) (hb : Inv b)
    (hn : b.nBits + n + 511 < two64) :
    ∃ b', extendWithZeros b n = .ok b' ∧ Inv b' ∧ abs b' = abs b ++ List.replicate n false :=
  extendWithZeros_spec b n hb hn

theorem set_step (b : BitVector) (i : Nat) (bit : Bool) (hb : Inv b) (hpre : i < b.nBits) :
    ∃ b', set b i bit = .ok b' ∧ Inv b' ∧ abs b' = (abs b).set i bit :=
  set_spec b i bit hb hpre

theorem set_panic (b : BitVector) (i : Nat) (bit : Bool) (hpre : ¬ i < b.nBits) :
    set b i bit = .error .assertDoc :=
  set_pre_fail b i bit hpre

theorem setBits_step (b : BitVector) (i len bits : Nat) (hb : Inv b)
    (hpre : i + len ≤ b.nBits ∧ len ≤ 64 ∧ bits < 2 ^ len) :
    ∃ b', setBits b i len bits = .ok b' ∧ Inv b' ∧
      abs b' = (abs b).take i ++ Spec.bitsOf bits len ++ (abs b).drop (i + len) :=
  setBits_spec b i len bits hb hpre.1 hpre.2.1 hpre.2.2

/-- the documented panics (`bits : u64`) -/
theorem setBits_panic (b : BitVector) (i len bits : Nat) (hu : bits < two64)
    (hpre : ¬ (i + len ≤ b.nBits ∧ len ≤ 64 ∧ bits < 2 ^ len)) :
    setBits b i len bits = .error .assertDoc :=
  setBits_pre_fail b i len bits hu hpre

theorem extendBools_step (b : BitVector) (bs : List Bool) (hb : Inv b)
    (hn : b.nBits + bs.length < two64) :
    ∃ b', extendBools b bs = .ok b' ∧ Inv b' ∧ abs b' = abs b ++ bs :=
  extendBools_spec bs b hb hn

/-- each position `p`: pad with zeros to length `p + 1` if needed, then set `p` (`specSetPos`) -/
theorem extendPositions_step (b : BitVector) (ps : List Nat) (hb : Inv b)
    (hn : ∀ p ∈ ps, p + 512 < two64) :
    ∃ b', extendPositions b ps = .ok b' ∧ Inv b' ∧ abs b' = ps.foldl specSetPos (abs b) :=
  extendPositions_spec ps b hb hn

theorem specSetPos_def (l : List Bool) (p : Nat) : specSetPos l p =
    (if p ≥ l.length then l ++ List.replicate (p + 1 - l.length) false else l).set p true := rfl

/-! constructors -/

theorem withZeros_ok (n : Nat) (hn : n + 511 < two64) :
    ∃ b', withZeros n = .ok b' ∧ Inv b' ∧ abs b' = List.replicate n false :=
  withZeros_spec n hn

theorem fromBools_ok (bs : List Bool) (hn : bs.length < two64) :
    ∃ b', fromBools bs = .ok b' ∧ Inv b' ∧ abs b' = bs := by
  obtain ⟨b', h1, h2, h3⟩ := extendBools_spec bs {} BV.init_inv.1 (by simpa using hn)
  exact ⟨b', h1, h2, by rw [h3, BV.init_inv.2]; rfl⟩

theorem fromPositions_ok (ps : List Nat) (hn : ∀ p ∈ ps, p + 512 < two64) :
    ∃ b', fromPositions ps = .ok b' ∧ Inv b' ∧ abs b' = ps.foldl specSetPos [] := by
  obtain ⟨b', h1, h2, h3⟩ := extendPositions_spec ps {} BV.init_inv.1 hn
  exact ⟨b', h1, h2, by rw [h3, BV.init_inv.2]⟩

/-! ## 3. arbitrary histories -/

/-- any history whose operations meet their preconditions runs without a fault, and the
    result is the plain sequence obtained by running the list operations -/
theorem reachable_ok (h : List Op) (hp : HistPre h []) :
    ∃ b, run h {} = .ok b ∧ Inv b ∧ abs b = runSpec h [] := by
  have := run_spec h {} BV.init_inv.1 (by rw [BV.init_inv.2]; exact hp)
  rwa [BV.init_inv.2] at this

theorem reachable_inv (h : List Op) (hp : HistPre h []) (b : BitVector) (hr : run h {} = .ok b) :
    Inv b ∧ abs b = runSpec h [] := by
  obtain ⟨b', h1, h2, h3⟩ := reachable_ok h hp
  rw [hr] at h1
  cases h1
  exact ⟨h2, h3⟩

/-- the same from any vector satisfying the invariant -/
theorem reachable_from (h : List Op) (b : BitVector) (hb : Inv b) (hp : HistPre h (abs b)) :
    ∃ b', run h b = .ok b' ∧ Inv b' ∧ abs b' = runSpec h (abs b) :=
  run_spec h b hb hp

/-! ## 4. observers -/

theorem get_ok (b : BitVector) (hb : Inv b) (i : Nat) : get b i = .ok (abs b)[i]? :=
  BV.get_ok b hb i

theorem getUnchecked_ok (b : BitVector) (hb : Inv b) (i : Nat) (hi : i < b.nBits) :
    getUnchecked b i = .ok ((abs b).getD i false) := by
  rw [BV.getUnchecked_ok hb hi, List.getD_eq_getElem?_getD, abs_getElem?, if_pos hi]; rfl

theorem len_ok (b : BitVector) : len b = (abs b).length := BV.len_ok b

theorem countOnes_ok (b : BitVector) (hb : Inv b) : countOnes b = (abs b).count true :=
  BV.countOnes_ok b hb

theorem countZeros_ok (b : BitVector) (hb : Inv b) : countZeros b = .ok ((abs b).count false) :=
  BV.countZeros_ok b hb

/-- never a fault, for every `i` and `len` (in particular `i = 2^64 - 1`) -/
theorem getBits_ok (b : BitVector) (hb : Inv b) (i len : Nat) :
    getBits b i len = .ok (if 1 ≤ len ∧ len ≤ 64 ∧ i + len ≤ b.nBits
      then some (Spec.ofBits (((abs b).drop i).take len)) else none) :=
  BV.getBits_ok b hb i len

theorem getBitsUnchecked_ok (b : BitVector) (hb : Inv b) (i len : Nat) (h1 : 1 ≤ len)
    (h2 : len ≤ 64) (h3 : i + len ≤ b.nBits) :
    getBitsUnchecked b i len = .ok (Spec.ofBits (((abs b).drop i).take len)) :=
  BV.getBitsUnchecked_ok b hb i len h1 h2 h3

theorem getBits_max_index (b : BitVector) (hb : Inv b) (hn : b.nBits < two64) (len : Nat) :
    getBits b (two64 - 1) len = .ok none := by
  rw [BV.getBits_ok b hb]
  have : ¬ (1 ≤ len ∧ len ≤ 64 ∧ two64 - 1 + len ≤ b.nBits) := by omega
  rw [if_neg this]

/-- `BitVectorMut::get_bits`: the crate's test-suite pins the strict inequality -/
theorem getBitsMut_pinned (b : BitVector) (hb : Inv b) (i len : Nat) :
    getBitsMut b i len = .ok (if 1 ≤ len ∧ len ≤ 64 ∧ i + len < b.nBits
      then some (Spec.ofBits (((abs b).drop i).take len)) else none) :=
  BV.getBitsMut_pinned b hb i len

/-- the last `len` bits cannot be read through the mutable type: `i + len = nBits` -/
theorem getBitsMut_end_witness :
    ∃ b, fromBools [true, false, true] = .ok b ∧ b.nBits = 0 + 3 ∧
      getBitsMut b 0 3 = .ok none ∧ getBits b 0 3 = .ok (some 5) :=
  ⟨{ data := #[5, 0, 0, 0, 0, 0, 0, 0], nBits := 3, nOnes := 2 },
    by decide, by decide, by decide, by decide⟩

theorem getWord_ok (b : BitVector) (hb : Inv b) (w : Nat) (hw : w < 8 * ((b.nBits + 511) / 512)) :
    getWord b w = .ok (Spec.ofBits (((abs b).drop (64 * w)).take 64)) :=
  BV.getWord_ok b hb w hw

theorem getWord_out_of_range (b : BitVector) (hb : Inv b) (w : Nat)
    (hw : ¬ w < 8 * ((b.nBits + 511) / 512)) : getWord b w = .error .assertDoc :=
  BV.getWord_oob b hb w hw

/-! ## 5. iterators -/

/-- the `k`-th `next` returns `(abs b)[k]?`, and `none` forever after the end -/
theorem bitIter_ok (b : BitVector) (hb : Inv b) (n : Nat) :
    BitIter.nexts b n {} =
      .ok ((List.range n).map (fun k => (abs b)[k]?), { i := min n b.nBits }) := by
  have := bitIter_nexts b hb n 0 (Nat.zero_le _)
  rw [Nat.zero_add, ← List.range_eq_range'] at this
  exact this

theorem bitIter_next_ok (b : BitVector) (hb : Inv b) (k : Nat) :
    BitIter.next b { i := k } = .ok ((abs b)[k]?, { i := if k < b.nBits then k + 1 else k }) :=
  bitIter_next b hb k

/-- `len` is the number of remaining bits, `0` once exhausted -/
theorem bitIter_len_ok (b : BitVector) (n : Nat) :
    BitIter.len b { i := min n b.nBits } = .ok (b.nBits - n) := by
  rw [bitIter_len b _ (Nat.min_le_right _ _)]
  congr 1; omega

theorem posIter_ok (bit : Bool) (b : BitVector) (hb : Inv b) (pos : Nat) :
    PosIter.collect bit b (b.nBits + 1) (PosIter.withPos bit b pos) =
      (List.range b.nBits).filter (fun i => decide (pos ≤ i ∧ (abs b)[i]! = bit)) :=
  BV.posIter_ok bit b hb pos

theorem posIter_new_ok (bit : Bool) (b : BitVector) (hb : Inv b) :
    PosIter.collect bit b (b.nBits + 1) PosIter.new =
      (List.range b.nBits).filter (fun i => decide ((abs b)[i]! = bit)) :=
  BV.posIter_new_ok bit b hb

/-- the positions are exactly `Spec.positions` -/
theorem posIter_new_positions (bit : Bool) (b : BitVector) (hb : Inv b) :
    PosIter.collect bit b (b.nBits + 1) PosIter.new = Spec.positions bit (abs b) := by
  rw [BV.posIter_new_ok bit b hb, Spec.positions, abs_length]
  apply List.filter_congr
  intro i hi
  have hi' : i < (abs b).length := by simpa using hi
  rw [getElem!_pos (abs b) i hi', List.getElem?_eq_getElem hi']
  cases (abs b)[i] <;> cases bit <;> rfl

/-- the public constructors `BitVectorBitPositionsIter::{new, with_pos}` accept *any* slice of words and any
    `n_bits`: without the representation invariant the iterator still yields, in increasing order, exactly
    the positions `p` with `pos ≤ p < n_bits` that lie inside the slice and hold the wanted bit -/
theorem posIter_raw_ok (bit : Bool) (b : BitVector) (hw : ∀ j, wordAt b.data j < 2 ^ 64) (pos : Nat) :
    PosIter.collect bit b (b.nBits + 1) (PosIter.withPos bit b pos) =
      (List.range' pos (b.nBits - pos)).filter
        (fun i => decide (i / 64 < b.data.size) && (bitD b.data i == bit)) := by
  obtain ⟨hI, hp⟩ := BV.withPos_PInv bit b hw pos
  rw [BV.collect_spec bit b hw _ _ hI (by omega), hp]
  rfl

theorem posIter_raw_new_ok (bit : Bool) (b : BitVector) (hw : ∀ j, wordAt b.data j < 2 ^ 64) :
    PosIter.collect bit b (b.nBits + 1) PosIter.new =
      (List.range' 0 (b.nBits - 0)).filter
        (fun i => decide (i / 64 < b.data.size) && (bitD b.data i == bit)) := by
  rw [BV.collect_spec bit b hw _ _ (BV.new_PInv bit b.data) (by omega)]
  rfl

/-- once `next` returned `none` it keeps returning `none` (and does not move) -/
theorem posIter_none_stable (bit : Bool) (b : BitVector) (it : PosIter)
    (h : (PosIter.next bit b it).1 = none) :
    PosIter.next bit b (PosIter.next bit b it).2 = (none, (PosIter.next bit b it).2) :=
  BV.posIter_none_stable bit b it h

/-! ## 6. equality -/

theorem eq_iff_abs (s t : BitVector) (hs : Inv s) (ht : Inv t) : s = t ↔ abs s = abs t :=
  BV.eq_iff_abs s t hs ht

/-- the derived `PartialEq` -/
theorem beq_iff_abs (s t : BitVector) (hs : Inv s) (ht : Inv t) :
    (s == t) = true ↔ abs s = abs t := by
  rw [beq_iff_eq]; exact BV.eq_iff_abs s t hs ht

/-! ## examples: the hypotheses are satisfiable on concrete, non-trivial vectors -/

-- a history crossing word boundaries; all preconditions hold (`decide`), every observer and
-- iterator theorem is instantiated on its result
set_option maxRecDepth 20000 in
example :
    let h : List Op := [.push true, .appendBits 5 3, .extendWithZeros 100, .set 2 false,
      .setBits 1 4 9, .extendBools [true, true], .extendPositions [130, 3], .appendBits 0 0,
      .setBits 60 64 (2 ^ 64 - 1)]
    ∃ b, run h {} = .ok b ∧ Inv b ∧ abs b = runSpec h [] ∧
      len b = 131 ∧ get b 130 = .ok (some true) ∧ get b 131 = .ok none ∧
      countOnes b = 69 ∧ countZeros b = .ok 62 ∧
      getBits b 58 8 = .ok (some 252) ∧ getBitsMut b 123 8 = .ok none ∧
      getBits b 123 8 = .ok (some 129) ∧ getWord b 1 = .ok (2 ^ 60 - 1) ∧
      getWord b 8 = .error .assertDoc ∧
      PosIter.collect true b (b.nBits + 1) (PosIter.withPos true b 120) = [120, 121, 122, 123, 130] ∧
      PosIter.collect false b (b.nBits + 1) (PosIter.withPos false b 124) = [124, 125, 126, 127, 128, 129] ∧
      PosIter.collect true b (b.nBits + 1) (PosIter.withPos true b 500) = [] ∧
      BitIter.nexts b 133 {} = .ok ((List.range 133).map (fun k => (runSpec h [])[k]?), { i := 131 }) := by
  intro h
  obtain ⟨b, h1, h2, h3⟩ := reachable_ok h (by decide)
  have hn : b.nBits = 131 := by rw [← abs_length, h3]; decide
  refine ⟨b, h1, h2, h3, ?_, ?_, ?_, ?_, ?_, ?_, ?_, ?_, ?_, ?_, ?_, ?_, ?_, ?_⟩
  · rw [len_ok, h3]; decide
  · rw [get_ok b h2, h3]; decide
  · rw [get_ok b h2, h3]; decide
  · rw [countOnes_ok b h2, h3]; decide
  · rw [countZeros_ok b h2, h3]; decide
  · rw [getBits_ok b h2, hn, h3]; decide
  · rw [getBitsMut_pinned b h2, hn, if_neg (by decide)]
  · rw [getBits_ok b h2, hn, h3]; decide
  · rw [getWord_ok b h2 1 (by rw [hn]; decide), h3]; decide
  · rw [getWord_out_of_range b h2 8 (by rw [hn]; decide)]
  · rw [posIter_ok true b h2, hn, h3]; decide
  · rw [posIter_ok false b h2, hn, h3]; decide
  · rw [posIter_ok true b h2, hn, h3]; decide
  · rw [bitIter_ok b h2, hn, h3]; rfl

-- a history crossing a 512-bit line boundary
set_option maxRecDepth 20000 in
example :
    let h : List Op := [.extendWithZeros 510, .appendBits 7 3, .set 512 false]
    ∃ b, run h {} = .ok b ∧ Inv b ∧ abs b = runSpec h [] ∧
      getBits b 509 4 = .ok (some 6) ∧
      PosIter.collect true b (b.nBits + 1) PosIter.new = Spec.positions true (runSpec h []) := by
  intro h
  obtain ⟨b, h1, h2, h3⟩ := reachable_ok h (by decide)
  have hn : b.nBits = 513 := by rw [← abs_length, h3]; decide
  refine ⟨b, h1, h2, h3, ?_, ?_⟩
  · rw [getBits_ok b h2, hn, h3]; decide
  · rw [posIter_new_positions true b h2, h3]

/-- the constructors give vectors satisfying the invariant -/
example : ∃ b, fromBools [true, false, true, true] = .ok b ∧ Inv b ∧ abs b = [true, false, true, true] :=
  fromBools_ok _ (by decide)

set_option maxRecDepth 20000 in
example : ∃ b, fromPositions [70, 3, 130] = .ok b ∧ Inv b ∧
    Spec.positions true (abs b) = [3, 70, 130] := by
  obtain ⟨b, h1, h2, h3⟩ := fromPositions_ok [70, 3, 130] (by decide)
  exact ⟨b, h1, h2, by rw [h3]; decide⟩

/-- two different histories producing the same bits give equal vectors -/
example (s t : BitVector)
    (hs : run [.extendWithZeros 3, .set 0 true, .set 2 true] {} = .ok s)
    (ht : run [.appendBits 5 3] {} = .ok t) : s = t := by
  obtain ⟨is, as⟩ := reachable_inv _ (by decide) s hs
  obtain ⟨it, at'⟩ := reachable_inv _ (by decide) t ht
  rw [eq_iff_abs s t is it, as, at']; decide

end Qwt.Props.C08
