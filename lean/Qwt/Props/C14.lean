import Qwt.Proofs.Space

/-! C14 — plain trees and rank/select vectors stay within their stated space overhead.

The bounds are stated on the model's `heap` numbers (requested bytes) under the size facts
`RSQSize` / `RSWSize` (lines, superblocks and samples as functions of the length) that the
constructors establish; `space` requests compare `heap` with the live bytes of the real
crate on every generated case.  Allocator rounding is outside the model. -/
namespace Qwt.Props.C14
open Qwt Qwt.Space

/-- one level, block size 256: at most `2n·(1 + 1/8 + 1/100)` bits plus 2600 -/
theorem level_bits_256 (n : Nat) (r : RSQ.RSQVector) (h : RSQSize 256 n r) :
    800 * ((rsq r).heap + (rsq r).self_) ≤ 227 * n + 260000 := Space.level_bits_256 n r h

/-- one level, block size 512: at most `2n·(1 + 1/16 + 1/100)` bits plus 2600 -/
theorem level_bits_512 (n : Nat) (r : RSQ.RSQVector) (h : RSQSize 512 n r) :
    1600 * ((rsq r).heap + (rsq r).self_) ≤ 429 * n + 520000 := Space.level_bits_512 n r h

/-- one level of the binary tree: at most `n·(1 + 3/64)` bits (< 1.05 n) plus 6000 -/
theorem rsw_level_bits (n : Nat) (r : RSW.RSWide) (h : RSWSize n r) :
    512 * ((rsw r).heap + (rsw r).self_) ≤ 67 * n + 384000 := Space.rsw_bits n r h

/-- if every element satisfies `a·(x + c) ≤ K` then `a·(Σx + c·len) ≤ len·K` -/
theorem scaled_sum_le (a c K : Nat) (hs : List Nat) (h : ∀ x ∈ hs, a * (x + c) ≤ K) :
    a * (hs.sum + c * hs.length) ≤ hs.length * K := by
  induction hs with
  | nil => simp
  | cons x xs ih =>
    have hx := h x (by simp)
    have ih' := ih (fun y hy => h y (by simp [hy]))
    have e : a * ((x :: xs).sum + c * (x :: xs).length) = a * (x + c) + a * (xs.sum + c * xs.length) := by
      simp only [List.sum_cons, List.length_cons, Nat.mul_succ, ← Nat.mul_add]
      congr 1; omega
    rw [e, List.length_cons, Nat.succ_mul]
    omega

theorem heaps_256 (n : Nat) (l : List RSQ.RSQVector) (h : ∀ r ∈ l, RSQSize 256 n r) :
    ∀ x ∈ (l.map rsq).map (·.heap), 800 * (x + 144) ≤ 227 * n + 260000 := by
  intro x hx
  simp only [List.map_map, List.mem_map, Function.comp] at hx
  obtain ⟨r, hr, rfl⟩ := hx
  have := Space.level_bits_256 n r (h r hr)
  have hs : (rsq r).self_ = 144 := rfl
  rw [hs] at this
  generalize (rsq r).heap = a at *
  omega

theorem heaps_512 (n : Nat) (l : List RSQ.RSQVector) (h : ∀ r ∈ l, RSQSize 512 n r) :
    ∀ x ∈ (l.map rsq).map (·.heap), 1600 * (x + 144) ≤ 429 * n + 520000 := by
  intro x hx
  simp only [List.map_map, List.mem_map, Function.comp] at hx
  obtain ⟨r, hr, rfl⟩ := hx
  have := Space.level_bits_512 n r (h r hr)
  have hs : (rsq r).self_ = 144 := rfl
  rw [hs] at this
  generalize (rsq r).heap = a at *
  omega

theorem heaps_wt (n : Nat) (l : List RSW.RSWide) (h : ∀ r ∈ l, RSWSize n r) :
    ∀ x ∈ (l.map rsw).map (·.heap), 512 * (x + 88) ≤ 67 * n + 384000 := by
  intro x hx
  simp only [List.map_map, List.mem_map, Function.comp] at hx
  obtain ⟨r, hr, rfl⟩ := hx
  have := Space.rsw_bits n r (h r hr)
  have hs : (rsw r).self_ = 88 := rfl
  rw [hs] at this
  generalize (rsw r).heap = a at *
  omega

/-- quad tree, block size 256, no prefetch support, `L` levels over `n` symbols:
    `heap bits ≤ L·(2.27 n + 2600)`, i.e. `(1 + 0.135)·2nL` plus a per-level constant;
    `heap` counts capacities, so no buffer keeps slack beyond this -/
theorem qwt256_space (n : Nat) (t : QWTree.QWT) (hp : t.pfs = none)
    (h : ∀ r ∈ t.qvs.toList, RSQSize 256 n r) :
    800 * (qwt t).heap ≤ t.qvs.size * (227 * n + 260000) := by
  have := scaled_sum_le 800 144 _ _ (heaps_256 n t.qvs.toList h)
  simp only [List.length_map, Array.length_toList] at this
  simp only [qwt, hp, pfsOpt, foldl_plus_eq, Nat.zero_add, Nat.add_zero]
  generalize (List.map (fun x => x.heap) (List.map rsq t.qvs.toList)).sum = S at *
  generalize t.qvs.size * (227 * n + 260000) = R at *
  omega

theorem qwt512_space (n : Nat) (t : QWTree.QWT) (hp : t.pfs = none)
    (h : ∀ r ∈ t.qvs.toList, RSQSize 512 n r) :
    1600 * (qwt t).heap ≤ t.qvs.size * (429 * n + 520000) := by
  have := scaled_sum_le 1600 144 _ _ (heaps_512 n t.qvs.toList h)
  simp only [List.length_map, Array.length_toList] at this
  simp only [qwt, hp, pfsOpt, foldl_plus_eq, Nat.zero_add, Nat.add_zero]
  generalize (List.map (fun x => x.heap) (List.map rsq t.qvs.toList)).sum = S at *
  generalize t.qvs.size * (429 * n + 520000) = R at *
  omega

/-- binary tree with `L` levels: `heap bits ≤ L·(1.047 n + 6064)` -/
theorem wt_space (n : Nat) (t : BinWT.WT) (hl : t.lens.size = t.bvs.size)
    (h : ∀ r ∈ t.bvs.toList, RSWSize n r) :
    512 * (wt false t).heap ≤ t.bvs.size * (67 * n + 384000) + 4096 * t.bvs.size := by
  have := scaled_sum_le 512 88 _ _ (heaps_wt n t.bvs.toList h)
  simp only [List.length_map, Array.length_toList] at this
  simp only [wt, foldl_plus_eq, Nat.zero_add, hl]
  generalize (List.map (fun x => x.heap) (List.map rsw t.bvs.toList)).sum = S at *
  generalize t.bvs.size * (67 * n + 384000) = R at *
  omega

-- non-vacuity: the size facts hold for the empty vector built by the model
example : RSQSize 256 0 { qv := {}, rs := { superblocks := #[0,0,0,0], selectSamples := #[#[0,0],#[0,0],#[0,0],#[0,0]] }, nOccsSmaller := #[0,0,0,0,0] } :=
  ⟨by decide, by decide, by decide⟩

end Qwt.Props.C14
