import Qwt.Proofs.QVector

/-!
# Property C13

"A quad vector built by pushing / collecting any integers stores exactly the two least
significant bits of each value, in order."

Model under verification: `Qwt.QV` (`Qwt/Model/QVector.lean`, the model of
`src/qvector/mod.rs`).  Everything is stated against

* `QV.abs q : List Nat` — the stored sequence, read directly from the `u128` words
  (`QV.symAt`: symbol `i` = 2·(bit `i%128` of word `i%256/128` of line `i/256`)
  + (same bit of word `2 + i%256/128`)), for `i < position / 2`;
* `QV.Inv q` — the representation invariant: `position` even, exactly `⌈n/256⌉` lines of
  four words (`n = position/2`), every word `< 2^128`, all padding positions `≥ n` hold
  two zero bits.

The only size hypotheses are the ones the model's `add64` (usize overflow = fault) forces:
`position + 2 < 2^64` for a push, `2 * length < 2^64` for a collect, `k + 1 < 2^64` for
the iterator counter.  They are necessary: without them the model faults with `overflow`.

All proofs are in `Qwt/Proofs/QVector.lean`; this file only states the properties and
instantiates each on a concrete value.
-/
namespace Qwt.Props.C13
open Qwt Qwt.QV

/-! ### 1. the empty builder -/

theorem empty_inv : Inv {} ∧ abs {} = [] := QV.empty_inv

example : QV.build {} = ({ data := #[], position := 0 } : QVector) := rfl

/-! ### 2. `push` -/

/-- `push` never faults below the `usize` limit, keeps the invariant and appends exactly
    the two low bits of the pushed byte.  (`hn` is `add64`'s guard.) -/
theorem push_ok (b : QVector) (s : Nat) (h : Inv b) (hn : b.position + 2 < two64) :
    ∃ b', QV.push b s = .ok b' ∧ Inv b' ∧ abs b' = abs b ++ [s % 4] :=
  QV.push_ok b s h hn

example : ∃ b', QV.push {} 254 = .ok b' ∧ Inv b' ∧ abs b' = [2] :=
  push_ok {} 254 empty_inv.1 (by decide)
example : QV.push {} 254 = .ok { data := #[1, 0, 0, 0], position := 2 } := rfl

/-! ### 3. `extend` / `FromIterator` (every push/extend history) -/

/-- `extend` = the fold of `push (asU8 v)`: by induction over the history.  The guard is
    the sharp one (the last `add64` computes `position + 2·length`). -/
theorem extend_ok (b : QVector) (vals : List Int) (h : Inv b)
    (hn : b.position + 2 * vals.length < two64) :
    ∃ q, QV.extend b vals = .ok q ∧ Inv q ∧ q.position = b.position + 2 * vals.length ∧
      abs q = abs b ++ vals.map (fun v => (v % 4).toNat) :=
  QV.extend_ok b vals h hn

/-- collecting any integers (negative ones included: `asU8` is two's-complement
    truncation and `(v % 256).toNat % 4 = (v % 4).toNat`). -/
theorem fromIter_ok (vals : List Int) (hn : 2 * vals.length < two64) :
    ∃ q, QV.fromIter vals = .ok q ∧ Inv q ∧ abs q = vals.map (fun v => (v % 4).toNat) :=
  QV.fromIter_ok vals hn

/-- the same with the (weaker) guard `2·length + 2 < 2^64` -/
theorem fromIter_ok' (vals : List Int) (hn : 2 * vals.length + 2 < two64) :
    ∃ q, QV.fromIter vals = .ok q ∧ Inv q ∧ abs q = vals.map (fun v => (v % 4).toNat) :=
  fromIter_ok vals (by omega)

theorem asU8_mod4 (v : Int) : QV.asU8 v % 4 = (v % 4).toNat := QV.asU8_mod4 v

/-- the vector produced by `build` after any extend history satisfies the invariant
    (`build` is the identity on the two fields) -/
theorem build_ok (b : QVector) (h : Inv b) : Inv (QV.build b) ∧ abs (QV.build b) = abs b :=
  ⟨h, rfl⟩

example : ∃ q, QV.fromIter [5, -1, 2, 7] = .ok q ∧ Inv q ∧ abs q = [1, 3, 2, 3] :=
  fromIter_ok [5, -1, 2, 7] (by decide)
example : QV.fromIter [5, -1, 2, 7] = .ok { data := #[14, 0, 11, 0], position := 8 } := rfl
example : abs { data := #[14, 0, 11, 0], position := 8 } = [1, 3, 2, 3] := by decide
example : ∃ q, QV.extend { data := #[1, 0, 0, 0], position := 2 } [-6, 1024] = .ok q ∧
    abs q = [2, 2, 0] := by
  obtain ⟨b, e, hb, ab⟩ := push_ok {} 254 empty_inv.1 (by decide)
  cases e
  obtain ⟨q, e, -, -, a⟩ := extend_ok _ [-6, 1024] hb (by decide)
  exact ⟨q, e, by rw [a, ab]; rfl⟩

/-! ### 4. `len`, `is_empty` -/

theorem len_ok (q : QVector) (_h : Inv q) : QV.len q = (abs q).length := QV.len_ok q

theorem isEmpty_ok (q : QVector) (h : Inv q) : QV.isEmpty q = true ↔ abs q = [] :=
  QV.isEmpty_ok h

example : QV.len { data := #[14, 0, 11, 0], position := 8 } = 4 := rfl
example : QV.isEmpty { data := #[14, 0, 11, 0], position := 8 } = false := rfl

/-! ### 5. `get`, `get_unchecked` -/

/-- `get` is total: the stored symbol inside, `None` beyond the end, never a fault, with
    and without debug assertions -/
theorem get_ok (dbg : Bool) (q : QVector) (h : Inv q) (i : Nat) :
    QV.get dbg q i = .ok (abs q)[i]? := QV.get_ok dbg h i

theorem getUnchecked_ok (dbg : Bool) (q : QVector) (h : Inv q) (i : Nat)
    (hi : i < (abs q).length) : QV.getUnchecked dbg q i = .ok (abs q)[i] :=
  QV.getUnchecked_ok dbg h hi

/-- every value collected is read back as its two low bits -/
theorem get_fromIter (dbg : Bool) (vals : List Int) (hn : 2 * vals.length < two64) (i : Nat) :
    (do let q ← QV.fromIter vals; QV.get dbg q i) =
      .ok (vals[i]?.map (fun v => (v % 4).toNat)) := by
  obtain ⟨q, e, hq, a⟩ := fromIter_ok vals hn
  rw [e]
  show QV.get dbg q i = _
  rw [get_ok dbg q hq, a, List.getElem?_map]

example : (do let q ← QV.fromIter [5, -1, 2, 7]; QV.get true q 1) = .ok (some 3) := rfl
example : (do let q ← QV.fromIter [5, -1, 2, 7]; QV.get false q 4) = .ok none := rfl
example : (do let q ← QV.fromIter [5, -1, 2, 7]; QV.getUnchecked true q 2) = .ok 2 := rfl
example : (do let q ← QV.fromIter [5, -1, 2, 7]; QV.get true q 3) = .ok (some 3) :=
  get_fromIter true [5, -1, 2, 7] (by decide) 3

-- across a line boundary (258 values: the last one is the second symbol of line 1)
set_option maxRecDepth 4000 in
example : (do let q ← QV.fromIter (List.replicate 257 7 ++ [-2]); QV.get true q 257) =
    .ok (some 2) :=
  get_fromIter true (List.replicate 257 7 ++ [-2]) (by decide) 257

/-! ### 6. iterator -/

/-- the `k`-th call of `next` (the iterator state is the number of calls made so far):
    it yields `(abs q)[k]` and, once past the end, `none` forever.  `hk` is `add64`'s guard
    on the counter. -/
theorem iter_next_ok (dbg : Bool) (q : QVector) (h : Inv q) (k : Nat) (hk : k + 1 < two64) :
    QV.Iter.next dbg q { i := k } = .ok ((abs q)[k]?, { i := k + 1 }) :=
  QV.iter_next_ok dbg h k hk

/-- running the iterator `m` times from the start yields the first `m` entries of
    `abs q` (as options: `none` after the end) -/
def iterRun (dbg : Bool) (q : QVector) : Nat → Iter → M (List (Option Nat) × Iter)
  | 0, it => pure ([], it)
  | m + 1, it => do
    let (v, it) ← QV.Iter.next dbg q it
    let (vs, it) ← iterRun dbg q m it
    pure (v :: vs, it)

theorem iterRun_ok (dbg : Bool) (q : QVector) (h : Inv q) (m k : Nat) (hk : k + m < two64) :
    iterRun dbg q m { i := k } =
      .ok ((List.range m).map (fun j => (abs q)[k + j]?), { i := k + m }) := by
  induction m generalizing k with
  | zero => rfl
  | succ m ih =>
    rw [iterRun, iter_next_ok dbg q h k (by omega)]
    show (do let (vs, it) ← iterRun dbg q m { i := k + 1 }; pure ((abs q)[k]? :: vs, it)) = _
    rw [ih (k + 1) (by omega), List.range_succ_eq_map, List.map_cons, List.map_map]
    show Except.ok _ = Except.ok _
    have e : ((fun j => (abs q)[k + j]?) ∘ Nat.succ) = fun j => (abs q)[k + 1 + j]? := by
      funext j; simp only [Function.comp, Nat.succ_eq_add_one]; congr 1; omega
    rw [e, Nat.add_assoc k 1 m, Nat.add_comm 1 m]
    rfl

example : (do let q ← QV.fromIter [5, -1, 2, 7]; iterRun true q 6 {}) =
    .ok ([some 1, some 3, some 2, some 3, none, none], { i := 6 }) := by
  obtain ⟨q, e, hq, a⟩ := fromIter_ok [5, -1, 2, 7] (by decide)
  rw [e]
  show iterRun true q 6 { i := 0 } = _
  rw [iterRun_ok true q hq 6 0 (by decide), a]
  rfl

/-! ### 7. `DataLine::normalize`, `DataLine::rank_unchecked` (for the rank/select layer) -/

/-- `normalize` on an allocated line and a symbol `< 4` never faults and returns two
    `u128`s that are the characteristic bit vectors of `symbol` in the two half-lines:
    bit `j` of word 0 (word 1) is set iff position `256·line + j` (`+ 128`) holds
    `symbol`; padding positions count as symbol 0 (`getD _ 0`).  Bits `≥ 128` are clear
    because the words are `< 2^128`. -/
theorem normalize_ok (q : QVector) (h : Inv q) (line symbol : Nat) (hs : symbol < 4)
    (hl : line < QV.nLines q) :
    ∃ w0 w1, QV.normalize q.data line symbol = .ok (w0, w1) ∧ w0 < 2 ^ 128 ∧ w1 < 2 ^ 128 ∧
      (∀ j, j < 128 → w0.testBit j = decide ((abs q).getD (256 * line + j) 0 = symbol)) ∧
      (∀ j, j < 128 →
        w1.testBit j = decide ((abs q).getD (256 * line + 128 + j) 0 = symbol)) :=
  QV.normalize_ok h hs hl

/-- rank inside a line, restricted to the stored prefix (`i` may not reach into the
    padding of the last line, where the zero padding would be counted as symbol 0) -/
theorem lineRank_ok (dbg : Bool) (q : QVector) (h : Inv q) (line symbol i : Nat)
    (hs : symbol < 4) (hl : line < QV.nLines q) (hi : i ≤ min 256 (QV.len q - 256 * line)) :
    QV.lineRank dbg q.data line symbol i =
      .ok ((((abs q).drop (256 * line)).take i).count symbol) :=
  QV.lineRank_ok dbg h hs hl hi

/-- rank inside a line for every `i ≤ 256`, over the zero-padded sequence -/
theorem lineRank_padded (dbg : Bool) (q : QVector) (h : Inv q) (line symbol i : Nat)
    (hs : symbol < 4) (hl : line < QV.nLines q) (hi : i ≤ 256) :
    QV.lineRank dbg q.data line symbol i =
      .ok ((List.range i).countP (fun j => (abs q).getD (256 * line + j) 0 == symbol)) :=
  QV.lineRank_padded dbg h hs hl hi

/-- number of lines, for the users of `lineRank_ok` -/
theorem nLines_ok (q : QVector) (h : Inv q) : QV.nLines q = ((abs q).length + 255) / 256 := by
  have := h.size
  rw [QV.length_abs]; unfold QV.nLines; omega

example : (do let q ← QV.fromIter [5, -1, 2, 7]; QV.normalize q.data 0 3) = .ok (10, 0) := rfl
example : (do let q ← QV.fromIter [5, -1, 2, 7]; QV.lineRank true q.data 0 3 4) = .ok 2 := by
  obtain ⟨q, e, hq, a⟩ := fromIter_ok [5, -1, 2, 7] (by decide)
  have hl : 0 < QV.nLines q := by rw [nLines_ok q hq, a]; decide
  have hi : 4 ≤ min 256 (QV.len q - 256 * 0) := by rw [len_ok q hq, a]; decide
  rw [e]
  show QV.lineRank true q.data 0 3 4 = _
  rw [lineRank_ok true q hq 0 3 4 (by decide) hl hi, a]
  rfl
/-- beyond the stored prefix the two padding positions 4, 5 are counted as symbol 0 -/
example : (do let q ← QV.fromIter [5, -1, 2, 7]; QV.lineRank false q.data 0 0 6) = .ok 2 := by
  obtain ⟨q, e, hq, a⟩ := fromIter_ok [5, -1, 2, 7] (by decide)
  have hl : 0 < QV.nLines q := by rw [nLines_ok q hq, a]; decide
  rw [e]
  show QV.lineRank false q.data 0 0 6 = _
  rw [lineRank_padded false q hq 0 0 6 (by decide) hl (by decide), a]
  rfl

end Qwt.Props.C13
