import Qwt.Proofs.BinHWMNew
import Qwt.Proofs.HQWMNew

/-!
# C17 (addendum) — the `_with_codes` stable partitions, called directly

`utils::stable_partition_of_2_with_codes` / `stable_partition_of_4_with_codes` are public functions of their
own (the harness calls them with arbitrary code tables, `u part2c` / `u part4c`).  For **every** table of
`(content, len)` pairs — prefix-free or not —, every shift `≥ 1` (binary) / every even shift `≥ 2` with even
code lengths (quad: the shifts and lengths the quad tree uses) and every input whose elements index the
table, the result is: the elements whose code is longer than the shift, grouped by the digit found at that
shift in increasing order, each group in input order, followed by the elements whose code has ended.
An element outside the table is an index panic in the crate and `Fault.indexPanic` in the model.
-/
namespace Qwt.Props.C17
open Qwt Qwt.Huff

theorem part2_with_codes_ok (codes : Array PrefixCode) (k : Nat) (l : List Nat)
    (hl : ∀ s ∈ l, s < codes.size ∧ s < two64) :
    Huff.partitionWithCodes 2 l.toArray (k + 1) codes =
      .ok ((l.filter (fun x => decide (k + 1 < BinWM.clen codes x) && !BinWM.cbit codes k x)) ++
           (l.filter (fun x => decide (k + 1 < BinWM.clen codes x) && BinWM.cbit codes k x)) ++
           (l.filter (fun x => decide (BinWM.clen codes x ≤ k + 1)))).toArray :=
  BinWM.partitionWithCodes_ok codes k l hl

theorem part4_with_codes_ok (codes : Array PrefixCode) (k : Nat) (l : List Nat)
    (hl : ∀ s ∈ l, s < codes.size ∧ s < two64) (hev : ∀ s : Nat, 2 ∣ codes[s]!.len) :
    Huff.partitionWithCodes 4 l.toArray (2 * (k + 1)) codes =
      .ok ((l.filter (fun x => decide (k + 1 < HQWM.qlen codes x) && (HQWM.qdig codes k x == 0))) ++
           (l.filter (fun x => decide (k + 1 < HQWM.qlen codes x) && (HQWM.qdig codes k x == 1))) ++
           (l.filter (fun x => decide (k + 1 < HQWM.qlen codes x) && (HQWM.qdig codes k x == 2))) ++
           (l.filter (fun x => decide (k + 1 < HQWM.qlen codes x) && (HQWM.qdig codes k x == 3))) ++
           (l.filter (fun x => decide (HQWM.qlen codes x ≤ k + 1)))).toArray :=
  HQWM.partitionWithCodesQ_ok codes k l hl hev

/-- an element that does not index the table faults (index panic), whatever the rest of the input -/
theorem part_with_codes_oob (D : Nat) (codes : Array PrefixCode) (shift a : Nat)
    (ha : codes.size ≤ a) (ha64 : a < two64) :
    Huff.partitionWithCodes D #[a] shift codes = .error Fault.indexPanic := by
  have h1 : Utils.asUsize a = a := by
    unfold Utils.asUsize; exact Nat.mod_eq_of_lt ha64
  have h2 : idx codes (Utils.asUsize a) = .error Fault.indexPanic := by
    unfold idx; rw [h1]; simp [Nat.not_lt.mpr ha]
  show Huff.partitionWithCodes D [a].toArray shift codes = _
  unfold Huff.partitionWithCodes
  simp only [List.foldlM_toArray', List.foldlM_cons, h2]
  rfl

/-! non-vacuity: a concrete table (three codes of 1, 2, 2 bits / 2, 4, 4 bits, one ended code) and inputs -/

private def exCodes2 : Array PrefixCode := #[{ content := 0, len := 1 }, { content := 2, len := 2 }, { content := 3, len := 2 }]
private def exCodes4 : Array PrefixCode := #[{ content := 1, len := 2 }, { content := 9, len := 4 }, { content := 14, len := 4 }]

example : Huff.partitionWithCodes 2 #[2, 0, 1, 2, 0, 1] 1 exCodes2 = .ok #[2, 1, 2, 1, 0, 0] := by rfl
example : Huff.partitionWithCodes 4 #[2, 0, 1, 2, 0, 1] 2 exCodes4 = .ok #[1, 1, 2, 2, 0, 0] := by rfl
example : (∀ s ∈ [2, 0, 1, 2, 0, 1], s < exCodes2.size ∧ s < two64) := by decide
example : (∀ s : Nat, 2 ∣ exCodes4[s]!.len) := by
  intro s
  match s with
  | 0 => decide
  | 1 => decide
  | 2 => decide
  | n + 3 => simp [exCodes4]; exact ⟨0, rfl⟩
example : Huff.partitionWithCodes 4 #[7] 2 exCodes4 = .error Fault.indexPanic :=
  part_with_codes_oob 4 exCodes4 2 7 (by decide) (by decide)

end Qwt.Props.C17
