import Qwt.Proofs.QWT

/-!
# C01 — the quad wavelet matrix (`QWaveletTree`, `src/quadwt/mod.rs`) answers
`get` / `rank` / `select` like the plain sequence

Hypotheses shared by all theorems (`c : Cfg`, `S : List Nat`):

* `hW   : 0 < c.W`                         the element type has at least one bit
* `hS   : ∀ x ∈ S, x < 2 ^ c.W`            the elements fit the element type
* `hlen : S.length < 2 ^ 43`               the documented length limit of `RSQVector`
* `hLaw : LevelLaw c.dbg c.B`              every level constructor yields a representing
                                           rank/select quad vector (discharged by C05/C13)
* `hP   : PfsTotal c`                      only when `c.pfs = true`: the sampling structure of
                                           `PrefetchSupport::new` is total (`PfsTotal c` is
                                           `c.pfs = true → ∀ qv, ∃ p, PFS.new qv _ = .ok p`, so it
                                           is trivially true for `c.pfs = false`)

The answers of `get`/`rank`/`select` never depend on `t.pfs`.
-/
set_option linter.unusedVariables false

namespace Qwt.Props.C01
open Qwt Qwt.QWTree Qwt.Spec Qwt.WM

/-- `PfsTotal` holds vacuously without prefetch support -/
theorem pfsTotal_of_false {c : Cfg} (h : c.pfs = false) : PfsTotal c := by
  intro h'; rw [h] at h'; cases h'

/-! ## 1. construction -/

/-- `QWaveletTree::new` succeeds and establishes the invariant `WM c S t` -/
theorem new_ok (c : Cfg) (S : List Nat) (hW : 0 < c.W) (hS : ∀ x ∈ S, x < 2 ^ c.W)
    (hlen : S.length < 2 ^ 43) (hLaw : LevelLaw c.dbg c.B) (hP : PfsTotal c) :
    ∃ t, QWTree.new c S.toArray = .ok t ∧ t.n = S.length ∧
      (S ≠ [] → t.sigma = Spec.maxNat S ∧
        t.nLevels = (Spec.bitlen (Spec.maxNat S) + 1) / 2) ∧
      WM c S t := by
  obtain ⟨t, ht, hwm⟩ := new_wm c hW S hS hlen hLaw hP
  exact ⟨t, ht, hwm.n_eq, fun hne => ⟨hwm.sigma_eq, hwm.nLevels_eq hne⟩, hwm⟩

/-- without prefetch support no assumption on `PrefetchSupport` is needed and none is built -/
theorem new_ok_nopfs (c : Cfg) (S : List Nat) (hpfs : c.pfs = false) (hW : 0 < c.W)
    (hS : ∀ x ∈ S, x < 2 ^ c.W) (hlen : S.length < 2 ^ 43) (hLaw : LevelLaw c.dbg c.B) :
    ∃ t, QWTree.new c S.toArray = .ok t ∧ t.n = S.length ∧ t.pfs = none ∧
      (S ≠ [] → t.sigma = Spec.maxNat S ∧
        t.nLevels = (Spec.bitlen (Spec.maxNat S) + 1) / 2) ∧
      WM c S t := by
  obtain ⟨t, ht, hwm⟩ := new_wm c hW S hS hlen hLaw (pfsTotal_of_false hpfs)
  exact ⟨t, ht, hwm.n_eq, hwm.pfs_none hpfs, fun hne => ⟨hwm.sigma_eq, hwm.nLevels_eq hne⟩, hwm⟩

/-- the tree built by `new` satisfies the invariant -/
theorem wm_of_new {c : Cfg} {S : List Nat} {t : QWT} (hW : 0 < c.W) (hS : ∀ x ∈ S, x < 2 ^ c.W)
    (hlen : S.length < 2 ^ 43) (hLaw : LevelLaw c.dbg c.B) (hP : PfsTotal c)
    (hnew : QWTree.new c S.toArray = .ok t) : WM c S t := by
  obtain ⟨t', ht', hwm⟩ := new_wm c hW S hS hlen hLaw hP
  rw [hnew] at ht'
  cases ht'
  exact hwm

/-- what the invariant says about the levels: level `k` represents the `k`-th digit list
    `wmLevels L S` of the wavelet matrix (`S_0 = S`, `S_{k+1} = stablePart digit_k 4 S_k`,
    level `k` stores `S_k.map digit_k`, `digit_k x = (x >>> (2 * (L - 1 - k))) % 4`) -/
theorem repLevels_wmLevels {B : Nat} {qvs : Array RSQ.RSQVector} :
    ∀ (f level : Nat) (s : List Nat), RepLevels B qvs level f s →
      ∀ (k : Nat) (D : List Nat), (wmLevels f s)[k]? = some D →
        ∃ r, qvs[level + k]? = some r ∧ RSQ.Represents B r D := by
  intro f
  induction f with
  | zero => intro level s _ k D hD; simp [wmLevels] at hD
  | succ f ih =>
    intro level s h k D hD
    obtain ⟨⟨r, hr, hR⟩, hrest⟩ := h
    cases k with
    | zero =>
      simp only [wmLevels, List.getElem?_cons_zero, Option.some.injEq] at hD
      subst hD
      exact ⟨r, hr, hR⟩
    | succ k =>
      simp only [wmLevels, List.getElem?_cons_succ] at hD
      obtain ⟨r', hr', hR'⟩ := ih (level + 1) _ hrest k D hD
      exact ⟨r', by rw [show level + (k + 1) = level + 1 + k by omega]; exact hr', hR'⟩

theorem wm_levels {c : Cfg} {S : List Nat} {t : QWT} (h : WM c S t) (hne : S ≠ []) (k : Nat)
    (D : List Nat) (hD : (wmLevels t.nLevels S)[k]? = some D) :
    ∃ r, t.qvs[k]? = some r ∧ RSQ.Represents c.B r D := by
  have := repLevels_wmLevels t.nLevels 0 S (h.levels hne) k D hD
  simpa using this

/-! ## 2. get -/

theorem get_ok {c : Cfg} {S : List Nat} {t : QWT} (hW : 0 < c.W) (hS : ∀ x ∈ S, x < 2 ^ c.W)
    (hlen : S.length < 2 ^ 43) (hLaw : LevelLaw c.dbg c.B) (hP : PfsTotal c)
    (hnew : QWTree.new c S.toArray = .ok t) (i : Nat) :
    QWTree.get c t i = .ok S[i]? :=
  (wm_of_new hW hS hlen hLaw hP hnew).get_eq hS i

theorem getUnchecked_ok {c : Cfg} {S : List Nat} {t : QWT} (hW : 0 < c.W)
    (hS : ∀ x ∈ S, x < 2 ^ c.W) (hlen : S.length < 2 ^ 43) (hLaw : LevelLaw c.dbg c.B)
    (hP : PfsTotal c) (hnew : QWTree.new c S.toArray = .ok t) (i : Nat) (hi : i < S.length) :
    QWTree.getUnchecked c t i = .ok S[i] :=
  (wm_of_new hW hS hlen hLaw hP hnew).getUnchecked_eq hS i hi

/-! ## 3. rank -/

theorem rank_ok {c : Cfg} {S : List Nat} {t : QWT} (hW : 0 < c.W) (hS : ∀ x ∈ S, x < 2 ^ c.W)
    (hlen : S.length < 2 ^ 43) (hLaw : LevelLaw c.dbg c.B) (hP : PfsTotal c)
    (hnew : QWTree.new c S.toArray = .ok t) (sym i : Nat) :
    QWTree.rank c t sym i =
      .ok (if S ≠ [] ∧ sym ≤ Spec.maxNat S ∧ i ≤ S.length then some (Spec.rank sym i S)
           else none) :=
  (wm_of_new hW hS hlen hLaw hP hnew).rank_eq hW hS sym i

theorem rankUnchecked_ok {c : Cfg} {S : List Nat} {t : QWT} (hW : 0 < c.W)
    (hS : ∀ x ∈ S, x < 2 ^ c.W) (hlen : S.length < 2 ^ 43) (hLaw : LevelLaw c.dbg c.B)
    (hP : PfsTotal c) (hnew : QWTree.new c S.toArray = .ok t) (sym i : Nat)
    (hne : S ≠ []) (hsym : sym ≤ Spec.maxNat S) (hi : i ≤ S.length) :
    QWTree.rankUnchecked c t sym i = .ok (Spec.rank sym i S) :=
  (wm_of_new hW hS hlen hLaw hP hnew).rankUnchecked_eq hW hS sym i hne hsym hi

/-! ## 4. select -/

/-- for every `k` (in particular every `k < 2 ^ 64`) -/
theorem select_ok {c : Cfg} {S : List Nat} {t : QWT} (hW : 0 < c.W) (hS : ∀ x ∈ S, x < 2 ^ c.W)
    (hlen : S.length < 2 ^ 43) (hLaw : LevelLaw c.dbg c.B) (hP : PfsTotal c)
    (hnew : QWTree.new c S.toArray = .ok t) (sym k : Nat) :
    QWTree.select c t sym k =
      .ok (if S ≠ [] ∧ sym ≤ Spec.maxNat S then Spec.select sym k S else none) :=
  (wm_of_new hW hS hlen hLaw hP hnew).select_eq hW hS hlen sym k

/-- `select_unchecked` = `select(..).unwrap()`: no fault exactly when the occurrence exists -/
theorem selectUnchecked_ok {c : Cfg} {S : List Nat} {t : QWT} (hW : 0 < c.W)
    (hS : ∀ x ∈ S, x < 2 ^ c.W) (hlen : S.length < 2 ^ 43) (hLaw : LevelLaw c.dbg c.B)
    (hP : PfsTotal c) (hnew : QWTree.new c S.toArray = .ok t) (sym k p : Nat)
    (hsel : Spec.select sym k S = some p) :
    QWTree.selectUnchecked c t sym k = .ok p := by
  have hne : S ≠ [] := by intro e; subst e; simp [Spec.select] at hsel
  have hsym : sym ≤ Spec.maxNat S := by
    rw [select_eq_selectP] at hsel
    obtain ⟨⟨x, hx, hpx⟩, _⟩ := selectP_some _ hsel
    have : x = sym := by simpa using hpx
    subst this
    exact le_maxNat (List.mem_of_getElem? hx)
  simp only [selectUnchecked, select_ok hW hS hlen hLaw hP hnew, if_pos (And.intro hne hsym), hsel,
    ok_bind]
  rfl

/-! ## 5. len / sigma / is_empty, and the empty sequence -/

theorem len_ok {c : Cfg} {S : List Nat} {t : QWT} (hW : 0 < c.W) (hS : ∀ x ∈ S, x < 2 ^ c.W)
    (hlen : S.length < 2 ^ 43) (hLaw : LevelLaw c.dbg c.B) (hP : PfsTotal c)
    (hnew : QWTree.new c S.toArray = .ok t) : QWTree.len t = S.length :=
  (wm_of_new hW hS hlen hLaw hP hnew).n_eq

theorem isEmpty_ok {c : Cfg} {S : List Nat} {t : QWT} (hW : 0 < c.W) (hS : ∀ x ∈ S, x < 2 ^ c.W)
    (hlen : S.length < 2 ^ 43) (hLaw : LevelLaw c.dbg c.B) (hP : PfsTotal c)
    (hnew : QWTree.new c S.toArray = .ok t) : QWTree.isEmpty t = S.isEmpty := by
  have h := (wm_of_new hW hS hlen hLaw hP hnew).n_eq
  cases S with
  | nil => simp [QWTree.isEmpty, h]
  | cons a l => simp [QWTree.isEmpty, h]

theorem sigma_ok {c : Cfg} {S : List Nat} {t : QWT} (hW : 0 < c.W) (hS : ∀ x ∈ S, x < 2 ^ c.W)
    (hlen : S.length < 2 ^ 43) (hLaw : LevelLaw c.dbg c.B) (hP : PfsTotal c)
    (hnew : QWTree.new c S.toArray = .ok t) :
    QWTree.sigma? t = if S = [] then none else some (Spec.maxNat S) := by
  have h := wm_of_new hW hS hlen hLaw hP hnew
  cases S with
  | nil => simp [QWTree.sigma?, h.n_eq]
  | cons a l => simp [QWTree.sigma?, h.n_eq, h.sigma_eq]

/-- the empty sequence: construction succeeds and every query answers `None` -/
theorem empty_ok (c : Cfg) (hLaw : LevelLaw c.dbg c.B) :
    ∃ t, QWTree.new c #[] = .ok t ∧ QWTree.len t = 0 ∧ QWTree.isEmpty t = true ∧
      QWTree.sigma? t = none ∧
      (∀ i, QWTree.get c t i = .ok none) ∧
      (∀ sym i, QWTree.rank c t sym i = .ok none) ∧
      (∀ sym i, QWTree.rankPrefetch c t sym i = .ok none) ∧
      (∀ sym k, QWTree.select c t sym k = .ok none) := by
  refine ⟨{ n := 0, nLevels := 0, sigma := 0, qvs := (#[dfltRSQ]), pfs := none }, ?_, rfl, rfl, rfl,
    fun _ => rfl, fun _ _ => rfl, fun _ _ => rfl, fun _ _ => rfl⟩
  simp [QWTree.new, default_ok (levelLaw_B hLaw), bind, Except.bind, pure, Except.pure]

/-! ## 6. rank_prefetch -/

/-- without prefetch support `rank_prefetch` runs only estimation phase 2 (block counters),
    which never faults, and then answers like `rank` -/
theorem rankPrefetch_eq_rank {c : Cfg} {S : List Nat} {t : QWT} (hpfs : c.pfs = false)
    (hW : 0 < c.W) (hS : ∀ x ∈ S, x < 2 ^ c.W) (hlen : S.length < 2 ^ 43)
    (hLaw : LevelLaw c.dbg c.B) (hnew : QWTree.new c S.toArray = .ok t) (sym i : Nat) :
    QWTree.rankPrefetch c t sym i = QWTree.rank c t sym i :=
  (wm_of_new hW hS hlen hLaw (pfsTotal_of_false hpfs) hnew).rankPrefetch_eq_partial hW hS sym i
    (fun h => by rw [hpfs] at h; cases h)

theorem rankPrefetch_ok {c : Cfg} {S : List Nat} {t : QWT} (hpfs : c.pfs = false)
    (hW : 0 < c.W) (hS : ∀ x ∈ S, x < 2 ^ c.W) (hlen : S.length < 2 ^ 43)
    (hLaw : LevelLaw c.dbg c.B) (hnew : QWTree.new c S.toArray = .ok t) (sym i : Nat) :
    QWTree.rankPrefetch c t sym i =
      .ok (if S ≠ [] ∧ sym ≤ Spec.maxNat S ∧ i ≤ S.length then some (Spec.rank sym i S)
           else none) := by
  rw [rankPrefetch_eq_rank hpfs hW hS hlen hLaw hnew]
  exact rank_ok hW hS hlen hLaw (pfsTotal_of_false hpfs) hnew sym i

/-- PARTIAL (with prefetch support): `rank_prefetch` answers like `rank` provided estimation
    phase 1 — the sampled counters of `PrefetchSupport`, outside this property — does not fault
    on in-range arguments.  Phase 2 is proved fault-free here. -/
theorem rankPrefetch_eq_rank_partial {c : Cfg} {S : List Nat} {t : QWT}
    (hW : 0 < c.W) (hS : ∀ x ∈ S, x < 2 ^ c.W) (hlen : S.length < 2 ^ 43)
    (hLaw : LevelLaw c.dbg c.B) (hP : PfsTotal c) (hnew : QWTree.new c S.toArray = .ok t)
    (sym i : Nat)
    (hph1 : c.pfs = true → S ≠ [] → sym ≤ Spec.maxNat S → i ≤ S.length →
      QWTree.pfsPhase1 c t sym i = .ok ()) :
    QWTree.rankPrefetch c t sym i = QWTree.rank c t sym i :=
  (wm_of_new hW hS hlen hLaw hP hnew).rankPrefetch_eq_partial hW hS sym i hph1

/-! ## non-vacuity / sanity examples -/

/-- the hypotheses on the sequence are satisfiable: a 16-bit sequence (8 levels) … -/
example : (∀ x ∈ [5, 300, 7, 0, 300, 65535], x < 2 ^ 16) ∧
    [5, 300, 7, 0, 300, 65535].length < 2 ^ 43 := by decide

/-- … and a 3-level one over `W = 16` -/
example : (∀ x ∈ [5, 33, 7, 0, 33, 63], x < 2 ^ 16) ∧ [5, 33, 7, 0, 33, 63].length < 2 ^ 43 ∧
    Spec.maxNat [5, 33, 7, 0, 33, 63] = 63 := by decide

example : (0 : Nat) < ({ W := 16 } : Cfg).W := by decide

example : (Spec.bitlen (Spec.maxNat [5, 33, 7, 0, 33, 63]) + 1) / 2 = 3 := by decide

/-- the digit lists of the three levels of `[5, 33, 7, 0, 33, 63]` -/
example : wmLevels 3 [5, 33, 7, 0, 33, 63] =
    [[0, 2, 0, 0, 2, 3], [1, 1, 0, 0, 0, 3], [0, 1, 1, 1, 3, 3]] := by decide

/-- the list-level walks compute the specified answers on the example -/
example : rankWM 33 3 [5, 33, 7, 0, 33, 63] 5 0 = Spec.rank 33 5 [5, 33, 7, 0, 33, 63] := by decide
example : getWM 16 3 [5, 33, 7, 0, 33, 63] 0 4 = 33 := by decide
example : selWM 33 3 [5, 33, 7, 0, 33, 63] 0 1 = some 4 := by decide
example : selWM 33 3 [5, 33, 7, 0, 33, 63] 0 2 = none := by decide
example : Spec.select 33 1 [5, 33, 7, 0, 33, 63] = some 4 := by decide

end Qwt.Props.C01
