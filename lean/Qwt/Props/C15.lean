import Qwt.Proofs.Entropy

/-!
# Property C15

"For every sequence of length `n` with zero-order empirical entropy `H0` bits per symbol,
the level data of the Huffman-shaped quad tree holds at most `n·(H0+2)` bits and that of
the Huffman-shaped binary tree at most `n·(H0+1)` bits, and never more level data than the
corresponding plain tree."

This file states the information-theoretic part.  Setting (`Qwt/Proofs/Entropy.lean`):

* the alphabet of symbols that occur is `Fin k`; `f : Fin k → ℕ` are their frequencies
  (hypothesis `∀ i, 0 < f i`), `total f = Σ fᵢ = n` is the length of the sequence;
* `ℓ : Fin k → ℕ` are the code lengths counted in *fragments* (levels of the tree; one
  fragment is `b = 1` bit for the binary tree, `b = 2` bits for the quad tree, code arity
  `D = 2^b`); `cost f ℓ = Σ fᵢ·ℓᵢ` is the number of fragments written to the levels, so the
  level data holds `b · cost f ℓ` bits;
* `H0 f = Σ (fᵢ/n)·log₂(n/fᵢ)` (a real number);
* `Kraft D ℓ`: every `ℓᵢ ≥ 1` and `Σ D^(−ℓᵢ) ≤ 1`;
* `Optimal D f ℓ`: `Kraft D ℓ` and `cost f ℓ ≤ cost f ℓ'` for every `ℓ'` with `Kraft D ℓ'`.

`Optimal` is what the external crate `minimum_redundancy` is *assumed* to deliver (every
Kraft-feasible length vector is realised by a prefix code, and a `D`-ary Huffman code is
optimal among prefix codes).  It is a hypothesis of the theorems below, not proved; the
harness validates it on every case by comparing `Σ fᵢ·lenᵢ` with an independent Huffman
cost.  That the level data of the model is `Σ fᵢ·lenᵢ` fragments belongs to the tree models
(C02/C03), not to this file.

The theorems are stated for `f ℓ : Fin k → ℕ` and `Finset` sums rather than lists
(`Qwt.Entropy.total_get : total f.get = f.sum` links the two readings of `n`).
-/
namespace Qwt.Props.C15
open Qwt.Entropy

variable {k : ℕ}

/-! ### 1. Shannon lengths `max 1 ⌈log_D (n/fᵢ)⌉` are Kraft-feasible -/

/-- `D^(−ℓ'ᵢ) ≤ fᵢ/n` for the Shannon length `ℓ'ᵢ`. -/
theorem shannon_term_le {D : ℕ} (hD : 1 < D) (f : Fin k → ℕ) (i : Fin k) (hfi : 0 < f i) :
    1 / (D : ℝ) ^ shannonLen D f i ≤ (f i : ℝ) / (total f : ℝ) :=
  inv_pow_shannonLen_le hD hfi

/-- The Shannon lengths are Kraft-feasible (any number of symbols, any arity `D ≥ 2`). -/
theorem shannon_feasible {D : ℕ} (hD : 1 < D) (f : Fin k → ℕ) (hf : ∀ i, 0 < f i) :
    Kraft D (shannonLen D f) :=
  Qwt.Entropy.shannon_feasible hD hf

/-- `b·ℓ'ᵢ < log₂(n/fᵢ) + b` when symbol `i` does not fill the whole sequence. -/
theorem shannon_len_lt {b : ℕ} (hb : 1 ≤ b) (f : Fin k → ℕ) (i : Fin k) (hfi : 0 < f i)
    (hlt : f i < total f) :
    (b : ℝ) * (shannonLen (2 ^ b) f i : ℝ)
      < Real.logb 2 ((total f : ℝ) / (f i : ℝ)) + b :=
  mul_shannonLen_lt hb hfi hlt

/-! ### 2. The entropy bounds (at least two symbols: strict) -/

/-- generic fragment width `b ≥ 1`, arity `2^b` -/
theorem level_bits_lt {b : ℕ} (hb : 1 ≤ b) (f ℓ : Fin k → ℕ) (hf : ∀ i, 0 < f i)
    (hopt : Optimal (2 ^ b) f ℓ) (hk : 2 ≤ k) :
    (b : ℝ) * (cost f ℓ : ℝ) < (total f : ℝ) * (H0 f + b) :=
  Qwt.Entropy.level_bits_lt hb hopt hk hf

/-- **Quad tree**: `2·Σ fᵢ ℓᵢ < n·(H0 + 2)`. -/
theorem level_bits_lt_quad (f ℓ : Fin k → ℕ) (hf : ∀ i, 0 < f i) (hopt : Optimal 4 f ℓ)
    (hk : 2 ≤ k) :
    2 * (cost f ℓ : ℝ) < (total f : ℝ) * (H0 f + 2) := by
  have h := Qwt.Entropy.level_bits_lt (b := 2) (by norm_num) (f := f) (ℓ := ℓ)
    (by simpa using hopt) hk hf
  simpa using h

/-- **Binary tree**: `Σ fᵢ ℓᵢ < n·(H0 + 1)`. -/
theorem level_bits_lt_bin (f ℓ : Fin k → ℕ) (hf : ∀ i, 0 < f i) (hopt : Optimal 2 f ℓ)
    (hk : 2 ≤ k) :
    (cost f ℓ : ℝ) < (total f : ℝ) * (H0 f + 1) := by
  have h := Qwt.Entropy.level_bits_lt (b := 1) (le_refl 1) (f := f) (ℓ := ℓ)
    (by simpa using hopt) hk hf
  simpa using h

/-! ### 3. One symbol: equality -/

/-- `H0 = 0` for a one-symbol sequence. -/
theorem H0_one_symbol (f : Fin 1 → ℕ) : H0 f = 0 := H0_one f

/-- One symbol, code `[1]`: the level data is exactly `b·n = n·(H0 + b)` bits. -/
theorem one_symbol_eq (f ℓ : Fin 1 → ℕ) (hℓ : ℓ 0 = 1) (b : ℕ) :
    (b : ℝ) * (cost f ℓ : ℝ) = (total f : ℝ) * (H0 f + b) := by
  have hc : cost f ℓ = total f := by simp [cost, total, hℓ]
  rw [H0_one, hc]; ring

theorem one_symbol (f ℓ : Fin 1 → ℕ) (hℓ : ℓ 0 = 1) (b : ℕ) :
    (b : ℝ) * (cost f ℓ : ℝ) ≤ (total f : ℝ) * (H0 f + b) :=
  (one_symbol_eq f ℓ hℓ b).le

/-- The bound of the property (`≤`, "at most") for every non-empty alphabet: with one
    symbol an optimal code has `ℓ = [1]` and the bound holds with equality, otherwise it is
    strict. -/
theorem level_bits_le {b : ℕ} (hb : 1 ≤ b) (f ℓ : Fin k → ℕ) (hf : ∀ i, 0 < f i)
    (hopt : Optimal (2 ^ b) f ℓ) (hk : 1 ≤ k) :
    (b : ℝ) * (cost f ℓ : ℝ) ≤ (total f : ℝ) * (H0 f + b) := by
  rcases Nat.lt_or_ge k 2 with h1 | h2
  · obtain rfl : k = 1 := by omega
    have hfeas : Kraft (2 ^ b) (fun _ : Fin 1 => 1) :=
      const_feasible (by simpa using Nat.one_le_two_pow) (le_refl 1)
    have hle : cost f ℓ ≤ total f := by simpa [cost_const] using hopt.2 _ hfeas
    have hle' : (cost f ℓ : ℝ) ≤ (total f : ℝ) := by exact_mod_cast hle
    have hb0 : (0 : ℝ) ≤ b := Nat.cast_nonneg _
    rw [H0_one, zero_add, mul_comm (total f : ℝ)]
    exact mul_le_mul_of_nonneg_left hle' hb0
  · exact (level_bits_lt hb f ℓ hf hopt h2).le

theorem level_bits_le_quad (f ℓ : Fin k → ℕ) (hf : ∀ i, 0 < f i) (hopt : Optimal 4 f ℓ)
    (hk : 1 ≤ k) :
    2 * (cost f ℓ : ℝ) ≤ (total f : ℝ) * (H0 f + 2) := by
  have h := level_bits_le (b := 2) (by norm_num) f ℓ hf (by simpa using hopt) hk
  simpa using h

theorem level_bits_le_bin (f ℓ : Fin k → ℕ) (hf : ∀ i, 0 < f i) (hopt : Optimal 2 f ℓ)
    (hk : 1 ≤ k) :
    (cost f ℓ : ℝ) ≤ (total f : ℝ) * (H0 f + 1) := by
  have h := level_bits_le (b := 1) (le_refl 1) f ℓ hf (by simpa using hopt) hk
  simpa using h

/-! ### 4. Never more level data than the plain tree -/

/-- The fixed-length code with `L ≥ 1` fragments is Kraft-feasible when the alphabet has at
    most `D^L` symbols. -/
theorem plain_feasible {D L : ℕ} (hk : k ≤ D ^ L) (hL : 1 ≤ L) :
    Kraft D (fun _ : Fin k => L) :=
  const_feasible hk hL

/-- The plain tree writes every symbol to all `L` levels (`n·L` fragments); an optimal code
    never writes more. -/
theorem le_plain {D L : ℕ} (f ℓ : Fin k → ℕ) (hopt : Optimal D f ℓ) (hk : k ≤ D ^ L)
    (hL : 1 ≤ L) :
    cost f ℓ ≤ total f * L := by
  simpa [cost_const] using hopt.2 _ (const_feasible hk hL)

/-- in bits (`b` bits per fragment) -/
theorem le_plain_bits {D L : ℕ} (b : ℕ) (f ℓ : Fin k → ℕ) (hopt : Optimal D f ℓ)
    (hk : k ≤ D ^ L) (hL : 1 ≤ L) :
    b * cost f ℓ ≤ b * (total f * L) :=
  Nat.mul_le_mul_left b (le_plain f ℓ hopt hk hL)

/-! ### 5. Exact-arithmetic forms of the comparison `bits < n·(H0 + b)` -/

/-- `2^(n·H0) · Π fᵢ^fᵢ = n^n` -/
theorem two_rpow_entropy (f : Fin k → ℕ) (hf : ∀ i, 0 < f i) (hk : 1 ≤ k) :
    (2 : ℝ) ^ ((total f : ℝ) * H0 f) * ∏ i, ((f i : ℝ) ^ f i) = (total f : ℝ) ^ total f :=
  two_rpow_total_mul_H0 hf hk

/-- natural-number form without subtraction: `2^bits · Π fᵢ^fᵢ < 2^(b·n) · n^n` -/
theorem bits_lt_iff (f : Fin k → ℕ) (hf : ∀ i, 0 < f i) (hk : 1 ≤ k) (b bits : ℕ) :
    (bits : ℝ) < (total f : ℝ) * (H0 f + b)
      ↔ 2 ^ bits * ∏ i, f i ^ f i < 2 ^ (b * total f) * total f ^ total f :=
  bits_lt_iff_nat hf hk b bits

/-- real form: `2^(bits − b·n) · Π fᵢ^fᵢ < n^n` -/
theorem bits_lt_iff_real (f : Fin k → ℕ) (hf : ∀ i, 0 < f i) (hk : 1 ≤ k) (b bits : ℕ) :
    (bits : ℝ) < (total f : ℝ) * (H0 f + b)
      ↔ (2 : ℝ) ^ ((bits : ℝ) - (b : ℝ) * (total f : ℝ)) * ∏ i, ((f i : ℝ) ^ (f i : ℝ))
          < (total f : ℝ) ^ (total f : ℝ) :=
  bits_lt_iff_rpow hf hk b bits

/-- integer form, `b·n ≤ bits`: `2^(bits − b·n) · Π fᵢ^fᵢ < n^n` -/
theorem bits_lt_iff_of_ge (f : Fin k → ℕ) (hf : ∀ i, 0 < f i) (hk : 1 ≤ k) (b bits : ℕ)
    (h : b * total f ≤ bits) :
    (bits : ℝ) < (total f : ℝ) * (H0 f + b)
      ↔ 2 ^ (bits - b * total f) * ∏ i, f i ^ f i < total f ^ total f :=
  bits_lt_iff_nat_ge hf hk h

/-- integer form, `bits ≤ b·n`: `Π fᵢ^fᵢ < 2^(b·n − bits) · n^n` -/
theorem bits_lt_iff_of_le (f : Fin k → ℕ) (hf : ∀ i, 0 < f i) (hk : 1 ≤ k) (b bits : ℕ)
    (h : bits ≤ b * total f) :
    (bits : ℝ) < (total f : ℝ) * (H0 f + b)
      ↔ ∏ i, f i ^ f i < 2 ^ (b * total f - bits) * total f ^ total f :=
  bits_lt_iff_nat_le hf hk h

/-- The integer comparison the harness evaluates is implied by optimality (quad). -/
theorem harness_check_quad (f ℓ : Fin k → ℕ) (hf : ∀ i, 0 < f i) (hopt : Optimal 4 f ℓ)
    (hk : 2 ≤ k) :
    2 ^ (2 * cost f ℓ) * ∏ i, f i ^ f i < 2 ^ (2 * total f) * total f ^ total f := by
  rw [← bits_lt_iff f hf (by omega) 2 (2 * cost f ℓ)]
  simpa using level_bits_lt_quad f ℓ hf hopt hk

/-- The integer comparison the harness evaluates is implied by optimality (binary). -/
theorem harness_check_bin (f ℓ : Fin k → ℕ) (hf : ∀ i, 0 < f i) (hopt : Optimal 2 f ℓ)
    (hk : 2 ≤ k) :
    2 ^ cost f ℓ * ∏ i, f i ^ f i < 2 ^ total f * total f ^ total f := by
  have h := (bits_lt_iff f hf (by omega) 1 (cost f ℓ)).1
    (by simpa using level_bits_lt_bin f ℓ hf hopt hk)
  simpa using h

/-! ### Instances -/

section Examples

/-- frequencies of `a a a a b b c d` -/
def fEx : Fin 4 → ℕ := ![4, 2, 1, 1]

example : total fEx = 8 := by decide
example : ∀ i, 0 < fEx i := by decide

/-- binary Huffman lengths `[1,2,3,3]`: Kraft holds with equality -/
example : Kraft 2 ![1, 2, 3, 3] := by
  refine ⟨by decide, ?_⟩
  simp [Fin.sum_univ_four]; norm_num

example : cost fEx ![1, 2, 3, 3] = 14 := by decide

/-- quad lengths `[1,1,1,1]` -/
example : Kraft 4 ![1, 1, 1, 1] := by
  refine ⟨by decide, ?_⟩
  simp [Fin.sum_univ_four]; norm_num

example : cost fEx ![1, 1, 1, 1] = 8 := by decide

/-- the Shannon lengths of `fEx` are feasible for both arities -/
example : Kraft 2 (shannonLen 2 fEx) := shannon_feasible (by norm_num) fEx (by decide)
example : Kraft 4 (shannonLen 4 fEx) := shannon_feasible (by norm_num) fEx (by decide)

/-- binary: 14 bits `< 8·(H0 + 1)`, through the integer form `2^14·2^10 < 2^8·8^8` -/
example : ((14 : ℕ) : ℝ) < (total fEx : ℝ) * (H0 fEx + (1 : ℕ)) := by
  rw [bits_lt_iff fEx (by decide) (by norm_num) 1 14]
  decide

/-- quad: 16 bits `< 8·(H0 + 2)` -/
example : ((16 : ℕ) : ℝ) < (total fEx : ℝ) * (H0 fEx + (2 : ℕ)) := by
  rw [bits_lt_iff fEx (by decide) (by norm_num) 2 16]
  decide

/-- `fEx` is dyadic: `n·H0 = 14` exactly, so 14 bits is *not* below `n·(H0 + 0)` and the
    15th bit is -/
example : ¬ ((14 : ℕ) : ℝ) < (total fEx : ℝ) * (H0 fEx + (0 : ℕ)) := by
  rw [bits_lt_iff fEx (by decide) (by norm_num) 0 14]
  decide

example : ((13 : ℕ) : ℝ) < (total fEx : ℝ) * (H0 fEx + (0 : ℕ)) := by
  rw [bits_lt_iff fEx (by decide) (by norm_num) 0 13]
  decide

/-- plain tree over 4 symbols: `L = 2` binary levels, `8·2 = 16 ≥ 14`; `L = 1` quad level -/
example : Kraft 2 (fun _ : Fin 4 => 2) := plain_feasible (by norm_num) (by norm_num)
example : Kraft 4 (fun _ : Fin 4 => 1) := plain_feasible (by norm_num) (by norm_num)
example (ℓ : Fin 4 → ℕ) (h : Optimal 2 fEx ℓ) : cost fEx ℓ ≤ 16 :=
  le_plain (L := 2) fEx ℓ h (by norm_num) (by norm_num)
example (ℓ : Fin 4 → ℕ) (h : Optimal 2 fEx ℓ) :
    (cost fEx ℓ : ℝ) < (total fEx : ℝ) * (H0 fEx + 1) :=
  level_bits_lt_bin fEx ℓ (by decide) h (by norm_num)
example (ℓ : Fin 4 → ℕ) (h : Optimal 4 fEx ℓ) :
    2 * (cost fEx ℓ : ℝ) < (total fEx : ℝ) * (H0 fEx + 2) :=
  level_bits_lt_quad fEx ℓ (by decide) h (by norm_num)

/-- one symbol occurring 5 times, quad tree: `2·5 = 5·(0 + 2)` -/
example : (2 : ℝ) * (cost ![5] ![1] : ℝ) = (total ![5] : ℝ) * (H0 ![5] + 2) := by
  simpa using one_symbol_eq ![5] ![1] rfl 2

end Examples

end Qwt.Props.C15
