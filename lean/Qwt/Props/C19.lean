import Qwt.Props.C10
import Qwt.Props.C11

/-!
# C19 — all construction paths and copies build the same structure

"For every sequence, building a wavelet tree with `new` on a mutable slice, `From<Vec>`, or
`collect` from an iterator gives values that answer all queries identically (and, for the plain
trees and all non-Huffman structures, compare equal); `Clone` yields an equal value; values built
from different sequences never compare equal.  Building from the same numbers carried in a wider
or narrower integer type gives the same answers."

## What is a theorem and what is a modelling identity

* In the Rust code `From<Vec<T>>` and `FromIterator` collect into a `Vec` and call
  `new(&mut [T])`; the model has ONE function per type (`QWTree.new`, `Huff.new`, `BinWT.new`,
  `RSQ.new` = `RSQ.fromQV ∘ QV.fromIter`, `RSW.new`, `RSN.new`, `DA.new`).  That the three real
  entry points agree is checked by the correspondence harness at run time (it builds through
  all three and compares); here the statement is determinism of the model function (§3) and,
  for `RSQVector`, the definitional identity `new = from ∘ collect` (`rsq_new_eq_from`).
* `Clone` (derived) copies every field: it is the identity on model states.  The bincode
  round trip is the identity by C11 (`roundtrip_*`); §4 composes it with the query theorems.
* The derived `PartialEq` is structural equality of the model state; it is decidable (§3).

What is proved here:

1. **Injectivity** (§1): two sequences that yield the same state are equal — for every tree
   type, `RSQVector`, `RSWide`, `RSNarrow`, `DArray`, and for `QVector` / `BitVector` themselves
   (state = function of the stored sequence: `qv_eq_iff_abs`, `bv_eq_iff_abs`).  Hence values
   built from different sequences never compare equal.
2. **Width irrelevance** (§2): for `W₁ ≤ W₂` and elements below `2^W₁`, the trees built with
   element width `W₁` and `W₂` answer `get` / `rank` / `select` / `rank_prefetch` identically
   for ALL arguments.
3. **Huffman trees built from different orders of the length table** (different `HashMap`
   iteration orders: the only source of non-determinism in the real constructors) answer all
   queries identically (§2b) — they need not compare equal.
4. Determinism and decidable equality (§3), bit-vector construction paths (§5).
-/
set_option linter.unusedVariables false
set_option linter.unusedSectionVars false

namespace Qwt.Props.C19
open Qwt
open Qwt.Props.C02 (LensOK WMValid)

/-! ## 0. `get` on every input, the empty sequence included (Huffman-shaped trees) -/

/-- `HuffQWaveletTree`: `get` is the list lookup for every input sequence (empty or not) -/
theorem hqwt_get_any (c : Cfg) (hB : c.B = 256 ∨ c.B = 512) (hW : c.W ≤ 64) (S : List Nat)
    (hb : ∀ x ∈ S, x < 2 ^ c.W) (hS : S.length < 2 ^ 43) (lens : List (Nat × Nat))
    (hlens : S ≠ [] → LensOK 4 lens) (hsyms : S ≠ [] → ∀ s, s ∈ lens.map (·.1) ↔ s ∈ S)
    {t : Huff.HQWT} (ht : Huff.new c S.toArray lens = .ok t) (i : Nat) :
    Huff.get c t i = .ok S[i]? := by
  by_cases hne : S = []
  · subst hne
    rw [(C02.hqwt_empty c lens ht 0 i).2.2.1]; rfl
  · exact C10.hqwt_get_ok c hB hW S hne hb hS lens (hlens hne) (hsyms hne) ht i

/-- `HWT`: the same -/
theorem hwt_get_any (c : Cfg) (hW : c.W ≤ 64) (S : List Nat)
    (hb : ∀ x ∈ S, x < 2 ^ c.W) (hS : S.length < 2 ^ 43) (lens : List (Nat × Nat))
    (hlens : S ≠ [] → LensOK 2 lens) (hocc : S ≠ [] → ∀ s, s ∈ lens.map (·.1) ↔ s ∈ S)
    {t : BinWT.WT} (ht : BinWT.new c true S.toArray lens = .ok t) (i : Nat) :
    BinWT.get c true t i = .ok S[i]? := by
  by_cases hne : S = []
  · subst hne
    rw [(C03.hwt_empty c lens ht 0 i).2.1]; rfl
  · exact Closed.hwt_get c hW S hne hb hS lens (hlens hne) (hocc hne) ht i

/-! ## 1. injectivity: values built from different sequences never compare equal -/

section qwt
variable {c : Cfg} (hB : c.B = 256 ∨ c.B = 512) (hW : 0 < c.W) {S S' : List Nat}
  (hS : ∀ x ∈ S, x < 2 ^ c.W) (hS' : ∀ x ∈ S', x < 2 ^ c.W)
  (hlen : S.length < 2 ^ 43) (hlen' : S'.length < 2 ^ 43)
include hB hW hS hS' hlen hlen'

/-- two trees that answer `get` identically were built from the same sequence -/
theorem qwt_inj_of_get {t t' : QWTree.QWT} (h : QWTree.new c S.toArray = .ok t)
    (h' : QWTree.new c S'.toArray = .ok t') (hg : ∀ i, QWTree.get c t i = QWTree.get c t' i) :
    S = S' :=
  Cor.list_eq_of_get2 (C09.get_ok hB hW hS hlen h) (C09.get_ok hB hW hS' hlen' h') hg

/-- the same state ⇒ the same sequence -/
theorem qwt_inj {t : QWTree.QWT} (h : QWTree.new c S.toArray = .ok t)
    (h' : QWTree.new c S'.toArray = .ok t) : S = S' :=
  qwt_inj_of_get hB hW hS hS' hlen hlen' h h' (fun _ => rfl)

/-- `PartialEq` on values built by `new`: equal iff the sequences are equal -/
theorem qwt_eq_iff {t t' : QWTree.QWT} (h : QWTree.new c S.toArray = .ok t)
    (h' : QWTree.new c S'.toArray = .ok t') : t = t' ↔ S = S' := by
  constructor
  · intro e; subst e; exact qwt_inj hB hW hS hS' hlen hlen' h h'
  · intro e; subst e; rw [h] at h'; exact Cor.ok_inj h'

theorem qwt_ne {t t' : QWTree.QWT} (h : QWTree.new c S.toArray = .ok t)
    (h' : QWTree.new c S'.toArray = .ok t') (hne : S ≠ S') : (t == t') = false := by
  rw [beq_eq_false_iff_ne]
  exact fun e => hne ((qwt_eq_iff hB hW hS hS' hlen hlen' h h').mp e)

end qwt

section hqwt
variable (c : Cfg) (hB : c.B = 256 ∨ c.B = 512) (hW : c.W ≤ 64) {S S' : List Nat}
  (hb : ∀ x ∈ S, x < 2 ^ c.W) (hb' : ∀ x ∈ S', x < 2 ^ c.W)
  (hS : S.length < 2 ^ 43) (hS' : S'.length < 2 ^ 43) (lens lens' : List (Nat × Nat))
  (hlens : S ≠ [] → LensOK 4 lens) (hsyms : S ≠ [] → ∀ s, s ∈ lens.map (·.1) ↔ s ∈ S)
  (hlens' : S' ≠ [] → LensOK 4 lens') (hsyms' : S' ≠ [] → ∀ s, s ∈ lens'.map (·.1) ↔ s ∈ S')
include hB hW hb hb' hS hS' hlens hsyms hlens' hsyms'

/-- (whatever the two length tables) -/
theorem hqwt_inj_of_get {t t' : Huff.HQWT} (h : Huff.new c S.toArray lens = .ok t)
    (h' : Huff.new c S'.toArray lens' = .ok t') (hg : ∀ i, Huff.get c t i = Huff.get c t' i) :
    S = S' :=
  Cor.list_eq_of_get2 (hqwt_get_any c hB hW S hb hS lens hlens hsyms h)
    (hqwt_get_any c hB hW S' hb' hS' lens' hlens' hsyms' h') hg

theorem hqwt_inj {t : Huff.HQWT} (h : Huff.new c S.toArray lens = .ok t)
    (h' : Huff.new c S'.toArray lens' = .ok t) : S = S' :=
  hqwt_inj_of_get c hB hW hb hb' hS hS' lens lens' hlens hsyms hlens' hsyms' h h' (fun _ => rfl)

theorem hqwt_ne {t t' : Huff.HQWT} (h : Huff.new c S.toArray lens = .ok t)
    (h' : Huff.new c S'.toArray lens' = .ok t') (hne : S ≠ S') : (t == t') = false := by
  rw [beq_eq_false_iff_ne]
  intro e; subst e
  exact hne (hqwt_inj c hB hW hb hb' hS hS' lens lens' hlens hsyms hlens' hsyms' h h')

end hqwt

section wt
variable (c : Cfg) (hW : 0 < c.W) {S S' : List Nat}
  (hb : ∀ x ∈ S, x < 2 ^ c.W) (hb' : ∀ x ∈ S', x < 2 ^ c.W)
  (hS : S.length < 2 ^ 43) (hS' : S'.length < 2 ^ 43)
include hW hb hb' hS hS'

theorem wt_inj_of_get {t t' : BinWT.WT} (h : BinWT.new c false S.toArray [] = .ok t)
    (h' : BinWT.new c false S'.toArray [] = .ok t')
    (hg : ∀ i, BinWT.get c false t i = BinWT.get c false t' i) : S = S' :=
  Cor.list_eq_of_get2 (Closed.wt_get c hW S hb hS h) (Closed.wt_get c hW S' hb' hS' h') hg

theorem wt_inj {t : BinWT.WT} (h : BinWT.new c false S.toArray [] = .ok t)
    (h' : BinWT.new c false S'.toArray [] = .ok t) : S = S' :=
  wt_inj_of_get c hW hb hb' hS hS' h h' (fun _ => rfl)

theorem wt_eq_iff {t t' : BinWT.WT} (h : BinWT.new c false S.toArray [] = .ok t)
    (h' : BinWT.new c false S'.toArray [] = .ok t') : t = t' ↔ S = S' := by
  constructor
  · intro e; subst e; exact wt_inj c hW hb hb' hS hS' h h'
  · intro e; subst e; rw [h] at h'; exact Cor.ok_inj h'

theorem wt_ne {t t' : BinWT.WT} (h : BinWT.new c false S.toArray [] = .ok t)
    (h' : BinWT.new c false S'.toArray [] = .ok t') (hne : S ≠ S') : (t == t') = false := by
  rw [beq_eq_false_iff_ne]
  exact fun e => hne ((wt_eq_iff c hW hb hb' hS hS' h h').mp e)

end wt

section hwt
variable (c : Cfg) (hW : c.W ≤ 64) {S S' : List Nat}
  (hb : ∀ x ∈ S, x < 2 ^ c.W) (hb' : ∀ x ∈ S', x < 2 ^ c.W)
  (hS : S.length < 2 ^ 43) (hS' : S'.length < 2 ^ 43) (lens lens' : List (Nat × Nat))
  (hlens : S ≠ [] → LensOK 2 lens) (hocc : S ≠ [] → ∀ s, s ∈ lens.map (·.1) ↔ s ∈ S)
  (hlens' : S' ≠ [] → LensOK 2 lens') (hocc' : S' ≠ [] → ∀ s, s ∈ lens'.map (·.1) ↔ s ∈ S')
include hW hb hb' hS hS' hlens hocc hlens' hocc'

theorem hwt_inj_of_get {t t' : BinWT.WT} (h : BinWT.new c true S.toArray lens = .ok t)
    (h' : BinWT.new c true S'.toArray lens' = .ok t')
    (hg : ∀ i, BinWT.get c true t i = BinWT.get c true t' i) : S = S' :=
  Cor.list_eq_of_get2 (hwt_get_any c hW S hb hS lens hlens hocc h)
    (hwt_get_any c hW S' hb' hS' lens' hlens' hocc' h') hg

theorem hwt_inj {t : BinWT.WT} (h : BinWT.new c true S.toArray lens = .ok t)
    (h' : BinWT.new c true S'.toArray lens' = .ok t) : S = S' :=
  hwt_inj_of_get c hW hb hb' hS hS' lens lens' hlens hocc hlens' hocc' h h' (fun _ => rfl)

theorem hwt_ne {t t' : BinWT.WT} (h : BinWT.new c true S.toArray lens = .ok t)
    (h' : BinWT.new c true S'.toArray lens' = .ok t') (hne : S ≠ S') : (t == t') = false := by
  rw [beq_eq_false_iff_ne]
  intro e; subst e
  exact hne (hwt_inj c hW hb hb' hS hS' lens lens' hlens hocc hlens' hocc' h h')

end hwt

/-! ### the vectors themselves: the state is a function of the stored sequence -/

/-- `BitVector` / `BitVectorMut` (C08): equal iff the same bits, whatever the histories -/
theorem bv_eq_iff_abs (s t : BV.BitVector) (hs : BV.Inv s) (ht : BV.Inv t) :
    s = t ↔ BV.abs s = BV.abs t := C08.eq_iff_abs s t hs ht

/-- `QVector`: equal iff the same symbols, whatever the push / extend histories -/
theorem qv_eq_iff_abs (s t : QV.QVector) (hs : QV.Inv s) (ht : QV.Inv t) :
    s = t ↔ QV.abs s = QV.abs t := QV.eq_iff_abs s t hs ht

theorem qv_beq_iff_abs (s t : QV.QVector) (hs : QV.Inv s) (ht : QV.Inv t) :
    (s == t) = true ↔ QV.abs s = QV.abs t := by
  rw [beq_iff_eq]; exact QV.eq_iff_abs s t hs ht

/-- two collected quad vectors are equal iff the values agree modulo 4 -/
theorem qv_fromIter_eq_iff (vals vals' : List Int) (hn : 2 * vals.length < two64)
    (hn' : 2 * vals'.length < two64) {q q' : QV.QVector} (h : QV.fromIter vals = .ok q)
    (h' : QV.fromIter vals' = .ok q') :
    q = q' ↔ vals.map (fun v => (v % 4).toNat) = vals'.map (fun v => (v % 4).toNat) := by
  obtain ⟨q1, e1, i1, a1⟩ := C13.fromIter_ok vals hn
  obtain ⟨q2, e2, i2, a2⟩ := C13.fromIter_ok vals' hn'
  rw [h] at e1; cases e1
  rw [h'] at e2; cases e2
  rw [QV.eq_iff_abs q q' i1 i2, a1, a2]

/-! ### `RSQVector` -/

/-- `From<QVector>`: the quad vector is stored, so the same structure ⇒ the same vector
    (the two builds may even differ) -/
theorem rsq_inj {B : Nat} (dbg dbg' : Bool) (hB : B = 256 ∨ B = 512) {qv qv' : QV.QVector}
    (hq : QV.Inv qv) (hq' : QV.Inv qv') (hl : (QV.abs qv).length < 2 ^ 43)
    (hl' : (QV.abs qv').length < 2 ^ 43) {r : RSQ.RSQVector}
    (h : RSQ.fromQV dbg B qv = .ok r) (h' : RSQ.fromQV dbg' B qv' = .ok r) : qv = qv' := by
  have i1 := C10.rsq_fromQV_repInv dbg hB hq hl h
  have i2 := C10.rsq_fromQV_repInv dbg' hB hq' hl' h'
  rw [QV.eq_iff_abs qv qv' hq hq']
  exact Cor.list_eq_of_get (g := RSQ.get false r) (C05.get_ok i1 false) (C05.get_ok i2 false)

theorem rsq_inj_abs {B : Nat} (dbg dbg' : Bool) (hB : B = 256 ∨ B = 512) {qv qv' : QV.QVector}
    (hq : QV.Inv qv) (hq' : QV.Inv qv') (hl : (QV.abs qv).length < 2 ^ 43)
    (hl' : (QV.abs qv').length < 2 ^ 43) {r : RSQ.RSQVector}
    (h : RSQ.fromQV dbg B qv = .ok r) (h' : RSQ.fromQV dbg' B qv' = .ok r) :
    QV.abs qv = QV.abs qv' := by
  rw [rsq_inj dbg dbg' hB hq hq' hl hl' h h']

/-- `new` / `collect`: the same structure ⇒ the same symbols -/
theorem rsq_new_inj {B : Nat} (dbg dbg' : Bool) (hB : B = 256 ∨ B = 512) (vals vals' : List Int)
    (hl : vals.length < 2 ^ 43) (hl' : vals'.length < 2 ^ 43) {r : RSQ.RSQVector}
    (h : RSQ.new dbg B vals = .ok r) (h' : RSQ.new dbg' B vals' = .ok r) :
    vals.map (fun v => (v % 4).toNat) = vals'.map (fun v => (v % 4).toNat) :=
  Cor.list_eq_of_get (g := RSQ.get false r)
    (C05.get_ok (C10.rsq_new_repInv dbg hB vals hl h) false)
    (C05.get_ok (C10.rsq_new_repInv dbg' hB vals' hl' h') false)

/-- the construction paths of `RSQVector`: `new(&[T])` and `collect()` are
    `From<QVector>` after collecting into a `QVector` — by definition of the model -/
theorem rsq_new_eq_from (dbg : Bool) (B : Nat) (vals : List Int) :
    RSQ.new dbg B vals = (QV.fromIter vals >>= fun qv => RSQ.fromQV dbg B qv) := rfl

/-- … hence `new` and `from` of the collected vector give equal values -/
theorem rsq_paths_equal (dbg : Bool) (B : Nat) (vals : List Int) {q : QV.QVector}
    (hq : QV.fromIter vals = .ok q) : RSQ.new dbg B vals = RSQ.fromQV dbg B q := by
  rw [rsq_new_eq_from, hq]; rfl

/-! ### `RSWide`, `RSNarrow`, `DArray`: the bit vector is stored -/

theorem rsw_inj {b b' : BV.BitVector} (hb : BV.Inv b) (hb' : BV.Inv b')
    (hl : (BV.abs b).length < 2 ^ 43) (hl' : (BV.abs b').length < 2 ^ 43) {r : RSW.RSWide}
    (h : RSW.new b = .ok r) (h' : RSW.new b' = .ok r) : b = b' := by
  obtain ⟨r1, e1, g1, _⟩ := C06.rsw_new_inv (C06.holds_of_inv hb) hl
  obtain ⟨r2, e2, g2, _⟩ := C06.rsw_new_inv (C06.holds_of_inv hb') hl'
  rw [h] at e1; cases e1
  rw [h'] at e2; cases e2
  rw [← g1, ← g2]

theorem rsw_inj_abs {b b' : BV.BitVector} (hb : BV.Inv b) (hb' : BV.Inv b')
    (hl : (BV.abs b).length < 2 ^ 43) (hl' : (BV.abs b').length < 2 ^ 43) {r : RSW.RSWide}
    (h : RSW.new b = .ok r) (h' : RSW.new b' = .ok r) : BV.abs b = BV.abs b' := by
  rw [rsw_inj hb hb' hl hl' h h']

theorem rsn_inj {b b' : BV.BitVector} (hb : BV.Inv b) (hb' : BV.Inv b') {r : RSN.RSNarrow}
    (h : RSN.new b = .ok r) (h' : RSN.new b' = .ok r) : b = b' := by
  obtain ⟨r1, e1, g1, _⟩ := C06.rsn_new_inv (C06.holds_of_inv hb)
  obtain ⟨r2, e2, g2, _⟩ := C06.rsn_new_inv (C06.holds_of_inv hb')
  rw [h] at e1; cases e1
  rw [h'] at e2; cases e2
  rw [← g1, ← g2]

theorem rsn_inj_abs {b b' : BV.BitVector} (hb : BV.Inv b) (hb' : BV.Inv b') {r : RSN.RSNarrow}
    (h : RSN.new b = .ok r) (h' : RSN.new b' = .ok r) : BV.abs b = BV.abs b' := by
  rw [rsn_inj hb hb' h h']

/-- (the two `SELECT0_SUPPORT` settings are different Rust types; even across them) -/
theorem da_inj (s0 s0' : Bool) {b b' : BV.BitVector} (h : DA.new s0 b = DA.new s0' b') : b = b' :=
  congrArg DA.DArray.bv h

theorem da_eq_iff (s0 : Bool) (b b' : BV.BitVector) : DA.new s0 b = DA.new s0 b' ↔ b = b' :=
  ⟨da_inj s0 s0, fun e => by rw [e]⟩

/-- composed with C08: on well-formed bit vectors, equal `DArray`s iff equal bit sequences -/
theorem da_eq_iff_abs (s0 : Bool) (b b' : BV.BitVector) (hb : BV.Inv b) (hb' : BV.Inv b') :
    DA.new s0 b = DA.new s0 b' ↔ BV.abs b = BV.abs b' := by
  rw [da_eq_iff, C08.eq_iff_abs b b' hb hb']

theorem rsw_eq_iff_abs {b b' : BV.BitVector} (hb : BV.Inv b) (hb' : BV.Inv b')
    (hl : (BV.abs b).length < 2 ^ 43) (hl' : (BV.abs b').length < 2 ^ 43) {r r' : RSW.RSWide}
    (h : RSW.new b = .ok r) (h' : RSW.new b' = .ok r') : r = r' ↔ BV.abs b = BV.abs b' := by
  constructor
  · intro e; subst e; exact rsw_inj_abs hb hb' hl hl' h h'
  · intro e
    have : b = b' := (C08.eq_iff_abs b b' hb hb').mpr e
    subst this; rw [h] at h'; exact Cor.ok_inj h'

theorem rsn_eq_iff_abs {b b' : BV.BitVector} (hb : BV.Inv b) (hb' : BV.Inv b')
    {r r' : RSN.RSNarrow} (h : RSN.new b = .ok r) (h' : RSN.new b' = .ok r') :
    r = r' ↔ BV.abs b = BV.abs b' := by
  constructor
  · intro e; subst e; exact rsn_inj_abs hb hb' h h'
  · intro e
    have : b = b' := (C08.eq_iff_abs b b' hb hb').mpr e
    subst this; rw [h] at h'; exact Cor.ok_inj h'

/-! ## 2. width irrelevance: the same numbers in a wider or narrower integer type -/

/-- the elements still fit the wider type -/
theorem fits_mono {W₁ W₂ : Nat} (h : W₁ ≤ W₂) {S : List Nat} (hS : ∀ x ∈ S, x < 2 ^ W₁) :
    ∀ x ∈ S, x < 2 ^ W₂ :=
  fun x hx => Nat.lt_of_lt_of_le (hS x hx) (Nat.pow_le_pow_right (by decide) h)

/-- `QWaveletTree<T₁, …>` and `QWaveletTree<T₂, …>` over the same numbers: every query, every
    argument, the same answer (all four aliases; the two trees may even use different block
    sizes, prefetch settings and build profiles) -/
theorem qwt_width (c₁ c₂ : Cfg) (hB₁ : c₁.B = 256 ∨ c₁.B = 512) (hB₂ : c₂.B = 256 ∨ c₂.B = 512)
    (h1 : 0 < c₁.W) (h12 : c₁.W ≤ c₂.W) {S : List Nat} (hS : ∀ x ∈ S, x < 2 ^ c₁.W)
    (hlen : S.length < 2 ^ 43) {t₁ t₂ : QWTree.QWT}
    (ht₁ : QWTree.new c₁ S.toArray = .ok t₁) (ht₂ : QWTree.new c₂ S.toArray = .ok t₂) :
    (∀ i, QWTree.get c₁ t₁ i = QWTree.get c₂ t₂ i) ∧
    (∀ sym i, QWTree.rank c₁ t₁ sym i = QWTree.rank c₂ t₂ sym i) ∧
    (∀ sym k, QWTree.select c₁ t₁ sym k = QWTree.select c₂ t₂ sym k) ∧
    (∀ sym i, QWTree.rankPrefetch c₁ t₁ sym i = QWTree.rankPrefetch c₂ t₂ sym i) := by
  have h2 : 0 < c₂.W := Nat.lt_of_lt_of_le h1 h12
  have hS₂ := fits_mono h12 hS
  refine ⟨fun i => ?_, fun sym i => ?_, fun sym k => ?_, fun sym i => ?_⟩
  · rw [C09.get_ok hB₁ h1 hS hlen ht₁, C09.get_ok hB₂ h2 hS₂ hlen ht₂]
  · rw [C09.rank_ok hB₁ h1 hS hlen ht₁, C09.rank_ok hB₂ h2 hS₂ hlen ht₂]
  · rw [C09.select_ok hB₁ h1 hS hlen ht₁, C09.select_ok hB₂ h2 hS₂ hlen ht₂]
  · rw [C09.rankPrefetch_ok hB₁ h1 hS hlen ht₁, C09.rankPrefetch_ok hB₂ h2 hS₂ hlen ht₂]

/-- the form of the task statement: one configuration, two element widths -/
theorem qwt_width' (c : Cfg) (hB : c.B = 256 ∨ c.B = 512) {W₁ W₂ : Nat} (h1 : 0 < W₁)
    (h12 : W₁ ≤ W₂) {S : List Nat} (hS : ∀ x ∈ S, x < 2 ^ W₁) (hlen : S.length < 2 ^ 43)
    {t₁ t₂ : QWTree.QWT} (ht₁ : QWTree.new { c with W := W₁ } S.toArray = .ok t₁)
    (ht₂ : QWTree.new { c with W := W₂ } S.toArray = .ok t₂) :
    (∀ i, QWTree.get { c with W := W₁ } t₁ i = QWTree.get { c with W := W₂ } t₂ i) ∧
    (∀ sym i, QWTree.rank { c with W := W₁ } t₁ sym i = QWTree.rank { c with W := W₂ } t₂ sym i) ∧
    (∀ sym k,
      QWTree.select { c with W := W₁ } t₁ sym k = QWTree.select { c with W := W₂ } t₂ sym k) ∧
    (∀ sym i, QWTree.rankPrefetch { c with W := W₁ } t₁ sym i =
      QWTree.rankPrefetch { c with W := W₂ } t₂ sym i) :=
  qwt_width { c with W := W₁ } { c with W := W₂ } hB hB h1 h12 hS hlen ht₁ ht₂

/-- `WT` -/
theorem wt_width (c₁ c₂ : Cfg) (h1 : 0 < c₁.W) (h12 : c₁.W ≤ c₂.W) {S : List Nat}
    (hS : ∀ x ∈ S, x < 2 ^ c₁.W) (hlen : S.length < 2 ^ 43) {t₁ t₂ : BinWT.WT}
    (ht₁ : BinWT.new c₁ false S.toArray [] = .ok t₁)
    (ht₂ : BinWT.new c₂ false S.toArray [] = .ok t₂) :
    (∀ i, BinWT.get c₁ false t₁ i = BinWT.get c₂ false t₂ i) ∧
    (∀ sym i, BinWT.rank c₁ false t₁ sym i = BinWT.rank c₂ false t₂ sym i) ∧
    (∀ sym k, BinWT.select c₁ false t₁ sym k = BinWT.select c₂ false t₂ sym k) := by
  have h2 : 0 < c₂.W := Nat.lt_of_lt_of_le h1 h12
  have hS₂ := fits_mono h12 hS
  refine ⟨fun i => ?_, fun sym i => ?_, fun sym k => ?_⟩
  · rw [Closed.wt_get c₁ h1 S hS hlen ht₁, Closed.wt_get c₂ h2 S hS₂ hlen ht₂]
  · rw [Closed.wt_rank c₁ h1 S hS hlen ht₁, Closed.wt_rank c₂ h2 S hS₂ hlen ht₂]
  · rw [Closed.wt_select c₁ h1 S hS hlen ht₁, Closed.wt_select c₂ h2 S hS₂ hlen ht₂]

/-! ### 2b. the Huffman-shaped trees: two widths AND two orders of the length table

`lens₁`, `lens₂` are two admissible length tables for the symbols of `S` — e.g. the same
`HashMap` iterated in two orders, or the tables computed for the two element types. -/

theorem hqwt_width (c₁ c₂ : Cfg) (hB₁ : c₁.B = 256 ∨ c₁.B = 512) (hB₂ : c₂.B = 256 ∨ c₂.B = 512)
    (h12 : c₁.W ≤ c₂.W) (h2 : c₂.W ≤ 64) {S : List Nat} (hne : S ≠ [])
    (hS : ∀ x ∈ S, x < 2 ^ c₁.W) (hlen : S.length < 2 ^ 43) (lens₁ lens₂ : List (Nat × Nat))
    (hl₁ : LensOK 4 lens₁) (hs₁ : ∀ s, s ∈ lens₁.map (·.1) ↔ s ∈ S)
    (hl₂ : LensOK 4 lens₂) (hs₂ : ∀ s, s ∈ lens₂.map (·.1) ↔ s ∈ S) {t₁ t₂ : Huff.HQWT}
    (ht₁ : Huff.new c₁ S.toArray lens₁ = .ok t₁) (ht₂ : Huff.new c₂ S.toArray lens₂ = .ok t₂) :
    (∀ i, Huff.get c₁ t₁ i = Huff.get c₂ t₂ i) ∧
    (∀ sym i, Huff.rank c₁ t₁ sym i = Huff.rank c₂ t₂ sym i) ∧
    (∀ sym k, Huff.select c₁ t₁ sym k = Huff.select c₂ t₂ sym k) ∧
    (∀ sym i, Huff.rankPrefetch c₁ t₁ sym i = Huff.rankPrefetch c₂ t₂ sym i) := by
  have h1 : c₁.W ≤ 64 := Nat.le_trans h12 h2
  have hS₂ := fits_mono h12 hS
  refine ⟨fun i => ?_, fun sym i => ?_, fun sym k => ?_, fun sym i => ?_⟩
  · rw [C10.hqwt_get_ok c₁ hB₁ h1 S hne hS hlen lens₁ hl₁ hs₁ ht₁,
      C10.hqwt_get_ok c₂ hB₂ h2 S hne hS₂ hlen lens₂ hl₂ hs₂ ht₂]
  · rw [C10.hqwt_rank_ok c₁ hB₁ h1 S hne hS hlen lens₁ hl₁ hs₁ ht₁,
      C10.hqwt_rank_ok c₂ hB₂ h2 S hne hS₂ hlen lens₂ hl₂ hs₂ ht₂]
  · rw [C10.hqwt_select_ok c₁ hB₁ h1 S hne hS hlen lens₁ hl₁ hs₁ ht₁,
      C10.hqwt_select_ok c₂ hB₂ h2 S hne hS₂ hlen lens₂ hl₂ hs₂ ht₂]
  · rw [C10.hqwt_rankPrefetch_ok c₁ hB₁ h1 S hne hS hlen lens₁ hl₁ hs₁ ht₁,
      C10.hqwt_rankPrefetch_ok c₂ hB₂ h2 S hne hS₂ hlen lens₂ hl₂ hs₂ ht₂]

/-- the three construction paths of `HuffQWaveletTree` may see different `HashMap` orders:
    same configuration, two orders of the length table, identical answers -/
theorem hqwt_paths_same_answers (c : Cfg) (hB : c.B = 256 ∨ c.B = 512) (hW : c.W ≤ 64)
    {S : List Nat} (hne : S ≠ []) (hS : ∀ x ∈ S, x < 2 ^ c.W) (hlen : S.length < 2 ^ 43)
    (lens₁ lens₂ : List (Nat × Nat))
    (hl₁ : LensOK 4 lens₁) (hs₁ : ∀ s, s ∈ lens₁.map (·.1) ↔ s ∈ S)
    (hl₂ : LensOK 4 lens₂) (hs₂ : ∀ s, s ∈ lens₂.map (·.1) ↔ s ∈ S) {t₁ t₂ : Huff.HQWT}
    (ht₁ : Huff.new c S.toArray lens₁ = .ok t₁) (ht₂ : Huff.new c S.toArray lens₂ = .ok t₂) :
    (∀ i, Huff.get c t₁ i = Huff.get c t₂ i) ∧
    (∀ sym i, Huff.rank c t₁ sym i = Huff.rank c t₂ sym i) ∧
    (∀ sym k, Huff.select c t₁ sym k = Huff.select c t₂ sym k) ∧
    (∀ sym i, Huff.rankPrefetch c t₁ sym i = Huff.rankPrefetch c t₂ sym i) :=
  hqwt_width c c hB hB (Nat.le_refl _) hW hne hS hlen lens₁ lens₂ hl₁ hs₁ hl₂ hs₂ ht₁ ht₂

theorem hwt_width (c₁ c₂ : Cfg) (h12 : c₁.W ≤ c₂.W) (h2 : c₂.W ≤ 64) {S : List Nat}
    (hne : S ≠ []) (hS : ∀ x ∈ S, x < 2 ^ c₁.W) (hlen : S.length < 2 ^ 43)
    (lens₁ lens₂ : List (Nat × Nat))
    (hl₁ : LensOK 2 lens₁) (hs₁ : ∀ s, s ∈ lens₁.map (·.1) ↔ s ∈ S)
    (hl₂ : LensOK 2 lens₂) (hs₂ : ∀ s, s ∈ lens₂.map (·.1) ↔ s ∈ S) {t₁ t₂ : BinWT.WT}
    (ht₁ : BinWT.new c₁ true S.toArray lens₁ = .ok t₁)
    (ht₂ : BinWT.new c₂ true S.toArray lens₂ = .ok t₂) :
    (∀ i, BinWT.get c₁ true t₁ i = BinWT.get c₂ true t₂ i) ∧
    (∀ sym i, BinWT.rank c₁ true t₁ sym i = BinWT.rank c₂ true t₂ sym i) ∧
    (∀ sym k, BinWT.select c₁ true t₁ sym k = BinWT.select c₂ true t₂ sym k) := by
  have h1 : c₁.W ≤ 64 := Nat.le_trans h12 h2
  have hS₂ := fits_mono h12 hS
  refine ⟨fun i => ?_, fun sym i => ?_, fun sym k => ?_⟩
  · rw [Closed.hwt_get c₁ h1 S hne hS hlen lens₁ hl₁ hs₁ ht₁,
      Closed.hwt_get c₂ h2 S hne hS₂ hlen lens₂ hl₂ hs₂ ht₂]
  · rw [Closed.hwt_rank c₁ h1 S hne hS hlen lens₁ hl₁ hs₁ ht₁,
      Closed.hwt_rank c₂ h2 S hne hS₂ hlen lens₂ hl₂ hs₂ ht₂]
  · rw [Closed.hwt_select c₁ h1 S hne hS hlen lens₁ hl₁ hs₁ ht₁,
      Closed.hwt_select c₂ h2 S hne hS₂ hlen lens₂ hl₂ hs₂ ht₂]

theorem hwt_paths_same_answers (c : Cfg) (hW : c.W ≤ 64) {S : List Nat} (hne : S ≠ [])
    (hS : ∀ x ∈ S, x < 2 ^ c.W) (hlen : S.length < 2 ^ 43) (lens₁ lens₂ : List (Nat × Nat))
    (hl₁ : LensOK 2 lens₁) (hs₁ : ∀ s, s ∈ lens₁.map (·.1) ↔ s ∈ S)
    (hl₂ : LensOK 2 lens₂) (hs₂ : ∀ s, s ∈ lens₂.map (·.1) ↔ s ∈ S) {t₁ t₂ : BinWT.WT}
    (ht₁ : BinWT.new c true S.toArray lens₁ = .ok t₁)
    (ht₂ : BinWT.new c true S.toArray lens₂ = .ok t₂) :
    (∀ i, BinWT.get c true t₁ i = BinWT.get c true t₂ i) ∧
    (∀ sym i, BinWT.rank c true t₁ sym i = BinWT.rank c true t₂ sym i) ∧
    (∀ sym k, BinWT.select c true t₁ sym k = BinWT.select c true t₂ sym k) :=
  hwt_width c c (Nat.le_refl _) hW hne hS hlen lens₁ lens₂ hl₁ hs₁ hl₂ hs₂ ht₁ ht₂

/-- the quad vector stores the two low bits of each value: the same numbers collected from a
    wider or narrower (signed or unsigned) integer type give the same `QVector` -/
theorem qv_width (vals vals' : List Int) (hn : 2 * vals.length < two64)
    (hv : vals.map (fun v => (v % 4).toNat) = vals'.map (fun v => (v % 4).toNat))
    {q q' : QV.QVector} (h : QV.fromIter vals = .ok q) (h' : QV.fromIter vals' = .ok q') :
    q = q' := by
  have hlen : vals.length = vals'.length := by
    have := congrArg List.length hv
    simpa using this
  exact (qv_fromIter_eq_iff vals vals' hn (by rw [← hlen]; exact hn) h h').mpr hv

/-! ## 3. determinism, decidable equality -/

/-- the constructors are functions of their arguments: equal inputs, equal values
    (`new`, `From<Vec>`, `FromIterator` are the same model function) -/
theorem qwt_deterministic (c : Cfg) (seq : Array Nat) {t t' : QWTree.QWT}
    (h : QWTree.new c seq = .ok t) (h' : QWTree.new c seq = .ok t') : t = t' := by
  rw [h] at h'; exact Cor.ok_inj h'

theorem hqwt_deterministic (c : Cfg) (seq : Array Nat) (lens : List (Nat × Nat))
    {t t' : Huff.HQWT} (h : Huff.new c seq lens = .ok t) (h' : Huff.new c seq lens = .ok t') :
    t = t' := by
  rw [h] at h'; exact Cor.ok_inj h'

theorem wt_deterministic (c : Cfg) (comp : Bool) (seq : Array Nat) (lens : List (Nat × Nat))
    {t t' : BinWT.WT} (h : BinWT.new c comp seq lens = .ok t)
    (h' : BinWT.new c comp seq lens = .ok t') : t = t' := by
  rw [h] at h'; exact Cor.ok_inj h'

theorem rsq_deterministic (dbg : Bool) (B : Nat) (qv : QV.QVector) {r r' : RSQ.RSQVector}
    (h : RSQ.fromQV dbg B qv = .ok r) (h' : RSQ.fromQV dbg B qv = .ok r') : r = r' := by
  rw [h] at h'; exact Cor.ok_inj h'

theorem rsw_deterministic (b : BV.BitVector) {r r' : RSW.RSWide}
    (h : RSW.new b = .ok r) (h' : RSW.new b = .ok r') : r = r' := by
  rw [h] at h'; exact Cor.ok_inj h'

theorem rsn_deterministic (b : BV.BitVector) {r r' : RSN.RSNarrow}
    (h : RSN.new b = .ok r) (h' : RSN.new b = .ok r') : r = r' := by
  rw [h] at h'; exact Cor.ok_inj h'

/-- the derived `PartialEq` (structural equality of the state) is decidable on every type -/
example : DecidableEq QWTree.QWT := inferInstance
example : DecidableEq Huff.HQWT := inferInstance
example : DecidableEq BinWT.WT := inferInstance
example : DecidableEq RSQ.RSQVector := inferInstance
example : DecidableEq RSW.RSWide := inferInstance
example : DecidableEq RSN.RSNarrow := inferInstance
example : DecidableEq DA.DArray := inferInstance
example : DecidableEq BV.BitVector := inferInstance
example : DecidableEq QV.QVector := inferInstance

/-! ## 4. `Clone` and the serialisation round trip

`Clone` is the identity on states.  The decoded copy of a value is the value (C11), so it
answers every query like the original — composed here with the query theorems for a tree built
by `new`.  `qwtWF` says only what the Rust types guarantee (numbers fit their machine width). -/

open Qwt.Codec in
theorem qwt_decoded_copy {c : Cfg} {S : List Nat} (hB : c.B = 256 ∨ c.B = 512) (hW : 0 < c.W)
    (hS : ∀ x ∈ S, x < 2 ^ c.W) (hlen : S.length < 2 ^ 43) {t : QWTree.QWT}
    (hnew : QWTree.new c S.toArray = .ok t) (wbytes : Nat) (hwf : qwtWF wbytes t) :
    ∃ t', (decode (qwtTy wbytes) (encode (qwtVal wbytes t))).bind (fun p => qwtOfVal p.1) = some t' ∧
      t' = t ∧ (∀ i, QWTree.get c t' i = .ok S[i]?) ∧
      (∀ sym k, QWTree.select c t' sym k =
        .ok (if S ≠ [] ∧ sym ≤ Spec.maxNat S then Spec.select sym k S else none)) :=
  ⟨t, C11.roundtrip_QWT wbytes t hwf, rfl, C09.get_ok hB hW hS hlen hnew,
    C09.select_ok hB hW hS hlen hnew⟩

/-- every bit vector satisfying the C08 invariant is well-formed for the codec, so its decoded
    copy is equal to it (no extra hypothesis) -/
theorem bvWF_of_inv {b : BV.BitVector} (hb : BV.Inv b) (hn : b.nBits < 2 ^ 64) : Codec.bvWF b := by
  have hsz := hb.size
  refine ⟨by omega, by omega, ?_, hn, ?_⟩
  · intro x hx
    obtain ⟨j, hj, rfl⟩ := List.mem_iff_getElem.mp hx
    simp only [Array.length_toList] at hj
    simpa using hb.words j hj
  · rw [hb.ones]
    exact Nat.lt_of_le_of_lt (List.count_le_length) (by rw [BV.abs_length]; exact hn)

open Qwt.Codec in
theorem bv_decoded_copy {b : BV.BitVector} (hb : BV.Inv b) (hn : b.nBits < 2 ^ 64) :
    (decode bvTy (encode (bvVal b))).bind (fun p => bvOfVal p.1) = some b :=
  C11.roundtrip_BitVector b (bvWF_of_inv hb hn)

theorem qvWF_of_inv {q : QV.QVector} (hq : QV.Inv q) (hn : q.position < 2 ^ 64) : Codec.qvWF q := by
  have hsz := hq.size
  refine ⟨by omega, by omega, ?_, hn⟩
  intro x hx
  obtain ⟨j, hj, rfl⟩ := List.mem_iff_getElem.mp hx
  simp only [Array.length_toList] at hj
  have := hq.word j
  rw [QV.wd_of_lt hj] at this
  simpa using this

open Qwt.Codec in
theorem qv_decoded_copy {q : QV.QVector} (hq : QV.Inv q) (hn : q.position < 2 ^ 64) :
    (decode qvTy (encode (qvVal q))).bind (fun p => qvOfVal p.1) = some q :=
  C11.roundtrip_QVector q (qvWF_of_inv hq hn)

/-! ## 5. construction paths of bit vectors (bool-based, position-based, any history) -/

/-- any two histories of mutator calls that describe the same bit sequence build equal
    vectors -/
theorem bv_paths (h₁ h₂ : List BV.Op) (hp₁ : BV.HistPre h₁ []) (hp₂ : BV.HistPre h₂ [])
    {b₁ b₂ : BV.BitVector} (r₁ : BV.run h₁ {} = .ok b₁) (r₂ : BV.run h₂ {} = .ok b₂) :
    b₁ = b₂ ↔ BV.runSpec h₁ [] = BV.runSpec h₂ [] := by
  obtain ⟨i₁, a₁⟩ := C08.reachable_inv h₁ hp₁ b₁ r₁
  obtain ⟨i₂, a₂⟩ := C08.reachable_inv h₂ hp₂ b₂ r₂
  rw [C08.eq_iff_abs b₁ b₂ i₁ i₂, a₁, a₂]

/-- `FromIterator<bool>` and `FromIterator<usize>`: equal as soon as the positions describe the
    bits (`specSetPos` pads with zeros up to the position and sets it) -/
theorem bv_bools_positions (bs : List Bool) (ps : List Nat) (hn : bs.length < two64)
    (hps : ∀ p ∈ ps, p + 512 < two64) (hsame : ps.foldl BV.specSetPos [] = bs)
    {b₁ b₂ : BV.BitVector} (h₁ : BV.fromBools bs = .ok b₁) (h₂ : BV.fromPositions ps = .ok b₂) :
    b₁ = b₂ := by
  obtain ⟨b1, e1, i1, a1⟩ := C08.fromBools_ok bs hn
  obtain ⟨b2, e2, i2, a2⟩ := C08.fromPositions_ok ps hps
  rw [h₁] at e1; cases e1
  rw [h₂] at e2; cases e2
  rw [C08.eq_iff_abs b₁ b₂ i1 i2, a1, a2, hsame]

/-- … and different bit sequences never give equal vectors -/
theorem bv_fromBools_inj (bs bs' : List Bool) (hn : bs.length < two64) (hn' : bs'.length < two64)
    {b : BV.BitVector} (h : BV.fromBools bs = .ok b) (h' : BV.fromBools bs' = .ok b) : bs = bs' := by
  obtain ⟨b1, e1, _, a1⟩ := C08.fromBools_ok bs hn
  obtain ⟨b2, e2, _, a2⟩ := C08.fromBools_ok bs' hn'
  rw [h] at e1; cases e1
  rw [h'] at e2; cases e2
  rw [← a1, ← a2]

/-! ## non-vacuity -/

section examples

/-- two different sequences, same configuration: the trees differ (through the theorem) -/
example (t t' : QWTree.QWT) (h : QWTree.new { W := 8 } [1, 0, 1, 0, 2, 4, 5, 3].toArray = .ok t)
    (h' : QWTree.new { W := 8 } [1, 0, 1, 0, 2, 4, 5, 2].toArray = .ok t') : (t == t') = false :=
  qwt_ne (Or.inl rfl) (by decide) (by decide) (by decide) (by decide) (by decide) h h' (by decide)

/-- … and by evaluation -/
example : (do let t ← QWTree.new { W := 8 } #[1, 0, 1, 0, 2, 4, 5, 3]
              let t' ← QWTree.new { W := 8 } #[1, 0, 1, 0, 2, 4, 5, 2]
              pure (t == t')) = .ok false := by decide +kernel

/-- `u8` versus `u64` (and 256- versus 512-symbol blocks, prefetch on/off): same answers -/
example (t₁ t₂ : QWTree.QWT) (h₁ : QWTree.new { W := 8 } [1, 0, 1, 0, 2, 4, 5, 3].toArray = .ok t₁)
    (h₂ : QWTree.new { B := 512, pfs := true, W := 64 } [1, 0, 1, 0, 2, 4, 5, 3].toArray = .ok t₂)
    (sym k : Nat) :
    QWTree.select { W := 8 } t₁ sym k = QWTree.select { B := 512, pfs := true, W := 64 } t₂ sym k :=
  (qwt_width { W := 8 } { B := 512, pfs := true, W := 64 } (Or.inl rfl) (Or.inr rfl) (by decide)
    (by decide) (by decide) (by decide) h₁ h₂).2.2.1 sym k

/-- in the model the two trees are even the same state (evaluation; `u8` vs `u128`) -/
example : (do let t₁ ← QWTree.new { W := 8 } #[1, 0, 1, 0, 2, 4, 5, 3]
              let t₂ ← QWTree.new { W := 128 } #[1, 0, 1, 0, 2, 4, 5, 3]
              pure (t₁ == t₂)) = .ok true := by decide +kernel

/-- two orders of the length table (two `HashMap` iteration orders): the Huffman trees answer
    identically — and here they are different states -/
theorem exLensOK_rev : LensOK 4 C02.exLens.reverse :=
  ⟨by decide, by decide, by decide, by decide, by decide⟩

theorem exSyms_rev : ∀ s, s ∈ C02.exLens.reverse.map (·.1) ↔ s ∈ C02.exS := by
  intro s
  rw [← C02.exSyms s]
  simp only [List.map_reverse, List.mem_reverse]

example (t₁ t₂ : Huff.HQWT) (h₁ : Huff.new C02.exC C02.exS.toArray C02.exLens = .ok t₁)
    (h₂ : Huff.new C02.exC C02.exS.toArray C02.exLens.reverse = .ok t₂) (sym i : Nat) :
    Huff.rank C02.exC t₁ sym i = Huff.rank C02.exC t₂ sym i :=
  (hqwt_paths_same_answers C02.exC (Or.inl rfl) (by decide) (by decide) (by decide) (by decide)
    C02.exLens C02.exLens.reverse C02.exLensOK C02.exSyms exLensOK_rev exSyms_rev h₁ h₂).2.1 sym i

example : (do let t₁ ← Huff.new C02.exC C02.exS.toArray C02.exLens
              let t₂ ← Huff.new C02.exC C02.exS.toArray C02.exLens.reverse
              pure (t₁ == t₂)) = .ok false := by decide +kernel

/-- quad vectors: `[5, -1, 2, 7]` as `i8` and `[1, 255, 2, 3]` as `u8` are the same vector -/
example (q q' : QV.QVector) (h : QV.fromIter [5, -1, 2, 7] = .ok q)
    (h' : QV.fromIter [1, 255, 2, 3] = .ok q') : q = q' :=
  qv_width _ _ (by decide) (by decide) h h'

/-- bool- and position-based bit-vector constructors -/
example (b₁ b₂ : BV.BitVector) (h₁ : BV.fromBools [false, true, false, true] = .ok b₁)
    (h₂ : BV.fromPositions [3, 1] = .ok b₂) : b₁ = b₂ :=
  bv_bools_positions _ _ (by decide) (by decide) (by decide) h₁ h₂

example : (do let b₁ ← BV.fromBools [false, true, false, true]
              let b₂ ← BV.fromPositions [3, 1]
              pure (b₁ == b₂)) = .ok true := by decide +kernel

/-- `RSWide` over different bit vectors differ -/
example : (do let b ← BV.fromBools [true, false]; let b' ← BV.fromBools [true, true]
              let r ← RSW.new b; let r' ← RSW.new b'
              pure (r == r')) = .ok false := by decide +kernel

end examples

end Qwt.Props.C19
