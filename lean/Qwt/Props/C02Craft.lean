import Qwt.Proofs.CraftDefs

/-!
C02 — correctness of `craft_wm_codes` (`Qwt.Huff.craftWmCodes`), the prefix-code construction
of the Huffman-shaped wavelet matrices.  Definitions (`digits`, `revLex`, `WMValid`,
`LensOK`) are in `Qwt/Proofs/CraftDefs.lean`.
-/
namespace Qwt.Props.C02
open Qwt Qwt.Huff

deriving instance DecidableEq for Except

/-! ### 4. negative results, as evaluated witnesses -/

/-- binary, lengths `1,2,…,33,33` (a caterpillar of depth 33): `1 << 32` on `u32` -/
theorem craft_overflow_witness :
    craftWmCodes 2 (((List.range 33).map fun i => (i, i + 1)) ++ [(33, 33)]) 33
      = .error .overflow := by decide +kernel

theorem ok_of_toBool {α} {x : M α} (h : x.toBool = true) : ∃ a, x = .ok a := by
  cases x with
  | ok a => exact ⟨a, rfl⟩
  | error e => simp [Except.toBool] at h

/-- the same profile one level shallower (depth 32) is still fine -/
theorem craft_depth32_ok :
    ∃ codes, craftWmCodes 2 (((List.range 32).map fun i => (i, i + 1)) ++ [(32, 32)]) 32
      = .ok codes := ok_of_toBool (by decide +kernel)

/-- quad, the 52-symbol caterpillar of depth 17 (three leaves per level, four at the bottom):
    the confirmed `HQWT` defect (code longer than 32 bits) -/
theorem craft_overflow_witness_quad :
    craftWmCodes 4 (((List.range 48).map fun i => (i, i / 3 + 1)) ++
        [(48, 17), (49, 17), (50, 17), (51, 17)]) 51 = .error .overflow := by decide +kernel

/-- the repaired binary routine (`slots = alph + 1`) on a one-symbol alphabet -/
theorem craft_binary_one_symbol :
    craftWmCodes 2 [(5, 1)] 5 = .ok #[{}, {}, {}, {}, {}, ⟨1, 1⟩] := by decide

/-- `craftWmCodes` with the scratch-array size as a parameter (the original binary routine
    allocates `alph` slots) -/
def craftWmCodesSlots (D : Nat) (lens : List (Nat × Nat)) (sigma slots : Nat) :
    M (Array PrefixCode) := do
  let alph := lens.length
  let bitsPer := if D == 4 then 2 else 1
  let f := sortByKey (fun x => x.2) (lens.map (fun x => (x.1, x.2 * bitsPer)))
  let init : CraftSt := { c := Array.replicate slots 0, assignments := Array.replicate (sigma + 1) {} }
  let st ← (List.range alph).foldlM (fun (st : CraftSt) j => do
      let (sym, tlen) := f.getD j (0, 0)
      let st ← grow D j tlen (tlen + 1) st
      let cj ← idx st.c j
      let rev ← reverseCode D cj st.l
      if sym ≥ st.assignments.size then throw Fault.indexPanic
      pure { st with assignments := st.assignments.set! sym { content := rev, len := st.l } }) init
  return st.assignments

theorem craftWmCodesSlots_eq (D : Nat) (lens : List (Nat × Nat)) (sigma : Nat) :
    craftWmCodesSlots D lens sigma (if D == 4 then lens.length * 4 else lens.length + 1)
      = craftWmCodes D lens sigma := rfl

/-- the defect that was repaired: with `alph` slots the one-symbol alphabet is an index panic -/
theorem craft_binary_one_symbol_unrepaired :
    craftWmCodesSlots 2 [(5, 1)] 5 1 = .error .indexPanic := by decide

/-! ### non-vacuity -/

/-- an incomplete quad tree (alphabet size 6 ≢ 1 mod 3): lengths 1,1,1,2,2,2 -/
example : LensOK 4 [(0,1),(1,2),(2,1),(3,2),(4,2),(5,1)] :=
  ⟨by decide, by decide, by decide, by decide, by decide⟩

example : craftWmCodes 4 [(0,1),(1,2),(2,1),(3,2),(4,2),(5,1)] 5
    = .ok #[⟨3,2⟩, ⟨3,4⟩, ⟨2,2⟩, ⟨2,4⟩, ⟨1,4⟩, ⟨1,2⟩] := by decide

/-- lengths 1,1,2,2,2,2 are NOT near-complete (Kraft deficit 4 > 3: not a quad Huffman
    profile), the routine nevertheless succeeds; such inputs are covered by the slack
    versions of the theorems below (`LensAdm`) -/
example : ¬ LensOK 4 [(0,1),(1,1),(2,2),(3,2),(4,2),(5,2)] := fun h => absurd h.near (by decide)

example : craftWmCodes 4 [(0,1),(1,1),(2,2),(3,2),(4,2),(5,2)] 5
    = .ok #[⟨3,2⟩, ⟨2,2⟩, ⟨7,4⟩, ⟨3,4⟩, ⟨6,4⟩, ⟨2,4⟩] := by decide

example : craftWmCodes 4 [(0,1),(1,1),(2,2),(3,2)] 3
    = .ok #[⟨3,2⟩, ⟨2,2⟩, ⟨7,4⟩, ⟨3,4⟩] := by decide

/-- five symbols (5 ≢ 1 mod 3) -/
example : LensOK 4 [(0,1),(1,1),(2,2),(3,2),(4,1)] :=
  ⟨by decide, by decide, by decide, by decide, by decide⟩

example : LensOK 2 [(7,2),(1,1),(4,2)] :=
  ⟨by decide, by decide, by decide, by decide, by decide⟩

end Qwt.Props.C02
