import Qwt.Proofs.CraftMain
import Qwt.Proofs.CraftDecode

/-!
C02 — correctness of `craft_wm_codes` (`Qwt.Huff.craftWmCodes`), the prefix-code construction
of the Huffman-shaped wavelet matrices.  Definitions (`digits`, `revLex`, `WMValid`,
`LensOK`) are in `Qwt/Proofs/CraftDefs.lean`, `LensAdm` in `Qwt/Proofs/CraftMain.lean`; the
loop invariant (`Inv`: free nodes strictly decreasing / accounting) in `Qwt/Proofs/CraftInv.lean`.

The theorems quantify over EVERY input list `lens` (every `HashMap` iteration order, hence
every tie order of the stable sort).  `D = 4` is the quad routine (`huffqwt.rs`), `D = 2` the
binary one (`binwt/mod.rs`).
-/
namespace Qwt.Props.C02
open Qwt Qwt.Huff Qwt.Proofs.Craft

deriving instance DecidableEq for Except

/-! ### 4. negative results, as evaluated witnesses -/

/-- binary, lengths `1,2,…,33,33` (a caterpillar of depth 33): `1 << 32` on `u32` -/
theorem craft_overflow_witness :
    craftWmCodes 2 (((List.range 33).map fun i => (i, i + 1)) ++ [(33, 33)]) 33
      = .error .overflow := by decide +kernel

theorem ok_of_toBool {α} {x : M α} (h : x.toBool = true) : ∃ a, x = .ok a := by
  cases x with
  | ok a => exact ⟨a, rfl⟩
  | error e => simp [Except.toBool] at h

/-- the same profile one level shallower (depth 32) is still fine -/
theorem craft_depth32_ok :
    ∃ codes, craftWmCodes 2 (((List.range 32).map fun i => (i, i + 1)) ++ [(32, 32)]) 32
      = .ok codes := ok_of_toBool (by decide +kernel)

/-- quad, the 52-symbol caterpillar of depth 17 (three leaves per level, four at the bottom):
    the confirmed `HQWT` defect (code longer than 32 bits) -/
theorem craft_overflow_witness_quad :
    craftWmCodes 4 (((List.range 48).map fun i => (i, i / 3 + 1)) ++
        [(48, 17), (49, 17), (50, 17), (51, 17)]) 51 = .error .overflow := by decide +kernel

/-- the repaired binary routine (`slots = alph + 1`) on a one-symbol alphabet -/
theorem craft_binary_one_symbol :
    craftWmCodes 2 [(5, 1)] 5 = .ok #[{}, {}, {}, {}, {}, ⟨1, 1⟩] := by decide

/-- `craftWmCodes` with the scratch-array size as a parameter (the original binary routine
    allocates `alph` slots) -/
def craftWmCodesSlots (D : Nat) (lens : List (Nat × Nat)) (sigma slots : Nat) :
    M (Array PrefixCode) := do
  let alph := lens.length
  let bitsPer := if D == 4 then 2 else 1
  let f := sortByKey (fun x => x.2) (lens.map (fun x => (x.1, x.2 * bitsPer)))
  let init : CraftSt := { c := Array.replicate slots 0, assignments := Array.replicate (sigma + 1) {} }
  let st ← (List.range alph).foldlM (fun (st : CraftSt) j => do
      let (sym, tlen) := f.getD j (0, 0)
      let st ← grow D j tlen (tlen + 1) st
      let cj ← idx st.c j
      let rev ← reverseCode D cj st.l
      if sym ≥ st.assignments.size then throw Fault.indexPanic
      pure { st with assignments := st.assignments.set! sym { content := rev, len := st.l } }) init
  return st.assignments

theorem craftWmCodesSlots_eq (D : Nat) (lens : List (Nat × Nat)) (sigma : Nat) :
    craftWmCodesSlots D lens sigma (if D == 4 then lens.length * 4 else lens.length + 1)
      = craftWmCodes D lens sigma := rfl

/-- the defect that was repaired: with `alph` slots the one-symbol alphabet is an index panic -/
theorem craft_binary_one_symbol_unrepaired :
    craftWmCodesSlots 2 [(5, 1)] 5 1 = .error .indexPanic := by decide


/-! ### 1–3 (general form, explicit Kraft slack) -/

/-- index of a given input pair in the sorted list -/
theorem sorted_index {D : Nat} {lens : List (Nat × Nat)} {sigma slack : Nat} {p : Nat × Nat}
    (hp : p ∈ lens) : ∃ i, i < (mkCtx D lens sigma slack).f.length ∧
      (mkCtx D lens sigma slack).sy i = p.1 ∧ (mkCtx D lens sigma slack).tl i = p.2 * bitsOf D := by
  have : (p.1, p.2 * bitsOf D) ∈ sortedLens D lens := mem_sortedLens.mpr ⟨p, hp, rfl⟩
  obtain ⟨i, hi, he⟩ := List.mem_iff_getElem.mp this
  refine ⟨i, hi, ?_, ?_⟩
  · show ((sortedLens D lens).getD i (0, 0)).1 = _
    rw [getD_eq_getElem' _ hi, he]
  · show ((sortedLens D lens).getD i (0, 0)).2 = _
    rw [getD_eq_getElem' _ hi, he]

theorem occ_iff {D : Nat} {lens : List (Nat × Nat)} {sigma slack : Nat} (s : Nat) :
    s ∈ lens.map (·.1) ↔ ∃ i, i < (mkCtx D lens sigma slack).f.length ∧
      (mkCtx D lens sigma slack).sy i = s := by
  constructor
  · intro hs
    obtain ⟨p, hp, rfl⟩ := List.mem_map.mp hs
    obtain ⟨i, hi, h1, _⟩ := sorted_index (D := D) (sigma := sigma) (slack := slack) hp
    exact ⟨i, hi, h1⟩
  · rintro ⟨i, hi, rfl⟩
    have hi : i < (sortedLens D lens).length := hi
    obtain ⟨x, hx, he⟩ := mem_sortedLens.mp (List.getElem_mem hi)
    show ((sortedLens D lens).getD i (0, 0)).1 ∈ _
    rw [getD_eq_getElem' _ hi, he]
    exact List.mem_map.mpr ⟨x, hx, rfl⟩

/-! ### general versions (explicit Kraft slack) -/

theorem craft_no_fault_adm {D : Nat} (hD : D = 4 ∨ D = 2) {lens : List (Nat × Nat)} {sigma slack : Nat}
    (h : LensAdm D lens slack) (hs : ∀ p ∈ lens, p.1 ≤ sigma) :
    ∃ codes, craftWmCodes D lens sigma = .ok codes := by
  obtain ⟨codes, _, h1, _⟩ := craft_core hD h hs
  exact ⟨codes, h1⟩

theorem craft_lens_adm {D : Nat} (hD : D = 4 ∨ D = 2) {lens : List (Nat × Nat)} {sigma slack : Nat}
    (h : LensAdm D lens slack) (hs : ∀ p ∈ lens, p.1 ≤ sigma) {codes : Array PrefixCode}
    (hc : craftWmCodes D lens sigma = .ok codes) :
    codes.size = sigma + 1 ∧ (∀ p ∈ lens, codes[p.1]!.len = bitsOf D * p.2) ∧
    (∀ s : Nat, s ∉ lens.map (·.1) → codes[s]! = {}) := by
  obtain ⟨codes', v, h1, h2⟩ := craft_core hD h hs
  rw [hc] at h1
  cases h1
  have hX := mkCtx_ok hD h hs
  refine ⟨h2.size, ?_, ?_⟩
  · intro p hp
    obtain ⟨i, hi, e1, e2⟩ := sorted_index (D := D) (sigma := sigma) (slack := slack) hp
    have := (h2.at hX rfl hi).1
    rw [e1, e2] at this
    rw [this, Nat.mul_comm]
  · intro s hs'
    rw [getElem!_eq]
    exact h2.other s (fun i hi e => hs' ((occ_iff s).mpr ⟨i, hi, e⟩))

theorem craft_valid_adm {D : Nat} (hD : D = 4 ∨ D = 2) {lens : List (Nat × Nat)} {sigma slack : Nat}
    (h : LensAdm D lens slack) (hs : ∀ p ∈ lens, p.1 ≤ sigma) {codes : Array PrefixCode}
    (hc : craftWmCodes D lens sigma = .ok codes) :
    WMValid D codes (lens.map (·.1)) := by
  obtain ⟨codes', v, h1, h2⟩ := craft_core hD h hs
  rw [hc] at h1
  cases h1
  have hX := mkCtx_ok hD h hs
  refine wmvalid_of_crafted hX rfl ?_ h2 _ occ_iff
  intro i hi
  have hi : i < (sortedLens D lens).length := hi
  obtain ⟨x, hx, he⟩ := mem_sortedLens.mp (List.getElem_mem hi)
  show 1 ≤ ((sortedLens D lens).getD i (0, 0)).2
  rw [getD_eq_getElem' _ hi, he]
  have h1 := h.pos x hx
  have h2 : 0 < bitsOf D := by rcases hD with rfl | rfl <;> decide
  exact Nat.mul_pos h1 h2


/-! ### 1. no fault, with the sharp accounting -/

/-- `craft_wm_codes` never faults on near-complete lengths of at most 32 bits -/
theorem craft_no_fault {D : Nat} (hD : D = 4 ∨ D = 2) {lens : List (Nat × Nat)} {sigma : Nat}
    (h : LensOK D lens) (hs : ∀ p ∈ lens, p.1 ≤ sigma) :
    ∃ codes, craftWmCodes D lens sigma = .ok codes :=
  craft_no_fault_adm hD (LensOK.adm hD h) hs

/-- the main loop is a `foldlM` of `craftStep` (definitional unfolding) -/
theorem craftWmCodes_unfold (D : Nat) (lens : List (Nat × Nat)) (sigma : Nat) :
    craftWmCodes D lens sigma =
      (do let st ← (List.range lens.length).foldlM (craftStep D (sortedLens D lens))
            { c := Array.replicate (slotsOf D lens.length) 0,
              assignments := Array.replicate (sigma + 1) {} }
          pure st.assignments) := rfl

/-- Sharp accounting.  After `n` symbols (`f` = the sorted `(symbol, bits)` list, `T` the
    maximal length in bits, `l` the current depth in bits, `c[n..m)` the free nodes):
    `(m − n)·2^(T−l) + Σ_{i<n} 2^(T−f[i].2) = 2^T`, there are never more than
    `alph + (D−1)` nodes, which fit in the scratch array, the depth never exceeds the next
    length (so every shift amount is `< 32`), and `c[n..m)` is strictly decreasing and
    `< 2^l`. -/
theorem craft_accounting {D : Nat} (hD : D = 4 ∨ D = 2) {lens : List (Nat × Nat)} {sigma : Nat}
    (h : LensOK D lens) (hs : ∀ p ∈ lens, p.1 ≤ sigma) (n : Nat) (hn : n ≤ lens.length) :
    ∃ st, (List.range n).foldlM (craftStep D (sortedLens D lens))
        { c := Array.replicate (slotsOf D lens.length) 0,
          assignments := Array.replicate (sigma + 1) {} } = .ok st ∧
      n ≤ st.m ∧ st.m ≤ lens.length + (D - 1) ∧ st.c.size = slotsOf D lens.length ∧
      (lens ≠ [] → st.m ≤ st.c.size) ∧
      (st.m - n) * 2 ^ (lmax lens * bitsOf D - st.l) + ksum (lmax lens * bitsOf D) ((sortedLens D lens).take n)
        = 2 ^ (lmax lens * bitsOf D) ∧
      (∀ i, n ≤ i → i < lens.length → st.l ≤ ((sortedLens D lens).getD i (0, 0)).2) ∧
      (∀ i, n ≤ i → i < st.m → st.c.getD i 0 < 2 ^ st.l) ∧
      (∀ i i', n ≤ i → i < i' → i' < st.m → st.c.getD i' 0 < st.c.getD i 0) := by
  have hadm := LensOK.adm hD h
  have hX := mkCtx_ok hD hadm hs
  have hlen : (mkCtx D lens sigma (D - 1)).f.length = lens.length := sortedLens_length D lens
  obtain ⟨st, h1, h2⟩ := craft_loop_inv hX n (by rw [hlen]; exact hn)
  refine ⟨st, h1, h2.jm, hlen ▸ h2.mle, h2.csize, ?_, h2.count, ?_, ?_, ?_⟩
  · intro hne
    have := hadm.fits hne
    have hm : st.m ≤ lens.length + (D - 1) := hlen ▸ h2.mle
    rw [h2.csize]
    show st.m ≤ slotsOf D lens.length
    omega
  · intro i h3 h4; exact h2.l_le i h3 (by rw [hlen]; exact h4)
  · intro i h3 h4
    have := h2.bnd i h4
    rwa [lev, if_neg (by omega)] at this
  · intro i i' h3 h4 h5
    have := h2.ord i i' h4 h5
    rw [lev, if_neg (by omega)] at this
    have hb := h2.bnd i' h5
    rw [lev, if_neg (by omega)] at hb
    rwa [Nat.mod_eq_of_lt hb] at this

/-! ### 2. lengths -/

theorem craft_lens {D : Nat} (hD : D = 4 ∨ D = 2) {lens : List (Nat × Nat)} {sigma : Nat}
    (h : LensOK D lens) (hs : ∀ p ∈ lens, p.1 ≤ sigma) {codes : Array PrefixCode}
    (hc : craftWmCodes D lens sigma = .ok codes) :
    codes.size = sigma + 1 ∧ (∀ p ∈ lens, codes[p.1]!.len = bitsOf D * p.2) ∧
    (∀ s : Nat, s ∉ lens.map (·.1) → codes[s]! = {}) :=
  craft_lens_adm hD (LensOK.adm hD h) hs hc

/-! ### 3. validity, for every order of the input list -/

theorem craft_valid {D : Nat} (hD : D = 4 ∨ D = 2) {lens : List (Nat × Nat)} {sigma : Nat}
    (h : LensOK D lens) (hs : ∀ p ∈ lens, p.1 ≤ sigma) {codes : Array PrefixCode}
    (hc : craftWmCodes D lens sigma = .ok codes) :
    WMValid D codes (lens.map (·.1)) :=
  craft_valid_adm hD (LensOK.adm hD h) hs hc

/-- 1 + 3 in one statement -/
theorem craft_ok_valid {D : Nat} (hD : D = 4 ∨ D = 2) {lens : List (Nat × Nat)} {sigma : Nat}
    (h : LensOK D lens) (hs : ∀ p ∈ lens, p.1 ≤ sigma) :
    ∃ codes, craftWmCodes D lens sigma = .ok codes ∧ WMValid D codes (lens.map (·.1)) := by
  obtain ⟨codes, hc⟩ := craft_no_fault hD h hs
  exact ⟨codes, hc, craft_valid hD h hs hc⟩

/-! ### 5. decode tables -/

/-- exact lookup: the table of length `len` maps `content` to `sym` iff that is `sym`'s code -/
theorem decode_tables_ok {D : Nat} {codes : Array PrefixCode} {occ : List Nat} {maxLen : Nat}
    (hv : WMValid D codes occ) (hmax : ∀ s : Nat, codes[s]!.len ≤ maxLen) (len content sym : Nat) :
    tableFind ((decodeTables codes maxLen)[len]!) content = some sym ↔
      codes[sym]! = ⟨content, len⟩ ∧ len ≠ 0 :=
  decode_tables_find (wmvalid_inj hv) hmax len content sym

/-- with `max_len` as `HuffQWaveletTree::new` computes it -/
theorem decode_tables_ok_new {D : Nat} {codes : Array PrefixCode} {occ : List Nat}
    (hv : WMValid D codes occ) (len content sym : Nat) :
    tableFind ((decodeTables codes (codes.foldl (fun m x => max m x.len) 0))[len]!) content = some sym ↔
      codes[sym]! = ⟨content, len⟩ ∧ len ≠ 0 :=
  decode_tables_ok hv (len_le_maxLen codes) len content sym

/-! ### non-vacuity -/

/-- an incomplete quad tree (alphabet size 6 ≢ 1 mod 3): lengths 1,1,1,2,2,2 -/
example : LensOK 4 [(0,1),(1,2),(2,1),(3,2),(4,2),(5,1)] :=
  ⟨by decide, by decide, by decide, by decide, by decide⟩

example : craftWmCodes 4 [(0,1),(1,2),(2,1),(3,2),(4,2),(5,1)] 5
    = .ok #[⟨3,2⟩, ⟨3,4⟩, ⟨2,2⟩, ⟨2,4⟩, ⟨1,4⟩, ⟨1,2⟩] := by decide

/-- lengths 1,1,2,2,2,2 are NOT near-complete (Kraft deficit 4 > 3: not a quad Huffman
    profile), the routine nevertheless succeeds; such inputs are covered by the slack
    versions of the theorems below (`LensAdm`) -/
example : ¬ LensOK 4 [(0,1),(1,1),(2,2),(3,2),(4,2),(5,2)] := fun h => absurd h.near (by decide)

example : craftWmCodes 4 [(0,1),(1,1),(2,2),(3,2),(4,2),(5,2)] 5
    = .ok #[⟨3,2⟩, ⟨2,2⟩, ⟨7,4⟩, ⟨3,4⟩, ⟨6,4⟩, ⟨2,4⟩] := by decide

example : craftWmCodes 4 [(0,1),(1,1),(2,2),(3,2)] 3
    = .ok #[⟨3,2⟩, ⟨2,2⟩, ⟨7,4⟩, ⟨3,4⟩] := by decide

/-- five symbols (5 ≢ 1 mod 3) -/
example : LensOK 4 [(0,1),(1,1),(2,2),(3,2),(4,1)] :=
  ⟨by decide, by decide, by decide, by decide, by decide⟩

example : LensOK 2 [(7,2),(1,1),(4,2)] :=
  ⟨by decide, by decide, by decide, by decide, by decide⟩

/-- the non-Huffman profile 1,1,2,2,2,2 is admissible with slack 4 -/
example : LensAdm 4 [(0,1),(1,1),(2,2),(3,2),(4,2),(5,2)] 4 :=
  ⟨by decide, by decide, by decide, by decide, by decide, by decide⟩

example : LensAdm 4 [(0,1),(1,1),(2,2),(3,2)] 6 :=
  ⟨by decide, by decide, by decide, by decide, by decide, by decide⟩

/-- the one-symbol alphabets -/
example : LensOK 2 [(5,1)] := ⟨by decide, by decide, by decide, by decide, by decide⟩
example : LensOK 4 [(5,1)] := ⟨by decide, by decide, by decide, by decide, by decide⟩

/-- `WMValid` of a concrete table, through the theorem -/
example : WMValid 4 #[⟨3,2⟩, ⟨3,4⟩, ⟨2,2⟩, ⟨2,4⟩, ⟨1,4⟩, ⟨1,2⟩] [0, 1, 2, 3, 4, 5] :=
  craft_valid (lens := [(0,1),(1,2),(2,1),(3,2),(4,2),(5,1)]) (sigma := 5) (Or.inl rfl)
    ⟨by decide, by decide, by decide, by decide, by decide⟩ (by decide) (by decide)

/-- `digits` / `revLex` on that table: symbol 1 has code `03`, symbol 0 has code `3` -/
example : digits 4 ⟨3, 4⟩ = [0, 3] ∧ digits 4 ⟨3, 2⟩ = [3] ∧ revLex 4 [0, 3] = 12 := by decide

end Qwt.Props.C02
