import Qwt.Proofs.DArraySelect

/-!
# C07 — `DArray` answers `select1` / `select0` like the plain bit sequence

`BV.HoldsD b s` (defined in `Qwt/Proofs/DArraySelect.lean`) is the word-level representation
predicate: `nBits = |s|`, `data.size = 8·⌈|s|/512⌉`, bit `i` is bit `i % 64` of word `i / 64`,
padding bits are zero, words are `< 2^64`.

Two facts proved elsewhere are taken as hypotheses:

* `SelectInWordSpec` — `select_in_word` is select on the 64 bits of a word (C17);
* `PosIterSpec b s` — the position iterator of the bit vector enumerates the positions of a
  bit in increasing order (C08).

Everything else is proved here from the model: the inventory invariant (with the *alignment*
of the shared sub-block array, for every interleaving of dense and sparse groups and a partial
last group), the query `select` (sparse lookup, dense sub-block start + word scan), counts,
and the empty structure.  The constants `daBlockSize = 1024`, `daSubblockSize = 32`,
`daMaxInBlockDistance = 65536` are re-checked by `decide` (`DAProofs.daBlockSize_eq` …).
-/
namespace Qwt.Props.C07
open Qwt Qwt.DA Qwt.BV Qwt.Extracted Qwt.DAProofs

/-- `select_in_word` is correct (property C17) -/
abbrev SelectInWordSpec : Prop := DAProofs.SelectInWordSpec

/-- the position iterator enumerates the positions of `bit` in `s`, increasing (property C08) -/
abbrev PosIterSpec (b : BitVector) (s : List Bool) : Prop := DAProofs.PosIterSpec b s

theorem posIterSpec_iff (b : BitVector) (s : List Bool) :
    PosIterSpec b s ↔ ∀ bit, PosIter.collect bit b (b.nBits + 1) PosIter.new =
      (List.range s.length).filter (fun i => s[i]! = bit) := Iff.rfl

/-! ## the list of positions -/

theorem positions_eq (bit : Bool) (s : List Bool) :
    Spec.positions bit s = (List.range s.length).filter (fun i => decide (s[i]! = bit)) := by
  unfold Spec.positions
  apply List.filter_congr
  intro i hi
  have hi' : i < s.length := by simpa using hi
  rw [getElem!_pos s i hi', List.getElem?_eq_getElem hi']
  cases s[i] <;> cases bit <;> rfl

theorem select_eq_positions (bit : Bool) (k : Nat) (s : List Bool) :
    Spec.select bit k s = (Spec.positions bit s)[k]? := by
  rw [select_eq_filter]; rfl

/-- positions are strictly increasing -/
theorem positions_lt (bit : Bool) (s : List Bool) {i j p q : Nat} (hij : i < j)
    (hp : (Spec.positions bit s)[i]? = some p) (hq : (Spec.positions bit s)[j]? = some q) :
    p < q := filter_range_lt _ _ hij hp hq

theorem take_count (c : Bool) (s : List Bool) (p : Nat) (hp : p ≤ s.length) :
    (s.take p).count c = cnt (fun i => s[i]? == some c) p := by
  induction p with
  | zero => simp
  | succ p ih =>
    have hlt : p < s.length := by omega
    rw [List.take_add_one, List.getElem?_eq_getElem hlt, List.count_append, ih (by omega), cnt_succ,
      List.getElem?_eq_getElem hlt]
    congr 1
    cases s[p] <;> cases c <;> rfl

theorem positions_length (bit : Bool) (s : List Bool) :
    (Spec.positions bit s).length = s.count bit := by
  unfold Spec.positions
  rw [length_filter_range, ← take_count bit s s.length (Nat.le_refl _), List.take_length]

theorem count_true_add_false (s : List Bool) : s.count true + s.count false = s.length := by
  induction s with
  | nil => rfl
  | cons x xs ih => cases x <;> simp <;> omega

/-! ## 1. the inventory invariant -/

/-- the inventories of `invNew` are those of the fold, plus the counter -/
theorem invNew_eq (bit : Bool) (b : BitVector) :
    invNew bit b =
      { (chunks 1024 (PosIter.collect bit b (b.nBits + 1) PosIter.new)).foldl flushBlock {} with
        nSets := (PosIter.collect bit b (b.nBits + 1) PosIter.new).length } := by
  unfold invNew; rw [daBlockSize_eq]

/-- **Inventory invariant** (`InvSpec`, see `Qwt/Proofs/DArrayInv.lean`), for the list `ps`
    produced by the position iterator — whatever that list is:
    * `blockInventory.size = ⌈|ps|/1024⌉`, `subblockInventory.size = ⌈|ps|/32⌉`;
    * a dense group `g` (last − first < 65536) has `blockInventory[g] = first` and
      `subblockInventory[32 g + j] = (ps[1024 g + 32 j] − first) % 65536`;
    * a sparse group has `blockInventory[g] = −off − 1` and
      `overflowPositions[off + j] = ps[1024 g + j]`.
    The slot `32 g` does not depend on the kinds of the groups before `g`: alignment. -/
theorem invNew_spec (bit : Bool) (b : BitVector) :
    (invNew bit b).nSets = (PosIter.collect bit b (b.nBits + 1) PosIter.new).length ∧
    InvSpec (PosIter.collect bit b (b.nBits + 1) PosIter.new) (invNew bit b) := by
  rw [invNew_eq]
  have h := invSpec_fold (PosIter.collect bit b (b.nBits + 1) PosIter.new)
  exact ⟨rfl, ⟨h.bsize, h.ssize, h.dense, h.sparse⟩⟩

/-- the invariant in terms of `Spec.positions` -/
theorem inventory_ok (bit : Bool) {b : BitVector} {s : List Bool} (hpos : PosIterSpec b s) :
    (invNew bit b).nSets = s.count bit ∧ InvSpec (Spec.positions bit s) (invNew bit b) := by
  have h := invNew_spec bit b
  rw [hpos bit, ← positions_eq] at h
  rw [← positions_length]
  exact h

/-- number of groups, and the alignment of the shared sub-block array: group `g` owns the
    slots `32 g …`, the array has `Σ_g ⌈|group g|/32⌉ = ⌈|ps|/32⌉` entries -/
theorem inventory_sizes (bit : Bool) {b : BitVector} {s : List Bool} (hpos : PosIterSpec b s) :
    (invNew bit b).nSets = s.count bit ∧
    (invNew bit b).blockInventory.size = (s.count bit + 1023) / 1024 ∧
    (invNew bit b).subblockInventory.size = (s.count bit + 31) / 32 := by
  obtain ⟨h1, h2⟩ := inventory_ok bit hpos
  rw [← positions_length]
  rw [← positions_length] at h1
  exact ⟨h1, h2.bsize, h2.ssize⟩

/-- the sum form of the alignment statement: every group reserves `⌈|group|/32⌉` slots and
    the slots before group `g` add up to `32 g` -/
theorem alignment (ps : List Nat) (g : Nat) (hg : 1024 * g < ps.length) :
    subOff (chunks 1024 ps) g = 32 * g ∧
    (((chunks 1024 ps).foldl flushBlock {}).subblockInventory.size
      = ((chunks 1024 ps).map slots).sum) :=
  ⟨subOff_chunks ps g hg, (foldInv_chunks ps).ssize⟩

/-- in a dense group the stored 16-bit offsets are exact (no wrap-around): positions are
    increasing, so every offset is at most last − first < 65536 -/
theorem dense_entry_exact (bit : Bool) {b : BitVector} {s : List Bool} (hpos : PosIterSpec b s)
    (g j : Nat) (hj : j < 32) (hlt : 1024 * g + 32 * j < (Spec.positions bit s).length)
    (hd : (Spec.positions bit s).getD (min (1024 * g + 1023) ((Spec.positions bit s).length - 1)) 0
      - (Spec.positions bit s).getD (1024 * g) 0 < 65536) :
    (invNew bit b).blockInventory[g]? = some (Int.ofNat ((Spec.positions bit s).getD (1024 * g) 0)) ∧
    (invNew bit b).subblockInventory[32 * g + j]? =
      some ((Spec.positions bit s).getD (1024 * g + 32 * j) 0 - (Spec.positions bit s).getD (1024 * g) 0) ∧
    (Spec.positions bit s).getD (1024 * g + 32 * j) 0 - (Spec.positions bit s).getD (1024 * g) 0 < 65536 := by
  obtain ⟨_, h2⟩ := inventory_ok bit hpos
  obtain ⟨hb, hs⟩ := h2.dense g (by omega) hd
  have hmono : ∀ i j, i ≤ j → j < (Spec.positions bit s).length →
      (Spec.positions bit s).getD i 0 ≤ (Spec.positions bit s).getD j 0 := by
    intro i j hij hj
    rcases Nat.lt_or_eq_of_le hij with hlt | heq
    · have h1 : (Spec.positions bit s)[i]? = some ((Spec.positions bit s).getD i 0) := by
        rw [List.getD_eq_getElem?_getD, List.getElem?_eq_getElem (by omega)]; rfl
      have h2 : (Spec.positions bit s)[j]? = some ((Spec.positions bit s).getD j 0) := by
        rw [List.getD_eq_getElem?_getD, List.getElem?_eq_getElem hj]; rfl
      exact Nat.le_of_lt (positions_lt bit s hlt h1 h2)
    · subst heq; exact Nat.le_refl _
  have hle := hmono (1024 * g + 32 * j)
    (min (1024 * g + 1023) ((Spec.positions bit s).length - 1)) (by omega) (by omega)
  have hlt' : (Spec.positions bit s).getD (1024 * g + 32 * j) 0
      - (Spec.positions bit s).getD (1024 * g) 0 < 65536 := by omega
  have := hs j hj hlt
  rw [Nat.mod_eq_of_lt hlt'] at this
  exact ⟨hb, this, hlt'⟩

/-! ## 2. `select` -/

/-- **`select` is correct and never faults**: for every `k`, dense or sparse groups in any
    order, `bit = true` or `false` -/
theorem select_ok (bit : Bool) (s0 : Bool) {b : BitVector} {s : List Bool} (hb : HoldsD b s)
    (hsel : SelectInWordSpec) (hpos : PosIterSpec b s) (k : Nat) :
    DA.select bit (DA.new s0 b) (invNew bit b) k = .ok (Spec.select bit k s) := by
  obtain ⟨h1, h2⟩ := invNew_spec bit b
  rw [hpos bit] at h1 h2
  rw [select_core hb bit hsel (DA.new s0 b) rfl (invNew bit b) h1 h2 k, select_eq_positions,
    positions_eq]

theorem select1_ok (s0 : Bool) {b : BitVector} {s : List Bool} (hb : HoldsD b s)
    (hsel : SelectInWordSpec) (hpos : PosIterSpec b s) (k : Nat) :
    DA.select1 (DA.new s0 b) k = .ok (Spec.select true k s) :=
  select_ok true s0 hb hsel hpos k

theorem select0_ok {b : BitVector} {s : List Bool} (hb : HoldsD b s)
    (hsel : SelectInWordSpec) (hpos : PosIterSpec b s) (k : Nat) :
    DA.select0 true (DA.new true b) k = .ok (Spec.select false k s) :=
  select_ok false true hb hsel hpos k

/-- `select0` without `SELECT0_SUPPORT`: the documented assertion, on every structure -/
theorem select0_unsupported (d : DArray) (k : Nat) :
    DA.select0 false d k = .error .assertDoc := rfl

/-- `none` exactly when there are at most `k` occurrences -/
theorem select_none_iff (bit : Bool) (k : Nat) (s : List Bool) :
    Spec.select bit k s = none ↔ s.count bit ≤ k := by
  rw [select_eq_positions, List.getElem?_eq_none_iff, positions_length]

/-! ## 3. counts, length, access -/

theorem countOnes_ok (s0 : Bool) {b : BitVector} {s : List Bool} (hpos : PosIterSpec b s) :
    DA.countOnes (DA.new s0 b) = s.count true :=
  (inventory_ok true hpos).1

theorem countZeros_ok (s0 : Bool) {b : BitVector} {s : List Bool} (hb : HoldsD b s)
    (hpos : PosIterSpec b s) : DA.countZeros (DA.new s0 b) = .ok (s.count false) := by
  have h1 : (DA.new s0 b).ones.nSets = s.count true := (inventory_ok true hpos).1
  have h2 := count_true_add_false s
  unfold DA.countZeros sub
  rw [h1, show (DA.new s0 b).bv.nBits = s.length from hb.nBits, if_pos (by omega)]
  congr 1; omega

theorem len_ok (s0 : Bool) {b : BitVector} {s : List Bool} (hb : HoldsD b s) :
    DA.len (DA.new s0 b) = s.length := hb.nBits

/-- `get` delegates to the bit vector … -/
theorem get_delegates (s0 : Bool) (b : BitVector) (i : Nat) :
    DA.get (DA.new s0 b) i = BV.get b i := rfl

/-- … which reads the bit -/
theorem get_ok (s0 : Bool) {b : BitVector} {s : List Bool} (hb : HoldsD b s) (i : Nat) :
    DA.get (DA.new s0 b) i = .ok s[i]? := by
  rw [get_delegates]
  unfold BV.get
  by_cases hi : i ≥ b.nBits
  · rw [if_pos hi, List.getElem?_eq_none (by rw [← hb.nBits]; exact hi)]; rfl
  · rw [if_neg hi]
    have hlt : i < s.length := by rw [← hb.nBits]; omega
    have hsz := hb.size
    have hw : i / 64 < b.data.size := by omega
    have hbit := hb.bit i (by omega)
    unfold getUnchecked getBitSlice
    rw [Nat.shiftRight_eq_div_pow, Nat.and_two_pow_sub_one_eq_mod i 6]
    have hidx : idx b.data (i / 2 ^ 6) = .ok b.data[i / 64]! := by
      unfold idx
      rw [dif_pos (show i / 2 ^ 6 < b.data.size from hw), getElem!_pos b.data (i / 64) hw]
    rw [hidx]
    simp only [bind, Except.bind, pure, Except.pure]
    rw [List.getElem?_eq_getElem hlt]
    have hs : s.getD i false = s[i] := by
      rw [List.getD_eq_getElem?_getD, List.getElem?_eq_getElem hlt]; rfl
    rw [hs] at hbit
    rw [← hbit]
    congr 2
    unfold Nat.testBit
    rw [Nat.and_comm, show i % 2 ^ 6 = i % 64 from rfl]
    simp only [Nat.one_and_eq_mod_two]
    have : (b.data[i / 64]! >>> (i % 64)) % 2 = 0 ∨ (b.data[i / 64]! >>> (i % 64)) % 2 = 1 := by
      omega
    rcases this with h | h <;> simp [h]

/-! ## 4. the empty structure (`DArray::default()`) -/

theorem invNew_empty (bit : Bool) : invNew bit {} = {} := by
  unfold invNew
  have : PosIter.collect bit {} (({} : BitVector).nBits + 1) PosIter.new = [] := by
    cases bit <;> rfl
  rw [this]
  unfold chunks
  simp

theorem default_select1 (s0 : Bool) (k : Nat) : DA.select1 (DA.new s0 {}) k = .ok none := by
  unfold DA.select1 DA.select DA.new
  simp only [invNew_empty]
  rfl

theorem default_select0 (k : Nat) : DA.select0 true (DA.new true {}) k = .ok none := by
  unfold DA.select0 DA.select DA.new
  simp only [invNew_empty]
  rfl

theorem default_ok (s0 : Bool) (k : Nat) :
    DA.select1 (DA.new s0 {}) k = .ok none ∧
    DA.select0 s0 (DA.new s0 {}) k = (if s0 then .ok none else .error .assertDoc) ∧
    DA.countOnes (DA.new s0 {}) = 0 ∧ DA.countZeros (DA.new s0 {}) = .ok 0 ∧
    DA.len (DA.new s0 {}) = 0 ∧ DA.get (DA.new s0 {}) k = .ok none := by
  refine ⟨default_select1 s0 k, ?_, ?_, ?_, rfl, rfl⟩
  · cases s0
    · rfl
    · exact default_select0 k
  · unfold DA.countOnes DA.new; simp only [invNew_empty]
  · unfold DA.countZeros DA.new; simp only [invNew_empty]; rfl

/-- the empty vector satisfies the hypotheses of the general theorems -/
theorem holds_empty : HoldsD {} [] where
  nBits := rfl
  size := rfl
  lt := by intro i h; exact absurd h (Nat.not_lt_zero _)
  bit := by intro p h; exact absurd h (by simp)

theorem posIterSpec_empty : PosIterSpec {} [] := by
  intro bit; cases bit <;> rfl

/-! ## 5. the code before the repair was wrong (witness)

`flushBlockP` is `flush_block` with the constants as parameters; with `old = true` the
sparse branch reserves `len` slots of the shared sub-block array (the original code) instead
of `⌈len/sub⌉`.  With groups of 4, sub-blocks of 2 and a distance limit of 8, the sparse
group `[0,10,20,30]` followed by the dense group `[31,33,34]`: the entries of group 1 must
start at slot `(4/2)·1 = 2`. -/

def flushBlockP (sub maxd : Nat) (old : Bool) (inv : Inventories) (cur : List Nat) : Inventories :=
  match cur with
  | [] => inv
  | first :: _ =>
    let last := cur.getLast?.getD first
    if last - first < maxd then
      { inv with
        blockInventory := inv.blockInventory.push (Int.ofNat first),
        subblockInventory := inv.subblockInventory ++
          ((everyNth sub cur).map (fun p => (p - first) % 65536)).toArray }
    else
      { inv with
        blockInventory := inv.blockInventory.push (-(Int.ofNat inv.overflowPositions.size) - 1),
        overflowPositions := inv.overflowPositions ++ cur.toArray,
        subblockInventory := inv.subblockInventory ++
          Array.replicate (if old then cur.length else (cur.length + sub - 1) / sub) 65535 }

/-- the parametric function is the model's `flushBlock` at the crate's constants -/
theorem flushBlockP_model :
    flushBlockP daSubblockSize daMaxInBlockDistance false = flushBlock := by
  funext inv cur
  cases cur <;> rfl

/-- repaired code: group 1 starts at slot 2 (offsets `0`, `34 − 31 = 3`) -/
theorem witness_new :
    ([[0, 10, 20, 30], [31, 33, 34]].foldl (flushBlockP 2 8 false) {}) =
      { nSets := 0, blockInventory := #[-1, 31], subblockInventory := #[65535, 65535, 0, 3],
        overflowPositions := #[0, 10, 20, 30] } := by decide

/-- original code: slot 2 is a filler of the sparse group, the entries of group 1 sit at
    slots 4, 5 — `select` of element 4 (`k / sub = 2`) would read the offset 65535 -/
theorem witness_old :
    ([[0, 10, 20, 30], [31, 33, 34]].foldl (flushBlockP 2 8 true) {}) =
      { nSets := 0, blockInventory := #[-1, 31],
        subblockInventory := #[65535, 65535, 65535, 65535, 0, 3],
        overflowPositions := #[0, 10, 20, 30] } := by decide

theorem witness_old_misaligned :
    ([[0, 10, 20, 30], [31, 33, 34]].foldl (flushBlockP 2 8 true) {}).subblockInventory[2]?
      ≠ ([[0, 10, 20, 30], [31, 33, 34]].foldl (flushBlockP 2 8 false) {}).subblockInventory[2]? := by
  decide

/-! ## 6. concrete evaluations (non-vacuity)

`decide +kernel` evaluates the model itself in the Lean kernel (no compiled code is trusted;
the only axioms are `propext` / `Quot.sound`). -/

/-- the bit vector `BitVector::from_iter([0,12,33,42,55,61,1000])`: 1001 bits, 2 lines -/
def bEx : BitVector :=
  { data := #[2 ^ 0 + 2 ^ 12 + 2 ^ 33 + 2 ^ 42 + 2 ^ 55 + 2 ^ 61, 0, 0, 0, 0, 0, 0, 0,
              0, 0, 0, 0, 0, 0, 0, 2 ^ 40],
    nBits := 1001, nOnes := 7 }

example : (BV.fromPositions [0, 12, 33, 42, 55, 61, 1000]).toOption = some bEx := by
  decide +kernel

example : Out.ofOpt (DA.select1 (DA.new true bEx) 0) = .some 0 := by decide +kernel
example : Out.ofOpt (DA.select1 (DA.new true bEx) 1) = .some 12 := by decide +kernel
example : Out.ofOpt (DA.select1 (DA.new true bEx) 6) = .some 1000 := by decide +kernel
example : Out.ofOpt (DA.select1 (DA.new true bEx) 7) = .none := by decide +kernel
example : DA.countOnes (DA.new false bEx) = 7 := by decide +kernel
example : Out.ofVal (DA.countZeros (DA.new false bEx)) = .val 994 := by decide +kernel
example : Out.ofOpt (DA.select0 false (DA.new false bEx) 3) = .fault .assertDoc := by decide

/-- a 70-bit vector with ones at 0, 12, 33, 42, 55, 61, 69 and the list it holds: the
    hypotheses `HoldsD` and `PosIterSpec` of the theorems are satisfiable -/
def bEx2 : BitVector :=
  { data := #[2 ^ 0 + 2 ^ 12 + 2 ^ 33 + 2 ^ 42 + 2 ^ 55 + 2 ^ 61, 2 ^ 5, 0, 0, 0, 0, 0, 0],
    nBits := 70, nOnes := 7 }
def sEx2 : List Bool := (List.range 70).map (fun i => decide (i ∈ [0, 12, 33, 42, 55, 61, 69]))

theorem holdsEx2 : HoldsD bEx2 sEx2 where
  nBits := by decide +kernel
  size := by decide +kernel
  lt := by decide +kernel
  bit := by decide +kernel

theorem posIterSpecEx2 : PosIterSpec bEx2 sEx2 := by
  intro bit; cases bit <;> decide +kernel

example : Out.ofOpt (DA.select0 true (DA.new true bEx2) 0) = .some 1 := by decide +kernel
example : Out.ofOpt (DA.select0 true (DA.new true bEx2) 40) = .some 44 := by decide +kernel
example : Out.ofOpt (DA.select0 true (DA.new true bEx2) 62) = .some 68 := by decide +kernel
example : Out.ofOpt (DA.select0 true (DA.new true bEx2) 63) = .none := by decide +kernel
example : Out.ofOpt (DA.select1 (DA.new true bEx2) 6) = .some 69 := by decide +kernel

/-- the general theorem instantiated: the model's answer is the specification's -/
example (hsel : SelectInWordSpec) (k : Nat) :
    DA.select0 true (DA.new true bEx2) k = .ok (Spec.select false k sEx2) :=
  select0_ok holdsEx2 hsel posIterSpecEx2 k

example : Spec.select false 40 sEx2 = some 44 := by decide +kernel

end Qwt.Props.C07
