import Qwt.Props.C01
import Qwt.Props.C03
import Qwt.Props.C05
import Qwt.Props.C06
import Qwt.Props.C07
import Qwt.Props.C17
import Qwt.Props.C02Craft
import Qwt.Props.C02
import Qwt.Props.C09
import Qwt.Props.C09Huff
import Qwt.Proofs.DArrayBridge
import Qwt.Proofs.RSQBridge

/-!
# Closed compositions

The layered theorems of `Props/C01`, `C03`, `C05`, `C06`, `C07` take the lower layer's contract
(`LevelLaw`, `BinLevelLaw`, the word-level `select_in_word` lemma) as a hypothesis.  Here
every contract is discharged, so that the statements below mention only the model, the
specification and hypotheses about the *input* (element width, length limit, and — for the
Huffman-shaped trees — the code-length table handed over by the external crate).
-/
namespace Qwt.Props.Closed
open Qwt

/-! ## the word-level lemmas instantiate the three `select` hypotheses -/

theorem selHyp : Qwt.RSQP.SelHyp :=
  fun w k hw hk => C17.select_in_word_u128_ok w k hw hk

theorem selSpec : BV.SelSpec :=
  fun w k hw hk => C17.select_in_word_ok w k hw hk

theorem selectInWordSpec : DAProofs.SelectInWordSpec :=
  fun w k hw hk => C17.select_in_word_ok w k hw hk

/-! ## C05 / C06: the level contracts hold unconditionally -/

/-- every quad level built by the tree constructors represents its digits (both block
    sizes, both build profiles, every length below the documented 2^43 limit) -/
theorem levelLaw (dbg : Bool) {B : Nat} (hB : B = 256 ∨ B = 512) : LevelLaw dbg B :=
  C05.levelLaw selHyp dbg hB

theorem binLevelLaw : BinLevelLaw := C06.binLevelLaw selSpec

/-- C05: the rank/select quad vector built from any well-formed quad vector represents it -/
theorem rsq_represents {B : Nat} (dbg : Bool) (hB : B = 256 ∨ B = 512) {qv : QV.QVector}
    (h : QV.Inv qv) (hs : ∀ x ∈ QV.abs qv, x < 4) (hl : (QV.abs qv).length < 2 ^ 43) :
    ∃ r, RSQ.fromQV dbg B qv = .ok r ∧ RSQ.Represents B r (QV.abs qv) :=
  C05.fromQV_represents selHyp dbg hB (Qwt.RSQP.holds_of_inv h) hs hl

/-- C06: RSWide / RSNarrow built from any well-formed bit vector represent it -/
theorem rsw_represents {b : BV.BitVector} (h : BV.Inv b) (hl : (BV.abs b).length < 2 ^ 43) :
    ∃ r, RSW.new b = .ok r ∧ RSW.Represents r (BV.abs b) :=
  C06.rsw_represents selSpec (C06.holds_of_inv h) hl

theorem rsn_represents {b : BV.BitVector} (h : BV.Inv b) :
    ∃ r, RSN.new b = .ok r ∧ RSN.Represents r (BV.abs b) :=
  C06.rsn_represents selSpec (C06.holds_of_inv h)

/-! ## C07: DArray select, every distribution of ones -/

theorem darray_select1 (s0 : Bool) {b : BV.BitVector} (h : BV.Inv b) (k : Nat) :
    DA.select1 (DA.new s0 b) k = .ok (Spec.select true k (BV.abs b)) :=
  C07.select1_ok_inv s0 h selectInWordSpec k

theorem darray_select0 {b : BV.BitVector} (h : BV.Inv b) (k : Nat) :
    DA.select0 true (DA.new true b) k = .ok (Spec.select false k (BV.abs b)) :=
  C07.select0_ok_inv h selectInWordSpec k

/-! ## C01: the plain quad wavelet tree (types without prefetch support) -/

section qwt
variable {c : Cfg} {S : List Nat} {t : QWTree.QWT}
  (hB : c.B = 256 ∨ c.B = 512) (hpfs : c.pfs = false) (hW : 0 < c.W)
  (hS : ∀ x ∈ S, x < 2 ^ c.W) (hlen : S.length < 2 ^ 43)
include hB hpfs hW hS hlen

theorem qwt_new : ∃ t, QWTree.new c S.toArray = .ok t ∧ t.n = S.length ∧ t.pfs = none ∧
    (S ≠ [] → t.sigma = Spec.maxNat S ∧ t.nLevels = (Spec.bitlen (Spec.maxNat S) + 1) / 2) := by
  obtain ⟨t, h1, h2, h3, h4, _⟩ := C01.new_ok_nopfs c S hpfs hW hS hlen (levelLaw c.dbg hB)
  exact ⟨t, h1, h2, h3, h4⟩

variable (hnew : QWTree.new c S.toArray = .ok t)
include hnew

theorem qwt_get (i : Nat) : QWTree.get c t i = .ok S[i]? :=
  C01.get_ok hW hS hlen (levelLaw c.dbg hB) (C01.pfsTotal_of_false hpfs) hnew i

theorem qwt_rank (sym i : Nat) : QWTree.rank c t sym i =
    .ok (if S ≠ [] ∧ sym ≤ Spec.maxNat S ∧ i ≤ S.length then some (Spec.rank sym i S) else none) :=
  C01.rank_ok hW hS hlen (levelLaw c.dbg hB) (C01.pfsTotal_of_false hpfs) hnew sym i

theorem qwt_select (sym k : Nat) : QWTree.select c t sym k =
    .ok (if S ≠ [] ∧ sym ≤ Spec.maxNat S then Spec.select sym k S else none) :=
  C01.select_ok hW hS hlen (levelLaw c.dbg hB) (C01.pfsTotal_of_false hpfs) hnew sym k

theorem qwt_rankPrefetch (sym i : Nat) : QWTree.rankPrefetch c t sym i = QWTree.rank c t sym i :=
  C01.rankPrefetch_eq_rank hpfs hW hS hlen (levelLaw c.dbg hB) hnew sym i

end qwt

/-! ## C03: the plain binary wavelet tree -/

section wt
variable (c : Cfg) (hW : 0 < c.W) (S : List Nat) (hb : ∀ x ∈ S, x < 2 ^ c.W)
  (hS : S.length < 2 ^ 43)
include hW hb hS

theorem wt_new : ∃ t, BinWT.new c false S.toArray [] = .ok t ∧ t.n = S.length ∧
    (S ≠ [] → t.sigma = some (Spec.maxNat S) ∧ t.nLevels = Spec.bitlen (Spec.maxNat S)) := by
  obtain ⟨t, h1, _, h3, h4⟩ := C03.wt_new_ok c hW binLevelLaw S hb hS
  exact ⟨t, h1, h3, h4⟩

variable {t : BinWT.WT} (ht : BinWT.new c false S.toArray [] = .ok t)
include ht

theorem wt_get (i : Nat) : BinWT.get c false t i = .ok S[i]? :=
  C03.wt_get_ok c hW binLevelLaw S hb hS ht i

theorem wt_rank (sym i : Nat) : BinWT.rank c false t sym i =
    .ok (if S ≠ [] ∧ sym ≤ Spec.maxNat S ∧ i ≤ S.length then some (Spec.rank sym i S) else none) :=
  C03.wt_rank_ok c hW binLevelLaw S hb hS ht sym i

theorem wt_select (sym k : Nat) : BinWT.select c false t sym k =
    .ok (if S ≠ [] ∧ sym ≤ Spec.maxNat S then Spec.select sym k S else none) :=
  C03.wt_select_ok c hW binLevelLaw S hb hS ht sym k

end wt

theorem maxNat_lt_two64' (W : Nat) (hW : W ≤ 64) (S : List Nat) (hb : ∀ x ∈ S, x < 2 ^ W) :
    Spec.maxNat S < two64 := by
  have hall : ∀ x ∈ S, x < 2 ^ 64 := fun x hx =>
    Nat.lt_of_lt_of_le (hb x hx) (Nat.pow_le_pow_right (by decide) hW)
  have key : ∀ (l : List Nat) (a : Nat), a < 2 ^ 64 → (∀ x ∈ l, x < 2 ^ 64) → l.foldl max a < 2 ^ 64 := by
    intro l
    induction l with
    | nil => intro a ha _; simpa using ha
    | cons y ys ih =>
      intro a ha h
      simp only [List.foldl_cons]
      apply ih
      · have := h y (by simp)
        exact Nat.max_lt.mpr ⟨ha, this⟩
      · intro x hx; exact h x (by simp [hx])
  have := key S 0 (by decide) hall
  simpa [Spec.maxNat, two64] using this

theorem le_maxNat' (S : List Nat) (x : Nat) (hx : x ∈ S) : x ≤ Spec.maxNat S := by
  have key : ∀ (l : List Nat) (a : Nat), (a ≤ l.foldl max a) ∧ (∀ x ∈ l, x ≤ l.foldl max a) := by
    intro l
    induction l with
    | nil => intro a; simp
    | cons y ys ih =>
      intro a
      simp only [List.foldl_cons]
      obtain ⟨h1, h2⟩ := ih (max a y)
      refine ⟨Nat.le_trans (Nat.le_max_left a y) h1, ?_⟩
      intro x hx
      rcases List.mem_cons.mp hx with rfl | hx
      · exact Nat.le_trans (Nat.le_max_right a x) h1
      · exact h2 x hx
  exact (key S 0).2 x hx

/-! ## C03: the Huffman-shaped binary tree, for every admissible length table and tie order -/

section hwt
open Qwt.Props.C02 (LensOK WMValid)
variable (c : Cfg) (hW : c.W ≤ 64) (S : List Nat) (hne : S ≠ [])
  (hb : ∀ x ∈ S, x < 2 ^ c.W) (hS : S.length < 2 ^ 43)
  (lens : List (Nat × Nat))
  /- what is assumed about `minimum_redundancy::code_lengths()`: one entry per occurring
     symbol (in any order) and near-complete Kraft lengths of at most 32 bits -/
  (hlens : LensOK 2 lens) (hocc : ∀ s, s ∈ lens.map (·.1) ↔ s ∈ S)
include hW hne hb hS hlens hocc

/-- the crafted table exists and is valid, whatever the order of `lens` -/
theorem hwt_codes : ∃ codes, Huff.craftWmCodes 2 lens (Utils.asUsize (Spec.maxNat S)) = .ok codes ∧
    WMValid 2 codes (lens.map (·.1)) := by
  have hlt := maxNat_lt_two64' c.W hW S hb
  have hsig : Utils.asUsize (Spec.maxNat S) = Spec.maxNat S := by
    simp [Utils.asUsize, Nat.mod_eq_of_lt hlt]
  rw [hsig]
  apply C02.craft_ok_valid (Or.inr rfl) hlens
  intro p hp
  have : p.1 ∈ lens.map (·.1) := List.mem_map.mpr ⟨p, hp, rfl⟩
  exact le_maxNat' S p.1 ((hocc p.1).mp this)

theorem hwt_new : ∃ t, BinWT.new c true S.toArray lens = .ok t ∧ t.n = S.length := by
  obtain ⟨codes, hc, hv⟩ := hwt_codes c hW S hne hb hS lens hlens hocc
  obtain ⟨t, h1, _, h3, _⟩ := C03.hwt_new_ok c hW binLevelLaw S hne hb hS lens codes hc _ hv hocc
  exact ⟨t, h1, h3⟩

variable {t : BinWT.WT} (ht : BinWT.new c true S.toArray lens = .ok t)
include ht

theorem hwt_get (i : Nat) : BinWT.get c true t i = .ok S[i]? := by
  obtain ⟨codes, hc, hv⟩ := hwt_codes c hW S hne hb hS lens hlens hocc
  exact C03.hwt_get_ok c hW binLevelLaw S hne hb hS lens codes hc _ hv hocc ht i

theorem hwt_rank (sym i : Nat) : BinWT.rank c true t sym i =
    .ok (if sym ∈ S ∧ i ≤ S.length then some (Spec.rank sym i S) else none) := by
  obtain ⟨codes, hc, hv⟩ := hwt_codes c hW S hne hb hS lens hlens hocc
  exact C03.hwt_rank_ok c hW binLevelLaw S hne hb hS lens codes hc _ hv hocc ht sym i

theorem hwt_select (sym k : Nat) : BinWT.select c true t sym k =
    .ok (if sym ∈ S then Spec.select sym k S else none) := by
  obtain ⟨codes, hc, hv⟩ := hwt_codes c hW S hne hb hS lens hlens hocc
  exact C03.hwt_select_ok c hW binLevelLaw S hne hb hS lens codes hc _ hv hocc ht sym k

end hwt

/-! ## C02: the Huffman-shaped quad tree (all four aliases: both block sizes, with and
without prefetch support), for every admissible length table and every tie order -/

theorem hqwt_correct (c : Cfg) (hB : c.B = 256 ∨ c.B = 512) (hW : c.W ≤ 64)
    (S : List Nat) (hne : S ≠ []) (hb : ∀ x ∈ S, x < 2 ^ c.W) (hS : S.length < 2 ^ 43)
    (lens : List (Nat × Nat)) (hlens : C02.LensOK 4 lens)
    (hsyms : ∀ s, s ∈ lens.map (·.1) ↔ s ∈ S) :
    ∃ codes t, Huff.craftWmCodes 4 lens (Utils.asUsize (Spec.maxNat S)) = .ok codes ∧
      C02.WMValid 4 codes (lens.map (·.1)) ∧
      Huff.new c S.toArray lens = .ok t ∧
      (∀ i, Huff.get c t i = .ok S[i]?) ∧
      (∀ sym i, Huff.rank c t sym i =
        .ok (if sym ∈ S ∧ i ≤ S.length then some (Spec.rank sym i S) else none)) ∧
      (∀ sym k, Huff.select c t sym k = .ok (if sym ∈ S then Spec.select sym k S else none)) ∧
      (∀ p ∈ lens, codes[p.1]!.len = 2 * p.2) ∧
      2 * t.lens.toList.sum = (S.map (fun x => codes[x]!.len)).sum := by
  obtain ⟨codes, t, h1, h2, h3, _, h5, h6, h7, h8, h9⟩ :=
    C02.hqwt_correct c hW (levelLaw c.dbg hB) (Qwt.HQWM.pfsTotalH c) S hne hb hS lens hlens hsyms
  exact ⟨codes, t, h1, h2, h3, h5, h6, h7, h8, h9⟩

/-! ## C01 / C09: the plain quad tree on all four aliases (with and without prefetch support) -/

section qwt_all
variable {c : Cfg} {S : List Nat} {t : QWTree.QWT}
  (hB : c.B = 256 ∨ c.B = 512) (hW : 0 < c.W)
  (hS : ∀ x ∈ S, x < 2 ^ c.W) (hlen : S.length < 2 ^ 43)
  (hnew : QWTree.new c S.toArray = .ok t)
include hB hW hS hlen hnew

theorem qwt_get_all (i : Nat) : QWTree.get c t i = .ok S[i]? :=
  C09.get_ok hB hW hS hlen hnew i

theorem qwt_rank_all (sym i : Nat) : QWTree.rank c t sym i =
    .ok (if S ≠ [] ∧ sym ≤ Spec.maxNat S ∧ i ≤ S.length then some (Spec.rank sym i S) else none) :=
  C09.rank_ok hB hW hS hlen hnew sym i

theorem qwt_select_all (sym k : Nat) : QWTree.select c t sym k =
    .ok (if S ≠ [] ∧ sym ≤ Spec.maxNat S then Spec.select sym k S else none) :=
  C09.select_ok hB hW hS hlen hnew sym k

theorem qwt_rankPrefetch_all (sym i : Nat) :
    QWTree.rankPrefetch c t sym i = QWTree.rank c t sym i :=
  C09.rankPrefetch_eq_rank hB hW hS hlen hnew sym i

end qwt_all

end Qwt.Props.Closed
