import Qwt.Props.Closed
import Qwt.Props.C08
import Qwt.Props.C13
import Qwt.Proofs.Corollaries

/-!
# C10 — unchecked variants equal the checked ones on valid arguments, in every build

"Whenever the documented precondition of an unchecked method holds (index in range, valid
symbol, occurrence exists), `get_unchecked`, `rank_unchecked`, `select_unchecked`,
`rank1/rank0_unchecked`, `select1/select0_unchecked`, `occs_unchecked`,
`occs_smaller_unchecked`, `rank_prefetch_unchecked` and `get_bits_unchecked` return exactly the
value the corresponding checked method returns, in builds with and without debug assertions."

Every theorem below has the form

  `precondition → unchecked … = .ok v ∧ checked … = .ok (some v)`

for the SAME `v` (the value of the list specification), i.e. no fault on either side and equal
values.  The build profile is the flag `dbg` (`Cfg.dbg` for the trees): it is universally
quantified in every statement, so each theorem covers the optimised build (`dbg = false`) and
the build with debug assertions and overflow checks (`dbg = true`); the `…_both` corollaries
spell the two instances out.  `BitVector`, `RSWide`, `RSNarrow` and `DArray` contain no debug
assertion in the model (their model functions do not take `dbg`: the Rust code has no
`debug_assert!` there and every arithmetic operation is modelled with its overflow check in
both profiles), so their statements hold verbatim in both builds.

All statements are closed: the hypotheses are about the configuration (`B ∈ {256, 512}`,
element width), the input (elements fit, length `< 2^43`) and — for the Huffman-shaped trees —
the length table handed over by the external crate (`LensOK`), plus the precondition itself.

* §1 `QWaveletTree` (all four aliases: both block sizes, with and without prefetch support)
* §2 `HuffQWaveletTree` (all four aliases)
* §3 `WT` / `HWT`
* §4 `RSQVector`
* §5 `RSWide` / `RSNarrow`
* §6 `BitVector`, `QVector`
* §7 `DArray` (`select1_unchecked` / `select0_unchecked` are `select(..).unwrap()`)
-/
set_option linter.unusedVariables false
set_option linter.unusedSectionVars false

namespace Qwt.Props.C10
open Qwt

/-- the shape of every statement of this file -/
def Agree {α : Type} (unchecked : M α) (checked : M (Option α)) (v : α) : Prop :=
  unchecked = .ok v ∧ checked = .ok (some v)

theorem Agree.same {α : Type} {u : M α} {ck : M (Option α)} {v : α} (h : Agree u ck v) :
    (u.map some) = ck := by
  rw [h.1, h.2]; rfl

theorem Agree.no_fault {α : Type} {u : M α} {ck : M (Option α)} {v : α} (h : Agree u ck v) :
    (∀ f, u ≠ .error f) ∧ (∀ f, ck ≠ .error f) :=
  ⟨Cor.no_fault h.1, Cor.no_fault h.2⟩

/-- an occurrence that exists belongs to a non-empty sequence and a valid symbol -/
theorem select_some_valid {S : List Nat} {sym k p : Nat} (h : Spec.select sym k S = some p) :
    S ≠ [] ∧ sym ∈ S ∧ sym ≤ Spec.maxNat S := by
  have hmem : sym ∈ S := by
    apply Classical.byContradiction
    intro hns
    have : S.count sym = 0 := List.count_eq_zero.mpr hns
    rw [BinWM.select_none (by omega)] at h
    cases h
  exact ⟨List.ne_nil_of_mem hmem, hmem, QWTree.le_maxNat hmem⟩

/-! ## 1. the plain quad wavelet tree, every configuration -/

section qwt
variable {c : Cfg} {S : List Nat} {t : QWTree.QWT}
  (hB : c.B = 256 ∨ c.B = 512) (hW : 0 < c.W)
  (hS : ∀ x ∈ S, x < 2 ^ c.W) (hlen : S.length < 2 ^ 43)
  (hnew : QWTree.new c S.toArray = .ok t)
include hB hW hS hlen hnew

theorem qwt_getUnchecked_ok (i : Nat) (hi : i < S.length) :
    QWTree.getUnchecked c t i = .ok S[i] :=
  (C09.wmp_of_new hB hW hS hlen hnew).wm.getUnchecked_eq hS i hi

theorem qwt_rankUnchecked_ok (sym i : Nat) (hne : S ≠ []) (hsym : sym ≤ Spec.maxNat S)
    (hi : i ≤ S.length) : QWTree.rankUnchecked c t sym i = .ok (Spec.rank sym i S) :=
  (C09.wmp_of_new hB hW hS hlen hnew).wm.rankUnchecked_eq hW hS sym i hne hsym hi

theorem qwt_selectUnchecked_ok (sym k p : Nat) (hsel : Spec.select sym k S = some p) :
    QWTree.selectUnchecked c t sym k = .ok p := by
  obtain ⟨hne, _, hsym⟩ := select_some_valid hsel
  unfold QWTree.selectUnchecked
  rw [C09.select_ok hB hW hS hlen hnew, if_pos ⟨hne, hsym⟩, hsel]
  rfl

/-- `get_unchecked(i)` = `get(i)` for `i < len` -/
theorem qwt_get (i : Nat) (hi : i < S.length) :
    Agree (QWTree.getUnchecked c t i) (QWTree.get c t i) S[i] :=
  ⟨qwt_getUnchecked_ok hB hW hS hlen hnew i hi, by
    rw [C09.get_ok hB hW hS hlen hnew, List.getElem?_eq_getElem hi]⟩

/-- `rank_unchecked(sym, i)` = `rank(sym, i)` for a valid symbol and `i ≤ len` -/
theorem qwt_rank (sym i : Nat) (hne : S ≠ []) (hsym : sym ≤ Spec.maxNat S) (hi : i ≤ S.length) :
    Agree (QWTree.rankUnchecked c t sym i) (QWTree.rank c t sym i) (Spec.rank sym i S) :=
  ⟨qwt_rankUnchecked_ok hB hW hS hlen hnew sym i hne hsym hi, by
    rw [C09.rank_ok hB hW hS hlen hnew, if_pos ⟨hne, hsym, hi⟩]⟩

/-- `select_unchecked(sym, k)` = `select(sym, k)` when the occurrence exists -/
theorem qwt_select (sym k p : Nat) (hsel : Spec.select sym k S = some p) :
    Agree (QWTree.selectUnchecked c t sym k) (QWTree.select c t sym k) p := by
  obtain ⟨hne, _, hsym⟩ := select_some_valid hsel
  exact ⟨qwt_selectUnchecked_ok hB hW hS hlen hnew sym k p hsel, by
    rw [C09.select_ok hB hW hS hlen hnew, if_pos ⟨hne, hsym⟩, hsel]⟩

/-- `rank_prefetch_unchecked(sym, i)` = `rank_prefetch(sym, i)` (= `rank(sym, i)`) -/
theorem qwt_rankPrefetch (sym i : Nat) (hne : S ≠ []) (hsym : sym ≤ Spec.maxNat S)
    (hi : i ≤ S.length) :
    Agree (QWTree.rankPrefetchUnchecked c t sym i) (QWTree.rankPrefetch c t sym i)
      (Spec.rank sym i S) :=
  ⟨C09.rankPrefetchUnchecked_ok hB hW hS hlen hnew sym i hne hsym hi, by
    rw [C09.rankPrefetch_ok hB hW hS hlen hnew, if_pos ⟨hne, hsym, hi⟩]⟩

/-- the four unchecked methods among themselves: `rank_prefetch_unchecked = rank_unchecked` -/
theorem qwt_rankPrefetchUnchecked_eq (sym i : Nat) (hne : S ≠ []) (hsym : sym ≤ Spec.maxNat S)
    (hi : i ≤ S.length) :
    QWTree.rankPrefetchUnchecked c t sym i = QWTree.rankUnchecked c t sym i := by
  rw [C09.rankPrefetchUnchecked_ok hB hW hS hlen hnew sym i hne hsym hi,
    qwt_rankUnchecked_ok hB hW hS hlen hnew sym i hne hsym hi]

end qwt

/-- both build profiles, spelled out: whatever the flag `d`, on the tree built in that profile
    the unchecked and the checked methods return the same (specified) values -/
theorem qwt_both (c : Cfg) {S : List Nat} (hB : c.B = 256 ∨ c.B = 512) (hW : 0 < c.W)
    (hS : ∀ x ∈ S, x < 2 ^ c.W) (hlen : S.length < 2 ^ 43) (d : Bool) {t : QWTree.QWT}
    (hnew : QWTree.new { c with dbg := d } S.toArray = .ok t) :
    (∀ i (hi : i < S.length),
      Agree (QWTree.getUnchecked { c with dbg := d } t i) (QWTree.get { c with dbg := d } t i) S[i]) ∧
    (∀ sym i, S ≠ [] → sym ≤ Spec.maxNat S → i ≤ S.length →
      Agree (QWTree.rankUnchecked { c with dbg := d } t sym i)
        (QWTree.rank { c with dbg := d } t sym i) (Spec.rank sym i S)) ∧
    (∀ sym i, S ≠ [] → sym ≤ Spec.maxNat S → i ≤ S.length →
      Agree (QWTree.rankPrefetchUnchecked { c with dbg := d } t sym i)
        (QWTree.rankPrefetch { c with dbg := d } t sym i) (Spec.rank sym i S)) ∧
    (∀ sym k p, Spec.select sym k S = some p →
      Agree (QWTree.selectUnchecked { c with dbg := d } t sym k)
        (QWTree.select { c with dbg := d } t sym k) p) :=
  ⟨fun i hi => qwt_get (c := { c with dbg := d }) hB hW hS hlen hnew i hi,
   fun sym i h1 h2 h3 => qwt_rank (c := { c with dbg := d }) hB hW hS hlen hnew sym i h1 h2 h3,
   fun sym i h1 h2 h3 =>
     qwt_rankPrefetch (c := { c with dbg := d }) hB hW hS hlen hnew sym i h1 h2 h3,
   fun sym k p h => qwt_select (c := { c with dbg := d }) hB hW hS hlen hnew sym k p h⟩

/-! ## 2. the Huffman-shaped quad wavelet tree, every configuration -/

section hqwt
open Qwt.Props.C02 (WMValid LensOK)
variable (c : Cfg) (hB : c.B = 256 ∨ c.B = 512) (hW : c.W ≤ 64) (S : List Nat)
  (hne : S ≠ []) (hb : ∀ x ∈ S, x < 2 ^ c.W) (hS : S.length < 2 ^ 43) (lens : List (Nat × Nat))

section codes
variable (codes : Array Huff.PrefixCode)
  (hcraft : Huff.craftWmCodes 4 lens (Utils.asUsize (Spec.maxNat S)) = .ok codes)
  (occ : List Nat) (hv : WMValid 4 codes occ) (hocc : ∀ s, s ∈ occ ↔ s ∈ S)
  {t : Huff.HQWT} (ht : Huff.new c S.toArray lens = .ok t)
include hB hW hne hb hS hcraft hv hocc ht

/-- `rank_prefetch_unchecked` inside its precondition (both `pfs` settings) -/
theorem hqwt_rankPrefetchUnchecked_ok' (sym i : Nat) (hs : sym ∈ S) (hi : i ≤ S.length) :
    Huff.rankPrefetchUnchecked c t sym i = .ok (Spec.rank sym i S) := by
  have h := C09.hqwt_inv c hB hW S hne hb hS lens codes hcraft occ hv hocc ht
  have h1 := C09.hqwt_pfsPhase1_ok c hB hW S hne hb hS lens codes hcraft occ hv hocc ht sym i hs hi
  have h2 := HQWM.inv_phase2 h hs i hi
  have h3 := HQWM.inv_rankUnchecked h sym i hs hi
  unfold Huff.rankPrefetchUnchecked
  rw [HQWM.lookupQ h hs, BinWM.ok_bind, h1, h2, h3]
  cases c.pfs <;> rfl

end codes

variable (hlens : LensOK 4 lens) (hsyms : ∀ s, s ∈ lens.map (·.1) ↔ s ∈ S)
  {t : Huff.HQWT} (ht : Huff.new c S.toArray lens = .ok t)
include hB hW hne hb hS hlens hsyms ht

/-- the crafted table exists and is valid (from the closed C02 theorem) -/
theorem hqwt_codes : ∃ codes, Huff.craftWmCodes 4 lens (Utils.asUsize (Spec.maxNat S)) = .ok codes ∧
    WMValid 4 codes (lens.map (·.1)) := by
  obtain ⟨codes, _, h1, h2, _⟩ := Closed.hqwt_correct c hB hW S hne hb hS lens hlens hsyms
  exact ⟨codes, h1, h2⟩

theorem hqwt_getUnchecked_ok (i : Nat) (hi : i < S.length) :
    Huff.getUnchecked c t i = .ok S[i] := by
  obtain ⟨codes, hc, hv⟩ := hqwt_codes c hB hW S hne hb hS lens hlens hsyms ht
  exact C02.hqwt_getUnchecked_ok c hW (Closed.levelLaw c.dbg hB) (C09.pfsTotalH c) S hne hb hS lens
    codes hc _ hv hsyms ht i hi

theorem hqwt_rankUnchecked_ok (sym i : Nat) (hs : sym ∈ S) (hi : i ≤ S.length) :
    Huff.rankUnchecked c t sym i = .ok (Spec.rank sym i S) := by
  obtain ⟨codes, hc, hv⟩ := hqwt_codes c hB hW S hne hb hS lens hlens hsyms ht
  exact C02.hqwt_rankUnchecked_ok c hW (Closed.levelLaw c.dbg hB) (C09.pfsTotalH c) S hne hb hS lens
    codes hc _ hv hsyms ht sym i hs hi

theorem hqwt_selectUnchecked_ok (sym k p : Nat) (hp : Spec.select sym k S = some p) :
    Huff.selectUnchecked c t sym k = .ok p := by
  obtain ⟨codes, hc, hv⟩ := hqwt_codes c hB hW S hne hb hS lens hlens hsyms ht
  exact C02.hqwt_selectUnchecked_ok c hW (Closed.levelLaw c.dbg hB) (C09.pfsTotalH c) S hne hb hS
    lens codes hc _ hv hsyms ht sym k p hp

theorem hqwt_rankPrefetchUnchecked_ok (sym i : Nat) (hs : sym ∈ S) (hi : i ≤ S.length) :
    Huff.rankPrefetchUnchecked c t sym i = .ok (Spec.rank sym i S) := by
  obtain ⟨codes, hc, hv⟩ := hqwt_codes c hB hW S hne hb hS lens hlens hsyms ht
  exact hqwt_rankPrefetchUnchecked_ok' c hB hW S hne hb hS lens codes hc _ hv hsyms ht sym i hs hi

theorem hqwt_get_ok (i : Nat) : Huff.get c t i = .ok S[i]? := by
  obtain ⟨codes, hc, hv⟩ := hqwt_codes c hB hW S hne hb hS lens hlens hsyms ht
  exact C02.hqwt_get_ok c hW (Closed.levelLaw c.dbg hB) (C09.pfsTotalH c) S hne hb hS lens
    codes hc _ hv hsyms ht i

theorem hqwt_rank_ok (sym i : Nat) : Huff.rank c t sym i =
    .ok (if sym ∈ S ∧ i ≤ S.length then some (Spec.rank sym i S) else none) := by
  obtain ⟨codes, hc, hv⟩ := hqwt_codes c hB hW S hne hb hS lens hlens hsyms ht
  exact C02.hqwt_rank_ok c hW (Closed.levelLaw c.dbg hB) (C09.pfsTotalH c) S hne hb hS lens
    codes hc _ hv hsyms ht sym i

theorem hqwt_select_ok (sym k : Nat) : Huff.select c t sym k =
    .ok (if sym ∈ S then Spec.select sym k S else none) := by
  obtain ⟨codes, hc, hv⟩ := hqwt_codes c hB hW S hne hb hS lens hlens hsyms ht
  exact C02.hqwt_select_ok c hW (Closed.levelLaw c.dbg hB) (C09.pfsTotalH c) S hne hb hS lens
    codes hc _ hv hsyms ht sym k

theorem hqwt_rankPrefetch_ok (sym i : Nat) : Huff.rankPrefetch c t sym i =
    .ok (if sym ∈ S ∧ i ≤ S.length then some (Spec.rank sym i S) else none) := by
  obtain ⟨codes, hc, hv⟩ := hqwt_codes c hB hW S hne hb hS lens hlens hsyms ht
  exact C09.hqwt_rankPrefetch_ok c hB hW S hne hb hS lens codes hc _ hv hsyms ht sym i

theorem hqwt_get (i : Nat) (hi : i < S.length) :
    Agree (Huff.getUnchecked c t i) (Huff.get c t i) S[i] :=
  ⟨hqwt_getUnchecked_ok c hB hW S hne hb hS lens hlens hsyms ht i hi, by
    rw [hqwt_get_ok c hB hW S hne hb hS lens hlens hsyms ht, List.getElem?_eq_getElem hi]⟩

/-- valid symbol = a symbol that occurs (the only ones with a code) -/
theorem hqwt_rank (sym i : Nat) (hs : sym ∈ S) (hi : i ≤ S.length) :
    Agree (Huff.rankUnchecked c t sym i) (Huff.rank c t sym i) (Spec.rank sym i S) :=
  ⟨hqwt_rankUnchecked_ok c hB hW S hne hb hS lens hlens hsyms ht sym i hs hi, by
    rw [hqwt_rank_ok c hB hW S hne hb hS lens hlens hsyms ht, if_pos ⟨hs, hi⟩]⟩

theorem hqwt_rankPrefetch (sym i : Nat) (hs : sym ∈ S) (hi : i ≤ S.length) :
    Agree (Huff.rankPrefetchUnchecked c t sym i) (Huff.rankPrefetch c t sym i)
      (Spec.rank sym i S) :=
  ⟨hqwt_rankPrefetchUnchecked_ok c hB hW S hne hb hS lens hlens hsyms ht sym i hs hi, by
    rw [hqwt_rankPrefetch_ok c hB hW S hne hb hS lens hlens hsyms ht, if_pos ⟨hs, hi⟩]⟩

theorem hqwt_select (sym k p : Nat) (hp : Spec.select sym k S = some p) :
    Agree (Huff.selectUnchecked c t sym k) (Huff.select c t sym k) p :=
  ⟨hqwt_selectUnchecked_ok c hB hW S hne hb hS lens hlens hsyms ht sym k p hp, by
    rw [hqwt_select_ok c hB hW S hne hb hS lens hlens hsyms ht, if_pos (select_some_valid hp).2.1,
      hp]⟩

end hqwt

/-! ## 3. the binary wavelet trees `WT` and `HWT` -/

section wt
variable (c : Cfg) (hW : 0 < c.W) (S : List Nat) (hb : ∀ x ∈ S, x < 2 ^ c.W)
  (hS : S.length < 2 ^ 43) {t : BinWT.WT} (ht : BinWT.new c false S.toArray [] = .ok t)
include hW hb hS ht

theorem wt_get (i : Nat) (hi : i < S.length) :
    Agree (BinWT.getUnchecked c false t i) (BinWT.get c false t i) S[i] :=
  ⟨C03.wt_getUnchecked_ok c hW Closed.binLevelLaw S hb hS ht i hi, by
    rw [Closed.wt_get c hW S hb hS ht, List.getElem?_eq_getElem hi]⟩

theorem wt_rank (sym i : Nat) (hne : S ≠ []) (hsym : sym ≤ Spec.maxNat S) (hi : i ≤ S.length) :
    Agree (BinWT.rankUnchecked c false t sym i) (BinWT.rank c false t sym i)
      (Spec.rank sym i S) :=
  ⟨C03.wt_rankUnchecked_ok c hW Closed.binLevelLaw S hb hS ht sym i hsym hi hne, by
    rw [Closed.wt_rank c hW S hb hS ht, if_pos ⟨hne, hsym, hi⟩]⟩

theorem wt_select (sym k p : Nat) (hp : Spec.select sym k S = some p) :
    Agree (BinWT.selectUnchecked c false t sym k) (BinWT.select c false t sym k) p := by
  obtain ⟨hne, _, hsym⟩ := select_some_valid hp
  exact ⟨C03.wt_selectUnchecked_ok c hW Closed.binLevelLaw S hb hS ht sym k p hsym hp, by
    rw [Closed.wt_select c hW S hb hS ht, if_pos ⟨hne, hsym⟩, hp]⟩

end wt

section hwt
open Qwt.Props.C02 (LensOK WMValid)
variable (c : Cfg) (hW : c.W ≤ 64) (S : List Nat) (hne : S ≠ [])
  (hb : ∀ x ∈ S, x < 2 ^ c.W) (hS : S.length < 2 ^ 43) (lens : List (Nat × Nat))
  (hlens : LensOK 2 lens) (hocc : ∀ s, s ∈ lens.map (·.1) ↔ s ∈ S)
  {t : BinWT.WT} (ht : BinWT.new c true S.toArray lens = .ok t)
include hW hne hb hS hlens hocc ht

theorem hwt_getUnchecked_ok (i : Nat) (hi : i < S.length) :
    BinWT.getUnchecked c true t i = .ok S[i] := by
  obtain ⟨codes, hc, hv⟩ := Closed.hwt_codes c hW S hne hb hS lens hlens hocc
  exact C03.hwt_getUnchecked_ok c hW Closed.binLevelLaw S hne hb hS lens codes hc _ hv hocc ht i hi

theorem hwt_rankUnchecked_ok (sym i : Nat) (hs : sym ∈ S) (hi : i ≤ S.length) :
    BinWT.rankUnchecked c true t sym i = .ok (Spec.rank sym i S) := by
  obtain ⟨codes, hc, hv⟩ := Closed.hwt_codes c hW S hne hb hS lens hlens hocc
  exact C03.hwt_rankUnchecked_ok c hW Closed.binLevelLaw S hne hb hS lens codes hc _ hv hocc ht
    sym i hs hi

theorem hwt_selectUnchecked_ok (sym k p : Nat) (hp : Spec.select sym k S = some p) :
    BinWT.selectUnchecked c true t sym k = .ok p := by
  unfold BinWT.selectUnchecked
  rw [Closed.hwt_select c hW S hne hb hS lens hlens hocc ht, if_pos (select_some_valid hp).2.1, hp]
  rfl

theorem hwt_get (i : Nat) (hi : i < S.length) :
    Agree (BinWT.getUnchecked c true t i) (BinWT.get c true t i) S[i] :=
  ⟨hwt_getUnchecked_ok c hW S hne hb hS lens hlens hocc ht i hi, by
    rw [Closed.hwt_get c hW S hne hb hS lens hlens hocc ht, List.getElem?_eq_getElem hi]⟩

theorem hwt_rank (sym i : Nat) (hs : sym ∈ S) (hi : i ≤ S.length) :
    Agree (BinWT.rankUnchecked c true t sym i) (BinWT.rank c true t sym i) (Spec.rank sym i S) :=
  ⟨hwt_rankUnchecked_ok c hW S hne hb hS lens hlens hocc ht sym i hs hi, by
    rw [Closed.hwt_rank c hW S hne hb hS lens hlens hocc ht, if_pos ⟨hs, hi⟩]⟩

theorem hwt_select (sym k p : Nat) (hp : Spec.select sym k S = some p) :
    Agree (BinWT.selectUnchecked c true t sym k) (BinWT.select c true t sym k) p :=
  ⟨hwt_selectUnchecked_ok c hW S hne hb hS lens hlens hocc ht sym k p hp, by
    rw [Closed.hwt_select c hW S hne hb hS lens hlens hocc ht, if_pos (select_some_valid hp).2.1,
      hp]⟩

end hwt

/-! ## 4. `RSQVector`

From the representation invariant `RepInv B r s` (what `RSQVector::from` establishes), for the
query flag `dbg` arbitrary — independent of the flag the structure was built with. -/

/-- an occurrence that exists is below the number of occurrences -/
theorem select_some_lt {α : Type} [BEq α] [LawfulBEq α] {c : α} {k p : Nat} {s : List α}
    (h : Spec.select c k s = some p) : k < s.count c := by
  apply Nat.lt_of_not_le
  intro hle
  rw [BinWM.select_none hle] at h
  cases h

section rsq
open Qwt.RSQP (RepInv)
variable {B : Nat} {r : RSQ.RSQVector} {s : List Nat} (h : RepInv B r s) (dbg : Bool)
include h

theorem rsq_get (i : Nat) (hi : i < s.length) :
    Agree (RSQ.getUnchecked dbg r i) (RSQ.get dbg r i) s[i] :=
  ⟨by rw [C05.getU_ok h dbg i hi, List.getD_eq_getElem?_getD, List.getElem?_eq_getElem hi]; rfl,
   by rw [C05.get_ok h dbg i, List.getElem?_eq_getElem hi]⟩

theorem rsq_rank (c i : Nat) (hc : c ≤ 3) (hi : i ≤ s.length) :
    Agree (RSQ.rankUnchecked dbg B r c i) (RSQ.rank dbg B r c i) (Spec.rank c i s) :=
  ⟨C05.rankU_ok h dbg c i hc hi, by rw [C05.rank_ok h dbg c i, if_pos ⟨hc, hi⟩]⟩

theorem rsq_select (c k p : Nat) (hc : c ≤ 3) (hp : Spec.select c k s = some p) :
    Agree (RSQ.selectUnchecked dbg B r c k) (RSQ.select dbg B r c k) p :=
  ⟨C05.selectU_ok Closed.selHyp h dbg c k p hc hp, by
    rw [C05.select_ok Closed.selHyp h dbg c k, if_pos hc, hp]⟩

theorem rsq_occs (c : Nat) (hc : c ≤ 3) :
    Agree (RSQ.occsUnchecked dbg r c) (RSQ.occs dbg r c) (s.count c) :=
  ⟨C05.occsU_ok h dbg c hc, by rw [C05.occs_ok h dbg c, if_pos hc]⟩

theorem rsq_occsSmaller (c : Nat) (hc : c ≤ 3) :
    Agree (RSQ.occsSmallerUnchecked dbg r c) (RSQ.occsSmaller dbg r c)
      (Spec.occsSmaller id c s) :=
  ⟨C05.occsSmallerU_ok h dbg c hc, by rw [C05.occsSmaller_ok h dbg c, if_pos hc]⟩

end rsq

/-- every `RSQVector` built from a well-formed quad vector (`From<QVector>`), in either build,
    satisfies the invariant -/
theorem rsq_fromQV_repInv {B : Nat} (dbg0 : Bool) (hB : B = 256 ∨ B = 512) {qv : QV.QVector}
    (hq : QV.Inv qv) (hl : (QV.abs qv).length < 2 ^ 43) {r : RSQ.RSQVector}
    (hr : RSQ.fromQV dbg0 B qv = .ok r) : RSQP.RepInv B r (QV.abs qv) := by
  obtain ⟨r', e, hinv⟩ := C05.fromQV_repInv (B := B) dbg0 hB (RSQP.holds_of_inv hq)
    (QV.abs_lt_four qv) hl
  rw [hr] at e; cases e; exact hinv

/-- … and so does every one built by `new` / `collect` from arbitrary integers -/
theorem rsq_new_repInv {B : Nat} (dbg0 : Bool) (hB : B = 256 ∨ B = 512) (vals : List Int)
    (hl : vals.length < 2 ^ 43) {r : RSQ.RSQVector} (hr : RSQ.new dbg0 B vals = .ok r) :
    RSQP.RepInv B r (vals.map (fun v => (v % 4).toNat)) := by
  obtain ⟨q, e, hq, a⟩ := C13.fromIter_ok vals (by
    have : two64 = 2 ^ 64 := by decide
    omega)
  unfold RSQ.new at hr
  rw [e] at hr
  have hr' : RSQ.fromQV dbg0 B q = .ok r := hr
  rw [← a]
  exact rsq_fromQV_repInv dbg0 hB hq (by rw [a, List.length_map]; exact hl) hr'

/-- the closed statement: structure built in profile `dbg0`, queried in profile `dbg` (in
    particular `dbg = dbg0 = false` and `dbg = dbg0 = true`) -/
theorem rsq_all {B : Nat} (dbg0 dbg : Bool) (hB : B = 256 ∨ B = 512) {qv : QV.QVector}
    (hq : QV.Inv qv) (hl : (QV.abs qv).length < 2 ^ 43) {r : RSQ.RSQVector}
    (hr : RSQ.fromQV dbg0 B qv = .ok r) :
    (∀ i (hi : i < (QV.abs qv).length),
      Agree (RSQ.getUnchecked dbg r i) (RSQ.get dbg r i) (QV.abs qv)[i]) ∧
    (∀ c i, c ≤ 3 → i ≤ (QV.abs qv).length →
      Agree (RSQ.rankUnchecked dbg B r c i) (RSQ.rank dbg B r c i) (Spec.rank c i (QV.abs qv))) ∧
    (∀ c k p, c ≤ 3 → Spec.select c k (QV.abs qv) = some p →
      Agree (RSQ.selectUnchecked dbg B r c k) (RSQ.select dbg B r c k) p) ∧
    (∀ c, c ≤ 3 → Agree (RSQ.occsUnchecked dbg r c) (RSQ.occs dbg r c) ((QV.abs qv).count c)) ∧
    (∀ c, c ≤ 3 → Agree (RSQ.occsSmallerUnchecked dbg r c) (RSQ.occsSmaller dbg r c)
      (Spec.occsSmaller id c (QV.abs qv))) := by
  have h := rsq_fromQV_repInv dbg0 hB hq hl hr
  exact ⟨fun i hi => rsq_get h dbg i hi, fun c i hc hi => rsq_rank h dbg c i hc hi,
    fun c k p hc hp => rsq_select h dbg c k p hc hp, fun c hc => rsq_occs h dbg c hc,
    fun c hc => rsq_occsSmaller h dbg c hc⟩

/-! ## 5. `RSWide` and `RSNarrow` (no debug assertion in either: one statement for both builds) -/

section rsw
variable {r : RSW.RSWide} {s : List Bool} (hv : RSW.Inv r s)
include hv

theorem rsw_get (i : Nat) (hi : i < s.length) :
    Agree (RSW.getUnchecked r i) (RSW.get r i) s[i] :=
  ⟨by rw [C06.rsw_getUnchecked hv i hi, List.getD_eq_getElem?_getD, List.getElem?_eq_getElem hi]; rfl,
   by rw [C06.rsw_get hv i, List.getElem?_eq_getElem hi]⟩

theorem rsw_rank1 (i : Nat) (hne : s ≠ []) (hi : i ≤ s.length) :
    Agree (RSW.rank1Unchecked r i) (RSW.rank1 r i) (Spec.rank true i s) :=
  ⟨C06.rsw_rank1Unchecked hv i hi, by rw [C06.rsw_rank1 hv i, if_pos ⟨hne, hi⟩]⟩

theorem rsw_rank0 (i : Nat) (hne : s ≠ []) (hi : i ≤ s.length) :
    Agree (RSW.rank0Unchecked r i) (RSW.rank0 r i) (Spec.rank false i s) :=
  ⟨C06.rsw_rank0Unchecked hv i hi, by rw [C06.rsw_rank0 hv i, if_pos ⟨hne, hi⟩]⟩

theorem rsw_select1 (k p : Nat) (hp : Spec.select true k s = some p) :
    Agree (RSW.selectUnchecked r true k) (RSW.select1 r k) p := by
  obtain ⟨p', h1, h2⟩ := C06.rsw_selectUnchecked Closed.selSpec hv true k (select_some_lt hp)
  rw [hp] at h2; cases h2
  exact ⟨h1, by rw [C06.rsw_select1 Closed.selSpec hv k, hp]⟩

theorem rsw_select0 (k p : Nat) (hp : Spec.select false k s = some p) :
    Agree (RSW.selectUnchecked r false k) (RSW.select0 r k) p := by
  obtain ⟨p', h1, h2⟩ := C06.rsw_selectUnchecked Closed.selSpec hv false k (select_some_lt hp)
  rw [hp] at h2; cases h2
  exact ⟨h1, by rw [C06.rsw_select0 Closed.selSpec hv k, hp]⟩

end rsw

/-- every `RSWide` built from a well-formed bit vector satisfies the invariant -/
theorem rsw_new_inv {b : BV.BitVector} (hb : BV.Inv b) (hl : (BV.abs b).length < 2 ^ 43)
    {r : RSW.RSWide} (hr : RSW.new b = .ok r) : RSW.Inv r (BV.abs b) := by
  obtain ⟨r', e, _, hinv⟩ := C06.rsw_new_inv (C06.holds_of_inv hb) hl
  rw [hr] at e; cases e; exact hinv

theorem rsw_all {b : BV.BitVector} (hb : BV.Inv b) (hl : (BV.abs b).length < 2 ^ 43)
    {r : RSW.RSWide} (hr : RSW.new b = .ok r) :
    (∀ i (hi : i < (BV.abs b).length), Agree (RSW.getUnchecked r i) (RSW.get r i) (BV.abs b)[i]) ∧
    (∀ i, BV.abs b ≠ [] → i ≤ (BV.abs b).length →
      Agree (RSW.rank1Unchecked r i) (RSW.rank1 r i) (Spec.rank true i (BV.abs b))) ∧
    (∀ i, BV.abs b ≠ [] → i ≤ (BV.abs b).length →
      Agree (RSW.rank0Unchecked r i) (RSW.rank0 r i) (Spec.rank false i (BV.abs b))) ∧
    (∀ k p, Spec.select true k (BV.abs b) = some p →
      Agree (RSW.selectUnchecked r true k) (RSW.select1 r k) p) ∧
    (∀ k p, Spec.select false k (BV.abs b) = some p →
      Agree (RSW.selectUnchecked r false k) (RSW.select0 r k) p) := by
  have h := rsw_new_inv hb hl hr
  exact ⟨fun i hi => rsw_get h i hi, fun i hne hi => rsw_rank1 h i hne hi,
    fun i hne hi => rsw_rank0 h i hne hi, fun k p hp => rsw_select1 h k p hp,
    fun k p hp => rsw_select0 h k p hp⟩

section rsn
variable {r : RSN.RSNarrow} {s : List Bool} (hv : RSN.Inv r s)
include hv

theorem rsn_rank1 (i : Nat) (hne : s ≠ []) (hi : i ≤ s.length) :
    Agree (RSN.rank1Unchecked r i) (RSN.rank1 r i) (Spec.rank true i s) :=
  ⟨C06.rsn_rank1Unchecked hv i hi, by rw [C06.rsn_rank1 hv i, if_pos ⟨hne, hi⟩]⟩

theorem rsn_select1 (k p : Nat) (hp : Spec.select true k s = some p) :
    Agree (RSN.selectUnchecked r true k) (RSN.select1 r k) p := by
  obtain ⟨p', h1, h2⟩ := C06.rsn_selectUnchecked Closed.selSpec hv true k (select_some_lt hp)
  rw [hp] at h2; cases h2
  exact ⟨h1, by rw [C06.rsn_select1 Closed.selSpec hv k, hp]⟩

theorem rsn_select0 (k p : Nat) (hp : Spec.select false k s = some p) :
    Agree (RSN.selectUnchecked r false k) (RSN.select0 r k) p := by
  obtain ⟨p', h1, h2⟩ := C06.rsn_selectUnchecked Closed.selSpec hv false k (select_some_lt hp)
  rw [hp] at h2; cases h2
  exact ⟨h1, by rw [C06.rsn_select0 Closed.selSpec hv k, hp]⟩

end rsn

theorem rsn_new_inv {b : BV.BitVector} (hb : BV.Inv b) {r : RSN.RSNarrow}
    (hr : RSN.new b = .ok r) : RSN.Inv r (BV.abs b) := by
  obtain ⟨r', e, _, hinv⟩ := C06.rsn_new_inv (C06.holds_of_inv hb)
  rw [hr] at e; cases e; exact hinv

theorem rsn_all {b : BV.BitVector} (hb : BV.Inv b) {r : RSN.RSNarrow} (hr : RSN.new b = .ok r) :
    (∀ i, BV.abs b ≠ [] → i ≤ (BV.abs b).length →
      Agree (RSN.rank1Unchecked r i) (RSN.rank1 r i) (Spec.rank true i (BV.abs b))) ∧
    (∀ k p, Spec.select true k (BV.abs b) = some p →
      Agree (RSN.selectUnchecked r true k) (RSN.select1 r k) p) ∧
    (∀ k p, Spec.select false k (BV.abs b) = some p →
      Agree (RSN.selectUnchecked r false k) (RSN.select0 r k) p) := by
  have h := rsn_new_inv hb hr
  exact ⟨fun i hne hi => rsn_rank1 h i hne hi, fun k p hp => rsn_select1 h k p hp,
    fun k p hp => rsn_select0 h k p hp⟩

/-! ## 6. `BitVector` / `BitVectorMut` and `QVector`

`b` is any bit vector satisfying the C08 invariant — in particular every vector reachable by
the constructors and mutators (`C08.reachable_inv`). -/

section bv
variable (b : BV.BitVector) (hb : BV.Inv b)
include hb

theorem bv_get (i : Nat) (hi : i < (BV.abs b).length) :
    Agree (BV.getUnchecked b i) (BV.get b i) (BV.abs b)[i] := by
  have hi' : i < b.nBits := by rw [← BV.abs_length b]; exact hi
  exact ⟨by rw [C08.getUnchecked_ok b hb i hi', List.getD_eq_getElem?_getD,
              List.getElem?_eq_getElem hi]; rfl,
         by rw [C08.get_ok b hb i, List.getElem?_eq_getElem hi]⟩

/-- `get_bits_unchecked(i, len)` = `get_bits(i, len)` for `1 ≤ len ≤ 64`, `i + len ≤ n` -/
theorem bv_getBits (i len : Nat) (h1 : 1 ≤ len) (h2 : len ≤ 64) (h3 : i + len ≤ b.nBits) :
    Agree (BV.getBitsUnchecked b i len) (BV.getBits b i len)
      (Spec.ofBits (((BV.abs b).drop i).take len)) :=
  ⟨C08.getBitsUnchecked_ok b hb i len h1 h2 h3, by
    rw [C08.getBits_ok b hb i len, if_pos ⟨h1, h2, h3⟩]⟩

/-- the same against `BitVectorMut::get_bits`, whose range test is the strict one -/
theorem bv_getBitsMut (i len : Nat) (h1 : 1 ≤ len) (h2 : len ≤ 64) (h3 : i + len < b.nBits) :
    Agree (BV.getBitsUnchecked b i len) (BV.getBitsMut b i len)
      (Spec.ofBits (((BV.abs b).drop i).take len)) :=
  ⟨C08.getBitsUnchecked_ok b hb i len h1 h2 (Nat.le_of_lt h3), by
    rw [C08.getBitsMut_pinned b hb i len, if_pos ⟨h1, h2, h3⟩]⟩

end bv

/-- on every reachable bit vector -/
theorem bv_reachable (h : List BV.Op) (hp : BV.HistPre h []) {b : BV.BitVector}
    (hr : BV.run h {} = .ok b) :
    (∀ i (hi : i < (BV.abs b).length), Agree (BV.getUnchecked b i) (BV.get b i) (BV.abs b)[i]) ∧
    (∀ i len, 1 ≤ len → len ≤ 64 → i + len ≤ b.nBits →
      Agree (BV.getBitsUnchecked b i len) (BV.getBits b i len)
        (Spec.ofBits (((BV.abs b).drop i).take len))) := by
  have hb := (C08.reachable_inv h hp b hr).1
  exact ⟨fun i hi => bv_get b hb i hi, fun i len h1 h2 h3 => bv_getBits b hb i len h1 h2 h3⟩

/-- `QVector::get_unchecked(i)` = `get(i)` for `i < len`, with and without the debug assertion
    `i < len` inside `get_unchecked` -/
theorem qv_get (dbg : Bool) (q : QV.QVector) (h : QV.Inv q) (i : Nat) (hi : i < (QV.abs q).length) :
    Agree (QV.getUnchecked dbg q i) (QV.get dbg q i) (QV.abs q)[i] :=
  ⟨C13.getUnchecked_ok dbg q h i hi, by rw [C13.get_ok dbg q h i, List.getElem?_eq_getElem hi]⟩

/-- on every collected vector -/
theorem qv_fromIter (dbg : Bool) (vals : List Int) (hn : 2 * vals.length < two64) {q : QV.QVector}
    (hq : QV.fromIter vals = .ok q) (i : Nat) (hi : i < vals.length) :
    Agree (QV.getUnchecked dbg q i) (QV.get dbg q i) ((vals[i] % 4).toNat) := by
  obtain ⟨q', e, hinv, a⟩ := C13.fromIter_ok vals hn
  rw [hq] at e; cases e
  have hi' : i < (QV.abs q).length := by rw [a, List.length_map]; exact hi
  have := qv_get dbg q hinv i hi'
  have hv : (QV.abs q)[i] = (vals[i] % 4).toNat := by
    simp only [a, List.getElem_map]
  rw [hv] at this
  exact this

/-! ## 7. `DArray`: `select1_unchecked` / `select0_unchecked`

In Rust both are `self.select1(i).unwrap()` / `self.select0(i).unwrap()`
(`src/darray/mod.rs`); the model has no separate definition, so they are defined here. -/

def daSelect1Unchecked (d : DA.DArray) (k : Nat) : M Nat := do
  let v ← DA.select1 d k
  unwrap v

def daSelect0Unchecked (s0 : Bool) (d : DA.DArray) (k : Nat) : M Nat := do
  let v ← DA.select0 s0 d k
  unwrap v

theorem da_select1 (s0 : Bool) {b : BV.BitVector} (hb : BV.Inv b) (k p : Nat)
    (hp : Spec.select true k (BV.abs b) = some p) :
    Agree (daSelect1Unchecked (DA.new s0 b) k) (DA.select1 (DA.new s0 b) k) p := by
  have h := Closed.darray_select1 s0 hb k
  refine ⟨?_, by rw [h, hp]⟩
  unfold daSelect1Unchecked
  rw [h, hp]; rfl

theorem da_select0 {b : BV.BitVector} (hb : BV.Inv b) (k p : Nat)
    (hp : Spec.select false k (BV.abs b) = some p) :
    Agree (daSelect0Unchecked true (DA.new true b) k) (DA.select0 true (DA.new true b) k) p := by
  have h := Closed.darray_select0 hb k
  refine ⟨?_, by rw [h, hp]⟩
  unfold daSelect0Unchecked
  rw [h, hp]; rfl

/-- outside the precondition the unchecked variant is the `unwrap` panic, not undefined
    behaviour (sharpness of the precondition) -/
theorem da_select1_unchecked_none (s0 : Bool) {b : BV.BitVector} (hb : BV.Inv b) (k : Nat)
    (hp : Spec.select true k (BV.abs b) = none) :
    daSelect1Unchecked (DA.new s0 b) k = .error .unwrapNone := by
  unfold daSelect1Unchecked
  rw [Closed.darray_select1 s0 hb k, hp]; rfl

/-- without `SELECT0_SUPPORT` both `select0` and `select0_unchecked` are the documented panic -/
theorem da_select0_unsupported (d : DA.DArray) (k : Nat) :
    daSelect0Unchecked false d k = .error .assertDoc ∧ DA.select0 false d k = .error .assertDoc :=
  ⟨rfl, rfl⟩

/-! ## non-vacuity: the hypotheses are satisfiable, the theorems instantiate, and the model
itself evaluates to the same values in both build profiles -/

section examples

/-- plain quad tree with prefetch support, through the theorems -/
example (t : QWTree.QWT)
    (h : QWTree.new { pfs := true, W := 8 } [1, 0, 1, 0, 2, 4, 5, 3].toArray = .ok t) :
    QWTree.getUnchecked { pfs := true, W := 8 } t 5 = .ok 4 ∧
      QWTree.get { pfs := true, W := 8 } t 5 = .ok (some 4) :=
  qwt_get (Or.inl rfl) (by decide) (by decide) (by decide) h 5 (by decide)

example (d : Bool) (t : QWTree.QWT)
    (h : QWTree.new { B := 512, W := 16, dbg := d } [1, 0, 1, 0, 2, 4, 5, 300].toArray = .ok t) :
    QWTree.selectUnchecked { B := 512, W := 16, dbg := d } t 1 1 = .ok 2 ∧
      QWTree.select { B := 512, W := 16, dbg := d } t 1 1 = .ok (some 2) :=
  qwt_select (Or.inr rfl) (show 0 < 16 by decide) (show ∀ x ∈ [1, 0, 1, 0, 2, 4, 5, 300], x < 2 ^ 16 by decide)
    (by decide) h 1 1 2 (by decide)

example (t : QWTree.QWT)
    (h : QWTree.new { pfs := true, W := 8 } [1, 0, 1, 0, 2, 4, 5, 3].toArray = .ok t) :
    QWTree.rankPrefetchUnchecked { pfs := true, W := 8 } t 1 4 = .ok 2 ∧
      QWTree.rankPrefetch { pfs := true, W := 8 } t 1 4 = .ok (some 2) :=
  qwt_rankPrefetch (Or.inl rfl) (by decide) (by decide) (by decide) h 1 4 (by decide) (by decide)
    (by decide)

/-- … and by evaluation of the model, for both values of the debug flag -/
example : ∀ d : Bool,
    (do let t ← QWTree.new { pfs := true, W := 8, dbg := d } #[1, 0, 1, 0, 2, 4, 5, 3]
        let u ← QWTree.rankPrefetchUnchecked { pfs := true, W := 8, dbg := d } t 1 4
        let k ← QWTree.rankPrefetch { pfs := true, W := 8, dbg := d } t 1 4
        pure (some u == k)) = .ok true := by decide +kernel

example : ∀ d : Bool,
    (do let t ← QWTree.new { W := 8, dbg := d } #[1, 0, 1, 0, 2, 4, 5, 3]
        let u ← QWTree.selectUnchecked { W := 8, dbg := d } t 1 1
        let k ← QWTree.select { W := 8, dbg := d } t 1 1
        pure (u, k)) = .ok (2, some 2) := by decide +kernel

/-- outside the precondition the unchecked variant may fault (here: the `unwrap`) -/
example : (do let t ← QWTree.new { W := 8 } #[1, 0, 1, 0, 2, 4, 5, 3]
              QWTree.selectUnchecked { W := 8 } t 1 2) = .error .unwrapNone := by decide +kernel

/-- Huffman-shaped quad tree (the example of `Props/C02.lean`) -/
example (t : Huff.HQWT) (h : Huff.new C02.exC C02.exS.toArray C02.exLens = .ok t) :
    Huff.rankPrefetchUnchecked C02.exC t 3 12 = .ok 2 ∧
      Huff.rankPrefetch C02.exC t 3 12 = .ok (some 2) :=
  hqwt_rankPrefetch C02.exC (Or.inl rfl) (by decide) C02.exS (by decide) (by decide) (by decide)
    C02.exLens C02.exLensOK C02.exSyms h 3 12 (by decide) (by decide)

example (t : Huff.HQWT) (h : Huff.new C02.exC C02.exS.toArray C02.exLens = .ok t) :
    Huff.getUnchecked C02.exC t 8 = .ok 8 ∧ Huff.get C02.exC t 8 = .ok (some 8) :=
  hqwt_get C02.exC (Or.inl rfl) (by decide) C02.exS (by decide) (by decide) (by decide)
    C02.exLens C02.exLensOK C02.exSyms h 8 (by decide)

example : ∀ d : Bool,
    (do let t ← Huff.new { W := 8, pfs := true, dbg := d } C02.exS.toArray C02.exLens
        let u ← Huff.rankPrefetchUnchecked { W := 8, pfs := true, dbg := d } t 3 12
        let k ← Huff.rankPrefetch { W := 8, pfs := true, dbg := d } t 3 12
        let s ← Huff.selectUnchecked { W := 8, pfs := true, dbg := d } t 9 1
        pure (u, k, s)) = .ok (2, some 2, 15) := by decide +kernel

/-- binary trees -/
example (t : BinWT.WT) (h : BinWT.new C03.exC false C03.exS.toArray [] = .ok t) :
    BinWT.rankUnchecked C03.exC false t 1 5 = .ok 2 ∧
      BinWT.rank C03.exC false t 1 5 = .ok (some 2) :=
  wt_rank C03.exC (by decide) C03.exS (by decide) (by decide) h 1 5 (by decide) (by decide)
    (by decide)

/-- the length table of the `HWT` example of `Props/C03.lean` is admissible -/
theorem exLensOK2 : C02.LensOK 2 C03.exLens := ⟨by decide, by decide, by decide, by decide, by decide⟩

theorem exOcc2 : ∀ s, s ∈ C03.exLens.map (·.1) ↔ s ∈ C03.exHS := by
  intro s
  simp only [C03.exLens, C03.exHS, List.map_cons, List.map_nil, List.mem_cons, List.not_mem_nil,
    or_false]
  omega

example (t : BinWT.WT) (h : BinWT.new C03.exC true C03.exHS.toArray C03.exLens = .ok t) :
    BinWT.selectUnchecked C03.exC true t 1 3 = .ok 7 ∧
      BinWT.select C03.exC true t 1 3 = .ok (some 7) :=
  hwt_select C03.exC (by decide) C03.exHS (by decide) (by decide) (by decide) C03.exLens exLensOK2
    exOcc2 h 1 3 7 (by decide)

/-- `RSQVector` from collected integers, both block sizes, both profiles -/
example (dbg0 dbg : Bool) (r : RSQ.RSQVector) (h : RSQ.new dbg0 512 [0, 1, 2, 3, 1, -3] = .ok r) :
    RSQ.selectUnchecked dbg 512 r 1 2 = .ok 5 ∧ RSQ.select dbg 512 r 1 2 = .ok (some 5) :=
  rsq_select (rsq_new_repInv dbg0 (Or.inr rfl) _ (by decide) h) dbg 1 2 5 (by decide) (by decide)

example : ∀ d : Bool,
    (do let r ← RSQ.new d 256 [0, 1, 2, 3, 1, -3]
        let a ← RSQ.selectUnchecked d 256 r 1 2
        let b ← RSQ.occsUnchecked d r 1
        let c ← RSQ.occsSmallerUnchecked d r 3
        let e ← RSQ.rankUnchecked d 256 r 1 6
        let g ← RSQ.getUnchecked d r 5
        pure [a, b, c, e, g]) = .ok [5, 3, 5, 3, 1] := by decide +kernel

/-- … and the debug assertion of `select_unchecked` fires outside the precondition only in the
    debug build (the optimised build reaches the `unwrap`) -/
example : (do let r ← RSQ.new true 256 [0, 1, 2, 3, 1]; RSQ.selectUnchecked true 256 r 1 2)
    = .error .debugAssert := by decide +kernel
example : (do let r ← RSQ.new false 256 [0, 1, 2, 3, 1]; RSQ.selectUnchecked false 256 r 1 2)
    = .error .unwrapNone := by decide +kernel

/-- rank/select bit vectors and `DArray` over a reachable bit vector -/
example : ∃ b r, BV.fromBools [true, false, true, true] = .ok b ∧ RSW.new b = .ok r ∧
    RSW.rank0Unchecked r 3 = .ok 1 ∧ RSW.rank0 r 3 = .ok (some 1) ∧
    RSW.selectUnchecked r true 2 = .ok 3 ∧ RSW.select1 r 2 = .ok (some 3) := by
  obtain ⟨b, h1, h2, h3⟩ := C08.fromBools_ok [true, false, true, true] (by decide)
  obtain ⟨r, hr, _⟩ := Closed.rsw_represents h2 (by rw [h3]; decide)
  obtain ⟨_, _, g0, g1, _⟩ := rsw_all h2 (by rw [h3]; decide) hr
  rw [h3] at g0 g1
  exact ⟨b, r, h1, hr, (g0 3 (by decide) (by decide)).1, (g0 3 (by decide) (by decide)).2,
    (g1 2 3 (by decide)).1, (g1 2 3 (by decide)).2⟩

example : ∃ b, BV.fromBools [true, false, true, true] = .ok b ∧
    daSelect0Unchecked true (DA.new true b) 0 = .ok 1 ∧
    DA.select0 true (DA.new true b) 0 = .ok (some 1) ∧
    BV.getBitsUnchecked b 1 3 = .ok 6 ∧ BV.getBits b 1 3 = .ok (some 6) := by
  obtain ⟨b, h1, h2, h3⟩ := C08.fromBools_ok [true, false, true, true] (by decide)
  have g := da_select0 h2 0 1 (by rw [h3]; decide)
  have hn : b.nBits = 4 := by rw [← BV.abs_length, h3]; rfl
  have g' := bv_getBits b h2 1 3 (by decide) (by decide) (by rw [hn]; decide)
  rw [h3] at g'
  exact ⟨b, h1, g.1, g.2, g'.1, g'.2⟩

example : (do let q ← QV.fromIter [5, -1, 2, 7]; QV.getUnchecked true q 2) = .ok 2 ∧
    (do let q ← QV.fromIter [5, -1, 2, 7]; QV.get true q 2) = .ok (some 2) := ⟨rfl, rfl⟩

end examples

end Qwt.Props.C10
