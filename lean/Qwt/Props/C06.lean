import Qwt.Proofs.Interfaces
import Qwt.Proofs.RSBinWide
import Qwt.Proofs.RSBinNarrow
import Qwt.Proofs.BitVectorOps

/-! C06 — the rank/select bit vectors `RSWide` (rs_wide.rs) and `RSNarrow` (rs_narrow.rs) answer
`get` / `rank` / `select` / `n_ones` / `n_zeros` like the plain bit list they were built from,
and never fault.

* `BV.Holds b s` (Proofs/RSBinHolds) is the word-level statement "`b` stores `s`"; `holds_of_inv`
  derives it from the `BitVector` invariant of C08, `holds_fromBools` for the push loop.
* `RSW.Inv r s` (Proofs/RSBinWide) is the representation invariant: packed superblock words
  (44-bit absolute count, seven 12-bit line counts, fillers repeat the running count, sentinel
  entry), select hints, `n_zeros`.  `RSW.new` establishes it (`rsw_new_inv`) for `|s| < 2^43`.
* select is proved under `BV.SelSpec`, the statement of property C17 about `select_in_word`. -/
namespace Qwt.Props.C06
open Qwt Qwt.BV Qwt.RSBin

/-! ## the stored bit list -/

/-- bridge from the C08 invariant / abstraction -/
theorem holds_of_inv {b : BitVector} (hb : BV.Inv b) : BV.Holds b (BV.abs b) where
  nBits := by simp
  size := by rw [hb.size]; simp
  lt := by
    intro j hj
    have := hb.words j hj
    simpa [Array.getD, hj] using this
  bit := by
    intro i _
    have e : b.data.getD (i / 64) 0 = wordAt b.data (i / 64) := by
      unfold wordAt Array.getD
      by_cases h : i / 64 < b.data.size <;> simp [h]
    rw [e, List.getD_eq_getElem?_getD, abs_getElem?]
    by_cases h : i < b.nBits
    · simp [h, bitAt, bitD]
    · have := hb.pad i (by omega)
      simp only [bitAt, bitD] at this
      simp [h, this]
  nOnes := hb.ones

/-- the push loop of the level constructors stores exactly the pushed bits -/
theorem holds_fromBools (bits : List Bool) (hn : bits.length < two64) :
    ∃ b, bits.foldlM BV.push ({} : BitVector) = .ok b ∧ BV.Holds b bits := by
  obtain ⟨b', h1, h2, h3⟩ := extendBools_spec bits {} BV.init_inv.1 (by simpa using hn)
  refine ⟨b', h1, ?_⟩
  have := holds_of_inv h2
  rwa [h3, BV.init_inv.2, List.nil_append] at this

/-! ## RSWide -/

/-- `RSWide::new` never faults and establishes the representation invariant -/
theorem rsw_new_inv {b : BitVector} {s : List Bool} (h : BV.Holds b s) (hl : s.length < 2 ^ 43) :
    ∃ r, RSW.new b = .ok r ∧ r.bv = b ∧ RSW.Inv r s := RSW.new_inv h hl

section fields
variable {r : RSW.RSWide} {s : List Bool}

/-- a. access -/
theorem rsw_get (hv : RSW.Inv r s) (i : Nat) : RSW.get r i = .ok s[i]? := hv.get_eq i

theorem rsw_getUnchecked (hv : RSW.Inv r s) (i : Nat) (hi : i < s.length) :
    RSW.getUnchecked r i = .ok (s.getD i false) := hv.getUnchecked_eq i hi

/-- b. rank (every index, also beyond `2^64`; every query on the empty vector is `None`) -/
theorem rsw_rank1 (hv : RSW.Inv r s) (i : Nat) :
    RSW.rank1 r i = .ok (if s ≠ [] ∧ i ≤ s.length then some (Spec.rank true i s) else none) :=
  hv.rank1_eq i

theorem rsw_rank0 (hv : RSW.Inv r s) (i : Nat) :
    RSW.rank0 r i = .ok (if s ≠ [] ∧ i ≤ s.length then some (Spec.rank false i s) else none) :=
  hv.rank0_eq i

theorem rsw_rank1Unchecked (hv : RSW.Inv r s) (i : Nat) (hi : i ≤ s.length) :
    RSW.rank1Unchecked r i = .ok (Spec.rank true i s) := hv.rank1Unchecked_eq i hi

theorem rsw_rank0Unchecked (hv : RSW.Inv r s) (i : Nat) (hi : i ≤ s.length) :
    RSW.rank0Unchecked r i = .ok (Spec.rank false i s) := by
  unfold RSW.rank0Unchecked
  rw [hv.rank1Unchecked_eq i hi]
  have := rank_false_add s i hi
  have hle := rank_le true s i
  show sub i _ = _
  simp only [sub]; rw [if_pos hle]; congr 1; omega

/-- c. totals -/
theorem rsw_len (hv : RSW.Inv r s) : r.bv.nBits = s.length := hv.holds.nBits
theorem rsw_nZeros (hv : RSW.Inv r s) : r.nZeros = s.count false := hv.nZeros
theorem rsw_nOnes (hv : RSW.Inv r s) : RSW.nOnes r = .ok (s.count true) := hv.nOnes_eq

/-- d. select -/
theorem rsw_select1 (hsel : BV.SelSpec) (hv : RSW.Inv r s) (k : Nat) :
    RSW.select1 r k = .ok (Spec.select true k s) := hv.select1_eq hsel k

theorem rsw_select0 (hsel : BV.SelSpec) (hv : RSW.Inv r s) (k : Nat) :
    RSW.select0 r k = .ok (Spec.select false k s) := hv.select0_eq hsel k

/-- the unchecked select inside its precondition -/
theorem rsw_selectUnchecked (hsel : BV.SelSpec) (hv : RSW.Inv r s) (bit : Bool) (k : Nat)
    (hk : k < s.count bit) :
    ∃ p, RSW.selectUnchecked r bit k = .ok p ∧ Spec.select bit k s = some p :=
  hv.selectUnchecked_eq hsel bit k hk

theorem rsw_represents_of_inv (hsel : BV.SelSpec) (hv : RSW.Inv r s) : RSW.Represents r s where
  len_eq := rsw_len hv
  nZeros_eq := rsw_nZeros hv
  get := rsw_get hv
  getU := rsw_getUnchecked hv
  rank1 := rsw_rank1 hv
  rank0 := rsw_rank0 hv
  rank1U := rsw_rank1Unchecked hv
  select1 := rsw_select1 hsel hv
  select0 := rsw_select0 hsel hv

end fields

/-- main theorem for `RSWide` -/
theorem rsw_represents (hsel : BV.SelSpec) {b : BitVector} {s : List Bool} (h : BV.Holds b s)
    (hl : s.length < 2 ^ 43) : ∃ r, RSW.new b = .ok r ∧ RSW.Represents r s := by
  obtain ⟨r, h1, _, h3⟩ := rsw_new_inv h hl
  exact ⟨r, h1, rsw_represents_of_inv hsel h3⟩

/-- the rank half needs no hypothesis on `select_in_word` -/
theorem rsw_rank_total {b : BitVector} {s : List Bool} (h : BV.Holds b s) (hl : s.length < 2 ^ 43) :
    ∃ r, RSW.new b = .ok r ∧ (∀ i, RSW.get r i = .ok s[i]?) ∧
      (∀ i, RSW.rank1 r i = .ok (if s ≠ [] ∧ i ≤ s.length then some (Spec.rank true i s) else none)) ∧
      (∀ i, RSW.rank0 r i = .ok (if s ≠ [] ∧ i ≤ s.length then some (Spec.rank false i s) else none)) ∧
      r.nZeros = s.count false ∧ RSW.nOnes r = .ok (s.count true) := by
  obtain ⟨r, h1, _, h3⟩ := rsw_new_inv h hl
  exact ⟨r, h1, rsw_get h3, rsw_rank1 h3, rsw_rank0 h3, rsw_nZeros h3, rsw_nOnes h3⟩

/-- the level constructor of the binary wavelet trees (C06 with C08) -/
theorem binLevelLaw (hsel : BV.SelSpec) : BinLevelLaw := by
  intro bits hlen
  have h64 : bits.length < two64 := by
    have : (2:Nat) ^ 43 < two64 := by decide
    omega
  obtain ⟨b, hb, hh⟩ := holds_fromBools bits h64
  obtain ⟨r, hr, hrep⟩ := rsw_represents hsel hh hlen
  refine ⟨r, ?_, hrep⟩
  unfold RSW.mkLevel
  have : (bits.foldlM (fun (b : BitVectorMut) x => BV.push b x) {} : M BitVector) = .ok b := hb
  rw [this]; exact hr

/-! ### e. the empty vector and the derived `Default` -/

theorem rsw_empty_inv {b : BitVector} (h : BV.Holds b []) :
    ∃ r, RSW.new b = .ok r ∧ RSW.Inv r [] := by
  obtain ⟨r, h1, _, h3⟩ := rsw_new_inv h (by decide)
  exact ⟨r, h1, h3⟩

theorem rsw_empty_queries (hsel : BV.SelSpec) {r : RSW.RSWide} (hv : RSW.Inv r []) (i : Nat) :
    RSW.get r i = .ok none ∧ RSW.rank1 r i = .ok none ∧ RSW.rank0 r i = .ok none ∧
    RSW.select1 r i = .ok none ∧ RSW.select0 r i = .ok none ∧
    r.nZeros = 0 ∧ RSW.nOnes r = .ok 0 := by
  refine ⟨by simpa using rsw_get hv i, by simpa using rsw_rank1 hv i, by simpa using rsw_rank0 hv i,
    by simpa [Spec.select] using rsw_select1 hsel hv i, by simpa [Spec.select] using rsw_select0 hsel hv i,
    by simpa using rsw_nZeros hv, by simpa using rsw_nOnes hv⟩

/-- `RSWide::default()`: no query faults (independently of C17) -/
theorem rsw_default_queries (i : Nat) :
    RSW.get {} i = .ok none ∧ RSW.rank1 {} i = .ok none ∧ RSW.rank0 {} i = .ok none ∧
    RSW.select1 {} i = .ok none ∧ RSW.select0 {} i = .ok none ∧ RSW.nOnes {} = .ok 0 := by
  refine ⟨?_, ?_, ?_, ?_, ?_, ?_⟩
  · simp [RSW.get, BV.get]; rfl
  · rfl
  · rfl
  · simp [RSW.select1, RSW.nOnes, sub, bind, Except.bind]; rfl
  · simp [RSW.select0]; rfl
  · rfl

/-- the structure built from the empty vector (no hypothesis at all) -/
theorem rsw_new_empty : RSW.new {} = .ok
    { bv := {}, superblockMetadata := #[0], selectSamples := #[#[0, 0], #[0, 0]], nZeros := 0 } := by
  decide

/-! ## RSNarrow

No length bound is needed: the model of `RSNarrow::new` has no narrowing arithmetic (absolute
counts are full 64-bit words; the Rust counters cannot overflow below `2^64` bits). -/

/-- `RSNarrow::new` never faults and establishes the representation invariant -/
theorem rsn_new_inv {b : BitVector} {s : List Bool} (h : BV.Holds b s) :
    ∃ r, RSN.new b = .ok r ∧ r.bv = b ∧ RSN.Inv r s := RSN.new_inv h

section fieldsN
variable {r : RSN.RSNarrow} {s : List Bool}

theorem rsn_len (hv : RSN.Inv r s) : r.bv.nBits = s.length := hv.holds.nBits

/-- a. access -/
theorem rsn_get (hv : RSN.Inv r s) (i : Nat) : RSN.get r i = .ok s[i]? := hv.get_eq i

/-- b. rank -/
theorem rsn_rank1 (hv : RSN.Inv r s) (i : Nat) :
    RSN.rank1 r i = .ok (if s ≠ [] ∧ i ≤ s.length then some (Spec.rank true i s) else none) :=
  hv.rank1_eq i

theorem rsn_rank0 (hv : RSN.Inv r s) (i : Nat) :
    RSN.rank0 r i = .ok (if s ≠ [] ∧ i ≤ s.length then some (Spec.rank false i s) else none) :=
  hv.rank0_eq i

theorem rsn_rank1Unchecked (hv : RSN.Inv r s) (i : Nat) (hi : i ≤ s.length) :
    RSN.rank1Unchecked r i = .ok (Spec.rank true i s) := hv.rank1Unchecked_eq i hi

/-- c. totals (computed by a rank and an access on the last bit; 0 on the empty vector) -/
theorem rsn_nOnes (hv : RSN.Inv r s) : RSN.nOnes r = .ok (s.count true) := hv.nOnes_eq
theorem rsn_nZeros (hv : RSN.Inv r s) : RSN.nZeros r = .ok (s.count false) := hv.nZeros_eq

/-- d. select -/
theorem rsn_select1 (hsel : BV.SelSpec) (hv : RSN.Inv r s) (k : Nat) :
    RSN.select1 r k = .ok (Spec.select true k s) := hv.select1_eq hsel k

theorem rsn_select0 (hsel : BV.SelSpec) (hv : RSN.Inv r s) (k : Nat) :
    RSN.select0 r k = .ok (Spec.select false k s) := hv.select0_eq hsel k

theorem rsn_selectUnchecked (hsel : BV.SelSpec) (hv : RSN.Inv r s) (bit : Bool) (k : Nat)
    (hk : k < s.count bit) :
    ∃ p, RSN.selectUnchecked r bit k = .ok p ∧ Spec.select bit k s = some p :=
  hv.selectUnchecked_eq hsel bit k hk

theorem rsn_represents_of_inv (hsel : BV.SelSpec) (hv : RSN.Inv r s) : RSN.Represents r s where
  len_eq := rsn_len hv
  get := rsn_get hv
  rank1 := rsn_rank1 hv
  rank0 := rsn_rank0 hv
  select1 := rsn_select1 hsel hv
  select0 := rsn_select0 hsel hv
  nOnes := rsn_nOnes hv
  nZeros := rsn_nZeros hv

end fieldsN

/-- main theorem for `RSNarrow` -/
theorem rsn_represents (hsel : BV.SelSpec) {b : BitVector} {s : List Bool} (h : BV.Holds b s) :
    ∃ r, RSN.new b = .ok r ∧ RSN.Represents r s := by
  obtain ⟨r, h1, _, h3⟩ := rsn_new_inv h
  exact ⟨r, h1, rsn_represents_of_inv hsel h3⟩

/-- the same with the length bound of the brief (not needed by the proof) -/
theorem rsn_represents' (hsel : BV.SelSpec) {b : BitVector} {s : List Bool} (h : BV.Holds b s)
    (_hl : s.length < 2 ^ 64) : ∃ r, RSN.new b = .ok r ∧ RSN.Represents r s :=
  rsn_represents hsel h

/-- the rank half needs no hypothesis on `select_in_word` -/
theorem rsn_rank_total {b : BitVector} {s : List Bool} (h : BV.Holds b s) :
    ∃ r, RSN.new b = .ok r ∧ (∀ i, RSN.get r i = .ok s[i]?) ∧
      (∀ i, RSN.rank1 r i = .ok (if s ≠ [] ∧ i ≤ s.length then some (Spec.rank true i s) else none)) ∧
      (∀ i, RSN.rank0 r i = .ok (if s ≠ [] ∧ i ≤ s.length then some (Spec.rank false i s) else none)) ∧
      RSN.nOnes r = .ok (s.count true) ∧ RSN.nZeros r = .ok (s.count false) := by
  obtain ⟨r, h1, _, h3⟩ := rsn_new_inv h
  exact ⟨r, h1, rsn_get h3, rsn_rank1 h3, rsn_rank0 h3, rsn_nOnes h3, rsn_nZeros h3⟩

/-- `RSNarrow` over the bits pushed one by one -/
theorem rsn_fromBools (hsel : BV.SelSpec) (bits : List Bool) (hn : bits.length < two64) :
    ∃ b r, bits.foldlM BV.push ({} : BitVector) = .ok b ∧ RSN.new b = .ok r ∧ RSN.Represents r bits := by
  obtain ⟨b, hb, hh⟩ := holds_fromBools bits hn
  obtain ⟨r, hr, hrep⟩ := rsn_represents hsel hh
  exact ⟨b, r, hb, hr, hrep⟩

theorem rsn_empty_queries (hsel : BV.SelSpec) {r : RSN.RSNarrow} (hv : RSN.Inv r []) (i : Nat) :
    RSN.get r i = .ok none ∧ RSN.rank1 r i = .ok none ∧ RSN.rank0 r i = .ok none ∧
    RSN.select1 r i = .ok none ∧ RSN.select0 r i = .ok none ∧
    RSN.nOnes r = .ok 0 ∧ RSN.nZeros r = .ok 0 := by
  refine ⟨by simpa using rsn_get hv i, by simpa using rsn_rank1 hv i, by simpa using rsn_rank0 hv i,
    by simpa [Spec.select] using rsn_select1 hsel hv i, by simpa [Spec.select] using rsn_select0 hsel hv i,
    by simpa using rsn_nOnes hv, by simpa using rsn_nZeros hv⟩

/-- `RSNarrow::default()`: no query faults (independently of C17) -/
theorem rsn_default_queries (i : Nat) :
    RSN.get {} i = .ok none ∧ RSN.rank1 {} i = .ok none ∧ RSN.rank0 {} i = .ok none ∧
    RSN.select1 {} i = .ok none ∧ RSN.select0 {} i = .ok none ∧
    RSN.nOnes {} = .ok 0 ∧ RSN.nZeros {} = .ok 0 := by
  refine ⟨?_, ?_, ?_, ?_, ?_, ?_, ?_⟩
  · simp [RSN.get, BV.get]; rfl
  · rfl
  · rfl
  · have : RSN.nOnes {} = .ok 0 := rfl
    simp [RSN.select1, this, bind, Except.bind]; rfl
  · have : RSN.nZeros {} = .ok 0 := rfl
    simp [RSN.select0, this, bind, Except.bind]; rfl
  · rfl
  · rfl

/-- the structure built from the empty vector (no hypothesis at all) -/
theorem rsn_new_empty : RSN.new {} = .ok
    { bv := {}, blockRankPairs := #[0, 0], selectSamples := #[#[0, 0], #[0, 0]] } := by
  decide

/-! ### non-vacuity -/

-- a concrete vector satisfying `Holds`: the bits `1,0,1`
set_option maxRecDepth 8192 in
example : BV.Holds { data := #[5, 0, 0, 0, 0, 0, 0, 0], nBits := 3, nOnes := 2 } [true, false, true] where
  nBits := rfl
  size := rfl
  lt := by decide
  bit := by decide
  nOnes := rfl

example : Spec.rank true 3 [true, false, true] = 2 := by decide
example : Spec.select true 1 [true, false, true] = some 2 := by decide
example : Spec.select false 0 [true, false, true] = some 1 := by decide

/-- the theorems instantiated on `1,0,1` -/
example : ∃ r, RSW.mkLevel [true, false, true] = .ok r ∧ RSW.rank1 r 3 = .ok (some 2) ∧
    RSW.rank0 r 2 = .ok (some 1) ∧ RSW.rank1 r 4 = .ok none ∧ RSW.get r 2 = .ok (some true) := by
  obtain ⟨b, hb, hh⟩ := holds_fromBools [true, false, true] (by decide)
  obtain ⟨r, h1, _, h3⟩ := rsw_new_inv hh (by decide)
  refine ⟨r, ?_, ?_, ?_, ?_, ?_⟩
  · unfold RSW.mkLevel
    have : ([true, false, true].foldlM (fun (b : BitVectorMut) x => BV.push b x) {} : M BitVector) = .ok b := hb
    rw [this]; exact h1
  · rw [rsw_rank1 h3]; decide
  · rw [rsw_rank0 h3]; decide
  · rw [rsw_rank1 h3]; decide
  · rw [rsw_get h3]; rfl


example : ∃ b r, [true, false, true].foldlM BV.push ({} : BitVector) = .ok b ∧ RSN.new b = .ok r ∧
    RSN.rank1 r 3 = .ok (some 2) ∧ RSN.rank0 r 2 = .ok (some 1) ∧ RSN.rank1 r 4 = .ok none ∧
    RSN.nOnes r = .ok 2 ∧ RSN.nZeros r = .ok 1 := by
  obtain ⟨b, hb, hh⟩ := holds_fromBools [true, false, true] (by decide)
  obtain ⟨r, h1, _, h3⟩ := rsn_new_inv hh
  refine ⟨b, r, hb, h1, ?_, ?_, ?_, ?_, ?_⟩
  · rw [rsn_rank1 h3]; decide
  · rw [rsn_rank0 h3]; decide
  · rw [rsn_rank1 h3]; decide
  · rw [rsn_nOnes h3]; decide
  · rw [rsn_nZeros h3]; decide

/-- select, given the C17 statement -/
example (hsel : BV.SelSpec) : ∃ r, RSW.mkLevel [true, false, true] = .ok r ∧
    RSW.select1 r 1 = .ok (some 2) ∧ RSW.select0 r 0 = .ok (some 1) ∧ RSW.select0 r 1 = .ok none := by
  obtain ⟨r, h1, h2⟩ := binLevelLaw hsel [true, false, true] (by decide)
  refine ⟨r, h1, ?_, ?_, ?_⟩
  · rw [h2.select1]; decide
  · rw [h2.select0]; decide
  · rw [h2.select0]; decide


/-! concrete evaluations of the model itself (kernel reduction, no extra axioms): 530 bits
`1,0,0,1,0,0,…` — two lines, the second one mostly padding, so `select0` near the end is the
delicate case; and the word-level `select_in_word` the select proofs assume (C17). -/

def bits530 : List Bool := (List.range 530).map (fun i => i % 3 == 0)

example : (do let r ← RSW.mkLevel bits530; RSW.select1 r 176) = .ok (some 528) := by decide +kernel
example : (do let r ← RSW.mkLevel bits530; RSW.select0 r 352) = .ok (some 529) := by decide +kernel
example : (do let r ← RSW.mkLevel bits530; RSW.select0 r 353) = .ok none := by decide +kernel
example : (do let r ← RSW.mkLevel bits530; RSW.rank1 r 530) = .ok (some 177) := by decide +kernel
example : (do let b ← bits530.foldlM BV.push {}; let r ← RSN.new b; RSN.select0 r 352)
    = .ok (Spec.select false 352 bits530) := by decide +kernel
example : (do let b ← bits530.foldlM BV.push {}; let r ← RSN.new b; RSN.select1 r 177) = .ok none := by
  decide +kernel
example : (do let b ← bits530.foldlM BV.push {}; let r ← RSN.new b; RSN.rank0 r 529)
    = .ok (some 352) := by decide +kernel
example : Utils.selectInWord 5 1 = .ok 2 ∧ Spec.select true 1 (Spec.bitsOf 5 64) = some 2 := by
  decide +kernel

end Qwt.Props.C06
