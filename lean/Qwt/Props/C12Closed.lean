import Qwt.Props.C12
import Qwt.Props.C10
import Qwt.Props.Closed

/-!
# C12, closed: the wavelet-tree iterators yield exactly the input sequence

`Props/C12.lean` proves that the `WTIterator` state machine (`next` / `next_back` / `len`, in
any interleaving) behaves like a deque over `S` *provided* `get_unchecked(i)` returns `S[i]` for
every `i < |S|`.  Here that hypothesis is discharged for every tree type from the
hypothesis-free `get_unchecked` theorems of `Props/C10.lean` (which in turn rest on
`Props/Closed.lean`: the level contracts `LevelLaw`, `BinLevelLaw` and the prefetch contracts
hold unconditionally).  The statements below mention only the input sequence `S`, the
configuration, the construction `new … = .ok t` and — for the Huffman-shaped trees — the
code-length table handed over by the external crate.

The Rust `iter()` of every tree builds `WTIterator { i: 0, end: self.len(), .. }` with
`len() = self.n`; the `*_len` theorems show `t.n = |S|`, and the `*_iter_rust` variants restate
the history theorem with that initial state.
-/
namespace Qwt.Props.C12Closed
open Qwt Qwt.Iter

/-- `.ok S[i]` is `.ok (S.getD i 0)` -/
private theorem ok_getD {S : List Nat} {i : Nat} (hi : i < S.length) :
    (Except.ok S[i] : M Nat) = .ok (S.getD i 0) := by
  rw [List.getD_eq_getElem?_getD, List.getElem?_eq_getElem hi]; rfl

/-- generic corollaries of a history theorem -/
private theorem forward_of {getU : Nat → M Nat} {S : List Nat}
    (h : ∀ ops, run getU { i := 0, e := S.length } ops = specRun S ops) :
    run getU { i := 0, e := S.length } (List.replicate S.length .next) = S.map Out.some := by
  rw [h, C12.spec_forward]

private theorem backward_of {getU : Nat → M Nat} {S : List Nat}
    (h : ∀ ops, run getU { i := 0, e := S.length } ops = specRun S ops) :
    run getU { i := 0, e := S.length } (List.replicate S.length .nextBack) =
      S.reverse.map Out.some := by
  rw [h, C12.spec_backward]

/-! ## 1. the plain quad wavelet tree — every alias (both block sizes, with and without
prefetch support, both build profiles) -/

section qwt
variable {c : Cfg} {S : List Nat} {t : QWTree.QWT}
  (hB : c.B = 256 ∨ c.B = 512) (hW : 0 < c.W)
  (hS : ∀ x ∈ S, x < 2 ^ c.W) (hlen : S.length < 2 ^ 43)
  (hnew : QWTree.new c S.toArray = .ok t)
include hB hW hS hlen hnew

/-- `len()` of the constructed tree is the length of the input -/
theorem qwt_len : QWTree.len t = S.length :=
  (C09.wmp_of_new hB hW hS hlen hnew).wm.n_eq

/-- every history of `next` / `next_back` / `len` calls on `QWT::iter()` -/
theorem qwt_iter (ops : List IterOp) :
    run (QWTree.getUnchecked c t) { i := 0, e := S.length } ops = specRun S ops :=
  C12.qwt_iter_history c t S
    (fun i hi => (C10.qwt_getUnchecked_ok hB hW hS hlen hnew i hi).trans (ok_getD hi)) ops

/-- the same, with the initial state exactly as `iter()` builds it (`end = self.len()`) -/
theorem qwt_iter_rust (ops : List IterOp) :
    run (QWTree.getUnchecked c t) { i := 0, e := QWTree.len t } ops = specRun S ops := by
  rw [qwt_len hB hW hS hlen hnew]; exact qwt_iter hB hW hS hlen hnew ops

theorem qwt_forward :
    run (QWTree.getUnchecked c t) { i := 0, e := S.length } (List.replicate S.length .next) =
      S.map Out.some :=
  forward_of (qwt_iter hB hW hS hlen hnew)

theorem qwt_backward :
    run (QWTree.getUnchecked c t) { i := 0, e := S.length } (List.replicate S.length .nextBack) =
      S.reverse.map Out.some :=
  backward_of (qwt_iter hB hW hS hlen hnew)

end qwt

/-! ## 2. the plain binary wavelet tree `WT` -/

section wt
variable (c : Cfg) (hW : 0 < c.W) (S : List Nat) (hb : ∀ x ∈ S, x < 2 ^ c.W)
  (hS : S.length < 2 ^ 43) {t : BinWT.WT} (ht : BinWT.new c false S.toArray [] = .ok t)
include hW hb hS ht

theorem wt_len : t.n = S.length := by
  obtain ⟨t', h1, h2, _⟩ := Closed.wt_new c hW S hb hS
  rw [ht] at h1; cases h1; exact h2

theorem wt_iter (ops : List IterOp) :
    run (BinWT.getUnchecked c false t) { i := 0, e := S.length } ops = specRun S ops :=
  C12.wt_iter_history c false t S
    (fun i hi => (C03.wt_getUnchecked_ok c hW Closed.binLevelLaw S hb hS ht i hi).trans
      (ok_getD hi)) ops

theorem wt_iter_rust (ops : List IterOp) :
    run (BinWT.getUnchecked c false t) { i := 0, e := t.n } ops = specRun S ops := by
  rw [wt_len c hW S hb hS ht]; exact wt_iter c hW S hb hS ht ops

theorem wt_forward :
    run (BinWT.getUnchecked c false t) { i := 0, e := S.length } (List.replicate S.length .next) =
      S.map Out.some :=
  forward_of (wt_iter c hW S hb hS ht)

theorem wt_backward :
    run (BinWT.getUnchecked c false t) { i := 0, e := S.length }
      (List.replicate S.length .nextBack) = S.reverse.map Out.some :=
  backward_of (wt_iter c hW S hb hS ht)

end wt

/-! ## 3. the Huffman-shaped binary tree `HWT`, for every admissible length table -/

section hwt
open Qwt.Props.C02 (LensOK)
variable (c : Cfg) (hW : c.W ≤ 64) (S : List Nat) (hne : S ≠ [])
  (hb : ∀ x ∈ S, x < 2 ^ c.W) (hS : S.length < 2 ^ 43) (lens : List (Nat × Nat))
  (hlens : LensOK 2 lens) (hocc : ∀ s, s ∈ lens.map (·.1) ↔ s ∈ S)
  {t : BinWT.WT} (ht : BinWT.new c true S.toArray lens = .ok t)
include hW hne hb hS hlens hocc ht

theorem hwt_len : t.n = S.length := by
  obtain ⟨t', h1, h2⟩ := Closed.hwt_new c hW S hne hb hS lens hlens hocc
  rw [ht] at h1; cases h1; exact h2

theorem hwt_iter (ops : List IterOp) :
    run (BinWT.getUnchecked c true t) { i := 0, e := S.length } ops = specRun S ops :=
  C12.wt_iter_history c true t S
    (fun i hi => (C10.hwt_getUnchecked_ok c hW S hne hb hS lens hlens hocc ht i hi).trans
      (ok_getD hi)) ops

theorem hwt_iter_rust (ops : List IterOp) :
    run (BinWT.getUnchecked c true t) { i := 0, e := t.n } ops = specRun S ops := by
  rw [hwt_len c hW S hne hb hS lens hlens hocc ht]
  exact hwt_iter c hW S hne hb hS lens hlens hocc ht ops

theorem hwt_forward :
    run (BinWT.getUnchecked c true t) { i := 0, e := S.length } (List.replicate S.length .next) =
      S.map Out.some :=
  forward_of (hwt_iter c hW S hne hb hS lens hlens hocc ht)

theorem hwt_backward :
    run (BinWT.getUnchecked c true t) { i := 0, e := S.length }
      (List.replicate S.length .nextBack) = S.reverse.map Out.some :=
  backward_of (hwt_iter c hW S hne hb hS lens hlens hocc ht)

end hwt

/-! ## 4. the Huffman-shaped quad tree `HQWT` (all four aliases), for every admissible length
table -/

section hqwt
open Qwt.Props.C02 (LensOK)
variable (c : Cfg) (hB : c.B = 256 ∨ c.B = 512) (hW : c.W ≤ 64) (S : List Nat) (hne : S ≠ [])
  (hb : ∀ x ∈ S, x < 2 ^ c.W) (hS : S.length < 2 ^ 43) (lens : List (Nat × Nat))
  (hlens : LensOK 4 lens) (hsyms : ∀ s, s ∈ lens.map (·.1) ↔ s ∈ S)
include hB hW hne hb hS hlens hsyms

/-- construction succeeds (restated from `Closed.hqwt_correct`), so the theorems below are
    about an existing tree -/
theorem hqwt_new : ∃ t, Huff.new c S.toArray lens = .ok t := by
  obtain ⟨_, t, _, _, h, _⟩ := Closed.hqwt_correct c hB hW S hne hb hS lens hlens hsyms
  exact ⟨t, h⟩

variable {t : Huff.HQWT} (ht : Huff.new c S.toArray lens = .ok t)
include ht

theorem hqwt_len : t.n = S.length := by
  obtain ⟨codes, hc, hv⟩ := C10.hqwt_codes c hB hW S hne hb hS lens hlens hsyms ht
  obtain ⟨t', h1, _, h3, _⟩ := C02.hqwt_new_ok c hW (Closed.levelLaw c.dbg hB) (Qwt.HQWM.pfsTotalH c)
    S hne hb hS lens codes hc _ hv hsyms
  rw [ht] at h1; cases h1; exact h3

theorem hqwt_iter (ops : List IterOp) :
    run (Huff.getUnchecked c t) { i := 0, e := S.length } ops = specRun S ops :=
  C12.hqwt_iter_history c t S
    (fun i hi => (C10.hqwt_getUnchecked_ok c hB hW S hne hb hS lens hlens hsyms ht i hi).trans
      (ok_getD hi)) ops

theorem hqwt_iter_rust (ops : List IterOp) :
    run (Huff.getUnchecked c t) { i := 0, e := t.n } ops = specRun S ops := by
  rw [hqwt_len c hB hW S hne hb hS lens hlens hsyms ht]
  exact hqwt_iter c hB hW S hne hb hS lens hlens hsyms ht ops

theorem hqwt_forward :
    run (Huff.getUnchecked c t) { i := 0, e := S.length } (List.replicate S.length .next) =
      S.map Out.some :=
  forward_of (hqwt_iter c hB hW S hne hb hS lens hlens hsyms ht)

theorem hqwt_backward :
    run (Huff.getUnchecked c t) { i := 0, e := S.length } (List.replicate S.length .nextBack) =
      S.reverse.map Out.some :=
  backward_of (hqwt_iter c hB hW S hne hb hS lens hlens hsyms ht)

end hqwt

/-- the existential form (as `Closed.hqwt_correct`): the tree exists and iterates over `S` -/
theorem hqwt_iter_exists (c : Cfg) (hB : c.B = 256 ∨ c.B = 512) (hW : c.W ≤ 64)
    (S : List Nat) (hne : S ≠ []) (hb : ∀ x ∈ S, x < 2 ^ c.W) (hS : S.length < 2 ^ 43)
    (lens : List (Nat × Nat)) (hlens : C02.LensOK 4 lens)
    (hsyms : ∀ s, s ∈ lens.map (·.1) ↔ s ∈ S) :
    ∃ t, Huff.new c S.toArray lens = .ok t ∧ t.n = S.length ∧
      ∀ ops, run (Huff.getUnchecked c t) { i := 0, e := t.n } ops = specRun S ops := by
  obtain ⟨t, ht⟩ := hqwt_new c hB hW S hne hb hS lens hlens hsyms
  exact ⟨t, ht, hqwt_len c hB hW S hne hb hS lens hlens hsyms ht,
    hqwt_iter_rust c hB hW S hne hb hS lens hlens hsyms ht⟩

/-! ## non-vacuity -/

section examples

/-- through the theorem: a quad tree with prefetch support, a mixed history -/
example (t : QWTree.QWT)
    (h : QWTree.new { pfs := true, W := 8 } [1, 0, 1, 0, 2, 4, 5, 3].toArray = .ok t) :
    run (QWTree.getUnchecked { pfs := true, W := 8 } t) { i := 0, e := QWTree.len t }
        [.next, .nextBack, .len, .next, .nextBack] =
      [Out.some 1, Out.some 3, Out.val 6, Out.some 0, Out.some 5] := by
  rw [qwt_iter_rust (Or.inl rfl) (by decide) (by decide) (by decide) h]; decide

/-- the hypothesis `new … = .ok t` of the example above is satisfiable, and the model itself
    evaluates to the same outcomes in both build profiles -/
example : ∀ d : Bool,
    (do let t ← QWTree.new { pfs := true, W := 8, dbg := d } #[1, 0, 1, 0, 2, 4, 5, 3]
        pure (run (QWTree.getUnchecked { pfs := true, W := 8, dbg := d } t)
          { i := 0, e := QWTree.len t } [.next, .nextBack, .len, .next, .nextBack])) =
      .ok [Out.some 1, Out.some 3, Out.val 6, Out.some 0, Out.some 5] := by decide +kernel

/-- Huffman-shaped quad tree: forward iteration over the example of `Props/C02.lean` -/
example (t : Huff.HQWT) (h : Huff.new C02.exC C02.exS.toArray C02.exLens = .ok t) :
    run (Huff.getUnchecked C02.exC t) { i := 0, e := C02.exS.length }
        (List.replicate C02.exS.length .next) = C02.exS.map Out.some :=
  hqwt_forward C02.exC (Or.inl rfl) (by decide) C02.exS (by decide) (by decide) (by decide)
    C02.exLens C02.exLensOK C02.exSyms h

/-- binary trees: backward iteration over the examples of `Props/C03.lean` -/
example (t : BinWT.WT) (h : BinWT.new C03.exC false C03.exS.toArray [] = .ok t) :
    run (BinWT.getUnchecked C03.exC false t) { i := 0, e := C03.exS.length }
        (List.replicate C03.exS.length .nextBack) = C03.exS.reverse.map Out.some :=
  wt_backward C03.exC (by decide) C03.exS (by decide) (by decide) h

example (t : BinWT.WT) (h : BinWT.new C03.exC true C03.exHS.toArray C03.exLens = .ok t)
    (ops : List IterOp) :
    run (BinWT.getUnchecked C03.exC true t) { i := 0, e := t.n } ops = specRun C03.exHS ops :=
  hwt_iter_rust C03.exC (by decide) C03.exHS (by decide) (by decide) (by decide) C03.exLens
    C10.exLensOK2 C10.exOcc2 h ops

end examples

/-! ## One-ended iterators over the quad vector and the bit vectors

`QVectorIterator::next` is `self.i += 1; qv.get(self.i - 1)`; `BitVectorIter` / `BitVectorIntoIter`
index with a running counter.  With `get` correct (C13, C08) every history of `next`, `nth(k)` (what
`skip` and `step_by` call), `count` and `last` is that of the plain sequence. -/

theorem qv_iter_history (dbg : Bool) (q : QV.QVector) (h : QV.Inv q) (ops : List FwdOp) :
    fwdRun (QV.get dbg q) (QV.abs q).length 0 ops = specRun (QV.abs q) (ops.map FwdOp.toIterOp) :=
  C12.fwditer_history _ _ (fun i => QV.get_ok dbg h i) ops

theorem bv_iter_history (b : BV.BitVector) (h : BV.Inv b) (ops : List FwdOp) :
    fwdRun (fun i => (BV.get b i).map (·.map (fun x => if x then 1 else 0))) (BV.abs b).length 0 ops =
      specRun ((BV.abs b).map (fun x => if x then 1 else 0)) (ops.map FwdOp.toIterOp) := by
  have := C12.fwditer_history (fun i => (BV.get b i).map (·.map (fun x => if x then 1 else 0)))
    ((BV.abs b).map (fun x => if x then 1 else 0))
    (fun i => by rw [BV.get_ok b h i]; simp [Except.map, List.getElem?_map]) ops
  simpa using this

-- #print axioms Qwt.Props.C12Closed.qwt_iter        -- [propext, Classical.choice, Quot.sound]
-- #print axioms Qwt.Props.C12Closed.wt_iter         -- [propext, Classical.choice, Quot.sound]
-- #print axioms Qwt.Props.C12Closed.hwt_iter        -- [propext, Classical.choice, Quot.sound]
-- #print axioms Qwt.Props.C12Closed.hqwt_iter       -- [propext, Classical.choice, Quot.sound]
-- #print axioms Qwt.Props.C12Closed.hqwt_iter_exists

end Qwt.Props.C12Closed
