import Qwt.Props.C12Closed
import Qwt.Props.C08

/-!
# C12 / C08 (addendum) — histories on the position iterators

`ones()`, `zeros()`, `ones_with_pos(p)`, `zeros_with_pos(p)` return a `BitVectorBitPositionsIter`; the crate
overrides none of the provided `Iterator` methods for it, so `nth`, `count`, `last` (and what the harness calls
terminally: `min`, `max`, `fold`, `for_each`, `reduce`) are repeated calls of `next`.  `next` enumerates exactly
the positions of the wanted bit from `p` on (`C08.posIter_ok`), and after its first `None` it keeps answering
`None` (`C08.posIter_none_stable`); hence every history of calls is the history of the deque specification over
that list of positions — the statement the driver evaluates for the `ones_hist` / `zeros_hist` requests.
-/
namespace Qwt.Props.C12Closed
open Qwt Qwt.Iter

theorem pos_iter_history (bit : Bool) (b : BV.BitVector) (hb : BV.Inv b) (pos : Nat) (ops : List FwdOp) :
    fwdRun (fun i => .ok (BV.PosIter.collect bit b (b.nBits + 1) (BV.PosIter.withPos bit b pos))[i]?)
        (BV.PosIter.collect bit b (b.nBits + 1) (BV.PosIter.withPos bit b pos)).length 0 ops =
      specRun ((List.range b.nBits).filter (fun i => decide (pos ≤ i ∧ (BV.abs b)[i]! = bit)))
        (ops.map FwdOp.toIterOp) := by
  rw [C08.posIter_ok bit b hb pos]
  exact C12.fwditer_history _ _ (fun _ => rfl) ops

theorem pos_iter_new_history (bit : Bool) (b : BV.BitVector) (hb : BV.Inv b) (ops : List FwdOp) :
    fwdRun (fun i => .ok (BV.PosIter.collect bit b (b.nBits + 1) BV.PosIter.new)[i]?)
        (BV.PosIter.collect bit b (b.nBits + 1) BV.PosIter.new).length 0 ops =
      specRun (Spec.positions bit (BV.abs b)) (ops.map FwdOp.toIterOp) := by
  rw [C08.posIter_new_positions bit b hb]
  exact C12.fwditer_history _ _ (fun _ => rfl) ops

/-- non-vacuity of the deque reading on a concrete list of positions -/
example : specRun [3, 9, 64, 70] ([FwdOp.next, .nth 1, .count].map FwdOp.toIterOp) =
    [Out.some 3, Out.some 64, Out.val 1] := by decide

end Qwt.Props.C12Closed
