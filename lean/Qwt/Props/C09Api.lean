import Qwt.Model.Prefetch

/-! C09 / C04 — the *public* prefetch entry points (`prefetch_read_NTA`, `WTSupport::prefetch_info`,
`WTSupport::prefetch_data`, `BitVector::prefetch_line`, `RSWide::prefetch_info/prefetch_data`) are total:
for every state and every position — in range or not, up to `usize::MAX` and beyond in the model — they
return `()` without a fault.  The content is that the only arithmetic they perform on the argument is
a shift / division and one *guarded* subtraction; the estimate itself is never used as an index. -/
namespace Qwt.Props.C09Api
open Qwt Qwt.PFS

theorem prefetchReadNTA_total (len offset : Nat) : prefetchReadNTA len offset = .ok () := rfl

theorem rsq_prefetch_info_total (B : Nat) (r : RSQ.RSQVector) (pos : Nat) :
    rsqPrefetchInfo B r pos = .ok () := rfl

theorem rsq_prefetch_data_total (B : Nat) (r : RSQ.RSQVector) (pos : Nat) :
    rsqPrefetchData B r pos = .ok () := by
  unfold rsqPrefetchData prefetchReadNTA
  by_cases hB : (B == 512) = true
  · by_cases hl : pos >>> 8 > 0
    · have : 1 ≤ pos >>> 8 := hl
      simp [hB, hl, sub, this, bind, Except.bind, pure, Except.pure]
    · simp [hB, hl, bind, Except.bind, pure, Except.pure]
  · simp [hB, bind, Except.bind, pure, Except.pure]

theorem bv_prefetch_line_total (b : BV.BitVector) (n : Nat) : bvPrefetchLine b n = .ok () := rfl

theorem rsw_prefetch_info_total (r : RSW.RSWide) (pos : Nat) : rswPrefetchInfo r pos = .ok () := rfl

theorem rsw_prefetch_data_total (r : RSW.RSWide) (pos : Nat) : rswPrefetchData r pos = .ok () := rfl

/-- the guarded subtraction is what keeps `prefetch_data(0..=255)` on 512-symbol blocks from
    underflowing: without the guard the model faults (negation witness for the guard) -/
example : sub (0 >>> 8) 1 = .error .overflow := by simp [sub]

end Qwt.Props.C09Api
