import Qwt.Proofs.Space

/-! C16 — reported space usage matches the memory retained.

`Space.*` gives, for every structure of the model, `heap` (bytes requested from the
allocator by the construction path), `self_` (`size_of_val`) and `usage` (transcription of
the hand-written `space_usage_byte`).  The theorems say how far `usage` is from
`heap + self_`: exactly equal for the vectors, a constant per level for the trees.  The
`space` requests of the check compare all three numbers with the real crate on every
generated case (exact equality), which is what ties these statements to the code. -/
namespace Qwt.Props.C16
open Qwt Qwt.Space

theorem qv_exact (q : QV.QVector) : (qv q).usage = (qv q).heap + (qv q).self_ := qv_usage q
theorem bv_exact (b : BV.BitVector) : (bv b).usage = (bv b).heap + (bv b).self_ := bv_usage b
theorem rsq_exact (r : RSQ.RSQVector) (h4 : r.rs.selectSamples.size = 4) :
    (rsq r).usage = (rsq r).heap + (rsq r).self_ := rsq_usage r h4
theorem rsn_exact (r : RSN.RSNarrow) (h2 : r.selectSamples.size = 2) :
    (rsn r).usage = (rsn r).heap + (rsn r).self_ := rsn_usage r h2
/-- `RSWide` forgets its 8-byte `n_zeros` field -/
theorem rsw_off_by_8 (r : RSW.RSWide) (h2 : r.selectSamples.size = 2) :
    (rsw r).usage + 8 = (rsw r).heap + (rsw r).self_ := rsw_usage r h2
theorem inv_exact (i : DA.Inventories) : (inv i).usage = (inv i).heap + (inv i).self_ := inv_usage i

theorem da_exact (d : DA.DArray) :
    (da d).usage + (match d.zeroes with | some _ => 0 | none => 56) = (da d).heap + (da d).self_ := by
  cases hz : d.zeroes with
  | none => simp only [da, hz, bv, inv, boxUsage]; omega
  | some z => simp only [da, hz, bv, inv, boxUsage]; omega

theorem sum_rsq (l : List RSQ.RSQVector) (h : ∀ r ∈ l, r.rs.selectSamples.size = 4) :
    ((l.map rsq).map (·.usage)).sum = ((l.map rsq).map (·.heap)).sum + 144 * l.length := by
  induction l with
  | nil => simp
  | cons x xs ih =>
    have hx := rsq_usage x (h x (by simp))
    have := ih (fun r hr => h r (by simp [hr]))
    have hs : (rsq x).self_ = 144 := rfl
    simp only [List.map_cons, List.sum_cons, List.length_cons] at *
    omega

/-- plain quad tree without prefetch support: `usage` is the retained heap plus the 16 bytes
    it counts for `n` and `n_levels`; so it differs from `heap + size_of_val` by less than
    the size of the struct itself (a constant) -/
theorem qwt_close (t : QWTree.QWT) (h : ∀ r ∈ t.qvs.toList, r.rs.selectSamples.size = 4)
    (hp : t.pfs = none) : (qwt t).usage = (qwt t).heap + 16 := by
  have := sum_rsq t.qvs.toList h
  simp only [qwt, hp, pfsOpt, foldl_plus_eq, Nat.zero_add] at *
  have hl : t.qvs.toList.length = t.qvs.size := by simp
  omega

theorem sum_rsw (l : List RSW.RSWide) (h : ∀ r ∈ l, r.selectSamples.size = 2) :
    ((l.map rsw).map (·.usage)).sum + 8 * l.length = ((l.map rsw).map (·.heap)).sum + 88 * l.length := by
  induction l with
  | nil => simp
  | cons x xs ih =>
    have hx := rsw_usage x (h x (by simp))
    have := ih (fun r hr => h r (by simp [hr]))
    have hs : (rsw x).self_ = 88 := rfl
    simp only [List.map_cons, List.sum_cons, List.length_cons] at *
    omega

/-- plain binary tree: 8 bytes per level short (the `n_zeros` of each `RSWide`) -/
theorem wt_close (t : BinWT.WT) (h : ∀ r ∈ t.bvs.toList, r.selectSamples.size = 2) :
    (wt false t).usage + 8 * t.bvs.size = (wt false t).heap + 16 := by
  have := sum_rsw t.bvs.toList h
  simp only [wt, foldl_plus_eq, Nat.zero_add] at *
  have hl : t.bvs.toList.length = t.bvs.size := by simp
  simp only [Bool.false_eq_true, if_false] at *
  omega

-- non-vacuity: the empty quad vector and an empty tree satisfy the hypotheses
example : (rsq {}).usage = (rsq {}).heap + (rsq {}).self_ := rsq_exact {} (by decide)
example : (qwt {}).usage = (qwt {}).heap + 16 := qwt_close {} (by simp) rfl

end Qwt.Props.C16
