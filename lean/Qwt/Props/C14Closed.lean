import Qwt.Props.C14
import Qwt.Props.Closed
import Qwt.Proofs.SpaceSizes

/-! C14, closed — the size hypotheses of `Qwt/Props/C14.lean` (`RSQSize`, `RSWSize`) are derived
from the construction paths, so the space bounds hold for *every* structure built by `new`;
hypotheses are only: element width, `|S| < 2^43`, block size `∈ {256, 512}`.

Summary (`n = |S|`, heap in bytes, `L` = number of levels):

* quad tree, block 256, no prefetch support: `800·heap ≤ L·(227 n + 260000)`,
  i.e. `heap bits ≤ 2nL·(1 + 1/8 + 1/100) + 2600·L`                         (`qwt_space_256`)
* quad tree, block 512: `1600·heap ≤ L·(429 n + 520000)` (`1/16` for `1/8`)   (`qwt_space_512`)
* prefetch support adds at most `L·(336·(n/2^20) + 1280)` bytes, i.e.
  `≤ L·(n/100 + 10240)` bits — under 0.5 % of `2nL`                          (`pfs_heap_le`)
  so `800·heap ≤ L·(228 n + 1284000)`, `1600·heap ≤ L·(430 n + 2568000)`     (`qwt_space_256_pfs`, `_512_pfs`)
* binary tree: `512·heap ≤ L·(67 n + 384000) + 4096·L`                        (`wt_space_closed`)
* stand-alone `RSQVector::new`, `RSWide::new`: the per-level bounds           (`rsq_space_*`, `rsw_space`)
* `heap` is a function of the buffer lengths only (capacity = length)         (`no_slack_*`)

Two statements of the request do not hold as worded and are replaced (see the end of the file):
`RepInv` does not bound the sample arrays from above (`repInv_not_sufficient`), and `RSWSize`
is one entry too tight on the padded last line (`rsw_sizes_false`); `RSWSize'` (`n/8192 + 5`
sample entries) is what `RSWide::new` establishes, and it yields the same bit bound.

Tuning constants.  The select sampling periods and the sample shift of the prefetch support are
extracted from the crate (`Qwt/Extracted.lean`).  The size facts are stated with the extracted
names (`RSQSizeP`: `n / rsqSelectNumSamples + 8`, `RSWSize'`: `n / widePer + 5`,
`nb n = ⌈(n-1)/rate⌉ + 1` with `rate = 2 ^ pfsSampleShift`); for the values at the time of
writing (8192, 8192, 2048) they are the literal facts (`…_8192`, `…_2048` corollaries, which
take the value of the constant as a hypothesis that `rfl` discharges).  The numeric space bounds
below are unchanged and use only the side conditions `4096 ≤ rsqSelectNumSamples`,
`4096 ≤ wide*PerHint`, `1024 ≤ narrow*PerHint`, `10 ≤ pfsSampleShift`, decided on the extracted
values (larger periods only make the structures smaller). -/
namespace Qwt.Props.C14
open Qwt Qwt.Space Qwt.SpaceSizes

/-! ### 1. `RSQVector`: the size facts -/

/-- the size facts follow from the representation invariant plus the (exact) sizes of the
    sample arrays, `sampLen (count c) = max 1 ⌈count c / P⌉ + 1`, `P = rsqSelectNumSamples` -/
theorem rsq_sizes {B : Nat} {r : RSQ.RSQVector} {s : List Nat} (h : RSQP.RepInv B r s)
    (hs : RSQSamples r s) : RSQSizeP B s.length r :=
  rsqSize_of h.holds h.rs hs

/-- `RSQVector::from` establishes invariant, sample sizes and hence the size facts -/
theorem rsq_fromQV {B : Nat} {qv : QV.QVector} {s : List Nat} (dbg : Bool) (hB : B = 256 ∨ B = 512)
    (h : QV.Holds qv s) (hs : ∀ x ∈ s, x < 4) (hl : s.length < 2 ^ 43) :
    ∃ r, RSQ.fromQV dbg B qv = .ok r ∧ RSQP.RepInv B r s ∧ RSQSamples r s ∧ RSQSizeP B s.length r := by
  obtain ⟨r, e, hinv⟩ := RSQP.fromQV_ok dbg hB h hs hl
  have hsm := fromQV_samples hB h hs hl e
  exact ⟨r, e, hinv, hsm, rsq_sizes hinv hsm⟩

theorem rsq_sizes_of_fromQV {B : Nat} {qv : QV.QVector} {s : List Nat} {r : RSQ.RSQVector} (dbg : Bool)
    (hB : B = 256 ∨ B = 512) (h : QV.Holds qv s) (hs : ∀ x ∈ s, x < 4) (hl : s.length < 2 ^ 43)
    (e : RSQ.fromQV dbg B qv = .ok r) : RSQSizeP B s.length r :=
  fromQV_sizes hB h hs hl e

/-- the literal forms (`Space.RSQSize`: `n / 8192 + 8` sample entries), for every sampling period
    of at least 8192 — in particular for the current one (`hP` by `decide`) -/
theorem rsq_sizes_8192 (hP : 8192 ≤ Extracted.rsqSelectNumSamples) {B : Nat} {r : RSQ.RSQVector}
    {s : List Nat} (h : RSQP.RepInv B r s) (hs : RSQSamples r s) : RSQSize B s.length r :=
  (rsq_sizes h hs).toRSQSize hP

theorem rsq_sizes_of_fromQV_8192 (hP : 8192 ≤ Extracted.rsqSelectNumSamples) {B : Nat}
    {qv : QV.QVector} {s : List Nat} {r : RSQ.RSQVector} (dbg : Bool)
    (hB : B = 256 ∨ B = 512) (h : QV.Holds qv s) (hs : ∀ x ∈ s, x < 4) (hl : s.length < 2 ^ 43)
    (e : RSQ.fromQV dbg B qv = .ok r) : RSQSize B s.length r :=
  (rsq_sizes_of_fromQV dbg hB h hs hl e).toRSQSize hP

/-- PARTIAL form of the requested `RepInv B r s → RSQSize B s.length r`: the invariant gives the
    lines and the superblocks; the bound on the sample arrays is the named hypothesis -/
theorem rsq_sizes_partial {B : Nat} {r : RSQ.RSQVector} {s : List Nat} (h : RSQP.RepInv B r s)
    (hsamples : (r.rs.selectSamples.toList.map Array.size).sum ≤ s.length / 8192 + 8) :
    RSQSize B s.length r :=
  ⟨h.holds.size_eq, h.rs.sbs_size, hsamples⟩

/-! ### 2. `RSWide`, `RSNarrow` -/

theorem rsw_sizes' {r : RSW.RSWide} {s : List Bool} (h : RSW.Inv r s) : RSWSize' s.length r :=
  SpaceSizes.rsw_sizes' h

theorem rsn_sizes {r : RSN.RSNarrow} {s : List Bool} (h : RSN.Inv r s) : RSNSize s.length r :=
  SpaceSizes.rsn_sizes h

/-- PARTIAL form of the requested `RSW.Inv r s → RSWSize s.length r` (false as stated, see
    `rsw_sizes_false`): lines and metadata follow, the sample bound is the named hypothesis -/
theorem rsw_sizes_partial {r : RSW.RSWide} {s : List Bool} (h : RSW.Inv r s)
    (hsamples : (r.selectSamples.toList.map Array.size).sum ≤ s.length / 8192 + s.length / 8192 + 4) :
    RSWSize s.length r :=
  ⟨(SpaceSizes.rsw_sizes' h).lines, (SpaceSizes.rsw_sizes' h).sm, hsamples⟩

/-- one level of the binary tree from what `RSWide::new` establishes: same bound as
    `rsw_level_bits` -/
theorem rsw_level_bits' (n : Nat) (r : RSW.RSWide) (h : RSWSize' n r) :
    512 * ((rsw r).heap + (rsw r).self_) ≤ 67 * n + 384000 := rsw_bits' n r h

/-! ### 3. closed bounds for the trees built by `new` -/

section qwt
variable {c : Cfg} {S : List Nat} {t : QWTree.QWT}

/-- number of levels of the quad tree: `(bitlen (max S) + 1) / 2` -/
theorem qwt_levels (hB : c.B = 256 ∨ c.B = 512) (hW : 0 < c.W) (hS : ∀ x ∈ S, x < 2 ^ c.W)
    (hlen : S.length < 2 ^ 43) (hnew : QWTree.new c S.toArray = .ok t) :
    t.qvs.size = (Spec.bitlen (Spec.maxNat S) + 1) / 2 ∧
      ∀ r ∈ t.qvs.toList, RSQSizeP c.B S.length r :=
  ⟨(new_sizes c hB hW S hS hlen hnew).qsz, (new_sizes c hB hW S hS hlen hnew).qv⟩

/-- … with the literal size facts, for every sampling period of at least 8192 -/
theorem qwt_levels_8192 (hP : 8192 ≤ Extracted.rsqSelectNumSamples) (hB : c.B = 256 ∨ c.B = 512)
    (hW : 0 < c.W) (hS : ∀ x ∈ S, x < 2 ^ c.W)
    (hlen : S.length < 2 ^ 43) (hnew : QWTree.new c S.toArray = .ok t) :
    t.qvs.size = (Spec.bitlen (Spec.maxNat S) + 1) / 2 ∧
      ∀ r ∈ t.qvs.toList, RSQSize c.B S.length r :=
  ⟨(qwt_levels hB hW hS hlen hnew).1, fun r hr => ((qwt_levels hB hW hS hlen hnew).2 r hr).toRSQSize hP⟩

/-! the level sums of `Qwt/Props/C14.lean` (`heaps_256`, `qwt256_space`, …) from `RSQSizeP` -/

theorem heaps_256P (n : Nat) (l : List RSQ.RSQVector) (h : ∀ r ∈ l, RSQSizeP 256 n r) :
    ∀ x ∈ (l.map rsq).map (·.heap), 800 * (x + 144) ≤ 227 * n + 260000 := by
  intro x hx
  simp only [List.map_map, List.mem_map, Function.comp] at hx
  obtain ⟨r, hr, rfl⟩ := hx
  have := rsqP_level_bits_256 n r (h r hr)
  have hs : (rsq r).self_ = 144 := rfl
  rw [hs] at this
  exact this

/-- block size 512, with one `n` to spare (`428`; the sampling structures of a prefetch support
    with a smaller sample shift may use it) -/
theorem heaps_512P (n : Nat) (l : List RSQ.RSQVector) (h : ∀ r ∈ l, RSQSizeP 512 n r) :
    ∀ x ∈ (l.map rsq).map (·.heap), 1600 * (x + 144) ≤ 428 * n + 520000 := by
  intro x hx
  simp only [List.map_map, List.mem_map, Function.comp] at hx
  obtain ⟨r, hr, rfl⟩ := hx
  have := rsqP_level_bits_512_428 n r (h r hr)
  have hs : (rsq r).self_ = 144 := rfl
  rw [hs] at this
  exact this

theorem qwt256_spaceP (n : Nat) (t : QWTree.QWT) (hp : t.pfs = none)
    (h : ∀ r ∈ t.qvs.toList, RSQSizeP 256 n r) :
    800 * (qwt t).heap ≤ t.qvs.size * (227 * n + 260000) := by
  have := scaled_sum_le 800 144 _ _ (heaps_256P n t.qvs.toList h)
  simp only [List.length_map, Array.length_toList] at this
  simp only [qwt, hp, pfsOpt, foldl_plus_eq, Nat.zero_add, Nat.add_zero]
  generalize (List.map (fun x => x.heap) (List.map rsq t.qvs.toList)).sum = S at *
  generalize t.qvs.size * (227 * n + 260000) = R at *
  omega

theorem qwt512_spaceP_428 (n : Nat) (t : QWTree.QWT) (hp : t.pfs = none)
    (h : ∀ r ∈ t.qvs.toList, RSQSizeP 512 n r) :
    1600 * (qwt t).heap ≤ t.qvs.size * (428 * n + 520000) := by
  have := scaled_sum_le 1600 144 _ _ (heaps_512P n t.qvs.toList h)
  simp only [List.length_map, Array.length_toList] at this
  simp only [qwt, hp, pfsOpt, foldl_plus_eq, Nat.zero_add, Nat.add_zero]
  generalize (List.map (fun x => x.heap) (List.map rsq t.qvs.toList)).sum = S at *
  generalize t.qvs.size * (428 * n + 520000) = R at *
  omega

theorem qwt512_spaceP (n : Nat) (t : QWTree.QWT) (hp : t.pfs = none)
    (h : ∀ r ∈ t.qvs.toList, RSQSizeP 512 n r) :
    1600 * (qwt t).heap ≤ t.qvs.size * (429 * n + 520000) :=
  Nat.le_trans (qwt512_spaceP_428 n t hp h) (Nat.mul_le_mul_left _ (by omega))

/-- quad tree, block size 256, without prefetch support:
    `heap bits ≤ 2nL·(1 + 1/8 + 1/100) + 2600·L` -/
theorem qwt_space_256 (hB : c.B = 256) (hp : c.pfs = false) (hW : 0 < c.W)
    (hS : ∀ x ∈ S, x < 2 ^ c.W) (hlen : S.length < 2 ^ 43)
    (hnew : QWTree.new c S.toArray = .ok t) :
    800 * (qwt t).heap ≤ (Spec.bitlen (Spec.maxNat S) + 1) / 2 * (227 * S.length + 260000) := by
  have hs := new_sizes c (Or.inl hB) hW S hS hlen hnew
  have := qwt256_spaceP S.length t (hs.pfs_none (Or.inl hp)) (by rw [← hB]; exact hs.qv)
  rw [hs.qsz] at this
  exact this

/-- quad tree, block size 512, without prefetch support:
    `heap bits ≤ 2nL·(1 + 1/16 + 1/100) + 2600·L` -/
theorem qwt_space_512 (hB : c.B = 512) (hp : c.pfs = false) (hW : 0 < c.W)
    (hS : ∀ x ∈ S, x < 2 ^ c.W) (hlen : S.length < 2 ^ 43)
    (hnew : QWTree.new c S.toArray = .ok t) :
    1600 * (qwt t).heap ≤ (Spec.bitlen (Spec.maxNat S) + 1) / 2 * (429 * S.length + 520000) := by
  have hs := new_sizes c (Or.inr hB) hW S hS hlen hnew
  have := qwt512_spaceP S.length t (hs.pfs_none (Or.inl hp)) (by rw [← hB]; exact hs.qv)
  rw [hs.qsz] at this
  exact this

/-! #### the sampling structures of the prefetch support -/

/-- `nbOf n = ⌈(n-1)/rate⌉ + 1` sample bits occupy at most `n/(512·rate) + 2` lines of 512 bits
    (`rate = 2 ^ pfsSampleShift`; `n/2^20 + 2` for the shift 11, `nb_lines_2048`) -/
theorem nb_lines (n : Nat) : (PfsP.nbOf n + 511) / 512 ≤ n / (512 * PfsP.rate) + 2 := by
  have hR := PfsP.rate_pos
  have h1 : PfsP.nbOf n ≤ n / PfsP.rate + 2 := by
    unfold PfsP.nbOf
    split
    · exact Nat.zero_le _
    · have := Nat.div_le_div_right (c := PfsP.rate) (show n + PfsP.rate - 2 ≤ n + PfsP.rate by omega)
      rw [Nat.add_div_right _ hR] at this
      generalize (n + PfsP.rate - 2) / PfsP.rate = a at *
      generalize n / PfsP.rate = b at *
      omega
  have h2 : n / (512 * PfsP.rate) = n / PfsP.rate / 512 := by
    rw [Nat.div_div_eq_div_mul, Nat.mul_comm]
  rw [h2]
  generalize n / PfsP.rate = q at *
  omega

theorem nb_lines_2048 (h11 : Extracted.pfsSampleShift = 11) (n : Nat) :
    (PfsP.nbOf n + 511) / 512 ≤ n / 1048576 + 2 := by
  have := nb_lines n
  rwa [PfsP.rate_2048 h11] at this

/-- one `RSNarrow` of a level over `n` symbols: `≤ 84·(n/(512·rate)) + 232` bytes -/
theorem rsn_level_heap (n : Nat) (r : RSN.RSNarrow) (h : RSNSize (PfsP.nbOf n) r) :
    (rsn r).heap ≤ 84 * (n / (512 * PfsP.rate)) + 232 := by
  have h1 := rsn_heap_le _ r h
  have h2 := nb_lines n
  omega

/-- the sampling structure of one level: four `RSNarrow` plus the boxed slice of four headers -/
theorem pfs_level_heap (n : Nat) (p : PFS.PrefetchSupport) (h : PfsSize n p) :
    (Space.pfs p).heap ≤ 336 * (n / (512 * PfsP.rate)) + 1248 := by
  simp only [Space.pfs, foldl_plus_eq, Nat.zero_add, h.size]
  have hb : ∀ x ∈ (p.samples.toList.map rsn).map (·.heap), x ≤ 84 * (n / (512 * PfsP.rate)) + 232 := by
    intro x hx
    simp only [List.map_map, List.mem_map, Function.comp] at hx
    obtain ⟨r, hr, rfl⟩ := hx
    exact rsn_level_heap n r (h.rsn r hr)
  have := sum_le_of_forall_le _ _ hb
  simp only [List.length_map, Array.length_toList, h.size] at this
  omega

/-- all sampling structures of a tree with `L` levels: `≤ L·(336·(n/(512·rate)) + 1280)` bytes
    (`336·(n/2^20)` for the shift 11, `pfs_heap_le_2048`) -/
theorem pfs_heap_le (n L : Nat) (a : Array PFS.PrefetchSupport) (hsz : a.size = L)
    (h : ∀ p ∈ a.toList, PfsSize n p) :
    (pfsOpt L (some a)).heap ≤ L * (336 * (n / (512 * PfsP.rate)) + 1280) := by
  simp only [pfsOpt, foldl_plus_eq, Nat.zero_add]
  have hb : ∀ x ∈ (a.toList.map Space.pfs).map (·.heap), x ≤ 336 * (n / (512 * PfsP.rate)) + 1248 := by
    intro x hx
    simp only [List.map_map, List.mem_map, Function.comp] at hx
    obtain ⟨p, hp, rfl⟩ := hx
    exact pfs_level_heap n p (h p hp)
  have := sum_le_of_forall_le _ _ hb
  simp only [List.length_map, Array.length_toList, hsz] at this
  generalize n / (512 * PfsP.rate) = q at *
  have e : L * (336 * q + 1280) = L * (336 * q + 1248) + 32 * L := by
    rw [show 336 * q + 1280 = 336 * q + 1248 + 32 by omega, Nat.mul_add]
    omega
  rw [e]
  omega

theorem pfs_heap_le_2048 (h11 : Extracted.pfsSampleShift = 11) (n L : Nat)
    (a : Array PFS.PrefetchSupport) (hsz : a.size = L) (h : ∀ p ∈ a.toList, PfsSize n p) :
    (pfsOpt L (some a)).heap ≤ L * (336 * (n / 1048576) + 1280) := by
  have := pfs_heap_le n L a hsz h
  rwa [PfsP.rate_2048 h11] at this

/-- side condition on the extracted constant for the bit bounds of the sampling structures -/
theorem shift_ge_ten : 10 ≤ Extracted.pfsSampleShift := by decide

theorem rate_ge_1024 : 1024 ≤ PfsP.rate := by
  have := Nat.pow_le_pow_right (n := 2) (by decide) shift_ge_ten
  exact this

theorem pfs_lines_le (n : Nat) : n / (512 * PfsP.rate) ≤ n / 524288 :=
  Nat.div_le_div_left (show 524288 ≤ 512 * PfsP.rate by have := rate_ge_1024; omega) (by decide)

/-- in bits, scaled by 100: the sampling structures cost at most `L·(n/100 + 10240)` bits,
    under half a percent of the `2nL` payload bits (every sample shift `≥ 10`) -/
theorem pfs_bits_le (n L : Nat) (a : Array PFS.PrefetchSupport) (hsz : a.size = L)
    (h : ∀ p ∈ a.toList, PfsSize n p) :
    800 * (pfsOpt L (some a)).heap ≤ L * (n + 1024000) := by
  have h1 := pfs_heap_le n L a hsz h
  have hq := pfs_lines_le n
  generalize n / (512 * PfsP.rate) = q at *
  have h2 : 800 * (336 * q + 1280) ≤ n + 1024000 := by omega
  calc 800 * (pfsOpt L (some a)).heap ≤ 800 * (L * (336 * q + 1280)) :=
        Nat.mul_le_mul_left _ h1
    _ = L * (800 * (336 * q + 1280)) := by
        rw [← Nat.mul_assoc, ← Nat.mul_assoc, Nat.mul_comm 800 L]
    _ ≤ L * (n + 1024000) := Nat.mul_le_mul_left _ h2

/-- scaled by 200, every sample shift `≥ 10`: at most `L·(2n + 2048000)` … -/
theorem pfs_bits_le_1600_2n (n L : Nat) (a : Array PFS.PrefetchSupport) (hsz : a.size = L)
    (h : ∀ p ∈ a.toList, PfsSize n p) :
    1600 * (pfsOpt L (some a)).heap ≤ L * (2 * n + 2048000) := by
  have h1 := pfs_heap_le n L a hsz h
  have hq := pfs_lines_le n
  generalize n / (512 * PfsP.rate) = q at *
  have h2 : 1600 * (336 * q + 1280) ≤ 2 * n + 2048000 := by omega
  calc 1600 * (pfsOpt L (some a)).heap ≤ 1600 * (L * (336 * q + 1280)) :=
        Nat.mul_le_mul_left _ h1
    _ = L * (1600 * (336 * q + 1280)) := by
        rw [← Nat.mul_assoc, ← Nat.mul_assoc, Nat.mul_comm 1600 L]
    _ ≤ L * (2 * n + 2048000) := Nat.mul_le_mul_left _ h2

/-- … and `L·(n + 2048000)` for every sample shift `≥ 11` (`hR` by `decide` on the current value:
    `1600·336 / (512·rate) ≤ 1` needs `rate ≥ 1050`) -/
theorem pfs_bits_le_1600 (hR : 11 ≤ Extracted.pfsSampleShift) (n L : Nat)
    (a : Array PFS.PrefetchSupport) (hsz : a.size = L)
    (h : ∀ p ∈ a.toList, PfsSize n p) :
    1600 * (pfsOpt L (some a)).heap ≤ L * (n + 2048000) := by
  have h1 := pfs_heap_le n L a hsz h
  have hr : 2048 ≤ PfsP.rate := Nat.pow_le_pow_right (n := 2) (by decide) hR
  have hq : n / (512 * PfsP.rate) ≤ n / 1048576 :=
    Nat.div_le_div_left (show 1048576 ≤ 512 * PfsP.rate by omega) (by decide)
  generalize n / (512 * PfsP.rate) = q at *
  have h2 : 1600 * (336 * q + 1280) ≤ n + 2048000 := by omega
  calc 1600 * (pfsOpt L (some a)).heap ≤ 1600 * (L * (336 * q + 1280)) :=
        Nat.mul_le_mul_left _ h1
    _ = L * (1600 * (336 * q + 1280)) := by
        rw [← Nat.mul_assoc, ← Nat.mul_assoc, Nat.mul_comm 1600 L]
    _ ≤ L * (n + 2048000) := Nat.mul_le_mul_left _ h2

/-- heap of a quad tree = levels + sampling structures -/
theorem qwt_heap_split (t : QWTree.QWT) :
    (qwt t).heap = (qwt { t with pfs := none }).heap + (pfsOpt t.nLevels t.pfs).heap := by
  simp [qwt, pfsOpt]

/-- quad tree, block size 256, WITH prefetch support:
    `heap bits ≤ 2nL·(1 + 1/8 + 1/100 + 1/200) + 12840·L` (below `1 + 1/8 + 2/100`) -/
theorem qwt_space_256_pfs (hB : c.B = 256) (hW : 0 < c.W)
    (hS : ∀ x ∈ S, x < 2 ^ c.W) (hlen : S.length < 2 ^ 43)
    (hnew : QWTree.new c S.toArray = .ok t) :
    800 * (qwt t).heap ≤ (Spec.bitlen (Spec.maxNat S) + 1) / 2 * (228 * S.length + 1284000) := by
  have hs := new_sizes c (Or.inl hB) hW S hS hlen hnew
  have h1 := qwt256_spaceP S.length { t with pfs := none } rfl (by rw [← hB]; exact hs.qv)
  rw [show ({ t with pfs := none } : QWTree.QWT).qvs.size = t.qvs.size from rfl, hs.qsz,
    show QWTree.nLevelsOf (Spec.maxNat S) = (Spec.bitlen (Spec.maxNat S) + 1) / 2 from rfl] at h1
  rw [qwt_heap_split]
  have h2 : 800 * (pfsOpt t.nLevels t.pfs).heap ≤
      (Spec.bitlen (Spec.maxNat S) + 1) / 2 * (S.length + 1024000) := by
    cases hc : c.pfs
    · rw [hs.pfs_none (Or.inl hc)]; simp [pfsOpt]
    · by_cases hne : S = []
      · rw [hs.pfs_none (Or.inr hne)]; simp [pfsOpt]
      · obtain ⟨a, ha, hsz, hp⟩ := hs.pfs_some hc hne
        rw [ha, hs.nLevels hne]
        exact pfs_bits_le _ _ a hsz hp
  generalize (Spec.bitlen (Spec.maxNat S) + 1) / 2 = L at h1 h2 ⊢
  generalize S.length = n at h1 h2 ⊢
  have e := Nat.mul_add L (227 * n + 260000) (n + 1024000)
  have e2 : 227 * n + 260000 + (n + 1024000) = 228 * n + 1284000 := by omega
  rw [e2] at e
  have s1 := Nat.add_le_add h1 h2
  rw [← Nat.mul_add] at s1
  exact e ▸ s1

/-- quad tree, block size 512, WITH prefetch support:
    `heap bits ≤ 2nL·(1 + 1/16 + 1/100 + 1/400) + 12840·L` -/
theorem qwt_space_512_pfs (hB : c.B = 512) (hW : 0 < c.W)
    (hS : ∀ x ∈ S, x < 2 ^ c.W) (hlen : S.length < 2 ^ 43)
    (hnew : QWTree.new c S.toArray = .ok t) :
    1600 * (qwt t).heap ≤ (Spec.bitlen (Spec.maxNat S) + 1) / 2 * (430 * S.length + 2568000) := by
  have hs := new_sizes c (Or.inr hB) hW S hS hlen hnew
  have h1 := qwt512_spaceP_428 S.length { t with pfs := none } rfl (by rw [← hB]; exact hs.qv)
  rw [show ({ t with pfs := none } : QWTree.QWT).qvs.size = t.qvs.size from rfl, hs.qsz,
    show QWTree.nLevelsOf (Spec.maxNat S) = (Spec.bitlen (Spec.maxNat S) + 1) / 2 from rfl] at h1
  rw [qwt_heap_split]
  have h2 : 1600 * (pfsOpt t.nLevels t.pfs).heap ≤
      (Spec.bitlen (Spec.maxNat S) + 1) / 2 * (2 * S.length + 2048000) := by
    cases hc : c.pfs
    · rw [hs.pfs_none (Or.inl hc)]; simp [pfsOpt]
    · by_cases hne : S = []
      · rw [hs.pfs_none (Or.inr hne)]; simp [pfsOpt]
      · obtain ⟨a, ha, hsz, hp⟩ := hs.pfs_some hc hne
        rw [ha, hs.nLevels hne]
        exact pfs_bits_le_1600_2n _ _ a hsz hp
  generalize (Spec.bitlen (Spec.maxNat S) + 1) / 2 = L at h1 h2 ⊢
  generalize S.length = n at h1 h2 ⊢
  have e := Nat.mul_add L (428 * n + 520000) (2 * n + 2048000)
  have e2 : 428 * n + 520000 + (2 * n + 2048000) = 430 * n + 2568000 := by omega
  rw [e2] at e
  have s1 := Nat.add_le_add h1 h2
  rw [← Nat.mul_add] at s1
  exact e ▸ s1

end qwt

/-! #### the plain binary tree -/

theorem heaps_wt' (n : Nat) (l : List RSW.RSWide) (h : ∀ r ∈ l, RSWSize' n r) :
    ∀ x ∈ (l.map rsw).map (·.heap), 512 * (x + 88) ≤ 67 * n + 384000 := by
  intro x hx
  simp only [List.map_map, List.mem_map, Function.comp] at hx
  obtain ⟨r, hr, rfl⟩ := hx
  have := rsw_bits' n r (h r hr)
  have hs : (rsw r).self_ = 88 := rfl
  rw [hs] at this
  generalize (rsw r).heap = a at *
  omega

theorem wt_space' (n : Nat) (t : BinWT.WT) (hl : t.lens.size = t.bvs.size)
    (h : ∀ r ∈ t.bvs.toList, RSWSize' n r) :
    512 * (wt false t).heap ≤ t.bvs.size * (67 * n + 384000) + 4096 * t.bvs.size := by
  have := scaled_sum_le 512 88 _ _ (heaps_wt' n t.bvs.toList h)
  simp only [List.length_map, Array.length_toList] at this
  simp only [wt, foldl_plus_eq, Nat.zero_add, hl]
  generalize (List.map (fun x => x.heap) (List.map rsw t.bvs.toList)).sum = S at *
  generalize t.bvs.size * (67 * n + 384000) = R at *
  omega

/-- plain binary tree: `heap bits ≤ L·n·(1 + 3/64) + 6064·L`, `L = bitlen (max S)` -/
theorem wt_space_closed (c : Cfg) (hW : 0 < c.W) (S : List Nat) (hb : ∀ x ∈ S, x < 2 ^ c.W)
    (hlen : S.length < 2 ^ 43) {t : BinWT.WT} (hnew : BinWT.new c false S.toArray [] = .ok t) :
    512 * (wt false t).heap ≤ Spec.bitlen (Spec.maxNat S) * (67 * S.length + 384000) +
      4096 * Spec.bitlen (Spec.maxNat S) := by
  obtain ⟨h1, h2, _⟩ := bin_new_shape c false _ _ hnew
  have h3 := bin_new_sizes c S hlen hnew
  have := wt_space' S.length t (by rw [h1, h2]) h3
  by_cases hne : S = []
  · subst hne
    have : t = {} := by
      have e : BinWT.new c false ([] : List Nat).toArray [] = .ok {} := rfl
      rw [e] at hnew; exact (Except.ok.inj hnew).symm
    subst this
    simp [wt]
  · obtain ⟨t', e', _, hL⟩ := Closed.wt_new c hW S hb hlen
    rw [hnew] at e'
    have := Except.ok.inj e'
    subst this
    rw [h1, (hL hne).2] at this
    exact this

/-! #### stand-alone vectors -/

theorem rsq_new_sizes {dbg : Bool} {B : Nat} (hB : B = 256 ∨ B = 512) (vals : List Int)
    (hl : vals.length < 2 ^ 43) {r : RSQ.RSQVector} (h : RSQ.new dbg B vals = .ok r) :
    RSQSizeP B vals.length r := by
  unfold RSQ.new at h
  obtain ⟨qv, hq, h⟩ := bind_ok h
  have h64 : two64 = 2 ^ 64 := by decide
  obtain ⟨q, e, hinv, habs⟩ := QV.fromIter_ok vals (by omega)
  rw [hq] at e
  have := Except.ok.inj e
  subst this
  have hh := RSQP.holds_of_inv hinv
  have hlen : (QV.abs qv).length = vals.length := by rw [habs]; simp
  have := fromQV_sizes hB hh (by
    rw [habs]
    intro x hx
    obtain ⟨v, _, rfl⟩ := List.mem_map.mp hx
    omega) (by rw [hlen]; exact hl) h
  rwa [hlen] at this

/-- `RSQVector::<256>::new`: `(heap + 144)·8 ≤ 2n·(1 + 1/8 + 1/100) + 2600` bits -/
theorem rsq_space_256 (dbg : Bool) (vals : List Int) (hl : vals.length < 2 ^ 43) {r : RSQ.RSQVector}
    (h : RSQ.new dbg 256 vals = .ok r) :
    800 * ((rsq r).heap + (rsq r).self_) ≤ 227 * vals.length + 260000 :=
  rsqP_level_bits_256 _ r (rsq_new_sizes (Or.inl rfl) vals hl h)

/-- `RSQVector::<512>::new`: `(heap + 144)·8 ≤ 2n·(1 + 1/16 + 1/100) + 2600` bits -/
theorem rsq_space_512 (dbg : Bool) (vals : List Int) (hl : vals.length < 2 ^ 43) {r : RSQ.RSQVector}
    (h : RSQ.new dbg 512 vals = .ok r) :
    1600 * ((rsq r).heap + (rsq r).self_) ≤ 429 * vals.length + 520000 :=
  rsqP_level_bits_512 _ r (rsq_new_sizes (Or.inr rfl) vals hl h)

/-- `RSWide::new` over a bit vector holding `s`: `(heap + 88)·8 ≤ n·(1 + 3/64) + 6000` bits -/
theorem rsw_space {b : BV.BitVector} {s : List Bool} (hb : BV.Holds b s) (hl : s.length < 2 ^ 43)
    {r : RSW.RSWide} (h : RSW.new b = .ok r) :
    512 * ((rsw r).heap + (rsw r).self_) ≤ 67 * s.length + 384000 := by
  obtain ⟨r', e, _, hinv⟩ := RSW.new_inv hb hl
  rw [h] at e
  have := Except.ok.inj e
  subst this
  exact rsw_bits' _ _ (SpaceSizes.rsw_sizes' hinv)

/-- `RSNarrow::new` over a bit vector holding `s`: `heap ≤ 84·⌈n/512⌉ + 64` bytes -/
theorem rsn_space {b : BV.BitVector} {s : List Bool} (hb : BV.Holds b s)
    {r : RSN.RSNarrow} (h : RSN.new b = .ok r) :
    (rsn r).heap ≤ 84 * ((s.length + 511) / 512) + 64 := by
  obtain ⟨r', e, _, hinv⟩ := RSN.new_inv hb
  rw [h] at e
  have := Except.ok.inj e
  subst this
  exact rsn_heap_le _ _ (SpaceSizes.rsn_sizes hinv)

/-! ### 4. no slack: `heap` is a function of the buffer lengths alone -/

/-- every buffer of an `RSQVector` is counted with capacity = length -/
theorem no_slack_rsq (r : RSQ.RSQVector) :
    (rsq r).heap = 64 * (r.qv.data.size / 4) + 64 * (r.rs.superblocks.size / 4)
      + 4 * (r.rs.selectSamples.toList.map Array.size).sum := by
  simp only [rsq, qv, rsSupport, array_foldl_add_eq, Nat.zero_add]
  omega

/-- and, for a vector with the sizes of `RSQSize`, the three terms as functions of `n` -/
theorem no_slack_rsq_n {B n : Nat} (r : RSQ.RSQVector) (h : RSQSize B n r) :
    (rsq r).heap = 64 * ((n + 255) / 256) + 64 * (n / (8 * B) + 1)
      + 4 * (r.rs.selectSamples.toList.map Array.size).sum := by
  rw [no_slack_rsq, h.lines, h.sbs]
  omega

theorem no_slack_rsq_nP {B n : Nat} (r : RSQ.RSQVector) (h : RSQSizeP B n r) :
    (rsq r).heap = 64 * ((n + 255) / 256) + 64 * (n / (8 * B) + 1)
      + 4 * (r.rs.selectSamples.toList.map Array.size).sum := by
  rw [no_slack_rsq, h.lines, h.sbs]
  omega

theorem no_slack_rsw (r : RSW.RSWide) :
    (rsw r).heap = 64 * (r.bv.data.size / 8) + 16 * r.superblockMetadata.size
      + 8 * (r.selectSamples.toList.map Array.size).sum := by
  simp only [rsw, bv, array_foldl_add_eq, Nat.zero_add]

theorem no_slack_rsn (r : RSN.RSNarrow) :
    (rsn r).heap = 64 * (r.bv.data.size / 8) + 8 * r.blockRankPairs.size
      + 8 * (r.selectSamples.toList.map Array.size).sum := by
  simp only [rsn, bv, array_foldl_add_eq, Nat.zero_add]

/-- the tree keeps `qvs` at capacity = length (`shrink_to_fit`); the only buffer kept above its
    length is the `Vec<PrefetchSupport>`, created `with_capacity(n_levels)` and filled with
    exactly `n_levels` entries (`QSizes.pfs_some`: `a.size = nLevels`), so no slack there either -/
theorem no_slack_qwt (t : QWTree.QWT) :
    (qwt t).heap = 144 * t.qvs.size + ((t.qvs.toList.map rsq).map (·.heap)).sum
      + (pfsOpt t.nLevels t.pfs).heap := by
  simp only [qwt, foldl_plus_eq, Nat.zero_add]

theorem no_slack_wt (t : BinWT.WT) :
    (wt false t).heap = 88 * t.bvs.size + 8 * t.lens.size + ((t.bvs.toList.map rsw).map (·.heap)).sum := by
  simp only [wt, foldl_plus_eq, Nat.zero_add]

/-! ### 5. the two statements that do not hold as worded -/

/-- a hundred spurious entries -/
def pad : Array Nat := Array.replicate 100 0
theorem pad_size : pad.size = 100 := Array.size_replicate ..

/-- `r` with a hundred spurious entries appended to its first sample array -/
def fatten (r : RSQ.RSQVector) : RSQ.RSQVector :=
  { r with rs := { r.rs with selectSamples := r.rs.selectSamples.modify 0 (fun a => a ++ pad) } }

theorem fatten_samples (r : RSQ.RSQVector) :
    (fatten r).rs.selectSamples = r.rs.selectSamples.modify 0 (fun a => a ++ pad) := rfl
theorem fatten_sbs (r : RSQ.RSQVector) : (fatten r).rs.superblocks = r.rs.superblocks := rfl
theorem fatten_qv (r : RSQ.RSQVector) : (fatten r).qv = r.qv := rfl
theorem fatten_occs (r : RSQ.RSQVector) : (fatten r).nOccsSmaller = r.nOccsSmaller := rfl

/-- `RepInv` says which entries the sample arrays must contain, not how long they are: a vector
    satisfying it may carry arbitrarily long sample arrays, so `RepInv B r s → RSQSize B |s| r`
    is false (the sizes come from the construction, `rsq_fromQV`) -/
theorem repInv_not_sufficient :
    ¬ (∀ (B : Nat) (r : RSQ.RSQVector) (s : List Nat), RSQP.RepInv B r s → RSQSize B s.length r) := by
  intro H
  obtain ⟨r, _, hinv⟩ := RSQP.fromQV_ok (B := 256) false (Or.inl rfl) holds_empty
    (fun x hx => by cases hx) (Nat.two_pow_pos 43)
  have hsz : (fatten r).rs.selectSamples.size = 4 := by
    rw [fatten_samples, Array.size_modify]; exact hinv.rs.samples_size
  have hinv' : RSQP.RepInv 256 (fatten r) [] :=
    ⟨hinv.hB, by rw [fatten_qv]; exact hinv.holds, hinv.syms, hinv.hlen,
      ⟨by rw [fatten_sbs]; exact hinv.rs.sbs_size, by rw [fatten_sbs]; exact hinv.rs.sb,
        by rw [fatten_sbs]; exact hinv.rs.fl, hsz,
        fun c _ hpos => absurd hpos (by rw [List.count_nil]; exact Nat.lt_irrefl 0)⟩,
      by rw [fatten_occs]; exact hinv.occs⟩
  have h := (H 256 (fatten r) [] hinv').samples
  rw [toList4 _ #[] hsz] at h
  simp only [List.map_cons, List.map_nil, List.sum_cons, List.sum_nil, List.length_nil] at h
  have h0 : ((fatten r).rs.selectSamples.getD 0 #[]).size ≥ 100 := by
    rw [fatten_samples, RSQP.getD_modify, if_pos ⟨rfl, by rw [hinv.rs.samples_size]; decide⟩, Array.size_append,
      pad_size]
    omega
  omega

/-- the same for the size facts stated with the extracted period -/
theorem repInv_not_sufficientP :
    ¬ (∀ (B : Nat) (r : RSQ.RSQVector) (s : List Nat), RSQP.RepInv B r s → RSQSizeP B s.length r) := by
  intro H
  obtain ⟨r, _, hinv⟩ := RSQP.fromQV_ok (B := 256) false (Or.inl rfl) holds_empty
    (fun x hx => by cases hx) (Nat.two_pow_pos 43)
  have hsz : (fatten r).rs.selectSamples.size = 4 := by
    rw [fatten_samples, Array.size_modify]; exact hinv.rs.samples_size
  have hinv' : RSQP.RepInv 256 (fatten r) [] :=
    ⟨hinv.hB, by rw [fatten_qv]; exact hinv.holds, hinv.syms, hinv.hlen,
      ⟨by rw [fatten_sbs]; exact hinv.rs.sbs_size, by rw [fatten_sbs]; exact hinv.rs.sb,
        by rw [fatten_sbs]; exact hinv.rs.fl, hsz,
        fun c _ hpos => absurd hpos (by rw [List.count_nil]; exact Nat.lt_irrefl 0)⟩,
      by rw [fatten_occs]; exact hinv.occs⟩
  have h := (H 256 (fatten r) [] hinv').samples
  rw [toList4 _ #[] hsz] at h
  simp only [List.map_cons, List.map_nil, List.sum_cons, List.sum_nil, List.length_nil,
    Nat.zero_div] at h
  have h0 : ((fatten r).rs.selectSamples.getD 0 #[]).size ≥ 100 := by
    rw [fatten_samples, RSQP.getD_modify, if_pos ⟨rfl, by rw [hinv.rs.samples_size]; decide⟩, Array.size_append,
      pad_size]
    omega
  omega

/-- `n` zero bits in `lines` lines of 512 bits -/
def zeroBV (lines n : Nat) : BV.BitVector := { data := Array.replicate (8 * lines) 0, nBits := n, nOnes := 0 }

theorem zeroBV_holds (lines n : Nat) (hl : lines = (n + 511) / 512) :
    BV.Holds (zeroBV lines n) (List.replicate n false) where
  nBits := by rw [List.length_replicate]; rfl
  size := by
    show (Array.replicate (8 * lines) 0).size = _
    rw [Array.size_replicate, List.length_replicate, hl]
  lt := by
    intro j hj
    have hj' : j < 8 * lines := by
      have : (Array.replicate (8 * lines) 0).size = 8 * lines := Array.size_replicate ..
      rw [← this]; exact hj
    show (Array.replicate (8 * lines) 0).getD j 0 < 2 ^ 64
    rw [Array.getD_eq_getD_getElem?, Array.getElem?_replicate, if_pos hj']
    exact Nat.two_pow_pos 64
  bit := by
    intro i hi
    have e : (zeroBV lines n).data.getD (i / 64) 0 = 0 := by
      show (Array.replicate (8 * lines) 0).getD (i / 64) 0 = 0
      rw [Array.getD_eq_getD_getElem?, Array.getElem?_replicate]
      split <;> rfl
    rw [e, Nat.zero_testBit, List.getD_eq_getElem?_getD, List.getElem?_replicate]
    split <;> rfl
  nOnes := by
    show 0 = (List.replicate n false).count true
    rw [List.count_replicate]; rfl

/-- `RSWide::new` on 8000 zero bits keeps 3 + 2 sample entries: the zero counter reaches 8192 on
    the padded last line -/
def zeros8000Samples : Option Nat :=
  match RSW.new (zeroBV 16 8000) with
  | .ok r => some (r.selectSamples.toList.map Array.size).sum
  | .error _ => none

/-- (a fact about the hint period 8192: with a period of 16384 or more the 8192 zeros of the
    padded vector do not reach a second hint, and `RSWSize` does hold; so the two periods enter as
    hypotheses, which `rfl` discharges on the current values — the evaluation is skipped by the
    kernel when they are false) -/
theorem zeros8000_samples : Extracted.wideOnesPerHint = 8192 → Extracted.wideZerosPerHint = 8192 →
    zeros8000Samples = some 5 := by decide +kernel

/-- `RSWSize.samples` (`≤ 2·(n/8192) + 4`) fails for the vector built from 8000 zero bits, although
    the vector satisfies `RSW.Inv`; `RSWSize'` (`≤ n/8192 + 5`) is what holds (`rsw_sizes'`) -/
theorem rsw_sizes_false (h1 : Extracted.wideOnesPerHint = 8192) (h0 : Extracted.wideZerosPerHint = 8192) :
    ¬ (∀ (r : RSW.RSWide) (s : List Bool), RSW.Inv r s → RSWSize s.length r) := by
  intro H
  obtain ⟨r, e, _, hinv⟩ := RSW.new_inv (zeroBV_holds 16 8000 (by decide))
    (by rw [List.length_replicate]; decide)
  have h5 := zeros8000_samples h1 h0
  unfold zeros8000Samples at h5
  rw [e] at h5
  have h5' : (r.selectSamples.toList.map Array.size).sum = 5 := Option.some.inj h5
  have h := (H r _ hinv).samples
  rw [h5', List.length_replicate] at h
  omega

/-! ### non-vacuity: concrete trees -/

/-- an 8-bit sequence, four levels, block 256, no prefetch support -/
example : (match QWTree.new { W := 8 } #[5, 200, 7, 0, 200, 255] with
    | .ok t => decide (800 * (qwt t).heap ≤ (Spec.bitlen 255 + 1) / 2 * (227 * 6 + 260000)) && t.qvs.size == 4
    | .error _ => false) = true := by decide +kernel

/-- the same with prefetch support, block 512 -/
example : (match QWTree.new { W := 8, B := 512, pfs := true } #[5, 200, 7, 0, 200, 255] with
    | .ok t => decide (1600 * (qwt t).heap ≤ (Spec.bitlen 255 + 1) / 2 * (430 * 6 + 2568000)) &&
        (t.pfs.map (·.size)) == some 4
    | .error _ => false) = true := by decide +kernel

/-- the plain binary tree -/
example : (match BinWT.new { W := 8 } false #[5, 200, 7, 0, 200, 255] [] with
    | .ok t => decide (512 * (wt false t).heap ≤ 8 * (67 * 6 + 384000) + 4096 * 8) && t.bvs.size == 8
    | .error _ => false) = true := by decide +kernel

/-- the hypotheses of the closed theorems are satisfiable -/
example : (∀ x ∈ [5, 200, 7, 0, 200, 255], x < 2 ^ ({ W := 8 } : Cfg).W) ∧
    [5, 200, 7, 0, 200, 255].length < 2 ^ 43 ∧ Spec.maxNat [5, 200, 7, 0, 200, 255] = 255 := by decide

/-- the size facts of a concrete stand-alone vector -/
example : (match RSQ.new false 256 [0, 1, 2, 3, 1] with
    | .ok r => r.qv.data.size == 4 && r.rs.superblocks.size == 4 &&
        (r.rs.selectSamples.toList.map Array.size).sum == 8 && (rsq r).heap == 160
    | .error _ => false) = true := by decide +kernel

end Qwt.Props.C14
