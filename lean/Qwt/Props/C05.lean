import Qwt.Proofs.Interfaces
import Qwt.Proofs.RSQSelect
import Qwt.Proofs.RSQBridge

/-!
C05 — `RSQVector` (bit-packed rank/select over a quaternary sequence) answers every query
like the plain list it was built from, for both block sizes and both build profiles.

* `QV.Holds q s` (Qwt/Proofs/RSQHolds.lean): word-level meaning of a `QVector`.
* `RSQP.RepInv B r s` (Qwt/Proofs/RSQBuild.lean): the representation invariant that
  `RSQVector::from` establishes (`fromQV_repInv`): packed superblock words, sentinel block,
  select samples with sentinel, prefix counts.
* from `RepInv`: `get_ok`, `rank_ok`, `occs_ok`, `occsSmaller_ok`, `rankBlock_ok`, `select_ok`.
* `select` assumes `RSQP.SelHyp`, the correctness of `select_in_word_u128` (property C17).
-/
namespace Qwt.Props.C05
open Qwt Qwt.QV Qwt.RSQ Qwt.RSQP

variable {B : Nat} {r : RSQVector} {s : List Nat}

/-- `RSQVector::from` succeeds and establishes the representation invariant -/
theorem fromQV_repInv {qv : QVector} (dbg : Bool) (hB : B = 256 ∨ B = 512) (h : QV.Holds qv s)
    (hs : ∀ x ∈ s, x < 4) (hl : s.length < 2 ^ 43) :
    ∃ r, RSQ.fromQV dbg B qv = .ok r ∧ RepInv B r s := fromQV_ok dbg hB h hs hl

/-! ### a. access -/

theorem get_ok (h : RepInv B r s) (dbg : Bool) (i : Nat) : RSQ.get dbg r i = .ok s[i]? :=
  rsq_get_ok h dbg i

theorem getU_ok (h : RepInv B r s) (dbg : Bool) (i : Nat) (hi : i < s.length) :
    RSQ.getUnchecked dbg r i = .ok (s.getD i 0) := rsq_getU_ok h dbg hi

theorem len_ok (h : RepInv B r s) : RSQ.len r = s.length := rsq_len h

/-! ### b. rank: every symbol (no fault above 3), every position -/

theorem rank_ok (h : RepInv B r s) (dbg : Bool) (c i : Nat) :
    RSQ.rank dbg B r c i = .ok (if c ≤ 3 ∧ i ≤ s.length then some (Spec.rank c i s) else none) :=
  RSQP.rank_ok h dbg c i

theorem rankU_ok (h : RepInv B r s) (dbg : Bool) (c i : Nat) (hc : c ≤ 3) (hi : i ≤ s.length) :
    RSQ.rankUnchecked dbg B r c i = .ok (Spec.rank c i s) := rankUnchecked_ok h dbg hc hi

/-! ### c. occurrence counts -/

theorem occs_ok (h : RepInv B r s) (dbg : Bool) (c : Nat) :
    RSQ.occs dbg r c = .ok (if c ≤ 3 then some (s.count c) else none) := RSQP.occs_ok h dbg c

theorem occsU_ok (h : RepInv B r s) (dbg : Bool) (c : Nat) (hc : c ≤ 3) :
    RSQ.occsUnchecked dbg r c = .ok (s.count c) := occsUnchecked_ok h dbg hc

theorem occsSmaller_ok (h : RepInv B r s) (dbg : Bool) (c : Nat) :
    RSQ.occsSmaller dbg r c = .ok (if c ≤ 3 then some (Spec.occsSmaller id c s) else none) :=
  RSQP.occsSmaller_ok h dbg c

theorem occsSmallerU_ok (h : RepInv B r s) (dbg : Bool) (c : Nat) (hc : c ≤ 3) :
    RSQ.occsSmallerUnchecked dbg r c = .ok (Spec.occsSmaller id c s) :=
  occsSmallerUnchecked_ok h dbg hc

/-! ### e. the block counter: exact value, hence a lower estimate of the rank -/

theorem rankBlock_eq (h : RepInv B r s) (dbg : Bool) (c i : Nat) (hc : c ≤ 3) (hi : i ≤ s.length) :
    RSQ.rankBlock dbg B r.rs c i = .ok (Spec.rank c (i / B * B) s) :=
  RSQP.rankBlock_ok h.hB h.rs h.hlen dbg hc hi

theorem rankBlock_ok (h : RepInv B r s) (dbg : Bool) (c i : Nat) (hc : c ≤ 3) (hi : i ≤ s.length) :
    ∃ v, RSQ.rankBlock dbg B r.rs c i = .ok v ∧ v ≤ Spec.rank c i s := rankBlock_le h dbg hc hi

/-! ### d. select -/

/-- `select_block`: start of the block that contains occurrence `k` of `c` (at position `p`),
    and the rank at that block start -/
theorem selectBlock_ok (h : RepInv B r s) (c k p : Nat) (hc : c ≤ 3) (hp : s[p]? = some c)
    (hr : Spec.rank c p s = k) :
    RSQ.selectBlock B r.rs c (k + 1) = .ok (p / B * B, Spec.rank c (p / B * B) s) :=
  RSQP.selectBlock_ok h.hB h.rs h.hlen (by omega) hp hr

theorem select_ok (hsel : SelHyp) (h : RepInv B r s) (dbg : Bool) (c k : Nat) :
    RSQ.select dbg B r c k = .ok (if c ≤ 3 then Spec.select c k s else none) :=
  RSQP.select_ok hsel h dbg c k

theorem selectU_ok (hsel : SelHyp) (h : RepInv B r s) (dbg : Bool) (c k p : Nat) (hc : c ≤ 3)
    (hp : Spec.select c k s = some p) : RSQ.selectUnchecked dbg B r c k = .ok p := by
  have hk : k < s.count c := by
    rcases Nat.lt_or_ge k (s.count c) with hk | hk
    · exact hk
    · rw [select_none_of_le c s k hk] at hp; cases hp
  unfold RSQ.selectUnchecked
  rw [dbgAssert_true dbg (decide_eq_true hc), occs_ok h dbg c, if_pos hc]
  simp only [ok_bind]
  rw [dbgAssert_true dbg (decide_eq_true hk), select_ok hsel h dbg c k, if_pos hc, hp]
  rfl

/-! ### `Represents` -/

/-- `Represents`, given the `select` field -/
theorem represents_of_select (h : RepInv B r s)
    (hsel : ∀ dbg c k, RSQ.select dbg B r c k = .ok (if c ≤ 3 then Spec.select c k s else none)) :
    RSQ.Represents B r s where
  symbols := h.syms
  len_eq := rsq_len h
  get := get_ok h
  getU := getU_ok h
  rank := rank_ok h
  rankU := rankU_ok h
  select := hsel
  occs := occs_ok h
  occsSmaller := occsSmaller_ok h
  occsSmallerU := occsSmallerU_ok h
  rankBlock := rankBlock_ok h

theorem represents_of_repInv (hsel : SelHyp) (h : RepInv B r s) : RSQ.Represents B r s :=
  represents_of_select h (select_ok hsel h)

/-- main theorem: construction from a `QVector` holding `s` yields a representing structure -/
theorem fromQV_represents {qv : QVector} (hsel : SelHyp) (dbg : Bool) (hB : B = 256 ∨ B = 512)
    (h : QV.Holds qv s) (hs : ∀ x ∈ s, x < 4) (hl : s.length < 2 ^ 43) :
    ∃ r, RSQ.fromQV dbg B qv = .ok r ∧ RSQ.Represents B r s := by
  obtain ⟨r, e, hr⟩ := fromQV_repInv dbg hB h hs hl
  exact ⟨r, e, represents_of_repInv hsel hr⟩

theorem holds_empty : QV.Holds {} [] :=
  ⟨rfl, rfl, fun _ hw => absurd hw (Nat.not_lt_zero _),
    fun _ _ hl => absurd hl (Nat.not_lt_zero _), fun _ _ hl => absurd hl (Nat.not_lt_zero _)⟩

theorem default_represents (hsel : SelHyp) (hB : B = 256 ∨ B = 512) :
    ∃ r, RSQ.default B = .ok r ∧ RSQ.Represents B r [] :=
  fromQV_represents hsel false hB holds_empty (fun x hx => by cases hx) (by decide)

/-- the level constructor of the quad wavelet trees yields a representing structure -/
theorem levelLaw (hsel : SelHyp) (dbg : Bool) (hB : B = 256 ∨ B = 512) : LevelLaw dbg B := by
  intro digits hd hlen
  have hlen' : digits.length < 2 ^ 43 := hlen
  obtain ⟨q, e, hq⟩ := holds_of_pushes digits hd (by
    have : two64 = 2 ^ 64 := by decide
    omega)
  obtain ⟨r, e2, hr⟩ := fromQV_represents hsel dbg hB hq hd hlen'
  refine ⟨r, ?_, hr⟩
  unfold RSQ.mkLevel
  rw [e]
  exact e2

/-! ### non-vacuity -/

/-- `Holds` of a concrete vector: `[1, 2, 3]` is high bits `0b110`, low bits `0b101` -/
example : QV.Holds { data := #[6, 0, 5, 0], position := 6 } [1, 2, 3] := by
  refine ⟨rfl, rfl, ?_, ?_, ?_⟩
  · intro w hw
    have h4 : w = 0 ∨ w = 1 ∨ w = 2 ∨ w = 3 := by
      have : w < 4 := hw
      omega
    rcases h4 with rfl | rfl | rfl | rfl <;> decide
  · intro l p hl hp
    have hl0 : l = 0 := by
      have : l < 1 := hl
      omega
    subst hl0
    revert p
    decide +kernel
  · intro l p hl hp
    have hl0 : l = 0 := by
      have : l < 1 := hl
      omega
    subst hl0
    revert p
    decide +kernel

/-- the builder produces exactly that vector -/
example : (QV.fromIter [1, 2, 3]).toOption = some { data := #[6, 0, 5, 0], position := 6 } := by
  decide +kernel

/-! concrete evaluation of the model on `[0,1,2,3,1]` -/
example : Out.ofOpt (RSQ.new false 256 [0, 1, 2, 3, 1] >>= fun r => RSQ.get false r 2) = .some 2 := by
  decide +kernel
example : Out.ofOpt (RSQ.new false 256 [0, 1, 2, 3, 1] >>= fun r => RSQ.get false r 5) = .none := by
  decide +kernel
example : Out.ofOpt (RSQ.new false 256 [0, 1, 2, 3, 1] >>= fun r => RSQ.rank false 256 r 1 5) = .some 2 := by
  decide +kernel
example : Out.ofOpt (RSQ.new true 512 [0, 1, 2, 3, 1] >>= fun r => RSQ.rank true 512 r 1 4) = .some 1 := by
  decide +kernel
example : Out.ofOpt (RSQ.new false 256 [0, 1, 2, 3, 1] >>= fun r => RSQ.rank false 256 r 7 2) = .none := by
  decide +kernel
example : Out.ofOpt (RSQ.new false 256 [0, 1, 2, 3, 1] >>= fun r => RSQ.rank false 256 r 1 6) = .none := by
  decide +kernel
example : Out.ofOpt (RSQ.new false 256 [0, 1, 2, 3, 1] >>= fun r => RSQ.select false 256 r 1 1) = .some 4 := by
  decide +kernel
example : Out.ofOpt (RSQ.new true 512 [0, 1, 2, 3, 1] >>= fun r => RSQ.select true 512 r 3 0) = .some 3 := by
  decide +kernel
example : Out.ofOpt (RSQ.new false 256 [0, 1, 2, 3, 1] >>= fun r => RSQ.select false 256 r 1 2) = .none := by
  decide +kernel
example : Out.ofOpt (RSQ.new false 256 [0, 1, 2, 3, 1] >>= fun r => RSQ.occs false r 1) = .some 2 := by
  decide +kernel
example : Out.ofOpt (RSQ.new false 256 [0, 1, 2, 3, 1] >>= fun r => RSQ.occsSmaller false r 3) = .some 4 := by
  decide +kernel
/-- and the specification agrees -/
example : Spec.rank 1 5 [0, 1, 2, 3, 1] = 2 ∧ Spec.select 1 1 [0, 1, 2, 3, 1] = some 4 ∧
    Spec.occsSmaller id 3 [0, 1, 2, 3, 1] = 4 := by decide

end Qwt.Props.C05
