import Qwt.Props.C11
import Qwt.Props.C08
import Qwt.Props.Closed
import Qwt.Proofs.Closure2RSQ
import Qwt.Proofs.Closure2RSBin
import Qwt.Proofs.Closure2DA
import Qwt.Proofs.Closure2BinTree
import Qwt.Proofs.Closure2QuadTree

/-!
# Property C11, closed over the constructors

`Qwt/Props/C11.lean` proves `roundtrip_X : xWF x → decode (encode x) = some x` for every
serialisable structure, where `xWF` collects what the Rust *types* guarantee (machine-width
bounds, whole lines, fixed array lengths).  This file proves that every value the safe
constructors build is `WF`, so that the round trip holds for every value the API can produce,
with hypotheses about the *input* only (documented length limits, element width).

The `WF` facts are proved in `Qwt/Proofs/Closure2*.lean`:

* `Closure2RSQ`  — `RSQVector::from` / `new` / `default` (`rsqWF_of_fromQV`, `mkLevel_wf`).
  NOTE: the representation invariant `RSQP.RepInv` alone does not imply `rsqWF` (it says nothing
  about the sample array of a symbol that does not occur, nor about array sizes), so the
  theorem is about the value *returned by the constructor*: `RepInv` (for the packed counters
  `< 2^128`, `n_occs_smaller < 2^64`, the data lines) plus a syntactic invariant of the build
  loop (every sample is stored `as u32`).
* `Closure2RSBin` — `RSWide::new`, `RSNarrow::new`, `PrefetchSupport::new`.
* `Closure2DA`   — `DArray::new` (needs `n < 2^63`: block inventory entries are `i64`).
* `Closure2QuadTree`, `Closure2BinTree` — the wavelet trees: the tree invariants (`WM`, `WMP`,
  `HWM`, `WMb`, `HWMb`) expose only `Represents` for each level, which does not imply `WF`, so
  the construction loops are inverted (every level is `mkLevel digits` of a digit / bit list no
  longer than the sequence) and the leaf theorems are applied to every level.
-/
namespace Qwt.C11
open Qwt Qwt.Codec

/-! ## well-formedness of the constructed values -/

/-- `RSQVector::from(qv)`: from the word-level meaning `QV.Holds` of the quad vector -/
theorem rsqWF_of_fromQV {B : Nat} {qv : QV.QVector} {s : List Nat} {r : RSQ.RSQVector} (dbg : Bool)
    (hq : QV.Holds qv s) (hs : ∀ x ∈ s, x < 4) (hl : s.length < 2 ^ 43)
    (e : RSQ.fromQV dbg B qv = .ok r) : rsqWF r :=
  Closure2.rsqWF_of_fromQV dbg hq hs hl e

/-- the value that carries the representation invariant of `Props/C05` is well-formed: stated
    for the constructor (see the note in the header: `RepInv` alone is too weak) -/
theorem rsqWF_of_repInv {B : Nat} {qv : QV.QVector} (dbg : Bool) (hB : B = 256 ∨ B = 512)
    (hq : QV.Inv qv) (hl : (QV.abs qv).length < 2 ^ 43) :
    ∃ r, RSQ.fromQV dbg B qv = .ok r ∧ RSQP.RepInv B r (QV.abs qv) ∧ rsqWF r := by
  obtain ⟨r, e, hr⟩ := Props.C05.fromQV_repInv dbg hB (RSQP.holds_of_inv hq) (QV.abs_lt_four qv) hl
  exact ⟨r, e, hr, Closure2.rsqWF_of_inv dbg hq hl e⟩

theorem rswWF_of_inv {r : RSW.RSWide} {s : List Bool} (h : RSW.Inv r s) : rswWF r :=
  Closure2.rswWF_of_inv h

theorem rswWF_of_new {b : BV.BitVector} (hb : BV.Inv b) (hl : (BV.abs b).length < 2 ^ 43)
    {r : RSW.RSWide} (e : RSW.new b = .ok r) : rswWF r :=
  Closure2.rswWF_of_new hb hl e

/-- `RSN.Inv` pins every entry except the sub-block word of the sentinel blocks (named
    hypothesis `htail`); `rsnWF_of_new` discharges it from the construction -/
theorem rsnWF_of_inv {r : RSN.RSNarrow} {s : List Bool} (h : RSN.Inv r s)
    (hn : s.length < 2 ^ 64)
    (htail : ∀ q, BV.nLines r.bv ≤ q → q ≤ RSN.sentN r.bv →
      r.blockRankPairs.getD (2 * q + 1) 0 < 2 ^ 64) : rsnWF r :=
  Closure2.rsnWF_of_inv h hn htail

theorem rsnWF_of_new {b : BV.BitVector} (hb : BV.Inv b) (hn : b.nBits < 2 ^ 64)
    {r : RSN.RSNarrow} (e : RSN.new b = .ok r) : rsnWF r :=
  Closure2.rsnWF_of_new hb hn e

theorem daWF_of_new (s0 : Bool) {b : BV.BitVector} (hb : BV.Inv b) (hn : b.nBits < 2 ^ 63) :
    daWF (DA.new s0 b) :=
  Closure2.daWF_of_new s0 hb hn

theorem pfsWF_of_new {qv : QV.QVector} (hq : QV.Inv qv) (hl : QV.len qv < 2 ^ 43)
    {p : PFS.PrefetchSupport} (e : PFS.new qv Extracted.pfsSampleShift = .ok p) : pfsWF p :=
  Closure2.pfsWF_of_new hq hl e

/-! ## closed round trips: the leaves -/

/-- `RSQVector::new(&[T])`, both block sizes and build profiles, every sequence shorter than the
    documented `2^43` limit: construction succeeds and the value survives the round trip -/
theorem roundtrip_RSQ_new (dbg : Bool) {B : Nat} (hB : B = 256 ∨ B = 512) (vals : List Int)
    (hl : vals.length < 2 ^ 43) :
    ∃ r, RSQ.new dbg B vals = .ok r ∧
      (decode rsqTy (encode (rsqVal r))).bind (fun p => rsqOfVal p.1) = some r := by
  have h64 : 2 * vals.length < two64 := by
    have : two64 = 18446744073709551616 := rfl
    have : (2 : Nat) ^ 43 = 8796093022208 := by decide
    omega
  obtain ⟨q, eq, hq, ha⟩ := QV.fromIter_ok vals h64
  have hl' : (QV.abs q).length < 2 ^ 43 := by rw [ha, List.length_map]; exact hl
  obtain ⟨r, e, _, hwf⟩ := rsqWF_of_repInv (B := B) dbg hB hq hl'
  refine ⟨r, ?_, roundtrip_RSQVector r hwf⟩
  unfold RSQ.new
  rw [eq]
  exact e

/-- `RSQVector::from(qv)` for every quad vector satisfying the C13 invariant -/
theorem roundtrip_RSQ_fromQV (dbg : Bool) {B : Nat} (hB : B = 256 ∨ B = 512) {qv : QV.QVector}
    (hq : QV.Inv qv) (hl : (QV.abs qv).length < 2 ^ 43) :
    ∃ r, RSQ.fromQV dbg B qv = .ok r ∧
      (decode rsqTy (encode (rsqVal r))).bind (fun p => rsqOfVal p.1) = some r := by
  obtain ⟨r, e, _, hwf⟩ := rsqWF_of_repInv (B := B) dbg hB hq hl
  exact ⟨r, e, roundtrip_RSQVector r hwf⟩

/-- `RSWide::new(bv)` for every bit vector satisfying the C08 invariant, below the `2^43` limit -/
theorem roundtrip_RSW_new {b : BV.BitVector} (hb : BV.Inv b) (hl : (BV.abs b).length < 2 ^ 43) :
    ∃ r, RSW.new b = .ok r ∧
      (decode rswTy (encode (rswVal r))).bind (fun p => rswOfVal p.1) = some r := by
  obtain ⟨r, e, _⟩ := Props.Closed.rsw_represents hb hl
  exact ⟨r, e, roundtrip_RSWide r (rswWF_of_new hb hl e)⟩

/-- … in particular for the vector collected from any list of booleans -/
theorem roundtrip_RSW_fromBools (bits : List Bool) (hl : bits.length < 2 ^ 43) :
    ∃ b r, BV.fromBools bits = .ok b ∧ RSW.new b = .ok r ∧
      (decode rswTy (encode (rswVal r))).bind (fun p => rswOfVal p.1) = some r := by
  have h64 : bits.length < two64 := by
    have : two64 = 18446744073709551616 := rfl
    have : (2 : Nat) ^ 43 = 8796093022208 := by decide
    omega
  obtain ⟨b, eb, hb, ha⟩ := Props.C08.fromBools_ok bits h64
  obtain ⟨r, e, h⟩ := roundtrip_RSW_new hb (by rw [ha]; exact hl)
  exact ⟨b, r, eb, e, h⟩

/-- `RSNarrow::new(bv)` for every bit vector satisfying the C08 invariant -/
theorem roundtrip_RSN_new {b : BV.BitVector} (hb : BV.Inv b) (hn : b.nBits < 2 ^ 64) :
    ∃ r, RSN.new b = .ok r ∧
      (decode rsnTy (encode (rsnVal r))).bind (fun p => rsnOfVal p.1) = some r := by
  obtain ⟨r, e, _⟩ := Props.Closed.rsn_represents hb
  exact ⟨r, e, roundtrip_RSNarrow r (rsnWF_of_new hb hn e)⟩

theorem roundtrip_RSN_fromBools (bits : List Bool) (hl : bits.length < 2 ^ 64) :
    ∃ b r, BV.fromBools bits = .ok b ∧ RSN.new b = .ok r ∧
      (decode rsnTy (encode (rsnVal r))).bind (fun p => rsnOfVal p.1) = some r := by
  obtain ⟨b, eb, hb, ha⟩ := Props.C08.fromBools_ok bits (by simpa [two64] using hl)
  have hn : b.nBits < 2 ^ 64 := by rw [← BV.abs_length, ha]; exact hl
  obtain ⟨r, e, h⟩ := roundtrip_RSN_new hb hn
  exact ⟨b, r, eb, e, h⟩

/-- `DArray::new(bv)` (with and without `select0` support) for every bit vector satisfying the
    C08 invariant with fewer than `2^63` bits -/
theorem roundtrip_DA_new (s0 : Bool) {b : BV.BitVector} (hb : BV.Inv b) (hn : b.nBits < 2 ^ 63) :
    (decode daTy (encode (daVal (DA.new s0 b)))).bind (fun p => daOfVal p.1) = some (DA.new s0 b) :=
  roundtrip_DArray _ (daWF_of_new s0 hb hn)

theorem roundtrip_DA_fromBools (s0 : Bool) (bits : List Bool) (hl : bits.length < 2 ^ 63) :
    ∃ b, BV.fromBools bits = .ok b ∧
      (decode daTy (encode (daVal (DA.new s0 b)))).bind (fun p => daOfVal p.1) =
        some (DA.new s0 b) := by
  have h64 : bits.length < two64 := by
    have : two64 = 18446744073709551616 := rfl
    have : (2 : Nat) ^ 63 = 9223372036854775808 := by decide
    omega
  obtain ⟨b, eb, hb, ha⟩ := Props.C08.fromBools_ok bits h64
  have hn : b.nBits < 2 ^ 63 := by rw [← BV.abs_length, ha]; exact hl
  exact ⟨b, eb, roundtrip_DA_new s0 hb hn⟩

/-- the bit vectors themselves (C19's `bvWF_of_inv`, `qvWF_of_inv`) -/
theorem roundtrip_BV_fromBools (bits : List Bool) (hl : bits.length < 2 ^ 64) :
    ∃ b, BV.fromBools bits = .ok b ∧
      (decode bvTy (encode (bvVal b))).bind (fun p => bvOfVal p.1) = some b := by
  obtain ⟨b, eb, hb, ha⟩ := Props.C08.fromBools_ok bits (by simpa [two64] using hl)
  have hn : b.nBits < 2 ^ 64 := by rw [← BV.abs_length, ha]; exact hl
  exact ⟨b, eb, roundtrip_BitVector b (Props.C19.bvWF_of_inv hb hn)⟩

/-! ## the binary wavelet trees -/

/-- the leaf fact used by the binary trees -/
theorem rsw_mkLevel_wf (bits : List Bool) (r : RSW.RSWide) (hl : bits.length < 2 ^ 43)
    (e : RSW.mkLevel bits = .ok r) : rswWF r :=
  Closure2.rsw_mkLevel_wf bits hl e

/-- plain `WaveletTree` built by `new` (`wbytes = size_of::<T>()`, `W = 8·wbytes`; `hW64` only
    excludes the absurd element widths `≥ 2^64` bits of the width-generic model) -/
theorem wtWF_of_new (c : Cfg) (wbytes : Nat) (hWb : c.W = 8 * wbytes) (hW : 0 < c.W)
    (hW64 : c.W < 2 ^ 64) (S : List Nat) (hb : ∀ x ∈ S, x < 2 ^ c.W) (hS : S.length < 2 ^ 43)
    {t : BinWT.WT} (ht : BinWT.new c false S.toArray [] = .ok t) : wtWF wbytes t :=
  Closure2.wtWF_of_new c wbytes hWb hW hW64 S hb hS rsw_mkLevel_wf ht

/-- Huffman-shaped `WaveletTree` built by `new`.  `hsig`: the code table has `max S + 1`
    entries and is serialised with a `u64` length (only relevant for `W = 64`) -/
theorem hwtWF_of_new (c : Cfg) (wbytes : Nat) (hWb : c.W = 8 * wbytes) (hW : c.W ≤ 64)
    (S : List Nat) (hb : ∀ x ∈ S, x < 2 ^ c.W) (hS : S.length < 2 ^ 43)
    (hsig : ∀ x ∈ S, x + 1 < 2 ^ 64)
    (lens : List (Nat × Nat)) (hlens : Props.C02.LensOK 2 lens)
    (hocc : ∀ s, s ∈ lens.map (·.1) ↔ s ∈ S)
    {t : BinWT.WT} (ht : BinWT.new c true S.toArray lens = .ok t) : wtWF wbytes t :=
  Closure2.hwtWF_of_new c wbytes hWb hW S hb hS hsig lens hlens hocc rsw_mkLevel_wf ht

/-- `WaveletTree::new`: construction succeeds and the tree survives the round trip, for every
    sequence of `W`-bit elements (`W = 8·wbytes`) shorter than `2^43` -/
theorem roundtrip_new_WT (c : Cfg) (wbytes : Nat) (hWb : c.W = 8 * wbytes) (hW : 0 < c.W)
    (hW64 : c.W < 2 ^ 64) (S : List Nat) (hb : ∀ x ∈ S, x < 2 ^ c.W) (hS : S.length < 2 ^ 43) :
    ∃ t, BinWT.new c false S.toArray [] = .ok t ∧
      (decode (wtTy wbytes) (encode (wtVal wbytes t))).bind (fun p => wtOfVal p.1) = some t := by
  obtain ⟨t, ht, _⟩ := Props.Closed.wt_new c hW S hb hS
  exact ⟨t, ht, roundtrip_WT wbytes t (wtWF_of_new c wbytes hWb hW hW64 S hb hS ht)⟩

/-- the Huffman-shaped binary tree, for every admissible length table (every order) -/
theorem roundtrip_new_HWT (c : Cfg) (wbytes : Nat) (hWb : c.W = 8 * wbytes) (hW : c.W ≤ 64)
    (S : List Nat) (hne : S ≠ []) (hb : ∀ x ∈ S, x < 2 ^ c.W) (hS : S.length < 2 ^ 43)
    (hsig : ∀ x ∈ S, x + 1 < 2 ^ 64)
    (lens : List (Nat × Nat)) (hlens : Props.C02.LensOK 2 lens)
    (hocc : ∀ s, s ∈ lens.map (·.1) ↔ s ∈ S) :
    ∃ t, BinWT.new c true S.toArray lens = .ok t ∧
      (decode (wtTy wbytes) (encode (wtVal wbytes t))).bind (fun p => wtOfVal p.1) = some t := by
  obtain ⟨t, ht, _⟩ := Props.Closed.hwt_new c hW S hne hb hS lens hlens hocc
  exact ⟨t, ht, roundtrip_WT wbytes t
    (hwtWF_of_new c wbytes hWb hW S hb hS hsig lens hlens hocc ht)⟩

/-! ## the quad wavelet trees (all four aliases: both block sizes, with / without prefetch
support; both build profiles) -/

theorem rsq_mkLevel_wf {B : Nat} (dbg : Bool) (digits : List Nat) (r : RSQ.RSQVector)
    (hd : ∀ d ∈ digits, d < 4) (hlen : digits.length < 2 ^ 43)
    (e : RSQ.mkLevel dbg B digits = .ok r) : rsqWF r :=
  Closure2.mkLevel_wf dbg digits hd hlen e

theorem rsq_default_wf {B : Nat} (r : RSQ.RSQVector) (e : RSQ.default B = .ok r) : rsqWF r :=
  Closure2.default_wf e

/-- plain `QWaveletTree` built by `new` (`wbytes = size_of::<T>()`, `W = 8·wbytes ≤ 128`) -/
theorem qwtWF_of_new (c : Cfg) (wbytes : Nat) (hWb : c.W = 8 * wbytes) (hW : 0 < c.W)
    (hW128 : c.W ≤ 128) (hB : c.B = 256 ∨ c.B = 512)
    (S : List Nat) (hS : ∀ x ∈ S, x < 2 ^ c.W) (hlen : S.length < 2 ^ 43)
    {t : QWTree.QWT} (ht : QWTree.new c S.toArray = .ok t) : qwtWF wbytes t :=
  Closure2.qwtWF_of_new c wbytes hWb hW hW128 hB S hS hlen
    (fun digits r => rsq_mkLevel_wf c.dbg digits r) rsq_default_wf
    (fun _ _ hq hl e => pfsWF_of_new hq hl e) ht

/-- `HuffQWaveletTree` built by `new`.  `hmax`: the code table has `max S + 1` entries and is
    serialised with a `u64` length (only relevant for `W = 64`) -/
theorem hqwtWF_of_new (c : Cfg) (wbytes : Nat) (hWb : c.W = 8 * wbytes) (hW : c.W ≤ 64)
    (hB : c.B = 256 ∨ c.B = 512)
    (S : List Nat) (hb : ∀ x ∈ S, x < 2 ^ c.W) (hmax : ∀ x ∈ S, x + 1 < 2 ^ 64)
    (hS : S.length < 2 ^ 43)
    (lens : List (Nat × Nat)) (hlens : Props.C02.LensOK 4 lens)
    (hsyms : ∀ s, s ∈ lens.map (·.1) ↔ s ∈ S)
    {t : Huff.HQWT} (ht : Huff.new c S.toArray lens = .ok t) : hqwtWF wbytes t :=
  Closure2.hqwtWF_of_new c wbytes hWb hW hB S hb hmax hS lens hlens hsyms
    (fun digits r => rsq_mkLevel_wf c.dbg digits r) rsq_default_wf
    (fun _ _ hq hl e => pfsWF_of_new hq hl e) ht

/-- `QWaveletTree::new` (QWT256, QWT512, QWT256Pfs, QWT512Pfs): construction succeeds and the
    tree survives the round trip, for every sequence of `W`-bit elements shorter than `2^43`,
    the empty one included -/
theorem roundtrip_new_QWT (c : Cfg) (wbytes : Nat) (hWb : c.W = 8 * wbytes) (hW : 0 < c.W)
    (hW128 : c.W ≤ 128) (hB : c.B = 256 ∨ c.B = 512)
    (S : List Nat) (hS : ∀ x ∈ S, x < 2 ^ c.W) (hlen : S.length < 2 ^ 43) :
    ∃ t, QWTree.new c S.toArray = .ok t ∧
      (decode (qwtTy wbytes) (encode (qwtVal wbytes t))).bind (fun p => qwtOfVal p.1) = some t := by
  obtain ⟨t, ht, _⟩ := Props.C09.new_ok c S hB hW hS hlen
  exact ⟨t, ht, roundtrip_QWT wbytes t (qwtWF_of_new c wbytes hWb hW hW128 hB S hS hlen ht)⟩

/-- `HuffQWaveletTree::new` (HQWT256, HQWT512, HQWT256Pfs, HQWT512Pfs), for every admissible
    length table in every order -/
theorem roundtrip_new_HQWT (c : Cfg) (wbytes : Nat) (hWb : c.W = 8 * wbytes) (hW : c.W ≤ 64)
    (hB : c.B = 256 ∨ c.B = 512)
    (S : List Nat) (hne : S ≠ []) (hb : ∀ x ∈ S, x < 2 ^ c.W) (hmax : ∀ x ∈ S, x + 1 < 2 ^ 64)
    (hS : S.length < 2 ^ 43)
    (lens : List (Nat × Nat)) (hlens : Props.C02.LensOK 4 lens)
    (hsyms : ∀ s, s ∈ lens.map (·.1) ↔ s ∈ S) :
    ∃ t, Huff.new c S.toArray lens = .ok t ∧
      (decode (hqwtTy wbytes) (encode (hqwtVal wbytes t))).bind (fun p => hqwtOfVal p.1) =
        some t := by
  obtain ⟨_, t, _, _, ht, _⟩ := Props.Closed.hqwt_correct c hB hW S hne hb hS lens hlens hsyms
  exact ⟨t, ht, roundtrip_HQWT wbytes t
    (hqwtWF_of_new c wbytes hWb hW hB S hb hmax hS lens hlens hsyms ht)⟩

/-- … and on the empty sequence (whatever the length table) -/
theorem roundtrip_new_HQWT_empty (c : Cfg) (wbytes : Nat) (hWb : c.W = 8 * wbytes)
    (hW : c.W ≤ 64) (hB : c.B = 256 ∨ c.B = 512) :
    ∃ t, Huff.new c #[] [] = .ok t ∧
      (decode (hqwtTy wbytes) (encode (hqwtVal wbytes t))).bind (fun p => hqwtOfVal p.1) =
        some t := by
  obtain ⟨t, ht⟩ := Props.C02.hqwt_empty_new_ok c (Props.Closed.levelLaw c.dbg hB) []
  refine ⟨t, ht, roundtrip_HQWT wbytes t ?_⟩
  exact hqwtWF_of_new c wbytes hWb hW hB [] (by simp) (by simp) (by decide) []
    ⟨by simp, by simp, by simp [Props.C02.kraft, Props.C02.lmax],
      by simp [Props.C02.kraft, Props.C02.lmax], by simp [Props.C02.lmax]⟩ (by simp) ht

end Qwt.C11
