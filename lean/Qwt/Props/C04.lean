import Qwt.Props.C19
import Qwt.Props.C12

/-!
# C04 — the safe API is total for every argument and every reachable state

"No call to a safe public method of any structure in any state reachable through the safe API
— including empty and default-constructed structures — and with any argument values reads or
writes memory outside the structure's own allocations, overflows an arithmetic operation, aborts
the process or panics; arguments that do not denote a valid position, symbol or occurrence
produce `None`.  The only permitted panics are the documented ones."

## Reading of the model

Every model function returns `M α = Except Fault α`.  A fault is one of: `oob` (an unchecked
access outside the allocation — undefined behaviour in Rust), `indexPanic`, `overflow`
(arithmetic; raised in BOTH profiles, so a release-mode wrap is a fault too), `unwrapNone`,
`assertFail`, `debugAssert` (only with `dbg = true`) and `assertDoc` (a DOCUMENTED panic).
`Total x` (`∃ v, x = .ok v`) therefore says: this call performs no out-of-allocation access, no
overflow, no panic, no failed (debug) assertion.  All statements quantify over the build flag
(`Cfg.dbg` / `dbg`): optimised builds and builds with debug assertions + overflow checks.

## States covered ("reachable through the safe API")

* construction from ARBITRARY input under the documented limits: elements fit the element
  type, length `< 2^43` (the `RSQVector` / `RSWide` limit), and for the Huffman-shaped trees the
  length table of the external `minimum_redundancy` crate is admissible (`LensOK`);
* the empty input and the derived `Default` value of every type (§ "default");
* `Clone` and `decode ∘ encode`: the identity on model states (C11, `C19` §4), so every theorem
  here applies to the copy verbatim;
* mutators: only the bit vector has any; `C08.reachable_ok` (every history of mutator calls
  whose documented preconditions hold) — `bv_safe_api`.
* the iterators of the trees (`next` / `next_back` / `len`, every history of calls): §7b,
  from C12 + C10; the one-ended bit / quad vector iterators are in C08 / C13.

## The only faults (documented panics), stated positively in § "documented panics"

`BitVectorMut::set` / `set_bits` / `append_bits` outside their documented preconditions,
`get_word` with an out-of-range word index, `select0` on a `DArray` built without select0
support, and the `2^43` length assertion of `RSSupportPlain::new`.

## NOT covered by these theorems

* **Memory safety of the compiled code.**  The theorems are about the model; that the Rust
  code performs the same accesses as the model is validated (not proved) by the differential
  runs of the correspondence harness in two build profiles, under Miri / sanitizers.
* **Allocation failure** (and inputs so large that `usize` length arithmetic overflows: the
  explicit `… < 2^64` guards of C08/C13).
* `FromIterator<usize>` for bit vectors with a non-increasing / non-convertible position list
  (a documented panic of the real constructor; the model's `extendPositions` accepts any order).
* The code-length computation of the external crate (enters as `LensOK`).
-/
set_option linter.unusedVariables false
set_option linter.unusedSectionVars false

namespace Qwt.Props.C04
open Qwt
open Qwt.Props.C02 (LensOK WMValid)

/-- the call returns a value: no fault of any kind -/
def Total {α : Type} (x : M α) : Prop := ∃ v, x = .ok v

theorem Total.of_eq {α : Type} {x : M α} {v : α} (h : x = .ok v) : Total x := ⟨v, h⟩

theorem Total.no_fault {α : Type} {x : M α} (h : Total x) : ∀ f, x ≠ .error f :=
  (Cor.total_iff x).mp h

theorem total_iff_no_fault {α : Type} (x : M α) : Total x ↔ ∀ f, x ≠ .error f := Cor.total_iff x

theorem two43_le_usize_max : (2 : Nat) ^ 43 ≤ two64 - 1 := by decide

/-! ## 1. `QWaveletTree` — all four aliases -/

section qwt
variable (c : Cfg) (hB : c.B = 256 ∨ c.B = 512) (hW : 0 < c.W) (S : List Nat)
  (hS : ∀ x ∈ S, x < 2 ^ c.W) (hlen : S.length < 2 ^ 43)
include hB hW hS hlen

/-- construction from arbitrary input never faults -/
theorem qwt_new_total : Total (QWTree.new c S.toArray) := by
  obtain ⟨t, h, _⟩ := C09.new_ok c S hB hW hS hlen
  exact ⟨t, h⟩

variable {t : QWTree.QWT} (hnew : QWTree.new c S.toArray = .ok t)
include hnew

theorem qwt_get_total (i : Nat) : Total (QWTree.get c t i) :=
  .of_eq (C09.get_ok hB hW hS hlen hnew i)

theorem qwt_rank_total (sym i : Nat) : Total (QWTree.rank c t sym i) :=
  .of_eq (C09.rank_ok hB hW hS hlen hnew sym i)

theorem qwt_select_total (sym k : Nat) : Total (QWTree.select c t sym k) :=
  .of_eq (C09.select_ok hB hW hS hlen hnew sym k)

theorem qwt_rankPrefetch_total (sym i : Nat) : Total (QWTree.rankPrefetch c t sym i) :=
  .of_eq (C09.rankPrefetch_ok hB hW hS hlen hnew sym i)

/-! arguments outside the domain produce `None` -/

/-- a position at or beyond the end -/
theorem qwt_get_out (i : Nat) (hi : S.length ≤ i) : QWTree.get c t i = .ok none := by
  rw [C09.get_ok hB hW hS hlen hnew, List.getElem?_eq_none hi]

/-- `usize::MAX` -/
theorem qwt_get_usize_max : QWTree.get c t (two64 - 1) = .ok none :=
  qwt_get_out c hB hW S hS hlen hnew _ (Nat.le_trans (Nat.le_of_lt hlen) two43_le_usize_max)

/-- a symbol above the maximum (however far: `sym` is any natural number) -/
theorem qwt_far_symbol (sym i : Nat) (hs : Spec.maxNat S < sym) :
    QWTree.rank c t sym i = .ok none ∧ QWTree.rankPrefetch c t sym i = .ok none ∧
      QWTree.select c t sym i = .ok none := by
  have h3 : ¬ (S ≠ [] ∧ sym ≤ Spec.maxNat S ∧ i ≤ S.length) := fun h => by omega
  have h2 : ¬ (S ≠ [] ∧ sym ≤ Spec.maxNat S) := fun h => by omega
  exact ⟨by rw [C09.rank_ok hB hW hS hlen hnew, if_neg h3],
    by rw [C09.rankPrefetch_ok hB hW hS hlen hnew, if_neg h3],
    by rw [C09.select_ok hB hW hS hlen hnew, if_neg h2]⟩

/-- a position beyond the end, in particular `usize::MAX` -/
theorem qwt_rank_out (sym i : Nat) (hi : S.length < i) :
    QWTree.rank c t sym i = .ok none ∧ QWTree.rankPrefetch c t sym i = .ok none := by
  have h3 : ¬ (S ≠ [] ∧ sym ≤ Spec.maxNat S ∧ i ≤ S.length) := fun h => by omega
  exact ⟨by rw [C09.rank_ok hB hW hS hlen hnew, if_neg h3],
    by rw [C09.rankPrefetch_ok hB hW hS hlen hnew, if_neg h3]⟩

theorem qwt_rank_usize_max (sym : Nat) :
    QWTree.rank c t sym (two64 - 1) = .ok none ∧ QWTree.rankPrefetch c t sym (two64 - 1) = .ok none :=
  qwt_rank_out c hB hW S hS hlen hnew sym _ (Nat.lt_of_lt_of_le hlen two43_le_usize_max)

/-- an occurrence number that does not exist, in particular `usize::MAX` -/
theorem qwt_select_out (sym k : Nat) (hk : S.count sym ≤ k) : QWTree.select c t sym k = .ok none := by
  rw [C09.select_ok hB hW hS hlen hnew, BinWM.select_none hk, ite_self]

theorem qwt_select_usize_max (sym : Nat) : QWTree.select c t sym (two64 - 1) = .ok none :=
  qwt_select_out c hB hW S hS hlen hnew sym _
    (Nat.le_trans List.count_le_length (Nat.le_trans (Nat.le_of_lt hlen) two43_le_usize_max))

end qwt

/-- summary: `QWaveletTree` (`QWT256`, `QWT512`, `QWT256Pfs`, `QWT512Pfs`), every input under
    the documented limits, every argument, both build profiles -/
theorem qwt_safe_api (c : Cfg) (hB : c.B = 256 ∨ c.B = 512) (hW : 0 < c.W) (S : List Nat)
    (hS : ∀ x ∈ S, x < 2 ^ c.W) (hlen : S.length < 2 ^ 43) :
    ∃ t, QWTree.new c S.toArray = .ok t ∧
      QWTree.len t = S.length ∧
      (∀ i, Total (QWTree.get c t i)) ∧
      (∀ sym i, Total (QWTree.rank c t sym i)) ∧
      (∀ sym i, Total (QWTree.rankPrefetch c t sym i)) ∧
      (∀ sym k, Total (QWTree.select c t sym k)) ∧
      (∀ i, S.length ≤ i → QWTree.get c t i = .ok none) ∧
      (∀ sym i, Spec.maxNat S < sym ∨ S.length < i →
        QWTree.rank c t sym i = .ok none ∧ QWTree.rankPrefetch c t sym i = .ok none) ∧
      (∀ sym k, Spec.maxNat S < sym ∨ S.count sym ≤ k → QWTree.select c t sym k = .ok none) := by
  obtain ⟨t, h, hn, _⟩ := C09.new_ok c S hB hW hS hlen
  refine ⟨t, h, hn, qwt_get_total c hB hW S hS hlen h, qwt_rank_total c hB hW S hS hlen h,
    qwt_rankPrefetch_total c hB hW S hS hlen h, qwt_select_total c hB hW S hS hlen h,
    qwt_get_out c hB hW S hS hlen h, ?_, ?_⟩
  · rintro sym i (hs | hi)
    · exact ⟨(qwt_far_symbol c hB hW S hS hlen h sym i hs).1,
        (qwt_far_symbol c hB hW S hS hlen h sym i hs).2.1⟩
    · exact qwt_rank_out c hB hW S hS hlen h sym i hi
  · rintro sym k (hs | hk)
    · exact (qwt_far_symbol c hB hW S hS hlen h sym k hs).2.2
    · exact qwt_select_out c hB hW S hS hlen h sym k hk

/-! ### default: the empty input and the derived `Default` -/

/-- `QWaveletTree::default()` (derived: every field empty): every query answers `None` -/
theorem qwt_default (c : Cfg) (sym i : Nat) :
    QWTree.get c {} i = .ok none ∧ QWTree.rank c {} sym i = .ok none ∧
      QWTree.rankPrefetch c {} sym i = .ok none ∧ QWTree.select c {} sym i = .ok none ∧
      QWTree.len {} = 0 ∧ QWTree.isEmpty {} = true ∧ QWTree.sigma? {} = none :=
  ⟨rfl, rfl, rfl, rfl, rfl, rfl, rfl⟩

/-- the tree built from the empty sequence -/
theorem qwt_empty (c : Cfg) (hB : c.B = 256 ∨ c.B = 512) :
    ∃ t, QWTree.new c #[] = .ok t ∧ QWTree.len t = 0 ∧ QWTree.isEmpty t = true ∧
      QWTree.sigma? t = none ∧
      (∀ i, QWTree.get c t i = .ok none) ∧
      (∀ sym i, QWTree.rank c t sym i = .ok none) ∧
      (∀ sym i, QWTree.rankPrefetch c t sym i = .ok none) ∧
      (∀ sym k, QWTree.select c t sym k = .ok none) :=
  C01.empty_ok c (Closed.levelLaw c.dbg hB)

/-! ## 2. `HuffQWaveletTree` — all four aliases -/

section hqwt
variable (c : Cfg) (hB : c.B = 256 ∨ c.B = 512) (hW : c.W ≤ 64) (S : List Nat) (hne : S ≠ [])
  (hb : ∀ x ∈ S, x < 2 ^ c.W) (hS : S.length < 2 ^ 43) (lens : List (Nat × Nat))
  (hlens : LensOK 4 lens) (hsyms : ∀ s, s ∈ lens.map (·.1) ↔ s ∈ S)
include hB hW hne hb hS hlens hsyms

theorem hqwt_new_total : Total (Huff.new c S.toArray lens) := by
  obtain ⟨_, t, _, _, h, _⟩ := Closed.hqwt_correct c hB hW S hne hb hS lens hlens hsyms
  exact ⟨t, h⟩

variable {t : Huff.HQWT} (ht : Huff.new c S.toArray lens = .ok t)
include ht

theorem hqwt_get_total (i : Nat) : Total (Huff.get c t i) :=
  .of_eq (C10.hqwt_get_ok c hB hW S hne hb hS lens hlens hsyms ht i)

theorem hqwt_rank_total (sym i : Nat) : Total (Huff.rank c t sym i) :=
  .of_eq (C10.hqwt_rank_ok c hB hW S hne hb hS lens hlens hsyms ht sym i)

theorem hqwt_rankPrefetch_total (sym i : Nat) : Total (Huff.rankPrefetch c t sym i) :=
  .of_eq (C10.hqwt_rankPrefetch_ok c hB hW S hne hb hS lens hlens hsyms ht sym i)

theorem hqwt_select_total (sym k : Nat) : Total (Huff.select c t sym k) :=
  .of_eq (C10.hqwt_select_ok c hB hW S hne hb hS lens hlens hsyms ht sym k)

theorem hqwt_get_out (i : Nat) (hi : S.length ≤ i) : Huff.get c t i = .ok none := by
  rw [C10.hqwt_get_ok c hB hW S hne hb hS lens hlens hsyms ht, List.getElem?_eq_none hi]

/-- a symbol that does not occur — in particular one beyond the code table, however far -/
theorem hqwt_absent_symbol (sym i : Nat) (hs : sym ∉ S) :
    Huff.rank c t sym i = .ok none ∧ Huff.rankPrefetch c t sym i = .ok none ∧
      Huff.select c t sym i = .ok none :=
  ⟨by rw [C10.hqwt_rank_ok c hB hW S hne hb hS lens hlens hsyms ht, if_neg (fun h => hs h.1)],
   by rw [C10.hqwt_rankPrefetch_ok c hB hW S hne hb hS lens hlens hsyms ht,
      if_neg (fun h => hs h.1)],
   by rw [C10.hqwt_select_ok c hB hW S hne hb hS lens hlens hsyms ht, if_neg hs]⟩

theorem hqwt_rank_out (sym i : Nat) (hi : S.length < i) :
    Huff.rank c t sym i = .ok none ∧ Huff.rankPrefetch c t sym i = .ok none :=
  ⟨by rw [C10.hqwt_rank_ok c hB hW S hne hb hS lens hlens hsyms ht,
      if_neg (fun h => absurd h.2 (by omega))],
   by rw [C10.hqwt_rankPrefetch_ok c hB hW S hne hb hS lens hlens hsyms ht,
      if_neg (fun h => absurd h.2 (by omega))]⟩

theorem hqwt_select_out (sym k : Nat) (hk : S.count sym ≤ k) : Huff.select c t sym k = .ok none := by
  rw [C10.hqwt_select_ok c hB hW S hne hb hS lens hlens hsyms ht, BinWM.select_none hk, ite_self]

theorem hqwt_usize_max (sym : Nat) :
    Huff.get c t (two64 - 1) = .ok none ∧ Huff.rank c t sym (two64 - 1) = .ok none ∧
      Huff.rankPrefetch c t sym (two64 - 1) = .ok none ∧
      Huff.select c t sym (two64 - 1) = .ok none := by
  have h1 : S.length ≤ two64 - 1 := Nat.le_trans (Nat.le_of_lt hS) two43_le_usize_max
  have h2 : S.length < two64 - 1 := Nat.lt_of_lt_of_le hS two43_le_usize_max
  exact ⟨hqwt_get_out c hB hW S hne hb hS lens hlens hsyms ht _ h1,
    (hqwt_rank_out c hB hW S hne hb hS lens hlens hsyms ht sym _ h2).1,
    (hqwt_rank_out c hB hW S hne hb hS lens hlens hsyms ht sym _ h2).2,
    hqwt_select_out c hB hW S hne hb hS lens hlens hsyms ht sym _
      (Nat.le_trans List.count_le_length h1)⟩

end hqwt

theorem hqwt_safe_api (c : Cfg) (hB : c.B = 256 ∨ c.B = 512) (hW : c.W ≤ 64) (S : List Nat)
    (hne : S ≠ []) (hb : ∀ x ∈ S, x < 2 ^ c.W) (hS : S.length < 2 ^ 43) (lens : List (Nat × Nat))
    (hlens : LensOK 4 lens) (hsyms : ∀ s, s ∈ lens.map (·.1) ↔ s ∈ S) :
    ∃ t, Huff.new c S.toArray lens = .ok t ∧
      (∀ i, Total (Huff.get c t i)) ∧
      (∀ sym i, Total (Huff.rank c t sym i)) ∧
      (∀ sym i, Total (Huff.rankPrefetch c t sym i)) ∧
      (∀ sym k, Total (Huff.select c t sym k)) ∧
      (∀ i, S.length ≤ i → Huff.get c t i = .ok none) ∧
      (∀ sym i, sym ∉ S ∨ S.length < i →
        Huff.rank c t sym i = .ok none ∧ Huff.rankPrefetch c t sym i = .ok none) ∧
      (∀ sym k, sym ∉ S ∨ S.count sym ≤ k → Huff.select c t sym k = .ok none) := by
  obtain ⟨t, h⟩ := hqwt_new_total c hB hW S hne hb hS lens hlens hsyms
  refine ⟨t, h, hqwt_get_total c hB hW S hne hb hS lens hlens hsyms h,
    hqwt_rank_total c hB hW S hne hb hS lens hlens hsyms h,
    hqwt_rankPrefetch_total c hB hW S hne hb hS lens hlens hsyms h,
    hqwt_select_total c hB hW S hne hb hS lens hlens hsyms h,
    hqwt_get_out c hB hW S hne hb hS lens hlens hsyms h, ?_, ?_⟩
  · rintro sym i (hs | hi)
    · exact ⟨(hqwt_absent_symbol c hB hW S hne hb hS lens hlens hsyms h sym i hs).1,
        (hqwt_absent_symbol c hB hW S hne hb hS lens hlens hsyms h sym i hs).2.1⟩
    · exact hqwt_rank_out c hB hW S hne hb hS lens hlens hsyms h sym i hi
  · rintro sym k (hs | hk)
    · exact (hqwt_absent_symbol c hB hW S hne hb hS lens hlens hsyms h sym k hs).2.2
    · exact hqwt_select_out c hB hW S hne hb hS lens hlens hsyms h sym k hk

/-- no symbol has a code in the default tree -/
theorem hqwt_default_codeOf (sym : Nat) : Huff.codeOf {} sym = none := by
  unfold Huff.codeOf
  split
  · rfl
  · simp

/-- `HuffQWaveletTree::default()` (derived) -/
theorem hqwt_default (c : Cfg) (sym i : Nat) :
    Huff.get c {} i = .ok none ∧ Huff.rank c {} sym i = .ok none ∧
      Huff.rankPrefetch c {} sym i = .ok none ∧ Huff.select c {} sym i = .ok none := by
  refine ⟨rfl, ?_, ?_, ?_⟩
  · unfold Huff.rank
    by_cases hi : i > 0
    · have : i > ({} : Huff.HQWT).n := hi
      simp only [this, if_true]; rfl
    · have : ¬ i > ({} : Huff.HQWT).n := hi
      simp only [this, if_false, hqwt_default_codeOf]; rfl
  · unfold Huff.rankPrefetch
    by_cases hi : i > 0
    · have : i > ({} : Huff.HQWT).n := hi
      simp only [this, if_true]; rfl
    · have : ¬ i > ({} : Huff.HQWT).n := hi
      simp only [this, if_false, hqwt_default_codeOf]; rfl
  · unfold Huff.select
    simp only [hqwt_default_codeOf]
    rfl

/-- the tree built from the empty sequence (whatever the length table) -/
theorem hqwt_empty (c : Cfg) (hB : c.B = 256 ∨ c.B = 512) (lens : List (Nat × Nat)) :
    ∃ t, Huff.new c #[] lens = .ok t ∧ ∀ sym i,
      Huff.get c t i = .ok none ∧ Huff.rank c t sym i = .ok none ∧
        Huff.rankPrefetch c t sym i = .ok none ∧ Huff.select c t sym i = .ok none := by
  obtain ⟨t, ht⟩ := C02.hqwt_empty_new_ok c (Closed.levelLaw c.dbg hB) lens
  exact ⟨t, ht, fun sym i => (C02.hqwt_empty c lens ht sym i).2.2⟩

/-! ## 3. `WT` and `HWT` -/

section wt
variable (c : Cfg) (hW : 0 < c.W) (S : List Nat) (hb : ∀ x ∈ S, x < 2 ^ c.W)
  (hS : S.length < 2 ^ 43)
include hW hb hS

theorem wt_safe_api :
    ∃ t, BinWT.new c false S.toArray [] = .ok t ∧
      (∀ i, Total (BinWT.get c false t i)) ∧
      (∀ sym i, Total (BinWT.rank c false t sym i)) ∧
      (∀ sym k, Total (BinWT.select c false t sym k)) ∧
      (∀ i, S.length ≤ i → BinWT.get c false t i = .ok none) ∧
      (∀ sym i, Spec.maxNat S < sym ∨ S.length < i → BinWT.rank c false t sym i = .ok none) ∧
      (∀ sym k, Spec.maxNat S < sym ∨ S.count sym ≤ k → BinWT.select c false t sym k = .ok none) := by
  obtain ⟨t, h, _⟩ := Closed.wt_new c hW S hb hS
  refine ⟨t, h, fun i => .of_eq (Closed.wt_get c hW S hb hS h i),
    fun sym i => .of_eq (Closed.wt_rank c hW S hb hS h sym i),
    fun sym k => .of_eq (Closed.wt_select c hW S hb hS h sym k), ?_, ?_, ?_⟩
  · intro i hi
    rw [Closed.wt_get c hW S hb hS h, List.getElem?_eq_none hi]
  · intro sym i hor
    rw [Closed.wt_rank c hW S hb hS h, if_neg (fun hc => by omega)]
  · rintro sym k (hs | hk)
    · rw [Closed.wt_select c hW S hb hS h, if_neg (fun hc => by omega)]
    · rw [Closed.wt_select c hW S hb hS h, BinWM.select_none hk, ite_self]

/-- `usize::MAX` as position / occurrence number -/
theorem wt_usize_max {t : BinWT.WT} (ht : BinWT.new c false S.toArray [] = .ok t) (sym : Nat) :
    BinWT.get c false t (two64 - 1) = .ok none ∧ BinWT.rank c false t sym (two64 - 1) = .ok none ∧
      BinWT.select c false t sym (two64 - 1) = .ok none := by
  have h1 : S.length ≤ two64 - 1 := Nat.le_trans (Nat.le_of_lt hS) two43_le_usize_max
  have h2 : S.length < two64 - 1 := Nat.lt_of_lt_of_le hS two43_le_usize_max
  refine ⟨?_, ?_, ?_⟩
  · rw [Closed.wt_get c hW S hb hS ht, List.getElem?_eq_none h1]
  · rw [Closed.wt_rank c hW S hb hS ht, if_neg (fun hc => by omega)]
  · rw [Closed.wt_select c hW S hb hS ht,
      BinWM.select_none (Nat.le_trans List.count_le_length h1), ite_self]

end wt

section hwt
variable (c : Cfg) (hW : c.W ≤ 64) (S : List Nat) (hne : S ≠ [])
  (hb : ∀ x ∈ S, x < 2 ^ c.W) (hS : S.length < 2 ^ 43) (lens : List (Nat × Nat))
  (hlens : LensOK 2 lens) (hocc : ∀ s, s ∈ lens.map (·.1) ↔ s ∈ S)
include hW hne hb hS hlens hocc

theorem hwt_safe_api :
    ∃ t, BinWT.new c true S.toArray lens = .ok t ∧
      (∀ i, Total (BinWT.get c true t i)) ∧
      (∀ sym i, Total (BinWT.rank c true t sym i)) ∧
      (∀ sym k, Total (BinWT.select c true t sym k)) ∧
      (∀ i, S.length ≤ i → BinWT.get c true t i = .ok none) ∧
      (∀ sym i, sym ∉ S ∨ S.length < i → BinWT.rank c true t sym i = .ok none) ∧
      (∀ sym k, sym ∉ S ∨ S.count sym ≤ k → BinWT.select c true t sym k = .ok none) := by
  obtain ⟨t, h, _⟩ := Closed.hwt_new c hW S hne hb hS lens hlens hocc
  refine ⟨t, h, fun i => .of_eq (Closed.hwt_get c hW S hne hb hS lens hlens hocc h i),
    fun sym i => .of_eq (Closed.hwt_rank c hW S hne hb hS lens hlens hocc h sym i),
    fun sym k => .of_eq (Closed.hwt_select c hW S hne hb hS lens hlens hocc h sym k), ?_, ?_, ?_⟩
  · intro i hi
    rw [Closed.hwt_get c hW S hne hb hS lens hlens hocc h, List.getElem?_eq_none hi]
  · rintro sym i (hs | hi)
    · rw [Closed.hwt_rank c hW S hne hb hS lens hlens hocc h, if_neg (fun hc => hs hc.1)]
    · rw [Closed.hwt_rank c hW S hne hb hS lens hlens hocc h,
        if_neg (fun hc => absurd hc.2 (by omega))]
  · rintro sym k (hs | hk)
    · rw [Closed.hwt_select c hW S hne hb hS lens hlens hocc h, if_neg hs]
    · rw [Closed.hwt_select c hW S hne hb hS lens hlens hocc h, BinWM.select_none hk, ite_self]

end hwt

/-- `WT::default()` / `HWT::default()` (derived) and the trees built from the empty sequence:
    the same state `{}`; every query answers `None` -/
theorem wt_default (c : Cfg) (comp : Bool) (lens : List (Nat × Nat)) (sym i : Nat) :
    BinWT.new c comp #[] lens = .ok {} ∧
      BinWT.get c comp {} i = .ok none ∧ BinWT.rank c comp {} sym i = .ok none ∧
      BinWT.select c comp {} sym i = .ok none := by
  cases comp
  · exact ⟨rfl, C03.wt_empty_get c rfl i, C03.wt_empty_rank c rfl sym i,
      C03.wt_empty_select c rfl sym i⟩
  · exact ⟨rfl, (C03.hwt_empty c lens rfl sym i).2⟩

/-! ## 4. `RSQVector` -/

section rsq
open Qwt.RSQP (RepInv)
variable {B : Nat} {r : RSQ.RSQVector} {s : List Nat} (h : RepInv B r s) (dbg : Bool)
include h

/-- every safe method, every argument, both profiles -/
theorem rsq_total (c i : Nat) :
    Total (RSQ.get dbg r i) ∧ Total (RSQ.rank dbg B r c i) ∧ Total (RSQ.select dbg B r c i) ∧
      Total (RSQ.occs dbg r c) ∧ Total (RSQ.occsSmaller dbg r c) :=
  ⟨.of_eq (C05.get_ok h dbg i), .of_eq (C05.rank_ok h dbg c i),
    .of_eq (C05.select_ok Closed.selHyp h dbg c i), .of_eq (C05.occs_ok h dbg c),
    .of_eq (C05.occsSmaller_ok h dbg c)⟩

/-- a quad symbol `4..=255` — or anything larger — is answered with `None` by every method
    that takes a symbol (the pinned tree had undefined behaviour here) -/
theorem rsq_bad_symbol (c i : Nat) (hc : 3 < c) :
    RSQ.rank dbg B r c i = .ok none ∧ RSQ.select dbg B r c i = .ok none ∧
      RSQ.occs dbg r c = .ok none ∧ RSQ.occsSmaller dbg r c = .ok none :=
  ⟨by rw [C05.rank_ok h dbg c i, if_neg (fun hh => by omega)],
   by rw [C05.select_ok Closed.selHyp h dbg c i, if_neg (by omega)],
   by rw [C05.occs_ok h dbg c, if_neg (by omega)],
   by rw [C05.occsSmaller_ok h dbg c, if_neg (by omega)]⟩

theorem rsq_out (c i : Nat) (hi : s.length < i) :
    RSQ.get dbg r i = .ok none ∧ RSQ.rank dbg B r c i = .ok none ∧
      RSQ.select dbg B r c i = .ok none := by
  refine ⟨by rw [C05.get_ok h dbg i, List.getElem?_eq_none (Nat.le_of_lt hi)],
    by rw [C05.rank_ok h dbg c i, if_neg (fun hh => by omega)], ?_⟩
  rw [C05.select_ok Closed.selHyp h dbg c i,
    BinWM.select_none (Nat.le_trans List.count_le_length (Nat.le_of_lt hi)), ite_self]

end rsq

/-- `usize::MAX` on every `RSQVector` built under the length limit -/
theorem rsq_usize_max {B : Nat} {r : RSQ.RSQVector} {s : List Nat} (h : RSQP.RepInv B r s)
    (hl : s.length < 2 ^ 43) (dbg : Bool) (c : Nat) :
    RSQ.get dbg r (two64 - 1) = .ok none ∧ RSQ.rank dbg B r c (two64 - 1) = .ok none ∧
      RSQ.select dbg B r c (two64 - 1) = .ok none :=
  rsq_out h dbg c _ (Nat.lt_of_lt_of_le hl two43_le_usize_max)

/-- summary: construction from any well-formed quad vector (`From<QVector>`) below the limit -/
theorem rsq_safe_api {B : Nat} (dbg0 : Bool) (hB : B = 256 ∨ B = 512) {qv : QV.QVector}
    (hq : QV.Inv qv) (hl : (QV.abs qv).length < 2 ^ 43) :
    ∃ r, RSQ.fromQV dbg0 B qv = .ok r ∧ RSQ.len r = (QV.abs qv).length ∧
      ∀ dbg c i, Total (RSQ.get dbg r i) ∧ Total (RSQ.rank dbg B r c i) ∧
        Total (RSQ.select dbg B r c i) ∧ Total (RSQ.occs dbg r c) ∧
        Total (RSQ.occsSmaller dbg r c) ∧
        (3 < c → RSQ.rank dbg B r c i = .ok none ∧ RSQ.select dbg B r c i = .ok none ∧
          RSQ.occs dbg r c = .ok none ∧ RSQ.occsSmaller dbg r c = .ok none) ∧
        ((QV.abs qv).length < i → RSQ.get dbg r i = .ok none ∧ RSQ.rank dbg B r c i = .ok none ∧
          RSQ.select dbg B r c i = .ok none) := by
  obtain ⟨r, e, hinv⟩ := C05.fromQV_repInv (B := B) dbg0 hB (RSQP.holds_of_inv hq)
    (QV.abs_lt_four qv) hl
  refine ⟨r, e, C05.len_ok hinv, fun dbg c i => ?_⟩
  obtain ⟨t1, t2, t3, t4, t5⟩ := rsq_total hinv dbg c i
  exact ⟨t1, t2, t3, t4, t5, rsq_bad_symbol hinv dbg c i, rsq_out hinv dbg c i⟩

/-- `new` / `collect` from arbitrary integers (any sign, any width): total -/
theorem rsq_new_total {B : Nat} (dbg0 : Bool) (hB : B = 256 ∨ B = 512) (vals : List Int)
    (hl : vals.length < 2 ^ 43) : Total (RSQ.new dbg0 B vals) := by
  obtain ⟨q, e, hq, a⟩ := C13.fromIter_ok vals (by
    have : two64 = 2 ^ 64 := by decide
    omega)
  obtain ⟨r, hr, _⟩ := rsq_safe_api (B := B) dbg0 hB hq (by rw [a, List.length_map]; exact hl)
  exact ⟨r, by rw [C19.rsq_paths_equal dbg0 B vals e]; exact hr⟩

/-- `RSQVector::default()` -/
theorem rsq_default {B : Nat} (hB : B = 256 ∨ B = 512) :
    ∃ r, RSQ.default B = .ok r ∧ RSQ.len r = 0 ∧ ∀ dbg c i,
      RSQ.get dbg r i = .ok none ∧ Total (RSQ.rank dbg B r c i) ∧
        RSQ.select dbg B r c i = .ok none ∧ Total (RSQ.occs dbg r c) ∧
        Total (RSQ.occsSmaller dbg r c) ∧ (0 < i ∨ 3 < c → RSQ.rank dbg B r c i = .ok none) := by
  obtain ⟨r, e, hr⟩ := C05.default_represents (B := B) Closed.selHyp hB
  refine ⟨r, e, hr.len_eq, fun dbg c i => ⟨by rw [hr.get]; rfl, .of_eq (hr.rank dbg c i), ?_,
    .of_eq (hr.occs dbg c), .of_eq (hr.occsSmaller dbg c), ?_⟩⟩
  · rw [hr.select]
    show Except.ok (if c ≤ 3 then none else none) = _
    rw [ite_self]
  · intro hor
    rw [hr.rank, if_neg]
    intro hh
    have : i ≤ 0 := hh.2
    omega

/-! ## 5. `RSWide` / `RSNarrow` -/

theorem rsw_safe_api {b : BV.BitVector} (hb : BV.Inv b) (hl : (BV.abs b).length < 2 ^ 43) :
    ∃ r, RSW.new b = .ok r ∧ ∀ i,
      Total (RSW.get r i) ∧ Total (RSW.rank1 r i) ∧ Total (RSW.rank0 r i) ∧
        Total (RSW.select1 r i) ∧ Total (RSW.select0 r i) ∧ Total (RSW.nOnes r) ∧
        ((BV.abs b).length < i → RSW.get r i = .ok none ∧ RSW.rank1 r i = .ok none ∧
          RSW.rank0 r i = .ok none ∧ RSW.select1 r i = .ok none ∧ RSW.select0 r i = .ok none) := by
  obtain ⟨r, e, _, hv⟩ := C06.rsw_new_inv (C06.holds_of_inv hb) hl
  refine ⟨r, e, fun i => ⟨.of_eq (C06.rsw_get hv i), .of_eq (C06.rsw_rank1 hv i),
    .of_eq (C06.rsw_rank0 hv i), .of_eq (C06.rsw_select1 Closed.selSpec hv i),
    .of_eq (C06.rsw_select0 Closed.selSpec hv i), .of_eq (C06.rsw_nOnes hv), fun hi => ?_⟩⟩
  refine ⟨by rw [C06.rsw_get hv i, List.getElem?_eq_none (Nat.le_of_lt hi)],
    by rw [C06.rsw_rank1 hv i, if_neg (fun hh => by omega)],
    by rw [C06.rsw_rank0 hv i, if_neg (fun hh => by omega)], ?_, ?_⟩
  · rw [C06.rsw_select1 Closed.selSpec hv i,
      BinWM.select_none (Nat.le_trans List.count_le_length (Nat.le_of_lt hi))]
  · rw [C06.rsw_select0 Closed.selSpec hv i,
      BinWM.select_none (Nat.le_trans List.count_le_length (Nat.le_of_lt hi))]

theorem rsn_safe_api {b : BV.BitVector} (hb : BV.Inv b) :
    ∃ r, RSN.new b = .ok r ∧ ∀ i,
      Total (RSN.get r i) ∧ Total (RSN.rank1 r i) ∧ Total (RSN.rank0 r i) ∧
        Total (RSN.select1 r i) ∧ Total (RSN.select0 r i) ∧ Total (RSN.nOnes r) ∧
        Total (RSN.nZeros r) ∧
        ((BV.abs b).length < i → RSN.get r i = .ok none ∧ RSN.rank1 r i = .ok none ∧
          RSN.rank0 r i = .ok none ∧ RSN.select1 r i = .ok none ∧ RSN.select0 r i = .ok none) := by
  obtain ⟨r, e, _, hv⟩ := C06.rsn_new_inv (C06.holds_of_inv hb)
  refine ⟨r, e, fun i => ⟨.of_eq (C06.rsn_get hv i), .of_eq (C06.rsn_rank1 hv i),
    .of_eq (C06.rsn_rank0 hv i), .of_eq (C06.rsn_select1 Closed.selSpec hv i),
    .of_eq (C06.rsn_select0 Closed.selSpec hv i), .of_eq (C06.rsn_nOnes hv),
    .of_eq (C06.rsn_nZeros hv), fun hi => ?_⟩⟩
  refine ⟨by rw [C06.rsn_get hv i, List.getElem?_eq_none (Nat.le_of_lt hi)],
    by rw [C06.rsn_rank1 hv i, if_neg (fun hh => by omega)],
    by rw [C06.rsn_rank0 hv i, if_neg (fun hh => by omega)], ?_, ?_⟩
  · rw [C06.rsn_select1 Closed.selSpec hv i,
      BinWM.select_none (Nat.le_trans List.count_le_length (Nat.le_of_lt hi))]
  · rw [C06.rsn_select0 Closed.selSpec hv i,
      BinWM.select_none (Nat.le_trans List.count_le_length (Nat.le_of_lt hi))]

/-- `RSWide::default()` / `RSNarrow::default()` (derived), and the structures built from the
    empty bit vector -/
theorem rsw_default (i : Nat) :
    RSW.get {} i = .ok none ∧ RSW.rank1 {} i = .ok none ∧ RSW.rank0 {} i = .ok none ∧
      RSW.select1 {} i = .ok none ∧ RSW.select0 {} i = .ok none ∧ RSW.nOnes {} = .ok 0 :=
  C06.rsw_default_queries i

theorem rsn_default (i : Nat) :
    RSN.get {} i = .ok none ∧ RSN.rank1 {} i = .ok none ∧ RSN.rank0 {} i = .ok none ∧
      RSN.select1 {} i = .ok none ∧ RSN.select0 {} i = .ok none ∧
      RSN.nOnes {} = .ok 0 ∧ RSN.nZeros {} = .ok 0 :=
  C06.rsn_default_queries i

theorem rsw_rsn_empty : Total (RSW.new {}) ∧ Total (RSN.new {}) :=
  ⟨.of_eq C06.rsw_new_empty, .of_eq C06.rsn_new_empty⟩

/-! ## 6. `DArray<false>` / `DArray<true>` -/

theorem da_safe_api (s0 : Bool) {b : BV.BitVector} (hb : BV.Inv b) (k : Nat) :
    Total (DA.select1 (DA.new s0 b) k) ∧ Total (DA.get (DA.new s0 b) k) ∧
      Total (DA.countZeros (DA.new s0 b)) ∧
      (s0 = true → Total (DA.select0 s0 (DA.new s0 b) k)) ∧
      (s0 = false → DA.select0 s0 (DA.new s0 b) k = .error .assertDoc) ∧
      ((BV.abs b).length ≤ k → DA.select1 (DA.new s0 b) k = .ok none ∧
        DA.get (DA.new s0 b) k = .ok none) := by
  refine ⟨.of_eq (Closed.darray_select1 s0 hb k), .of_eq (C07.get_ok_inv s0 hb k),
    .of_eq (C07.countZeros_ok_inv s0 hb), ?_, ?_, ?_⟩
  · intro e; subst e; exact .of_eq (Closed.darray_select0 hb k)
  · intro e; subst e; rfl
  · intro hk
    exact ⟨by rw [Closed.darray_select1 s0 hb k,
                BinWM.select_none (Nat.le_trans List.count_le_length hk)],
           by rw [C07.get_ok_inv s0 hb k, List.getElem?_eq_none hk]⟩

/-- `DArray::default()` -/
theorem da_default (s0 : Bool) (k : Nat) :
    DA.select1 (DA.new s0 {}) k = .ok none ∧
    DA.select0 s0 (DA.new s0 {}) k = (if s0 then .ok none else .error .assertDoc) ∧
    DA.countOnes (DA.new s0 {}) = 0 ∧ DA.countZeros (DA.new s0 {}) = .ok 0 ∧
    DA.len (DA.new s0 {}) = 0 ∧ DA.get (DA.new s0 {}) k = .ok none := C07.default_ok s0 k

/-! ## 7. `BitVector` / `BitVectorMut`, `QVector` -/

section bv
variable (b : BV.BitVector) (hb : BV.Inv b)
include hb

/-- observers: total for every argument (`get_word` aside, see the documented panics) -/
theorem bv_observers_total (i len : Nat) :
    Total (BV.get b i) ∧ Total (BV.getBits b i len) ∧ Total (BV.getBitsMut b i len) ∧
      Total (BV.countZeros b) ∧ Total (BV.BitIter.next b { i := i }) :=
  ⟨.of_eq (C08.get_ok b hb i), .of_eq (C08.getBits_ok b hb i len),
    .of_eq (C08.getBitsMut_pinned b hb i len), .of_eq (C08.countZeros_ok b hb),
    .of_eq (C08.bitIter_next_ok b hb i)⟩

theorem bv_get_out (i : Nat) (hi : b.nBits ≤ i) : BV.get b i = .ok none := by
  rw [C08.get_ok b hb i, List.getElem?_eq_none (by rw [BV.abs_length]; exact hi)]

/-- `get_bits(usize::MAX, len)`: no overflow in `index + len` -/
theorem bv_getBits_usize_max (hn : b.nBits < two64) (len : Nat) :
    BV.getBits b (two64 - 1) len = .ok none := C08.getBits_max_index b hb hn len

/-- any `len` outside `1..=64`, any range not inside the vector -/
theorem bv_getBits_out (i len : Nat) (h : len = 0 ∨ 64 < len ∨ b.nBits < i + len) :
    BV.getBits b i len = .ok none := by
  rw [C08.getBits_ok b hb i len, if_neg (fun hh => by omega)]

/-- `get_word`: total inside the range, the documented panic outside -/
theorem bv_getWord (w : Nat) :
    Total (BV.getWord b w) ∨ BV.getWord b w = .error .assertDoc := by
  by_cases hw : w < 8 * ((b.nBits + 511) / 512)
  · exact Or.inl (.of_eq (C08.getWord_ok b hb w hw))
  · exact Or.inr (C08.getWord_out_of_range b hb w hw)

/-- mutators: the call succeeds (and keeps the invariant) when the documented precondition
    holds, and is the documented panic otherwise — nothing else can happen -/
theorem bv_set (i : Nat) (bit : Bool) :
    (∃ b', BV.set b i bit = .ok b' ∧ BV.Inv b') ∨ BV.set b i bit = .error .assertDoc := by
  by_cases hpre : i < b.nBits
  · obtain ⟨b', h1, h2, _⟩ := C08.set_step b i bit hb hpre
    exact Or.inl ⟨b', h1, h2⟩
  · exact Or.inr (C08.set_panic b i bit hpre)

theorem bv_setBits (i len bits : Nat) (hu : bits < two64) :
    (∃ b', BV.setBits b i len bits = .ok b' ∧ BV.Inv b') ∨
      BV.setBits b i len bits = .error .assertDoc := by
  by_cases hpre : i + len ≤ b.nBits ∧ len ≤ 64 ∧ bits < 2 ^ len
  · obtain ⟨b', h1, h2, _⟩ := C08.setBits_step b i len bits hb hpre
    exact Or.inl ⟨b', h1, h2⟩
  · exact Or.inr (C08.setBits_panic b i len bits hu hpre)

/-- (`hn`: the vector stays below `2^64` bits — beyond is allocation failure territory) -/
theorem bv_appendBits (bits len : Nat) (hu : bits < two64) (hn : b.nBits + len < two64) :
    (∃ b', BV.appendBits b bits len = .ok b' ∧ BV.Inv b') ∨
      BV.appendBits b bits len = .error .assertDoc := by
  by_cases hpre : len ≤ 64 ∧ bits < 2 ^ len
  · obtain ⟨b', h1, h2, _⟩ := C08.appendBits_step b bits len hb hpre hn
    exact Or.inl ⟨b', h1, h2⟩
  · exact Or.inr (C08.appendBits_panic b bits len hu hpre)

theorem bv_push (bit : Bool) (hn : b.nBits + 1 < two64) :
    ∃ b', BV.push b bit = .ok b' ∧ BV.Inv b' := by
  obtain ⟨b', h1, h2, _⟩ := C08.push_step b bit hb hn
  exact ⟨b', h1, h2⟩

theorem bv_extendWithZeros (n : Nat) (hn : b.nBits + n + 511 < two64) :
    ∃ b', BV.extendWithZeros b n = .ok b' ∧ BV.Inv b' := by
  obtain ⟨b', h1, h2, _⟩ := C08.extendWithZeros_step b n hb hn
  exact ⟨b', h1, h2⟩

end bv

/-- summary: every state reachable by constructors and mutators (any history of calls whose
    documented preconditions hold) exists, satisfies the invariant, and every observer is
    total on it -/
theorem bv_safe_api (h : List BV.Op) (hp : BV.HistPre h []) :
    ∃ b, BV.run h {} = .ok b ∧ BV.Inv b ∧ BV.abs b = BV.runSpec h [] ∧
      ∀ i len, Total (BV.get b i) ∧ Total (BV.getBits b i len) ∧ Total (BV.getBitsMut b i len) ∧
        Total (BV.countZeros b) ∧ Total (BV.BitIter.next b { i := i }) ∧
        (Total (BV.getWord b i) ∨ BV.getWord b i = .error .assertDoc) ∧
        (∀ bit, (∃ b', BV.set b i bit = .ok b' ∧ BV.Inv b') ∨ BV.set b i bit = .error .assertDoc) := by
  obtain ⟨b, h1, h2, h3⟩ := C08.reachable_ok h hp
  refine ⟨b, h1, h2, h3, fun i len => ?_⟩
  obtain ⟨t1, t2, t3, t4, t5⟩ := bv_observers_total b h2 i len
  exact ⟨t1, t2, t3, t4, t5, bv_getWord b h2 i, fun bit => bv_set b h2 i bit⟩

/-- the empty / default bit vector -/
theorem bv_default (i len : Nat) :
    BV.Inv {} ∧ BV.get {} i = .ok none ∧ BV.getBits {} i len = .ok none ∧
      BV.countZeros {} = .ok 0 ∧ BV.getWord {} i = .error .assertDoc := by
  have hinv := C08.init_inv.1
  refine ⟨hinv, bv_get_out {} hinv i (Nat.zero_le _), ?_, rfl, ?_⟩
  · rw [C08.getBits_ok {} hinv i len, if_neg]
    intro hh
    have : i + len ≤ 0 := hh.2.2
    omega
  · exact C08.getWord_out_of_range {} hinv i (by show ¬ i < 8 * ((0 + 511) / 512); omega)

/-- `QVector`: every collected vector; `get` total for every index, both profiles -/
theorem qv_safe_api (vals : List Int) (hn : 2 * vals.length < two64) :
    ∃ q, QV.fromIter vals = .ok q ∧ QV.Inv q ∧ QV.len q = vals.length ∧
      ∀ dbg i, Total (QV.get dbg q i) ∧ (vals.length ≤ i → QV.get dbg q i = .ok none) := by
  obtain ⟨q, e, hq, a⟩ := C13.fromIter_ok vals hn
  have hl : (QV.abs q).length = vals.length := by rw [a, List.length_map]
  refine ⟨q, e, hq, by rw [C13.len_ok q hq, hl], fun dbg i => ⟨.of_eq (C13.get_ok dbg q hq i), ?_⟩⟩
  intro hi
  rw [C13.get_ok dbg q hq i, List.getElem?_eq_none (by rw [hl]; exact hi)]

theorem qv_default (dbg : Bool) (i : Nat) :
    QV.Inv {} ∧ QV.get dbg {} i = .ok none ∧ QV.len {} = 0 ∧ QV.isEmpty {} = true := by
  refine ⟨C13.empty_inv.1, ?_, rfl, rfl⟩
  rw [C13.get_ok dbg {} C13.empty_inv.1 i, C13.empty_inv.2]; rfl

/-! ## 7b. the iterators of the trees (`iter()`, `into_iter()`: `next`, `next_back`, `len`)

C12 proves that every history of iterator calls produces the outcomes of a deque over the
sequence, given that `get_unchecked` is correct inside the range; C10 discharges that premise,
and the specification never produces a fault. -/

theorem specStep_no_fault (rem : List Nat) (op : Iter.IterOp) (f : Fault) :
    (Iter.specStep rem op).2 ≠ .fault f := by
  cases op with
  | next => cases rem <;> simp [Iter.specStep]
  | nextBack =>
    show (match rem.getLast? with
      | none => (([] : List Nat), Out.none)
      | some x => (rem.dropLast, Out.some x)).2 ≠ Out.fault f
    cases rem.getLast? <;> simp
  | len => simp [Iter.specStep]
  | nth k => simp only [Iter.specStep]; cases rem[k]? <;> simp
  | nthBack k => simp only [Iter.specStep]; cases rem.reverse[k]? <;> simp
  | count => simp [Iter.specStep]
  | last => simp only [Iter.specStep]; cases rem.getLast? <;> simp

theorem specRun_no_fault : ∀ (ops : List Iter.IterOp) (rem : List Nat) (o : Out),
    o ∈ Iter.specRun rem ops → ∀ f, o ≠ .fault f
  | [], _, o, h => by simp [Iter.specRun] at h
  | op :: ops, rem, o, h => by
    simp only [Iter.specRun, List.mem_cons] at h
    rcases h with rfl | h
    · exact specStep_no_fault rem op
    · exact specRun_no_fault ops _ o h

theorem qwt_iter_total (c : Cfg) (hB : c.B = 256 ∨ c.B = 512) (hW : 0 < c.W) (S : List Nat)
    (hS : ∀ x ∈ S, x < 2 ^ c.W) (hlen : S.length < 2 ^ 43) {t : QWTree.QWT}
    (hnew : QWTree.new c S.toArray = .ok t) (ops : List Iter.IterOp) :
    Iter.run (QWTree.getUnchecked c t) { i := 0, e := S.length } ops = Iter.specRun S ops ∧
      ∀ o ∈ Iter.run (QWTree.getUnchecked c t) { i := 0, e := S.length } ops, ∀ f, o ≠ .fault f := by
  have h := C12.qwt_iter_history c t S (fun i hi => by
    rw [C10.qwt_getUnchecked_ok hB hW hS hlen hnew i hi, List.getD_eq_getElem?_getD,
      List.getElem?_eq_getElem hi]; rfl) ops
  exact ⟨h, fun o ho => specRun_no_fault ops S o (h ▸ ho)⟩

theorem hqwt_iter_total (c : Cfg) (hB : c.B = 256 ∨ c.B = 512) (hW : c.W ≤ 64) (S : List Nat)
    (hne : S ≠ []) (hb : ∀ x ∈ S, x < 2 ^ c.W) (hS : S.length < 2 ^ 43) (lens : List (Nat × Nat))
    (hlens : LensOK 4 lens) (hsyms : ∀ s, s ∈ lens.map (·.1) ↔ s ∈ S) {t : Huff.HQWT}
    (ht : Huff.new c S.toArray lens = .ok t) (ops : List Iter.IterOp) :
    Iter.run (Huff.getUnchecked c t) { i := 0, e := S.length } ops = Iter.specRun S ops ∧
      ∀ o ∈ Iter.run (Huff.getUnchecked c t) { i := 0, e := S.length } ops, ∀ f, o ≠ .fault f := by
  have h := C12.hqwt_iter_history c t S (fun i hi => by
    rw [C10.hqwt_getUnchecked_ok c hB hW S hne hb hS lens hlens hsyms ht i hi,
      List.getD_eq_getElem?_getD, List.getElem?_eq_getElem hi]; rfl) ops
  exact ⟨h, fun o ho => specRun_no_fault ops S o (h ▸ ho)⟩

theorem wt_iter_total (c : Cfg) (hW : 0 < c.W) (S : List Nat) (hb : ∀ x ∈ S, x < 2 ^ c.W)
    (hS : S.length < 2 ^ 43) {t : BinWT.WT} (ht : BinWT.new c false S.toArray [] = .ok t)
    (ops : List Iter.IterOp) :
    Iter.run (BinWT.getUnchecked c false t) { i := 0, e := S.length } ops = Iter.specRun S ops ∧
      ∀ o ∈ Iter.run (BinWT.getUnchecked c false t) { i := 0, e := S.length } ops,
        ∀ f, o ≠ .fault f := by
  have h := C12.wt_iter_history c false t S (fun i hi => by
    rw [C03.wt_getUnchecked_ok c hW Closed.binLevelLaw S hb hS ht i hi,
      List.getD_eq_getElem?_getD, List.getElem?_eq_getElem hi]; rfl) ops
  exact ⟨h, fun o ho => specRun_no_fault ops S o (h ▸ ho)⟩

/-! ## 8. the documented panics (the only faults of the safe API) -/

/-- `BitVectorMut::set(i, _)` with `i ≥ len` -/
theorem doc_set (b : BV.BitVector) (i : Nat) (bit : Bool) (hpre : ¬ i < b.nBits) :
    BV.set b i bit = .error .assertDoc := C08.set_panic b i bit hpre

/-- `set_bits` out of bounds, with `len > 64`, or with stray bits above `len` -/
theorem doc_setBits (b : BV.BitVector) (i len bits : Nat) (hu : bits < two64)
    (hpre : ¬ (i + len ≤ b.nBits ∧ len ≤ 64 ∧ bits < 2 ^ len)) :
    BV.setBits b i len bits = .error .assertDoc := C08.setBits_panic b i len bits hu hpre

/-- `append_bits` with `len > 64` or stray bits -/
theorem doc_appendBits (b : BV.BitVector) (bits len : Nat) (hu : bits < two64)
    (hpre : ¬ (len ≤ 64 ∧ bits < 2 ^ len)) :
    BV.appendBits b bits len = .error .assertDoc := C08.appendBits_panic b bits len hu hpre

/-- `get_word` with an out-of-range word index -/
theorem doc_getWord (b : BV.BitVector) (hb : BV.Inv b) (w : Nat)
    (hw : ¬ w < 8 * ((b.nBits + 511) / 512)) : BV.getWord b w = .error .assertDoc :=
  C08.getWord_out_of_range b hb w hw

/-- `select0` on a `DArray` built without select0 support -/
theorem doc_select0 (d : DA.DArray) (k : Nat) : DA.select0 false d k = .error .assertDoc :=
  C07.select0_unsupported d k

/-- exceeding the `2^43` length limit: the first assertion of `RSSupportPlain::new`, for every
    block size and in both profiles … -/
theorem doc_rsNew_limit (dbg : Bool) (B : Nat) (qv : QV.QVector) (h : 2 ^ 43 ≤ QV.len qv) :
    RSQ.rsNew dbg B qv = .error .assertDoc := by
  have h1 : decide (QV.len qv < 2 ^ Extracted.rsqLenLimitLog) = false :=
    decide_eq_false (by show ¬ QV.len qv < 2 ^ 43; omega)
  unfold RSQ.rsNew
  rw [h1]
  rfl

/-- … hence `RSQVector::from` / `new` panic with the documented message (and nothing else) -/
theorem doc_fromQV_limit (dbg : Bool) (B : Nat) (qv : QV.QVector) (h : 2 ^ 43 ≤ QV.len qv) :
    RSQ.fromQV dbg B qv = .error .assertDoc := by
  unfold RSQ.fromQV
  rw [doc_rsNew_limit dbg B qv h]
  rfl

/-- the limit is sharp: below it construction succeeds (`rsq_safe_api`), at it the assertion
    fires -/
theorem doc_rsNew_sharp (dbg : Bool) (qv : QV.QVector) (hq : QV.Inv qv) :
    (QV.len qv < 2 ^ 43 → Total (RSQ.fromQV dbg 256 qv)) ∧
      (2 ^ 43 ≤ QV.len qv → RSQ.fromQV dbg 256 qv = .error .assertDoc) := by
  refine ⟨fun hl => ?_, doc_fromQV_limit dbg 256 qv⟩
  obtain ⟨r, e, _⟩ := rsq_safe_api (B := 256) dbg (Or.inl rfl) hq (by rw [← QV.len_ok]; exact hl)
  exact ⟨r, e⟩

/-! ## non-vacuity -/

section examples

/-- the hypotheses of the tree theorems are satisfiable (8 levels over `u16`, prefetch on) -/
example : ∃ t, QWTree.new { pfs := true, W := 16 } [5, 300, 7, 0, 300, 65535].toArray = .ok t ∧
    QWTree.rank { pfs := true, W := 16 } t 65536 3 = .ok none ∧
    QWTree.select { pfs := true, W := 16 } t 300 (two64 - 1) = .ok none ∧
    QWTree.get { pfs := true, W := 16 } t (two64 - 1) = .ok none := by
  obtain ⟨t, h, _, _, _, _, _, hg, hr, hs⟩ :=
    qwt_safe_api { pfs := true, W := 16 } (Or.inl rfl) (by decide) [5, 300, 7, 0, 300, 65535]
      (by decide) (by decide)
  exact ⟨t, h, (hr 65536 3 (Or.inl (by decide))).1, hs 300 _ (Or.inr (by decide)),
    hg _ (by decide)⟩

/-- far symbols and huge positions on the model itself, both profiles, by evaluation -/
example : ∀ d : Bool,
    (do let t ← QWTree.new { W := 8, dbg := d } #[1, 0, 1, 0, 2, 4, 5, 3]
        let a ← QWTree.rank { W := 8, dbg := d } t 1000000 3
        let b ← QWTree.select { W := 8, dbg := d } t 1 18446744073709551615
        let e ← QWTree.get { W := 8, dbg := d } t 18446744073709551615
        let f ← QWTree.rankPrefetch { W := 8, dbg := d } t 6 8
        pure [a, b, e, f]) = .ok [none, none, none, none] := by decide +kernel

/-- quad symbols 4 and 255 on `RSQVector`, both block sizes and profiles -/
example : ∀ d : Bool,
    (do let r ← RSQ.new d 512 [0, 1, 2, 3, 1]
        let a ← RSQ.rank d 512 r 4 2
        let b ← RSQ.rank d 512 r 255 0
        let e ← RSQ.select d 512 r 7 0
        let f ← RSQ.rank d 512 r 1 18446744073709551615
        pure [a, b, e, f]) = .ok [none, none, none, none] := by decide +kernel

/-- `RSQVector::default()` evaluates, and `rank(_, 0)` on it is `Some(0)` (position 0 is valid) -/
example : (do let r ← RSQ.default 256; RSQ.rank false 256 r 2 0) = .ok (some 0) := by
  decide +kernel
example : (do let r ← RSQ.default 256; RSQ.rank true 256 r 200 0) = .ok none := by
  decide +kernel

/-- a reachable bit vector (the hypothesis `HistPre` is decidable) -/
example : ∃ b, BV.run [.push true, .appendBits 5 3, .extendWithZeros 100, .set 2 false] {} = .ok b ∧
    BV.getBits b (two64 - 1) 7 = .ok none ∧ BV.set b 104 true = .error .assertDoc := by
  obtain ⟨b, h1, h2, h3, _⟩ := bv_safe_api
    [.push true, .appendBits 5 3, .extendWithZeros 100, .set 2 false] (by decide)
  have hn : b.nBits = 104 := by rw [← BV.abs_length, h3]; decide
  exact ⟨b, h1, bv_getBits_usize_max b h2 (by rw [hn]; decide) 7,
    doc_set b 104 true (by rw [hn]; decide)⟩

/-- the length assertion on a (hypothetical) vector of `2^43` symbols: only `position` matters -/
example : RSQ.rsNew true 256 { data := #[], position := 2 ^ 44 } = .error .assertDoc :=
  doc_rsNew_limit true 256 _ (by decide)

end examples

end Qwt.Props.C04
