import Qwt.Proofs.Iter
import Qwt.Model.QWT
import Qwt.Model.Huff
import Qwt.Model.BinWT

/-! C12 — iterators yield exactly the indexed sequence, from both ends, with exact length.

`wtiter_history` is the refinement theorem for `WTIterator` (shared by all wavelet trees):
for EVERY finite history of `next` / `next_back` / `len` calls — and of the provided methods the
standard adaptors are built from: `nth(k)` (`skip`, `step_by`), `nth_back(k)`, `count`, `last` —
the outcomes are those of a deque holding `S`.  The three instantiations take the correctness of `get_unchecked`
(properties C01–C03) as their hypothesis.  The one-ended bit / quad vector iterators are
covered in `Props/C08` and `Props/C13`. -/
namespace Qwt.Props.C12
open Qwt Qwt.Iter

/-- every history, every tree whose `get_unchecked` is correct -/
theorem wtiter_history (getU : Nat → M Nat) (S : List Nat)
    (hget : ∀ i, i < S.length → getU i = .ok (S.getD i 0)) (ops : List IterOp) :
    run getU { i := 0, e := S.length } ops = specRun S ops := by
  have h := run_eq_spec getU S hget ops { i := 0, e := S.length } (Nat.zero_le _) (Nat.le_refl _)
  simpa using h

theorem qwt_iter_history (c : Cfg) (t : QWTree.QWT) (S : List Nat)
    (hget : ∀ i, i < S.length → QWTree.getUnchecked c t i = .ok (S.getD i 0)) (ops : List IterOp) :
    run (QWTree.getUnchecked c t) { i := 0, e := S.length } ops = specRun S ops :=
  wtiter_history _ S hget ops

theorem hqwt_iter_history (c : Cfg) (t : Huff.HQWT) (S : List Nat)
    (hget : ∀ i, i < S.length → Huff.getUnchecked c t i = .ok (S.getD i 0)) (ops : List IterOp) :
    run (Huff.getUnchecked c t) { i := 0, e := S.length } ops = specRun S ops :=
  wtiter_history _ S hget ops

theorem wt_iter_history (c : Cfg) (comp : Bool) (t : BinWT.WT) (S : List Nat)
    (hget : ∀ i, i < S.length → BinWT.getUnchecked c comp t i = .ok (S.getD i 0)) (ops : List IterOp) :
    run (BinWT.getUnchecked c comp t) { i := 0, e := S.length } ops = specRun S ops :=
  wtiter_history _ S hget ops

/-- one-ended, index-driven iterators (`QVectorIterator`, `BitVectorIter`, `BitVectorIntoIter`): every
    history of `next` / `nth` / `count` / `last` calls from start index `0`, whenever the indexed
    read `get(i)` returns `S[i]?` -/
theorem fwditer_history (getO : Nat → M (Option Nat)) (S : List Nat)
    (hget : ∀ i, getO i = .ok S[i]?) (ops : List FwdOp) :
    fwdRun getO S.length 0 ops = specRun S (ops.map FwdOp.toIterOp) := by
  simpa using fwdRun_eq_spec getO S hget ops 0

/-- forward iteration yields `S[0], S[1], …` in order -/
theorem spec_forward (S : List Nat) :
    specRun S (List.replicate S.length .next) = S.map Out.some := by
  induction S with
  | nil => rfl
  | cons x xs ih => simp [List.replicate_succ, specRun, specStep, ih]

/-- backward iteration yields the elements in reverse order -/
theorem spec_backward (S : List Nat) :
    specRun S (List.replicate S.length .nextBack) = S.reverse.map Out.some := by
  generalize hn : S.length = n
  induction n generalizing S with
  | zero => simp [List.length_eq_zero_iff.mp hn, specRun]
  | succ n ih =>
    have hne : S ≠ [] := by intro h; simp [h] at hn
    obtain ⟨ys, y, rfl⟩ : ∃ ys y, S = ys ++ [y] := ⟨S.dropLast, S.getLast hne, (List.dropLast_concat_getLast hne).symm⟩
    have hlen : ys.length = n := by simpa using hn
    simp [List.replicate_succ, specRun, specStep, ih ys hlen]

/-- once exhausted, `next`/`next_back` keep returning `None` and `len` is 0 -/
theorem spec_exhausted (ops : List IterOp) :
    specRun [] ops = ops.map (fun op => match op with | .len | .count => Out.val 0 | _ => Out.none) := by
  induction ops with
  | nil => rfl
  | cons op ops ih => cases op <;> simp [specRun, specStep, ih]

/-- `nth(k)` yields `S[k]` and leaves `S[k+1..]`: what `skip(k)` / `step_by` rely on -/
theorem spec_nth (S : List Nat) (k : Nat) (ops : List IterOp) :
    specRun S (.nth k :: ops) =
      (match S[k]? with | some x => Out.some x | none => Out.none) :: specRun (S.drop (k + 1)) ops := rfl

/-- `nth_back(k)` yields the element `k` from the end and leaves everything before it -/
theorem spec_nthBack (S : List Nat) (k : Nat) (ops : List IterOp) :
    specRun S (.nthBack k :: ops) =
      (match S.reverse[k]? with | some x => Out.some x | none => Out.none) ::
        specRun (S.take (S.length - (k + 1))) ops := rfl

/-- `count` reports exactly the number of elements not yet yielded and exhausts the iterator -/
theorem spec_count (S : List Nat) (ops : List IterOp) :
    specRun S (.count :: ops) = Out.val S.length :: specRun [] ops := rfl

-- non-vacuity: a concrete history on a concrete sequence
example : specRun [7, 8, 9] [.next, .nextBack, .len, .next, .next, .len, .nextBack] =
    [Out.some 7, Out.some 9, Out.val 1, Out.some 8, Out.none, Out.val 0, Out.none] := by decide

example : specRun [7, 8, 9, 10, 11, 12] [.nth 1, .nthBack 1, .len, .last, .count, .nth 0] =
    [Out.some 8, Out.some 11, Out.val 2, Out.some 10, Out.val 0, Out.none] := by decide

end Qwt.Props.C12
