import Qwt.Proofs.CodecTree

/-!
# Property C11 — serialisation round trip

"Deserialising the bincode serialisation of any value succeeds and yields an equal value."

`Codec.encode (xVal x)` is the byte string `bincode::serialize(&x)` (checked byte for byte
against the real crate by the correspondence harness); `Codec.decode xTy` is the schema-directed
bincode reader and `xOfVal` rebuilds the structure from the serde data model.  For every
serialisable structure `X` of the crate:

  `roundtrip_X : xWF x → (decode xTy (encode (xVal x))).bind (fun p => xOfVal p.1) = some x`

where `xWF` states only what the Rust *types* already guarantee (every number fits its machine
width, `Box<[DataLine]>` consists of whole lines, fixed arrays have their fixed length).
The generic engine is `Codec.decode_encode` (`Qwt/Proofs/Codec.lean`).
-/
namespace Qwt.C11
open Qwt Qwt.Codec

/-- generic step: typed value + inverse of the value view ⇒ round trip through bytes -/
theorem roundtrip_of {α : Type} (v : Val) (t : Ty) (ofV : Val → Option α) (x : α)
    (hty : HasTy v t) (hof : ofV v = some x) :
    (decode t (encode v)).bind (fun p => ofV p.1) = some x := by
  rw [decode_encode_nil v t hty]; exact hof

/-- the same with trailing bytes: exactly the bytes of the value are consumed -/
theorem roundtrip_of_rest {α : Type} (v : Val) (t : Ty) (ofV : Val → Option α) (x : α)
    (rest : List Nat) (hty : HasTy v t) (hof : ofV v = some x) :
    (decode t (encode v ++ rest)).bind (fun p => (ofV p.1).map (fun y => (y, p.2))) =
      some (x, rest) := by
  rw [decode_encode v t rest hty]; simp [hof]

theorem roundtrip_QVector (q : QV.QVector) (h : qvWF q) :
    (decode qvTy (encode (qvVal q))).bind (fun p => qvOfVal p.1) = some q :=
  roundtrip_of _ _ _ _ (qvVal_hasTy q h) (qv_ofVal_toVal q h)

theorem roundtrip_BitVector (b : BV.BitVector) (h : bvWF b) :
    (decode bvTy (encode (bvVal b))).bind (fun p => bvOfVal p.1) = some b :=
  roundtrip_of _ _ _ _ (bvVal_hasTy b h) (bv_ofVal_toVal b h)

theorem roundtrip_RSSupportPlain (rs : RSQ.RSSupportPlain) (h : rssWF rs) :
    (decode rssTy (encode (rsSupportVal rs))).bind (fun p => rssOfVal p.1) = some rs :=
  roundtrip_of _ _ _ _ (rssVal_hasTy rs h) (rss_ofVal_toVal rs h)

theorem roundtrip_RSQVector (r : RSQ.RSQVector) (h : rsqWF r) :
    (decode rsqTy (encode (rsqVal r))).bind (fun p => rsqOfVal p.1) = some r :=
  roundtrip_of _ _ _ _ (rsqVal_hasTy r h) (rsq_ofVal_toVal r h)

theorem roundtrip_RSNarrow (r : RSN.RSNarrow) (h : rsnWF r) :
    (decode rsnTy (encode (rsnVal r))).bind (fun p => rsnOfVal p.1) = some r :=
  roundtrip_of _ _ _ _ (rsnVal_hasTy r h) (rsn_ofVal_toVal r h)

theorem roundtrip_RSWide (r : RSW.RSWide) (h : rswWF r) :
    (decode rswTy (encode (rswVal r))).bind (fun p => rswOfVal p.1) = some r :=
  roundtrip_of _ _ _ _ (rswVal_hasTy r h) (rsw_ofVal_toVal r h)

theorem roundtrip_Inventories (i : DA.Inventories) (h : invWF i) :
    (decode invTy (encode (invVal i))).bind (fun p => invOfVal p.1) = some i :=
  roundtrip_of _ _ _ _ (invVal_hasTy i h) (inv_ofVal_toVal i)

theorem roundtrip_DArray (d : DA.DArray) (h : daWF d) :
    (decode daTy (encode (daVal d))).bind (fun p => daOfVal p.1) = some d :=
  roundtrip_of _ _ _ _ (daVal_hasTy d h) (da_ofVal_toVal d h)

theorem roundtrip_PrefetchSupport (p : PFS.PrefetchSupport) (h : pfsWF p) :
    (decode pfsTy (encode (pfsVal p))).bind (fun q => pfsOfVal q.1) = some p :=
  roundtrip_of _ _ _ _ (pfsVal_hasTy p h) (pfs_ofVal_toVal p h)

/-- `wbytes = size_of::<T>()` of the symbol type `T` (1, 2, 4, 8 or 16) -/
theorem roundtrip_QWT (wbytes : Nat) (t : QWTree.QWT) (h : qwtWF wbytes t) :
    (decode (qwtTy wbytes) (encode (qwtVal wbytes t))).bind (fun p => qwtOfVal p.1) = some t :=
  roundtrip_of _ _ _ _ (qwtVal_hasTy wbytes t h) (qwt_ofVal_toVal wbytes t h)

theorem roundtrip_HQWT (wbytes : Nat) (t : Huff.HQWT) (h : hqwtWF wbytes t) :
    (decode (hqwtTy wbytes) (encode (hqwtVal wbytes t))).bind (fun p => hqwtOfVal p.1) = some t :=
  roundtrip_of _ _ _ _ (hqwtVal_hasTy wbytes t h) (hqwt_ofVal_toVal wbytes t h)

theorem roundtrip_WT (wbytes : Nat) (t : BinWT.WT) (h : wtWF wbytes t) :
    (decode (wtTy wbytes) (encode (wtVal wbytes t))).bind (fun p => wtOfVal p.1) = some t :=
  roundtrip_of _ _ _ _ (wtVal_hasTy wbytes t h) (wt_ofVal_toVal wbytes t h)

/-! ### "answers every query identically"

The decoded value is *equal* to the original model state, so every function of the state —
in particular every query of the model, with every argument — gives the same result. -/

theorem same_answers {α β : Type} {r : Option α} {x : α} (h : r = some x) (f : α → β) :
    r.map f = some (f x) := by rw [h]; rfl

theorem queries_QWT (wbytes : Nat) (t : QWTree.QWT) (h : qwtWF wbytes t) {β : Type}
    (query : QWTree.QWT → β) :
    ((decode (qwtTy wbytes) (encode (qwtVal wbytes t))).bind (fun p => qwtOfVal p.1)).map query =
      some (query t) :=
  same_answers (roundtrip_QWT wbytes t h) query

theorem queries_HQWT (wbytes : Nat) (t : Huff.HQWT) (h : hqwtWF wbytes t) {β : Type}
    (query : Huff.HQWT → β) :
    ((decode (hqwtTy wbytes) (encode (hqwtVal wbytes t))).bind (fun p => hqwtOfVal p.1)).map query =
      some (query t) :=
  same_answers (roundtrip_HQWT wbytes t h) query

theorem queries_WT (wbytes : Nat) (t : BinWT.WT) (h : wtWF wbytes t) {β : Type}
    (query : BinWT.WT → β) :
    ((decode (wtTy wbytes) (encode (wtVal wbytes t))).bind (fun p => wtOfVal p.1)).map query =
      some (query t) :=
  same_answers (roundtrip_WT wbytes t h) query

theorem queries_RSQVector (r : RSQ.RSQVector) (h : rsqWF r) {β : Type} (query : RSQ.RSQVector → β) :
    ((decode rsqTy (encode (rsqVal r))).bind (fun p => rsqOfVal p.1)).map query = some (query r) :=
  same_answers (roundtrip_RSQVector r h) query

theorem queries_RSNarrow (r : RSN.RSNarrow) (h : rsnWF r) {β : Type} (query : RSN.RSNarrow → β) :
    ((decode rsnTy (encode (rsnVal r))).bind (fun p => rsnOfVal p.1)).map query = some (query r) :=
  same_answers (roundtrip_RSNarrow r h) query

theorem queries_RSWide (r : RSW.RSWide) (h : rswWF r) {β : Type} (query : RSW.RSWide → β) :
    ((decode rswTy (encode (rswVal r))).bind (fun p => rswOfVal p.1)).map query = some (query r) :=
  same_answers (roundtrip_RSWide r h) query

theorem queries_DArray (d : DA.DArray) (h : daWF d) {β : Type} (query : DA.DArray → β) :
    ((decode daTy (encode (daVal d))).bind (fun p => daOfVal p.1)).map query = some (query d) :=
  same_answers (roundtrip_DArray d h) query

/-- two well-formed states with the same serialisation are equal -/
theorem serialize_injective_QWT (wbytes : Nat) (s t : QWTree.QWT) (hs : qwtWF wbytes s)
    (ht : qwtWF wbytes t) (h : encode (qwtVal wbytes s) = encode (qwtVal wbytes t)) : s = t := by
  have e1 := roundtrip_QWT wbytes s hs
  rw [h, roundtrip_QWT wbytes t ht] at e1
  exact (Option.some.inj e1).symm

/-! ### The empty / default structures are well-formed -/

example : qvWF {} := by decide
example : bvWF {} := by decide
example : rssWF {} := by decide
example : rsqWF {} := by decide
example : rsnWF {} := by decide
example : rswWF {} := by decide
example : invWF {} := by decide
example : daWF {} := by decide
example : pfsWF {} := by decide

theorem qwtWF_default (w : Nat) : qwtWF w {} :=
  ⟨by decide, by decide, Nat.pow_pos (by decide), by decide, by decide⟩

theorem hqwtWF_default (w : Nat) : hqwtWF w {} :=
  ⟨by decide, by decide, by decide, by simp [decWF, arrAll], by decide, by decide, by decide⟩

theorem wtWF_default (w : Nat) : wtWF w {} :=
  ⟨by decide, by decide, trivial, trivial, trivial, by decide, by decide⟩

/-! ### Concrete round trips, evaluated by the kernel -/

def exQV : QV.QVector := { data := #[1, 2, 3, 340282366920938463463374607431768211455], position := 7 }
def exBV : BV.BitVector :=
  { data := #[18446744073709551615, 0, 5, 0, 0, 0, 0, 9], nBits := 512, nOnes := 68 }
def exRSQ : RSQ.RSQVector :=
  { qv := exQV,
    rs := { superblocks := #[0, 0, 0, 0], selectSamples := #[#[0], #[0, 1], #[], #[4294967295]] },
    nOccsSmaller := #[0, 1, 2, 3, 7] }
def exRSN : RSN.RSNarrow := { bv := exBV, blockRankPairs := #[0, 68], selectSamples := #[#[0], #[0]] }
def exRSW : RSW.RSWide :=
  { bv := exBV, superblockMetadata := #[0, 1208925819614629174706176], selectSamples := #[#[0], #[0]],
    nZeros := 444 }
def exDA : DA.DArray :=
  { bv := exBV,
    ones := { nSets := 68, blockInventory := #[0, -3], subblockInventory := #[0, 65535],
              overflowPositions := #[1, 2, 3] },
    zeroes := some {} }
def exQWT : QWTree.QWT :=
  { n := 7, nLevels := 1, sigma := 3, qvs := #[exRSQ],
    pfs := some #[{ samples := #[exRSN, {}], sampleRateShift := 11 }] }
def exHQWT : Huff.HQWT :=
  { n := 7, nLevels := 1, codesEncode := #[{ content := 1, len := 2 }],
    codesDecode := #[#[(1, 0)], #[]], qvs := #[exRSQ], lens := #[7], pfs := none }
def exWT : BinWT.WT :=
  { n := 7, nLevels := 1, sigma := some 2, codesEncode := some #[{ content := 1, len := 2 }],
    codesDecode := none, bvs := #[exRSW], lens := #[7] }

example : qvWF exQV := by decide
example : rsqWF exRSQ := by decide
example : qwtWF 1 exQWT := by decide
example : hqwtWF 2 exHQWT := by decide
example : wtWF 4 exWT := by decide
example : daWF exDA := by decide

example : (decode qvTy (encode (qvVal exQV))).bind (fun p => qvOfVal p.1) = some exQV := by decide
example : (decode bvTy (encode (bvVal exBV))).bind (fun p => bvOfVal p.1) = some exBV := by decide
example : (decode rsqTy (encode (rsqVal exRSQ))).bind (fun p => rsqOfVal p.1) = some exRSQ := by
  decide
example : (decode rsnTy (encode (rsnVal exRSN))).bind (fun p => rsnOfVal p.1) = some exRSN := by
  decide
example : (decode rswTy (encode (rswVal exRSW))).bind (fun p => rswOfVal p.1) = some exRSW := by
  decide
example : (decode daTy (encode (daVal exDA))).bind (fun p => daOfVal p.1) = some exDA := by decide
example : (decode (qwtTy 1) (encode (qwtVal 1 exQWT))).bind (fun p => qwtOfVal p.1) = some exQWT := by
  decide
example : (decode (hqwtTy 2) (encode (hqwtVal 2 exHQWT))).bind (fun p => hqwtOfVal p.1) =
    some exHQWT := by decide
example : (decode (wtTy 4) (encode (wtVal 4 exWT))).bind (fun p => wtOfVal p.1) = some exWT := by
  decide

/-- the byte string itself (bincode layout): `u64` line count, 4 × `u128` LE, `u64` position -/
example : encode (qvVal { data := #[1, 2, 3, 4], position := 7 }) =
    [1,0,0,0,0,0,0,0,
     1,0,0,0,0,0,0,0,0,0,0,0,0,0,0,0,  2,0,0,0,0,0,0,0,0,0,0,0,0,0,0,0,
     3,0,0,0,0,0,0,0,0,0,0,0,0,0,0,0,  4,0,0,0,0,0,0,0,0,0,0,0,0,0,0,0,
     7,0,0,0,0,0,0,0] := by decide

/-- a value that is *not* well-formed (half a line) does not survive: `WF` is necessary -/
example : (decode qvTy (encode (qvVal { data := #[1, 2], position := 0 }))).bind
    (fun p => qvOfVal p.1) ≠ some { data := #[1, 2], position := 0 } := by decide

/-- truncated input is rejected, not mis-decoded -/
example : decode qvTy ((encode (qvVal exQV)).take 50) = none := by rfl

end Qwt.C11
