import Qwt.Props.C02
import Qwt.Props.C09
import Qwt.Proofs.PfsHuffTree

/-!
# C09 (Huffman-shaped quad wavelet tree) — `rank_prefetch = rank`, closed

`Qwt/Props/C02.lean` proves the tree half of C02 under `PfsTotalH c` (totality of
`PrefetchSupport::new` on pushed vectors) and `rank_prefetch = rank` as a `_partial` theorem with
the hypothesis "phase 1 does not fault".  Here both are discharged:

* `pfsTotalH c` holds for every configuration;
* the sampling structure of level `k` satisfies `PfsRep (digits of level k)` (`hqwt_pfs_levels`);
* the phase-1 estimate at level `k` is at most `true position + k` and the true position
  `blkStart k + cnt k i` is inside the (non-empty) level, so every `approx_rank_unchecked`
  unwraps a `Some` (`hqwt_pfsPhase1_ok`);
* hence `rank_prefetch = rank` for every symbol and position, both `pfs` settings.

`LevelLaw` is discharged by C05 + C17, so the only hypotheses left are about the
configuration (`B ∈ {256, 512}`, `W ≤ 64`) and the input (`S`, the code table).
-/
set_option linter.unusedVariables false

namespace Qwt.Props.C09
open Qwt Qwt.Huff
open Qwt.HQWM (HWM PfsLevelsQ)
open Qwt.Props.C02 (WMValid PfsTotalH LensOK)

/-- the totality premise of `Qwt/Props/C02.lean` holds for every configuration -/
theorem pfsTotalH (c : Cfg) : PfsTotalH c := HQWM.pfsTotalH c

section huff
variable (c : Cfg) (hB : c.B = 256 ∨ c.B = 512) (hW : c.W ≤ 64) (S : List Nat)
  (hne : S ≠ []) (hb : ∀ x ∈ S, x < 2 ^ c.W) (hS : S.length < 2 ^ 43) (lens : List (Nat × Nat))
  (codes : Array PrefixCode)
  (hcraft : Huff.craftWmCodes 4 lens (Utils.asUsize (Spec.maxNat S)) = .ok codes)
  (occ : List Nat) (hv : WMValid 4 codes occ) (hocc : ∀ s, s ∈ occ ↔ s ∈ S)
include hB hW hne hb hS hcraft hv hocc

/-- construction with or without prefetch support: no totality premise left -/
theorem hqwt_new_ok :
    ∃ t, Huff.new c S.toArray lens = .ok t ∧ HWM c S codes t ∧
      (c.pfs = true → PfsLevelsQ codes S t) := by
  obtain ⟨t, h1, h2, _, _⟩ := C02.hqwt_new_ok c hW (levelLaw c.dbg hB) (pfsTotalH c) S hne hb hS
    lens codes hcraft occ hv hocc
  exact ⟨t, h1, h2, fun hp => HQWM.new_pfsQ c hW (levelLaw c.dbg hB) S hne hb hS lens codes hcraft
    occ hv hocc h1 hp⟩

variable {t : HQWT} (ht : Huff.new c S.toArray lens = .ok t)
include ht

theorem hqwt_inv : HWM c S codes t :=
  C02.hqwt_inv c hW (levelLaw c.dbg hB) (pfsTotalH c) S hne hb hS lens codes hcraft occ hv hocc ht

/-- the sampling structures: one per level, `pfs[k]` describes the digit list of level `k` -/
theorem hqwt_pfs_levels (hp : c.pfs = true) :
    ∃ pfs, t.pfs = some pfs ∧ pfs.size = t.nLevels ∧
      ∀ j (h : j < pfs.size),
        PfsP.PfsRep (HQWM.digsQ (HQWM.qdig codes) (HQWM.qlen codes) j S) pfs[j] :=
  HQWM.new_pfsQ c hW (levelLaw c.dbg hB) S hne hb hS lens codes hcraft occ hv hocc ht hp

/-- estimation phase 1 never faults (every occurring symbol, every position `i ≤ |S|`) -/
theorem hqwt_pfsPhase1_ok (sym i : Nat) (hs : sym ∈ S) (hi : i ≤ S.length) :
    Huff.pfsPhase1 c t codes[sym]! i = .ok () :=
  HQWM.inv_phase1 (hqwt_inv c hB hW S hne hb hS lens codes hcraft occ hv hocc ht)
    (fun hp => HQWM.new_pfsQ c hW (levelLaw c.dbg hB) S hne hb hS lens codes hcraft occ hv hocc ht hp)
    hs i hi

/-- `rank_prefetch = rank`: every configuration, every symbol, every position -/
theorem hqwt_rankPrefetch_eq_rank (sym i : Nat) :
    Huff.rankPrefetch c t sym i = Huff.rank c t sym i :=
  HQWM.inv_rankPrefetch (hqwt_inv c hB hW S hne hb hS lens codes hcraft occ hv hocc ht)
    (fun hp => HQWM.new_pfsQ c hW (levelLaw c.dbg hB) S hne hb hS lens codes hcraft occ hv hocc ht hp)
    sym i

theorem hqwt_rankPrefetch_ok (sym i : Nat) :
    Huff.rankPrefetch c t sym i =
      .ok (if sym ∈ S ∧ i ≤ S.length then some (Spec.rank sym i S) else none) := by
  rw [hqwt_rankPrefetch_eq_rank c hB hW S hne hb hS lens codes hcraft occ hv hocc ht]
  exact C02.hqwt_rank_ok c hW (levelLaw c.dbg hB) (pfsTotalH c) S hne hb hS lens codes hcraft occ
    hv hocc ht sym i

end huff

/-- the composed corollary: for every near-complete length table enumerating the symbols of
    `S` (every order), construction succeeds and `rank_prefetch` answers like the list
    specification — with prefetch support as well -/
theorem hqwt_prefetch_correct (c : Cfg) (hB : c.B = 256 ∨ c.B = 512) (hW : c.W ≤ 64)
    (S : List Nat) (hne : S ≠ []) (hb : ∀ x ∈ S, x < 2 ^ c.W) (hS : S.length < 2 ^ 43)
    (lens : List (Nat × Nat)) (hlens : LensOK 4 lens)
    (hsyms : ∀ s, s ∈ lens.map (·.1) ↔ s ∈ S) :
    ∃ t, Huff.new c S.toArray lens = .ok t ∧
      (∀ sym i, Huff.rankPrefetch c t sym i = Huff.rank c t sym i) ∧
      (∀ sym i, Huff.rankPrefetch c t sym i =
        .ok (if sym ∈ S ∧ i ≤ S.length then some (Spec.rank sym i S) else none)) := by
  obtain ⟨codes, t, hcraft, hv, ht, _⟩ := C02.hqwt_correct c hW (levelLaw c.dbg hB) (pfsTotalH c) S
    hne hb hS lens hlens hsyms
  exact ⟨t, ht,
    fun sym i => hqwt_rankPrefetch_eq_rank c hB hW S hne hb hS lens codes hcraft _ hv hsyms ht sym i,
    fun sym i => hqwt_rankPrefetch_ok c hB hW S hne hb hS lens codes hcraft _ hv hsyms ht sym i⟩

/-- the empty sequence (no sampling structure is built; `rank_prefetch` answers `None`) -/
theorem hqwt_prefetch_empty (c : Cfg) (lens : List (Nat × Nat)) {t : HQWT}
    (ht : Huff.new c #[] lens = .ok t) (sym i : Nat) :
    Huff.rankPrefetch c t sym i = Huff.rank c t sym i := by
  obtain ⟨_, _, _, h1, h2, _⟩ := C02.hqwt_empty c lens ht sym i
  rw [h1, h2]

/-! ## non-vacuity -/

/-- the hypotheses of `hqwt_prefetch_correct` are satisfiable with `pfs = true`: the 7-symbol
    table with three one-digit and four two-digit codes … -/
example : LensOK 4 [(0, 1), (1, 1), (2, 1), (3, 2), (4, 2), (5, 2), (6, 2)] :=
  ⟨by decide, by decide, by decide, by decide, by decide⟩

example : ∀ s, s ∈ [(0, 1), (1, 1), (2, 1), (3, 2), (4, 2), (5, 2), (6, 2)].map (·.1) ↔
    s ∈ [0, 0, 0, 1, 1, 2, 3, 4, 5, 6, 0, 3] := by
  intro s; simp; omega

/-- … instantiating the theorem on it (the tree of the evaluation examples in `C09.lean`) -/
example : ∃ t, Huff.new { pfs := true, W := 8 } [0, 0, 0, 1, 1, 2, 3, 4, 5, 6, 0, 3].toArray
      [(0, 1), (1, 1), (2, 1), (3, 2), (4, 2), (5, 2), (6, 2)] = .ok t ∧
    Huff.rankPrefetch { pfs := true, W := 8 } t 3 12 = .ok (some 2) := by
  obtain ⟨t, ht, _, h⟩ := hqwt_prefetch_correct { pfs := true, W := 8 } (Or.inl rfl) (by decide)
    [0, 0, 0, 1, 1, 2, 3, 4, 5, 6, 0, 3] (by decide) (by decide) (by decide)
    [(0, 1), (1, 1), (2, 1), (3, 2), (4, 2), (5, 2), (6, 2)]
    ⟨by decide, by decide, by decide, by decide, by decide⟩
    (by intro s; simp; omega)
  refine ⟨t, ht, ?_⟩
  rw [h]; decide

end Qwt.Props.C09
