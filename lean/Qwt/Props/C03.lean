import Qwt.Proofs.BinWMNew
import Qwt.Proofs.BinHWMInv

/-!
# C03 — the binary wavelet matrix `WT` (plain variant, `compressed = false`)

`BinWT.new` succeeds on every sequence of `W`-bit values shorter than `2^43` and the tree it
returns answers `get` / `rank` / `select` exactly like the list specifications
`S[i]?`, `Spec.rank`, `Spec.select`; a symbol outside the alphabet (`> max S`) is never
confused with another one; on the empty sequence every query is `.ok none`.

All theorems are under the hypothesis `BinLevelLaw` ("the level constructor `RSW.mkLevel`
yields a rank/select structure representing its bits", discharged by C06/C08) and go through
the representation invariant `BinWM.WMb c S t`, which `wt_new_ok` establishes for the tree
built by `BinWT.new`.

Proof structure (`Qwt/Proofs/BinWM*.lean`): list-level wavelet matrix and its block invariant
(`BinWM.blk`, `walk_step`, `track_get`, `selUp_spec`), simulation of the model loops
(`rankWalk_ok`, `go_ok`, `selectDown_ok`, `selectUp_ok`), construction (`levels_loop`, `new_ok`).

## 6. the Huffman-shaped variant `HWT` (`compressed = true`)

Section `huffman` below: under the explicit hypothesis that the code table returned by
`craftWmCodes` is valid (`C02.WMValid 2 codes occ`, with `occ` listing exactly the symbols of
`S`; definition shared with C02, `Qwt/Proofs/CraftDefs.lean`) and `W ≤ 64`, `new` succeeds and
`get` / `rank` / `select` agree with the list specification, with `none` for every symbol
without a code (= not occurring in `S`).  Proof files `Qwt/Proofs/BinHWM*.lean`: list-level
Huffman matrix (`HOK`, `blkH`, `walk_stepH`, `selUpH_spec`, `track_getH`/`track_endH`),
`hok_of_valid` (WMValid ⇒ HOK via sortedness of every level under the bit-reversed prefix),
simulation (`rankWalkH_ok`, `goH_ok`, …), decode tables (`decodeTables_ok`), construction
(`levels_loopH`, `new_okH`).
-/
namespace Qwt.Props.C03
open Qwt Qwt.BinWT Qwt.BinWM

/-! ## 1. construction -/

/-- `new` succeeds and establishes the invariant; size, alphabet bound and number of levels
    are the specified ones -/
theorem wt_new_ok (c : Cfg) (hW : 0 < c.W) (hL : BinLevelLaw) (S : List Nat)
    (hb : ∀ x ∈ S, x < 2 ^ c.W) (hS : S.length < 2 ^ 43) :
    ∃ t, BinWT.new c false S.toArray [] = .ok t ∧ WMb c S t ∧ t.n = S.length ∧
      (S ≠ [] → t.sigma = some (Spec.maxNat S) ∧ t.nLevels = Spec.bitlen (Spec.maxNat S)) := by
  obtain ⟨t, h1, h2⟩ := new_ok c hW hL S hb hS
  exact ⟨t, h1, h2, h2.n_eq, fun hne => ⟨h2.sigma_eq hne, h2.nLevels_eq hne⟩⟩

/-- the invariant holds for *the* tree returned by `new` -/
theorem wt_inv (c : Cfg) (hW : 0 < c.W) (hL : BinLevelLaw) (S : List Nat)
    (hb : ∀ x ∈ S, x < 2 ^ c.W) (hS : S.length < 2 ^ 43) {t : WT}
    (ht : BinWT.new c false S.toArray [] = .ok t) : WMb c S t := by
  obtain ⟨t', h1, h2⟩ := new_ok c hW hL S hb hS
  rw [h1] at ht; cases ht; exact h2

/-! ## queries, from the invariant -/

section inv
variable {c : Cfg} {S : List Nat} {t : WT}

theorem lt_pow_levels (h : WMb c S t) (hne : S ≠ []) {x : Nat} (hx : x ≤ Spec.maxNat S) :
    x < 2 ^ t.nLevels := by
  rw [h.nLevels_eq hne]
  exact Nat.lt_of_le_of_lt hx (lt_two_pow_bitlen _)

theorem mem_lt_pow_levels (h : WMb c S t) {x : Nat} (hx : x ∈ S) : x < 2 ^ t.nLevels :=
  lt_pow_levels h (List.ne_nil_of_mem hx) (le_maxNat hx)

theorem empty_sigma (h : WMb c S t) (he : S = []) : t.sigma = none ∧ t.n = 0 := by
  rw [h.empty he]; exact ⟨rfl, rfl⟩

/-! ### 2. get -/

theorem inv_getUnchecked (h : WMb c S t) (i : Nat) (hi : i < S.length) :
    BinWT.getUnchecked c false t i = .ok S[i] := by
  have hne : S ≠ [] := by intro e; rw [e] at hi; simp at hi
  have hmem : S[i] ∈ S := List.getElem_mem hi
  exact getUnchecked_ok c (h.levels hne) rfl S[i] i (List.getElem?_eq_getElem hi)
    (h.bound _ hmem) (mem_lt_pow_levels h hmem)

theorem inv_get (h : WMb c S t) (i : Nat) : BinWT.get c false t i = .ok S[i]? := by
  unfold BinWT.get
  rw [h.n_eq]
  by_cases hi : i < S.length
  · rw [if_neg (by omega), inv_getUnchecked h i hi, List.getElem?_eq_getElem hi]; rfl
  · rw [if_pos (by omega), List.getElem?_eq_none (by omega)]; rfl

/-! ### 3. rank -/

theorem agree_levels (h : WMb c S t) {sym : Nat} (hsym : sym < 2 ^ t.nLevels) (l : List Nat)
    (hl : ∀ x ∈ l, x ∈ S) :
    ∀ x ∈ l, agree (bitAt t.nLevels) sym t.nLevels x = (x == sym) :=
  fun x hx => agree_eq_beq _ _ _ hsym (mem_lt_pow_levels h (hl x hx))

theorem inv_rankWalk (h : WMb c S t) (hne : S ≠ []) {sym : Nat} (hsym : sym < 2 ^ t.nLevels)
    (i : Nat) (hi : i ≤ S.length) :
    ∃ p, rankWalk t sym t.nLevels t.nLevels 0 i 0 = .ok (p + Spec.rank sym i S, p) := by
  have hw := rankWalk_ok (h.levels hne) sym i t.nLevels 0 (by omega)
  rw [cnt_zero _ _ _ _ hi] at hw
  simp only [blkStart, Nat.zero_add] at hw
  refine ⟨blkStart (bitAt t.nLevels) sym S t.nLevels, ?_⟩
  rw [hw]
  congr 3
  unfold cnt Spec.rank
  exact countP_eq_count _ _ _ (agree_levels h hsym _ (fun x hx => List.mem_of_mem_take hx))

/-- `rank_unchecked` for any symbol that fits in the `nLevels` bits of the tree -/
theorem inv_rankUnchecked (h : WMb c S t) (hne : S ≠ []) (sym i : Nat)
    (hsym : sym < 2 ^ Spec.bitlen (Spec.maxNat S)) (hi : i ≤ S.length) :
    BinWT.rankUnchecked c false t sym i = .ok (Spec.rank sym i S) := by
  rw [← h.nLevels_eq hne] at hsym
  obtain ⟨p, hp⟩ := inv_rankWalk h hne hsym i hi
  unfold BinWT.rankUnchecked
  simp only [Bool.false_eq_true, if_false, pure_bind', hp, ok_bind]
  rw [sub_ok _ _ (by omega), Nat.add_sub_cancel_left]

theorem inv_rank (h : WMb c S t) (sym i : Nat) :
    BinWT.rank c false t sym i =
      .ok (if S ≠ [] ∧ sym ≤ Spec.maxNat S ∧ i ≤ S.length then some (Spec.rank sym i S)
           else none) := by
  unfold BinWT.rank reprOf
  rw [h.n_eq]
  simp only [Bool.false_eq_true, if_false]
  by_cases hi : i ≤ S.length
  · have hi' : ¬ i > S.length := by omega
    by_cases hne : S ≠ []
    · by_cases hs : sym ≤ Spec.maxNat S
      · obtain ⟨p, hp⟩ := inv_rankWalk h hne (lt_pow_levels h hne hs) i hi
        have hc : S ≠ [] ∧ sym ≤ Spec.maxNat S ∧ i ≤ S.length := ⟨hne, hs, hi⟩
        have hs' : ¬ sym > Spec.maxNat S := by omega
        simp only [if_pos hc, if_neg hi', h.sigma_eq hne, if_neg hs', pure_bind', hp, ok_bind]
        rw [sub_ok _ _ (by omega), Nat.add_sub_cancel_left]; rfl
      · have hc : ¬ (S ≠ [] ∧ sym ≤ Spec.maxNat S ∧ i ≤ S.length) := fun h' => hs h'.2.1
        have hs' : sym > Spec.maxNat S := by omega
        simp only [if_neg hc, if_neg hi', h.sigma_eq hne, if_pos hs', pure_bind']
        rfl
    · have he : S = [] := by simpa using hne
      have hc : ¬ (S ≠ [] ∧ sym ≤ Spec.maxNat S ∧ i ≤ S.length) := fun h' => hne h'.1
      simp only [if_neg hc, if_neg hi', (empty_sigma h he).1, pure_bind']
      rfl
  · have hc : ¬ (S ≠ [] ∧ sym ≤ Spec.maxNat S ∧ i ≤ S.length) := fun h' => hi h'.2.2
    have hi' : i > S.length := by omega
    simp only [if_neg hc, if_pos hi']
    rfl

/-! ### 4. select -/

theorem inv_select (h : WMb c S t) (sym k : Nat) :
    BinWT.select c false t sym k =
      .ok (if S ≠ [] ∧ sym ≤ Spec.maxNat S then Spec.select sym k S else none) := by
  unfold BinWT.select reprOf
  simp only [Bool.false_eq_true, if_false]
  by_cases hne : S ≠ []
  · by_cases hs : sym ≤ Spec.maxNat S
    · have hsym := lt_pow_levels h hne hs
      have hlv := h.levels hne
      have hd := selectDown_ok hlv hne sym t.nLevels 0 (by omega)
      simp only [blkStart, pathOf] at hd
      have hlen : S.length < two64 := Nat.lt_trans h.len_lt (by unfold two64; omega)
      have hu := selectUp_ok hlv hlen sym t.nLevels k (Nat.le_refl _)
      have hL1 : t.nLevels ≠ 0 := by rw [h.nLevels_eq hne]; unfold Spec.bitlen; omega
      rw [selUp_spec _ _ _ _ _ (fun h0 => absurd h0 hL1),
        select_map_eq _ sym S (agree_levels h hsym S (fun _ hx => hx))] at hu
      have hc : S ≠ [] ∧ sym ≤ Spec.maxNat S := ⟨hne, hs⟩
      have hs' : ¬ sym > Spec.maxNat S := by omega
      simp only [if_pos hc, h.sigma_eq hne, if_neg hs', pure_bind', hd, ok_bind, hu]
    · have hc : ¬ (S ≠ [] ∧ sym ≤ Spec.maxNat S) := fun h' => hs h'.2
      have hs' : sym > Spec.maxNat S := by omega
      simp only [if_neg hc, h.sigma_eq hne, if_pos hs', pure_bind']
      rfl
  · have he : S = [] := by simpa using hne
    have hc : ¬ (S ≠ [] ∧ sym ≤ Spec.maxNat S) := fun h' => hne h'.1
    simp only [if_neg hc, (empty_sigma h he).1, pure_bind']
    rfl

end inv

/-! ## the theorems for the tree built by `new` -/

section main
variable (c : Cfg) (hW : 0 < c.W) (hL : BinLevelLaw) (S : List Nat)
  (hb : ∀ x ∈ S, x < 2 ^ c.W) (hS : S.length < 2 ^ 43) {t : WT}
  (ht : BinWT.new c false S.toArray [] = .ok t)
include hW hL hb hS ht

/-- 2. `get` -/
theorem wt_get_ok (i : Nat) : BinWT.get c false t i = .ok S[i]? :=
  inv_get (wt_inv c hW hL S hb hS ht) i

theorem wt_getUnchecked_ok (i : Nat) (hi : i < S.length) :
    BinWT.getUnchecked c false t i = .ok S[i] :=
  inv_getUnchecked (wt_inv c hW hL S hb hS ht) i hi

/-- 3. `rank` (the hypothesis `sym < 2^W` of the task statement is not needed) -/
theorem wt_rank_ok (sym i : Nat) :
    BinWT.rank c false t sym i =
      .ok (if S ≠ [] ∧ sym ≤ Spec.maxNat S ∧ i ≤ S.length then some (Spec.rank sym i S)
           else none) :=
  inv_rank (wt_inv c hW hL S hb hS ht) sym i

/-- `rank_unchecked` under its precondition (valid symbol, `i ≤ n`) -/
theorem wt_rankUnchecked_ok (sym i : Nat) (hsym : sym ≤ Spec.maxNat S) (hi : i ≤ S.length)
    (hne : S ≠ []) : BinWT.rankUnchecked c false t sym i = .ok (Spec.rank sym i S) :=
  inv_rankUnchecked (wt_inv c hW hL S hb hS ht) hne sym i
    (Nat.lt_of_le_of_lt hsym (lt_two_pow_bitlen _)) hi

/-- `rank_unchecked` is even safe for every symbol that fits in the `nLevels` bits -/
theorem wt_rankUnchecked_ok' (sym i : Nat) (hsym : sym < 2 ^ Spec.bitlen (Spec.maxNat S))
    (hi : i ≤ S.length) (hne : S ≠ []) :
    BinWT.rankUnchecked c false t sym i = .ok (Spec.rank sym i S) :=
  inv_rankUnchecked (wt_inv c hW hL S hb hS ht) hne sym i hsym hi

/-- 4. `select` (the hypotheses `sym < 2^W`, `k < 2^64` of the task statement are not needed) -/
theorem wt_select_ok (sym k : Nat) :
    BinWT.select c false t sym k =
      .ok (if S ≠ [] ∧ sym ≤ Spec.maxNat S then Spec.select sym k S else none) :=
  inv_select (wt_inv c hW hL S hb hS ht) sym k

/-- a symbol outside the alphabet is never confused with another one -/
theorem wt_no_confusion (sym k : Nat) (hsym : sym > Spec.maxNat S) :
    BinWT.select c false t sym k = .ok none := by
  have hc : ¬ (S ≠ [] ∧ sym ≤ Spec.maxNat S) := fun h => by omega
  rw [wt_select_ok c hW hL S hb hS ht, if_neg hc]

theorem wt_selectUnchecked_ok (sym k p : Nat) (hsym : sym ≤ Spec.maxNat S)
    (hp : Spec.select sym k S = some p) : BinWT.selectUnchecked c false t sym k = .ok p := by
  have hne : S ≠ [] := by intro e; rw [e] at hp; simp [Spec.select] at hp
  unfold BinWT.selectUnchecked
  rw [wt_select_ok c hW hL S hb hS ht, if_pos ⟨hne, hsym⟩, hp]; rfl

end main

/-! ## 5. the empty sequence -/

section empty
variable (c : Cfg) {t : WT} (ht : BinWT.new c false #[] [] = .ok t)
include ht

theorem wt_empty_eq : t = {} := by cases ht; rfl

theorem wt_empty_get (i : Nat) : BinWT.get c false t i = .ok none := by
  cases ht; rfl

theorem wt_empty_rank (sym i : Nat) : BinWT.rank c false t sym i = .ok none := by
  cases ht
  unfold BinWT.rank reprOf
  by_cases hi : i > 0
  · simp [hi]; rfl
  · have : ¬ i > ({} : WT).n := hi
    simp only [this, if_false]; rfl

theorem wt_empty_select (sym k : Nat) : BinWT.select c false t sym k = .ok none := by
  cases ht; rfl

end empty

/-! ## 6. the Huffman-shaped variant -/

section huffman
open Qwt.Huff (PrefixCode)
open Qwt.Props.C02 (WMValid)

variable (c : Cfg) (hW : c.W ≤ 64) (hL : BinLevelLaw) (S : List Nat) (hne : S ≠ [])
  (hb : ∀ x ∈ S, x < 2 ^ c.W) (hS : S.length < 2 ^ 43) (lens : List (Nat × Nat))
  (codes : Array PrefixCode)
  (hcraft : Huff.craftWmCodes 2 lens (Utils.asUsize (Spec.maxNat S)) = .ok codes)
  (occ : List Nat) (hv : WMValid 2 codes occ) (hocc : ∀ s, s ∈ occ ↔ s ∈ S)
include hW hL hne hb hS hcraft hv hocc

/-- construction succeeds on every valid code table; the tree stores that table -/
theorem hwt_new_ok :
    ∃ t, BinWT.new c true S.toArray lens = .ok t ∧ HWMb c S codes t ∧ t.n = S.length ∧
      t.codesEncode = some codes ∧ t.sigma = none := by
  obtain ⟨t, h1, h2⟩ := new_okH c hW hL S hne hb hS lens codes hcraft occ hv hocc
  exact ⟨t, h1, h2, h2.n_eq, h2.codes_eq, h2.sigma_eq⟩

variable {t : WT} (ht : BinWT.new c true S.toArray lens = .ok t)
include ht

theorem hwt_inv : HWMb c S codes t := by
  obtain ⟨t', h1, h2⟩ := new_okH c hW hL S hne hb hS lens codes hcraft occ hv hocc
  rw [h1] at ht; cases ht; exact h2

theorem hwt_get_ok (i : Nat) : BinWT.get c true t i = .ok S[i]? :=
  invH_get (hwt_inv c hW hL S hne hb hS lens codes hcraft occ hv hocc ht) i

theorem hwt_getUnchecked_ok (i : Nat) (hi : i < S.length) :
    BinWT.getUnchecked c true t i = .ok S[i] :=
  invH_getUnchecked (hwt_inv c hW hL S hne hb hS lens codes hcraft occ hv hocc ht) i hi

/-- `rank`: `none` for every symbol that does not occur (it has no code) -/
theorem hwt_rank_ok (sym i : Nat) :
    BinWT.rank c true t sym i =
      .ok (if sym ∈ S ∧ i ≤ S.length then some (Spec.rank sym i S) else none) :=
  invH_rank (hwt_inv c hW hL S hne hb hS lens codes hcraft occ hv hocc ht) sym i

theorem hwt_rankUnchecked_ok (sym i : Nat) (hs : sym ∈ S) (hi : i ≤ S.length) :
    BinWT.rankUnchecked c true t sym i = .ok (Spec.rank sym i S) :=
  invH_rankUnchecked (hwt_inv c hW hL S hne hb hS lens codes hcraft occ hv hocc ht) sym i hs hi

theorem hwt_select_ok (sym k : Nat) :
    BinWT.select c true t sym k = .ok (if sym ∈ S then Spec.select sym k S else none) :=
  invH_select (hwt_inv c hW hL S hne hb hS lens codes hcraft occ hv hocc ht) sym k

/-- a symbol that does not occur is never confused with another one (whatever its size) -/
theorem hwt_no_confusion (sym k : Nat) (hs : sym ∉ S) :
    BinWT.select c true t sym k = .ok none := by
  rw [hwt_select_ok c hW hL S hne hb hS lens codes hcraft occ hv hocc ht, if_neg hs]

end huffman

/-- the empty sequence, Huffman-shaped variant -/
theorem hwt_empty (c : Cfg) (lens : List (Nat × Nat)) {t : WT}
    (ht : BinWT.new c true #[] lens = .ok t) (sym i : Nat) :
    t = {} ∧ BinWT.get c true t i = .ok none ∧ BinWT.rank c true t sym i = .ok none ∧
      BinWT.select c true t sym i = .ok none := by
  cases ht
  refine ⟨rfl, rfl, ?_, rfl⟩
  unfold BinWT.rank reprOf
  by_cases hi : i > 0
  · simp [hi]; rfl
  · have : ¬ i > ({} : WT).n := hi
    simp only [this, if_false]; rfl

/-! ## non-vacuity and concrete evaluation -/

section examples

/-- a 3-level sequence (`max = 7`, `bitlen 7 = 3`) over `u8` -/
def exS : List Nat := [5, 1, 4, 1, 7, 2]
def exC : Cfg := { W := 8 }

/-- the hypotheses of the theorems (other than `BinLevelLaw`) hold for it -/
example : 0 < exC.W ∧ (∀ x ∈ exS, x < 2 ^ exC.W) ∧ exS.length < 2 ^ 43 ∧
    Spec.bitlen (Spec.maxNat exS) = 3 := by decide

/-- the theorems instantiate on it -/
example (hL : BinLevelLaw) : ∃ t, BinWT.new exC false exS.toArray [] = .ok t ∧
    t.nLevels = 3 ∧ t.sigma = some 7 ∧
    BinWT.get exC false t 4 = .ok (some 7) ∧
    BinWT.rank exC false t 1 5 = .ok (some 2) ∧
    BinWT.select exC false t 1 1 = .ok (some 3) ∧
    BinWT.select exC false t 6 0 = .ok none ∧
    BinWT.select exC false t 8 0 = .ok none := by
  obtain ⟨t, ht, -, -, hs⟩ := wt_new_ok exC (by decide) hL exS (by decide) (by decide)
  have hne : exS ≠ [] := by decide
  refine ⟨t, ht, (hs hne).2, (hs hne).1, ?_, ?_, ?_, ?_, ?_⟩
  · rw [wt_get_ok exC (by decide) hL exS (by decide) (by decide) ht]; rfl
  · rw [wt_rank_ok exC (by decide) hL exS (by decide) (by decide) ht]; exact congrArg Except.ok (by decide)
  · rw [wt_select_ok exC (by decide) hL exS (by decide) (by decide) ht]; exact congrArg Except.ok (by decide)
  · rw [wt_select_ok exC (by decide) hL exS (by decide) (by decide) ht]; exact congrArg Except.ok (by decide)
  · exact wt_no_confusion exC (by decide) hL exS (by decide) (by decide) ht 8 0 (by decide)

/-- the model itself, evaluated (no hypothesis): every `get`, `rank`, `select` on the tiny
    tree agrees with the list specification, including out-of-alphabet symbols -/
example : (List.range 8).all (fun i =>
    Out.ofOpt (do let t ← BinWT.new exC false exS.toArray []; BinWT.get exC false t i)
      == Out.ofOpt (.ok exS[i]?)) = true := by decide +kernel

example : (List.range 10).all (fun sym => (List.range 8).all (fun i =>
    Out.ofOpt (do let t ← BinWT.new exC false exS.toArray []; BinWT.rank exC false t sym i)
      == Out.ofOpt (.ok (if exS ≠ [] ∧ sym ≤ Spec.maxNat exS ∧ i ≤ exS.length
            then some (Spec.rank sym i exS) else none)))) = true := by decide +kernel

example : (List.range 10).all (fun sym => (List.range 8).all (fun k =>
    Out.ofOpt (do let t ← BinWT.new exC false exS.toArray []; BinWT.select exC false t sym k)
      == Out.ofOpt (.ok (if exS ≠ [] ∧ sym ≤ Spec.maxNat exS
            then Spec.select sym k exS else none)))) = true := by decide +kernel

/-! ### Huffman-shaped variant -/

open Qwt.Huff (PrefixCode) in
open Qwt.Props.C02 (WMValid digits revLex) in
/-- a decidable criterion for `WMValid 2` (the quantifiers over all naturals are bounded by
    the table size, the level `L` is determined by the length of the ending code) -/
theorem wmvalid_of_check (codes : Array PrefixCode) (occ : List Nat)
    (h1 : ∀ s ∈ occ, s < codes.size ∧ codes[s]!.len ≠ 0)
    (h2 : ∀ s, s < codes.size → s ∉ occ → codes[s]!.len = 0)
    (h3 : ∀ x ∈ occ, ∀ y ∈ occ, x ≠ y → ¬ (digits 2 codes[x]! <+: digits 2 codes[y]!))
    (h4 : ∀ x ∈ occ, ∀ y ∈ occ, codes[y]!.len < codes[x]!.len →
      revLex 2 ((digits 2 codes[x]!).take codes[y]!.len) < revLex 2 (digits 2 codes[y]!))
    (h5 : ∀ s, s < codes.size → codes[s]!.len ≤ 32 ∧ codes[s]!.content < 2 ^ codes[s]!.len) :
    WMValid 2 codes occ := by
  have hout : ∀ s, ¬ s < codes.size → codes[s]! = default := by
    intro s hs
    rw [getElem!_def, Array.getElem?_eq_none (by omega)]
  refine ⟨h1, ?_, h3, ?_, ?_⟩
  · intro s hs
    by_cases hlt : s < codes.size
    · exact h2 s hlt hs
    · rw [hout s hlt]; rfl
  · intro x hx y hy L hy1 hx1
    rw [digits_length] at hy1 hx1
    have := h4 x hx y hy (by omega)
    rw [hy1] at this; exact this
  · intro s
    by_cases hlt : s < codes.size
    · exact ⟨(h5 s hlt).1, by rw [bitsOf_two]; exact Nat.one_dvd _, (h5 s hlt).2⟩
    · rw [hout s hlt]
      exact ⟨by decide, by rw [bitsOf_two]; exact Nat.one_dvd _, by decide⟩

/-- a 3-level Huffman-shaped example: symbols 1..4 with code lengths 1, 2, 3, 3 -/
def exHS : List Nat := [1, 2, 1, 3, 1, 4, 2, 1]
def exLens : List (Nat × Nat) := [(4, 3), (2, 2), (1, 1), (3, 3)]
def exCodes : Array Huff.PrefixCode := #[⟨0, 0⟩, ⟨1, 1⟩, ⟨1, 2⟩, ⟨0, 3⟩, ⟨1, 3⟩]

theorem ok_of_check {α : Type} [DecidableEq α] {x : M α} {v : α}
    (h : (match x with | .ok a => decide (a = v) | .error _ => false) = true) : x = .ok v := by
  cases x with
  | ok a => simp only [decide_eq_true_eq] at h; rw [h]
  | error e => cases h

theorem exCraft : Huff.craftWmCodes 2 exLens (Utils.asUsize (Spec.maxNat exHS)) = .ok exCodes :=
  ok_of_check (by decide +kernel)

/-- the code table that `craftWmCodes` returns for it is valid -/
theorem exCodes_valid : C02.WMValid 2 exCodes [1, 2, 3, 4] :=
  wmvalid_of_check exCodes [1, 2, 3, 4] (by decide) (by decide) (by decide) (by decide) (by decide)

/-- all hypotheses of the Huffman theorems (other than `BinLevelLaw`) are satisfiable -/
example (hL : BinLevelLaw) : ∃ t, BinWT.new exC true exHS.toArray exLens = .ok t ∧
    t.codesEncode = some exCodes ∧
    BinWT.get exC true t 5 = .ok (some 4) ∧
    BinWT.rank exC true t 2 7 = .ok (some 2) ∧
    BinWT.select exC true t 1 3 = .ok (some 7) ∧
    BinWT.select exC true t 0 0 = .ok none ∧
    BinWT.select exC true t 5 0 = .ok none := by
  have hcraft := exCraft
  have hocc : ∀ s, s ∈ [1, 2, 3, 4] ↔ s ∈ exHS := by
    intro s; simp only [exHS, List.mem_cons, List.not_mem_nil, or_false]; omega
  obtain ⟨t, ht, -, -, hc, -⟩ := hwt_new_ok exC (by decide) hL exHS (by decide) (by decide)
    (by decide) exLens exCodes hcraft _ exCodes_valid hocc
  refine ⟨t, ht, hc, ?_, ?_, ?_, ?_, ?_⟩
  · rw [hwt_get_ok exC (by decide) hL exHS (by decide) (by decide) (by decide) exLens exCodes
      hcraft _ exCodes_valid hocc ht]; rfl
  · rw [hwt_rank_ok exC (by decide) hL exHS (by decide) (by decide) (by decide) exLens exCodes
      hcraft _ exCodes_valid hocc ht]; exact congrArg Except.ok (by decide)
  · rw [hwt_select_ok exC (by decide) hL exHS (by decide) (by decide) (by decide) exLens exCodes
      hcraft _ exCodes_valid hocc ht]; exact congrArg Except.ok (by decide)
  · exact hwt_no_confusion exC (by decide) hL exHS (by decide) (by decide) (by decide) exLens
      exCodes hcraft _ exCodes_valid hocc ht 0 0 (by decide)
  · exact hwt_no_confusion exC (by decide) hL exHS (by decide) (by decide) (by decide) exLens
      exCodes hcraft _ exCodes_valid hocc ht 5 0 (by decide)

/-- the model itself, evaluated: the Huffman-shaped tree agrees with the specification -/
example : (List.range 10).all (fun i =>
    Out.ofOpt (do let t ← BinWT.new exC true exHS.toArray exLens; BinWT.get exC true t i)
      == Out.ofOpt (.ok exHS[i]?)) = true := by decide +kernel

example : (List.range 7).all (fun sym => (List.range 10).all (fun i =>
    Out.ofOpt (do let t ← BinWT.new exC true exHS.toArray exLens; BinWT.rank exC true t sym i)
      == Out.ofOpt (.ok (if sym ∈ exHS ∧ i ≤ exHS.length
            then some (Spec.rank sym i exHS) else none)))) = true := by decide +kernel

example : (List.range 7).all (fun sym => (List.range 6).all (fun k =>
    Out.ofOpt (do let t ← BinWT.new exC true exHS.toArray exLens; BinWT.select exC true t sym k)
      == Out.ofOpt (.ok (if sym ∈ exHS then Spec.select sym k exHS else none)))) = true := by
  decide +kernel

/-- the empty tree -/
example : BinWT.new exC false #[] [] = .ok {} := rfl
example : BinWT.select exC false {} 0 0 = .ok none := rfl

end examples

end Qwt.Props.C03
