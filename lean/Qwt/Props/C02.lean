import Qwt.Props.C02Craft
import Qwt.Proofs.HQWMBits

/-!
# C02 — the Huffman-shaped quad wavelet matrix `HuffQWaveletTree` (`src/quadwt/huffqwt.rs`,
model `Qwt.Huff.HQWT`) answers `get` / `rank` / `select` like the plain sequence

The code-construction half of the property (`craft_wm_codes` never faults on near-complete
lengths and returns a table that is `WMValid 4`) is in `Qwt/Props/C02Craft.lean`.  This file is
the tree half: for EVERY valid code table (`WMValid 4 codes occ`, `occ` = the symbols of `S`)
`Huff.new` succeeds and the tree answers every query like the list specification; composed
with `craft_no_fault` / `craft_valid` this gives `hqwt_correct` for every order of the length
table `lens` (every `HashMap` iteration order, every tie order) and every near-complete table.

Hypotheses (`c : Cfg`, `S : List Nat`):

* `hW   : c.W ≤ 64`                      the model narrows symbols with `as usize`
* `hb   : ∀ x ∈ S, x < 2 ^ c.W`          the elements fit the element type
* `hS   : S.length < 2 ^ 43`             the documented length limit of `RSQVector`
* `hL   : LevelLaw c.dbg c.B`            every level constructor yields a representing
                                         rank/select quad vector (C05/C13)
* `hP   : PfsTotalH c`                   only when `c.pfs = true`: `PrefetchSupport::new` is
                                         total on vectors produced by pushes (trivial for
                                         `c.pfs = false`: `pfsTotalH_of_false`)
* `hcraft`, `hv`, `hocc`                 the crafted table is valid for the symbols of `S`

Proof structure (`Qwt/Proofs/HQWM*.lean`, arity-4 mirror of `BinHWM*.lean`):
`HQWM.lean` list-level Huffman quad matrix (`lvlQ`, `QOK`, block invariant `blkQ`,
`walk_stepQ`), `HQWMSelect.lean` (`selUpQ_spec`, `track_getQ` / `track_endQ`),
`HQWMValid.lean` (`qok_of_valid`: `WMValid 4` ⇒ `QOK`), `HQWMSim.lean` (model loops over
`RSQ.Represents`), `HQWMNew.lean` (constructor), `HQWMInv.lean` (invariant `HWM`, queries),
`HQWMBits.lean` (size of the level data).
-/
set_option linter.unusedVariables false

namespace Qwt.Props.C02
open Qwt Qwt.Huff
open Qwt.HQWM (HWM)

/-! ## 1. construction -/

section main
variable (c : Cfg) (hW : c.W ≤ 64) (hL : LevelLaw c.dbg c.B) (hP : PfsTotalH c) (S : List Nat)
  (hne : S ≠ []) (hb : ∀ x ∈ S, x < 2 ^ c.W) (hS : S.length < 2 ^ 43) (lens : List (Nat × Nat))
  (codes : Array PrefixCode)
  (hcraft : Huff.craftWmCodes 4 lens (Utils.asUsize (Spec.maxNat S)) = .ok codes)
  (occ : List Nat) (hv : WMValid 4 codes occ) (hocc : ∀ s, s ∈ occ ↔ s ∈ S)
include hW hL hP hne hb hS hcraft hv hocc

/-- construction succeeds on every valid code table and establishes the invariant `HWM`
    (level `k` represents the digit list of the live elements, `t.lens[k]` is their number,
    the decode tables are `decodeTables codes maxLen`); the tree stores that table -/
theorem hqwt_new_ok :
    ∃ t, Huff.new c S.toArray lens = .ok t ∧ HWM c S codes t ∧ t.n = S.length ∧
      t.codesEncode = codes := by
  obtain ⟨t, h1, h2⟩ := HQWM.new_okQ c hW hL hP S hne hb hS lens codes hcraft occ hv hocc
  exact ⟨t, h1, h2, h2.n_eq, h2.codes_eq⟩

variable {t : HQWT} (ht : Huff.new c S.toArray lens = .ok t)
include ht

/-- the invariant holds for *the* tree returned by `new` -/
theorem hqwt_inv : HWM c S codes t := by
  obtain ⟨t', h1, h2⟩ := HQWM.new_okQ c hW hL hP S hne hb hS lens codes hcraft occ hv hocc
  rw [h1] at ht; cases ht; exact h2

/-- number of levels and decode tables of the tree -/
theorem hqwt_shape :
    t.nLevels = HQWM.maxLenOf codes / 2 ∧ t.qvs.size = t.nLevels ∧ t.lens.size = t.nLevels ∧
      t.codesDecode = decodeTables codes (HQWM.maxLenOf codes) ∧ (c.pfs = false → t.pfs = none) := by
  have h := hqwt_inv c hW hL hP S hne hb hS lens codes hcraft occ hv hocc ht
  exact ⟨h.nLevels_eq, h.levels.size_eq, h.levels.lens_size, h.dec_eq, h.pfs_none⟩

/-! ## 2. get -/

theorem hqwt_get_ok (i : Nat) : Huff.get c t i = .ok S[i]? :=
  HQWM.inv_get (hqwt_inv c hW hL hP S hne hb hS lens codes hcraft occ hv hocc ht) i

theorem hqwt_getUnchecked_ok (i : Nat) (hi : i < S.length) :
    Huff.getUnchecked c t i = .ok S[i] :=
  HQWM.inv_getUnchecked (hqwt_inv c hW hL hP S hne hb hS lens codes hcraft occ hv hocc ht) i hi

/-! ## 3. rank -/

/-- `rank`, for every `sym` (also `sym ≥ 2^64`) and every `i`: `none` exactly for the symbols
    that do not occur (they have no code) and for `i > n` -/
theorem hqwt_rank_ok (sym i : Nat) :
    Huff.rank c t sym i =
      .ok (if sym ∈ S ∧ i ≤ S.length then some (Spec.rank sym i S) else none) :=
  HQWM.inv_rank (hqwt_inv c hW hL hP S hne hb hS lens codes hcraft occ hv hocc ht) sym i

theorem hqwt_rankUnchecked_ok (sym i : Nat) (hs : sym ∈ S) (hi : i ≤ S.length) :
    Huff.rankUnchecked c t sym i = .ok (Spec.rank sym i S) :=
  HQWM.inv_rankUnchecked (hqwt_inv c hW hL hP S hne hb hS lens codes hcraft occ hv hocc ht)
    sym i hs hi

/-! ## 4. select -/

theorem hqwt_select_ok (sym k : Nat) :
    Huff.select c t sym k = .ok (if sym ∈ S then Spec.select sym k S else none) :=
  HQWM.inv_select (hqwt_inv c hW hL hP S hne hb hS lens codes hcraft occ hv hocc ht) sym k

/-- a symbol that does not occur is never confused with another one (whatever its size) -/
theorem hqwt_no_confusion (sym k : Nat) (hs : sym ∉ S) :
    Huff.select c t sym k = .ok none := by
  rw [hqwt_select_ok c hW hL hP S hne hb hS lens codes hcraft occ hv hocc ht, if_neg hs]

theorem hqwt_selectUnchecked_ok (sym k p : Nat) (hp : Spec.select sym k S = some p) :
    Huff.selectUnchecked c t sym k = .ok p := by
  have hs : sym ∈ S := by
    apply Classical.byContradiction
    intro hns
    have : S.count sym = 0 := List.count_eq_zero.mpr hns
    rw [BinWM.select_none (by omega)] at hp
    cases hp
  unfold Huff.selectUnchecked
  rw [hqwt_select_ok c hW hL hP S hne hb hS lens codes hcraft occ hv hocc ht, if_pos hs, hp]
  rfl

/-! ## 6. size of the level data -/

/-- the levels store, in total, one two-bit symbol per element and code fragment:
    `2 · Σ_k lens[k] = Σ_{x ∈ S} len(code x)` (in bits) -/
theorem hqwt_level_bits :
    2 * t.lens.toList.sum = (S.map (fun x => codes[x]!.len)).sum :=
  HQWM.inv_level_bits (hqwt_inv c hW hL hP S hne hb hS lens codes hcraft occ hv hocc ht)

/-! ## 7. rank_prefetch -/

/-- PARTIAL (with prefetch support): `rank_prefetch` answers like `rank` provided estimation
    phase 1 — the sampled counters of `PrefetchSupport`, outside this property — does not fault
    on in-range arguments.  Phase 2 (block counters) is proved fault-free here. -/
theorem hqwt_rankPrefetch_eq_rank_partial (sym i : Nat)
    (hph1 : c.pfs = true → sym ∈ S → i ≤ S.length →
      Huff.pfsPhase1 c t codes[sym]! i = .ok ()) :
    Huff.rankPrefetch c t sym i = Huff.rank c t sym i :=
  HQWM.inv_rankPrefetch_partial
    (hqwt_inv c hW hL hP S hne hb hS lens codes hcraft occ hv hocc ht) sym i hph1

/-- without prefetch support `rank_prefetch` runs only estimation phase 2, which never faults,
    and then answers like `rank` -/
theorem hqwt_rankPrefetch_eq_rank (hpfs : c.pfs = false) (sym i : Nat) :
    Huff.rankPrefetch c t sym i = Huff.rank c t sym i :=
  hqwt_rankPrefetch_eq_rank_partial c hW hL hP S hne hb hS lens codes hcraft occ hv hocc ht sym i
    (fun h => by rw [hpfs] at h; cases h)

theorem hqwt_rankPrefetch_ok (hpfs : c.pfs = false) (sym i : Nat) :
    Huff.rankPrefetch c t sym i =
      .ok (if sym ∈ S ∧ i ≤ S.length then some (Spec.rank sym i S) else none) := by
  rw [hqwt_rankPrefetch_eq_rank c hW hL hP S hne hb hS lens codes hcraft occ hv hocc ht hpfs]
  exact hqwt_rank_ok c hW hL hP S hne hb hS lens codes hcraft occ hv hocc ht sym i

end main

/-! ## 5. the empty sequence -/

/-- on the empty sequence every query answers `None` -/
theorem hqwt_empty (c : Cfg) (lens : List (Nat × Nat)) {t : HQWT}
    (ht : Huff.new c #[] lens = .ok t) (sym i : Nat) :
    t.n = 0 ∧ t.nLevels = 0 ∧ Huff.get c t i = .ok none ∧ Huff.rank c t sym i = .ok none ∧
      Huff.rankPrefetch c t sym i = .ok none ∧ Huff.select c t sym i = .ok none := by
  unfold Huff.new at ht
  have he : (#[] : Array Nat).isEmpty = true := rfl
  simp only [he, if_true] at ht
  obtain ⟨d, _, ht⟩ := HQWM.bind_ok_inv ht
  cases ht
  have hcode : codeOf { n := 0, nLevels := 0, qvs := #[d], lens := #[0] } sym = none := by
    unfold codeOf
    split
    · rfl
    · simp
  refine ⟨rfl, rfl, rfl, ?_, ?_, ?_⟩
  · unfold Huff.rank
    by_cases hi : i > 0
    · simp only [hi, if_true]; rfl
    · simp only [hi, if_false, hcode]; rfl
  · unfold Huff.rankPrefetch
    by_cases hi : i > 0
    · simp only [hi, if_true]; rfl
    · simp only [hi, if_false, hcode]; rfl
  · unfold Huff.select
    simp only [hcode]
    rfl

/-- under `LevelLaw` the construction on the empty sequence succeeds -/
theorem hqwt_empty_new_ok (c : Cfg) (hL : LevelLaw c.dbg c.B) (lens : List (Nat × Nat)) :
    ∃ t, Huff.new c #[] lens = .ok t := by
  refine ⟨{ n := 0, nLevels := 0, qvs := #[QWTree.dfltRSQ], lens := #[0] }, ?_⟩
  simp [Huff.new, QWTree.default_ok (QWTree.levelLaw_B hL), bind, Except.bind, pure, Except.pure]

/-! ## the composed corollary: every order of the length table -/

/-- For EVERY near-complete length table `lens` (`LensOK 4`, in particular duplicate-free) that
    enumerates exactly the symbols of `S` — in any order, hence for every `HashMap` iteration
    order and every tie order of the stable sort — `craft_wm_codes` succeeds, `new` succeeds
    and the tree answers `get` / `rank` / `select` like the list specification. -/
theorem hqwt_correct (c : Cfg) (hW : c.W ≤ 64) (hL : LevelLaw c.dbg c.B) (hP : PfsTotalH c)
    (S : List Nat) (hne : S ≠ []) (hb : ∀ x ∈ S, x < 2 ^ c.W) (hS : S.length < 2 ^ 43)
    (lens : List (Nat × Nat)) (hlens : LensOK 4 lens)
    (hsyms : ∀ s, s ∈ lens.map (·.1) ↔ s ∈ S) :
    ∃ codes t, Huff.craftWmCodes 4 lens (Utils.asUsize (Spec.maxNat S)) = .ok codes ∧
      WMValid 4 codes (lens.map (·.1)) ∧
      Huff.new c S.toArray lens = .ok t ∧ HWM c S codes t ∧
      (∀ i, Huff.get c t i = .ok S[i]?) ∧
      (∀ sym i, Huff.rank c t sym i =
        .ok (if sym ∈ S ∧ i ≤ S.length then some (Spec.rank sym i S) else none)) ∧
      (∀ sym k, Huff.select c t sym k = .ok (if sym ∈ S then Spec.select sym k S else none)) ∧
      (∀ p ∈ lens, codes[p.1]!.len = 2 * p.2) ∧
      2 * t.lens.toList.sum = (S.map (fun x => codes[x]!.len)).sum := by
  have hmax : Spec.maxNat S < two64 := BinWM.lt_two64 hW (QWTree.maxNat_lt hb)
  have hsig : Utils.asUsize (Spec.maxNat S) = Spec.maxNat S := Nat.mod_eq_of_lt hmax
  have hs : ∀ p ∈ lens, p.1 ≤ Utils.asUsize (Spec.maxNat S) := by
    intro p hp
    rw [hsig]
    exact QWTree.le_maxNat ((hsyms p.1).mp (List.mem_map.mpr ⟨p, hp, rfl⟩))
  obtain ⟨codes, hcraft⟩ := craft_no_fault (Or.inl rfl) hlens hs
  have hv := craft_valid (Or.inl rfl) hlens hs hcraft
  have hlen := (craft_lens (Or.inl rfl) hlens hs hcraft).2.1
  obtain ⟨t, ht, hinv, _, _⟩ :=
    hqwt_new_ok c hW hL hP S hne hb hS lens codes hcraft _ hv hsyms
  refine ⟨codes, t, hcraft, hv, ht, hinv,
    fun i => HQWM.inv_get hinv i, fun sym i => HQWM.inv_rank hinv sym i,
    fun sym k => HQWM.inv_select hinv sym k, ?_, HQWM.inv_level_bits hinv⟩
  intro p hp
  rw [hlen p hp]; rfl

/-! ## non-vacuity and concrete evaluation -/

section examples

/-- a 3-level Huffman-shaped example over `u8`: ten symbols with code lengths (in fragments)
    1,1,1,2,2,2,3,3,3,3 (a complete quad tree), given in an order that interleaves them -/
def exS : List Nat := [0, 1, 2, 3, 4, 5, 6, 7, 8, 9, 0, 3, 1, 0, 2, 9]
def exLens : List (Nat × Nat) :=
  [(0,1), (1,2), (2,3), (3,1), (4,2), (5,3), (6,1), (7,2), (8,3), (9,3)]
def exC : Cfg := { W := 8 }
def exCodes : Array PrefixCode :=
  #[⟨3, 2⟩, ⟨3, 4⟩, ⟨3, 6⟩, ⟨2, 2⟩, ⟨2, 4⟩, ⟨2, 6⟩, ⟨1, 2⟩, ⟨1, 4⟩, ⟨1, 6⟩, ⟨0, 6⟩]

/-- the hypotheses of `hqwt_correct` (other than `LevelLaw`) hold for it -/
theorem exLensOK : LensOK 4 exLens := ⟨by decide, by decide, by decide, by decide, by decide⟩

theorem exSyms : ∀ s, s ∈ exLens.map (·.1) ↔ s ∈ exS := by
  intro s
  simp only [exLens, exS, List.map_cons, List.map_nil, List.mem_cons, List.not_mem_nil, or_false]
  omega

example : exC.W ≤ 64 ∧ exS ≠ [] ∧ (∀ x ∈ exS, x < 2 ^ exC.W) ∧ exS.length < 2 ^ 43 ∧
    PfsTotalH exC := ⟨by decide, by decide, by decide, by decide, pfsTotalH_of_false rfl⟩

/-- the table `craft_wm_codes` returns for it (evaluated) … -/
theorem exCraft : Huff.craftWmCodes 4 exLens (Utils.asUsize (Spec.maxNat exS)) = .ok exCodes := by
  decide +kernel

/-- … is valid, through the theorem of `C02Craft` -/
theorem exCodes_valid : WMValid 4 exCodes (exLens.map (·.1)) :=
  craft_valid (Or.inl rfl) exLensOK (by decide) exCraft

/-- the theorems instantiate on it: a tree with three levels holding 16, 10 and 6 symbols -/
example (hL : LevelLaw exC.dbg exC.B) : ∃ t, Huff.new exC exS.toArray exLens = .ok t ∧
    t.codesEncode = exCodes ∧ t.nLevels = 3 ∧ 2 * t.lens.toList.sum = 64 ∧
    Huff.get exC t 8 = .ok (some 8) ∧
    Huff.rank exC t 0 14 = .ok (some 3) ∧
    Huff.rank exC t 10 3 = .ok none ∧
    Huff.select exC t 9 1 = .ok (some 15) ∧
    Huff.select exC t 9 2 = .ok none ∧
    Huff.select exC t (2 ^ 64 + 1) 0 = .ok none ∧
    Huff.rankPrefetch exC t 3 12 = .ok (some 2) := by
  have hP : PfsTotalH exC := pfsTotalH_of_false rfl
  obtain ⟨t, ht, -, -, hc⟩ := hqwt_new_ok exC (by decide) hL hP exS (by decide) (by decide)
    (by decide) exLens exCodes exCraft _ exCodes_valid exSyms
  have hsh := hqwt_shape exC (by decide) hL hP exS (by decide) (by decide)
    (by decide) exLens exCodes exCraft _ exCodes_valid exSyms ht
  refine ⟨t, ht, hc, ?_, ?_, ?_, ?_, ?_, ?_, ?_, ?_, ?_⟩
  · rw [hsh.1]; decide
  · rw [hqwt_level_bits exC (by decide) hL hP exS (by decide) (by decide)
      (by decide) exLens exCodes exCraft _ exCodes_valid exSyms ht]; decide
  · rw [hqwt_get_ok exC (by decide) hL hP exS (by decide) (by decide)
      (by decide) exLens exCodes exCraft _ exCodes_valid exSyms ht]; rfl
  · rw [hqwt_rank_ok exC (by decide) hL hP exS (by decide) (by decide)
      (by decide) exLens exCodes exCraft _ exCodes_valid exSyms ht]; exact congrArg Except.ok (by decide)
  · rw [hqwt_rank_ok exC (by decide) hL hP exS (by decide) (by decide)
      (by decide) exLens exCodes exCraft _ exCodes_valid exSyms ht]; exact congrArg Except.ok (by decide)
  · rw [hqwt_select_ok exC (by decide) hL hP exS (by decide) (by decide)
      (by decide) exLens exCodes exCraft _ exCodes_valid exSyms ht]; exact congrArg Except.ok (by decide)
  · rw [hqwt_select_ok exC (by decide) hL hP exS (by decide) (by decide)
      (by decide) exLens exCodes exCraft _ exCodes_valid exSyms ht]; exact congrArg Except.ok (by decide)
  · exact hqwt_no_confusion exC (by decide) hL hP exS (by decide) (by decide)
      (by decide) exLens exCodes exCraft _ exCodes_valid exSyms ht _ 0 (by decide)
  · rw [hqwt_rankPrefetch_ok exC (by decide) hL hP exS (by decide) (by decide)
      (by decide) exLens exCodes exCraft _ exCodes_valid exSyms ht rfl]
    exact congrArg Except.ok (by decide)

/-- the composed corollary instantiates on it (no hypothesis on the code table left) -/
example (hL : LevelLaw exC.dbg exC.B) : ∃ codes t,
    Huff.craftWmCodes 4 exLens (Utils.asUsize (Spec.maxNat exS)) = .ok codes ∧
    Huff.new exC exS.toArray exLens = .ok t ∧ ∀ i, Huff.get exC t i = .ok exS[i]? := by
  obtain ⟨codes, t, h1, -, h2, -, h3, -⟩ := hqwt_correct exC (by decide) hL
    (pfsTotalH_of_false rfl) exS (by decide) (by decide) (by decide) exLens exLensOK exSyms
  exact ⟨codes, t, h1, h2, h3⟩

/-- the list-level matrix of the example: live elements and digit lists of the three levels -/
example : (List.range 3).map (fun k => HQWM.digsQ (HQWM.qdig exCodes) (HQWM.qlen exCodes) k exS) =
    [[3, 0, 0, 2, 0, 0, 1, 0, 0, 0, 3, 2, 0, 3, 0, 0],
     [3, 0, 2, 0, 1, 0, 0, 3, 0, 0],
     [3, 2, 1, 0, 3, 0]] := by decide

example : (List.range 3).map (fun k => HQWM.lvlQ (HQWM.qdig exCodes) (HQWM.qlen exCodes) k exS) =
    [[0, 1, 2, 3, 4, 5, 6, 7, 8, 9, 0, 3, 1, 0, 2, 9], [1, 2, 4, 5, 7, 8, 9, 1, 2, 9],
     [2, 5, 8, 9, 2, 9]] := by decide

/-- the model itself, evaluated (no hypothesis): every `get`, `rank`, `select`, `rank_prefetch`
    on the tiny tree agrees with the list specification, including symbols without a code -/
example : (List.range 18).all (fun i =>
    Out.ofOpt (do let t ← Huff.new exC exS.toArray exLens; Huff.get exC t i)
      == Out.ofOpt (.ok exS[i]?)) = true := by decide +kernel

example : (List.range 12).all (fun sym => (List.range 18).all (fun i =>
    Out.ofOpt (do let t ← Huff.new exC exS.toArray exLens; Huff.rank exC t sym i)
      == Out.ofOpt (.ok (if sym ∈ exS ∧ i ≤ exS.length
            then some (Spec.rank sym i exS) else none)))) = true := by decide +kernel

example : (List.range 12).all (fun sym => (List.range 18).all (fun i =>
    Out.ofOpt (do let t ← Huff.new exC exS.toArray exLens; Huff.rankPrefetch exC t sym i)
      == Out.ofOpt (.ok (if sym ∈ exS ∧ i ≤ exS.length
            then some (Spec.rank sym i exS) else none)))) = true := by decide +kernel

example : (List.range 12).all (fun sym => (List.range 5).all (fun k =>
    Out.ofOpt (do let t ← Huff.new exC exS.toArray exLens; Huff.select exC t sym k)
      == Out.ofOpt (.ok (if sym ∈ exS then Spec.select sym k exS else none)))) = true := by
  decide +kernel

/-- a different order of the same length table (another `HashMap` iteration order) gives a
    different code table but the same answers -/
example : (List.range 18).all (fun i =>
    Out.ofOpt (do let t ← Huff.new exC exS.toArray exLens.reverse; Huff.get exC t i)
      == Out.ofOpt (.ok exS[i]?)) = true := by decide +kernel

/-- the empty tree -/
example : (do let t ← Huff.new exC #[] []; Huff.select exC t 0 0) = .ok none := by decide +kernel

end examples

end Qwt.Props.C02
