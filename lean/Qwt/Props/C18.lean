import Qwt.Model.QWT
import Qwt.Model.Huff
import Qwt.Model.BinWT
import Qwt.Model.DArray
import Qwt.Model.Codec

/-! C18 — queries are pure; structures can be shared across threads.

In the model every query is a *function* of the (immutable) state, so a system of threads
querying one shared value is the transition system below, whose state never changes.
`schedule_independent` says that under EVERY interleaving each thread obtains exactly the
answers a single thread obtains; `state_unchanged` says the value (hence its serialised
form) is the same after any batch.  What ties this to the Rust code is checked, not proved:
the harness' compile-time `Send + Sync` assertions, the source scan for interior mutability,
the byte-identical `bincode` form before/after query batches and the 16-thread stress run. -/
namespace Qwt.Props.C18
open Qwt

/-- an event of the concurrent system: thread `tid` issues query `q` -/
structure Ev (Q : Type) where
  tid : Nat
  q : Q

/-- run a schedule (any interleaving of the threads' queries) against a shared state whose
    queries are answered by the pure function `answer` -/
def runSched {S Q O : Type} (answer : S → Q → O) : S → List (Ev Q) → S × List (Nat × O)
  | s, [] => (s, [])
  | s, e :: es =>
    let r := runSched answer s es
    (r.1, (e.tid, answer s e.q) :: r.2)

theorem state_unchanged {S Q O : Type} (answer : S → Q → O) (s : S) (sched : List (Ev Q)) :
    (runSched answer s sched).1 = s := by
  induction sched with
  | nil => rfl
  | cons e es ih => simpa [runSched] using ih

/-- the answers thread `t` receives under an arbitrary schedule are the answers it would
    receive running alone on its own queries, in its own order -/
theorem schedule_independent {S Q O : Type} (answer : S → Q → O) (s : S) (sched : List (Ev Q)) (t : Nat) :
    ((runSched answer s sched).2.filter (fun p => p.1 == t)).map (·.2) =
      ((sched.filter (fun e => e.tid == t)).map (fun e => answer s e.q)) := by
  induction sched with
  | nil => rfl
  | cons e es ih =>
    by_cases h : e.tid == t <;> simp [runSched, h, ih]

/-- two schedules that give thread `t` the same queries in the same order give it the same answers -/
theorem interleaving_irrelevant {S Q O : Type} (answer : S → Q → O) (s : S) (σ₁ σ₂ : List (Ev Q)) (t : Nat)
    (h : (σ₁.filter (fun e => e.tid == t)).map (·.q) = (σ₂.filter (fun e => e.tid == t)).map (·.q)) :
    ((runSched answer s σ₁).2.filter (fun p => p.1 == t)).map (·.2) =
      ((runSched answer s σ₂).2.filter (fun p => p.1 == t)).map (·.2) := by
  rw [schedule_independent, schedule_independent]
  have e1 : (σ₁.filter (fun e => e.tid == t)).map (fun e => answer s e.q)
      = ((σ₁.filter (fun e => e.tid == t)).map (·.q)).map (answer s) := by simp [List.map_map, Function.comp_def]
  have e2 : (σ₂.filter (fun e => e.tid == t)).map (fun e => answer s e.q)
      = ((σ₂.filter (fun e => e.tid == t)).map (·.q)).map (answer s) := by simp [List.map_map, Function.comp_def]
  rw [e1, e2, h]

/-- the queries of the quad wavelet tree, as one pure answer function -/
inductive TreeQ where
  | get (i : Nat) | rank (c i : Nat) | select (c k : Nat) | rankPrefetch (c i : Nat)

def answerQWT (c : Cfg) (t : QWTree.QWT) : TreeQ → Out
  | .get i => Out.ofOpt (QWTree.get c t i)
  | .rank s i => Out.ofOpt (QWTree.rank c t s i)
  | .select s k => Out.ofOpt (QWTree.select c t s k)
  | .rankPrefetch s i => Out.ofOpt (QWTree.rankPrefetch c t s i)

def answerHQWT (c : Cfg) (t : Huff.HQWT) : TreeQ → Out
  | .get i => Out.ofOpt (Huff.get c t i)
  | .rank s i => Out.ofOpt (Huff.rank c t s i)
  | .select s k => Out.ofOpt (Huff.select c t s k)
  | .rankPrefetch s i => Out.ofOpt (Huff.rankPrefetch c t s i)

def answerWT (c : Cfg) (comp : Bool) (t : BinWT.WT) : TreeQ → Out
  | .get i => Out.ofOpt (BinWT.get c comp t i)
  | .rank s i => Out.ofOpt (BinWT.rank c comp t s i)
  | .select s k => Out.ofOpt (BinWT.select c comp t s k)
  | .rankPrefetch s i => Out.ofOpt (BinWT.rank c comp t s i)

/-- C18 for the quad wavelet tree model: any interleaving, same answers, same bytes -/
theorem qwt_shared (c : Cfg) (wbytes : Nat) (t : QWTree.QWT) (sched : List (Ev TreeQ)) (tid : Nat) :
    ((runSched (answerQWT c) t sched).2.filter (fun p => p.1 == tid)).map (·.2)
      = ((sched.filter (fun e => e.tid == tid)).map (fun e => answerQWT c t e.q))
    ∧ Codec.encode (Codec.qwtVal wbytes (runSched (answerQWT c) t sched).1) = Codec.encode (Codec.qwtVal wbytes t) := by
  refine ⟨schedule_independent _ _ _ _, ?_⟩
  rw [state_unchanged]

theorem hqwt_shared (c : Cfg) (wbytes : Nat) (t : Huff.HQWT) (sched : List (Ev TreeQ)) (tid : Nat) :
    ((runSched (answerHQWT c) t sched).2.filter (fun p => p.1 == tid)).map (·.2)
      = ((sched.filter (fun e => e.tid == tid)).map (fun e => answerHQWT c t e.q))
    ∧ Codec.encode (Codec.hqwtVal wbytes (runSched (answerHQWT c) t sched).1) = Codec.encode (Codec.hqwtVal wbytes t) := by
  refine ⟨schedule_independent _ _ _ _, ?_⟩
  rw [state_unchanged]

theorem wt_shared (c : Cfg) (comp : Bool) (wbytes : Nat) (t : BinWT.WT) (sched : List (Ev TreeQ)) (tid : Nat) :
    ((runSched (answerWT c comp) t sched).2.filter (fun p => p.1 == tid)).map (·.2)
      = ((sched.filter (fun e => e.tid == tid)).map (fun e => answerWT c comp t e.q))
    ∧ Codec.encode (Codec.wtVal wbytes (runSched (answerWT c comp) t sched).1) = Codec.encode (Codec.wtVal wbytes t) := by
  refine ⟨schedule_independent _ _ _ _, ?_⟩
  rw [state_unchanged]

-- non-vacuity: two threads, three events, on a concrete answer function
example : (runSched (fun (s : Nat) (q : Nat) => s + q) 10 [⟨0, 1⟩, ⟨1, 5⟩, ⟨0, 2⟩]).2 = [(0, 11), (1, 15), (0, 12)] := by decide

end Qwt.Props.C18
