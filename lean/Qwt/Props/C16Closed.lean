import Qwt.Props.C16
import Qwt.Proofs.SpaceSizes

/-! C16, closed — `usage` (the transcription of `space_usage_byte`) against `heap + size_of_val`
for the remaining structures, and the hypotheses `selectSamples.size = 4 / 2` of `qwt_close`,
`wt_close` discharged for every tree built by `new` (no hypothesis on the input at all: the
shape lemmas of `Qwt/Proofs/SpaceSizes.lean` follow the construction path).

* vectors: `usage = heap + self_` (`RSWide`: 8 bytes short)                — `Props/C16.lean`
* sampling structure: `usage = heap`                                      — `pfs_exact`
* quad tree with prefetch support: `usage + 32·L = heap + 16`             — `qwt_pfs_exact`
  (the `Vec<PrefetchSupport>` of capacity `L` is not counted)
* every quad tree built by `new`: `usage + (32·L if pfs) = heap + 16`      — `qwt_close_new`
* every binary tree built by `new`: `usage + 8·L = heap + 16`              — `wt_close_new`
* Huffman quad tree: `usage + tables (+ 32·L) = heap + 16 + 2048 + 5·entries` — `hqwt_exact`
  hence `|usage − (heap + 16)| ≤ 2048 + 5·entries + 32·L + 8·|enc| + 24·|dec| + e·(2·entries + 4·|dec|)`
  with `|enc| = σ + 1`, `|dec| = maxLen + 1`, `entries ≤ σ + 1`, `e = max 8 (2·size_of T)` — `hqwt_close`
* Huffman binary tree: `usage + 8·L + tables = heap + 16 + 2048 + 5·|dec|`  — `hwt_exact` -/
namespace Qwt.Props.C16
open Qwt Qwt.Space Qwt.SpaceSizes

/-! ### the sampling structure of the prefetch support -/

theorem sum_rsn (l : List RSN.RSNarrow) (h : ∀ r ∈ l, r.selectSamples.size = 2) :
    ((l.map rsn).map (·.usage)).sum = ((l.map rsn).map (·.heap)).sum + 80 * l.length := by
  induction l with
  | nil => simp
  | cons x xs ih =>
    have hx := rsn_usage x (h x (by simp))
    have := ih (fun r hr => h r (by simp [hr]))
    have hs : (rsn x).self_ = 80 := rfl
    simp only [List.map_cons, List.sum_cons, List.length_cons] at *
    omega

/-- `PrefetchSupport`: the reported bytes are exactly the heap bytes (four `RSNarrow` headers of
    80 bytes in the boxed slice, plus their buffers) -/
theorem pfs_exact (p : PFS.PrefetchSupport) (h2 : ∀ r ∈ p.samples.toList, r.selectSamples.size = 2) :
    (Space.pfs p).usage = (Space.pfs p).heap := by
  have := sum_rsn p.samples.toList h2
  simp only [Space.pfs, foldl_plus_eq, Nat.zero_add, Array.length_toList] at *
  omega

theorem sum_pfs (l : List PFS.PrefetchSupport)
    (h : ∀ p ∈ l, ∀ r ∈ p.samples.toList, r.selectSamples.size = 2) :
    ((l.map Space.pfs).map (·.usage)).sum = ((l.map Space.pfs).map (·.heap)).sum := by
  induction l with
  | nil => simp
  | cons x xs ih =>
    have hx := pfs_exact x (h x (by simp))
    have := ih (fun r hr => h r (by simp [hr]))
    simp only [List.map_cons, List.sum_cons] at *
    omega

/-- the `Vec<PrefetchSupport>` (`with_capacity(n_levels)`, 32 bytes per entry) is not reported -/
theorem pfsOpt_exact (L : Nat) (a : Array PFS.PrefetchSupport)
    (h2 : ∀ p ∈ a.toList, ∀ r ∈ p.samples.toList, r.selectSamples.size = 2) :
    (pfsOpt L (some a)).usage + 32 * L = (pfsOpt L (some a)).heap := by
  have := sum_pfs a.toList h2
  simp only [pfsOpt, foldl_plus_eq, Nat.zero_add] at *
  omega

/-- what the prefetch support contributes to `heap − usage` -/
def pfsGap (L : Nat) (p : Option (Array PFS.PrefetchSupport)) : Nat :=
  match p with
  | some _ => 32 * L
  | none => 0

theorem pfsOpt_gap (L : Nat) (p : Option (Array PFS.PrefetchSupport))
    (h2 : ∀ a, p = some a → ∀ q ∈ a.toList, ∀ r ∈ q.samples.toList, r.selectSamples.size = 2) :
    (pfsOpt L p).usage + pfsGap L p = (pfsOpt L p).heap := by
  cases p with
  | none => rfl
  | some a => exact pfsOpt_exact L a (h2 a rfl)

/-! ### the plain quad tree, with or without prefetch support -/

/-- exact identity: `usage = heap + 16 − 32·L` with prefetch support, `heap + 16` without -/
theorem qwt_exact (t : QWTree.QWT) (h4 : ∀ r ∈ t.qvs.toList, r.rs.selectSamples.size = 4)
    (h2 : ∀ a, t.pfs = some a → ∀ q ∈ a.toList, ∀ r ∈ q.samples.toList, r.selectSamples.size = 2) :
    (qwt t).usage + pfsGap t.nLevels t.pfs = (qwt t).heap + 16 := by
  have h1 := sum_rsq t.qvs.toList h4
  have h3 := pfsOpt_gap t.nLevels t.pfs h2
  simp only [qwt, foldl_plus_eq, Nat.zero_add, Array.length_toList] at *
  omega

theorem qwt_pfs_exact (t : QWTree.QWT) (a : Array PFS.PrefetchSupport) (ha : t.pfs = some a)
    (h4 : ∀ r ∈ t.qvs.toList, r.rs.selectSamples.size = 4)
    (h2 : ∀ q ∈ a.toList, ∀ r ∈ q.samples.toList, r.selectSamples.size = 2) :
    (qwt t).usage + 32 * t.nLevels = (qwt t).heap + 16 := by
  have := qwt_exact t h4 (fun a' e q hq r hr => by
    rw [ha] at e; cases e; exact h2 q hq r hr)
  rw [ha] at this
  exact this

/-- CLOSED `qwt_close`: every quad tree built by `new` (all four aliases, every input) -/
theorem qwt_close_new (c : Cfg) (seq : Array Nat) {t : QWTree.QWT} (hnew : QWTree.new c seq = .ok t) :
    (qwt t).usage + pfsGap t.nLevels t.pfs = (qwt t).heap + 16 := by
  have hs := qwt_new_shape c seq hnew
  exact qwt_exact t hs.q4 (fun a ha => (hs.pfs_some a ha).2)

/-- without prefetch support: `usage = heap + 16` -/
theorem qwt_close_new_nopfs (c : Cfg) (hp : c.pfs = false) (seq : Array Nat) {t : QWTree.QWT}
    (hnew : QWTree.new c seq = .ok t) : (qwt t).usage = (qwt t).heap + 16 := by
  have hs := qwt_new_shape c seq hnew
  have := qwt_close_new c seq hnew
  rw [hs.pfs_none (Or.inl hp)] at this
  exact this

/-- with prefetch support, non-empty input: `usage + 32·L = heap + 16` -/
theorem qwt_close_new_pfs (c : Cfg) (seq : Array Nat) {t : QWTree.QWT}
    (hnew : QWTree.new c seq = .ok t) (a : Array PFS.PrefetchSupport) (ha : t.pfs = some a) :
    (qwt t).usage + 32 * t.nLevels = (qwt t).heap + 16 ∧ a.size = t.nLevels := by
  have hs := qwt_new_shape c seq hnew
  have := qwt_close_new c seq hnew
  rw [ha] at this
  exact ⟨this, (hs.pfs_some a ha).1⟩

/-! ### the binary trees -/

/-- CLOSED `wt_close`: every plain binary tree built by `new`: 8 bytes per level short -/
theorem wt_close_new (c : Cfg) (seq : Array Nat) {t : BinWT.WT}
    (hnew : BinWT.new c false seq [] = .ok t) :
    (wt false t).usage + 8 * t.nLevels = (wt false t).heap + 16 := by
  obtain ⟨h1, _, h2⟩ := bin_new_shape c false seq [] hnew
  have := wt_close t h2
  rw [h1] at this
  exact this

/-- heap of the Huffman tables -/
theorem tables_of (w : Nat) (t : BinWT.WT) (e : Array Huff.PrefixCode) (d : Array (Array (Nat × Nat)))
    (he : t.codesEncode = some e) (hd : t.codesDecode = some d) :
    (wtW w true t).heap = (wt true t).heap + tablesHeap w e d := by
  simp [wtW, wt, he, hd]

/-- Huffman-shaped binary tree, exact identity -/
theorem hwt_exact (w : Nat) (t : BinWT.WT) (e : Array Huff.PrefixCode) (d : Array (Array (Nat × Nat)))
    (he : t.codesEncode = some e) (hd : t.codesDecode = some d)
    (h2 : ∀ r ∈ t.bvs.toList, r.selectSamples.size = 2) :
    (wtW w true t).usage + 8 * t.bvs.size + tablesHeap w e d =
      (wtW w true t).heap + 16 + 2048 + 5 * d.size := by
  have := sum_rsw t.bvs.toList h2
  simp only [wtW, he, hd, foldl_plus_eq, Nat.zero_add, Array.length_toList, if_true] at *
  omega

/-- CLOSED: every Huffman-shaped binary tree built by `new` on a non-empty input -/
theorem hwt_close_new (w : Nat) (c : Cfg) (seq : Array Nat) (lens : List (Nat × Nat)) {t : BinWT.WT}
    (hnew : BinWT.new c true seq lens = .ok t) (e : Array Huff.PrefixCode)
    (d : Array (Array (Nat × Nat))) (he : t.codesEncode = some e) (hd : t.codesDecode = some d) :
    (wtW w true t).usage + 8 * t.nLevels + tablesHeap w e d =
      (wtW w true t).heap + 16 + 2048 + 5 * d.size := by
  obtain ⟨h1, _, h2⟩ := bin_new_shape c true seq lens hnew
  have := hwt_exact w t e d he hd h2
  rw [h1] at this
  exact this

/-! ### the Huffman-shaped quad tree -/

/-- number of `(code, symbol)` entries of the decode tables -/
def entries (dec : Array (Array (Nat × Nat))) : Nat := (dec.toList.map Array.size).sum

theorem foldl_entries (dec : Array (Array (Nat × Nat))) (k : Nat) :
    dec.foldl (fun a v => a + v.size * k) 0 = k * entries dec := by
  rw [array_foldl_add_eq, Nat.zero_add, entries]
  induction dec.toList with
  | nil => simp
  | cons x xs ih =>
    rw [List.map_cons, List.sum_cons, ih, List.map_cons, List.sum_cons, Nat.mul_add,
      Nat.mul_comm x.size k]

/-- exact identity: the tables are the only difference (besides the constants and the
    uncounted `Vec<PrefetchSupport>`) -/
theorem hqwt_exact (w : Nat) (t : Huff.HQWT) (h4 : ∀ r ∈ t.qvs.toList, r.rs.selectSamples.size = 4)
    (h2 : ∀ a, t.pfs = some a → ∀ q ∈ a.toList, ∀ r ∈ q.samples.toList, r.selectSamples.size = 2) :
    (hqwtW w t).usage + pfsGap t.nLevels t.pfs + tablesHeap w t.codesEncode t.codesDecode =
      (hqwtW w t).heap + 16 + 2048 + 5 * entries t.codesDecode := by
  have h1 := sum_rsq t.qvs.toList h4
  have h3 := pfsOpt_gap t.nLevels t.pfs h2
  have h5 := foldl_entries t.codesDecode 5
  simp only [hqwtW, foldl_plus_eq, Nat.zero_add, Array.length_toList] at *
  rw [show (4 + 1 : Nat) = 5 from rfl, h5]
  omega

/-- amortised capacity of a vector grown by `push`: at most twice the length (at least 4) -/
theorem pushCap_go_le (len : Nat) : ∀ f c, pushCap.go len f c ≤ max c (2 * len) := by
  intro f
  induction f with
  | zero => intro c; simp only [pushCap.go]; omega
  | succ f ih =>
    intro c
    simp only [pushCap.go]
    split
    · omega
    · have := ih (2 * c); omega

theorem pushCap_le (len : Nat) : pushCap len ≤ 2 * len + 4 := by
  unfold pushCap
  split
  · omega
  · have := pushCap_go_le len 64 4; omega

theorem tables_sum_le (k : Nat) (l : List (Array (Nat × Nat))) :
    (l.map (fun v => pushCap v.size * k)).sum ≤ k * (2 * (l.map Array.size).sum + 4 * l.length) := by
  induction l with
  | nil => simp
  | cons x xs ih =>
    simp only [List.map_cons, List.sum_cons, List.length_cons]
    have h1 := pushCap_le x.size
    have h2 : pushCap x.size * k ≤ (2 * x.size + 4) * k := Nat.mul_le_mul_right _ h1
    have e : k * (2 * (x.size + (xs.map Array.size).sum) + 4 * (xs.length + 1)) =
        (2 * x.size + 4) * k + k * (2 * (xs.map Array.size).sum + 4 * xs.length) := by
      rw [Nat.mul_comm (2 * x.size + 4) k, ← Nat.mul_add]; congr 1; omega
    rw [e]
    omega

/-- the tables: `σ + 1` encode slots, `maxLen + 1` vector headers, and at most twice the
    entries (plus 4 per table) of `max 8 (2·size_of T)` bytes -/
theorem tablesHeap_le (w : Nat) (enc : Array Huff.PrefixCode) (dec : Array (Array (Nat × Nat))) :
    tablesHeap w enc dec ≤ 8 * enc.size + 24 * dec.size +
      max 8 (2 * w) * (2 * entries dec + 4 * dec.size) := by
  have := tables_sum_le (max 8 (2 * w)) dec.toList
  simp only [tablesHeap, array_foldl_add_eq, Nat.zero_add, entries, Array.length_toList] at *
  omega

/-- the two-sided bound: `usage` is within the table sizes of `heap + 16` -/
theorem hqwt_close (w : Nat) (t : Huff.HQWT) (h4 : ∀ r ∈ t.qvs.toList, r.rs.selectSamples.size = 4)
    (h2 : ∀ a, t.pfs = some a → ∀ q ∈ a.toList, ∀ r ∈ q.samples.toList, r.selectSamples.size = 2) :
    (hqwtW w t).usage ≤ (hqwtW w t).heap + 16 + (2048 + 5 * entries t.codesDecode) ∧
    (hqwtW w t).heap + 16 ≤ (hqwtW w t).usage + (32 * t.nLevels + 8 * t.codesEncode.size +
      24 * t.codesDecode.size + max 8 (2 * w) * (2 * entries t.codesDecode + 4 * t.codesDecode.size)) := by
  have h := hqwt_exact w t h4 h2
  have ht := tablesHeap_le w t.codesEncode t.codesDecode
  have hg : pfsGap t.nLevels t.pfs ≤ 32 * t.nLevels := by
    unfold pfsGap; split <;> omega
  generalize max 8 (2 * w) * (2 * entries t.codesDecode + 4 * t.codesDecode.size) = X at *
  omega

/-- CLOSED: every Huffman-shaped quad tree built by `new` (all four aliases, every input) -/
theorem hqwt_exact_new (w : Nat) (c : Cfg) (seq : Array Nat) (lens : List (Nat × Nat)) {t : Huff.HQWT}
    (hnew : Huff.new c seq lens = .ok t) :
    (hqwtW w t).usage + pfsGap t.nLevels t.pfs + tablesHeap w t.codesEncode t.codesDecode =
      (hqwtW w t).heap + 16 + 2048 + 5 * entries t.codesDecode := by
  have hs := huff_new_shape c seq lens hnew
  exact hqwt_exact w t hs.q4 (fun a ha => (hs.pfs_some a ha).2)

theorem hqwt_close_new (w : Nat) (c : Cfg) (seq : Array Nat) (lens : List (Nat × Nat)) {t : Huff.HQWT}
    (hnew : Huff.new c seq lens = .ok t) :
    (hqwtW w t).usage ≤ (hqwtW w t).heap + 16 + (2048 + 5 * entries t.codesDecode) ∧
    (hqwtW w t).heap + 16 ≤ (hqwtW w t).usage + (32 * t.nLevels + 8 * t.codesEncode.size +
      24 * t.codesDecode.size + max 8 (2 * w) * (2 * entries t.codesDecode + 4 * t.codesDecode.size)) := by
  have hs := huff_new_shape c seq lens hnew
  exact hqwt_close w t hs.q4 (fun a ha => (hs.pfs_some a ha).2)

/-- CLOSED, in terms of the largest symbol value `σ` and the longest code `maxLen` only: the
    difference between the reported and the retained bytes is bounded by a constant plus a
    multiple of `σ + 1` and `maxLen + 1` (`e = max 8 (2·size_of T)` bytes per table entry) -/
theorem hqwt_close_sigma (w : Nat) (c : Cfg) (seq : Array Nat) (lens : List (Nat × Nat)) {t : Huff.HQWT}
    (hnew : Huff.new c seq lens = .ok t) (hne : seq.isEmpty = false) (σ maxLen : Nat)
    (hσ : σ = Utils.asUsize (seq.foldl max 0))
    (hm : maxLen = t.codesEncode.foldl (fun m x => max m x.len) 0) :
    t.codesEncode.size = σ + 1 ∧ t.codesDecode.size = maxLen + 1 ∧ entries t.codesDecode ≤ σ + 1 ∧
    (hqwtW w t).usage ≤ (hqwtW w t).heap + 16 + (2048 + 5 * (σ + 1)) ∧
    (hqwtW w t).heap + 16 ≤ (hqwtW w t).usage + (16 * maxLen + 8 * (σ + 1) + 24 * (maxLen + 1) +
      max 8 (2 * w) * (2 * (σ + 1) + 4 * (maxLen + 1))) := by
  obtain ⟨h1, h2, h3, h4⟩ := huff_new_tables c seq lens hnew hne
  obtain ⟨a, b⟩ := hqwt_close_new w c seq lens hnew
  rw [← hσ] at h1
  rw [← hm] at h2 h4
  have h3' : entries t.codesDecode ≤ σ + 1 := by rw [← h1]; exact h3
  refine ⟨h1, h2, h3', by omega, ?_⟩
  rw [h1, h2, h4] at b
  have hmono : max 8 (2 * w) * (2 * entries t.codesDecode + 4 * (maxLen + 1)) ≤
      max 8 (2 * w) * (2 * (σ + 1) + 4 * (maxLen + 1)) := Nat.mul_le_mul_left _ (by omega)
  generalize max 8 (2 * w) * (2 * entries t.codesDecode + 4 * (maxLen + 1)) = X at *
  generalize max 8 (2 * w) * (2 * (σ + 1) + 4 * (maxLen + 1)) = Y at *
  omega

/-- CLOSED, Huffman-shaped binary tree on a non-empty input: the exact identity with the table
    sizes as functions of `σ` and `maxLen` (`= nLevels`) -/
theorem hwt_close_sigma (w : Nat) (c : Cfg) (seq : Array Nat) (lens : List (Nat × Nat)) {t : BinWT.WT}
    (hnew : BinWT.new c true seq lens = .ok t) (hne : seq.isEmpty = false) :
    ∃ e d, t.codesEncode = some e ∧ t.codesDecode = some d ∧
      e.size = Utils.asUsize (seq.foldl max 0) + 1 ∧ d.size = t.nLevels + 1 ∧ entries d ≤ e.size ∧
      (wtW w true t).usage + 8 * t.nLevels + tablesHeap w e d =
        (wtW w true t).heap + 16 + 2048 + 5 * (t.nLevels + 1) ∧
      tablesHeap w e d ≤ 8 * e.size + 24 * (t.nLevels + 1) +
        max 8 (2 * w) * (2 * e.size + 4 * (t.nLevels + 1)) := by
  obtain ⟨e, d, he, hd, h1, h2, h3, h4⟩ := hwt_new_tables c seq lens hnew hne
  have hx := hwt_close_new w c seq lens hnew e d he hd
  rw [← h4] at h2
  rw [h2] at hx
  refine ⟨e, d, he, hd, h1, h2, h3, hx, ?_⟩
  have ht := tablesHeap_le w e d
  rw [h2] at ht
  have hmono : max 8 (2 * w) * (2 * entries d + 4 * (t.nLevels + 1)) ≤
      max 8 (2 * w) * (2 * e.size + 4 * (t.nLevels + 1)) :=
    Nat.mul_le_mul_left _ (by unfold entries; omega)
  omega

/-! ### DArray (for completeness: `da_exact` of `Props/C16.lean` has no hypothesis) -/

theorem da_close (d : DA.DArray) :
    (da d).usage ≤ (da d).heap + (da d).self_ ∧ (da d).heap + (da d).self_ ≤ (da d).usage + 56 := by
  have := da_exact d
  cases hz : d.zeroes with
  | none => rw [hz] at this; simp only at this; omega
  | some z => rw [hz] at this; simp only at this; omega

/-! ### non-vacuity -/

example : (match QWTree.new { W := 8, pfs := true } #[5, 200, 7, 0, 200, 255] with
    | .ok t => decide ((qwt t).usage + 32 * t.nLevels = (qwt t).heap + 16) && t.nLevels == 4 &&
        t.pfs.isSome
    | .error _ => false) = true := by decide +kernel

example : (match QWTree.new { W := 8 } #[5, 200, 7, 0, 200, 255] with
    | .ok t => decide ((qwt t).usage = (qwt t).heap + 16) && t.pfs.isNone
    | .error _ => false) = true := by decide +kernel

example : (match BinWT.new { W := 8 } false #[5, 200, 7, 0, 200, 255] [] with
    | .ok t => decide ((wt false t).usage + 8 * 8 = (wt false t).heap + 16) && t.nLevels == 8
    | .error _ => false) = true := by decide +kernel

/-- a Huffman-shaped quad tree over `{0 ↦ 1 fragment, 1, 2 ↦ 2 fragments …}` -/
example : (match Huff.new { W := 8 } #[0, 1, 0, 2, 0, 3, 0, 4] [(0, 1), (1, 2), (2, 2), (3, 2), (4, 2)] with
    | .ok t => decide ((hqwtW 1 t).usage + tablesHeap 1 t.codesEncode t.codesDecode =
          (hqwtW 1 t).heap + 16 + 2048 + 5 * entries t.codesDecode) && entries t.codesDecode == 5
    | .error _ => false) = true := by decide +kernel

example : pushCap 0 = 0 ∧ pushCap 1 = 4 ∧ pushCap 5 = 8 ∧ pushCap 9 = 16 := by decide

end Qwt.Props.C16
