import Qwt.Props.C15
import Qwt.Props.Closed
import Qwt.Proofs.Closure2Bits
import Mathlib.Data.Finset.Card
import Mathlib.Data.List.Nodup

/-!
# Property C15, closed over the model

`Qwt/Props/C15.lean` proves the information-theoretic inequality over abstract frequency and
length vectors `f ℓ : Fin k → ℕ`.  This file instantiates it with the trees the model builds.

Setting: `S : List ℕ` is the sequence, `lens : List (ℕ × ℕ)` the `(symbol, code length in
fragments)` table handed over by the external crate `minimum_redundancy` (one entry per
occurring symbol, `LensOK`), `k = lens.length` the number of distinct symbols, and

* `freq S lens i  = S.count (lens[i]).1`   the frequency of the `i`-th symbol,
* `flen lens i    = (lens[i]).2`           its code length in fragments (levels).

Then (`total_freq`, `cost_freq`) `total (freq S lens) = |S|` and the level data of the tree
returned by `new` holds exactly `cost (freq S lens) (flen lens)` fragments
(`hqwt_level_cost`, `hwt_level_cost`: `Σ_k t.lens[k] = cost …`), i.e. `2·cost` bits for the quad
tree and `cost` bits for the binary tree.

The only hypothesis that is not about the input is `Optimal D (freq S lens) (flen lens)`:
the ASSUMPTION that `minimum_redundancy` returns the lengths of an optimal `D`-ary prefix
code.  It is validated at run time by the harness on every case, never proved.
-/
set_option linter.unusedVariables false
set_option linter.unusedSectionVars false

namespace Qwt.Props.C15
open Qwt Qwt.Entropy

/-! ## 1. counting -/

theorem sum_indicator (g : ℕ → ℕ) (syms : List ℕ) (hnd : syms.Nodup) (a : ℕ) (ha : a ∈ syms) :
    (syms.map (fun s => if a = s then g s else 0)).sum = g a := by
  induction syms with
  | nil => cases ha
  | cons b l ih =>
    rw [List.nodup_cons] at hnd
    simp only [List.map_cons, List.sum_cons]
    by_cases hab : a = b
    · subst hab
      have hz : (l.map (fun s => if a = s then g s else 0)).sum = 0 := by
        apply List.sum_eq_zero
        intro x hx
        obtain ⟨s, hs, rfl⟩ := List.mem_map.mp hx
        have : a ≠ s := fun e => hnd.1 (e ▸ hs)
        simp [this]
      simp [hz]
    · have hal : a ∈ l := by
        rcases List.mem_cons.mp ha with h | h
        · exact absurd h hab
        · exact h
      rw [if_neg hab, ih hnd.2 hal]
      simp

/-- **Counting lemma**: a sum over the sequence is the sum over its distinct symbols, weighted
    by their frequencies. -/
theorem sum_map_eq_count (S : List ℕ) (g : ℕ → ℕ) (syms : List ℕ) (hnd : syms.Nodup)
    (hall : ∀ x ∈ S, x ∈ syms) :
    (S.map g).sum = (syms.map (fun s => S.count s * g s)).sum := by
  induction S with
  | nil => simp
  | cons a S ih =>
    have hfun : (fun s => (a :: S).count s * g s) =
        (fun s => S.count s * g s + (if a = s then g s else 0)) := by
      funext s
      rw [List.count_cons]
      by_cases h : a = s
      · subst h; simp [Nat.add_mul]
      · have : (a == s) = false := by simpa using h
        simp [this, h]
    rw [hfun, Qwt.HQWM.sum_map_add, ← ih (fun x hx => hall x (by simp [hx])),
      sum_indicator g syms hnd a (hall a (by simp))]
    simp only [List.map_cons, List.sum_cons]
    omega

/-- the `Fin k` form -/
theorem sum_map_eq_fin (S : List ℕ) (g : ℕ → ℕ) (syms : List ℕ) (hnd : syms.Nodup)
    (hall : ∀ x ∈ S, x ∈ syms) :
    (S.map g).sum = ∑ i : Fin syms.length, S.count syms[i.1] * g syms[i.1] := by
  rw [sum_map_eq_count S g syms hnd hall, Fin.sum_univ_fun_getElem syms (fun s => S.count s * g s)]

/-! ## 2. the frequency / length vectors of a length table -/

/-- frequency of the `i`-th symbol of the table in `S` -/
def freq (S : List ℕ) (lens : List (ℕ × ℕ)) : Fin lens.length → ℕ := fun i => S.count (lens[i.1]).1

/-- code length, in fragments, of the `i`-th symbol of the table -/
def flen (lens : List (ℕ × ℕ)) : Fin lens.length → ℕ := fun i => (lens[i.1]).2

section vectors
variable (S : List ℕ) (lens : List (ℕ × ℕ)) (hnd : (lens.map (·.1)).Nodup)
  (hsyms : ∀ s, s ∈ lens.map (·.1) ↔ s ∈ S)
include hnd hsyms

/-- a sum over `S` of a function that is `h p` on the symbol of the table entry `p` -/
theorem sum_map_eq_table (g : ℕ → ℕ) (h : ℕ × ℕ → ℕ) (hg : ∀ p ∈ lens, g p.1 = h p) :
    (S.map g).sum = ∑ i : Fin lens.length, freq S lens i * h lens[i.1] := by
  rw [sum_map_eq_count S g _ hnd (fun x hx => (hsyms x).mpr hx), List.map_map,
    ← Fin.sum_univ_fun_getElem lens]
  refine Finset.sum_congr rfl fun i _ => ?_
  simp only [Function.comp, freq]
  rw [hg _ (List.getElem_mem i.2)]

theorem total_freq : total (freq S lens) = S.length := by
  have h := sum_map_eq_table S lens hnd hsyms (fun _ => 1) (fun _ => 1) (fun _ _ => rfl)
  simp only [List.map_const', List.sum_replicate, smul_eq_mul, mul_one] at h
  rw [total, h]

theorem freq_pos (i : Fin lens.length) : 0 < freq S lens i := by
  apply List.count_pos_iff.mpr
  exact (hsyms _).mp (List.mem_map.mpr ⟨lens[i.1], List.getElem_mem i.2, rfl⟩)

/-- `Σ_{x ∈ S} g x = b · cost` when `g` is `b ·` the tabulated length on every table entry -/
theorem cost_freq (g : ℕ → ℕ) (b : ℕ) (hg : ∀ p ∈ lens, g p.1 = b * p.2) :
    (S.map g).sum = b * cost (freq S lens) (flen lens) := by
  rw [sum_map_eq_table S lens hnd hsyms g (fun p => b * p.2) hg, cost, Finset.mul_sum]
  refine Finset.sum_congr rfl fun i _ => ?_
  simp only [flen]
  ring

/-- the number of distinct symbols is at most `max S + 1` -/
theorem card_le_max : lens.length ≤ Spec.maxNat S + 1 := by
  have h1 : (lens.map (·.1)).toFinset ⊆ Finset.range (Spec.maxNat S + 1) := by
    intro x hx
    rw [List.mem_toFinset] at hx
    rw [Finset.mem_range]
    exact Nat.lt_succ_of_le (Closed.le_maxNat' S x ((hsyms x).mp hx))
  have h2 := Finset.card_le_card h1
  rw [List.toFinset_card_of_nodup hnd, Finset.card_range, List.length_map] at h2
  exact h2

end vectors

/-! ## 3. the Huffman-shaped quad tree -/

section hqwt
variable (c : Cfg) (hB : c.B = 256 ∨ c.B = 512) (hW : c.W ≤ 64)
  (S : List ℕ) (hne : S ≠ []) (hb : ∀ x ∈ S, x < 2 ^ c.W) (hS : S.length < 2 ^ 43)
  (lens : List (ℕ × ℕ)) (hlens : C02.LensOK 4 lens)
  (hsyms : ∀ s, s ∈ lens.map (·.1) ↔ s ∈ S)
  {t : Huff.HQWT} (ht : Huff.new c S.toArray lens = .ok t)
include hB hW hne hb hS hlens hsyms ht

/-- the levels of the tree returned by `new` hold exactly `cost f ℓ` two-bit symbols -/
theorem hqwt_level_cost : t.lens.toList.sum = cost (freq S lens) (flen lens) := by
  obtain ⟨codes, t', _, _, ht', _, _, _, hlen, hbits⟩ :=
    Closed.hqwt_correct c hB hW S hne hb hS lens hlens hsyms
  rw [ht] at ht'; cases ht'
  have h := cost_freq S lens hlens.nodup hsyms (fun x => codes[x]!.len) 2 hlen
  omega

/-- **C15, quad tree, at least two distinct symbols**: the level data (two bits per stored
    symbol) is strictly below `n·(H0 + 2)` bits. -/
theorem hqwt_entropy_bound (hopt : Optimal 4 (freq S lens) (flen lens)) (hk : 2 ≤ lens.length) :
    ((2 * t.lens.toList.sum : ℕ) : ℝ) < (S.length : ℝ) * (H0 (freq S lens) + 2) := by
  have h := level_bits_lt_quad (freq S lens) (flen lens)
    (freq_pos S lens hlens.nodup hsyms) hopt hk
  rw [total_freq S lens hlens.nodup hsyms] at h
  rw [hqwt_level_cost c hB hW S hne hb hS lens hlens hsyms ht]
  push_cast
  exact h

/-- **C15, quad tree, every non-empty sequence** (also a single distinct symbol): at most
    `n·(H0 + 2)` bits. -/
theorem hqwt_entropy_bound_le (hopt : Optimal 4 (freq S lens) (flen lens)) :
    ((2 * t.lens.toList.sum : ℕ) : ℝ) ≤ (S.length : ℝ) * (H0 (freq S lens) + 2) := by
  have hk : 1 ≤ lens.length := by
    cases S with
    | nil => exact absurd rfl hne
    | cons a S' =>
      have : a ∈ lens.map (·.1) := (hsyms a).mpr (by simp)
      have := List.length_pos_of_mem this
      rw [List.length_map] at this
      exact this
  have h := level_bits_le_quad (freq S lens) (flen lens)
    (freq_pos S lens hlens.nodup hsyms) hopt hk
  rw [total_freq S lens hlens.nodup hsyms] at h
  rw [hqwt_level_cost c hB hW S hne hb hS lens hlens hsyms ht]
  push_cast
  exact h

/-- **C15, quad tree**: never more level data than the plain quad tree, which writes every
    element to all `(bitlen(max S) + 1) / 2` levels. -/
theorem hqwt_le_plain (hopt : Optimal 4 (freq S lens) (flen lens)) :
    2 * t.lens.toList.sum ≤ 2 * S.length * ((Spec.bitlen (Spec.maxNat S) + 1) / 2) := by
  have hk : lens.length ≤ 4 ^ QWTree.nLevelsOf (Spec.maxNat S) :=
    Nat.le_trans (card_le_max S lens hlens.nodup hsyms)
      (Nat.succ_le_of_lt (QWTree.lt_pow_nLevelsOf _))
  have h := le_plain (freq S lens) (flen lens) hopt hk
    (Nat.pos_of_ne_zero (QWTree.nLevelsOf_pos _))
  rw [total_freq S lens hlens.nodup hsyms] at h
  rw [hqwt_level_cost c hB hW S hne hb hS lens hlens hsyms ht, Nat.mul_assoc]
  exact Nat.mul_le_mul_left 2 h

/-- the comparison the harness evaluates (exact integer arithmetic) -/
theorem hqwt_harness_check (hopt : Optimal 4 (freq S lens) (flen lens)) (hk : 2 ≤ lens.length) :
    2 ^ (2 * t.lens.toList.sum) * ∏ i, freq S lens i ^ freq S lens i
      < 2 ^ (2 * S.length) * S.length ^ S.length := by
  have h := harness_check_quad (freq S lens) (flen lens)
    (freq_pos S lens hlens.nodup hsyms) hopt hk
  rw [total_freq S lens hlens.nodup hsyms] at h
  rw [hqwt_level_cost c hB hW S hne hb hS lens hlens hsyms ht]
  exact h

end hqwt

/-! ## 4. the Huffman-shaped binary tree -/

section hwt
variable (c : Cfg) (hW : c.W ≤ 64)
  (S : List ℕ) (hne : S ≠ []) (hb : ∀ x ∈ S, x < 2 ^ c.W) (hS : S.length < 2 ^ 43)
  (lens : List (ℕ × ℕ)) (hlens : C02.LensOK 2 lens)
  (hsyms : ∀ s, s ∈ lens.map (·.1) ↔ s ∈ S)
  {t : BinWT.WT} (ht : BinWT.new c true S.toArray lens = .ok t)
include hW hne hb hS hlens hsyms ht

/-- the binary analogue of `C02.hqwt_level_bits`: one bit per element and code bit -/
theorem hwt_level_bits : ∃ codes,
    Huff.craftWmCodes 2 lens (Utils.asUsize (Spec.maxNat S)) = .ok codes ∧
    (∀ p ∈ lens, codes[p.1]!.len = p.2) ∧
    t.lens.toList.sum = (S.map (fun x => codes[x]!.len)).sum := by
  have hlt := Closed.maxNat_lt_two64' c.W hW S hb
  have hsig : Utils.asUsize (Spec.maxNat S) = Spec.maxNat S := by
    simp [Utils.asUsize, Nat.mod_eq_of_lt hlt]
  obtain ⟨codes, hc, hv⟩ := Closed.hwt_codes c hW S hne hb hS lens hlens hsyms
  have hs : ∀ p ∈ lens, p.1 ≤ Utils.asUsize (Spec.maxNat S) := by
    intro p hp
    rw [hsig]
    exact Closed.le_maxNat' S p.1 ((hsyms p.1).mp (List.mem_map.mpr ⟨p, hp, rfl⟩))
  have hlen := (C02.craft_lens (Or.inr rfl) hlens hs hc).2.1
  have hinv := C03.hwt_inv c hW Closed.binLevelLaw S hne hb hS lens codes hc _ hv hsyms ht
  refine ⟨codes, hc, ?_, BinWM.invH_level_bits hinv⟩
  intro p hp
  rw [hlen p hp]
  simp [C02.bitsOf]

/-- the levels of the tree returned by `new` hold exactly `cost f ℓ` bits -/
theorem hwt_level_cost : t.lens.toList.sum = cost (freq S lens) (flen lens) := by
  obtain ⟨codes, _, hlen, hbits⟩ := hwt_level_bits c hW S hne hb hS lens hlens hsyms ht
  have h := cost_freq S lens hlens.nodup hsyms (fun x => codes[x]!.len) 1
    (fun p hp => by rw [hlen p hp, Nat.one_mul])
  omega

/-- **C15, binary tree, at least two distinct symbols**: strictly below `n·(H0 + 1)` bits. -/
theorem hwt_entropy_bound (hopt : Optimal 2 (freq S lens) (flen lens)) (hk : 2 ≤ lens.length) :
    (t.lens.toList.sum : ℝ) < (S.length : ℝ) * (H0 (freq S lens) + 1) := by
  have h := level_bits_lt_bin (freq S lens) (flen lens)
    (freq_pos S lens hlens.nodup hsyms) hopt hk
  rw [total_freq S lens hlens.nodup hsyms] at h
  rw [hwt_level_cost c hW S hne hb hS lens hlens hsyms ht]
  exact h

/-- **C15, binary tree, every non-empty sequence**: at most `n·(H0 + 1)` bits. -/
theorem hwt_entropy_bound_le (hopt : Optimal 2 (freq S lens) (flen lens)) :
    (t.lens.toList.sum : ℝ) ≤ (S.length : ℝ) * (H0 (freq S lens) + 1) := by
  have hk : 1 ≤ lens.length := by
    cases S with
    | nil => exact absurd rfl hne
    | cons a S' =>
      have : a ∈ lens.map (·.1) := (hsyms a).mpr (by simp)
      have := List.length_pos_of_mem this
      rw [List.length_map] at this
      exact this
  have h := level_bits_le_bin (freq S lens) (flen lens)
    (freq_pos S lens hlens.nodup hsyms) hopt hk
  rw [total_freq S lens hlens.nodup hsyms] at h
  rw [hwt_level_cost c hW S hne hb hS lens hlens hsyms ht]
  exact h

/-- **C15, binary tree**: never more level data than the plain binary tree, which writes every
    element to all `bitlen(max S)` levels. -/
theorem hwt_le_plain (hopt : Optimal 2 (freq S lens) (flen lens)) :
    t.lens.toList.sum ≤ S.length * Spec.bitlen (Spec.maxNat S) := by
  have hk : lens.length ≤ 2 ^ Spec.bitlen (Spec.maxNat S) :=
    Nat.le_trans (card_le_max S lens hlens.nodup hsyms)
      (Nat.succ_le_of_lt (BinWM.lt_two_pow_bitlen _))
  have h := le_plain (freq S lens) (flen lens) hopt hk
    (by simp [Spec.bitlen])
  rw [total_freq S lens hlens.nodup hsyms] at h
  rw [hwt_level_cost c hW S hne hb hS lens hlens hsyms ht]
  exact h

/-- the comparison the harness evaluates (exact integer arithmetic) -/
theorem hwt_harness_check (hopt : Optimal 2 (freq S lens) (flen lens)) (hk : 2 ≤ lens.length) :
    2 ^ t.lens.toList.sum * ∏ i, freq S lens i ^ freq S lens i
      < 2 ^ S.length * S.length ^ S.length := by
  have h := harness_check_bin (freq S lens) (flen lens)
    (freq_pos S lens hlens.nodup hsyms) hopt hk
  rw [total_freq S lens hlens.nodup hsyms] at h
  rw [hwt_level_cost c hW S hne hb hS lens hlens hsyms ht]
  exact h

end hwt

/-! ## 5. non-vacuity: the vectors of the example of `Props/C02` -/

example : total (freq C02.exS C02.exLens) = 16 := by decide
example : cost (freq C02.exS C02.exLens) (flen C02.exLens) = 32 := by decide

end Qwt.Props.C15
