import Qwt.Proofs.Word

/-!
# C17 — the word-level utilities of `src/utils/mod.rs`

Every theorem is about the executable model (`Qwt.Utils.*`, `Qwt.popc`) and the extracted
constants (`Qwt.Extracted.*`), stated against the list specification `Qwt.Spec`.
-/
namespace Qwt.Props.C17
open Qwt Qwt.Proofs.Word

/-! ## 1. the byte table -/

/-- entry `k*256+b` of `kSelectInByte` is the position of the `(k+1)`-th one of byte `b`
    (8 when there is none) -/
theorem table_ok : ∀ k, k < 8 → ∀ b, b < 256 →
    Extracted.kSelectInByte[k * 256 + b]! =
      (match Spec.select true k (Spec.bitsOf b 8) with | some p => p | none => 8) := by
  intro k hk b hb
  exact (table_get k b hk hb).2

example : Extracted.kSelectInByte[2 * 256 + 0b10110100]! = 5 := by
  have h := table_ok 2 (by decide) 0b10110100 (by decide)
  exact h

/-! ## 2. `select_in_word` -/

theorem select_in_word_ok (w k : Nat) (hw : w < 2 ^ 64) (hk : k < 128) :
    Utils.selectInWord w k =
      .ok (match Spec.select true k (Spec.bitsOf w 64) with | some p => p | none => 64) :=
  selectInWord_ok w k hw hk

example : Utils.selectInWord 0xF0F0F0F0F0F0F0F0 9 = .ok 21 := by
  have h := select_in_word_ok 0xF0F0F0F0F0F0F0F0 9 (by decide) (by decide)
  rw [h]; exact congrArg Except.ok (by decide)

example : Utils.selectInWord 0xFF 8 = .ok 64 := by
  have h := select_in_word_ok 0xFF 8 (by decide) (by decide)
  rw [h]; exact congrArg Except.ok (by decide)

/-! ## 3. `select_in_word_u128` -/

theorem select_in_word_u128_ok (w k : Nat) (hw : w < 2 ^ 128) (hk : k < 128) :
    Utils.selectInWordU128 w k =
      .ok (match Spec.select true k (Spec.bitsOf w 128) with | some p => p | none => 128) :=
  selectInWordU128_ok w k hw hk

example : Utils.selectInWordU128 (2 ^ 100 + 2 ^ 70 + 5) 3 = .ok 100 := by
  have h := select_in_word_u128_ok (2 ^ 100 + 2 ^ 70 + 5) 3 (by decide) (by decide)
  rw [h]; exact congrArg Except.ok (by decide +kernel)

/-! ## 4. population counts -/

theorem popc_eq_spec (w : Nat) : Qwt.popc w = Spec.popc w := Qwt.Proofs.Word.popc_eq_spec w

theorem popc_eq_count (n w : Nat) (hw : w < 2 ^ n) :
    Spec.popc w = (Spec.bitsOf w n).count true := Qwt.Proofs.Word.popc_eq_count n w hw

theorem popcnt_wide_ok (n : Nat) (data : Array Nat) :
    Utils.popcntWide n data = ((data.toList.take n).map Spec.popc).sum := by
  unfold Utils.popcntWide
  rw [foldl_add_popc]; omega

/-- `popcnt_wide` counts the set bits of the first `n` words (each a `W`-bit word) -/
theorem popcnt_wide_count (n W : Nat) (data : Array Nat) (hd : ∀ w ∈ data.toList, w < 2 ^ W) :
    Utils.popcntWide n data =
      ((data.toList.take n).map (fun w => (Spec.bitsOf w W).count true)).sum := by
  rw [popcnt_wide_ok]
  congr 1
  apply List.map_congr_left
  intro w hw
  exact popc_eq_count W w (hd w (List.mem_of_mem_take hw))

example : Utils.popcntWide 2 #[0xFF, 0x101, 0xFFFF] = 10 := by
  rw [popcnt_wide_count 2 16 _ (by decide)]; decide

/-! ## 5. `msb` -/

theorem msb_ok (W v : Nat) (hW : 0 < W) (hv : v < 2 ^ W) : Utils.msb W v = .ok (Nat.log2 v) :=
  Qwt.Proofs.Word.msb_ok W v hW hv

example : Utils.msb 64 0x12345 = .ok 16 := by
  rw [msb_ok 64 0x12345 (by decide) (by decide)]; exact congrArg Except.ok (by decide)
example : Utils.msb 8 0 = .ok 0 := by
  rw [msb_ok 8 0 (by decide) (by decide)]; exact congrArg Except.ok (by decide)

/-! ## 6. stable partitions -/

theorem part4_ok (W shift : Nat) (seq : Array Nat) (hs : shift < W) :
    Utils.stablePartitionOf4 W seq shift =
      .ok (Spec.stablePart (fun x => (x >>> shift) % 4) 4 seq.toList).toArray := by
  unfold Utils.stablePartitionOf4
  rw [if_neg (by omega), ← Array.foldl_toList, fold4, stablePart4]
  simp [Utils.Buckets4.concat]

theorem part2_ok (W shift : Nat) (seq : Array Nat) (hs : shift < W) :
    Utils.stablePartitionOf2 W seq shift =
      .ok (Spec.stablePart (fun x => (x >>> shift) % 2) 2 seq.toList).toArray := by
  unfold Utils.stablePartitionOf2
  rw [if_neg (by omega), ← Array.foldl_toList, fold2, stablePart2]
  simp

/-- shifting by the full width (or more) is a fault, as soon as there is an element -/
theorem part4_fault (W shift : Nat) (seq : Array Nat) (hs : W ≤ shift) (hn : 0 < seq.size) :
    Utils.stablePartitionOf4 W seq shift = .error .overflow := by
  unfold Utils.stablePartitionOf4
  rw [if_pos ⟨hs, hn⟩]

theorem part2_fault (W shift : Nat) (seq : Array Nat) (hs : W ≤ shift) (hn : 0 < seq.size) :
    Utils.stablePartitionOf2 W seq shift = .error .overflow := by
  unfold Utils.stablePartitionOf2
  rw [if_pos ⟨hs, hn⟩]

/-- the result is a permutation of the input -/
theorem part4_perm (W shift : Nat) (seq r : Array Nat) (hs : shift < W)
    (h : Utils.stablePartitionOf4 W seq shift = .ok r) : r.toList.Perm seq.toList := by
  rw [part4_ok W shift seq hs] at h
  injection h with h
  subst h
  exact stablePart_perm _ 4 _ (fun x _ => Nat.mod_lt _ (by decide))

theorem part2_perm (W shift : Nat) (seq r : Array Nat) (hs : shift < W)
    (h : Utils.stablePartitionOf2 W seq shift = .ok r) : r.toList.Perm seq.toList := by
  rw [part2_ok W shift seq hs] at h
  injection h with h
  subst h
  exact stablePart_perm _ 2 _ (fun x _ => Nat.mod_lt _ (by decide))

/-- every group keeps the relative order it had in the input -/
theorem part4_stable (W shift : Nat) (seq r : Array Nat) (hs : shift < W)
    (h : Utils.stablePartitionOf4 W seq shift = .ok r) (d : Nat) :
    r.toList.filter (fun x => (x >>> shift) % 4 == d) =
      seq.toList.filter (fun x => (x >>> shift) % 4 == d) := by
  by_cases hd : d < 4
  · rw [part4_ok W shift seq hs] at h
    injection h with h
    subst h
    exact stablePart_filter _ 4 _ d hd
  · have hne : ∀ x : Nat, ((x >>> shift) % 4 == d) = false := by
      intro x
      have := Nat.mod_lt (x >>> shift) (by decide : 0 < 4)
      rw [beq_eq_false_iff_ne]; omega
    rw [List.filter_eq_nil_iff.2 (fun x _ => by simp [hne x]),
      List.filter_eq_nil_iff.2 (fun x _ => by simp [hne x])]

theorem part2_stable (W shift : Nat) (seq r : Array Nat) (hs : shift < W)
    (h : Utils.stablePartitionOf2 W seq shift = .ok r) (d : Nat) :
    r.toList.filter (fun x => (x >>> shift) % 2 == d) =
      seq.toList.filter (fun x => (x >>> shift) % 2 == d) := by
  by_cases hd : d < 2
  · rw [part2_ok W shift seq hs] at h
    injection h with h
    subst h
    exact stablePart_filter _ 2 _ d hd
  · have hne : ∀ x : Nat, ((x >>> shift) % 2 == d) = false := by
      intro x
      have := Nat.mod_lt (x >>> shift) (by decide : 0 < 2)
      rw [beq_eq_false_iff_ne]; omega
    rw [List.filter_eq_nil_iff.2 (fun x _ => by simp [hne x]),
      List.filter_eq_nil_iff.2 (fun x _ => by simp [hne x])]

/-- the groups come in increasing order of the key -/
theorem part4_groups (W shift : Nat) (seq : Array Nat) (hs : shift < W) :
    Utils.stablePartitionOf4 W seq shift = .ok
      (seq.toList.filter (fun x => (x >>> shift) % 4 == 0) ++
       seq.toList.filter (fun x => (x >>> shift) % 4 == 1) ++
       seq.toList.filter (fun x => (x >>> shift) % 4 == 2) ++
       seq.toList.filter (fun x => (x >>> shift) % 4 == 3)).toArray := by
  rw [part4_ok W shift seq hs, stablePart4]

example : Utils.stablePartitionOf4 8 #[0x1F, 0x05, 0x3A, 0x04, 0x2B, 0x10] 2 =
    .ok #[0x10, 0x05, 0x04, 0x3A, 0x2B, 0x1F] := by
  rw [part4_ok 8 2 _ (by decide)]; exact congrArg Except.ok (by decide)

example : Utils.stablePartitionOf2 8 #[7, 2, 5, 8, 1] 0 = .ok #[2, 8, 7, 5, 1] := by
  rw [part2_ok 8 0 _ (by decide)]; exact congrArg Except.ok (by decide)

example : Utils.stablePartitionOf4 8 #[1] 8 = .error .overflow :=
  part4_fault 8 8 #[1] (by decide) (by decide)

/-! ## 7. `text_remap` -/

/-- `text_remap` against any duplicate-free enumeration `d` of the values of the input:
    the alphabet size is the number of distinct values and every symbol is replaced by the
    number of distinct values smaller than it. -/
theorem text_remap_ok (input : Array Nat) (d : List Nat) (hd : d.Nodup)
    (hm : ∀ x, x ∈ d ↔ x ∈ input.toList) :
    (Utils.textRemap input).2 = d.length ∧
    (Utils.textRemap input).1 = input.map (fun c => (d.filter (· < c)).length) := by
  obtain ⟨h1, h2⟩ := nodup_same d (uniqOf input.toList) hd (uniqOf_nodup _)
    (fun x => by rw [hm, mem_uniqOf])
  rw [textRemap_eq]
  refine ⟨h1.symm, ?_⟩
  simp only
  congr 1
  funext c
  exact (h2 _).symm

/-- the same with the canonical enumeration `eraseDups` -/
theorem text_remap_eraseDups (input : Array Nat) :
    (Utils.textRemap input).2 = input.toList.eraseDups.length ∧
    (Utils.textRemap input).1 =
      input.map (fun c => (input.toList.eraseDups.filter (· < c)).length) :=
  text_remap_ok input _ (nodup_eraseDups _ _ (Nat.le_refl _)) (fun _ => List.mem_eraseDups)

theorem text_remap_size (input : Array Nat) : (Utils.textRemap input).1.size = input.size := by
  rw [textRemap_eq]; simp

/-- the remapping preserves the order of the symbols (hence also equality) -/
theorem text_remap_order (input : Array Nat) (i j : Nat) (hi : i < input.size)
    (hj : j < input.size) :
    (input[i] < input[j] ↔
      (Utils.textRemap input).1[i]'(by rw [text_remap_size]; exact hi) <
        (Utils.textRemap input).1[j]'(by rw [text_remap_size]; exact hj)) := by
  have hmi : input[i] ∈ uniqOf input.toList := by rw [mem_uniqOf]; simp
  have hmj : input[j] ∈ uniqOf input.toList := by rw [mem_uniqOf]; simp
  simp only [textRemap_eq, Array.getElem_map]
  constructor
  · exact rank_lt _ _ _ hmi
  · intro h
    by_cases hlt : input[i] < input[j]
    · exact hlt
    · exfalso
      by_cases he : input[i] = input[j]
      · rw [he] at h; omega
      · have := rank_lt (uniqOf input.toList) _ _ hmj (by omega : input[j] < input[i])
        omega

/-- the image of the remapping is exactly `0 .. alphabet size` -/
theorem text_remap_image (input : Array Nat) (v : Nat) :
    v ∈ (Utils.textRemap input).1.toList ↔ v < (Utils.textRemap input).2 := by
  simp only [textRemap_eq, Array.toList_map, List.mem_map]
  constructor
  · rintro ⟨c, hc, rfl⟩
    exact rank_lt_length _ c ((mem_uniqOf _ _).2 hc)
  · intro hv
    refine ⟨(uniqOf input.toList)[v], ?_, rank_getElem _ (uniqOf_sorted _) v hv⟩
    rw [← mem_uniqOf]
    exact List.getElem_mem hv

example : Utils.textRemap #[30, 10, 30, 99, 10, 42] = (#[1, 0, 1, 3, 0, 2], 4) := by decide +kernel

example : (Utils.textRemap #[30, 10, 30, 99, 10, 42]).1 =
    #[30, 10, 30, 99, 10, 42].map (fun c => ([30, 10, 99, 42].filter (· < c)).length) :=
  (text_remap_ok #[30, 10, 30, 99, 10, 42] [30, 10, 99, 42] (by decide)
    (by intro x; simp; omega)).2

example : (Utils.textRemap #[30, 10, 30, 99, 10, 42]).2 = 4 := by
  rw [(text_remap_eraseDups _).1]; decide +kernel

example : 2 ∈ (Utils.textRemap #[30, 10, 30, 99, 10, 42]).1.toList :=
  (text_remap_image _ 2).2 (by decide +kernel)

example (h0 h3) : (Utils.textRemap #[30, 10, 30, 99, 10, 42]).1[0]'h0 <
    (Utils.textRemap #[30, 10, 30, 99, 10, 42]).1[3]'h3 :=
  (text_remap_order #[30, 10, 30, 99, 10, 42] 0 3 (by decide) (by decide)).1 (by decide)

end Qwt.Props.C17
