import Qwt.Props.C19

/-!
# C19 (addendum) — every builder history builds the same quad vector

`QVectorBuilder` is filled by `push`, by `extend` (in chunks of any size, from iterators with or without an
exact size hint — the size hint is not used by the code) or by `collect`.  Whatever the chunking, the value
built is the one `collect` builds from the concatenation: the harness drives these paths (`qvpush`, `qvext`,
`qvx`, `rsq:frombuilder`, `rsq:inexact`) and compares them with `==`; here the statement is proved for all
histories.
-/
namespace Qwt.Props.C19
open Qwt

/-- extending by `xs ++ ys` is extending by `xs`, then by `ys` -/
theorem qv_extend_append (b : QV.QVectorBuilder) (xs ys : List Int) :
    QV.extend b (xs ++ ys) = (QV.extend b xs >>= fun b' => QV.extend b' ys) := by
  unfold QV.extend
  rw [List.foldlM_append]

/-- a single `push` is an `extend` by one value (`push` takes the `u8` the caller already narrowed) -/
theorem qv_push_eq_extend (b : QV.QVectorBuilder) (v : Int) :
    QV.extend b [v] = QV.push b (QV.asU8 v) := by
  unfold QV.extend
  simp [List.foldlM]

/-- any sequence of `extend` calls = one `extend` by the concatenation of the chunks -/
theorem qv_chunks_eq_flat (chunks : List (List Int)) (b : QV.QVectorBuilder) :
    chunks.foldlM (fun b c => QV.extend b c) b = QV.extend b chunks.flatten := by
  induction chunks generalizing b with
  | nil => simp [QV.extend, pure, Except.pure]
  | cons c cs ih =>
    rw [List.foldlM_cons, List.flatten_cons, qv_extend_append]
    cases h : QV.extend b c with
    | error e => simp [bind, Except.bind]
    | ok b' => simpa [bind, Except.bind] using ih b'

/-- hence every builder history over the same values builds the vector `collect` builds
    (`QV.fromIter = extend {}`; `build` is the identity on the two fields) -/
theorem qv_builder_paths (chunks : List (List Int)) :
    (chunks.foldlM (fun b c => QV.extend b c) ({} : QV.QVectorBuilder)).map QV.build =
      QV.fromIter chunks.flatten := by
  rw [qv_chunks_eq_flat]
  unfold QV.fromIter QV.build
  cases QV.extend {} chunks.flatten <;> rfl

/-- non-vacuity: three chunks (one of them empty, one a single push) of a 5-symbol sequence -/
example : ([[1, 2], [], [7]].foldlM (fun b c => QV.extend b c) ({} : QV.QVectorBuilder)).map QV.build =
    QV.fromIter [1, 2, 7] := qv_builder_paths [[1, 2], [], [7]]

end Qwt.Props.C19
