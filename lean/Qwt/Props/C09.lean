import Qwt.Proofs.PfsTree
import Qwt.Proofs.PfsHuff
import Qwt.Props.C05
import Qwt.Props.C17

/-!
# C09 — prefetching never changes an answer or causes a fault (plain quad wavelet tree)

Model under verification: `Qwt.PFS` (`src/quadwt/prefetch_support.rs`) and
`QWTree.pfsPhase1 / pfsPhase2 / rankPrefetch` (`src/quadwt/mod.rs`).

## The sampling structure

Throughout, `rate = 2 ^ pfsSampleShift` (`PfsP.rate`; `pfsSampleShift` is extracted from the crate,
`11`, i.e. `rate = 2048`, at the time of writing — the literal forms are the `…_2048` corollaries,
which take `pfsSampleShift = 11` as a hypothesis that `rfl` discharges).  The only facts used
about the constant are `1 ≤ pfsSampleShift` (plain tree) and `4 ≤ pfsSampleShift` (Huffman tree:
`16 ≤ rate`, one lost element per level on at most 16 levels), both decided on the extracted value.

`PrefetchSupport::new(qv, pfsSampleShift)` walks a level of length `n`; it pushes one flag per symbol at
every position `i` with `i % rate = 0` and at the last position.  Hence each of the four
sample vectors has `nb n = 1 + ⌈(n-1)/rate⌉` bits (`0` for `n = 0`), the first `j` bits cover
the first `cov n j = min (rate (j-1) + 1) n` elements, and the number of ones among the first
`j` bits of the vector of symbol `k` is `⌊rank k (cov n j) / rate⌋` (`PfsInv`).  Consequently

  `approx_rank(tb, p) = rate · ⌊rank tb (cov n (⌊p/rate⌋+1)) / rate⌋`
                     `≤ rank tb (min (p+1) n) ≤ min (rank tb p + 1) (count tb)`.

## Why phase 1 cannot fault

`approx_rank(tb, p)` unwraps `rank1(sample, ⌊p/rate⌋ + 1)`, which is `Some` iff the level is
non-empty and `⌊p/rate⌋ + 1 ≤ nb n`; this holds for every `p ≤ n` (`approx_rank_in_range`).
The estimated range `(s, e)` of phase 1 satisfies `s ≤ e ≤ n` at every level:
`approx(tb, e) + occs_smaller(tb) ≤ count tb + occs_smaller tb ≤ n` (all levels of the plain
tree have the same length `n = |S| ≥ 1`), and `approx` is monotone (so the final
`range.end - range.start` does not underflow).

## Totality premise

`Qwt/Proofs/QWT.lean` states the construction under `PfsTotal c`, which quantifies over all quad
vectors and cannot be discharged for `c.pfs = true`.  All statements below are proved without
it (the sampling structure is built from the vector produced by the push loop, which satisfies
the C13 invariant), and `LevelLaw` is discharged by C05 + C17: the theorems of section 4 are
closed (hypotheses on the configuration and the input only).
-/
set_option linter.unusedVariables false

namespace Qwt.Props.C09
open Qwt Qwt.QWTree Qwt.Spec Qwt.PfsP

/-! ## 1. `PrefetchSupport::new` -/

/-- number of bits of each sample vector for a level of length `n` -/
abbrev nb (n : Nat) : Nat := PfsP.nbOf n
/-- number of level elements covered by the first `j` sample bits -/
abbrev cov (n j : Nat) : Nat := PfsP.covered n j

/-- the sample rate, `2 ^ pfsSampleShift` -/
theorem rate_def : rate = 2 ^ Extracted.pfsSampleShift := rfl

theorem nb_def (n : Nat) : nb n = if n = 0 then 0 else
    (n + 2 ^ Extracted.pfsSampleShift - 2) / 2 ^ Extracted.pfsSampleShift + 1 := rfl
theorem cov_def (n j : Nat) : cov n j = if j = 0 then 0 else
    min (2 ^ Extracted.pfsSampleShift * (j - 1) + 1) n := rfl

/-- the literal forms, for the shift `11` (`rate = rate`) -/
theorem rate_2048 (h11 : Extracted.pfsSampleShift = 11) : rate = 2048 := PfsP.rate_2048 h11
theorem nb_def_2048 (h11 : Extracted.pfsSampleShift = 11) (n : Nat) :
    nb n = if n = 0 then 0 else (n + 2046) / 2048 + 1 := PfsP.nbOf_2048 h11 n
theorem cov_def_2048 (h11 : Extracted.pfsSampleShift = 11) (n j : Nat) :
    cov n j = if j = 0 then 0 else min (2048 * (j - 1) + 1) n := PfsP.covered_2048 h11 n j

/-- the invariant established by `PrefetchSupport::new qv pfsSampleShift`: shift, four sample vectors, each
    an `RSNarrow` over a bit list `bits` of length `nb n` whose prefix ranks are the sampled
    prefix ranks of the level -/
def PfsInv (qv : QV.QVector) (p : PFS.PrefetchSupport) : Prop := PfsRep (QV.abs qv) p

theorem pfsInv_iff (qv : QV.QVector) (p : PFS.PrefetchSupport) :
    PfsInv qv p ↔ (p.sampleRateShift = Extracted.pfsSampleShift ∧ p.samples.size = 4 ∧
      ∀ k, k < 4 → ∃ r bits, p.samples[k]? = some r ∧ RSN.Inv r bits ∧
        bits.length = nb (QV.abs qv).length ∧
        ∀ j, j ≤ nb (QV.abs qv).length →
          Spec.rank true j bits = Spec.rank k (cov (QV.abs qv).length j) (QV.abs qv) / rate) :=
  ⟨fun h => ⟨h.shift, h.size, h.sample⟩, fun ⟨a, b, c⟩ => ⟨a, b, c⟩⟩

/-- totality of `PrefetchSupport::new` on every well-formed quad vector below the length limit -/
theorem pfs_new_ok (qv : QV.QVector) (h : QV.Inv qv) (hl : QV.len qv < 2 ^ 43) :
    ∃ p, PFS.new qv Extracted.pfsSampleShift = .ok p ∧ PfsInv qv p := by
  rw [QV.len_ok] at hl
  exact PfsP.new_ok qv h (by
    have : two64 = 2 ^ 64 := by decide
    omega)

/-- (the bound actually needed is `len + 1 < 2^64`) -/
theorem pfs_new_ok' (qv : QV.QVector) (h : QV.Inv qv) (hl : (QV.abs qv).length + 1 < two64) :
    ∃ p, PFS.new qv Extracted.pfsSampleShift = .ok p ∧ PfsInv qv p := PfsP.new_ok qv h hl

theorem pfs_new_ok'_11 (h11 : Extracted.pfsSampleShift = 11) (qv : QV.QVector) (h : QV.Inv qv)
    (hl : (QV.abs qv).length + 1 < two64) : ∃ p, PFS.new qv 11 = .ok p ∧ PfsInv qv p := by
  have := pfs_new_ok' qv h hl
  rwa [h11] at this

/-- the meaning of a single sample bit: bit `j` of the vector of symbol `k` is set iff the
    running count of `k` passes a multiple of rate inside the chunk covered by bit `j` -/
theorem pfs_sample_bit {qv : QV.QVector} {p : PFS.PrefetchSupport} (h : PfsInv qv p) (k : Nat)
    (hk : k < 4) : ∃ r bits, p.samples[k]? = some r ∧ RSN.Inv r bits ∧
      bits.length = nb (QV.abs qv).length ∧
      ∀ j, j < nb (QV.abs qv).length →
        bits[j]? = some (decide (Spec.rank k (cov (QV.abs qv).length j) (QV.abs qv) / rate <
          Spec.rank k (cov (QV.abs qv).length (j + 1)) (QV.abs qv) / rate)) := by
  obtain ⟨r, bits, h1, h2, h3, h4⟩ := h.sample k hk
  exact ⟨r, bits, h1, h2, h3, fun j hj => sample_bit h4 h3 j hj⟩

/-! ## 2. `approx_rank_unchecked` -/

/-- inside the sample vectors `approx_rank_unchecked` does not fault; its value is the sampled
    rank at the end of the chunk of `pos`, a lower estimate of `rank tb pos` up to one element,
    and never more than the number of occurrences of `tb` -/
theorem approx_rank_ok {qv : QV.QVector} {p : PFS.PrefetchSupport} (h : PfsInv qv p)
    {tb pos : Nat} (htb : tb < 4) (hpos : pos / rate + 1 ≤ nb (QV.abs qv).length) :
    ∃ v, PFS.approxRankUnchecked p tb pos = .ok v ∧
      v = Spec.rank tb (cov (QV.abs qv).length (pos / rate + 1)) (QV.abs qv) / rate * rate ∧
      v ≤ Spec.rank tb (cov (QV.abs qv).length (pos / rate + 1)) (QV.abs qv) ∧
      v ≤ Spec.rank tb pos (QV.abs qv) + 1 ∧ v ≤ (QV.abs qv).count tb :=
  ⟨_, approx_ok h htb hpos, rfl, approxSpec_le_rank _ _ _, approxSpec_le_succ _ _ _,
    approxSpec_le_count _ _ _⟩

/-- every position `pos ≤ len` of a non-empty level is inside the sample vectors -/
theorem approx_rank_in_range {n pos : Nat} (hn : 0 < n) (hpos : pos ≤ n) : pos / rate + 1 ≤ nb n :=
  block_in_range hn hpos

theorem approx_rank_in_range_2048 (h11 : Extracted.pfsSampleShift = 11) {n pos : Nat} (hn : 0 < n)
    (hpos : pos ≤ n) : pos / 2048 + 1 ≤ nb n := by
  have := approx_rank_in_range hn hpos
  rwa [rate_2048 h11] at this

/-- outside, it faults: the `unwrap` of `rank1 = None` (sharpness of the range condition) -/
theorem approx_rank_fault {qv : QV.QVector} {p : PFS.PrefetchSupport} (h : PfsInv qv p)
    {tb pos : Nat} (htb : tb < 4) (hpos : ¬ pos / rate + 1 ≤ nb (QV.abs qv).length) :
    PFS.approxRankUnchecked p tb pos = .error .unwrapNone := by
  obtain ⟨r, bits, hr, hinv, hlen, _⟩ := h.sample tb htb
  unfold PFS.approxRankUnchecked
  rw [h.shift, shiftRight_shift, uidx_ok' hr, PfsP.ok_bind, hinv.rank1_eq,
    if_neg (fun hc => hpos (Nat.le_trans hc.2 (Nat.le_of_eq hlen))), PfsP.ok_bind]
  rfl

/-- `approx_rank_ok` in literal form, for the shift `11` -/
theorem approx_rank_ok_2048 (h11 : Extracted.pfsSampleShift = 11) {qv : QV.QVector}
    {p : PFS.PrefetchSupport} (h : PfsInv qv p)
    {tb pos : Nat} (htb : tb < 4) (hpos : pos / 2048 + 1 ≤ nb (QV.abs qv).length) :
    ∃ v, PFS.approxRankUnchecked p tb pos = .ok v ∧
      v = Spec.rank tb (cov (QV.abs qv).length (pos / 2048 + 1)) (QV.abs qv) / 2048 * 2048 ∧
      v ≤ Spec.rank tb (cov (QV.abs qv).length (pos / 2048 + 1)) (QV.abs qv) ∧
      v ≤ Spec.rank tb pos (QV.abs qv) + 1 ∧ v ≤ (QV.abs qv).count tb := by
  have := approx_rank_ok h htb (pos := pos) (by rw [rate_2048 h11]; exact hpos)
  rwa [rate_2048 h11] at this

theorem approx_rank_mono (L : List Nat) (tb : Nat) {p q : Nat} (h : p ≤ q) :
    approxSpec L tb p ≤ approxSpec L tb q := approxSpec_mono L tb h

/-! ## 3. the tree: construction with prefetch support, phase 1 -/

/-- C05 + C17: the level contract holds for both block sizes -/
theorem levelLaw (dbg : Bool) {B : Nat} (hB : B = 256 ∨ B = 512) : LevelLaw dbg B :=
  C05.levelLaw (fun w k hw hk => C17.select_in_word_u128_ok w k hw hk) dbg hB

/-- the satisfiable replacement of `PfsTotal` holds for every configuration -/
theorem pfsTotal' (c : Cfg) : PfsTotal' c := QWTree.pfsTotal' c

section tree
variable {c : Cfg} {S : List Nat} {t : QWT}

/-- construction never faults (both `pfs` settings) and establishes the invariants `WM`
    (levels) and `PfsLevels` (one `PfsRep` per level, when `c.pfs = true`) -/
theorem new_ok (c : Cfg) (S : List Nat) (hB : c.B = 256 ∨ c.B = 512) (hW : 0 < c.W)
    (hS : ∀ x ∈ S, x < 2 ^ c.W) (hlen : S.length < 2 ^ 43) :
    ∃ t, QWTree.new c S.toArray = .ok t ∧ t.n = S.length ∧
      (S ≠ [] → t.sigma = Spec.maxNat S ∧
        t.nLevels = (Spec.bitlen (Spec.maxNat S) + 1) / 2) ∧
      (c.pfs = true → S ≠ [] → ∃ pfs, t.pfs = some pfs ∧ PfsLevels pfs 0 t.nLevels S) ∧
      WMP c S t := by
  obtain ⟨t, ht, h⟩ := new_wmp c hW S hS hlen (levelLaw c.dbg hB)
  exact ⟨t, ht, h.wm.n_eq, fun hne => ⟨h.wm.sigma_eq, h.wm.nLevels_eq hne⟩, h.pfs, h⟩

theorem wmp_of_new (hB : c.B = 256 ∨ c.B = 512) (hW : 0 < c.W) (hS : ∀ x ∈ S, x < 2 ^ c.W)
    (hlen : S.length < 2 ^ 43) (hnew : QWTree.new c S.toArray = .ok t) : WMP c S t := by
  obtain ⟨t', ht', h⟩ := new_wmp c hW S hS hlen (levelLaw c.dbg hB)
  rw [hnew] at ht'
  cases ht'
  exact h

/-- what `PfsLevels` says: the sampling structure of level `k` describes the `k`-th digit list
    of the wavelet matrix -/
theorem pfsLevels_wmLevels {pfs : Array PFS.PrefetchSupport} :
    ∀ (f level : Nat) (s : List Nat), PfsLevels pfs level f s →
      ∀ (k : Nat) (D : List Nat), (WM.wmLevels f s)[k]? = some D →
        ∃ p, pfs[level + k]? = some p ∧ PfsRep D p := by
  intro f
  induction f with
  | zero => intro level s _ k D hD; simp [WM.wmLevels] at hD
  | succ f ih =>
    intro level s h k D hD
    obtain ⟨⟨p, hp, hP⟩, hrest⟩ := h
    cases k with
    | zero =>
      simp only [WM.wmLevels, List.getElem?_cons_zero, Option.some.injEq] at hD
      subst hD
      exact ⟨p, hp, hP⟩
    | succ k =>
      simp only [WM.wmLevels, List.getElem?_cons_succ] at hD
      obtain ⟨p', hp', hP'⟩ := ih (level + 1) _ hrest k D hD
      exact ⟨p', by rw [show level + (k + 1) = level + 1 + k by omega]; exact hp', hP'⟩

/-- estimation phase 1 (`rank_prefetch_superblocks_unchecked`) never faults: every symbol
    (valid or not), every position `i ≤ |S|`, both `pfs` settings, the empty tree included -/
theorem pfsPhase1_ok (hB : c.B = 256 ∨ c.B = 512) (hW : 0 < c.W) (hS : ∀ x ∈ S, x < 2 ^ c.W)
    (hlen : S.length < 2 ^ 43) (hnew : QWTree.new c S.toArray = .ok t) (sym i : Nat)
    (hi : i ≤ S.length) : QWTree.pfsPhase1 c t sym i = .ok () := by
  have h := wmp_of_new hB hW hS hlen hnew
  by_cases hne : S = []
  · subst hne
    have hd : QWTree.new c ([] : List Nat).toArray =
        .ok ({ n := 0, nLevels := 0, sigma := 0, qvs := (#[dfltRSQ]), pfs := none } : QWT) := by
      simp [QWTree.new, default_ok (levelLaw_B (levelLaw c.dbg hB)), bind, Except.bind, pure,
        Except.pure]
    rw [hd] at hnew
    cases hnew
    unfold QWTree.pfsPhase1
    cases c.pfs <;> rfl
  · exact h.pfsPhase1_eq hW hS sym i hne hi

/-! ## 4. closed theorems (every configuration with `B ∈ {256, 512}`, `pfs` on or off) -/

theorem get_ok (hB : c.B = 256 ∨ c.B = 512) (hW : 0 < c.W) (hS : ∀ x ∈ S, x < 2 ^ c.W)
    (hlen : S.length < 2 ^ 43) (hnew : QWTree.new c S.toArray = .ok t) (i : Nat) :
    QWTree.get c t i = .ok S[i]? :=
  (wmp_of_new hB hW hS hlen hnew).wm.get_eq hS i

theorem rank_ok (hB : c.B = 256 ∨ c.B = 512) (hW : 0 < c.W) (hS : ∀ x ∈ S, x < 2 ^ c.W)
    (hlen : S.length < 2 ^ 43) (hnew : QWTree.new c S.toArray = .ok t) (sym i : Nat) :
    QWTree.rank c t sym i =
      .ok (if S ≠ [] ∧ sym ≤ Spec.maxNat S ∧ i ≤ S.length then some (Spec.rank sym i S)
           else none) :=
  (wmp_of_new hB hW hS hlen hnew).wm.rank_eq hW hS sym i

theorem select_ok (hB : c.B = 256 ∨ c.B = 512) (hW : 0 < c.W) (hS : ∀ x ∈ S, x < 2 ^ c.W)
    (hlen : S.length < 2 ^ 43) (hnew : QWTree.new c S.toArray = .ok t) (sym k : Nat) :
    QWTree.select c t sym k =
      .ok (if S ≠ [] ∧ sym ≤ Spec.maxNat S then Spec.select sym k S else none) :=
  (wmp_of_new hB hW hS hlen hnew).wm.select_eq hW hS hlen sym k

/-- `rank_prefetch` = `rank`, for every configuration, every symbol and every position (valid
    or not): neither estimation phase faults and the answer is computed by `rank_unchecked` -/
theorem rankPrefetch_eq_rank (hB : c.B = 256 ∨ c.B = 512) (hW : 0 < c.W)
    (hS : ∀ x ∈ S, x < 2 ^ c.W) (hlen : S.length < 2 ^ 43)
    (hnew : QWTree.new c S.toArray = .ok t) (sym i : Nat) :
    QWTree.rankPrefetch c t sym i = QWTree.rank c t sym i :=
  (wmp_of_new hB hW hS hlen hnew).rankPrefetch_eq hW hS sym i

theorem rankPrefetch_ok (hB : c.B = 256 ∨ c.B = 512) (hW : 0 < c.W)
    (hS : ∀ x ∈ S, x < 2 ^ c.W) (hlen : S.length < 2 ^ 43)
    (hnew : QWTree.new c S.toArray = .ok t) (sym i : Nat) :
    QWTree.rankPrefetch c t sym i =
      .ok (if S ≠ [] ∧ sym ≤ Spec.maxNat S ∧ i ≤ S.length then some (Spec.rank sym i S)
           else none) := by
  rw [rankPrefetch_eq_rank hB hW hS hlen hnew, rank_ok hB hW hS hlen hnew]

/-- `rank_prefetch_unchecked` inside its precondition -/
theorem rankPrefetchUnchecked_ok (hB : c.B = 256 ∨ c.B = 512) (hW : 0 < c.W)
    (hS : ∀ x ∈ S, x < 2 ^ c.W) (hlen : S.length < 2 ^ 43)
    (hnew : QWTree.new c S.toArray = .ok t) (sym i : Nat) (hne : S ≠ [])
    (hsym : sym ≤ Spec.maxNat S) (hi : i ≤ S.length) :
    QWTree.rankPrefetchUnchecked c t sym i = .ok (Spec.rank sym i S) := by
  have h := wmp_of_new hB hW hS hlen hnew
  have h1 := pfsPhase1_ok hB hW hS hlen hnew sym i hi
  have h2 := QWTree.pfsPhase2_ok c t sym i S (h.wm.nLevels_ne hne) (h.wm.levels hne)
    (h.wm.shift_lt hW hS hne) hi
  have h3 := h.wm.rankUnchecked_eq hW hS sym i hne hsym hi
  unfold QWTree.rankPrefetchUnchecked
  rw [h1, h2, h3]
  cases c.pfs <;> rfl

end tree

/-! ## non-vacuity -/

/-- the hypotheses are satisfiable with `pfs = true` -/
example : (({ pfs := true, W := 8 } : Cfg).B = 256 ∨ ({ pfs := true, W := 8 } : Cfg).B = 512) ∧
    0 < ({ pfs := true, W := 8 } : Cfg).W ∧ (∀ x ∈ [1, 0, 1, 0, 2, 4, 5, 3], x < 2 ^ 8) := by
  decide

/-- the doc-test of `rank_prefetch`, on the model with prefetch support, by evaluation … -/
example : (do let t ← QWTree.new { pfs := true, W := 8 } #[1, 0, 1, 0, 2, 4, 5, 3]
              QWTree.rankPrefetch { pfs := true, W := 8 } t 1 2) = .ok (some 1) := by
  decide +kernel

example : (do let t ← QWTree.new { pfs := true, W := 8 } #[1, 0, 1, 0, 2, 4, 5, 3]
              QWTree.pfsPhase1 { pfs := true, W := 8 } t 5 8) = .ok () := by
  decide +kernel

example : (do let t ← QWTree.new { pfs := true, W := 8 } #[1, 0, 1, 0, 2, 4, 5, 3]
              pure (t.pfs.map Array.size)) = .ok (some 2) := by
  decide +kernel

/-- … and by the theorem -/
example (t : QWT) (h : QWTree.new { pfs := true, W := 8 } [1, 0, 1, 0, 2, 4, 5, 3].toArray = .ok t) :
    QWTree.rankPrefetch { pfs := true, W := 8 } t 3 8 = .ok (some 1) := by
  rw [rankPrefetch_ok (Or.inl rfl) (by decide) (by decide) (by decide) h]
  decide

/-- the sample vector sizes: 1 bit for one element, 2 up to `rate + 1`, 3 from `rate + 2` -/
example : nb 0 = 0 ∧ nb 1 = 1 ∧ nb 2 = 2 ∧ nb (rate + 1) = 2 ∧ nb (rate + 2) = 3 ∧
    nb (2 * rate + 1) = 3 ∧ nb (2 * rate + 2) = 4 := by
  decide

example : cov (2 * rate + 904) 0 = 0 ∧ cov (2 * rate + 904) 1 = 1 ∧
    cov (2 * rate + 904) 2 = rate + 1 ∧ cov (2 * rate + 904) 3 = 2 * rate + 1 ∧
    cov (2 * rate + 904) 4 = 2 * rate + 904 := by decide

/-- for the shift `11`: 1 bit for one element, 2 up to 2049, 3 from 2050 -/
example (h11 : Extracted.pfsSampleShift = 11) : nb 2049 = 2 ∧ nb 2050 = 3 ∧ nb 4097 = 3 ∧ nb 4098 = 4 := by
  simp only [nb_def_2048 h11]; decide

/-- `PrefetchSupport::new` on a concrete vector: `[1, 3, 2, 3]` gives four 2-bit vectors -/
example : (do let q ← QV.fromIter [5, -1, 2, 7]
              let p ← PFS.new q 11
              pure (p.samples.map (fun (r : RSN.RSNarrow) => r.bv.nBits))) = .ok #[2, 2, 2, 2] := by
  decide +kernel

/-- the range condition is sharp: one block too far is the `unwrap` fault -/
example : (do let q ← QV.fromIter [5, -1, 2, 7]
              let p ← PFS.new q 11
              PFS.approxRankUnchecked p 3 4096) = .error .unwrapNone := by
  decide +kernel

example : (do let q ← QV.fromIter [5, -1, 2, 7]
              let p ← PFS.new q 11
              PFS.approxRankUnchecked p 3 4) = .ok 0 := by
  decide +kernel


/-! ## 5. the Huffman-shaped quad wavelet tree (`HuffQWaveletTree`) — PARTIAL

The levels of the Huffman tree shrink, so the invariant is `estimate_k ≤ true_k + k` (one
element lost per level, `approx_rank(tb, p) ≤ rank(tb, p + 1)`), with
`p ≤ ℓ + rate - 2 → ⌊p/rate⌋ + 1 ≤ nb ℓ` for every non-empty level.  The HQWT level invariant is
not available in this development yet; it enters as the explicit hypothesis `Huff.WalkHyp`
(`D k` = digit list of level `k`, `T k` = true position of the walk at level `k`; the HQWT
invariant gives `T k = blkStart k + cnt k i`). -/

/-- totality of `PrefetchSupport::new` on every vector produced by a push loop, in the form
    the Huffman level constructor needs it (no length hypothesis) -/
theorem pfs_new_of_pushes (digits : List Nat) (hd : ∀ d ∈ digits, d < 4)
    (qvb : QV.QVectorBuilder)
    (h : digits.foldlM (fun (b : QV.QVectorBuilder) d => QV.push b d) {} = .ok qvb) :
    ∃ p, PFS.new (QV.build qvb) Extracted.pfsSampleShift = .ok p ∧ PfsRep digits p :=
  PfsP.new_of_pushes digits hd qvb h

/-- the arithmetic fact: an estimate at most `rate - 2` beyond a position of a non-empty level is
    inside the sample vectors -/
theorem est_in_range {n T p k : Nat} (hn : 0 < n) (hT : T ≤ n) (hp : p ≤ T + k) (hk : k + 2 ≤ rate) :
    p / rate + 1 ≤ nb n := PfsP.est_in_range hn hT hp hk

theorem est_in_range_2048 (h11 : Extracted.pfsSampleShift = 11) {n T p k : Nat} (hn : 0 < n)
    (hT : T ≤ n) (hp : p ≤ T + k) (hk : k ≤ 2046) : p / 2048 + 1 ≤ nb n := by
  have := est_in_range hn hT hp (k := k) (by rw [rate_2048 h11]; omega)
  rwa [rate_2048 h11] at this

/-- the room needed on the Huffman tree: at most 16 levels (codes of at most 32 bits) -/
theorem rate_ge_16 : 16 ≤ rate := PfsP.rate_ge_16

/-- … and it is sharp: at distance `rate - 1` the block is outside (`n = 1`, `p = rate`) -/
example : ¬ (rate / rate + 1 ≤ nb 1) := by decide

/-- one element is lost per level -/
theorem approx_track (L : List Nat) (tb : Nat) {e T k : Nat} (he : e ≤ T + k) :
    approxSpec L tb e ≤ Spec.rank tb T L + (k + 1) := approxSpec_le_track L tb he

/-- PARTIAL: phase 1 on the Huffman tree never faults, given the level invariant `WalkHyp` -/
theorem huff_pfsPhase1_ok_partial {c : Cfg} {t : Huff.HQWT} {code : Huff.PrefixCode}
    {pfs : Array PFS.PrefetchSupport} {D : Nat → List Nat} {T : Nat → Nat}
    (hpfs : t.pfs = some pfs) (h : Huff.WalkHyp c t code pfs D T) (hlen : 2 ≤ code.len) (i : Nat)
    (hi : i ≤ T 0) : Huff.pfsPhase1 c t code i = .ok () :=
  Huff.pfsPhase1_ok_partial hpfs h hlen i hi

/-- PARTIAL: `rank_prefetch = rank` on the Huffman tree as soon as the two estimation phases do
    not fault on valid arguments (phase 1: `huff_pfsPhase1_ok_partial`; phase 2 is part of the
    HQWT development) -/
theorem huff_rankPrefetch_eq_rank_partial (c : Cfg) (t : Huff.HQWT) (symbol i : Nat)
    (hph : ∀ code, Huff.codeOf t symbol = some code → i ≤ t.n →
      (c.pfs = true → Huff.pfsPhase1 c t code i = .ok ()) ∧ Huff.pfsPhase2 c t code i = .ok ()) :
    Huff.rankPrefetch c t symbol i = Huff.rank c t symbol i :=
  Huff.rankPrefetch_eq_rank_of_phases c t symbol i hph

/-- `WalkHyp` is satisfiable (two levels of lengths 12 and 5, the walk of the code `0,3`) -/
example : ∃ (t : Huff.HQWT) (pfs : Array PFS.PrefetchSupport) (D : Nat → List Nat) (T : Nat → Nat),
    t.pfs = some pfs ∧ Huff.WalkHyp { pfs := true, W := 8 } t ⟨3, 4⟩ pfs D T ∧ 12 ≤ T 0 := by
  let D0 : List Nat := [3, 3, 3, 2, 2, 1, 0, 0, 0, 0, 3, 0]
  let D1 : List Nat := [3, 2, 1, 0, 3]
  obtain ⟨r0, _, hR0⟩ := levelLaw false (B := 256) (Or.inl rfl) D0 (by decide) (by decide)
  obtain ⟨r1, _, hR1⟩ := levelLaw false (B := 256) (Or.inl rfl) D1 (by decide) (by decide)
  obtain ⟨q0, hq0, _⟩ := RSQP.pushes_ok D0 {} QV.empty_inv.1 (by decide)
  obtain ⟨p0, _, hP0⟩ := pfs_new_of_pushes D0 (by decide) q0 hq0
  refine ⟨{ qvs := #[r0, r1], pfs := some #[p0] }, #[p0], fun k => if k = 0 then D0 else D1,
    fun k => if k = 0 then 12 else 5, rfl, ⟨by decide, ?_, ?_, ?_, ?_, ?_⟩, by decide⟩
  · intro k hk
    have : k = 0 ∨ k = 1 := by
      have : k < 2 := hk
      omega
    rcases this with rfl | rfl
    · exact ⟨r0, rfl, hR0⟩
    · exact ⟨r1, rfl, hR1⟩
  · intro k hk
    have : k = 0 := by
      have : k + 1 < 2 := hk
      omega
    subst this
    exact ⟨p0, rfl, hP0⟩
  · intro k hk
    have : k = 0 := by
      have : k + 1 < 2 := hk
      omega
    subst this; decide
  · intro k hk
    have : k = 0 := by
      have : k + 1 < 2 := hk
      omega
    subst this; decide
  · intro k hk
    have : k = 0 := by
      have : k + 1 < 2 := hk
      omega
    subst this; decide

/-- the model itself on a two-level Huffman tree with prefetch support, by evaluation -/
example : (do let t ← Huff.new { pfs := true, W := 8 } #[0, 0, 0, 1, 1, 2, 3, 4, 5, 6, 0, 3]
                [(0, 1), (1, 1), (2, 1), (3, 2), (4, 2), (5, 2), (6, 2)]
              Huff.rankPrefetch { pfs := true, W := 8 } t 3 12) = .ok (some 2) := by
  decide +kernel

example : (do let t ← Huff.new { pfs := true, W := 8 } #[0, 0, 0, 1, 1, 2, 3, 4, 5, 6, 0, 3]
                [(0, 1), (1, 1), (2, 1), (3, 2), (4, 2), (5, 2), (6, 2)]
              pure (t.lens, t.pfs.map Array.size)) = .ok (#[12, 5], some 2) := by
  decide +kernel

end Qwt.Props.C09
